(* C09: Reg, TReg, PipelinePhase, EdgeDetector, AutoReset. *)
From V Require Import Base.Bits Gen.WireOps Gen.Prims Gen.Seq Model.SeqBlocks Spec.C09 Proofs.C09.Leaves Proofs.C09.Run.

(* ------------------------------------------------------------------ Reg *)
Lemma reg_edge_eq w he hr rv c d e r :
  reg_edge w he hr rv c d e r =
  ({| Reg_s_value := reg_next he hr rv (cell_value c) d e r |}, trunc w (reg_next he hr rv (cell_value c) d e r)).
Proof. unfold reg_edge, cell_value. apply Reg_clock_eq. Qed.

(* the q wire of a register cell is always the masked attribute once an edge has happened *)
Lemma reg_edge_q w he hr rv c d e r :
  cell_q (reg_edge w he hr rv c d e r) = trunc w (cell_value (reg_edge w he hr rv c d e r)).
Proof. rewrite reg_edge_eq. reflexivity. Qed.

Definition reg_rel (w : Z) (c : cell) (s : Z) : Prop := trunc w (cell_value c) = s.

Lemma reg_step_sim w he hr rv c s i : 0 <= w -> reg_rel w c s ->
  reg_rel w (reg_m w he hr rv c i) (reg_spec w he hr rv s i) /\ cell_q (reg_m w he hr rv c i) = reg_spec w he hr rv s i.
Proof.
  intros Hw H. destruct i as [[d e] r]. unfold reg_m, reg_spec, reg_rel in *. rewrite reg_edge_eq.
  unfold cell_q, cell_value, reg_next in *. cbn [fst snd Reg_s_value].
  destruct (hr && (r =? 1)); [rewrite trunc_mod by lia; auto|].
  destruct (he && (e =? 0)); [auto|]. rewrite trunc_mod by lia; auto.
Qed.

Definition reg_rel_q (w : Z) (c : cell) (s : Z) : Prop := reg_rel w c s /\ cell_q c = s.

(* from construction on (also for the empty history: before the first edge q = reset_value mod 2^w) *)
Lemma reg_refines w he hr rv h : 0 <= w ->
  cell_q (run (reg_m w he hr rv) (cell_init w rv) h) = run (reg_spec w he hr rv) (reg_spec_init w rv) h.
Proof.
  intros Hw.
  apply (run_sim (reg_m w he hr rv) (reg_spec w he hr rv) (reg_rel_q w)).
  - intros c s i [H _]. split; apply reg_step_sim; auto.
  - unfold reg_rel_q, reg_rel, reg_spec_init, cell_init, cell_q, cell_value. cbn [fst snd Reg_s_value].
    change (Wire_put w rv) with (trunc w rv). split; apply trunc_mod; lia.
Qed.

(* the (unmasked) attribute follows the reference machine too *)
Lemma reg_value_refines w he hr rv h : 0 <= w ->
  cell_value (run (reg_m w he hr rv) (cell_init w rv) h) mod 2 ^ w = run (reg_spec w he hr rv) (reg_spec_init w rv) h.
Proof.
  intros Hw. rewrite <- trunc_mod by lia.
  apply (run_sim (reg_m w he hr rv) (reg_spec w he hr rv) (reg_rel_q w)).
  - intros c s i [H _]. split; apply reg_step_sim; auto.
  - unfold reg_rel_q, reg_rel, reg_spec_init, cell_init, cell_q, cell_value. cbn [fst snd Reg_s_value].
    change (Wire_put w rv) with (trunc w rv). split; apply trunc_mod; lia.
Qed.
(* the power-up clause on its own, and the zero-reset cell used by all structural blocks *)
Lemma reg_powerup_q w rv : 0 <= w -> cell_q (cell_init w rv) = rv mod 2 ^ w.
Proof. intros Hw. unfold cell_init, cell_q. cbn [snd]. change (Wire_put w rv) with (trunc w rv). apply trunc_mod; lia. Qed.
Lemma cell_init_zero w : cell_init w 0 = cell_zero.
Proof. reflexivity. Qed.

(* ------------------------------------------------------------------ TReg *)
Lemma treg_d_eq q t : 0 <= q <= 1 -> treg_d q t = if Z.odd t then 1 - q else q.
Proof.
  intros Hq. unfold treg_d. cbv zeta. rewrite Mux2_eq, Not_eq.
  assert (q = 0 \/ q = 1) as [-> | ->] by lia; destruct (Z.odd t); reflexivity.
Qed.

Definition treg_rel (c : cell) (s : Z) : Prop := cell_q c = s /\ cell_value c = s /\ 0 <= s <= 1.

Lemma treg_step_sim wq he hr c s i : 1 <= wq -> treg_rel c s -> treg_rel (treg_m wq he hr c i) (treg_spec he hr s i).
Proof.
  intros Hw (Hq & Hv & Hs). destruct i as [[t e] r]. unfold treg_m, treg_step, treg_spec, treg_rel.
  rewrite reg_edge_eq. unfold cell_q, cell_value in *. cbn [fst snd Reg_s_value].
  rewrite Hq, Hv, treg_d_eq by lia. unfold reg_next, bit0.
  assert (Hp : 2 <= 2 ^ wq) by (change 2 with (2 ^ 1) at 1; apply pow2_le; lia).
  destruct (hr && (r =? 1)); [rewrite trunc_small by lia; lia|].
  destruct (he && (e =? 0)); [rewrite trunc_small by lia; lia|].
  destruct (Z.odd t); rewrite trunc_small by lia; lia.
Qed.

Lemma treg_refines wq he hr h : 1 <= wq ->
  cell_q (run (treg_m wq he hr) cell_zero h) = run (treg_spec he hr) 0 h.
Proof.
  intros Hw. apply (run_sim (treg_m wq he hr) (treg_spec he hr) treg_rel).
  - intros; apply treg_step_sim; auto.
  - unfold treg_rel; cbn; lia.
Qed.

(* ------------------------------------------------------------------ PipelinePhase *)
Lemma pipe_step_q ws : forall cs ins reset, Forall (fun w => 0 <= w) ws -> length cs = length ws -> length ins = length ws ->
  map cell_q (pipe_step ws cs ins reset) = pipe_spec ws ins reset.
Proof.
  induction ws as [|w ws IH]; intros cs ins reset Hw Hc Hi; [reflexivity|].
  destruct cs as [|c cs]; [discriminate|]. destruct ins as [|a ins]; [discriminate|].
  inversion Hw; subst. cbn [pipe_step map pipe_spec combine]. f_equal.
  - rewrite reg_edge_eq. unfold cell_q, reg_next. cbn [snd andb].
    destruct (reset =? 1); [reflexivity|]. apply trunc_mod; lia.
  - apply IH; auto.
Qed.
Lemma pipe_step_length ws : forall cs ins reset, length cs = length ws -> length ins = length ws ->
  length (pipe_step ws cs ins reset) = length ws.
Proof.
  induction ws as [|w ws IH]; intros cs ins reset Hc Hi; [reflexivity|].
  destruct cs as [|c cs]; [discriminate|]. destruct ins as [|a ins]; [discriminate|].
  cbn [pipe_step length]. f_equal. apply IH; auto.
Qed.

(* for every history of (ins, reset) rows of the right arity: after the last edge the lanes show pipe_spec of the last row *)
Lemma pipe_run_length ws h : Forall (fun i : list Z * Z => length (fst i) = length ws) h ->
  length (run (pipe_m ws) (pipe_init ws) h) = length ws.
Proof.
  intros Hh. assert (Hinit : length (pipe_init ws) = length ws) by (unfold pipe_init; apply map_length).
  revert Hinit. generalize (pipe_init ws). induction Hh as [|i h Hi Hh IH]; intros cs Hc; [exact Hc|].
  rewrite run_cons. apply IH. unfold pipe_m. apply pipe_step_length; auto.
Qed.
Lemma pipeline_refines ws h ins reset :
  Forall (fun w => 0 <= w) ws -> Forall (fun i : list Z * Z => length (fst i) = length ws) h -> length ins = length ws ->
  map cell_q (run (pipe_m ws) (pipe_init ws) (h ++ [(ins, reset)])) = pipe_spec ws ins reset.
Proof.
  intros Hw Hh Hi. rewrite run_snoc. unfold pipe_m at 1. cbn [fst snd].
  apply pipe_step_q; auto. apply pipe_run_length; auto.
Qed.

(* ------------------------------------------------------------------ EdgeDetector *)
Lemma edge_out_eq dir c a : (cell_q c = 0 \/ cell_q c = 1) -> (a = 0 \/ a = 1) ->
  edge_out dir 1 c a = edge_spec (dir_kind dir) (cell_q c) a.
Proof.
  intros [Hq | Hq] [-> | ->]; unfold edge_out; rewrite Hq; destruct dir; reflexivity.
Qed.

Lemma edge_step_q c a : (a = 0 \/ a = 1) -> cell_q (edge_step c a) = a.
Proof. intros [-> | ->]; unfold edge_step; rewrite reg_edge_eq; reflexivity. Qed.

(* after any history a_1..a_n of sampled values (n >= 1), with the input now at `a`, r = edge(a_n -> a);
   before the first edge the stored sample is 0 *)
Lemma edge_detector_refines dir h a_last a :
  Forall (fun x => x = 0 \/ x = 1) h -> (a_last = 0 \/ a_last = 1) -> (a = 0 \/ a = 1) ->
  edge_out dir 1 (run edge_step cell_zero (h ++ [a_last])) a = edge_spec (dir_kind dir) a_last a.
Proof.
  intros Hh Hl Ha. rewrite run_snoc.
  pose proof (edge_step_q (run edge_step cell_zero h) a_last Hl) as Hq.
  rewrite edge_out_eq; auto. - rewrite Hq. reflexivity. - rewrite Hq. exact Hl.
Qed.
Lemma edge_detector_powerup dir a : (a = 0 \/ a = 1) -> edge_out dir 1 cell_zero a = edge_spec (dir_kind dir) 0 a.
Proof. intros Ha. apply edge_out_eq; auto. Qed.

(* ------------------------------------------------------------------ AutoReset *)
Lemma ar_step_eq w s : ar_step w s =
  let st := AutoReset_s_state (fst s) in
  if st =? 0 then ({| AutoReset_s_state := 1 |}, trunc w 1)
  else if st =? 1 then ({| AutoReset_s_state := 2 |}, snd s)
  else if st =? 2 then ({| AutoReset_s_state := 2 |}, trunc w 0)
  else ({| AutoReset_s_state := 0 |}, snd s).
Proof.
  unfold ar_step. rewrite AutoReset_clock_eq. cbv zeta.
  destruct (AutoReset_s_state (fst s) =? 0); [reflexivity|].
  destruct (AutoReset_s_state (fst s) =? 1); [reflexivity|].
  destruct (AutoReset_s_state (fst s) =? 2); reflexivity.
Qed.

Lemma ar_1 w : ar_step w ar_init = ({| AutoReset_s_state := 1 |}, trunc w 1).
Proof. rewrite ar_step_eq. reflexivity. Qed.
Lemma ar_2 w : ar_step w ({| AutoReset_s_state := 1 |}, trunc w 1) = ({| AutoReset_s_state := 2 |}, trunc w 1).
Proof. rewrite ar_step_eq. reflexivity. Qed.
Lemma ar_3 w x : ar_step w ({| AutoReset_s_state := 2 |}, x) = ({| AutoReset_s_state := 2 |}, 0).
Proof. rewrite ar_step_eq. reflexivity. Qed.

Lemma autoreset_refines w k : 0 <= w -> ar_out (iter k (ar_step w) ar_init) = autoreset_spec w k.
Proof.
  intros Hw.
  assert (H3 : forall j, iter (3 + j) (ar_step w) ar_init = ({| AutoReset_s_state := 2 |}, 0)).
  { induction j as [|j IH].
    - cbn [iter Nat.add]. rewrite ar_1, ar_2, ar_3. reflexivity.
    - replace (3 + S j)%nat with (S (3 + j)) by lia. cbn [iter]. rewrite IH, ar_3. reflexivity. }
  destruct k as [|[|[|k]]].
  - reflexivity.
  - cbn [iter]. rewrite ar_1. unfold ar_out, autoreset_spec. cbn [snd]. apply trunc_mod; lia.
  - cbn [iter]. rewrite ar_1, ar_2. unfold ar_out, autoreset_spec. cbn [snd]. apply trunc_mod; lia.
  - change (S (S (S k))) with (3 + k)%nat. rewrite H3. reflexivity.
Qed.
