(* C09: EqualConstant (1-bit result) decides equality with the constant.
   Uses only the characterising equations of Proofs/C09/Leaves.v for the generated leaves. *)
From V Require Import Base.Bits Gen.WireOps Gen.Prims Gen.Seq Model.SeqBlocks Proofs.C09.Leaves.

(* ---- small facts on 1-bit values *)
Lemma trunc1_b2z b : trunc 1 (b2z b) = b2z b.
Proof. destruct b; reflexivity. Qed.

Lemma Not1_b2z b : Not_propagate 1 (b2z b) = b2z (negb b).
Proof. rewrite Not_eq. destruct b; reflexivity. Qed.

Lemma And1_b2z a b : And2_propagate 1 (b2z a) (b2z b) = b2z (a && b).
Proof. rewrite And2_eq. destruct a, b; reflexivity. Qed.

Lemma nth_repeat1 n k : (k < n)%nat -> nth k (repeat 1 n) 0 = 1.
Proof.
  revert k. induction n as [|n IH]; intros k Hk; [inversion Hk|].
  destruct k as [|k]; [reflexivity|]. cbn [repeat nth]. apply IH. apply Nat.succ_lt_mono. exact Hk.
Qed.

Lemma in_seqZ0 w i : In i (seqZ 0 w) <-> 0 <= i < w.
Proof.
  unfold seqZ. rewrite in_map_iff. split.
  - intros [k [Hk Hin]]. apply in_seq in Hin. lia.
  - intros Hi. exists (Z.to_nat i). split; [lia|]. apply in_seq. lia.
Qed.

(* ---- step 1: the BitsLSBF outputs on 1-bit wires are the bits of q *)
Lemma bits_of w q : 0 <= w ->
  BitsLSBF_propagate w (repeat 1 (Z.to_nat w)) q = map (fun i => b2z (Z.testbit q i)) (seqZ 0 w).
Proof.
  intros Hw. rewrite BitsLSBF_eq. apply map_ext_in. intros i Hi. apply in_seqZ0 in Hi.
  unfold Prims.getZ. rewrite nth_repeat1 by lia. rewrite bitZ_b2z by lia. apply trunc1_b2z.
Qed.

(* ---- step 2: minterm_parts negates exactly the positions where the constant has a 0 *)
Lemma minterm_parts_seq v q n : forall s,
  minterm_parts (Z.of_nat s) v (map (fun k => b2z (Z.testbit q (Z.of_nat k))) (seq s n)) =
  map (fun k => b2z (Bool.eqb (Z.testbit q (Z.of_nat k)) (Z.testbit v (Z.of_nat k)))) (seq s n).
Proof.
  induction n as [|n IH]; intros s; [reflexivity|].
  cbn [seq map minterm_parts]. f_equal.
  - change (Z.land (py_shr v (Z.of_nat s)) 1) with (bitZ v (Z.of_nat s)). rewrite bitZ_b2z by lia.
    destruct (Z.testbit v (Z.of_nat s)).
    + change (b2z true =? 0) with false. cbv iota. destruct (Z.testbit q (Z.of_nat s)); reflexivity.
    + change (b2z false =? 0) with true. cbv iota. rewrite Not1_b2z.
      destruct (Z.testbit q (Z.of_nat s)); reflexivity.
  - replace (Z.of_nat s + 1) with (Z.of_nat (S s)) by lia. apply IH.
Qed.

Lemma minterm_parts_bits w v q :
  minterm_parts 0 v (map (fun i => b2z (Z.testbit q i)) (seqZ 0 w)) =
  map b2z (map (fun i => Bool.eqb (Z.testbit q i) (Z.testbit v i)) (seqZ 0 w)).
Proof.
  unfold seqZ. rewrite !map_map. cbn [Z.add].
  exact (minterm_parts_seq v q (Z.to_nat (w - 0)) 0%nat).
Qed.

(* ---- step 3: the And2 ladder on 1-bit wires is the conjunction *)
Lemma fold_and1 bs : forall a,
  fold_left (fun acc x => And2_propagate 1 acc x) (map b2z bs) (b2z a) = b2z (a && forallb id bs).
Proof.
  induction bs as [|b bs IH]; intros a.
  - cbn [map fold_left forallb]. rewrite andb_true_r. reflexivity.
  - cbn [map fold_left forallb]. rewrite And1_b2z, IH. unfold id at 2. rewrite andb_assoc. reflexivity.
Qed.

Lemma and_ladder_b2z bs : bs <> [] -> and_ladder 1 (map b2z bs) = b2z (forallb id bs).
Proof.
  intros Hne. destruct bs as [|a [|b rest]]; [congruence| |].
  - cbn [map and_ladder forallb]. rewrite Buf_eq, trunc1_b2z. unfold id. rewrite andb_true_r. reflexivity.
  - change (and_ladder 1 (map b2z (a :: b :: rest)))
      with (fold_left (fun acc x => And2_propagate 1 acc x) (map b2z (b :: rest)) (b2z a)).
    rewrite fold_and1. reflexivity.
Qed.

(* ---- step 4: all w low bits agree iff the values are equal *)
Lemma testbit_high_false w x i : 0 <= w -> 0 <= x < 2 ^ w -> w <= i -> Z.testbit x i = false.
Proof.
  intros Hw Hx Hi. rewrite <- (Z.mod_small x (2 ^ w)) by lia. apply Z.mod_pow2_bits_high. lia.
Qed.

Lemma forallb_bits_eq w q v : 0 <= w -> 0 <= q < 2 ^ w -> 0 <= v < 2 ^ w ->
  forallb id (map (fun i => Bool.eqb (Z.testbit q i) (Z.testbit v i)) (seqZ 0 w)) = (q =? v).
Proof.
  intros Hw Hq Hv. destruct (Z.eqb_spec q v) as [E|N].
  - subst v. apply forallb_forall. intros b Hb. apply in_map_iff in Hb.
    destruct Hb as [i [Hi _]]. subst b. unfold id. apply eqb_reflx.
  - destruct (forallb id _) eqn:F; [|reflexivity]. exfalso. apply N.
    rewrite forallb_forall in F. apply Z.bits_inj'. intros i Hi.
    destruct (Z.ltb_spec i w) as [Hlt|Hge].
    + apply eqb_prop. apply (F (Bool.eqb (Z.testbit q i) (Z.testbit v i))).
      apply in_map_iff. exists i. split; [reflexivity|]. apply in_seqZ0. lia.
    + rewrite (testbit_high_false w q i), (testbit_high_false w v i) by lia. reflexivity.
Qed.

(* ---- the block *)
Lemma equal_constant_eq w v q : 1 <= w -> 0 <= q < 2 ^ w -> 0 <= v < 2 ^ w ->
  equal_constant w 1 v q = if q =? v then 1 else 0.
Proof.
  intros Hw Hq Hv. unfold equal_constant. destruct (Z.eqb_spec w 1) as [E|N].
  - subst w. change (2 ^ 1) with 2 in Hq, Hv.
    assert (Hq' : q = 0 \/ q = 1) by lia. assert (Hv' : v = 0 \/ v = 1) by lia.
    destruct Hq' as [-> | ->], Hv' as [-> | ->]; reflexivity.
  - rewrite bits_of by lia. rewrite minterm_parts_bits. rewrite and_ladder_b2z.
    + rewrite forallb_bits_eq by lia. destruct (q =? v); reflexivity.
    + intros Hnil. apply map_eq_nil in Hnil.
      assert (Hin : In 0 (seqZ 0 w)) by (apply in_seqZ0; lia).
      rewrite Hnil in Hin. exact Hin.
Qed.

Example equal_constant_sanity : equal_constant 3 1 5 5 = 1 /\ equal_constant 3 1 5 4 = 0.
Proof. vm_compute. split; reflexivity. Qed.
