(* C09: the KERNEL-LEVEL netlist of DelayLine (py4hw/logic/storage.py, DelayLine.__init__) run by Model/SimKernel.clk_cycle
   computes, wire for wire, the block model delay_m / delay_out of Model/SeqBlocks.v - for EVERY delay (the number of
   leaves of the netlist), every width, every port configuration and every poke history from power-up.

   `delayline_design w wo we wr he hr delay` is HAND-WRITTEN as a function of `delay` (a recursion producing the chain of Reg
   leaves), in exactly the shape py/netlist.py `Dump.coq_design` prints for a live `DelayLine` inside a bare `HWSystem`:
   wire ids = position in all_wires: 0 = the HWSystem clk wire, 1 = a, then en (if present), reset (if present), r, and then
   the internal wires r0 .. r{delay-1} in creation order; ONE combinational leaf (the Buf from the last chain wire - or from
   a when delay = 0 - to r); the Reg leaves in construction order, all on one un-gated clock driver (NO driver when
   delay = 0); leaf functions = the REGENERATED Gen definitions.  Proofs/C09/NetlistDelayDump.v compares it by
   `reflexivity` with the text Dump printed for live objects (delay 0, 1, 2, 3, 5; all four port configurations).
   Unlike Counter / TReg (Proofs/C09/Netlist.v) the netlist has a parameter-dependent SIZE, so the proof is an induction over
   the netlist (clockAll over the chain, the settling of the pending q values), not a symbolic evaluation. *)
From V Require Import Base.Bits Gen.WireOps Gen.Helpers Gen.Prims Gen.Seq Model.SimKernel Model.Trace Model.SeqBlocks Spec.C09.
From V Require Import Proofs.C09.Leaves Proofs.C09.Run Proofs.C09.Delay Proofs.C09.Netlist.

(* ------------------------------------------------------------------ the design term *)
(* id of the output wire r: 0 = clk, 1 = a, en?, reset?, r *)
Definition dl_r (he hr : bool) : nat := (2 + (if he then 1 else 0) + (if hr then 1 else 0))%nat.
Definition dl_en : nat := 2%nat.
Definition dl_rs (he : bool) : nat := if he then 3%nat else 2%nat.

(* Reg(self, 'r{i}', last, newlast, enable=en, reset=reset), reset_value 0, as Dump prints it *)
Definition dl_reg (w : Z) (he hr : bool) (en rs src out : nat) : sleaf AnySt :=
  match he, hr with
  | true, true => {| s_in := [src; en; rs]; s_out := [out]; s_f := fun st ins => match st, ins with St_Reg s, [x1; x2; x3] => let '(s', r) := Reg_clock w true true 0 s x1 x2 x3 in (St_Reg s', [Some r]) | _, _ => (st, []) end |}
  | false, true => {| s_in := [src; rs]; s_out := [out]; s_f := fun st ins => match st, ins with St_Reg s, [x1; x2] => let '(s', r) := Reg_clock w false true 0 s x1 0 x2 in (St_Reg s', [Some r]) | _, _ => (st, []) end |}
  | true, false => {| s_in := [src; en]; s_out := [out]; s_f := fun st ins => match st, ins with St_Reg s, [x1; x2] => let '(s', r) := Reg_clock w true false 0 s x1 x2 0 in (St_Reg s', [Some r]) | _, _ => (st, []) end |}
  | false, false => {| s_in := [src]; s_out := [out]; s_f := fun st ins => match st, ins with St_Reg s, [x1] => let '(s', r) := Reg_clock w false false 0 s x1 0 0 in (St_Reg s', [Some r]) | _, _ => (st, []) end |}
  end.
(* last = a; for i in range(delay): newlast = wire r{i}; Reg(last -> newlast); last = newlast *)
Fixpoint dl_regs (w : Z) (he hr : bool) (en rs src out : nat) (n : nat) : list (sleaf AnySt) :=
  match n with
  | O => []
  | S n' => dl_reg w he hr en rs src out :: dl_regs w he hr en rs out (S out) n'
  end.

(* w = width of a (and of the chain wires r{i}), wo = width of r, we / wr = widths of the en / reset wires *)
Definition delayline_design (w wo we wr : Z) (he hr : bool) (delay : nat) : design AnySt :=
  let r := dl_r he hr in
  {| widths := [1; w] ++ (if he then [we] else []) ++ (if hr then [wr] else []) ++ [wo] ++ repeat w delay;
     combs := [
      {| c_in := [match delay with O => 1%nat | S k => (S r + k)%nat end]; c_out := [r];
         c_f := fun ins => match ins with [x1] => let r := Buf_propagate wo x1 in [Some r] | _ => [] end |}];
     seqs := dl_regs w he hr dl_en (dl_rs he) 1%nat (S r) delay;
     drivers := match delay with O => [] | S _ => [{| d_enable := None; d_leaves := seq 0 delay |}] end |}.
Definition delayline_st0 (delay : nat) : list AnySt := repeat (St_Reg {| Reg_s_value := 0 |}) delay.
(* Reg.__init__ puts reset_value 0 on every chain wire *)
Definition delayline_init_pokes (he hr : bool) (delay : nat) : list (nat * Z) :=
  map (fun k => (k, 0)) (seq (S (dl_r he hr)) delay).

(* ------------------------------------------------------------------ how the harness drives it (Model/Trace.v) *)
Definition delayline_pokes (he hr : bool) (i : Z * Z * Z) : list (nat * Z) :=
  let '(a, e, r) := i in
  [(1%nat, a)] ++ (if he then [(dl_en, e)] else []) ++ (if hr then [(dl_rs he, r)] else []).
Definition delayline_net_step (w wo we wr : Z) (he hr : bool) (delay : nat) (s : state AnySt) (i : Z * Z * Z) : state AnySt :=
  do_step (delayline_design w wo we wr he hr delay) s (delayline_pokes he hr i, 1%nat).
Definition delayline_net_init (w wo we wr : Z) (he hr : bool) (delay : nat) : state AnySt :=
  init_poked (delayline_design w wo we wr he hr delay) (delayline_st0 delay) (delayline_init_pokes he hr delay).
Definition delayline_seen (w we wr : Z) (i : Z * Z * Z) : Z * Z * Z :=
  let '(a, e, r) := i in (Wire_put w a, Wire_put we e, Wire_put wr r).
Definition delayline_net_run (w wo we wr : Z) (he hr : bool) (delay : nat) (h : list (Z * Z * Z)) : state AnySt :=
  fold_left (delayline_net_step w wo we wr he hr delay) h (delayline_net_init w wo we wr he hr delay).

(* ------------------------------------------------------------------ list facts *)
Lemma set_nth_app_len {A} (pre : list A) x l y : set_nth (pre ++ x :: l) (length pre) y = pre ++ y :: l.
Proof. induction pre as [|p pre IH]; cbn; [reflexivity|]. rewrite IH. reflexivity. Qed.
Lemma nth_app_len {A} (pre : list A) l k d : nth (length pre + k) (pre ++ l) d = nth k l d.
Proof. induction pre as [|p pre IH]; cbn; [reflexivity|]. exact IH. Qed.
Lemma nth_is_last {A} : forall (l : list A) k d d', length l = S k -> nth k l d = last l d'.
Proof.
  induction l as [|x l IH]; intros k d d' Hl; [discriminate|].
  destruct l as [|y l]; [destruct k; [reflexivity|discriminate]|].
  destruct k as [|k]; [discriminate|]. change (nth (S k) (x :: y :: l) d) with (nth k (y :: l) d).
  rewrite (IH k d d') by (cbn in *; lia). reflexivity.
Qed.
Lemma last_nonempty {A} : forall (l : list A) d d', l <> [] -> last l d = last l d'.
Proof.
  induction l as [|x l IH]; intros d d' Hne; [congruence|].
  destruct l as [|y l]; [reflexivity|]. cbn [last]. apply IH. discriminate.
Qed.

(* ------------------------------------------------------------------ GENERIC kernel fact: clockAll over consecutive leaves.
   The leaves at positions |pre_l| .. |pre_l|+|ls|-1 all read the SAME (pre-edge) valuation; their results queue up in pend. *)
Definition leaf_res (vs : list Z) (p : sleaf AnySt * AnySt) : AnySt * list (option Z) :=
  s_f (fst p) (snd p) (map (rd vs) (s_in (fst p))).

Lemma clockAll_chain (D : design AnySt) vs tot : forall ls ss pre_l pre_s pd,
  length pre_l = length pre_s -> length ls = length ss -> seqs D = pre_l ++ ls ->
  fold_left (clock1 D) (seq (length pre_l) (length ls)) {| vals := vs; pend := pd; sts := pre_s ++ ss; total := tot |} =
  {| vals := vs;
     pend := pd ++ flat_map (fun p => prep (widths D) (s_out (fst p)) (snd (leaf_res vs p))) (combine ls ss);
     sts := pre_s ++ map (fun p => fst (leaf_res vs p)) (combine ls ss);
     total := tot |}.
Proof.
  induction ls as [|l ls IH]; intros ss pre_l pre_s pd Hpre Hlen Hseq.
  - destruct ss; [|discriminate Hlen]. cbn. rewrite !app_nil_r. reflexivity.
  - destruct ss as [|st ss]; [discriminate Hlen|].
    cbn [length seq fold_left combine flat_map map].
    assert (Hc : clock1 D {| vals := vs; pend := pd; sts := pre_s ++ st :: ss; total := tot |} (length pre_l) =
                 {| vals := vs; pend := pd ++ prep (widths D) (s_out l) (snd (leaf_res vs (l, st)));
                    sts := (pre_s ++ [fst (leaf_res vs (l, st))]) ++ ss; total := tot |}).
    { unfold clock1. cbn [vals sts pend total]. rewrite Hseq.
      rewrite nth_error_app2 by lia. rewrite Nat.sub_diag. cbn [nth_error].
      rewrite Hpre. rewrite nth_error_app2 by lia. rewrite Nat.sub_diag. cbn [nth_error].
      unfold leaf_res. cbn [fst snd]. destruct (s_f l st (map (rd vs) (s_in l))) as [st' rs]. cbn [fst snd].
      rewrite set_nth_app_len, <- app_assoc. reflexivity. }
    rewrite Hc. clear Hc.
    replace (S (length pre_l)) with (length (pre_l ++ [l])) by (rewrite app_length; cbn; lia).
    rewrite (IH ss (pre_l ++ [l]) (pre_s ++ [fst (leaf_res vs (l, st))]) _).
    + rewrite <- !app_assoc. reflexivity.
    + rewrite !app_length. cbn. lia.
    + cbn in Hlen. lia.
    + rewrite Hseq, <- app_assoc. reflexivity.
Qed.

(* GENERIC: settling a block of consecutive pending values replaces that block *)
Lemma settle_chain : forall news pre olds, length olds = length news ->
  fold_left settle (combine (seq (length pre) (length news)) news) (pre ++ olds) = pre ++ news.
Proof.
  induction news as [|n news IH]; intros pre olds Hlen.
  - destruct olds; [reflexivity|discriminate Hlen].
  - destruct olds as [|o olds]; [discriminate Hlen|].
    cbn [length seq combine fold_left]. unfold settle at 2. cbn [fst snd].
    rewrite set_nth_app_len.
    replace (S (length pre)) with (length (pre ++ [n])) by (rewrite app_length; cbn; lia).
    change (pre ++ n :: olds) with (pre ++ [n] ++ olds). rewrite app_assoc.
    rewrite IH by (cbn in Hlen; lia). rewrite <- app_assoc. reflexivity.
Qed.

(* ------------------------------------------------------------------ the chain of Reg leaves under one edge = delay_step *)
Fixpoint chain_reads (vs : list Z) (out : nat) (cs : list cell) : Prop :=
  match cs with [] => True | c :: rest => rd vs out = cell_q c /\ chain_reads vs (S out) rest end.
Fixpoint chain_w (ws : list Z) (out : nat) (n : nat) (w : Z) : Prop :=
  match n with O => True | S n' => nth out ws 0 = w /\ chain_w ws (S out) n' w end.

Lemma chain_reads_app : forall cs pre, chain_reads (pre ++ map cell_q cs) (length pre) cs.
Proof.
  induction cs as [|c cs IH]; intros pre; [exact I|]. cbn [chain_reads map]. split.
  - unfold rd. rewrite <- (Nat.add_0_r (length pre)), nth_app_len. reflexivity.
  - replace (S (length pre)) with (length (pre ++ [cell_q c])) by (rewrite app_length; cbn; lia).
    change (pre ++ cell_q c :: map cell_q cs) with (pre ++ [cell_q c] ++ map cell_q cs). rewrite app_assoc. apply IH.
Qed.
Lemma chain_w_app : forall n pre w, chain_w (pre ++ repeat w n) (length pre) n w.
Proof.
  induction n as [|n IH]; intros pre w; [exact I|]. cbn [chain_w repeat]. split.
  - rewrite <- (Nat.add_0_r (length pre)), nth_app_len. reflexivity.
  - replace (S (length pre)) with (length (pre ++ [w])) by (rewrite app_length; cbn; lia).
    change (pre ++ w :: repeat w n) with (pre ++ [w] ++ repeat w n). rewrite app_assoc. apply IH.
Qed.

Definition st_of (c : cell) : AnySt := St_Reg (fst c).

Lemma dl_reg_step w he hr en rs src out vs ws st e r :
  (he = true -> rd vs en = e) -> (hr = true -> rd vs rs = r) -> nth out ws 0 = w ->
  let l := dl_reg w he hr en rs src out in
  let c' := Reg_clock w he hr 0 st (rd vs src) e r in
  fst (leaf_res vs (l, St_Reg st)) = St_Reg (fst c') /\
  prep ws (s_out l) (snd (leaf_res vs (l, St_Reg st))) = [(out, snd c')].
Proof.
  intros He Hr Hw. cbv zeta. unfold leaf_res.
  destruct he, hr; cbn [dl_reg fst snd s_in s_out s_f map]; rewrite ?He, ?Hr by reflexivity;
    rewrite !Reg_clock_eq; unfold reg_next; cbn [andb fst snd prep]; rewrite Hw, Wire_prepare_trunc, trunc_trunc; split; reflexivity.
Qed.

Lemma dl_chain w he hr en rs vs ws e r :
  (he = true -> rd vs en = e) -> (hr = true -> rd vs rs = r) ->
  forall cs src out, chain_reads vs out cs -> chain_w ws out (length cs) w ->
  let ls := dl_regs w he hr en rs src out (length cs) in
  let cs' := delay_step w he hr cs (rd vs src) e r in
  map (fun p => fst (leaf_res vs p)) (combine ls (map st_of cs)) = map st_of cs' /\
  flat_map (fun p => prep ws (s_out (fst p)) (snd (leaf_res vs p))) (combine ls (map st_of cs)) =
    combine (seq out (length cs)) (map cell_q cs').
Proof.
  intros He Hr. induction cs as [|c cs IH]; intros src out Hq Hw; [split; reflexivity|].
  destruct Hq as [Hq Hqs]. destruct Hw as [Hw Hws].
  cbn [length dl_regs map combine flat_map delay_step seq fst snd].
  destruct (dl_reg_step w he hr en rs src out vs ws (fst c) e r He Hr Hw) as [H1 H2].
  change (st_of c) with (St_Reg (fst c)). rewrite H1, H2. unfold reg_edge.
  destruct (IH out (S out) Hqs Hws) as [I1 I2]. rewrite Hq in I1, I2. rewrite I1, I2.
  split; reflexivity.
Qed.

(* ------------------------------------------------------------------ one clock edge / one propagateAll of the whole netlist *)
Lemma dl_regs_length w he hr en rs : forall n src out, length (dl_regs w he hr en rs src out n) = n.
Proof. induction n as [|n IH]; intros src out; [reflexivity|]. cbn [dl_regs length]. rewrite IH. reflexivity. Qed.

Lemma put_buf w a : Wire_put w (Buf_propagate w a) = Buf_propagate w a.
Proof. rewrite Buf_eq. exact (trunc_trunc w a). Qed.

Lemma dl_widths w wo we wr he hr delay :
  exists prew, widths (delayline_design w wo we wr he hr delay) = prew ++ repeat w delay /\ length prew = S (dl_r he hr) /\
               nth (dl_r he hr) prew 0 = wo /\ nth 1 prew 0 = w /\ (he = true -> nth dl_en prew 0 = we) /\ (hr = true -> nth (dl_rs he) prew 0 = wr).
Proof.
  destruct he, hr.
  - exists [1; w; we; wr; wo]. repeat split; reflexivity.
  - exists [1; w; we; wo]. repeat split; try reflexivity; discriminate.
  - exists [1; w; wr; wo]. repeat split; try reflexivity; discriminate.
  - exists [1; w; wo]. repeat split; try reflexivity; discriminate.
Qed.

(* clock all drivers + settle: the chain wires and the Reg attributes become delay_step of the old ones *)
Lemma dl_edge w wo we wr he hr cs pre tot e r :
  length pre = S (dl_r he hr) -> (he = true -> nth dl_en pre 0 = e) -> (hr = true -> nth (dl_rs he) pre 0 = r) ->
  let D := delayline_design w wo we wr he hr (length cs) in
  let cs' := delay_step w he hr cs (nth 1 pre 0) e r in
  settleAll (clock_drivers D {| vals := pre ++ map cell_q cs; pend := []; sts := map st_of cs; total := tot |}) =
  {| vals := pre ++ map cell_q cs'; pend := []; sts := map st_of cs'; total := tot |}.
Proof.
  intros Hlen He Hr.
  destruct cs as [|c0 cs0]; [reflexivity|]. remember (c0 :: cs0) as cs eqn:Ecs.
  assert (Hn : exists k, length cs = S k) by (rewrite Ecs; eexists; reflexivity). destruct Hn as [k Hk].
  clear Ecs c0 cs0. intros D cs'.
  assert (Hd : drivers D = [{| d_enable := None; d_leaves := seq 0 (length cs) |}]) by (unfold D; rewrite Hk; reflexivity).
  unfold clock_drivers. rewrite Hd. cbn [fold_left]. unfold enabled. cbn [d_enable]. unfold clockAll. cbn [d_leaves].
  pose proof (clockAll_chain D (pre ++ map cell_q cs) tot (seqs D) (map st_of cs) [] [] []) as Hc.
  cbn [length app] in Hc.
  assert (Hsl : length (seqs D) = length cs) by (unfold D; cbn [seqs delayline_design]; apply dl_regs_length).
  rewrite Hsl in Hc. rewrite Hc by (rewrite ?map_length; auto). clear Hc.
  destruct (dl_widths w wo we wr he hr (length cs)) as (prew & Hws & Hlw & _).
  assert (Hrd : forall i, (i < length pre)%nat -> rd (pre ++ map cell_q cs) i = nth i pre 0) by (intros i Hi; unfold rd; apply app_nth1; exact Hi).
  destruct (dl_chain w he hr dl_en (dl_rs he) (pre ++ map cell_q cs) (widths D) e r) with (cs := cs) (src := 1%nat) (out := S (dl_r he hr)) as [H1 H2].
  - intros E. rewrite Hrd; [auto|]. rewrite Hlen. unfold dl_en, dl_r. rewrite E. cbn. lia.
  - intros E. rewrite Hrd; [auto|]. rewrite Hlen. unfold dl_rs, dl_r. rewrite E. destruct he; cbn; lia.
  - rewrite <- Hlen. apply chain_reads_app.
  - fold D in Hws. rewrite Hws, <- Hlw. apply chain_w_app.
  - change (dl_regs w he hr dl_en (dl_rs he) 1 (S (dl_r he hr)) (length cs)) with (seqs D) in H1, H2.
    rewrite Hrd in H1, H2 by (rewrite Hlen; unfold dl_r; lia).
    rewrite H1, H2. unfold settleAll. cbn [vals pend sts total app].
    fold cs'. f_equal.
    rewrite <- Hlen.
    replace (length cs) with (length (map cell_q cs')) by (unfold cs'; rewrite map_length; apply delay_step_length).
    apply settle_chain. unfold cs'. rewrite !map_length, delay_step_length. reflexivity.
Qed.

Lemma set_nth_app1 {A} : forall (pre l : list A) i v, (i < length pre)%nat -> set_nth (pre ++ l) i v = set_nth pre i v ++ l.
Proof.
  induction pre as [|p pre IH]; intros l i v Hi; [cbn in Hi; lia|].
  destruct i as [|i]; [reflexivity|]. cbn. rewrite IH by (cbn in Hi; lia). reflexivity.
Qed.

(* propagateAll = the one Buf: r := Buf(last chain wire, or a when there is none) *)
Lemma dl_propagate w wo we wr he hr cs pre :
  length pre = S (dl_r he hr) ->
  propagateAll (delayline_design w wo we wr he hr (length cs)) (pre ++ map cell_q cs) =
  set_nth pre (dl_r he hr) (delay_out wo cs (nth 1 pre 0)) ++ map cell_q cs.
Proof.
  intros Hlen.
  destruct (dl_widths w wo we wr he hr (length cs)) as (prew & Hws & Hlw & Hwo & _).
  unfold propagateAll. cbn [combs delayline_design fold_left]. unfold propagate1. cbn [c_in c_out c_f map write_outs].
  rewrite Hws. rewrite app_nth1 by lia. rewrite Hwo, put_buf.
  rewrite set_nth_app1 by lia. f_equal. f_equal. unfold delay_out. f_equal.
  destruct cs as [|c0 cs0].
  - cbn [length map last]. unfold rd. apply app_nth1. rewrite Hlen. unfold dl_r. lia.
  - remember (c0 :: cs0) as cs eqn:Ecs.
    assert (Hk : length (map cell_q cs) = S (length cs0)) by (rewrite map_length, Ecs; reflexivity).
    replace (length cs) with (S (length cs0)) by (rewrite Ecs; reflexivity).
    unfold rd. rewrite <- Hlen, nth_app_len. apply nth_is_last. exact Hk.
Qed.

(* ------------------------------------------------------------------ the invariant of the run *)
Definition dl_inv (wo : Z) (he hr : bool) (cs : list cell) (s : state AnySt) : Prop :=
  exists pre, length pre = S (dl_r he hr) /\ vals s = pre ++ map cell_q cs /\
    nth (dl_r he hr) pre 0 = delay_out wo cs (nth 1 pre 0) /\ sts s = map st_of cs /\ pend s = [].

(* what the a wire shows after a poke *)
Definition dl_a_seen (w : Z) (i : Z * Z * Z) : Z := Wire_put w (fst (fst i)).

Lemma dl_net_step_sim w wo we wr he hr cs s i :
  dl_inv wo he hr cs s ->
  let s' := delayline_net_step w wo we wr he hr (length cs) s i in
  dl_inv wo he hr (delay_m w he hr cs (delayline_seen w we wr i)) s' /\ rd (vals s') 1 = dl_a_seen w i.
Proof.
  intros (pre & Hlen & Hv & _ & Hst & Hp). destruct s as [vs pd ss tot]. cbn [vals sts pend] in *. subst vs pd ss.
  destruct i as [[a e] r]. unfold delayline_seen, delay_m, dl_a_seen. cbn [fst snd].
  destruct (dl_widths w wo we wr he hr (length cs)) as (prew & Hws & Hlw & Hwo & Hwa & Hwe & Hwr).
  set (D := delayline_design w wo we wr he hr (length cs)) in *.
  (* the pokes only touch the prefix *)
  assert (Hpk : exists pre', length pre' = S (dl_r he hr) /\ nth 1 pre' 0 = Wire_put w a /\
              (he = true -> nth dl_en pre' 0 = Wire_put we e) /\ (hr = true -> nth (dl_rs he) pre' 0 = Wire_put wr r) /\
              fold_left (fun s p => poke D s (fst p) (snd p)) (delayline_pokes he hr (a, e, r))
                {| vals := pre ++ map cell_q cs; pend := []; sts := map st_of cs; total := tot |} =
              {| vals := pre' ++ map cell_q cs; pend := []; sts := map st_of cs; total := tot |}).
  { unfold poke. rewrite Hws.
    destruct he, hr; cbn [dl_r Nat.add] in Hlen, Hlw; list_cases pre Hlen; list_cases prew Hlw;
      cbn [nth dl_en dl_rs] in Hwa, Hwe, Hwr; subst;
      [ match goal with |- context [ [?c0; _; _; _; ?o] ++ map cell_q cs ] => exists [c0; Wire_put w a; Wire_put we e; Wire_put wr r; o] end
      | match goal with |- context [ [?c0; _; _; ?o] ++ map cell_q cs ] => exists [c0; Wire_put w a; Wire_put we e; o] end
      | match goal with |- context [ [?c0; _; _; ?o] ++ map cell_q cs ] => exists [c0; Wire_put w a; Wire_put wr r; o] end
      | match goal with |- context [ [?c0; _; ?o] ++ map cell_q cs ] => exists [c0; Wire_put w a; o] end ];
      (split; [|split; [|split; [|split; [|cbn -[Wire_put]; rewrite ?Hwe, ?Hwr by reflexivity; reflexivity]]]]);
      try reflexivity; try discriminate. }
  destruct Hpk as (pre' & Hlen' & Ha' & He' & Hr' & Hpk).
  unfold delayline_net_step, do_step. cbn [fst snd]. fold D. rewrite Hpk.
  unfold clk, cycles, clk_cycle. cbn [vals pend sts total].
  subst D. rewrite !dl_propagate by exact Hlen'.
  set (pre2 := set_nth pre' (dl_r he hr) (delay_out wo cs (nth 1 pre' 0))).
  assert (Hlen2 : length pre2 = S (dl_r he hr)) by (unfold pre2; rewrite Proofs.C05.ListAux.set_nth_length; exact Hlen').
  assert (Hne : forall j, j <> dl_r he hr -> nth j pre2 0 = nth j pre' 0)
    by (intros j Hj; unfold pre2; apply Proofs.C05.ListAux.nth_set_nth_ne; auto).
  assert (H1 : (1 <> dl_r he hr)%nat) by (unfold dl_r; lia).
  rewrite (dl_edge w wo we wr he hr cs pre2 tot (Wire_put we e) (Wire_put wr r) Hlen2).
  - cbn [vals pend sts total]. rewrite (Hne 1%nat H1), Ha'.
    set (cs' := delay_step w he hr cs (Wire_put w a) (Wire_put we e) (Wire_put wr r)).
    assert (Hl' : length cs' = length cs) by apply delay_step_length.
    rewrite <- Hl'. rewrite dl_propagate by exact Hlen2. rewrite (Hne 1%nat H1), Ha'. split.
    + eexists. split; [|split; [reflexivity|split; [|split; reflexivity]]].
      * rewrite Proofs.C05.ListAux.set_nth_length. exact Hlen2.
      * rewrite Proofs.C05.ListAux.nth_set_nth_eq by lia.
        rewrite Proofs.C05.ListAux.nth_set_nth_ne by auto. rewrite (Hne 1%nat H1), Ha'. reflexivity.
    + unfold rd. rewrite app_nth1 by (rewrite Proofs.C05.ListAux.set_nth_length, Hlen2; unfold dl_r; lia).
      rewrite Proofs.C05.ListAux.nth_set_nth_ne by auto. rewrite (Hne 1%nat H1). exact Ha'.
  - intros E. rewrite Hne; [auto|]. unfold dl_en, dl_r. rewrite E. cbn. lia.
  - intros E. rewrite Hne; [auto|]. unfold dl_rs, dl_r. rewrite E. destruct he; cbn; lia.
Qed.

(* ------------------------------------------------------------------ power-up *)
Lemma set_nth_repeat {A} (x : A) : forall n i, set_nth (repeat x n) i x = repeat x n.
Proof. induction n as [|n IH]; intros i; [reflexivity|]. destruct i as [|i]; cbn; [reflexivity|]. rewrite IH. reflexivity. Qed.
Lemma map_const_repeat {A B} (y : B) : forall l : list A, map (fun _ => y) l = repeat y (length l).
Proof. induction l as [|x l IH]; [reflexivity|]. cbn. rewrite IH. reflexivity. Qed.
Lemma map_repeat' {A B} (f : A -> B) x : forall n, map f (repeat x n) = repeat (f x) n.
Proof. induction n as [|n IH]; [reflexivity|]. cbn. rewrite IH. reflexivity. Qed.
Lemma pokes_zero (D : design AnySt) n : forall (pk : list (nat * Z)) s, Forall (fun p => snd p = 0) pk -> vals s = repeat 0 n ->
  fold_left (fun s p => poke D s (fst p) (snd p)) pk s = s.
Proof.
  induction pk as [|p pk IH]; intros s Hz Hv; [reflexivity|].
  inversion Hz as [|p' pk' Hp Hz']; subst. cbn [fold_left].
  assert (Hs : poke D s (fst p) (snd p) = s).
  { unfold poke. rewrite Hp, Wire_put_trunc, trunc_0, Hv, set_nth_repeat, <- Hv. destruct s; reflexivity. }
  rewrite Hs. apply IH; assumption.
Qed.

Lemma dl_net_init_inv w wo we wr he hr delay :
  dl_inv wo he hr (delay_init delay) (delayline_net_init w wo we wr he hr delay) /\
  rd (vals (delayline_net_init w wo we wr he hr delay)) 1 = 0.
Proof.
  unfold delayline_net_init, init_poked.
  rewrite (pokes_zero _ (length (widths (delayline_design w wo we wr he hr delay)))).
  2:{ unfold delayline_init_pokes. apply Forall_forall. intros p Hp. apply in_map_iff in Hp. destruct Hp as (k & <- & _). reflexivity. }
  2:{ cbn [vals]. apply map_const_repeat. }
  cbn [vals].
  destruct (dl_widths w wo we wr he hr delay) as (prew & Hws & Hlw & _).
  rewrite map_const_repeat, Hws, app_length, repeat_length, repeat_app, Hlw.
  assert (Hq : repeat 0 delay = map cell_q (delay_init delay)) by (unfold delay_init; rewrite map_repeat'; reflexivity).
  assert (Hl : length (delay_init delay) = delay) by (unfold delay_init; rewrite repeat_length; reflexivity).
  assert (Hs0 : delayline_st0 delay = map st_of (delay_init delay)) by (unfold delay_init, delayline_st0; rewrite map_repeat'; reflexivity).
  rewrite Hq, Hs0. remember (delay_init delay) as cs0 eqn:E0. rewrite <- Hl. rewrite dl_propagate by apply repeat_length.
  assert (H1 : (1 <> dl_r he hr)%nat) by (unfold dl_r; lia).
  split.
  - eexists. split; [|split; [reflexivity|split; [|split; reflexivity]]].
    + rewrite Proofs.C05.ListAux.set_nth_length. apply repeat_length.
    + rewrite Proofs.C05.ListAux.nth_set_nth_eq by (rewrite repeat_length; lia).
      rewrite Proofs.C05.ListAux.nth_set_nth_ne by auto. reflexivity.
  - unfold rd. rewrite app_nth1 by (rewrite Proofs.C05.ListAux.set_nth_length, repeat_length; unfold dl_r; lia).
    rewrite Proofs.C05.ListAux.nth_set_nth_ne by auto. unfold dl_r. destruct he, hr; reflexivity.
Qed.

(* the a wire holds the last poked (masked) value, 0 before the first poke *)
Definition dl_a_last (w : Z) (h : list (Z * Z * Z)) : Z := last (map (dl_a_seen w) h) 0.

Lemma delay_run_len w he hr delay h : length (run (delay_m w he hr) (delay_init delay) h) = delay.
Proof.
  unfold run. assert (H0 : length (delay_init delay) = delay) by (unfold delay_init; apply repeat_length).
  revert H0. generalize (delay_init delay) as cs. induction h as [|i h IH]; intros cs Hl; [exact Hl|].
  cbn [fold_left]. apply IH. destruct i as [[a e] r]. unfold delay_m. rewrite delay_step_length. exact Hl.
Qed.

Lemma dl_net_run_inv w wo we wr he hr delay h :
  let s := delayline_net_run w wo we wr he hr delay h in
  dl_inv wo he hr (run (delay_m w he hr) (delay_init delay) (map (delayline_seen w we wr) h)) s /\
  rd (vals s) 1 = dl_a_last w h.
Proof.
  induction h as [|i h IH] using rev_ind.
  - exact (dl_net_init_inv w wo we wr he hr delay).
  - cbv zeta in *. unfold delayline_net_run in *. rewrite fold_left_app, map_app. cbn [fold_left map]. rewrite run_snoc.
    destruct IH as [IH _].
    pose proof (dl_net_step_sim w wo we wr he hr _ _ i IH) as Hs. cbv zeta in Hs.
    rewrite delay_run_len in Hs. destruct Hs as [Hs Ha]. split; [exact Hs|].
    rewrite Ha. unfold dl_a_last. rewrite map_app. cbn [map]. rewrite last_last. reflexivity.
Qed.

(* THE LINK, for every delay: after every history the chain wires r0 .. r{delay-1} of the kernel run ARE the q values of the
   block model's cells, the Reg leaves' attributes are the model's, the output wire r shows delay_out of the model state and of
   the value standing on a, nothing is pending *)
Lemma delayline_netlist_refines w wo we wr he hr delay h :
  let s := delayline_net_run w wo we wr he hr delay h in
  let cs := run (delay_m w he hr) (delay_init delay) (map (delayline_seen w we wr) h) in
  skipn (S (dl_r he hr)) (vals s) = map cell_q cs /\
  length (vals s) = (S (dl_r he hr) + delay)%nat /\
  rd (vals s) (dl_r he hr) = delay_out wo cs (dl_a_last w h) /\
  sts s = map st_of cs /\ pend s = [].
Proof.
  intros s cs. destruct (dl_net_run_inv w wo we wr he hr delay h) as [(pre & Hlen & Hv & Ho & Hst & Hp) Ha].
  fold s cs in Hv, Ho, Hst, Hp, Ha. rewrite Hv in *.
  assert (H1 : rd (pre ++ map cell_q cs) 1 = nth 1 pre 0) by (unfold rd; apply app_nth1; rewrite Hlen; unfold dl_r; lia).
  repeat split; auto.
  - rewrite <- Hlen. rewrite skipn_app, Nat.sub_diag, skipn_all. reflexivity.
  - rewrite app_length, map_length, Hlen. unfold cs. rewrite delay_run_len. reflexivity.
  - unfold rd. rewrite app_nth1 by lia. rewrite Ho, <- H1, Ha. reflexivity.
Qed.

(* reading the output combinationally: poke a_now on a, propagateAll (no edge) *)
Lemma delayline_net_peek w wo we wr he hr delay h a_now :
  let D := delayline_design w wo we wr he hr delay in
  let s := delayline_net_run w wo we wr he hr delay h in
  let cs := run (delay_m w he hr) (delay_init delay) (map (delayline_seen w we wr) h) in
  rd (propagateAll D (vals (poke D s 1%nat a_now))) (dl_r he hr) = delay_out wo cs (Wire_put w a_now).
Proof.
  intros D s cs. destruct (dl_net_run_inv w wo we wr he hr delay h) as [(pre & Hlen & Hv & Ho & Hst & Hp) _].
  fold s cs in Hv. unfold poke. cbn [vals]. rewrite Hv.
  destruct (dl_widths w wo we wr he hr delay) as (prew & Hws & Hlw & _ & Hwa & _). fold D in Hws.
  rewrite Hws, app_nth1, Hwa by (rewrite Hlw; unfold dl_r; lia).
  rewrite set_nth_app1 by (rewrite Hlen; unfold dl_r; lia).
  assert (Hl : delay = length cs) by (unfold cs; rewrite delay_run_len; reflexivity).
  unfold D. rewrite Hl at 1. rewrite dl_propagate by (rewrite Proofs.C05.ListAux.set_nth_length; exact Hlen).
  unfold rd. rewrite app_nth1 by (rewrite !Proofs.C05.ListAux.set_nth_length; lia).
  rewrite Proofs.C05.ListAux.nth_set_nth_eq by (rewrite Proofs.C05.ListAux.set_nth_length; lia).
  rewrite Proofs.C05.ListAux.nth_set_nth_eq by (rewrite Hlen; unfold dl_r; lia). reflexivity.
Qed.

(* ... and therefore the reference machine of Spec/C09.v (the log of enabled samples since the last reset edge) *)
Lemma delayline_netlist_spec w wo we wr he hr delay h a_now : 0 <= w -> 0 <= wo ->
  let D := delayline_design w wo we wr he hr delay in
  let s := delayline_net_run w wo we wr he hr delay h in
  let hs := map (delayline_seen w we wr) h in
  rd (propagateAll D (vals (poke D s 1%nat a_now))) (dl_r he hr) =
    delay_spec_out w wo delay (run (delay_log he hr) [] hs) (Wire_put w a_now) /\
  rd (vals s) (dl_r he hr) = delay_spec_out w wo delay (run (delay_log he hr) [] hs) (dl_a_last w h) /\
  skipn (S (dl_r he hr)) (vals s) = map (fun k => nth k (run (delay_log he hr) [] hs) 0 mod 2 ^ w) (seq 0 delay).
Proof.
  intros Hw Hwo D s hs. split; [|split].
  - unfold D, s. rewrite delayline_net_peek. apply delayline_refines; assumption.
  - destruct (delayline_netlist_refines w wo we wr he hr delay h) as (_ & _ & Ho & _). unfold s. rewrite Ho.
    apply delayline_refines; assumption.
  - destruct (delayline_netlist_refines w wo we wr he hr delay h) as (Hq & _). unfold s. rewrite Hq.
    apply delay_cells_refine; assumption.
Qed.

(* ------------------------------------------------------------------ the general kernel theorems apply, for every delay:
   the hypotheses of C04 (settling) and C05 (atomic edges, clk split) hold on this netlist *)
From V Require Import Spec.C04 Spec.C05 Proofs.C05.ListAux Proofs.C04.Settle.

Lemma dl_reg_out w he hr en rs src out : s_out (dl_reg w he hr en rs src out) = [out].
Proof. destruct he, hr; reflexivity. Qed.
Lemma dl_regs_nth w he hr en rs : forall n src out k l,
  nth_error (dl_regs w he hr en rs src out n) k = Some l -> s_out l = [(out + k)%nat] /\ (k < n)%nat.
Proof.
  induction n as [|n IH]; intros src out k l Hk; [destruct k; discriminate Hk|].
  destruct k as [|k]; cbn [dl_regs nth_error] in Hk.
  - injection Hk as <-. rewrite dl_reg_out, Nat.add_0_r. split; [reflexivity|lia].
  - destruct (IH _ _ _ _ Hk) as [Ho Hlt]. rewrite Ho. split; [f_equal; lia|lia].
Qed.

Lemma delayline_design_wellformed w wo we wr he hr delay :
  let D := delayline_design w wo we wr he hr delay in
  Spec.C05.topo (combs D) /\ ordered (combs D) /\ single_driver (combs D) /\ registered_once D /\ single_writer D /\ outs_nodup D.
Proof.
  cbv zeta.
  assert (Hne : (match delay with O => 1 | S k => S (dl_r he hr) + k end <> dl_r he hr)%nat)
    by (unfold dl_r; destruct delay; lia).
  split; [|split; [|split; [|split; [|split]]]].
  - cbn [combs delayline_design Spec.C05.topo]. split; [|split; [intros c' []|exact I]].
    intros x [<-|[]] [E|[]]. apply Hne. symmetry. exact E.
  - intros i j a b Hi Hj (x & Ho & Hx). cbn [combs delayline_design] in Hi, Hj.
    destruct i as [|i]; [|destruct i; discriminate Hi]. destruct j as [|j]; [|destruct j; discriminate Hj].
    cbn in Hi, Hj. injection Hi as <-. injection Hj as <-. cbn [c_in c_out] in Ho, Hx.
    destruct Ho as [<-|[]]. destruct Hx as [E|[]]. exfalso. apply Hne. exact E.
  - unfold single_driver. cbn. constructor; [intros []|constructor].
  - unfold registered_once, all_leaves. cbn [drivers delayline_design]. destruct delay as [|k]; cbn [flat_map d_leaves]; [constructor|].
    rewrite app_nil_r. apply seq_NoDup.
  - intros a b la lb Hab Ha Hb x Hx Hx'. cbn [seqs delayline_design] in Ha, Hb.
    destruct (dl_regs_nth _ _ _ _ _ _ _ _ _ _ Ha) as [Hoa _]. destruct (dl_regs_nth _ _ _ _ _ _ _ _ _ _ Hb) as [Hob _].
    rewrite Hoa in Hx. rewrite Hob in Hx'. destruct Hx as [<-|[]]. destruct Hx' as [E|[]]. lia.
  - intros k l Hk. cbn [seqs delayline_design] in Hk. destruct (dl_regs_nth _ _ _ _ _ _ _ _ _ _ Hk) as [Ho _]. rewrite Ho.
    constructor; [intros []|constructor].
Qed.

Lemma delayline_net_settled w wo we wr he hr delay h :
  settled (delayline_design w wo we wr he hr delay) (vals (delayline_net_run w wo we wr he hr delay h)).
Proof.
  destruct (delayline_design_wellformed w wo we wr he hr delay) as (_ & Hord & Hsd & _).
  unfold delayline_net_run. destruct h as [|i h] using rev_ind.
  - cbn [fold_left]. unfold delayline_net_init, init_poked. cbn [vals]. apply propagateAll_settled; assumption.
  - rewrite fold_left_app. cbn [fold_left]. unfold delayline_net_step at 1, do_step. apply clk_settled; assumption.
Qed.

(* one history entry IS: poke, propagateAll, one Model/SimKernel.clk_cycle (definitional) *)
Lemma delayline_net_step_is_clk_cycle w wo we wr he hr delay s i :
  let D := delayline_design w wo we wr he hr delay in
  let sp := fold_left (fun s p => poke D s (fst p) (snd p)) (delayline_pokes he hr i) s in
  delayline_net_step w wo we wr he hr delay s i =
  clk_cycle D {| vals := propagateAll D (vals sp); pend := pend sp; sts := sts sp; total := total sp |}.
Proof. reflexivity. Qed.
