(* C09: the hand-written design terms of Proofs/C09/Netlist.v compared with what py/netlist.py `Dump(hw).coq_design()` printed
   for live py4hw objects (Counter / TReg inside a bare HWSystem; ports created in the order reset, inc, q resp. t, e, r, q).
   The Definitions below are that output PASTED VERBATIM (captured on /repo as of this session; not regenerated per run);
   each lemma is closed by `reflexivity`: the instantiated hand-written term and the dumped term are convertible,
   leaf functions, wire ids, leaf order, widths and clock driver included. *)
From V Require Import Base.PyInt Gen.WireOps Gen.Helpers Gen.Prims Gen.Seq Model.SimKernel Model.Trace.
From V Require Import Proofs.C09.Netlist.

Definition counter_dump_4_1_1_true_true : design AnySt :=
  {| widths := [1; 1; 1; 4; 4; 4; 4; 4; 4; 1; 1];
   combs := [
    {| c_in := []; c_out := [4%nat]; c_f := fun ins => match ins with [] => let r := Constant_propagate 4 1 in [Some r] | _ => [] end |};
    {| c_in := []; c_out := [5%nat]; c_f := fun ins => match ins with [] => let r := Constant_propagate 4 0 in [Some r] | _ => [] end |};
    {| c_in := []; c_out := [10%nat]; c_f := fun ins => match ins with [] => let r := Constant_propagate 1 0 in [Some r] | _ => [] end |};
    {| c_in := [3%nat; 4%nat; 10%nat]; c_out := [6%nat]; c_f := fun ins => match ins with [x1; x2; x3] => let r := AddCarryIn_propagate 4 x1 x2 x3 in [Some r] | _ => [] end |};
    {| c_in := [1%nat; 2%nat]; c_out := [9%nat]; c_f := fun ins => match ins with [x1; x2] => let r := Or2_propagate 1 x1 x2 in [Some r] | _ => [] end |};
    {| c_in := [2%nat; 3%nat; 6%nat]; c_out := [8%nat]; c_f := fun ins => match ins with [x1; x2; x3] => let r := Mux2_propagate 4 x1 x2 x3 in [Some r] | _ => [] end |};
    {| c_in := [1%nat; 8%nat; 5%nat]; c_out := [7%nat]; c_f := fun ins => match ins with [x1; x2; x3] => let r := Mux2_propagate 4 x1 x2 x3 in [Some r] | _ => [] end |}];
   seqs := [
    {| s_in := [7%nat; 9%nat]; s_out := [3%nat]; s_f := fun st ins => match st, ins with St_Reg s, [x1; x2] => let '(s', r) := Reg_clock 4 true false 0 s x1 x2 0 in (St_Reg s', [Some r]) | _, _ => (st, []) end |}];
   drivers := [{| d_enable := None; d_leaves := [0%nat] |}] |}.
Definition counter_dump_4_1_1_true_true_st0 : list AnySt := [St_Reg {| Reg_s_value := 0 |}].

Lemma counter_dump_4_1_1_true_true_ok : counter_design 4 1 1 true true = counter_dump_4_1_1_true_true /\ counter_st0 = counter_dump_4_1_1_true_true_st0 /\ counter_q true true = 3%nat.
Proof. repeat split; reflexivity. Qed.

Definition counter_dump_4_1_1_true_false : design AnySt :=
  {| widths := [1; 1; 4; 4; 4; 4; 4; 4; 1; 1];
   combs := [
    {| c_in := []; c_out := [3%nat]; c_f := fun ins => match ins with [] => let r := Constant_propagate 4 1 in [Some r] | _ => [] end |};
    {| c_in := []; c_out := [4%nat]; c_f := fun ins => match ins with [] => let r := Constant_propagate 4 0 in [Some r] | _ => [] end |};
    {| c_in := []; c_out := [9%nat]; c_f := fun ins => match ins with [] => let r := Constant_propagate 1 0 in [Some r] | _ => [] end |};
    {| c_in := [2%nat; 3%nat; 9%nat]; c_out := [5%nat]; c_f := fun ins => match ins with [x1; x2; x3] => let r := AddCarryIn_propagate 4 x1 x2 x3 in [Some r] | _ => [] end |};
    {| c_in := [4%nat; 1%nat]; c_out := [8%nat]; c_f := fun ins => match ins with [x1; x2] => let r := Or2_propagate 1 x1 x2 in [Some r] | _ => [] end |};
    {| c_in := [1%nat; 2%nat; 5%nat]; c_out := [7%nat]; c_f := fun ins => match ins with [x1; x2; x3] => let r := Mux2_propagate 4 x1 x2 x3 in [Some r] | _ => [] end |};
    {| c_in := [4%nat; 7%nat; 4%nat]; c_out := [6%nat]; c_f := fun ins => match ins with [x1; x2; x3] => let r := Mux2_propagate 4 x1 x2 x3 in [Some r] | _ => [] end |}];
   seqs := [
    {| s_in := [6%nat; 8%nat]; s_out := [2%nat]; s_f := fun st ins => match st, ins with St_Reg s, [x1; x2] => let '(s', r) := Reg_clock 4 true false 0 s x1 x2 0 in (St_Reg s', [Some r]) | _, _ => (st, []) end |}];
   drivers := [{| d_enable := None; d_leaves := [0%nat] |}] |}.
Definition counter_dump_4_1_1_true_false_st0 : list AnySt := [St_Reg {| Reg_s_value := 0 |}].

Lemma counter_dump_4_1_1_true_false_ok : counter_design 4 1 1 true false = counter_dump_4_1_1_true_false /\ counter_st0 = counter_dump_4_1_1_true_false_st0 /\ counter_q true false = 2%nat.
Proof. repeat split; reflexivity. Qed.

Definition counter_dump_4_1_1_false_true : design AnySt :=
  {| widths := [1; 1; 4; 4; 4; 4; 4; 4; 1; 1];
   combs := [
    {| c_in := []; c_out := [3%nat]; c_f := fun ins => match ins with [] => let r := Constant_propagate 4 1 in [Some r] | _ => [] end |};
    {| c_in := []; c_out := [4%nat]; c_f := fun ins => match ins with [] => let r := Constant_propagate 4 0 in [Some r] | _ => [] end |};
    {| c_in := []; c_out := [9%nat]; c_f := fun ins => match ins with [] => let r := Constant_propagate 1 0 in [Some r] | _ => [] end |};
    {| c_in := [2%nat; 3%nat; 9%nat]; c_out := [5%nat]; c_f := fun ins => match ins with [x1; x2; x3] => let r := AddCarryIn_propagate 4 x1 x2 x3 in [Some r] | _ => [] end |};
    {| c_in := [1%nat; 3%nat]; c_out := [8%nat]; c_f := fun ins => match ins with [x1; x2] => let r := Or2_propagate 1 x1 x2 in [Some r] | _ => [] end |};
    {| c_in := [3%nat; 2%nat; 5%nat]; c_out := [7%nat]; c_f := fun ins => match ins with [x1; x2; x3] => let r := Mux2_propagate 4 x1 x2 x3 in [Some r] | _ => [] end |};
    {| c_in := [1%nat; 7%nat; 4%nat]; c_out := [6%nat]; c_f := fun ins => match ins with [x1; x2; x3] => let r := Mux2_propagate 4 x1 x2 x3 in [Some r] | _ => [] end |}];
   seqs := [
    {| s_in := [6%nat; 8%nat]; s_out := [2%nat]; s_f := fun st ins => match st, ins with St_Reg s, [x1; x2] => let '(s', r) := Reg_clock 4 true false 0 s x1 x2 0 in (St_Reg s', [Some r]) | _, _ => (st, []) end |}];
   drivers := [{| d_enable := None; d_leaves := [0%nat] |}] |}.
Definition counter_dump_4_1_1_false_true_st0 : list AnySt := [St_Reg {| Reg_s_value := 0 |}].

Lemma counter_dump_4_1_1_false_true_ok : counter_design 4 1 1 false true = counter_dump_4_1_1_false_true /\ counter_st0 = counter_dump_4_1_1_false_true_st0 /\ counter_q false true = 2%nat.
Proof. repeat split; reflexivity. Qed.

Definition counter_dump_4_1_1_false_false : design AnySt :=
  {| widths := [1; 4; 4; 4; 4; 4; 4; 1; 1];
   combs := [
    {| c_in := []; c_out := [2%nat]; c_f := fun ins => match ins with [] => let r := Constant_propagate 4 1 in [Some r] | _ => [] end |};
    {| c_in := []; c_out := [3%nat]; c_f := fun ins => match ins with [] => let r := Constant_propagate 4 0 in [Some r] | _ => [] end |};
    {| c_in := []; c_out := [8%nat]; c_f := fun ins => match ins with [] => let r := Constant_propagate 1 0 in [Some r] | _ => [] end |};
    {| c_in := [1%nat; 2%nat; 8%nat]; c_out := [4%nat]; c_f := fun ins => match ins with [x1; x2; x3] => let r := AddCarryIn_propagate 4 x1 x2 x3 in [Some r] | _ => [] end |};
    {| c_in := [3%nat; 2%nat]; c_out := [7%nat]; c_f := fun ins => match ins with [x1; x2] => let r := Or2_propagate 1 x1 x2 in [Some r] | _ => [] end |};
    {| c_in := [2%nat; 1%nat; 4%nat]; c_out := [6%nat]; c_f := fun ins => match ins with [x1; x2; x3] => let r := Mux2_propagate 4 x1 x2 x3 in [Some r] | _ => [] end |};
    {| c_in := [3%nat; 6%nat; 3%nat]; c_out := [5%nat]; c_f := fun ins => match ins with [x1; x2; x3] => let r := Mux2_propagate 4 x1 x2 x3 in [Some r] | _ => [] end |}];
   seqs := [
    {| s_in := [5%nat; 7%nat]; s_out := [1%nat]; s_f := fun st ins => match st, ins with St_Reg s, [x1; x2] => let '(s', r) := Reg_clock 4 true false 0 s x1 x2 0 in (St_Reg s', [Some r]) | _, _ => (st, []) end |}];
   drivers := [{| d_enable := None; d_leaves := [0%nat] |}] |}.
Definition counter_dump_4_1_1_false_false_st0 : list AnySt := [St_Reg {| Reg_s_value := 0 |}].

Lemma counter_dump_4_1_1_false_false_ok : counter_design 4 1 1 false false = counter_dump_4_1_1_false_false /\ counter_st0 = counter_dump_4_1_1_false_false_st0 /\ counter_q false false = 1%nat.
Proof. repeat split; reflexivity. Qed.

Definition counter_dump_1_1_1_true_true : design AnySt :=
  {| widths := [1; 1; 1; 1; 1; 1; 1; 1; 1; 1; 1];
   combs := [
    {| c_in := []; c_out := [4%nat]; c_f := fun ins => match ins with [] => let r := Constant_propagate 1 1 in [Some r] | _ => [] end |};
    {| c_in := []; c_out := [5%nat]; c_f := fun ins => match ins with [] => let r := Constant_propagate 1 0 in [Some r] | _ => [] end |};
    {| c_in := []; c_out := [10%nat]; c_f := fun ins => match ins with [] => let r := Constant_propagate 1 0 in [Some r] | _ => [] end |};
    {| c_in := [3%nat; 4%nat; 10%nat]; c_out := [6%nat]; c_f := fun ins => match ins with [x1; x2; x3] => let r := AddCarryIn_propagate 1 x1 x2 x3 in [Some r] | _ => [] end |};
    {| c_in := [1%nat; 2%nat]; c_out := [9%nat]; c_f := fun ins => match ins with [x1; x2] => let r := Or2_propagate 1 x1 x2 in [Some r] | _ => [] end |};
    {| c_in := [2%nat; 3%nat; 6%nat]; c_out := [8%nat]; c_f := fun ins => match ins with [x1; x2; x3] => let r := Mux2_propagate 1 x1 x2 x3 in [Some r] | _ => [] end |};
    {| c_in := [1%nat; 8%nat; 5%nat]; c_out := [7%nat]; c_f := fun ins => match ins with [x1; x2; x3] => let r := Mux2_propagate 1 x1 x2 x3 in [Some r] | _ => [] end |}];
   seqs := [
    {| s_in := [7%nat; 9%nat]; s_out := [3%nat]; s_f := fun st ins => match st, ins with St_Reg s, [x1; x2] => let '(s', r) := Reg_clock 1 true false 0 s x1 x2 0 in (St_Reg s', [Some r]) | _, _ => (st, []) end |}];
   drivers := [{| d_enable := None; d_leaves := [0%nat] |}] |}.
Definition counter_dump_1_1_1_true_true_st0 : list AnySt := [St_Reg {| Reg_s_value := 0 |}].

Lemma counter_dump_1_1_1_true_true_ok : counter_design 1 1 1 true true = counter_dump_1_1_1_true_true /\ counter_st0 = counter_dump_1_1_1_true_true_st0 /\ counter_q true true = 3%nat.
Proof. repeat split; reflexivity. Qed.

Definition counter_dump_7_2_3_true_true : design AnySt :=
  {| widths := [1; 2; 3; 7; 7; 7; 7; 7; 7; 1; 1];
   combs := [
    {| c_in := []; c_out := [4%nat]; c_f := fun ins => match ins with [] => let r := Constant_propagate 7 1 in [Some r] | _ => [] end |};
    {| c_in := []; c_out := [5%nat]; c_f := fun ins => match ins with [] => let r := Constant_propagate 7 0 in [Some r] | _ => [] end |};
    {| c_in := []; c_out := [10%nat]; c_f := fun ins => match ins with [] => let r := Constant_propagate 1 0 in [Some r] | _ => [] end |};
    {| c_in := [3%nat; 4%nat; 10%nat]; c_out := [6%nat]; c_f := fun ins => match ins with [x1; x2; x3] => let r := AddCarryIn_propagate 7 x1 x2 x3 in [Some r] | _ => [] end |};
    {| c_in := [1%nat; 2%nat]; c_out := [9%nat]; c_f := fun ins => match ins with [x1; x2] => let r := Or2_propagate 1 x1 x2 in [Some r] | _ => [] end |};
    {| c_in := [2%nat; 3%nat; 6%nat]; c_out := [8%nat]; c_f := fun ins => match ins with [x1; x2; x3] => let r := Mux2_propagate 7 x1 x2 x3 in [Some r] | _ => [] end |};
    {| c_in := [1%nat; 8%nat; 5%nat]; c_out := [7%nat]; c_f := fun ins => match ins with [x1; x2; x3] => let r := Mux2_propagate 7 x1 x2 x3 in [Some r] | _ => [] end |}];
   seqs := [
    {| s_in := [7%nat; 9%nat]; s_out := [3%nat]; s_f := fun st ins => match st, ins with St_Reg s, [x1; x2] => let '(s', r) := Reg_clock 7 true false 0 s x1 x2 0 in (St_Reg s', [Some r]) | _, _ => (st, []) end |}];
   drivers := [{| d_enable := None; d_leaves := [0%nat] |}] |}.
Definition counter_dump_7_2_3_true_true_st0 : list AnySt := [St_Reg {| Reg_s_value := 0 |}].

Lemma counter_dump_7_2_3_true_true_ok : counter_design 7 2 3 true true = counter_dump_7_2_3_true_true /\ counter_st0 = counter_dump_7_2_3_true_true_st0 /\ counter_q true true = 3%nat.
Proof. repeat split; reflexivity. Qed.

Definition treg_dump_1_1_1_1_true_true : design AnySt :=
  {| widths := [1; 1; 1; 1; 1; 1; 1];
   combs := [
    {| c_in := [4%nat]; c_out := [5%nat]; c_f := fun ins => match ins with [x1] => let r := Not_propagate 1 x1 in [Some r] | _ => [] end |};
    {| c_in := [1%nat; 4%nat; 5%nat]; c_out := [6%nat]; c_f := fun ins => match ins with [x1; x2; x3] => let r := Mux2_propagate 1 x1 x2 x3 in [Some r] | _ => [] end |}];
   seqs := [
    {| s_in := [6%nat; 2%nat; 3%nat]; s_out := [4%nat]; s_f := fun st ins => match st, ins with St_Reg s, [x1; x2; x3] => let '(s', r) := Reg_clock 1 true true 0 s x1 x2 x3 in (St_Reg s', [Some r]) | _, _ => (st, []) end |}];
   drivers := [{| d_enable := None; d_leaves := [0%nat] |}] |}.
Definition treg_dump_1_1_1_1_true_true_st0 : list AnySt := [St_Reg {| Reg_s_value := 0 |}].

Lemma treg_dump_1_1_1_1_true_true_ok : treg_design 1 1 1 1 true true = treg_dump_1_1_1_1_true_true /\ counter_st0 = treg_dump_1_1_1_1_true_true_st0 /\ treg_q true true = 4%nat.
Proof. repeat split; reflexivity. Qed.

Definition treg_dump_1_1_1_1_true_false : design AnySt :=
  {| widths := [1; 1; 1; 1; 1; 1];
   combs := [
    {| c_in := [3%nat]; c_out := [4%nat]; c_f := fun ins => match ins with [x1] => let r := Not_propagate 1 x1 in [Some r] | _ => [] end |};
    {| c_in := [1%nat; 3%nat; 4%nat]; c_out := [5%nat]; c_f := fun ins => match ins with [x1; x2; x3] => let r := Mux2_propagate 1 x1 x2 x3 in [Some r] | _ => [] end |}];
   seqs := [
    {| s_in := [5%nat; 2%nat]; s_out := [3%nat]; s_f := fun st ins => match st, ins with St_Reg s, [x1; x2] => let '(s', r) := Reg_clock 1 true false 0 s x1 x2 0 in (St_Reg s', [Some r]) | _, _ => (st, []) end |}];
   drivers := [{| d_enable := None; d_leaves := [0%nat] |}] |}.
Definition treg_dump_1_1_1_1_true_false_st0 : list AnySt := [St_Reg {| Reg_s_value := 0 |}].

Lemma treg_dump_1_1_1_1_true_false_ok : treg_design 1 1 1 1 true false = treg_dump_1_1_1_1_true_false /\ counter_st0 = treg_dump_1_1_1_1_true_false_st0 /\ treg_q true false = 3%nat.
Proof. repeat split; reflexivity. Qed.

Definition treg_dump_1_1_1_1_false_true : design AnySt :=
  {| widths := [1; 1; 1; 1; 1; 1];
   combs := [
    {| c_in := [3%nat]; c_out := [4%nat]; c_f := fun ins => match ins with [x1] => let r := Not_propagate 1 x1 in [Some r] | _ => [] end |};
    {| c_in := [1%nat; 3%nat; 4%nat]; c_out := [5%nat]; c_f := fun ins => match ins with [x1; x2; x3] => let r := Mux2_propagate 1 x1 x2 x3 in [Some r] | _ => [] end |}];
   seqs := [
    {| s_in := [5%nat; 2%nat]; s_out := [3%nat]; s_f := fun st ins => match st, ins with St_Reg s, [x1; x2] => let '(s', r) := Reg_clock 1 false true 0 s x1 0 x2 in (St_Reg s', [Some r]) | _, _ => (st, []) end |}];
   drivers := [{| d_enable := None; d_leaves := [0%nat] |}] |}.
Definition treg_dump_1_1_1_1_false_true_st0 : list AnySt := [St_Reg {| Reg_s_value := 0 |}].

Lemma treg_dump_1_1_1_1_false_true_ok : treg_design 1 1 1 1 false true = treg_dump_1_1_1_1_false_true /\ counter_st0 = treg_dump_1_1_1_1_false_true_st0 /\ treg_q false true = 3%nat.
Proof. repeat split; reflexivity. Qed.

Definition treg_dump_1_1_1_1_false_false : design AnySt :=
  {| widths := [1; 1; 1; 1; 1];
   combs := [
    {| c_in := [2%nat]; c_out := [3%nat]; c_f := fun ins => match ins with [x1] => let r := Not_propagate 1 x1 in [Some r] | _ => [] end |};
    {| c_in := [1%nat; 2%nat; 3%nat]; c_out := [4%nat]; c_f := fun ins => match ins with [x1; x2; x3] => let r := Mux2_propagate 1 x1 x2 x3 in [Some r] | _ => [] end |}];
   seqs := [
    {| s_in := [4%nat]; s_out := [2%nat]; s_f := fun st ins => match st, ins with St_Reg s, [x1] => let '(s', r) := Reg_clock 1 false false 0 s x1 0 0 in (St_Reg s', [Some r]) | _, _ => (st, []) end |}];
   drivers := [{| d_enable := None; d_leaves := [0%nat] |}] |}.
Definition treg_dump_1_1_1_1_false_false_st0 : list AnySt := [St_Reg {| Reg_s_value := 0 |}].

Lemma treg_dump_1_1_1_1_false_false_ok : treg_design 1 1 1 1 false false = treg_dump_1_1_1_1_false_false /\ counter_st0 = treg_dump_1_1_1_1_false_false_st0 /\ treg_q false false = 2%nat.
Proof. repeat split; reflexivity. Qed.

Definition treg_dump_3_2_2_3_true_true : design AnySt :=
  {| widths := [1; 2; 2; 3; 3; 1; 1];
   combs := [
    {| c_in := [4%nat]; c_out := [5%nat]; c_f := fun ins => match ins with [x1] => let r := Not_propagate 1 x1 in [Some r] | _ => [] end |};
    {| c_in := [1%nat; 4%nat; 5%nat]; c_out := [6%nat]; c_f := fun ins => match ins with [x1; x2; x3] => let r := Mux2_propagate 1 x1 x2 x3 in [Some r] | _ => [] end |}];
   seqs := [
    {| s_in := [6%nat; 2%nat; 3%nat]; s_out := [4%nat]; s_f := fun st ins => match st, ins with St_Reg s, [x1; x2; x3] => let '(s', r) := Reg_clock 3 true true 0 s x1 x2 x3 in (St_Reg s', [Some r]) | _, _ => (st, []) end |}];
   drivers := [{| d_enable := None; d_leaves := [0%nat] |}] |}.
Definition treg_dump_3_2_2_3_true_true_st0 : list AnySt := [St_Reg {| Reg_s_value := 0 |}].

Lemma treg_dump_3_2_2_3_true_true_ok : treg_design 3 2 2 3 true true = treg_dump_3_2_2_3_true_true /\ counter_st0 = treg_dump_3_2_2_3_true_true_st0 /\ treg_q true true = 4%nat.
Proof. repeat split; reflexivity. Qed.
