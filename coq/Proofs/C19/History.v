(* C19 — answers do not depend on the history; what the entry-point clearing is needed for. *)
From Coq Require Import ZArith List Bool Lia.
From V Require Import Model.GenState Spec.C19 Proofs.C19.Thread.
Import ListNotations.
Open Scope Z_scope.

Lemma nth_len_app {A} (l : list A) x d : nth (length l) (l ++ [x]) d = x.
Proof. rewrite app_nth2 by lia. now rewrite Nat.sub_diag. Qed.

Lemma uniq_incl U V : incl V U -> uniq_ids U -> uniq_ids V.
Proof. intros Hi Hu a b Ha Hb. apply Hu; auto. Qed.

Lemma nodes_closed c : forall n, In n (nodes c) -> incl (nodes n) (nodes c).
Proof.
  induction c as [i a b cc d e f g kids IH] using node_ind'.
  intros n Hn. rewrite nodes_unfold in Hn. destruct Hn as [<-|Hn]; [apply incl_refl|].
  cbn [nkids] in Hn. apply in_flat_map in Hn. destruct Hn as [k [Hk Hn]].
  rewrite Forall_forall in IH. intros x Hx. eapply kid_nodes_incl; [exact Hk|]. eapply IH; eauto.
Qed.

(* ------------------------------------------------------------------ one entry point *)
Lemma run_entry_snd s cache0 g h heap f : snd (run_entry s cache0 g h heap f) =
  Some (snd (f {| g_cache := cache0; g_created := nth h heap []; g_log := p_log s |})).
Proof. unfold run_entry. destruct (f _) as [st1 t]. reflexivity. Qed.

Lemma run_entry_cache s cache0 g h heap f : p_cache (fst (run_entry s cache0 g h heap f)) =
  g_cache (fst (f {| g_cache := cache0; g_created := nth h heap []; g_log := p_log s |})).
Proof. unfold run_entry. destruct (f _) as [st1 t]. reflexivity. Qed.

Lemma run_entry_env s cache0 g h heap f : p_env (fst (run_entry s cache0 g h heap f)) = p_env s.
Proof. unfold run_entry. destruct (f _) as [st1 t]. reflexivity. Qed.

Definition pcoh (U : list node) (cache : option (oid * namemap)) : Prop :=
  forall o m, cache = Some (o, m) -> exists n, In n U /\ nid n = o /\ m = names_of n.

Lemma pcoh_none U : pcoh U None.
Proof. intros o m H. discriminate. Qed.

Lemma pcoh_coh U cache cr lg : pcoh U cache -> coh U {| g_cache := cache; g_created := cr; g_log := lg |}.
Proof. intros H o m Hg. exact (H o m Hg). Qed.

Lemma coh_pcoh U st : coh U st -> pcoh U (g_cache st).
Proof. intros H o m Hg. exact (H o m Hg). Qed.

Lemma par_in_found U c o : incl (nodes c) U -> par_in U (find_parent c o).
Proof.
  intros Hi. destruct (find_parent c o) as [pn|] eqn:Hp; cbn; [|exact I].
  apply Hi. eapply find_parent_in; eauto.
Qed.

(* Any clr.  If the cache the entry point starts from is coherent w.r.t. a universe U of objects with unique
   identities that contains the circuit, the answer is the reference answer and the cache stays coherent. *)
Lemma step_gen_answer (clr : bool) U s r g ge :
  req_gen r = Some g -> nth_error (p_gens s) g = Some ge -> req_ok s r = true ->
  uniq_ids U -> (forall c, nth_error (p_env s) (ge_circ ge) = Some c -> incl (nodes c) U) ->
  pcoh U (if clr then None else p_cache s) ->
  snd (step_gen clr s r) = ref_answer (p_env s) (ge_circ ge) (ge_root ge) r (req_pre s r).
Proof.
  intros Hg Hge Hok Hu Hinc Hpc.
  destruct r as [c root|l|g' obj noInst force|g' obj noInstTop force cs|c n]; try discriminate.
  - (* getVerilog *)
    cbn in Hg. injection Hg as ->. unfold ref_answer. cbn [step_gen req_pre]. rewrite Hge.
    destruct (nth_error (p_env s) (ge_circ ge)) as [c|] eqn:Hc; [|reflexivity].
    specialize (Hinc c eq_refl).
    set (o := match obj with Some o => o | None => ge_root ge end).
    destruct (find_node c o) as [n|] eqn:Hf; [|reflexivity].
    rewrite run_entry_snd. rewrite nth_len_app. f_equal.
    apply find_node_in in Hf. destruct Hf as [Hn _].
    match goal with |- snd (emit ?p ?n ?a ?b ?st) = _ =>
      destruct (emit_spec U p n a b st Hu (pcoh_coh _ _ _ _ Hpc) (Hinc _ Hn) (par_in_found U c o Hinc)) as [E1 _] end.
    exact E1.
  - (* getVerilogForHierarchy *)
    cbn in Hg. injection Hg as ->. unfold ref_answer. cbn [step_gen]. rewrite Hge.
    destruct (nth_error (p_env s) (ge_circ ge)) as [c|] eqn:Hc; [|reflexivity].
    specialize (Hinc c eq_refl).
    set (o := match obj with Some o => o | None => ge_root ge end).
    destruct (find_node c o) as [n|] eqn:Hf; [|reflexivity].
    apply find_node_in in Hf. destruct Hf as [Hn _].
    assert (Hsub : incl (nodes n) U).
    { intros x Hx. apply Hinc. eapply nodes_closed; eauto. }
    destruct cs as [h|].
    + cbn [req_ok] in Hok. rewrite Hok. rewrite run_entry_snd. cbn [req_pre]. f_equal.
      match goal with |- snd (hier ?p ?n ?a ?b ?st) = _ =>
        destruct (hier_spec U Hu n p a b st (pcoh_coh _ _ _ _ Hpc) Hsub (par_in_found U c o Hinc)) as [E1 _] end.
      exact E1.
    + rewrite run_entry_snd. rewrite nth_len_app. cbn [req_pre]. f_equal.
      match goal with |- snd (hier ?p ?n ?a ?b ?st) = _ =>
        destruct (hier_spec U Hu n p a b st (pcoh_coh _ _ _ _ Hpc) Hsub (par_in_found U c o Hinc)) as [E1 _] end.
      exact E1.
Qed.

(* the real code (clr = true): from ANY process state — whatever the cache holds, whatever other generators did *)
Lemma step_answer s r g ge :
  req_gen r = Some g -> nth_error (p_gens s) g = Some ge -> req_ok s r = true ->
  (forall c, nth_error (p_env s) (ge_circ ge) = Some c -> uniq_ids (nodes c)) ->
  snd (step s r) = ref_answer (p_env s) (ge_circ ge) (ge_root ge) r (req_pre s r).
Proof.
  intros Hg Hge Hok Hu. unfold step.
  destruct (nth_error (p_env s) (ge_circ ge)) as [c|] eqn:Hc.
  - apply (step_gen_answer true (nodes c) s r g ge Hg Hge Hok (Hu c eq_refl)).
    + intros c' Hc'. rewrite Hc in Hc'. injection Hc' as <-. apply incl_refl.
    + apply pcoh_none.
  - (* no such circuit: both sides are None *)
    destruct r as [c root|l|g' obj noInst force|g' obj noInstTop force cs|c n]; try discriminate;
      cbn in Hg; injection Hg as ->; unfold ref_answer; cbn [step_gen]; rewrite Hge, Hc; reflexivity.
Qed.

Lemma history_independent env history r g ge :
  let s := fst (run (init env) history) in
  req_gen r = Some g -> nth_error (p_gens s) g = Some ge -> req_ok s r = true ->
  (forall c, nth_error (p_env s) (ge_circ ge) = Some c -> uniq_ids (nodes c)) ->
  snd (step s r) = ref_answer (p_env s) (ge_circ ge) (ge_root ge) r (req_pre s r).
Proof. intros s. apply step_answer. Qed.

(* "the same request on a fresh generator" is the reference answer as well *)
Lemma fresh_is_ref env ci root r pre g :
  req_gen r = Some g ->
  (forall c, nth_error env ci = Some c -> uniq_ids (nodes c)) ->
  on_fresh_generator env ci root r pre =
  ref_answer env ci root r match r with RGetHier _ _ _ _ (Some _) => pre | _ => [] end.
Proof.
  intros Hg Hu. unfold on_fresh_generator.
  set (s1 := fst (step (fst (step (init env) (RNewGen ci root))) (RNewList pre))).
  assert (Hs1 : s1 = {| p_env := env; p_cache := None; p_heap := [[]; pre];
                        p_gens := [{| ge_circ := ci; ge_root := root; ge_cs := 0%nat |}]; p_log := [] |}) by reflexivity.
  destruct r as [c root'|l|g' obj noInst force|g' obj noInstTop force cs|c n]; try discriminate.
  - rewrite (step_answer s1 (RGetVerilog 0 obj noInst force) 0%nat {| ge_circ := ci; ge_root := root; ge_cs := 0%nat |});
      try (rewrite Hs1; reflexivity); auto; try (rewrite Hs1; exact Hu).
  - destruct cs as [h|].
    + rewrite (step_answer s1 (RGetHier 0 obj noInstTop force (Some 1%nat)) 0%nat {| ge_circ := ci; ge_root := root; ge_cs := 0%nat |});
        try (rewrite Hs1; reflexivity); auto; try (rewrite Hs1; exact Hu).
    + rewrite (step_answer s1 (RGetHier 0 obj noInstTop force None) 0%nat {| ge_circ := ci; ge_root := root; ge_cs := 0%nat |});
        try (rewrite Hs1; reflexivity); auto; try (rewrite Hs1; exact Hu).
Qed.

Lemma fresh_generator env history r g ge :
  let s := fst (run (init env) history) in
  req_gen r = Some g -> nth_error (p_gens s) g = Some ge -> req_ok s r = true ->
  (forall c, nth_error (p_env s) (ge_circ ge) = Some c -> uniq_ids (nodes c)) ->
  snd (step s r) = on_fresh_generator (p_env s) (ge_circ ge) (ge_root ge) r (req_pre s r).
Proof.
  intros s Hg Hge Hok Hu. rewrite (fresh_is_ref _ _ _ _ _ g Hg Hu).
  rewrite (step_answer s r g ge Hg Hge Hok Hu). f_equal.
  destruct r as [c root'|l|g' obj noInst force|g' obj noInstTop force [h|]|c n]; reflexivity.
Qed.

(* ------------------------------------------------------------------ without the clearing (clr = false) *)

Lemma step_gen_env clr s r : is_edit r = false -> p_env (fst (step_gen clr s r)) = p_env s.
Proof.
  intros He. destruct r as [c root|l|g obj noInst force|g obj noInstTop force cs|c n]; try discriminate; try reflexivity.
  - cbn [step_gen]. destruct (nth_error (p_gens s) g) as [ge|]; [|reflexivity].
    destruct (nth_error (p_env s) (ge_circ ge)) as [c|]; [|reflexivity].
    destruct (find_node c _) as [n|]; [|reflexivity]. apply run_entry_env.
  - cbn [step_gen]. destruct (nth_error (p_gens s) g) as [ge|]; [|reflexivity].
    destruct (nth_error (p_env s) (ge_circ ge)) as [c|]; [|reflexivity].
    destruct (find_node c _) as [n|]; [|reflexivity].
    destruct cs as [h|]; [|apply run_entry_env].
    destruct (h <? length (p_heap s))%nat; [apply run_entry_env|reflexivity].
Qed.

Lemma circ_in_all env ci c : nth_error env ci = Some c -> incl (nodes c) (all_nodes env).
Proof.
  intros H x Hx. unfold all_nodes. apply in_flat_map. exists c. split; [|exact Hx].
  eapply nth_error_In; eauto.
Qed.

(* the process-level cache stays coherent w.r.t. the live objects as long as no circuit is edited *)
Lemma step_gen_pcoh (clr : bool) s r :
  is_edit r = false -> uniq_ids (all_nodes (p_env s)) ->
  pcoh (all_nodes (p_env s)) (p_cache s) ->
  pcoh (all_nodes (p_env s)) (p_cache (fst (step_gen clr s r))).
Proof.
  intros He Hu Hp. set (U := all_nodes (p_env s)) in *.
  assert (H0 : pcoh U (if clr then None else p_cache s)) by (destruct clr; [apply pcoh_none|exact Hp]).
  destruct r as [c root|l|g obj noInst force|g obj noInstTop force cs|c n]; try discriminate; try exact Hp.
  - cbn [step_gen]. destruct (nth_error (p_gens s) g) as [ge|]; [|exact Hp].
    destruct (nth_error (p_env s) (ge_circ ge)) as [c|] eqn:Hc; [|exact Hp].
    destruct (find_node c _) as [n|] eqn:Hf; [|exact Hp].
    rewrite run_entry_cache. apply coh_pcoh.
    pose proof (circ_in_all _ _ _ Hc) as Hinc. apply find_node_in in Hf. destruct Hf as [Hn _].
    match goal with |- coh U (fst (emit ?p ?n ?a ?b ?st)) =>
      destruct (emit_spec U p n a b st Hu (pcoh_coh _ _ _ _ H0) (Hinc _ Hn) (par_in_found U c _ Hinc)) as [_ [_ E3]] end.
    exact E3.
  - cbn [step_gen]. destruct (nth_error (p_gens s) g) as [ge|]; [|exact Hp].
    destruct (nth_error (p_env s) (ge_circ ge)) as [c|] eqn:Hc; [|exact Hp].
    destruct (find_node c _) as [n|] eqn:Hf; [|exact Hp].
    pose proof (circ_in_all _ _ _ Hc) as Hinc. apply find_node_in in Hf. destruct Hf as [Hn _].
    assert (Hsub : incl (nodes n) U).
    { intros x Hx. apply Hinc. eapply nodes_closed; eauto. }
    destruct cs as [h|].
    + destruct (h <? length (p_heap s))%nat; [|exact Hp].
      rewrite run_entry_cache. apply coh_pcoh.
      match goal with |- coh U (fst (hier ?p ?n ?a ?b ?st)) =>
        destruct (hier_spec U Hu n p a b st (pcoh_coh _ _ _ _ H0) Hsub (par_in_found U c _ Hinc)) as [_ [_ E3]] end.
      exact E3.
    + rewrite run_entry_cache. apply coh_pcoh.
      match goal with |- coh U (fst (hier ?p ?n ?a ?b ?st)) =>
        destruct (hier_spec U Hu n p a b st (pcoh_coh _ _ _ _ H0) Hsub (par_in_found U c _ Hinc)) as [_ [_ E3]] end.
      exact E3.
Qed.

Lemma run_gen_inv clr env : uniq_ids (all_nodes env) -> forall rs s,
  forallb (fun r => negb (is_edit r)) rs = true ->
  p_env s = env -> pcoh (all_nodes env) (p_cache s) ->
  p_env (fst (run_gen clr s rs)) = env /\ pcoh (all_nodes env) (p_cache (fst (run_gen clr s rs))).
Proof.
  intros Hu. induction rs as [|r rest IH]; intros s Hne Henv Hp; [cbn; auto|].
  cbn [forallb] in Hne. apply andb_true_iff in Hne. destruct Hne as [Hr Hrest].
  apply negb_true_iff in Hr. cbn [run_gen].
  pose proof (step_gen_env clr s r Hr) as E1.
  pose proof (step_gen_pcoh clr s r Hr) as E2. rewrite Henv in E1, E2. specialize (E2 Hu Hp).
  destruct (step_gen clr s r) as [s1 a]. cbn [fst] in *.
  specialize (IH s1 Hrest E1 E2). destruct (run_gen clr s1 rest) as [s2 l]. exact IH.
Qed.

(* Without any clearing at the entry points the answers are STILL the reference answers, for every history
   that does not edit a circuit (induction over the history; invariant = cache coherence). *)
Lemma noclear_immutable env history r g ge :
  uniq_ids (all_nodes env) -> forallb (fun r => negb (is_edit r)) history = true ->
  let s := fst (run_gen false (init env) history) in
  req_gen r = Some g -> nth_error (p_gens s) g = Some ge -> req_ok s r = true ->
  snd (step_gen false s r) = ref_answer (p_env s) (ge_circ ge) (ge_root ge) r (req_pre s r).
Proof.
  intros Hu Hne s Hg Hge Hok.
  destruct (run_gen_inv false env Hu history (init env) Hne eq_refl (pcoh_none _)) as [I1 I2].
  fold s in I1, I2.
  apply (step_gen_answer false (all_nodes env) s r g ge Hg Hge Hok Hu); [|exact I2].
  - intros c Hc. rewrite I1 in Hc. eapply circ_in_all; eauto.
Qed.

(* the intra-request facts, bundled *)
Lemma cache_coherent U : uniq_ids U ->
  (forall cr lg, coh U {| g_cache := None; g_created := cr; g_log := lg |}) /\
  (forall st n, coh U st -> In n U ->
     snd (getWireNames n st) = names_of n /\ coh U (fst (getWireNames n st))) /\
  (forall st par n noInst force, coh U st -> In n U -> par_in U par ->
     coh U (fst (emit par n noInst force st))) /\
  (forall st par n noInst force, coh U st -> incl (nodes n) U -> par_in U par ->
     coh U (fst (hier par n noInst force st))).
Proof.
  intros Hu. split; [|split; [|split]].
  - intros cr lg o m H. discriminate H.
  - intros st n Hc Hn. destruct (gwn_spec U st n Hu Hc Hn) as [G1 [G2 _]]. auto.
  - intros st par n a b Hc Hn Hp. now destruct (emit_spec U par n a b st Hu Hc Hn Hp) as [_ [_ E]].
  - intros st par n a b Hc Hi Hp. now destruct (hier_spec U Hu n par a b st Hc Hi Hp) as [_ [_ E]].
Qed.
