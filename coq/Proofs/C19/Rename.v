(* C19 — the answer for a design built again (other object / wire identities) is the same answer with the
   identities in the module names renamed: this is what "up to the instance-unique suffixes" refers to. *)
From Coq Require Import ZArith List Bool Lia.
From V Require Import Model.GenState Spec.C19 Proofs.C19.Thread.
Import ListNotations.
Open Scope Z_scope.

Section R.
Variables fo fw : Z -> Z.
Hypothesis fo_inj : injective fo.
Hypothesis fw_inj : injective fw.

Definition mapk (m : namemap) : namemap := map (fun kv => (fw (fst kv), snd kv)) m.

Lemma eqb_inj f : injective f -> forall a b, (f a =? f b) = (a =? b).
Proof.
  intros Hf a b. destruct (a =? b) eqn:E.
  - apply Z.eqb_eq in E. subst. apply Z.eqb_refl.
  - apply Z.eqb_neq in E. apply Z.eqb_neq. intros H. apply E. now apply Hf.
Qed.

Lemma upd_mapk k v m : upd (fw k) v (mapk m) = mapk (upd k v m).
Proof.
  induction m as [|[k' v'] r IH]; [reflexivity|]. cbn [mapk map upd fst snd].
  rewrite (eqb_inj fw fw_inj). destruct (k =? k'); [reflexivity|]. cbn [map fst snd]. f_equal. exact IH.
Qed.

Lemma get_mapk k m : get (fw k) (mapk m) = get k m.
Proof.
  induction m as [|[k' v'] r IH]; [reflexivity|]. cbn [mapk map get fst snd].
  rewrite (eqb_inj fw fw_inj). destruct (k =? k'); [reflexivity|exact IH].
Qed.

Lemma nports_ren n : nports (ren_node fo fw n) = map (ren_port fw) (nports n).
Proof. destruct n; reflexivity. Qed.
Lemma nkids_ren n : nkids (ren_node fo fw n) = map (ren_node fo fw) (nkids n).
Proof. destruct n; reflexivity. Qed.
Lemma nid_ren n : nid (ren_node fo fw n) = fo (nid n).
Proof. destruct n; reflexivity. Qed.
Lemma ntname_ren n : ntname (ren_node fo fw n) = ntname n.
Proof. destruct n; reflexivity. Qed.
Lemma niname_ren n : niname (ren_node fo fw n) = niname n.
Proof. destruct n; reflexivity. Qed.
Lemma nsn_ren n : nsn (ren_node fo fw n) = nsn n.
Proof. destruct n; reflexivity. Qed.
Lemma nkind_ren n : nkind (ren_node fo fw n) = nkind n.
Proof. destruct n; reflexivity. Qed.
Lemma ninl_ren n : ninl (ren_node fo fw n) = ninl n.
Proof. destruct n; reflexivity. Qed.
Lemma nclk_ren n : nclk (ren_node fo fw n) = nclk n.
Proof. destruct n; reflexivity. Qed.

Lemma fold_ports_ren (g : port -> vname) (Hg : forall p, g (ren_port fw p) = g p) : forall ps m,
  fold_left (fun m p => upd (p_wire p) (g p) m) (map (ren_port fw) ps) (mapk m) =
  mapk (fold_left (fun m p => upd (p_wire p) (g p) m) ps m).
Proof.
  induction ps as [|p r IH]; intros m; [reflexivity|]. cbn [map fold_left].
  rewrite Hg. cbn [ren_port p_wire]. rewrite upd_mapk. apply IH.
Qed.

Lemma names_of_ren n : names_of (ren_node fo fw n) = mapk (names_of n).
Proof.
  unfold names_of. rewrite nports_ren, nkids_ren.
  assert (H1 : forall ks m,
    fold_left (fun m k => fold_left (fun m p => upd (p_wire p) (wire_default p) m) (nports k) m) (map (ren_node fo fw) ks) (mapk m) =
    mapk (fold_left (fun m k => fold_left (fun m p => upd (p_wire p) (wire_default p) m) (nports k) m) ks m)).
  { induction ks as [|k r IH]; intros m; [reflexivity|]. cbn [map fold_left]. rewrite nports_ren.
    rewrite (fold_ports_ren wire_default); [apply IH|]. intros p. reflexivity. }
  change (@nil (wid * vname)) with (mapk []) at 1. rewrite H1.
  apply (fold_ports_ren port_vname). intros p. reflexivity.
Qed.

Lemma lookup_ren n p : lookup (names_of (ren_node fo fw n)) (ren_port fw p) = lookup (names_of n) p.
Proof. unfold lookup. rewrite names_of_ren. cbn [ren_port p_wire]. now rewrite get_mapk. Qed.

Lemma existsb_wire_ren w l : existsb (Z.eqb (fw w)) (map fw l) = existsb (Z.eqb w) l.
Proof.
  induction l as [|x r IH]; [reflexivity|]. cbn [map existsb]. now rewrite (eqb_inj fw fw_inj), IH.
Qed.

Lemma dedup_ren : forall l seen, dedup (map fw seen) (map (ren_port fw) l) = map (ren_port fw) (dedup seen l).
Proof.
  induction l as [|p r IH]; intros seen; [reflexivity|]. cbn [map dedup]. cbn [ren_port p_wire].
  rewrite existsb_wire_ren. destruct (existsb (Z.eqb (p_wire p)) seen); [apply IH|].
  cbn [map]. f_equal. apply (IH (p_wire p :: seen)).
Qed.

Lemma local_wires_ren n : local_wires (ren_node fo fw n) = map (ren_port fw) (local_wires n).
Proof.
  unfold local_wires. rewrite nports_ren, nkids_ren. rewrite map_map. cbn [ren_port p_wire].
  rewrite <- (map_map p_wire fw).
  change (@nil wid) with (map fw []) at 1.
  rewrite <- dedup_ren. f_equal.
  set (mine := map p_wire (nports n)).
  induction (nkids n) as [|k r IH]; [reflexivity|]. cbn [map flat_map]. rewrite map_app, IH. f_equal.
  rewrite nports_ren. clear IH.
  induction (nports k) as [|p ps IHp]; [reflexivity|]. cbn [map filter]. cbn [ren_port p_wire].
  rewrite existsb_wire_ren.
  destruct (negb (existsb (Z.eqb (p_wire p)) mine)); cbn [map]; now rewrite IHp.
Qed.

Lemma ref_decls_ren n : ref_decls (ren_node fo fw n) = ref_decls n.
Proof.
  unfold ref_decls. rewrite local_wires_ren.
  induction (local_wires n) as [|p r IH]; [reflexivity|]. cbn [map filter]. cbn [ren_port p_fake].
  destruct (negb (p_fake p)); cbn [map]; [rewrite lookup_ren|]; now rewrite IH.
Qed.

Lemma ref_inline_names_ren pn ps :
  ref_inline_names (ren_node fo fw pn) (map (ren_port fw) ps) = ref_inline_names pn ps.
Proof.
  unfold ref_inline_names. rewrite map_map. apply map_ext. intros p. cbn [ren_port p_fake p_wtok].
  destruct (p_fake p); [reflexivity|apply lookup_ren].
Qed.

Lemma modname_ren n b : modname (ren_node fo fw n) b = ren_sname fo (modname n b).
Proof.
  unfold modname, ren_sname. rewrite nsn_ren, ntname_ren, nid_ren. destruct (nsn n); [reflexivity|]. destruct b; reflexivity.
Qed.

Lemma ref_item_ren pn k : ref_item (ren_node fo fw pn) (ren_node fo fw k) = ren_item fo (ref_item pn k).
Proof.
  unfold ref_item. rewrite ninl_ren, ntname_ren, niname_ren, nports_ren. destruct (ninl k); cbn [ren_item].
  - now rewrite ref_inline_names_ren.
  - rewrite modname_ren. f_equal. rewrite map_map. apply map_ext. intros p. f_equal. apply lookup_ren.
Qed.

Lemma hdr_ren n : map port_vname (nports (ren_node fo fw n)) = map port_vname (nports n).
Proof. rewrite nports_ren, map_map. apply map_ext. intros p. reflexivity. Qed.

Lemma ref_chunk_ren par n sn :
  ref_chunk (option_map (ren_node fo fw) par) (ren_node fo fw n) (ren_sname fo sn) = ren_chunk fo (ref_chunk par n sn).
Proof.
  unfold ref_chunk. rewrite nkind_ren, ntname_ren, nclk_ren, hdr_ren, ref_decls_ren, nkids_ren.
  destruct (nkind n); cbn [ren_chunk map ren_item]; try reflexivity.
  - f_equal. rewrite !map_map. apply map_ext. intros k. apply ref_item_ren.
  - destruct par as [pn|]; cbn [option_map]; [|reflexivity]. rewrite nports_ren. now rewrite ref_inline_names_ren.
Qed.

Lemma eqb_sname_ren a b : eqb_sname (ren_sname fo a) (ren_sname fo b) = eqb_sname a b.
Proof.
  destruct a as [ta [ia|]], b as [tb [ib|]]; unfold eqb_sname, ren_sname; cbn [fst snd option_map]; try reflexivity.
  now rewrite (eqb_inj fo fo_inj).
Qed.

Lemma existsb_sname_ren s cr : existsb (eqb_sname (ren_sname fo s)) (map (ren_sname fo) cr) = existsb (eqb_sname s) cr.
Proof. induction cr as [|x r IH]; [reflexivity|]. cbn [map existsb]. now rewrite eqb_sname_ren, IH. Qed.

Lemma req_name_ren n noInst force :
  req_name (ren_node fo fw n) noInst (option_map (ren_sname fo) force) = ren_sname fo (req_name n noInst force).
Proof. unfold req_name. destruct force; cbn [option_map]; [reflexivity|apply modname_ren]. Qed.

Lemma ref_emit_ren par n noInst force cr :
  ref_emit (option_map (ren_node fo fw) par) (ren_node fo fw n) noInst (option_map (ren_sname fo) force) (map (ren_sname fo) cr) =
  (map (ren_sname fo) (fst (ref_emit par n noInst force cr)), map (ren_chunk fo) (snd (ref_emit par n noInst force cr))).
Proof.
  unfold ref_emit. rewrite req_name_ren, existsb_sname_ren, nkind_ren.
  destruct (existsb _ cr); [reflexivity|]. cbn [fst snd map]. rewrite ref_chunk_ren.
  destruct (nkind n); try reflexivity; now rewrite map_app.
Qed.

Lemma ref_hier_ren : forall n par noInst force cr,
  ref_hier (option_map (ren_node fo fw) par) (ren_node fo fw n) noInst (option_map (ren_sname fo) force) (map (ren_sname fo) cr) =
  (map (ren_sname fo) (fst (ref_hier par n noInst force cr)), map (ren_chunk fo) (snd (ref_hier par n noInst force cr))).
Proof.
  intros n. induction n as [i a b c d e f g kids IH] using node_ind'.
  set (N := Node i a b c d e f g kids) in *.
  intros par noInst force cr. rewrite !ref_hier_unfold. rewrite ref_emit_ren.
  destruct (ref_emit par N noInst force cr) as [c1 t]. cbn [fst snd].
  assert (Hk : forall l, incl l (nkids N) -> forall cr',
     ref_hier_kids (ren_node fo fw N) (map (ren_node fo fw) l) (map (ren_sname fo) cr') =
     (map (ren_sname fo) (fst (ref_hier_kids N l cr')), map (ren_chunk fo) (snd (ref_hier_kids N l cr')))).
  { induction l as [|k r IHl]; intros Hl cr'; [reflexivity|].
    assert (Hkin : In k (nkids N)) by (apply Hl; now left).
    assert (Hr : incl r (nkids N)) by (intros y Hy; apply Hl; now right).
    cbn [map ref_hier_kids]. rewrite ninl_ren. destruct (ninl k); [now apply IHl|].
    rewrite Forall_forall in IH.
    pose proof (IH k Hkin (Some N) false None cr') as E. cbn [option_map] in E. rewrite E.
    destruct (ref_hier (Some N) k false None cr') as [ca ta]. cbn [fst snd].
    rewrite (IHl Hr ca). destruct (ref_hier_kids N r ca) as [cb tb]. cbn [fst snd]. now rewrite map_app. }
  rewrite nkids_ren. rewrite (Hk (nkids N) (incl_refl _) c1).
  destruct (ref_hier_kids N (nkids N) c1) as [c2 t2]. cbn [fst snd]. now rewrite map_app.
Qed.
End R.

(* the reference answer of a hierarchy request on the renamed circuit *)
Theorem rebuilt_copy fo fw : injective fo -> injective fw -> forall n par noInst force cr,
  snd (ref_hier (option_map (ren_node fo fw) par) (ren_node fo fw n) noInst (option_map (ren_sname fo) force) (map (ren_sname fo) cr)) =
  map (ren_chunk fo) (snd (ref_hier par n noInst force cr)).
Proof. intros Ho Hw n par noInst force cr. now rewrite (ref_hier_ren fo fw Ho Hw). Qed.

Theorem rebuilt_copy_single fo fw : injective fo -> injective fw -> forall n par noInst force cr,
  snd (ref_emit (option_map (ren_node fo fw) par) (ren_node fo fw n) noInst (option_map (ren_sname fo) force) (map (ren_sname fo) cr)) =
  map (ren_chunk fo) (snd (ref_emit par n noInst force cr)).
Proof. intros Ho Hw n par noInst force cr. now rewrite (ref_emit_ren fo fw Ho Hw). Qed.
