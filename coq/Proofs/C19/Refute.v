(* C19 — concrete circuits: witnesses for the clauses the faithful model refutes, and instances for the hypotheses. *)
From Coq Require Import ZArith List Bool Lia.
From V Require Import Model.GenState Spec.C19 Proofs.C19.Thread Proofs.C19.History Proofs.C19.Scope.
Import ListNotations.
Open Scope Z_scope.

Definition P (name : tok) (w : wid) (wname : tok) : port :=
  {| p_name := name; p_res := false; p_wire := w; p_wtok := wname; p_fake := false |}.

(* tokens: 1 HWSystem 2 Add 3 Box 4 Constant 5 AddCarryIn 100 "Add8"; ports 10 a 11 b 12 r 13 ci;
   wires 1000 x 1001 r1 1002 y 1003 z 1004 r2 1010/1011 ci;  names 20 x 21 r1 22 y 23 z 24 r2; instances 30.. *)
Definition add8 (id idc ida : oid) (iname : tok) (wa wb wr wci : wid) (na nb nr : tok) : node :=
  Node id iname 2 (Some 100) KStruct false None [P 10 wa na; P 11 wb nb; P 12 wr nr]
    [ Node idc 34 4 None KInline true None [P 12 wci 13] [];
      Node ida 33 5 None KInline true None [P 10 wa na; P 11 wb nb; P 13 wci 13; P 12 wr nr] [] ].

(* HWSystem { u1 = Add(x, x, r1) ; bx = Box(y, z, r2) { u2 = Add(a, b, r) } } *)
Definition u1 := add8 2 5 6 30 1000 1000 1001 1010 20 20 21.
Definition u2 := add8 4 7 8 32 1002 1003 1004 1011 22 23 24.
Definition bx := Node 3 31 3 None KStruct false None [P 10 1002 22; P 11 1003 23; P 12 1004 24] [u2].
Definition top := Node 1 0 1 None KStruct false None [] [u1; bx].

Lemma top_uniq : uniq_ids (nodes top).
Proof. apply uniq_by_compute. vm_compute. reflexivity. Qed.

(* --- a structure name shared by two instances: the module text depends on which instance the walk meets first,
       i.e. on the object the request started from *)
Lemma scope_shared_name_refuted :
  exists env t1 t2 nm ch1 ch2,
    uniq_ids (all_nodes env) /\
    snd (run (init env) [RNewGen 0 1; RGetHier 0 None true None None; RGetHier 0 (Some 3) true None None])
      = [None; Some t1; Some t2] /\
    find_module nm t1 = Some ch1 /\ find_module nm t2 = Some ch2 /\ ch1 <> ch2.
Proof.
  exists [top]. eexists. eexists. exists (100, None). eexists. eexists.
  split; [apply uniq_by_compute; vm_compute; reflexivity|].
  split; [vm_compute; reflexivity|].
  split; [vm_compute; reflexivity|].
  split; [vm_compute; reflexivity|].
  intro H. discriminate H.
Qed.

(* --- createdStructures: the caller's list is kept by reference and appended to, so passing the same list
       object to a second, identical request gives a different (here: empty) text *)
Definition rq_shared := RGetHier 0 None true None (Some 1%nat).
Lemma shared_list_refuted :
  exists env t1,
    uniq_ids (all_nodes env) /\
    snd (run (init env) [RNewGen 0 1; RNewList []; rq_shared; rq_shared]) = [None; None; Some t1; Some []] /\
    t1 <> [] /\ on_fresh_generator env 0 1 rq_shared [] = Some t1.
Proof.
  exists [top]. eexists.
  split; [apply uniq_by_compute; vm_compute; reflexivity|].
  split; [vm_compute; reflexivity|].
  split; [intro H; discriminate H|vm_compute; reflexivity].
Qed.

(* --- what clearWireNamesCache() at the entry points is needed for: a circuit edited between two requests *)
Definition leafc (id : oid) (iname : tok) (w : wid) (wn : tok) : node := Node id iname 4 None KInline true None [P 12 w wn] [].
Definition ed0 := Node 1 0 1 None KStruct false None [] [leafc 2 30 1000 20].
Definition ed1 := Node 1 0 1 None KStruct false None [] [leafc 2 30 1000 20; leafc 3 31 1001 21].
Definition rq_top := RGetVerilog 0 None false None.
Lemma noclear_edit_refuted :
  exists env history r g ge,
    let s := fst (run_gen false (init env) history) in
    uniq_ids (all_nodes (p_env s)) /\ req_gen r = Some g /\ nth_error (p_gens s) g = Some ge /\ req_ok s r = true /\
    snd (step_gen false s r) <> ref_answer (p_env s) (ge_circ ge) (ge_root ge) r (req_pre s r) /\
    snd (step_gen true s r) = ref_answer (p_env s) (ge_circ ge) (ge_root ge) r (req_pre s r).
Proof.
  exists [ed0], [RNewGen 0 1; rq_top; REdit 0 ed1], rq_top, 0%nat, {| ge_circ := 0; ge_root := 1; ge_cs := 1 |}.
  cbv zeta.
  split; [apply uniq_by_compute; vm_compute; reflexivity|].
  split; [reflexivity|]. split; [vm_compute; reflexivity|]. split; [reflexivity|].
  split; [vm_compute; intro H; discriminate H|vm_compute; reflexivity].
Qed.

(* --- instances of the hypotheses of the positive theorems *)
Example history_instance :
  let s := fst (run (init [top]) [RNewGen 0 1; RGetVerilog 0 (Some 3) false None; RNewGen 0 3; RGetHier 1 None true None None]) in
  req_gen (RGetHier 0 None true None None) = Some 0%nat /\
  nth_error (p_gens s) 0 = Some {| ge_circ := 0; ge_root := 1; ge_cs := 1 |} /\
  req_ok s (RGetHier 0 None true None None) = true /\
  (forall c, nth_error (p_env s) 0 = Some c -> uniq_ids (nodes c)) /\
  exists t, snd (step s (RGetHier 0 None true None None)) = Some t /\ length t = 3%nat.
Proof.
  cbv zeta. split; [reflexivity|]. split; [vm_compute; reflexivity|]. split; [reflexivity|].
  split.
  - intros c Hc. vm_compute in Hc. injection Hc as <-. exact top_uniq.
  - eexists. split; [vm_compute; reflexivity|reflexivity].
Qed.

(* the instance-unique module Box_<id 3> is the same chunk whether asked from the top or directly *)
Example scope_instance :
  exists t1 t2 ch,
    snd (run (init [top]) [RNewGen 0 1; RGetHier 0 None true None None; RGetVerilog 0 (Some 3) false None])
      = [None; Some t1; Some t2] /\
    find_module (3, Some 3) t1 = Some ch /\ find_module (3, Some 3) t2 = Some ch.
Proof. eexists. eexists. eexists. split; [vm_compute; reflexivity|]. split; vm_compute; reflexivity. Qed.

(* an injective renaming, and the rebuilt-copy equation evaluated on the sample circuit *)
Example rebuilt_instance :
  injective (fun x => x + 7) /\ injective (fun x => 2 * x) /\
  snd (ref_hier None (ren_node (fun x => x + 7) (fun x => 2 * x) top) true None []) =
  map (ren_chunk (fun x => x + 7)) (snd (ref_hier None top true None [])).
Proof.
  split; [intros x y H; lia|]. split; [intros x y H; lia|]. vm_compute. reflexivity.
Qed.
