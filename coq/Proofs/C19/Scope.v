(* C19 — the module emitted for a block is a function of that block, not of the object the request started from. *)
From Coq Require Import ZArith List Bool Lia.
From V Require Import Model.GenState Spec.C19 Proofs.C19.Thread Proofs.C19.History.
Import ListNotations.
Open Scope Z_scope.

Lemma ref_emit_chunks par n noInst force cr ch :
  In ch (snd (ref_emit par n noInst force cr)) -> ch = ref_chunk par n (req_name n noInst force).
Proof.
  unfold ref_emit. destruct (existsb _ cr); cbn [snd]; intros H; [destruct H|].
  destruct H as [<-|[]]. reflexivity.
Qed.

Lemma edge_kid a k : In k (nkids a) -> In (a, k) (edges a).
Proof. intros Hk. rewrite edges_unfold. apply in_flat_map. exists k. split; [exact Hk|now left]. Qed.

Lemma edge_below a k e : In k (nkids a) -> In e (edges k) -> In e (edges a).
Proof. intros Hk He. rewrite edges_unfold. apply in_flat_map. exists k. split; [exact Hk|now right]. Qed.

(* every chunk of a hierarchy request: the requested object under the requested name, or a descendant s under
   ITS OWN name, rendered from s and its parent *)
Lemma ref_hier_chunks : forall a par noInst force cr ch,
  In ch (snd (ref_hier par a noInst force cr)) ->
  ch = ref_chunk par a (req_name a noInst force) \/
  exists p s, In (p, s) (edges a) /\ ch = ref_chunk (Some p) s (modname s false).
Proof.
  intros a. induction a as [i x b c d e f g kids IH] using node_ind'.
  set (N := Node i x b c d e f g kids) in *.
  intros par noInst force cr ch. rewrite ref_hier_unfold.
  destruct (ref_emit par N noInst force cr) as [c1 t] eqn:Ee.
  assert (Hk : forall l, incl l (nkids N) -> forall cr' ch, In ch (snd (ref_hier_kids N l cr')) ->
           exists p s, In (p, s) (edges N) /\ ch = ref_chunk (Some p) s (modname s false)).
  { induction l as [|k r IHl]; intros Hl cr' ch' Hin; [destruct Hin|].
    assert (Hkin : In k (nkids N)) by (apply Hl; now left).
    assert (Hr : incl r (nkids N)) by (intros y Hy; apply Hl; now right).
    cbn [ref_hier_kids] in Hin. destruct (ninl k); [eapply IHl; eauto|].
    destruct (ref_hier (Some N) k false None cr') as [ca ta] eqn:Ek.
    destruct (ref_hier_kids N r ca) as [cb tb] eqn:Er. cbn [snd] in Hin.
    apply in_app_or in Hin. destruct Hin as [Hin|Hin].
    - rewrite Forall_forall in IH.
      specialize (IH k Hkin (Some N) false None cr' ch'). rewrite Ek in IH. cbn [snd] in IH.
      destruct (IH Hin) as [->|[p [s [He ->]]]].
      + exists N, k. split; [now apply edge_kid|reflexivity].
      + exists p, s. split; [eapply edge_below; eauto|reflexivity].
    - apply (IHl Hr ca ch'). rewrite Er. exact Hin. }
  destruct (ref_hier_kids N (nkids N) c1) as [c2 t2] eqn:Er. cbn [snd]. intros Hin.
  apply in_app_or in Hin. destruct Hin as [Hin|Hin].
  - left. apply (ref_emit_chunks par N noInst force cr). rewrite Ee. exact Hin.
  - right. apply (Hk (nkids N) (incl_refl _) c1 ch). rewrite Er. exact Hin.
Qed.

Lemma edge_nodes c p s : In (p, s) (edges c) -> In s (nodes c).
Proof.
  intros He. destruct (edges_parent_in c _ He) as [H1 H2]. cbn [fst snd] in *.
  eapply nodes_closed; [exact H1|]. now apply kid_in_nodes.
Qed.

(* a named module: the name is the one asked for, the block is not an inlined primitive, the parent is irrelevant *)
Lemma ref_chunk_named par n sn nm :
  chunk_name (ref_chunk par n sn) = Some nm -> nm = sn /\ forall par', ref_chunk par' n sn = ref_chunk par n sn.
Proof.
  unfold ref_chunk. destruct (nkind n); cbn [chunk_name]; intros H; try discriminate;
    injection H as <-; split; reflexivity.
Qed.

Lemma modname_inst s b t i : modname s b = (t, Some i) -> nid s = i /\ modname s false = (t, Some i).
Proof.
  unfold modname. destruct (nsn s); [discriminate|]. destruct b; [discriminate|].
  intros H. injection H as <- <-. auto.
Qed.

(* chunks of any answer (no forced name): ref_chunk of a block of the circuit under one of its own names *)
Lemma answer_chunks env ci root r pre c t ch :
  nth_error env ci = Some c -> req_force r = None -> ref_answer env ci root r pre = Some t -> In ch t ->
  exists q s b, In s (nodes c) /\ ch = ref_chunk q s (modname s b).
Proof.
  intros Hc Hf Ha Hin. unfold ref_answer in Ha. rewrite Hc in Ha.
  destruct r as [c0 root'|l|g obj noInst force|g obj noInstTop force cs|c0 n]; try discriminate; cbn in Hf; subst force.
  - set (o := match obj with Some o => o | None => root end) in *.
    destruct (find_node c o) as [n|] eqn:Hn; [|discriminate].
    assert (Ht : t = snd (ref_emit (find_parent c o) n noInst None [])) by congruence. clear Ha. subst t.
    apply ref_emit_chunks in Hin. apply find_node_in in Hn. destruct Hn as [Hn _].
    exists (find_parent c o), n, noInst. auto.
  - set (o := match obj with Some o => o | None => root end) in *.
    destruct (find_node c o) as [n|] eqn:Hn; [|discriminate].
    assert (Ht : t = snd (ref_hier (find_parent c o) n noInstTop None pre)) by congruence. clear Ha. subst t.
    apply find_node_in in Hn. destruct Hn as [Hn _].
    apply ref_hier_chunks in Hin. destruct Hin as [->|[p [s [He ->]]]].
    + exists (find_parent c o), n, noInstTop. auto.
    + exists (Some p), s, false. split; [|reflexivity].
      eapply nodes_closed; [exact Hn|]. eapply edge_nodes; eauto.
Qed.

Lemma scope_independent_ref env1 env2 ci1 ci2 root1 root2 r1 r2 pre1 pre2 c t1 t2 ch1 ch2 tk i :
  nth_error env1 ci1 = Some c -> nth_error env2 ci2 = Some c -> uniq_ids (nodes c) ->
  req_force r1 = None -> req_force r2 = None ->
  ref_answer env1 ci1 root1 r1 pre1 = Some t1 -> ref_answer env2 ci2 root2 r2 pre2 = Some t2 ->
  In ch1 t1 -> In ch2 t2 ->
  chunk_name ch1 = Some (tk, Some i) -> chunk_name ch2 = Some (tk, Some i) -> ch1 = ch2.
Proof.
  intros Hc1 Hc2 Hu Hf1 Hf2 Ha1 Ha2 Hi1 Hi2 Hn1 Hn2.
  destruct (answer_chunks _ _ _ _ _ _ _ _ Hc1 Hf1 Ha1 Hi1) as [q1 [s1 [b1 [Hs1 ->]]]].
  destruct (answer_chunks _ _ _ _ _ _ _ _ Hc2 Hf2 Ha2 Hi2) as [q2 [s2 [b2 [Hs2 ->]]]].
  destruct (ref_chunk_named _ _ _ _ Hn1) as [E1 P1]. destruct (ref_chunk_named _ _ _ _ Hn2) as [E2 P2].
  symmetry in E1, E2. destruct (modname_inst _ _ _ _ E1) as [I1 M1]. destruct (modname_inst _ _ _ _ E2) as [I2 M2].
  assert (s1 = s2) by (apply Hu; auto; congruence). subst s2.
  rewrite <- (P1 q2). rewrite E1, E2. reflexivity.
Qed.

(* at the level of the process: two requests, any two process states *)
Lemma scope_independent s1 s2 r1 r2 g1 ge1 g2 ge2 c t1 t2 ch1 ch2 tk i :
  req_gen r1 = Some g1 -> nth_error (p_gens s1) g1 = Some ge1 -> req_ok s1 r1 = true ->
  req_gen r2 = Some g2 -> nth_error (p_gens s2) g2 = Some ge2 -> req_ok s2 r2 = true ->
  nth_error (p_env s1) (ge_circ ge1) = Some c -> nth_error (p_env s2) (ge_circ ge2) = Some c -> uniq_ids (nodes c) ->
  req_force r1 = None -> req_force r2 = None ->
  snd (step s1 r1) = Some t1 -> snd (step s2 r2) = Some t2 -> In ch1 t1 -> In ch2 t2 ->
  chunk_name ch1 = Some (tk, Some i) -> chunk_name ch2 = Some (tk, Some i) -> ch1 = ch2.
Proof.
  intros G1 N1 O1 G2 N2 O2 C1 C2 Hu F1 F2 A1 A2 I1 I2 M1 M2.
  rewrite (step_answer s1 r1 g1 ge1 G1 N1 O1) in A1.
  2:{ intros c' Hc'. rewrite C1 in Hc'. now injection Hc' as <-. }
  rewrite (step_answer s2 r2 g2 ge2 G2 N2 O2) in A2.
  2:{ intros c' Hc'. rewrite C2 in Hc'. now injection Hc' as <-. }
  exact (scope_independent_ref _ _ _ _ _ _ _ _ _ _ c t1 t2 ch1 ch2 tk i C1 C2 Hu F1 F2 A1 A2 I1 I2 M1 M2).
Qed.

(* unique identities from a duplicate-free id list (used to discharge the hypothesis on concrete circuits) *)
Lemma uniq_of_nodup U : NoDup (map nid U) -> uniq_ids U.
Proof.
  induction U as [|x r IH]; intros Hnd a b Ha Hb Hid; [destruct Ha|].
  cbn [map] in Hnd. inversion Hnd as [|y l Hnot Hnd' Heq]. subst.
  destruct Ha as [<-|Ha]; destruct Hb as [<-|Hb]; auto.
  - exfalso. apply Hnot. rewrite Hid. now apply in_map.
  - exfalso. apply Hnot. rewrite <- Hid. now apply in_map.
  - now apply IH.
Qed.

Fixpoint nodupZ (l : list Z) : bool :=
  match l with [] => true | x :: r => negb (existsb (Z.eqb x) r) && nodupZ r end.
Lemma nodupZ_sound l : nodupZ l = true -> NoDup l.
Proof.
  induction l as [|x r IH]; intros H; [constructor|].
  cbn [nodupZ] in H. apply andb_true_iff in H. destruct H as [H1 H2]. constructor; [|now apply IH].
  intros Hin. apply negb_true_iff in H1. assert (existsb (Z.eqb x) r = true); [|congruence].
  apply existsb_exists. exists x. split; [exact Hin|apply Z.eqb_refl].
Qed.
Lemma uniq_by_compute U : nodupZ (map nid U) = true -> uniq_ids U.
Proof. intros H. apply uniq_of_nodup. now apply nodupZ_sound. Qed.
