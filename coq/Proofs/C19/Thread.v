(* C19 — the cached generator refines the cache-free reference generator (state threading). *)
From Coq Require Import ZArith List Bool Lia.
From V Require Import Model.GenState Spec.C19.
Import ListNotations.
Open Scope Z_scope.

(* ------------------------------------------------------------------ induction over circuits *)
Section NodeInd.
  Variable P : node -> Prop.
  Hypothesis H : forall i a b c d e f g kids, Forall P kids -> P (Node i a b c d e f g kids).
  Fixpoint node_ind' (n : node) : P n :=
    match n with
    | Node i a b c d e f g kids =>
        H i a b c d e f g kids
          ((fix go (l : list node) : Forall P l :=
              match l with [] => Forall_nil P | k :: r => Forall_cons k (node_ind' k) (go r) end) kids)
    end.
End NodeInd.

Lemma nodes_unfold n :
  nodes n = n :: flat_map nodes (nkids n).
Proof.
  destruct n as [i a b c d e f g kids]. cbn [nodes nkids]. f_equal.
Qed.

Lemma edges_unfold n :
  edges n = flat_map (fun k => (n, k) :: edges k) (nkids n).
Proof.
  destruct n as [i a b c d e f g kids]. cbn [edges nkids].
  generalize (Node i a b c d e f g kids). intros N.
  induction kids as [|k r IH]; [reflexivity|]. cbn [flat_map app]. rewrite <- IH. reflexivity.
Qed.

Lemma self_in_nodes n : In n (nodes n).
Proof. rewrite nodes_unfold. now left. Qed.

Lemma kid_nodes_incl n k : In k (nkids n) -> incl (nodes k) (nodes n).
Proof.
  intros Hk x Hx. rewrite nodes_unfold. right. apply in_flat_map. eauto.
Qed.

Lemma kid_in_nodes n k : In k (nkids n) -> In k (nodes n).
Proof. intros Hk. apply (kid_nodes_incl n k Hk). apply self_in_nodes. Qed.

Lemma edges_parent_in c : forall e, In e (edges c) -> In (fst e) (nodes c) /\ In (snd e) (nkids (fst e)).
Proof.
  induction c as [i a b cc d e0 f g kids IH] using node_ind'.
  intros e He. rewrite edges_unfold in He. cbn [nkids] in He.
  apply in_flat_map in He. destruct He as [k [Hk He]].
  destruct He as [He|He].
  - subst e. cbn [fst snd nkids]. split; [apply self_in_nodes|exact Hk].
  - rewrite Forall_forall in IH. destruct (IH k Hk e He) as [H1 H2]. split; [|exact H2].
    eapply kid_nodes_incl; [|exact H1]. exact Hk.
Qed.

Lemma find_node_in c o n : find_node c o = Some n -> In n (nodes c) /\ nid n = o.
Proof.
  unfold find_node. intros Hf. apply find_some in Hf. destruct Hf as [H1 H2]. split; [exact H1|].
  now apply Z.eqb_eq.
Qed.

Lemma find_parent_in c o pn : find_parent c o = Some pn -> In pn (nodes c).
Proof.
  unfold find_parent. destruct (find _ (edges c)) as [e|] eqn:Hf; [|discriminate].
  cbn. intros Heq. injection Heq as <-. apply find_some in Hf. destruct Hf as [H1 _].
  now apply edges_parent_in.
Qed.

(* ------------------------------------------------------------------ cache coherence *)
Lemma coh_push U s st : coh U st -> coh U (push s st).
Proof. intros Hc o m Hg. exact (Hc o m Hg). Qed.

Lemma gwn_spec U st n :
  uniq_ids U -> coh U st -> In n U ->
  snd (getWireNames n st) = names_of n /\ coh U (fst (getWireNames n st)) /\
  g_created (fst (getWireNames n st)) = g_created st.
Proof.
  intros Hu Hc Hn. unfold getWireNames.
  destruct (g_cache st) as [[o m]|] eqn:Hg.
  - destruct (o =? nid n) eqn:He.
    + apply Z.eqb_eq in He. cbn [fst snd]. destruct (Hc o m Hg) as [n' [Hin [Hid Hm]]].
      assert (n' = n) by (apply Hu; auto; congruence). subst n'. auto.
    + cbn [fst snd g_created]. repeat split; auto.
      intros o' m' Hg'. cbn [g_cache] in Hg'. injection Hg' as <- <-. eauto.
  - cbn [fst snd g_created]. repeat split; auto.
    intros o' m' Hg'. cbn [g_cache] in Hg'. injection Hg' as <- <-. eauto.
Qed.

Lemma inline_names_spec U pn : uniq_ids U -> In pn U -> forall ps st, coh U st ->
  snd (inline_names pn ps st) = ref_inline_names pn ps /\ coh U (fst (inline_names pn ps st)) /\
  g_created (fst (inline_names pn ps st)) = g_created st.
Proof.
  intros Hu Hp. induction ps as [|p r IH]; intros st Hc.
  - cbn. auto.
  - cbn [inline_names ref_inline_names map]. destruct (p_fake p) eqn:Hf.
    + destruct (inline_names pn r st) as [s2 l] eqn:E. specialize (IH st Hc). rewrite E in IH.
      cbn [fst snd] in *. destruct IH as [I1 [I2 I3]]. unfold ref_inline_names in I1. rewrite I1. auto.
    + destruct (gwn_spec U st pn Hu Hc Hp) as [G1 [G2 G3]].
      destruct (getWireNames pn st) as [s1 m] eqn:E1. cbn [fst snd] in *.
      destruct (inline_names pn r s1) as [s2 l] eqn:E2. specialize (IH s1 G2). rewrite E2 in IH.
      cbn [fst snd] in *. destruct IH as [I1 [I2 I3]]. unfold ref_inline_names in I1. rewrite I1, G1.
      repeat split; auto. congruence.
Qed.

Lemma instances_spec U pn : uniq_ids U -> In pn U -> forall l st, coh U st ->
  snd (instances pn l st) = map (ref_item pn) l /\ coh U (fst (instances pn l st)) /\
  g_created (fst (instances pn l st)) = g_created st.
Proof.
  intros Hu Hp. induction l as [|k r IH]; intros st Hc.
  - cbn. auto.
  - cbn [instances map]. unfold ref_item at 1. destruct (ninl k) eqn:Hi.
    + destruct (inline_names_spec U pn Hu Hp (nports k) st Hc) as [A1 [A2 A3]].
      destruct (inline_names pn (nports k) st) as [s nm] eqn:E1. cbn [fst snd] in *.
      specialize (IH s A2). destruct (instances pn r s) as [s2 its] eqn:E2. cbn [fst snd] in *.
      destruct IH as [I1 [I2 I3]]. rewrite I1, A1. repeat split; auto. congruence.
    + destruct (gwn_spec U st pn Hu Hc Hp) as [G1 [G2 G3]].
      destruct (getWireNames pn st) as [s m] eqn:E1. cbn [fst snd] in *.
      specialize (IH s G2). destruct (instances pn r s) as [s2 its] eqn:E2. cbn [fst snd] in *.
      destruct IH as [I1 [I2 I3]]. rewrite I1, G1. repeat split; auto. congruence.
Qed.

Lemma emit_spec U par n noInst force st :
  uniq_ids U -> coh U st -> In n U -> par_in U par ->
  snd (emit par n noInst force st) = snd (ref_emit par n noInst force (g_created st)) /\
  g_created (fst (emit par n noInst force st)) = fst (ref_emit par n noInst force (g_created st)) /\
  coh U (fst (emit par n noInst force st)).
Proof.
  intros Hu Hc Hn Hp. unfold emit, ref_emit, req_name.
  set (sn := match force with Some f => f | None => modname n noInst end).
  destruct (existsb (eqb_sname sn) (g_created st)) eqn:Hex; [cbn; auto|].
  destruct (gwn_spec U st n Hu Hc Hn) as [G1 [G2 G3]].
  destruct (getWireNames n st) as [s1 m] eqn:E1. cbn [fst snd] in *. subst m.
  unfold ref_chunk, ref_decls. destruct (nkind n) eqn:Hk.
  - (* KStruct *)
    destruct (instances_spec U n Hu Hn (nkids n) s1 G2) as [A1 [A2 A3]].
    destruct (instances n (nkids n) s1) as [s2 its] eqn:E2. cbn [fst snd] in *. subst its.
    repeat split; auto. cbn [push g_created]. congruence.
  - (* KInline *)
    destruct par as [pn|].
    + cbn in Hp. destruct (inline_names_spec U pn Hu Hp (nports n) s1 G2) as [A1 [A2 A3]].
      destruct (inline_names pn (nports n) s1) as [s2 nm] eqn:E2. cbn [fst snd] in *. subst nm.
      repeat split; auto. congruence.
    + cbn [fst snd]. auto.
  - cbn [fst snd push g_created]. repeat split; auto. congruence.
  - cbn [fst snd push g_created]. repeat split; auto. congruence.
Qed.

(* the hierarchy walk, with the inner loop named *)
Fixpoint hier_kids (n : node) (l : list node) (st : gst) : gst * text :=
  match l with
  | [] => (st, [])
  | k :: r => if ninl k then hier_kids n r st
              else let '(sa, ta) := hier (Some n) k false None st in
                   let '(sb, tb) := hier_kids n r sa in (sb, ta ++ tb)
  end.
Fixpoint ref_hier_kids (n : node) (l : list node) (cr : list sname) : list sname * text :=
  match l with
  | [] => (cr, [])
  | k :: r => if ninl k then ref_hier_kids n r cr
              else let '(ca, ta) := ref_hier (Some n) k false None cr in
                   let '(cb, tb) := ref_hier_kids n r ca in (cb, ta ++ tb)
  end.

Lemma hier_unfold par n noInst force st :
  hier par n noInst force st =
  let '(st1, t) := emit par n noInst force st in
  let '(st2, t2) := hier_kids n (nkids n) st1 in (st2, t ++ t2).
Proof.
  destruct n as [i a b c d e f g kids]. cbn [hier nkids].
  destruct (emit par (Node i a b c d e f g kids) noInst force st) as [st1 t].
  set (N := Node i a b c d e f g kids).
  assert (Hg : forall l s, (fix go (l : list node) (st : gst) : gst * text :=
       match l with
       | [] => (st, [])
       | k :: r => if ninl k then go r st
                   else let '(sa, ta) := hier (Some N) k false None st in
                        let '(sb, tb) := go r sa in (sb, ta ++ tb)
       end) l s = hier_kids N l s).
  { induction l as [|k r IH]; intros s; [reflexivity|]. cbn [hier_kids]. destruct (ninl k); [apply IH|].
    destruct (hier (Some N) k false None s) as [sa ta]. now rewrite IH. }
  now rewrite Hg.
Qed.

Lemma ref_hier_unfold par n noInst force cr :
  ref_hier par n noInst force cr =
  let '(c1, t) := ref_emit par n noInst force cr in
  let '(c2, t2) := ref_hier_kids n (nkids n) c1 in (c2, t ++ t2).
Proof.
  destruct n as [i a b c d e f g kids]. cbn [ref_hier nkids].
  destruct (ref_emit par (Node i a b c d e f g kids) noInst force cr) as [c1 t].
  set (N := Node i a b c d e f g kids).
  assert (Hg : forall l s, (fix go (l : list node) (cr : list sname) : list sname * text :=
       match l with
       | [] => (cr, [])
       | k :: r => if ninl k then go r cr
                   else let '(ca, ta) := ref_hier (Some N) k false None cr in
                        let '(cb, tb) := go r ca in (cb, ta ++ tb)
       end) l s = ref_hier_kids N l s).
  { induction l as [|k r IH]; intros s; [reflexivity|]. cbn [ref_hier_kids]. destruct (ninl k); [apply IH|].
    destruct (ref_hier (Some N) k false None s) as [sa ta]. now rewrite IH. }
  now rewrite Hg.
Qed.

Lemma hier_spec U : uniq_ids U -> forall n par noInst force st,
  coh U st -> incl (nodes n) U -> par_in U par ->
  snd (hier par n noInst force st) = snd (ref_hier par n noInst force (g_created st)) /\
  g_created (fst (hier par n noInst force st)) = fst (ref_hier par n noInst force (g_created st)) /\
  coh U (fst (hier par n noInst force st)).
Proof.
  intros Hu n. induction n as [i a b c d e f g kids IH] using node_ind'.
  set (N := Node i a b c d e f g kids) in *.
  intros par noInst force st Hc Hinc Hp.
  rewrite hier_unfold, ref_hier_unfold.
  assert (HN : In N U) by (apply Hinc, self_in_nodes).
  destruct (emit_spec U par N noInst force st Hu Hc HN Hp) as [E1 [E2 E3]].
  destruct (emit par N noInst force st) as [st1 t] eqn:Ee.
  destruct (ref_emit par N noInst force (g_created st)) as [c1 t'] eqn:Er.
  cbn [fst snd] in E1, E2, E3. subst t' c1.
  assert (Hk : forall l, incl l (nkids N) -> forall s, coh U s ->
     snd (hier_kids N l s) = snd (ref_hier_kids N l (g_created s)) /\
     g_created (fst (hier_kids N l s)) = fst (ref_hier_kids N l (g_created s)) /\
     coh U (fst (hier_kids N l s))).
  { induction l as [|k r IHl]; intros Hl s Hs; [cbn; auto|].
    cbn [hier_kids ref_hier_kids].
    assert (Hkin : In k (nkids N)) by (apply Hl; now left).
    assert (Hr : incl r (nkids N)) by (intros x Hx; apply Hl; now right).
    destruct (ninl k); [apply IHl; auto|].
    rewrite Forall_forall in IH.
    assert (Hki : incl (nodes k) U).
    { intros x Hx. apply Hinc. eapply kid_nodes_incl; eauto. }
    destruct (IH k Hkin (Some N) false None s Hs Hki HN) as [K1 [K2 K3]].
    destruct (hier (Some N) k false None s) as [sa ta].
    destruct (ref_hier (Some N) k false None (g_created s)) as [ca ta'].
    cbn [fst snd] in K1, K2, K3. subst ta' ca.
    destruct (IHl Hr sa K3) as [L1 [L2 L3]].
    destruct (hier_kids N r sa) as [sb tb].
    destruct (ref_hier_kids N r (g_created sa)) as [cb tb'].
    cbn [fst snd] in *. subst. auto. }
  destruct (Hk (nkids N) (incl_refl _) st1 E3) as [L1 [L2 L3]].
  destruct (hier_kids N (nkids N) st1) as [st2 t2].
  destruct (ref_hier_kids N (nkids N) (g_created st1)) as [c2 t2'].
  cbn [fst snd] in *. subst. auto.
Qed.
