(* C19 — canon does not see the order of the declarations inside a run of "wire ..." lines. *)
From Coq Require Import ZArith List Bool Lia Permutation.
From V Require Import Model.GenState Spec.C19 Proofs.C19.Canon.
Import ListNotations.
Open Scope Z_scope.

(* ------------------------------------------------------------------ ltb_lex is a strict total order *)
Lemma ltb_lex_trans : forall a b c, ltb_lex a b = true -> ltb_lex b c = true -> ltb_lex a c = true.
Proof.
  induction a as [|x a IH]; intros b c H1 H2; destruct b as [|y b]; destruct c as [|z c]; cbn [ltb_lex] in *;
    try discriminate; try reflexivity.
  destruct (x <? y) eqn:Exy; destruct (y <? x) eqn:Eyx; destruct (y <? z) eqn:Eyz; destruct (z <? y) eqn:Ezy;
    destruct (x <? z) eqn:Exz; destruct (z <? x) eqn:Ezx; try discriminate; try reflexivity;
    repeat match goal with
           | H : (_ <? _) = true |- _ => apply Z.ltb_lt in H
           | H : (_ <? _) = false |- _ => apply Z.ltb_ge in H
           end; try lia.
  eapply IH; eauto.
Qed.

Lemma ltb_lex_tri : forall a b, ltb_lex a b = false -> ltb_lex b a = false -> a = b.
Proof.
  induction a as [|x a IH]; intros b H1 H2; destruct b as [|y b]; cbn [ltb_lex] in *; try discriminate; try reflexivity.
  destruct (x <? y) eqn:Exy; destruct (y <? x) eqn:Eyx; try discriminate.
  apply Z.ltb_ge in Exy. apply Z.ltb_ge in Eyx. assert (x = y) by lia. subst y. f_equal. now apply IH.
Qed.

(* m < a and not m < b  ==>  b < a *)
Lemma ltb_lex_between m a b : ltb_lex m a = true -> ltb_lex m b = false -> ltb_lex b a = true.
Proof.
  intros H1 H2. destruct (ltb_lex b a) eqn:E; [reflexivity|].
  destruct (ltb_lex a b) eqn:E2.
  - rewrite (ltb_lex_trans m a b H1 E2) in H2. discriminate.
  - assert (a = b) by (now apply ltb_lex_tri). subst b. congruence.
Qed.

(* ------------------------------------------------------------------ insertions of declarations commute *)
Lemma ins_cons a m r : ins a (m :: r) = if is_decl m && ltb_lex m a then m :: ins a r else a :: m :: r.
Proof. reflexivity. Qed.

Lemma ins_pair a b S : is_decl a = true -> is_decl b = true ->
  ins a (b :: S) = (if ltb_lex b a then b :: ins a S else a :: b :: S).
Proof. intros Ha Hb. rewrite ins_cons, Hb. reflexivity. Qed.

Lemma two_orders a b S : is_decl a = true -> is_decl b = true ->
  (if ltb_lex b a then b :: a :: S else a :: b :: S) = (if ltb_lex a b then a :: b :: S else b :: a :: S).
Proof.
  intros Ha Hb. destruct (ltb_lex b a) eqn:L1; destruct (ltb_lex a b) eqn:L2; try reflexivity.
  - rewrite (ltb_lex_asym _ _ L1) in L2. discriminate.
  - rewrite (ltb_lex_tri a b L2 L1). reflexivity.
Qed.

Lemma ins_comm a b : is_decl a = true -> is_decl b = true -> forall S, ins a (ins b S) = ins b (ins a S).
Proof.
  intros Ha Hb. induction S as [|m r IH].
  - cbn [ins]. rewrite Ha, Hb. cbn [andb]. apply (two_orders a b []); assumption.
  - rewrite (ins_cons b m r), (ins_cons a m r).
    destruct (is_decl m) eqn:Hm; cbn [andb].
    + destruct (ltb_lex m b) eqn:Lb; destruct (ltb_lex m a) eqn:La.
      * rewrite !ins_cons, Hm, La, Lb. cbn [andb]. now rewrite IH.
      * (* m < b, not m < a : a < b *)
        rewrite ins_cons, Hm, La. cbn [andb].
        rewrite (ins_pair b a (m :: r) Hb Ha), (ltb_lex_between m b a Lb La).
        rewrite ins_cons, Hm, Lb. reflexivity.
      * (* m < a, not m < b : b < a *)
        rewrite (ins_pair a b (m :: r) Ha Hb), (ltb_lex_between m a b La Lb).
        rewrite ins_cons, Hm, La. cbn [andb].
        rewrite ins_cons, Hm, Lb. reflexivity.
      * rewrite (ins_pair a b (m :: r) Ha Hb), (ins_pair b a (m :: r) Hb Ha).
        rewrite !ins_cons, Hm, La, Lb. cbn [andb]. apply two_orders; assumption.
    + rewrite (ins_pair a b (m :: r) Ha Hb), (ins_pair b a (m :: r) Hb Ha).
      rewrite !ins_cons, Hm. cbn [andb]. apply two_orders; assumption.
Qed.

Lemma ins_all_perm S : forall r1 r2, Permutation r1 r2 -> Forall (fun l => is_decl l = true) r1 ->
  fold_right ins S r1 = fold_right ins S r2.
Proof.
  intros r1 r2 Hp. induction Hp as [|x l l' Hp IH|x y l|l l' l'' H1 IH1 H2 IH2]; intros Hd.
  - reflexivity.
  - cbn [fold_right]. inversion Hd; subst. now rewrite IH.
  - cbn [fold_right]. inversion Hd as [|? ? Hy Hd']; subst. inversion Hd' as [|? ? Hx Hd'']; subst. now apply ins_comm.
  - rewrite IH1 by exact Hd. apply IH2. eapply Permutation_Forall; eauto.
Qed.

Lemma sort_decls_app pre X : sort_decls (pre ++ X) = fold_right place (sort_decls X) pre.
Proof. induction pre as [|l r IH]; [reflexivity|]. cbn [app sort_decls fold_right]. now rewrite IH. Qed.

Lemma fold_place_decl S run : Forall (fun l => is_decl l = true) run -> fold_right place S run = fold_right ins S run.
Proof.
  induction run as [|l r IH]; intros Hd; [reflexivity|]. inversion Hd; subst. cbn [fold_right].
  rewrite IH by assumption. unfold place. now rewrite H1.
Qed.

(* the order of the lines inside a run of declarations is invisible after sorting *)
Theorem sort_decls_order pre run1 run2 post :
  Forall (fun l => is_decl l = true) run1 -> Permutation run1 run2 ->
  sort_decls (pre ++ run1 ++ post) = sort_decls (pre ++ run2 ++ post).
Proof.
  intros Hd Hp. rewrite !sort_decls_app. f_equal.
  rewrite !fold_place_decl; [|eapply Permutation_Forall; eauto|exact Hd].
  now apply ins_all_perm.
Qed.

(* ------------------------------------------------------------------ the same for canon *)
Lemma sufs_nil_classify t : sufs t = [] -> classify t = None.
Proof. unfold sufs. destruct (classify t) as [[p s]|]; [discriminate|reflexivity]. Qed.

Lemma ren_line_no_ids tbl l : no_ids l -> ren_line tbl l = l.
Proof.
  unfold no_ids, ren_line. intros H.
  assert (Hm : map (ren tbl) (tokens [] l) = tokens [] l).
  { apply map_fix. intros t Ht. apply ren_none. apply sufs_nil_classify.
    revert H Ht. generalize (tokens [] l). induction l0 as [|x r IH]; intros H Ht; [destruct Ht|].
    cbn [flat_map] in H. apply app_eq_nil in H. destruct H as [Hx Hr]. destruct Ht as [<-|Ht]; [exact Hx|now apply IH]. }
  rewrite Hm. apply (concat_tokens l []).
Qed.

Lemma flat_map_no_ids run : Forall no_ids run -> flat_map (fun l => flat_map sufs (tokens [] l)) run = [].
Proof. intros H. apply flat_map_nil. intros x Hx. rewrite Forall_forall in H. now apply H. Qed.

Theorem canon_decl_order pre run1 run2 post :
  Forall (fun l => is_decl l = true) run1 -> Forall no_ids run1 -> Permutation run1 run2 ->
  canon (pre ++ run1 ++ post) = canon (pre ++ run2 ++ post).
Proof.
  intros Hd Hn Hp.
  assert (Hn2 : Forall no_ids run2) by (eapply Permutation_Forall; eauto).
  assert (Ht : id_table (pre ++ run1 ++ post) = id_table (pre ++ run2 ++ post)).
  { unfold id_table. rewrite !flat_map_app. now rewrite (flat_map_no_ids run1 Hn), (flat_map_no_ids run2 Hn2). }
  unfold canon. rewrite <- Ht. set (T := id_table (pre ++ run1 ++ post)).
  rewrite !map_app.
  assert (H1 : map (ren_line T) run1 = run1).
  { apply map_fix. intros x Hx. apply ren_line_no_ids. rewrite Forall_forall in Hn. now apply Hn. }
  assert (H2 : map (ren_line T) run2 = run2).
  { apply map_fix. intros x Hx. apply ren_line_no_ids. rewrite Forall_forall in Hn2. now apply Hn2. }
  rewrite H1, H2. now apply sort_decls_order.
Qed.

(* an instance of the hypotheses: the two declaration lines of sample_a carry no instance ids *)
Example canon_decl_order_instance :
  Forall (fun l => is_decl l = true) (firstn 2 sample_a) /\ Forall no_ids (firstn 2 sample_a) /\
  Permutation (firstn 2 sample_a) (rev (firstn 2 sample_a)).
Proof.
  split; [repeat constructor|]. split; [repeat constructor|]. apply Permutation_rev.
Qed.
