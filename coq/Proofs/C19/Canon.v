(* C19 — canon is idempotent (hence canon-equality is an equivalence whose classes have canon as representative). *)
From Coq Require Import ZArith List Bool Lia.
From V Require Import Model.GenState Spec.C19.
Import ListNotations.
Open Scope Z_scope.

(* ------------------------------------------------------------------ character classes *)
Lemma is_ident_digit c : 48 <= c <= 57 -> is_ident c = true.
Proof.
  intros H. unfold is_ident. rewrite (proj2 (Z.leb_le 48 c)), (proj2 (Z.leb_le c 57)) by lia. reflexivity.
Qed.

Lemma is_hex_ident c : is_hex c = true -> is_ident c = true.
Proof.
  unfold is_hex. intros H. apply orb_true_iff in H. destruct H as [H|H];
    apply andb_true_iff in H; destruct H as [H1 H2]; apply Z.leb_le in H1; apply Z.leb_le in H2.
  - apply is_ident_digit. lia.
  - unfold is_ident. rewrite (proj2 (Z.leb_le 97 c)), (proj2 (Z.leb_le c 122)) by lia.
    rewrite orb_true_r. reflexivity.
Qed.

Lemma not_ident_95 c : is_ident c = false -> (c =? 95) = false.
Proof.
  unfold is_ident. intros H. apply orb_false_iff in H. tauto.
Qed.

(* ------------------------------------------------------------------ tokens *)
Lemma concat_flush cur : concat (flush cur) = cur.
Proof. destruct cur; cbn; [reflexivity|]. now rewrite app_nil_r. Qed.

Lemma concat_tokens : forall l cur, concat (tokens cur l) = cur ++ l.
Proof.
  induction l as [|c r IH]; intros cur; cbn [tokens].
  - rewrite concat_flush. now rewrite app_nil_r.
  - destruct (is_ident c).
    + rewrite IH. now rewrite <- app_assoc.
    + rewrite concat_app, concat_flush. cbn [concat]. rewrite IH. reflexivity.
Qed.

Lemma tokens_app_ident : forall x cur l, forallb is_ident x = true -> tokens cur (x ++ l) = tokens (cur ++ x) l.
Proof.
  induction x as [|c x IH]; intros cur l H.
  - now rewrite app_nil_r.
  - cbn [forallb] in H. apply andb_true_iff in H. destruct H as [Hc Hx].
    cbn [app tokens]. rewrite Hc. rewrite IH by exact Hx. now rewrite <- app_assoc.
Qed.

(* well-formed token lists: separators are single non-identifier characters, runs are non-empty and never adjacent;
   the index says whether the list may not start with a run *)
Inductive wf : bool -> list (list Z) -> Prop :=
| wf_nil : forall b, wf b []
| wf_sep : forall b c r, is_ident c = false -> wf false r -> wf b ([c] :: r)
| wf_run : forall t r, t <> [] -> forallb is_ident t = true -> wf true r -> wf false (t :: r).

Lemma flush_ne cur : cur <> [] -> flush cur = [cur].
Proof. destruct cur; [congruence|reflexivity]. Qed.

Lemma retok : forall ts,
  (wf false ts -> tokens [] (concat ts) = ts) /\
  (wf true ts -> forall cur, cur <> [] -> tokens cur (concat ts) = cur :: ts).
Proof.
  induction ts as [|t r [IH1 IH2]]; split.
  - reflexivity.
  - intros _ cur Hc. cbn. now apply flush_ne.
  - intros H. inversion H as [|b c r' Hc Hr|t' r' Hne Hid Hr]; subst.
    + cbn [concat app tokens]. rewrite Hc. cbn [flush app]. now rewrite IH1.
    + cbn [concat]. rewrite tokens_app_ident by exact Hid. cbn [app]. now apply IH2.
  - intros H cur Hcur. inversion H as [|b c r' Hc Hr|]; subst.
    cbn [concat app tokens]. rewrite Hc. rewrite flush_ne by exact Hcur. cbn [app]. now rewrite IH1.
Qed.

Lemma wf_tokens : forall l cur, forallb is_ident cur = true -> wf false (tokens cur l).
Proof.
  induction l as [|c r IH]; intros cur Hcur; cbn [tokens].
  - destruct cur as [|x cur']; cbn [flush]; [constructor|]. apply wf_run; [discriminate|exact Hcur|constructor].
  - destruct (is_ident c) eqn:Hc.
    + apply IH. rewrite forallb_app, Hcur. cbn. now rewrite Hc.
    + assert (Hs : forall b, wf b ([c] :: tokens [] r)) by (intros b; apply wf_sep; [exact Hc|now apply IH]).
      destruct cur as [|x cur']; cbn [flush app]; [apply Hs|].
      apply wf_run; [discriminate|exact Hcur|apply Hs].
Qed.

(* ------------------------------------------------------------------ classify / ren *)
Lemma span_spec p : forall l a b, span p l = (a, b) ->
  l = a ++ b /\ forallb p a = true.
Proof.
  induction l as [|c r IH]; intros a b H; cbn [span] in H.
  - injection H as <- <-. auto.
  - destruct (p c) eqn:Hp.
    + destruct (span p r) as [a' b'] eqn:E. injection H as <- <-. destruct (IH a' b' eq_refl) as [-> H2].
      cbn. rewrite Hp. auto.
    + injection H as <- <-. auto.
Qed.

Lemma classify_split t pre suf : classify t = Some (pre, suf) -> t = pre ++ suf.
Proof.
  unfold classify. destruct (span is_hex (rev t)) as [rs rest] eqn:E.
  destruct rest as [|c rest']; [discriminate|].
  destruct ((c =? 95) && (6 <=? length rs)%nat); [|discriminate].
  intros H. assert (Hp : pre = rev (c :: rest')) by congruence. assert (Hs : suf = rev rs) by congruence.
  subst pre suf. apply span_spec in E. destruct E as [E _].
  rewrite <- rev_app_distr, <- E. now rewrite rev_involutive.
Qed.

Lemma classify_marked x : classify (x ++ [73; 68]) = None.
Proof.
  unfold classify. rewrite rev_app_distr. cbn [rev app span]. reflexivity.
Qed.

Lemma classify_ren tbl t : classify (ren tbl t) = None.
Proof.
  unfold ren. destruct (classify t) as [[pre suf]|] eqn:E; [|exact E].
  rewrite app_assoc. apply classify_marked.
Qed.

Lemma ren_none tbl t : classify t = None -> ren tbl t = t.
Proof. unfold ren. now intros ->. Qed.

Lemma sufs_ren tbl t : sufs (ren tbl t) = [].
Proof. unfold sufs. now rewrite classify_ren. Qed.

Lemma classify_sep c : is_ident c = false -> classify [c] = None.
Proof.
  intros Hc. unfold classify. cbn [rev app span].
  destruct (is_hex c) eqn:Hh; [apply is_hex_ident in Hh; congruence|].
  rewrite (not_ident_95 c Hc). reflexivity.
Qed.

Lemma dec_ident : forall f n, 0 <= n -> forallb is_ident (dec f n) = true.
Proof.
  induction f as [|f IH]; intros n Hn; cbn [dec]; [reflexivity|].
  destruct (n <? 10) eqn:E.
  - apply Z.ltb_lt in E. cbn [forallb]. rewrite is_ident_digit by lia. reflexivity.
  - apply Z.ltb_ge in E. rewrite forallb_app. rewrite IH by (apply Z.div_pos; lia).
    cbn [forallb]. rewrite is_ident_digit; [reflexivity|].
    pose proof (Z.mod_pos_bound n 10). lia.
Qed.

Lemma ren_run tbl t : t <> [] -> forallb is_ident t = true ->
  ren tbl t <> [] /\ forallb is_ident (ren tbl t) = true.
Proof.
  intros Hne Hid. unfold ren. destruct (classify t) as [[pre suf]|] eqn:E; [|auto].
  apply classify_split in E. subst t. rewrite forallb_app in Hid. apply andb_true_iff in Hid. destruct Hid as [Hp _].
  split.
  - intros H. apply app_eq_nil in H. destruct H as [_ H]. apply app_eq_nil in H. destruct H as [_ H]. discriminate.
  - rewrite !forallb_app, Hp, dec_ident by lia. reflexivity.
Qed.

Lemma wf_map_ren tbl : forall b ts, wf b ts -> wf b (map (ren tbl) ts).
Proof.
  intros b ts H. induction H as [b|b c r Hc Hr IH|t r Hne Hid Hr IH]; cbn [map].
  - constructor.
  - rewrite (ren_none tbl [c] (classify_sep c Hc)). now apply wf_sep.
  - destruct (ren_run tbl t Hne Hid) as [H1 H2]. now apply wf_run.
Qed.

(* ------------------------------------------------------------------ one line *)
Lemma tokens_ren_line tbl l : tokens [] (ren_line tbl l) = map (ren tbl) (tokens [] l).
Proof.
  unfold ren_line. apply (proj1 (retok _)). apply wf_map_ren. now apply wf_tokens.
Qed.

Lemma flat_map_nil {A B} (f : A -> list B) l : (forall x, In x l -> f x = []) -> flat_map f l = [].
Proof.
  induction l as [|x r IH]; intros H; [reflexivity|]. cbn [flat_map].
  rewrite (H x (or_introl eq_refl)), IH; [reflexivity|]. intros y Hy. apply H. now right.
Qed.

Lemma sufs_ren_line tbl l : flat_map sufs (tokens [] (ren_line tbl l)) = [].
Proof.
  rewrite tokens_ren_line. apply flat_map_nil. intros x Hx. apply in_map_iff in Hx.
  destruct Hx as [t [<- _]]. apply sufs_ren.
Qed.

Lemma ren_line_fix tbl tbl' l : ren_line tbl' (ren_line tbl l) = ren_line tbl l.
Proof.
  unfold ren_line at 1. rewrite tokens_ren_line. rewrite map_map.
  unfold ren_line. f_equal. apply map_ext. intros t. apply ren_none. apply classify_ren.
Qed.

(* ------------------------------------------------------------------ sorting the declaration runs *)
Lemma ltb_lex_asym : forall a b, ltb_lex a b = true -> ltb_lex b a = false.
Proof.
  induction a as [|x a IH]; intros b H; destruct b as [|y b]; cbn [ltb_lex] in *; try discriminate; try reflexivity.
  destruct (x <? y) eqn:E1; destruct (y <? x) eqn:E2; try reflexivity; try discriminate.
  - apply Z.ltb_lt in E1. apply Z.ltb_lt in E2. lia.
  - now apply IH.
Qed.

Definition head_rel (m : list Z) (xs : list (list Z)) : Prop :=
  match xs with y :: _ => is_decl m = true -> is_decl y = true -> ltb_lex y m = false | [] => True end.
Fixpoint lsorted (l : list (list Z)) : Prop :=
  match l with x :: r => head_rel x r /\ lsorted r | [] => True end.

Lemma head_rel_ins m l r :
  head_rel m r -> (is_decl m = true -> is_decl l = true -> ltb_lex l m = false) -> head_rel m (ins l r).
Proof.
  intros H1 H2. destruct r as [|y r]; cbn [ins]; [exact H2|].
  destruct (is_decl y && ltb_lex y l); [exact H1|exact H2].
Qed.

Lemma ins_sorted l : is_decl l = true -> forall out, lsorted out -> lsorted (ins l out).
Proof.
  intros Hl. induction out as [|m r IH]; intros Hs; cbn [ins].
  - cbn. auto.
  - destruct Hs as [Hh Hr]. destruct (is_decl m && ltb_lex m l) eqn:E.
    + apply andb_true_iff in E. destruct E as [Em El]. cbn [lsorted]. split; [|now apply IH].
      apply head_rel_ins; [exact Hh|]. intros _ _. now apply ltb_lex_asym.
    + cbn [lsorted head_rel]. split; [|split; assumption].
      intros _ Hm. rewrite Hm in E. exact E.
Qed.

Lemma place_sorted l out : lsorted out -> lsorted (place l out).
Proof.
  intros Hs. unfold place. destruct (is_decl l) eqn:Hl; [now apply ins_sorted|].
  cbn [lsorted]. split; [|exact Hs]. destruct out; cbn [head_rel]; [exact I|]. intros H. congruence.
Qed.

Lemma sort_decls_sorted ls : lsorted (sort_decls ls).
Proof. induction ls as [|l r IH]; cbn [sort_decls]; [exact I|now apply place_sorted]. Qed.

Lemma place_fix l out : lsorted (l :: out) -> place l out = l :: out.
Proof.
  intros [Hh _]. unfold place. destruct (is_decl l) eqn:Hl; [|reflexivity].
  destruct out as [|m r]; cbn [ins]; [reflexivity|].
  destruct (is_decl m) eqn:Hm; [|reflexivity]. cbn [head_rel] in Hh. rewrite (Hh Hl Hm). reflexivity.
Qed.

Lemma sort_decls_fix : forall ls, lsorted ls -> sort_decls ls = ls.
Proof.
  induction ls as [|l r IH]; intros Hs; [reflexivity|]. cbn [sort_decls].
  rewrite IH by (destruct Hs; assumption). now apply place_fix.
Qed.

Lemma in_ins x l : forall out, In x (ins l out) -> x = l \/ In x out.
Proof.
  induction out as [|m r IH]; cbn [ins]; intros H.
  - destruct H as [<-|[]]. now left.
  - destruct (is_decl m && ltb_lex m l).
    + destruct H as [<-|H]; [right; now left|]. destruct (IH H) as [->|H']; [now left|right; now right].
    + destruct H as [<-|H]; [now left|now right].
Qed.

Lemma in_sort_decls x : forall ls, In x (sort_decls ls) -> In x ls.
Proof.
  induction ls as [|l r IH]; cbn [sort_decls]; intros H; [exact H|].
  unfold place in H. destruct (is_decl l).
  - apply in_ins in H. destruct H as [->|H]; [now left|right; now apply IH].
  - destruct H as [<-|H]; [now left|right; now apply IH].
Qed.

(* ------------------------------------------------------------------ the whole text *)
Lemma map_fix {A} (f : A -> A) l : (forall x, In x l -> f x = x) -> map f l = l.
Proof.
  induction l as [|x r IH]; intros H; [reflexivity|]. cbn [map].
  rewrite (H x (or_introl eq_refl)), IH; [reflexivity|]. intros y Hy. apply H. now right.
Qed.

Theorem canon_idempotent ls : canon (canon ls) = canon ls.
Proof.
  unfold canon at 1. set (out := canon ls).
  assert (Hin : forall x, In x out -> exists l0, x = ren_line (id_table ls) l0).
  { intros x Hx. unfold out, canon in Hx. apply in_sort_decls in Hx. apply in_map_iff in Hx.
    destruct Hx as [l0 [<- _]]. now exists l0. }
  assert (Ht : id_table out = []).
  { unfold id_table. rewrite flat_map_nil; [reflexivity|]. intros x Hx. destruct (Hin x Hx) as [l0 ->].
    apply sufs_ren_line. }
  rewrite Ht. rewrite map_fix.
  - apply sort_decls_fix. apply sort_decls_sorted.
  - intros x Hx. destruct (Hin x Hx) as [l0 ->]. apply ren_line_fix.
Qed.

Lemma canon_eq_refl a : canon_eq a a.
Proof. reflexivity. Qed.
Lemma canon_eq_sym a b : canon_eq a b -> canon_eq b a.
Proof. unfold canon_eq. congruence. Qed.
Lemma canon_eq_trans a b c : canon_eq a b -> canon_eq b c -> canon_eq a c.
Proof. unfold canon_eq. congruence. Qed.
Lemma canon_eq_canon a : canon_eq (canon a) a.
Proof. apply canon_idempotent. Qed.

(* canon does what it is for, on an instance: two printings of one design that differ in the order of the wire
   declarations and in the object identities are identified; a text where two instances are crossed is not *)
Definition sample_a : list (list Z) :=   (* "wire w_b;" "wire w_a;" "C_7f00aa11 i(w_a);" "D_7f00bb22 j(w_b);" *)
  [[119;105;114;101;32;119;95;98;59]; [119;105;114;101;32;119;95;97;59];
   [67;95;55;102;48;48;97;97;49;49;32;105;40;119;95;97;41;59]; [68;95;55;102;48;48;98;98;50;50;32;106;40;119;95;98;41;59]].
Definition sample_b : list (list Z) :=   (* declarations swapped, other identities *)
  [[119;105;114;101;32;119;95;97;59]; [119;105;114;101;32;119;95;98;59];
   [67;95;53;53;53;53;99;99;51;51;32;105;40;119;95;97;41;59]; [68;95;53;53;53;53;100;100;52;52;32;106;40;119;95;98;41;59]].
Definition sample_c : list (list Z) :=   (* both instances on the SAME identity *)
  [[119;105;114;101;32;119;95;97;59]; [119;105;114;101;32;119;95;98;59];
   [67;95;53;53;53;53;99;99;51;51;32;105;40;119;95;97;41;59]; [68;95;53;53;53;53;99;99;51;51;32;106;40;119;95;98;41;59]].
Lemma canon_samples : canon_eq sample_a sample_b /\ ~ canon_eq sample_a sample_c.
Proof. split; [vm_compute; reflexivity|]. intros H. vm_compute in H. discriminate H. Qed.
