(* C08: Equal, AnyEqual, Comparator, ComparatorSignedUnsigned, Max2/Min2/SignedMax2/SignedMin2. *)
From V Require Import Base.Bits Gen.WireOps Gen.Prims Spec.C08 Model.StructLogic Proofs.C08.Prims Proofs.C08.Gates
  Proofs.C08.Minterm.

(* ------------------------------------------------------------------ Equal *)
Lemma lxor_trunc_zero w a b : 0 <= w -> fits w a -> (trunc w (Z.lxor a b) =? 0) = (a =? b mod 2 ^ w).
Proof.
  intros Hw Ha. rewrite trunc_lxor by lia. rewrite (fits_trunc w a) by auto. rewrite <- trunc_mod by lia.
  apply eq_true_iff_eq. rewrite !Z.eqb_eq. split.
  - apply Z.lxor_eq.
  - intros <-. apply Z.lxor_nilpotent.
Qed.

Lemma lxor_fits w a b : 0 <= w -> fits w a -> fits w b -> fits w (Z.lxor a b).
Proof.
  intros Hw Ha Hb. rewrite <- (fits_trunc w a Hw Ha), <- (fits_trunc w b Hw Hb). rewrite <- trunc_lxor by lia.
  apply trunc_fits; lia.
Qed.
Lemma lxor_zero a b : (Z.lxor a b =? 0) = (a =? b).
Proof.
  apply eq_true_iff_eq. rewrite !Z.eqb_eq. split; [apply Z.lxor_eq | intros <-; apply Z.lxor_nilpotent].
Qed.

(* what Equal computes for any xor-wire width wx = eqw wa wb the Xor2 can fill: a zero test of (a xor b) cut to wx bits *)
Lemma Equal_char mid eqw wa wb a b : 1 <= eqw wa wb -> 0 <= wa -> 0 <= wb -> eqw wa wb <= mid wa wb (eqw wa wb) ->
  fits wa a -> fits wb b -> Equal_m mid eqw wa wb a b = b2z (trunc (eqw wa wb) (Z.lxor a b) =? 0).
Proof.
  intros Hwx Hwa Hwb Hm Ha Hb. unfold Equal_m. cbv zeta. set (wx := eqw wa wb) in *. rewrite Xor2_char by (auto; lia).
  set (x := trunc wx (Z.lxor a b)). assert (Hx : fits wx x) by (apply trunc_fits; lia).
  destruct (Z.eqb_spec wx 1) as [E | Hne].
  - rewrite E in Hx. apply fits1_is_bit in Hx. apply Not1_bit; auto.
  - change (Nor_m 1 1 (BitsLSBF_m wx x)) with (Not_m 1 (OrBits_m wx 1 x)).
    rewrite OrBits_correct by (auto; lia). unfold orbits_spec. rewrite Not1_bit by apply b2z_is_bit.
    destruct (x =? 0); reflexivity.
Qed.
(* the xor wire holds both operands: numerical equality *)
Lemma Equal_correct mid eqw wa wb a b : 1 <= eqw wa wb -> 0 <= wa <= eqw wa wb -> 0 <= wb <= eqw wa wb ->
  eqw wa wb <= mid wa wb (eqw wa wb) -> fits wa a -> fits wb b -> Equal_m mid eqw wa wb a b = equal_spec a b.
Proof.
  intros Hwx Hwa Hwb Hm Ha Hb. rewrite Equal_char by (auto; lia). unfold equal_spec. f_equal.
  rewrite fits_trunc; [apply lxor_zero | lia |].
  apply lxor_fits; [lia | apply (fits_le wa); auto; lia | apply (fits_le wb); auto; lia].
Qed.
(* the xor wire has a's width (unrepaired tree): b is compared modulo 2^wa *)
Lemma Equal_general mid wa wb a b : 1 <= wa -> 0 <= wb -> wa <= mid wa wb wa -> fits wa a -> fits wb b ->
  Equal_m mid eqw_a wa wb a b = b2z (a =? b mod 2 ^ wa).
Proof.
  intros Hwa Hwb Hm Ha Hb. rewrite Equal_char by (unfold eqw_a; auto; lia). unfold eqw_a.
  rewrite lxor_trunc_zero by (auto; lia). reflexivity.
Qed.

(* ------------------------------------------------------------------ AnyEqual *)
Lemma lor_all_app l1 l2 : lor_all (l1 ++ l2) = Z.lor (lor_all l1) (lor_all l2).
Proof.
  induction l1 as [|x l1 IH]; [change (lor_all []) with 0; symmetry; apply Z.lor_0_l|].
  cbn [app]. change (lor_all (?h :: ?t)) with (Z.lor h (lor_all t)). rewrite IH. apply Z.lor_assoc.
Qed.
Lemma lor_b2z x y : Z.lor (b2z x) (b2z y) = b2z (x || y).
Proof. destruct x, y; reflexivity. Qed.

Lemma lor_all_row (c e : nat -> bool) L :
  lor_all (flat_map (fun j => if c j then [] else [b2z (e j)]) L) = b2z (existsb (fun j => negb (c j) && e j) L).
Proof.
  induction L as [|j L IH]; [reflexivity|]. cbn [flat_map existsb]. rewrite lor_all_app, IH, <- lor_b2z. f_equal.
  destruct (c j); cbn; [reflexivity|]. apply Z.lor_0_r.
Qed.
Lemma lor_all_pairs (c e : nat -> nat -> bool) L1 L2 :
  lor_all (flat_map (fun i => flat_map (fun j => if c i j then [] else [b2z (e i j)]) L2) L1) =
  b2z (existsb (fun p => negb (c (fst p) (snd p)) && e (fst p) (snd p)) (list_prod L1 L2)).
Proof.
  induction L1 as [|i L1 IH]; [reflexivity|]. cbn [flat_map list_prod].
  rewrite lor_all_app, existsb_app, IH, <- lor_b2z. f_equal.
  rewrite (lor_all_row (c i) (e i)). f_equal. rewrite existsb_map. reflexivity.
Qed.

Lemma AnyEqual_correct mid eqw w wr ins : 1 <= w -> 1 <= wr -> eqw w w = w -> w <= mid w w w -> (2 <= length ins)%nat ->
  Forall (fits w) ins -> AnyEqual_m mid eqw w wr ins = any_equal_spec ins.
Proof.
  intros Hw Hwr He Hm Hn Hf. unfold AnyEqual_m, any_equal_spec. cbv zeta. rewrite Or_char_total by lia.
  set (n := length ins).
  assert (Hnth : forall i, fits w (nth i ins 0)).
  { intros i. destruct (nth_in_or_default i ins 0) as [Hin | ->].
    - rewrite Forall_forall in Hf. auto.
    - split; [lia | apply pow2_pos; lia]. }
  erewrite flat_map_ext; [|intros i; apply flat_map_ext; intros j; rewrite Equal_correct by (rewrite ?He; auto; lia); reflexivity].
  rewrite (lor_all_pairs Nat.eqb (fun i j => nth i ins 0 =? nth j ins 0)).
  apply trunc_b2z; lia.
Qed.

(* the reference in words: some two distinct positions hold the same value *)
Lemma any_equal_spec_iff ins :
  any_equal_spec ins = 1 <-> exists i j, (i < length ins)%nat /\ (j < length ins)%nat /\ i <> j /\ nth i ins 0 = nth j ins 0.
Proof.
  unfold any_equal_spec. split.
  - intros H. destruct (existsb _ _) eqn:E; [|discriminate]. apply existsb_exists in E.
    destruct E as [[i j] [Hin Hp]]. apply in_prod_iff in Hin. destruct Hin as [Hi Hj].
    apply in_seq in Hi. apply in_seq in Hj. cbn [fst snd] in Hp. apply andb_true_iff in Hp. destruct Hp as [Hne He].
    exists i, j. split; [lia|]. split; [lia|]. split.
    + intros ->. rewrite Nat.eqb_refl in Hne. discriminate.
    + apply Z.eqb_eq; auto.
  - intros [i [j [Hi [Hj [Hne He]]]]].
    replace (existsb _ _) with true; [reflexivity|]. symmetry. apply existsb_exists. exists (i, j). split.
    + apply in_prod_iff. split; apply in_seq; lia.
    + cbn [fst snd]. apply andb_true_iff. split; [|apply Z.eqb_eq; auto].
      destruct (Nat.eqb_spec i j); [contradiction | reflexivity].
Qed.

(* ------------------------------------------------------------------ Comparator *)
Lemma pow2_double w : 0 <= w -> 2 ^ (w + 1) = 2 * 2 ^ w.
Proof. intros. rewrite Z.pow_add_r by lia. change (2 ^ 1) with 2. lia. Qed.

Lemma sub_facts w a b : 0 <= w -> fits w a -> fits w b ->
  let sub := Sub_m (w + 1) a b in
  fits (w + 1) sub /\ bit sub w = b2z (a <? b) /\ (sub =? 0) = (a =? b).
Proof.
  intros Hw [Ha0 Ha1] [Hb0 Hb1] sub. unfold sub. rewrite Sub_char by lia.
  assert (Hf : fits (w + 1) (trunc (w + 1) (a - b))) by (apply trunc_fits; lia).
  split; [exact Hf|].
  pose proof (pow2_double w Hw) as Hd. pose proof (pow2_pos w Hw) as Hp.
  unfold bit. replace w with ((w + 1) - 1) at 2 by lia. rewrite testbit_high by (try lia; exact Hf).
  replace (w + 1 - 1) with w by lia. rewrite trunc_mod by lia.
  destruct (Z.ltb_spec a b) as [Hlt | Hge].
  - assert (E : (a - b) mod 2 ^ (w + 1) = a - b + 2 ^ (w + 1)).
    { replace (a - b) with (a - b + 2 ^ (w + 1) + (-1) * 2 ^ (w + 1)) at 1 by lia.
      rewrite Z.mod_add by lia. apply Z.mod_small. lia. }
    rewrite E. split.
    + destruct (Z.leb_spec (2 ^ w) (a - b + 2 ^ (w + 1))); [reflexivity | lia].
    + destruct (Z.eqb_spec (a - b + 2 ^ (w + 1)) 0), (Z.eqb_spec a b); try reflexivity; lia.
  - rewrite Z.mod_small by lia. split.
    + destruct (Z.leb_spec (2 ^ w) (a - b)); [lia | reflexivity].
    + destruct (Z.eqb_spec (a - b) 0), (Z.eqb_spec a b); try reflexivity; lia.
Qed.

Lemma fits_0 w : 0 <= w -> fits w 0.
Proof. intros; split; [lia | apply pow2_pos; lia]. Qed.

Lemma Comparator_correct w a b : 1 <= w -> fits w a -> fits w b -> Comparator_m w a b = cmp_spec a b.
Proof.
  intros Hw Ha Hb. unfold Comparator_m, cmp_spec. cbv zeta.
  destruct (sub_facts w a b ltac:(lia) Ha Hb) as [Hf [Hlt Heq]].
  set (sub := Sub_m (w + 1) a b) in *.
  unfold Sign_m. replace (w + 1 - 1) with w by lia. rewrite Bit_char1 by lia. rewrite Hlt.
  rewrite EqualConstant_correct by (try lia; auto using fits_0; apply fits_0; lia).
  unfold equal_spec. rewrite Heq. rewrite !Not1_bit by apply b2z_is_bit. rewrite And2_char.
  destruct (Z.ltb_spec a b), (Z.eqb_spec a b), (Z.ltb_spec b a); try lia; reflexivity.
Qed.

(* ------------------------------------------------------------------ ComparatorSignedUnsigned *)
Lemma Xor2_bits mid x y : 1 <= mid 1 1 1 -> Xor2_m mid 1 1 1 (b2z x) (b2z y) = b2z (xorb x y).
Proof.
  intros Hm. rewrite Xor2_char by (try lia; apply is_bit_fits1, b2z_is_bit). destruct x, y; reflexivity.
Qed.

Lemma sign_bit w a : 1 <= w -> fits w a -> Sign_m w a = b2z (2 ^ (w - 1) <=? a).
Proof.
  intros Hw Ha. unfold Sign_m. rewrite Bit_char1 by lia. unfold bit. rewrite testbit_high by (auto; lia). reflexivity.
Qed.

Lemma ComparatorSU_correct mid w a b : 1 <= mid 1 1 1 -> 1 <= w -> fits w a -> fits w b -> ComparatorSU_m mid w a b = cmp_su_spec w a b.
Proof.
  intros Hmid Hw Ha Hb. unfold ComparatorSU_m, cmp_su_spec. cbv zeta.
  destruct (sub_facts w a b ltac:(lia) Ha Hb) as [Hf [Hlt Heq]].
  set (sub := Sub_m (w + 1) a b) in *.
  rewrite (sign_bit w a), (sign_bit w b) by auto.
  change (Sign_m (w + 1) sub) with (Bit_m 1 (w + 1 - 1) sub). replace (w + 1 - 1) with w by lia. rewrite Bit_char1 by lia. rewrite Hlt.
  rewrite EqualConstant_correct by (try lia; auto; apply fits_0; lia).
  unfold equal_spec. rewrite Heq. rewrite !Not1_bit by apply b2z_is_bit. rewrite And2_char.
  rewrite Xor2_bits by auto.
  assert (Hd : 2 ^ w = 2 * 2 ^ (w - 1)).
  { replace w with ((w - 1) + 1) at 1 by lia. apply pow2_double. lia. }
  destruct Ha as [Ha0 Ha1], Hb as [Hb0 Hb1]. unfold sgn.
  assert (Egt : trunc 1 (Z.land (b2z (b2z (a =? b) =? 0)) (b2z (b2z (a <? b) =? 0))) = b2z (b <? a)).
  { destruct (Z.ltb_spec a b), (Z.eqb_spec a b), (Z.ltb_spec b a); try lia; reflexivity. }
  rewrite Egt. rewrite !Xor2_bits by auto.
  destruct (Z.leb_spec (2 ^ (w - 1)) a), (Z.leb_spec (2 ^ (w - 1)) b),
    (Z.ltb_spec a (2 ^ (w - 1))), (Z.ltb_spec b (2 ^ (w - 1))); try lia; cbn [xorb];
  repeat match goal with |- context [?x <? ?y] => destruct (Z.ltb_spec x y) end;
  repeat match goal with |- context [?x =? ?y] => destruct (Z.eqb_spec x y) end; try lia; reflexivity.
Qed.

(* ------------------------------------------------------------------ Min / Max *)
Lemma odd_b2z c : Z.odd (b2z c) = c.
Proof. destruct c; reflexivity. Qed.

Lemma Max2_correct w wr a b : 1 <= w -> 0 <= wr -> fits w a -> fits w b -> Max2_m w wr a b = max2_spec wr a b.
Proof.
  intros Hw Hwr Ha Hb. unfold Max2_m, max2_spec. rewrite Comparator_correct by auto. unfold cmp_spec, cmp_lt. cbn [snd].
  rewrite Mux2_char, odd_b2z, trunc_mod by lia. f_equal. destruct (Z.ltb_spec a b); lia.
Qed.
Lemma Min2_correct w wr a b : 1 <= w -> 0 <= wr -> fits w a -> fits w b -> Min2_m w wr a b = min2_spec wr a b.
Proof.
  intros Hw Hwr Ha Hb. unfold Min2_m, min2_spec. rewrite Comparator_correct by auto. unfold cmp_spec, cmp_gt. cbn [fst].
  rewrite Mux2_char, odd_b2z, trunc_mod by lia. f_equal. destruct (Z.ltb_spec b a); lia.
Qed.
Lemma SignedMax2_correct mid w wr a b : 1 <= mid 1 1 1 -> 1 <= w -> 0 <= wr -> fits w a -> fits w b ->
  SignedMax2_m mid w wr a b = smax2_spec w wr a b.
Proof.
  intros Hmid Hw Hwr Ha Hb. unfold SignedMax2_m, smax2_spec. rewrite ComparatorSU_correct by auto.
  unfold cmp_su_spec, su_lt. cbn [snd]. rewrite Mux2_char, odd_b2z, trunc_mod by lia. reflexivity.
Qed.
Lemma SignedMin2_correct mid w wr a b : 1 <= mid 1 1 1 -> 1 <= w -> 0 <= wr -> fits w a -> fits w b ->
  SignedMin2_m mid w wr a b = smin2_spec w wr a b.
Proof.
  intros Hmid Hw Hwr Ha Hb. unfold SignedMin2_m, smin2_spec. rewrite ComparatorSU_correct by auto.
  unfold cmp_su_spec, su_gt. cbn [fst snd]. rewrite Mux2_char, odd_b2z, trunc_mod by lia. reflexivity.
Qed.

(* the signed selections really are max / min of the two's complement readings (same width in and out) *)
Lemma sgn_mod w v : 1 <= w -> fits w v -> sgn w (v mod 2 ^ w) = sgn w v.
Proof. intros. rewrite (fits_mod w v) by (auto; lia). reflexivity. Qed.
Lemma smax2_is_max w a b : 1 <= w -> fits w a -> fits w b -> sgn w (smax2_spec w w a b) = Z.max (sgn w a) (sgn w b).
Proof.
  intros. unfold smax2_spec. destruct (Z.ltb_spec (sgn w a) (sgn w b)); rewrite sgn_mod by auto; lia.
Qed.
Lemma smin2_is_min w a b : 1 <= w -> fits w a -> fits w b -> sgn w (smin2_spec w w a b) = Z.min (sgn w a) (sgn w b).
Proof.
  intros. unfold smin2_spec. destruct (Z.ltb_spec (sgn w b) (sgn w a)); rewrite sgn_mod by auto; lia.
Qed.
