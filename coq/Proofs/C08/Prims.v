(* C08: characterising lemmas of the REGENERATED primitives (Gen/Prims.v).  Everything else in Proofs/C08 uses only
   these equations, never the shape of the generated definitions. *)
From V Require Import Base.Bits Gen.WireOps Gen.Prims Spec.C08 Model.StructLogic.

(* ------------------------------------------------------------------ bit-level toolkit *)
Ltac bitwise :=
  apply Z.bits_inj'; let i := fresh "i" in let Hi := fresh "Hi" in intros i Hi;
  repeat (rewrite ?trunc_testbit, ?Z.land_spec, ?Z.lor_spec, ?Z.lxor_spec, ?Z.lnot_spec, ?Z.bits_m1, ?Z.bits_0 by lia);
  repeat match goal with |- context [?a <? ?b] => destruct (Z.ltb_spec a b) end;
  repeat match goal with |- context [Z.testbit ?x ?j] => destruct (Z.testbit x j) end;
  try reflexivity; try lia.

Lemma trunc_land w a b : 0 <= w -> trunc w (Z.land a b) = Z.land (trunc w a) (trunc w b).
Proof. intros; bitwise. Qed.
Lemma trunc_lor w a b : 0 <= w -> trunc w (Z.lor a b) = Z.lor (trunc w a) (trunc w b).
Proof. intros; bitwise. Qed.
Lemma trunc_lxor w a b : 0 <= w -> trunc w (Z.lxor a b) = Z.lxor (trunc w a) (trunc w b).
Proof. intros; bitwise. Qed.
Lemma trunc_land_l w a b : 0 <= w -> trunc w (Z.land (trunc w a) b) = trunc w (Z.land a b).
Proof. intros; bitwise. Qed.
Lemma trunc_land_r w a b : 0 <= w -> trunc w (Z.land a (trunc w b)) = trunc w (Z.land a b).
Proof. intros; bitwise. Qed.
Lemma trunc_lor_l w a b : 0 <= w -> trunc w (Z.lor (trunc w a) b) = trunc w (Z.lor a b).
Proof. intros; bitwise. Qed.
Lemma trunc_lxor_l w a b : 0 <= w -> trunc w (Z.lxor (trunc w a) b) = trunc w (Z.lxor a b).
Proof. intros; bitwise. Qed.
Lemma trunc_lnot_trunc w a : 0 <= w -> trunc w (Z.lnot (trunc w a)) = trunc w (Z.lnot a).
Proof. intros; bitwise. Qed.

Lemma trunc_lnot_sub w a : 0 <= w -> trunc w (Z.lnot a) = (2 ^ w - 1 - a) mod 2 ^ w.
Proof.
  intros. rewrite trunc_mod by lia. unfold Z.lnot.
  replace (2 ^ w - 1 - a) with (Z.pred (- a) + 1 * 2 ^ w) by lia.
  rewrite Z.mod_add; [reflexivity | apply Z.pow_nonzero; lia].
Qed.

Lemma fits_trunc w v : 0 <= w -> fits w v -> trunc w v = v.
Proof. intros; apply trunc_small; auto. Qed.
Lemma trunc_fits w v : 0 <= w -> fits w (trunc w v).
Proof. intros; apply trunc_range; auto. Qed.
Lemma fits_mod w v : 0 <= w -> fits w v -> v mod 2 ^ w = v.
Proof. intros Hw [? ?]; apply Z.mod_small; lia. Qed.
Lemma fits_le a b v : 0 <= a <= b -> fits a v -> fits b v.
Proof. intros H [? ?]; split; [lia|]. pose proof (pow2_le a b H). lia. Qed.

Lemma land_1_odd a : Z.land a 1 = b2z (Z.odd a).
Proof.
  change 1 with (Z.ones 1) at 1. rewrite Z.land_ones by lia. rewrite <- Z.bit0_odd.
  change (2 ^ 1) with 2. rewrite <- Z.bit0_mod. destruct (Z.testbit a 0); reflexivity.
Qed.

Lemma bit_is_bit a i : is_bit (bit a i).
Proof. unfold is_bit, bit; destruct (Z.testbit a i); cbn; auto. Qed.
Lemma is_bit_fits1 v : is_bit v -> fits 1 v.
Proof. intros [-> | ->]; unfold fits; cbn; lia. Qed.
Lemma fits1_is_bit v : fits 1 v -> is_bit v.
Proof. unfold fits, is_bit; change (2 ^ 1) with 2; lia. Qed.
Lemma bitZ_bit a i : 0 <= i -> bitZ a i = bit a i.
Proof. intros; apply bitZ_b2z; auto. Qed.
Lemma bit_neg_index a i : i < 0 -> bit a i = 0.
Proof. intros; unfold bit; rewrite Z.testbit_neg_r by lia; reflexivity. Qed.

(* ------------------------------------------------------------------ one equation per generated primitive.
   The proofs NORMALISE the generated body instead of matching its syntax, so that behaviour-preserving rewrites of the
   Python (x % (1<<n) for x & ((1<<n)-1), redundant masks, swapped operands of & | ^, extra locals, one put per branch
   or a single put after the branches, inverted / early-return conditions, fused statements) leave them provable:
     - locals: cbv zeta;  Wire_put w v, x & ((1<<n)-1), ((1<<n)-1) & x, x % (1<<n)  ->  trunc n x;  trunc n (trunc n x) -> trunc n x
     - x & 1, 1 & x, x % 2  ->  b2z (Z.odd x);  conditions are case-split (destruct), never matched syntactically. *)
Lemma trunc_idem_any w v : trunc w (trunc w v) = trunc w v.
Proof. unfold trunc. rewrite <- Z.land_assoc, Z.land_diag. reflexivity. Qed.
Lemma land_mask_r x n : Z.land x (Z.shiftl 1 n - 1) = trunc n x.
Proof. reflexivity. Qed.
Lemma land_mask_l x n : Z.land (Z.shiftl 1 n - 1) x = trunc n x.
Proof. rewrite Z.land_comm. reflexivity. Qed.
Lemma mod_shiftl_trunc x n : 0 <= n -> x mod Z.shiftl 1 n = trunc n x.
Proof. intros; rewrite Z.shiftl_1_l, trunc_mod by lia; reflexivity. Qed.
Lemma mod_pow_trunc x n : 0 <= n -> x mod 2 ^ n = trunc n x.
Proof. intros; rewrite trunc_mod by lia; reflexivity. Qed.
Lemma land_1_odd_l a : Z.land 1 a = b2z (Z.odd a).
Proof. rewrite Z.land_comm. apply land_1_odd. Qed.
Lemma mod2_odd a : a mod 2 = b2z (Z.odd a).
Proof. rewrite Zmod_odd. destruct (Z.odd a); reflexivity. Qed.
Lemma bitZ_odd a i : bitZ a i = b2z (Z.odd (Z.shiftr a i)).
Proof. apply land_1_odd. Qed.

Ltac norm_masks :=
  cbv zeta; unfold py_shl, py_shr in *;
  change Wire_put with trunc in *;
  rewrite ?land_mask_r, ?land_mask_l;
  rewrite ?mod_shiftl_trunc by lia;
  rewrite ?trunc_idem_any.
Ltac norm_lsb := rewrite ?land_1_odd, ?land_1_odd_l, ?mod2_odd.
(* closes  trunc w X = trunc w Y  when X and Y differ by commutativity of one bitwise operator, or not at all *)
Ltac close_comm :=
  first [ reflexivity
        | f_equal; solve [ apply Z.land_comm | apply Z.lor_comm | apply Z.lxor_comm | reflexivity | lia ] ].

Lemma fold_left_ext {A B} (f g : A -> B -> A) l a : (forall x y, f x y = g x y) -> fold_left f l a = fold_left g l a.
Proof. intros H. revert a. induction l as [|y l IH]; intros a; cbn; [reflexivity|]. rewrite H. apply IH. Qed.

Lemma Wire_put_is_trunc w v : Wire_put w v = trunc w v.
Proof. reflexivity. Qed.

Lemma And2_char w a b : And2_m w a b = trunc w (Z.land a b).
Proof. first [ reflexivity | unfold And2_m, And2_propagate; norm_masks; close_comm ]. Qed.
Lemma Or2_char w a b : Or2_m w a b = trunc w (Z.lor a b).
Proof. first [ reflexivity | unfold Or2_m, Or2_propagate; norm_masks; close_comm ]. Qed.
Lemma Not_char w a : Not_m w a = trunc w (Z.lnot a).
Proof. first [ reflexivity | unfold Not_m, Not_propagate; norm_masks; close_comm ]. Qed.
Lemma Buf_char w a : Buf_m w a = trunc w a.
Proof. first [ reflexivity | unfold Buf_m, Buf_propagate; norm_masks; close_comm ]. Qed.
Lemma Constant_char w c : Constant_m w c = trunc w c.
Proof. first [ reflexivity | unfold Constant_m, Constant_propagate; norm_masks; close_comm ]. Qed.
Lemma Sub_char w a b : 0 <= w -> Sub_m w a b = trunc w (a - b).
Proof. intros. unfold Sub_m, Sub_propagate. norm_masks. close_comm. Qed.

Lemma Bit_char w i a : 0 <= i -> Bit_m w i a = trunc w (bit a i).
Proof.
  intros. rewrite <- bitZ_bit by lia. rewrite bitZ_odd.
  unfold Bit_m, Bit_propagate. norm_masks. norm_lsb. reflexivity.
Qed.
Lemma Bit_char1 i a : 0 <= i -> Bit_m 1 i a = bit a i.
Proof. intros. rewrite Bit_char by lia. apply fits_trunc; [lia|]. apply is_bit_fits1, bit_is_bit. Qed.

(* one put per branch or one put after the branches, the condition written with & 1 / % 2 / == 1 / inverted *)
Lemma Mux2_char w sel s0 s1 : Mux2_m w sel s0 s1 = trunc w (if Z.odd sel then s1 else s0).
Proof.
  unfold Mux2_m, Mux2_propagate. norm_masks. unfold py_truth. norm_lsb.
  destruct (Z.odd sel); reflexivity.
Qed.

Lemma trunc_0 w : 0 <= w -> trunc w 0 = 0.
Proof. intros. apply trunc_small; [lia|]. pose proof (pow2_pos w); lia. Qed.
Lemma trunc_allones w : 0 <= w -> trunc w (Z.shiftl 1 w - 1) = 2 ^ w - 1.
Proof.
  intros. change (Z.shiftl 1 w - 1) with (mask w). rewrite mask_pow by lia.
  apply trunc_small; [lia|]. pose proof (pow2_pos w); lia.
Qed.
Lemma Repeat_char w i : 0 <= w -> Repeat_m w i = if i =? 0 then 0 else 2 ^ w - 1.
Proof.
  intros. unfold Repeat_m, Repeat_propagate. norm_masks. unfold py_truth.
  destruct (i =? 0); cbv beta iota delta [negb]; rewrite ?trunc_0, ?trunc_allones by lia; reflexivity.
Qed.

(* mask written with & or with %; the number of bits through any arithmetic expression equal to hi - lo + 1 *)
Lemma Range_char wr hi lo a : 0 <= lo <= hi -> Range_m wr hi lo a = trunc wr (range_spec hi lo a).
Proof.
  intros. unfold Range_m, Range_propagate, range_spec. norm_masks. f_equal.
  rewrite (mod_pow_trunc _ (hi - lo + 1)) by lia. rewrite shiftr_div by lia.
  match goal with |- trunc ?n _ = trunc _ _ => replace n with (hi - lo + 1) by lia end.
  reflexivity.
Qed.

(* bit split: the same loop body for both orders *)
Lemma BitsLSBF_char wa lws a : BitsLSBF_propagate wa lws a = map (fun i => trunc (getZ lws i) (bitZ a i)) (seqZ 0 wa).
Proof.
  unfold BitsLSBF_propagate. cbv zeta. apply map_ext. intros i. rewrite bitZ_odd. norm_masks. norm_lsb. reflexivity.
Qed.
Lemma BitsMSBF_char wa lws a : BitsMSBF_propagate wa lws a = map (fun i => trunc (getZ lws i) (bitZ a i)) (seqZ 0 wa).
Proof.
  unfold BitsMSBF_propagate. cbv zeta. apply map_ext. intros i. rewrite bitZ_odd. norm_masks. norm_lsb. reflexivity.
Qed.

Lemma seqZ_in a b i : In i (seqZ a b) -> a <= i < b.
Proof.
  unfold seqZ. intros H. apply in_map_iff in H. destruct H as [k [<- Hk]]. apply in_seq in Hk. lia.
Qed.
Lemma seqZ_length a b : length (seqZ a b) = Z.to_nat (b - a).
Proof. unfold seqZ. rewrite map_length, seq_length. reflexivity. Qed.
Lemma seqZ_nth a b k : (k < Z.to_nat (b - a))%nat -> nth k (seqZ a b) 0 = a + Z.of_nat k.
Proof.
  intros. unfold seqZ.
  pose proof (map_nth (fun k => a + Z.of_nat k) (seq 0 (Z.to_nat (b - a))) 0%nat k) as E. cbv beta in E.
  rewrite nth_indep with (d' := a + Z.of_nat 0) by (rewrite map_length, seq_length; lia).
  rewrite E, seq_nth by lia. reflexivity.
Qed.
Lemma seqZ_S a n : seqZ a (a + Z.of_nat (S n)) = a :: seqZ (a + 1) (a + 1 + Z.of_nat n).
Proof.
  unfold seqZ. replace (a + Z.of_nat (S n) - a) with (Z.of_nat (S n)) by lia.
  replace (a + 1 + Z.of_nat n - (a + 1)) with (Z.of_nat n) by lia. rewrite !Nat2Z.id.
  cbn [seq map]. f_equal; [lia|]. rewrite <- seq_shift, map_map. apply map_ext. intros; lia.
Qed.
Lemma seqZ_nil a b : b <= a -> seqZ a b = [].
Proof. intros. unfold seqZ. replace (Z.to_nat (b - a)) with 0%nat by lia. reflexivity. Qed.

Lemma getZ_ones1 n i : 0 <= i < n -> getZ (ones1 n) i = 1.
Proof.
  intros. unfold getZ, ones1.
  destruct (nth_in_or_default (Z.to_nat i) (repeat 1 (Z.to_nat n)) 0) as [Hin | E].
  - apply List.repeat_spec in Hin. exact Hin.
  - exfalso. assert (L : (Z.to_nat i < length (repeat 1%Z (Z.to_nat n)))%nat) by (rewrite repeat_length; lia).
    pose proof (nth_In (repeat 1 (Z.to_nat n)) 0 L) as Hin. apply List.repeat_spec in Hin. lia.
Qed.
