(* C08: inputs of DIFFERENT widths on the n-ary blocks whose internal wires take each input's width (Xor, Select/OneHotMux,
   OneHotDemux, AnyEqual), Nor / Nor2 for any width of their Mid wire, and the uniform-width models as instances. *)
From V Require Import Base.Bits Gen.WireOps Gen.Prims Spec.C08 Model.StructLogic Proofs.C08.Prims Proofs.C08.Gates
  Proofs.C08.Minterm Proofs.C08.Select Proofs.C08.Compare Proofs.C08.Concat.

(* ------------------------------------------------------------------ Nor / Nor2: Mid at least as wide as r needs no guard on the inputs *)
Lemma trunc_lnot_trunc_le a b v : 0 <= a <= b -> trunc a (Z.lnot (trunc b v)) = trunc a (Z.lnot v).
Proof. intros; bitwise. Qed.
Lemma Nor_mid_ge_r wm wr ins : 0 <= wr <= wm -> ins <> [] -> Nor_m wm wr ins = nor_spec wr ins.
Proof.
  intros Hw Hne. unfold Nor_m. rewrite Not_char, Or_char by (auto; lia). rewrite trunc_lnot_trunc_le by lia.
  apply trunc_lnot_sub; lia.
Qed.
Lemma Nor2_mid_ge_r wm wr a b : 0 <= wr <= wm -> Nor2_m wm wr a b = nor2_spec wr a b.
Proof.
  intros Hw. unfold Nor2_m. rewrite Not_char, Or2_char. rewrite trunc_lnot_trunc_le by lia. apply trunc_lnot_sub; lia.
Qed.

(* ------------------------------------------------------------------ Xor ladder over (width, value) items *)
Lemma fold_left_map {A B C} (f : A -> B -> A) (g : C -> B) l a : fold_left f (map g l) a = fold_left (fun acc x => f acc (g x)) l a.
Proof. revert a. induction l as [|x l IH]; intros a; cbn; [reflexivity | apply IH]. Qed.

Lemma xor_ladderW mid w rest acc : 0 <= w -> (forall x y, w <= mid x y w) -> Forall item_ok rest ->
  fold_left (fun acc p => Xor2_m mid w (fst p) w acc (snd p)) rest (trunc w acc) = trunc w (fold_left Z.lxor (map snd rest) acc).
Proof.
  intros Hw Hm Hf. revert acc. induction Hf as [|[wx x] rest [Hwx Hx] Hrest IH]; intros acc; [reflexivity|].
  cbn [fold_left map fst snd] in *.
  rewrite Xor2_char; [| lia | lia | split; [lia | apply Hm] | apply trunc_fits; lia | exact Hx]. rewrite trunc_lxor_l by lia. apply IH.
Qed.
Lemma XorW_correct mid w ins : 0 <= w -> (forall x y, w <= mid x y w) -> (2 <= length ins)%nat -> Forall item_ok ins ->
  XorW_m mid w ins = xor_spec w (map snd ins).
Proof.
  intros Hw Hm Hlen Hf. destruct ins as [|[wa a] [|[wb b] rest]]; cbn [length] in Hlen; try lia.
  inversion Hf as [|? ? [Hwa Ha] Hf1]; subst. inversion Hf1 as [|? ? [Hwb Hb] Hrest]; subst. cbn [fst snd] in *.
  unfold xor_spec. rewrite <- trunc_mod by lia. cbn [map snd]. rewrite <- fold_lxor_all. unfold XorW_m. cbn [fold_left].
  rewrite Xor2_char; [| lia | lia | split; [lia | apply Hm] | exact Ha | exact Hb]. apply xor_ladderW; auto.
Qed.
Lemma XorW_correct_max w ins : 0 <= w -> (2 <= length ins)%nat -> Forall item_ok ins -> XorW_m mid_max w ins = xor_spec w (map snd ins).
Proof. intros. apply XorW_correct; auto. intros; unfold mid_max; lia. Qed.
Lemma Xor_as_W mid wi w ins : Xor_m mid wi w ins = XorW_m mid w (map (pair wi) ins).
Proof.
  destruct ins as [|a [|b rest]]; try reflexivity. cbn [map XorW_m Xor_m]. rewrite fold_left_map. reflexivity.
Qed.

(* ------------------------------------------------------------------ Select / OneHotMux over items *)
Lemma OneHotMuxW_correct wr sels ins : 0 <= wr -> sels <> [] -> length sels = length ins -> Forall item_ok ins ->
  OneHotMuxW_m wr sels ins = onehot_mux_spec wr sels (map snd ins).
Proof.
  intros Hwr Hne Hlen Hf. unfold OneHotMuxW_m, onehot_mux_spec. rewrite Or_char_total by lia. rewrite trunc_mod by lia. f_equal. f_equal.
  clear Hne Hlen. revert sels. induction Hf as [|[wx x] ins [Hwx Hx] Hins IH]; intros sels; destruct sels as [|s sels]; try reflexivity.
  cbn [combine map fst snd] in *. rewrite gate_by_select by auto. f_equal. apply IH.
Qed.
Lemma OneHotMux_as_W wi wr sels ins : OneHotMux_m wi wr sels ins = OneHotMuxW_m wr sels (map (pair wi) ins).
Proof.
  unfold OneHotMux_m, OneHotMuxW_m. f_equal. revert ins. induction sels as [|s sels IH]; intros ins; destruct ins as [|x ins]; cbn [combine map fst snd]; try reflexivity.
  f_equal. apply IH.
Qed.

(* ------------------------------------------------------------------ OneHotDemux with outputs of their own widths *)
Lemma OneHotDemuxW_correct wa wos a sels : 0 <= wa -> fits wa a -> Forall (fun w => 0 <= w) wos ->
  OneHotDemuxW_m wa wos a sels = map (fun p => if snd p =? 0 then 0 else a mod 2 ^ fst p) (combine wos sels).
Proof.
  intros Hwa Ha Hw. unfold OneHotDemuxW_m. apply map_ext_in. intros [wo s] Hin. cbn [fst snd].
  assert (Hwo : 0 <= wo). { apply in_combine_l in Hin. rewrite Forall_forall in Hw. apply Hw; auto. }
  rewrite And2_char, Repeat_char by lia. destruct (s =? 0).
  - rewrite Z.land_0_l. apply trunc_small; [lia|]. pose proof (pow2_pos wo); lia.
  - rewrite <- mask_pow by lia. rewrite Z.land_comm. fold (trunc wa a). rewrite (fits_trunc wa a) by auto. apply trunc_mod; lia.
Qed.

(* ------------------------------------------------------------------ AnyEqual over items (repaired Equal / Xor2: any two widths) *)
Lemma flat_map_ext_in' {A B} (f g : A -> list B) l : (forall x, In x l -> f x = g x) -> flat_map f l = flat_map g l.
Proof.
  induction l as [|x l IH]; intros H; [reflexivity|]. cbn [flat_map]. rewrite (H x) by (left; reflexivity).
  rewrite IH; [reflexivity|]. intros; apply H; right; auto.
Qed.
Definition item_ok1 (p : Z * Z) : Prop := 1 <= fst p /\ fits (fst p) (snd p).

Lemma AnyEqualW_correct wr ins : 1 <= wr -> (2 <= length ins)%nat -> Forall item_ok1 ins ->
  AnyEqualW_m mid_max eqw_max wr ins = any_equal_spec (map snd ins).
Proof.
  intros Hwr Hn Hf. unfold AnyEqualW_m, any_equal_spec. cbv zeta. rewrite Or_char_total by lia. rewrite map_length.
  set (n := length ins).
  assert (Hnth : forall i, (i < n)%nat -> item_ok1 (nth i ins (0, 0))).
  { intros i Hi. rewrite Forall_forall in Hf. apply Hf. apply nth_In. exact Hi. }
  rewrite (flat_map_ext_in' _ (fun i => flat_map (fun j => if Nat.eqb i j then [] else [b2z (nth i (map snd ins) 0 =? nth j (map snd ins) 0)]) (seq 0 n))).
  - rewrite (lor_all_pairs Nat.eqb (fun i j => nth i (map snd ins) 0 =? nth j (map snd ins) 0)). apply trunc_b2z; lia.
  - intros i Hi. apply in_seq in Hi. apply flat_map_ext_in'. intros j Hj. apply in_seq in Hj.
    destruct (Nat.eqb i j); [reflexivity|].
    destruct (Hnth i ltac:(lia)) as [Hwi Hvi]. destruct (Hnth j ltac:(lia)) as [Hwj Hvj].
    rewrite Equal_correct by (unfold eqw_max, mid_max; try lia; auto). unfold equal_spec.
    rewrite <- !(map_nth snd ins (0, 0)). reflexivity.
Qed.
Lemma AnyEqual_as_W mid eqw w wr ins : AnyEqual_m mid eqw w wr ins = AnyEqualW_m mid eqw wr (map (pair w) ins).
Proof.
  unfold AnyEqual_m, AnyEqualW_m. cbv zeta. rewrite map_length. f_equal.
  apply flat_map_ext_in'. intros i Hi. apply in_seq in Hi. apply flat_map_ext_in'. intros j Hj. apply in_seq in Hj.
  destruct (Nat.eqb i j); [reflexivity|].
  rewrite (nth_indep (map (pair w) ins) (0, 0) (w, 0)) by (rewrite map_length; lia).
  rewrite (nth_indep (map (pair w) ins) (0, 0) (w, 0)) by (rewrite map_length; lia).
  rewrite !(map_nth (pair w) ins 0). reflexivity.
Qed.
