(* C08: ConcatenateMSBF / ConcatenateLSBF. *)
From V Require Import Base.Bits Gen.WireOps Gen.Prims Spec.C08 Model.StructLogic Proofs.C08.Prims Proofs.C08.Gates.

Definition item_ok (p : Z * Z) : Prop := 0 <= fst p /\ fits (fst p) (snd p).
Definition cat_step (acc : Z) (p : Z * Z) : Z := Z.lor (Z.shiftl acc (fst p)) (snd p).

(* the only place that looks at the generated definitions: the loop body, in one or two statements, operands of | in
   either order, is cat_step *)
Ltac cat_body :=
  cbv zeta; change Wire_put with trunc; f_equal;
  apply fold_left_ext; intros x [w v]; unfold cat_step, py_shl; cbn [fst snd];
  first [ reflexivity | apply Z.lor_comm ].
Lemma ConcatMSBF_char wr ins : ConcatenateMSBF_m wr ins = trunc wr (fold_left cat_step ins 0).
Proof. unfold ConcatenateMSBF_m, ConcatenateMSBF_propagate. cat_body. Qed.
Lemma ConcatLSBF_char wr ins : ConcatenateLSBF_m wr ins = trunc wr (fold_left cat_step (rev ins) 0).
Proof. unfold ConcatenateLSBF_m, ConcatenateLSBF_propagate. cat_body. Qed.

Lemma total_width_cons p l : total_width (p :: l) = fst p + total_width l.
Proof. reflexivity. Qed.
Lemma total_width_nonneg l : Forall item_ok l -> 0 <= total_width l.
Proof. intros H. induction H as [|p l [Hp _] Hl IH]; [cbn; lia|]. rewrite total_width_cons. lia. Qed.

Lemma cat_fold l acc : Forall item_ok l -> fold_left cat_step l acc = acc * 2 ^ total_width l + msbf_spec l.
Proof.
  intros H. revert acc. induction H as [|[w v] l [Hw Hv] Hl IH]; intros acc; cbn [fold_left msbf_spec].
  - cbn. lia.
  - rewrite total_width_cons. cbn [fst]. rewrite IH. unfold cat_step. cbn [fst snd] in *. rewrite lor_add_disjoint by (auto; lia).
    pose proof (total_width_nonneg l Hl). rewrite Z.pow_add_r by lia. ring.
Qed.

Lemma ConcatenateMSBF_correct wr ins : 0 <= wr -> Forall item_ok ins ->
  ConcatenateMSBF_m wr ins = msbf_spec ins mod 2 ^ wr.
Proof. intros Hwr H. rewrite ConcatMSBF_char, cat_fold by auto. rewrite trunc_mod by lia. f_equal. Qed.

Lemma total_width_app l p : total_width (l ++ [p]) = total_width l + fst p.
Proof. induction l as [|q l IH]; [cbn; lia|]. cbn [app]. rewrite !total_width_cons, IH. lia. Qed.

Lemma msbf_app l w v : Forall item_ok l -> 0 <= w -> msbf_spec (l ++ [(w, v)]) = msbf_spec l * 2 ^ w + v.
Proof.
  intros H Hw. induction H as [|[w' v'] l [Hw' _] Hl IH]; cbn [app msbf_spec].
  - cbn. lia.
  - rewrite IH, total_width_app. cbn [fst] in *. pose proof (total_width_nonneg l Hl).
    rewrite Z.pow_add_r by lia. ring.
Qed.

Lemma msbf_rev_lsbf l : Forall item_ok l -> msbf_spec (rev l) = lsbf_spec l.
Proof.
  intros H. induction H as [|[w v] l [Hw Hv] Hl IH]; [reflexivity|]. cbn [rev lsbf_spec].
  cbn [fst] in Hw. rewrite msbf_app by (auto; apply Forall_rev; auto). rewrite IH. ring.
Qed.

Lemma ConcatenateLSBF_correct wr ins : 0 <= wr -> Forall item_ok ins ->
  ConcatenateLSBF_m wr ins = lsbf_spec ins mod 2 ^ wr.
Proof.
  intros Hwr H. rewrite ConcatLSBF_char, cat_fold by (apply Forall_rev; auto).
  rewrite trunc_mod by lia. rewrite msbf_rev_lsbf by auto. f_equal.
Qed.

(* the concatenation fits the total width, so a result wire at least that wide holds it exactly *)
Lemma msbf_fits l : Forall item_ok l -> fits (total_width l) (msbf_spec l).
Proof.
  intros H. induction H as [|[w v] l [Hw [Hv0 Hv1]] Hl IH]; [cbn; unfold fits; cbn; lia|].
  cbn [msbf_spec fst snd] in *. rewrite total_width_cons. cbn [fst].
  pose proof (total_width_nonneg l Hl) as Ht. destruct IH as [I0 I1].
  unfold fits. rewrite Z.pow_add_r by lia. pose proof (pow2_pos (total_width l) Ht). split; nia.
Qed.
Lemma total_width_rev l : total_width (rev l) = total_width l.
Proof.
  induction l as [|p l IH]; [reflexivity|]. cbn [rev]. rewrite total_width_app, IH, total_width_cons. lia.
Qed.
Lemma ConcatenateMSBF_exact wr ins : Forall item_ok ins -> total_width ins <= wr ->
  ConcatenateMSBF_m wr ins = msbf_spec ins.
Proof.
  intros H Hle. pose proof (total_width_nonneg ins H). rewrite ConcatenateMSBF_correct by (auto; lia).
  apply fits_mod; [lia|]. apply (fits_le (total_width ins)); [lia | apply msbf_fits; auto].
Qed.
Lemma ConcatenateLSBF_exact wr ins : Forall item_ok ins -> total_width ins <= wr ->
  ConcatenateLSBF_m wr ins = lsbf_spec ins.
Proof.
  intros H Hle. pose proof (total_width_nonneg ins H). rewrite ConcatenateLSBF_correct by (auto; lia).
  apply fits_mod; [lia|]. rewrite <- msbf_rev_lsbf by auto. apply (fits_le (total_width ins)); [lia|].
  rewrite <- total_width_rev. apply msbf_fits. apply Forall_rev; auto.
Qed.
