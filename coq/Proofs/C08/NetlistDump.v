(* C08: the hand-written ladder design terms of Proofs/C08/Netlist.v compared with what py/netlist.py `Dump(hw).coq_design()` printed
   for live py4hw objects: `And(hw, 'g', ins, r)` / `Or(hw, 'g', ins, r)` inside a bare HWSystem, wires created in the order
   in0 .. in{n-1}, r.  The Definitions below are that output PASTED VERBATIM (captured on /repo as of this session; not regenerated
   per run); each lemma is closed by `reflexivity`: the instantiated hand-written term and the dumped term are convertible - leaf
   functions, wire ids, leaf order, widths (the dangling and{n-1} wire included). *)
From V Require Import Base.PyInt Gen.WireOps Gen.Helpers Gen.Prims Gen.Seq Model.SimKernel Model.Trace.
From V Require Import Proofs.C08.Netlist.

Definition and_dump_1_3 : design AnySt :=
  {| widths := [1; 3; 3];
   combs := [
    {| c_in := [1%nat]; c_out := [2%nat]; c_f := fun ins => match ins with [x1] => let r := Buf_propagate 3 x1 in [Some r] | _ => [] end |}];
   seqs := [
    ];
   drivers := [] |}.
Definition and_dump_1_3_st0 : list AnySt := [].

Lemma and_ladder_design_is_dump_1_3 : and_ladder_design [3] 3 = and_dump_1_3 /\ and_dump_1_3_st0 = [] /\ ladder_r 1 = 2%nat.
Proof. repeat split; reflexivity. Qed.

Definition and_dump_2_3 : design AnySt :=
  {| widths := [1; 3; 3; 3];
   combs := [
    {| c_in := [1%nat; 2%nat]; c_out := [3%nat]; c_f := fun ins => match ins with [x1; x2] => let r := And2_propagate 3 x1 x2 in [Some r] | _ => [] end |}];
   seqs := [
    ];
   drivers := [] |}.
Definition and_dump_2_3_st0 : list AnySt := [].

Lemma and_ladder_design_is_dump_2_3 : and_ladder_design [3; 3] 3 = and_dump_2_3 /\ and_dump_2_3_st0 = [] /\ ladder_r 2 = 3%nat.
Proof. repeat split; reflexivity. Qed.

Definition and_dump_3_3 : design AnySt :=
  {| widths := [1; 3; 3; 3; 3; 3; 3];
   combs := [
    {| c_in := [1%nat; 2%nat]; c_out := [5%nat]; c_f := fun ins => match ins with [x1; x2] => let r := And2_propagate 3 x1 x2 in [Some r] | _ => [] end |};
    {| c_in := [5%nat; 3%nat]; c_out := [4%nat]; c_f := fun ins => match ins with [x1; x2] => let r := And2_propagate 3 x1 x2 in [Some r] | _ => [] end |}];
   seqs := [
    ];
   drivers := [] |}.
Definition and_dump_3_3_st0 : list AnySt := [].

Lemma and_ladder_design_is_dump_3_3 : and_ladder_design [3; 3; 3] 3 = and_dump_3_3 /\ and_dump_3_3_st0 = [] /\ ladder_r 3 = 4%nat.
Proof. repeat split; reflexivity. Qed.

Definition and_dump_4_5 : design AnySt :=
  {| widths := [1; 5; 5; 5; 5; 5; 5; 5; 5];
   combs := [
    {| c_in := [1%nat; 2%nat]; c_out := [6%nat]; c_f := fun ins => match ins with [x1; x2] => let r := And2_propagate 5 x1 x2 in [Some r] | _ => [] end |};
    {| c_in := [6%nat; 3%nat]; c_out := [7%nat]; c_f := fun ins => match ins with [x1; x2] => let r := And2_propagate 5 x1 x2 in [Some r] | _ => [] end |};
    {| c_in := [7%nat; 4%nat]; c_out := [5%nat]; c_f := fun ins => match ins with [x1; x2] => let r := And2_propagate 5 x1 x2 in [Some r] | _ => [] end |}];
   seqs := [
    ];
   drivers := [] |}.
Definition and_dump_4_5_st0 : list AnySt := [].

Lemma and_ladder_design_is_dump_4_5 : and_ladder_design [5; 5; 5; 5] 5 = and_dump_4_5 /\ and_dump_4_5_st0 = [] /\ ladder_r 4 = 5%nat.
Proof. repeat split; reflexivity. Qed.

Definition and_dump_5_2 : design AnySt :=
  {| widths := [1; 1; 2; 3; 4; 5; 2; 2; 2; 2; 2];
   combs := [
    {| c_in := [1%nat; 2%nat]; c_out := [7%nat]; c_f := fun ins => match ins with [x1; x2] => let r := And2_propagate 2 x1 x2 in [Some r] | _ => [] end |};
    {| c_in := [7%nat; 3%nat]; c_out := [8%nat]; c_f := fun ins => match ins with [x1; x2] => let r := And2_propagate 2 x1 x2 in [Some r] | _ => [] end |};
    {| c_in := [8%nat; 4%nat]; c_out := [9%nat]; c_f := fun ins => match ins with [x1; x2] => let r := And2_propagate 2 x1 x2 in [Some r] | _ => [] end |};
    {| c_in := [9%nat; 5%nat]; c_out := [6%nat]; c_f := fun ins => match ins with [x1; x2] => let r := And2_propagate 2 x1 x2 in [Some r] | _ => [] end |}];
   seqs := [
    ];
   drivers := [] |}.
Definition and_dump_5_2_st0 : list AnySt := [].

Lemma and_ladder_design_is_dump_5_2 : and_ladder_design [1; 2; 3; 4; 5] 2 = and_dump_5_2 /\ and_dump_5_2_st0 = [] /\ ladder_r 5 = 6%nat.
Proof. repeat split; reflexivity. Qed.

Definition or_dump_1_2 : design AnySt :=
  {| widths := [1; 2; 2];
   combs := [
    {| c_in := [1%nat]; c_out := [2%nat]; c_f := fun ins => match ins with [x1] => let r := Buf_propagate 2 x1 in [Some r] | _ => [] end |}];
   seqs := [
    ];
   drivers := [] |}.
Definition or_dump_1_2_st0 : list AnySt := [].

Lemma or_ladder_design_is_dump_1_2 : or_ladder_design [2] 2 = or_dump_1_2 /\ or_dump_1_2_st0 = [] /\ ladder_r 1 = 2%nat.
Proof. repeat split; reflexivity. Qed.

Definition or_dump_2_4 : design AnySt :=
  {| widths := [1; 4; 4; 4];
   combs := [
    {| c_in := [1%nat; 2%nat]; c_out := [3%nat]; c_f := fun ins => match ins with [x1; x2] => let r := Or2_propagate 4 x1 x2 in [Some r] | _ => [] end |}];
   seqs := [
    ];
   drivers := [] |}.
Definition or_dump_2_4_st0 : list AnySt := [].

Lemma or_ladder_design_is_dump_2_4 : or_ladder_design [4; 4] 4 = or_dump_2_4 /\ or_dump_2_4_st0 = [] /\ ladder_r 2 = 3%nat.
Proof. repeat split; reflexivity. Qed.

Definition or_dump_3_3 : design AnySt :=
  {| widths := [1; 3; 3; 3; 3; 3; 3];
   combs := [
    {| c_in := [1%nat; 2%nat]; c_out := [5%nat]; c_f := fun ins => match ins with [x1; x2] => let r := Or2_propagate 3 x1 x2 in [Some r] | _ => [] end |};
    {| c_in := [5%nat; 3%nat]; c_out := [4%nat]; c_f := fun ins => match ins with [x1; x2] => let r := Or2_propagate 3 x1 x2 in [Some r] | _ => [] end |}];
   seqs := [
    ];
   drivers := [] |}.
Definition or_dump_3_3_st0 : list AnySt := [].

Lemma or_ladder_design_is_dump_3_3 : or_ladder_design [3; 3; 3] 3 = or_dump_3_3 /\ or_dump_3_3_st0 = [] /\ ladder_r 3 = 4%nat.
Proof. repeat split; reflexivity. Qed.

Definition or_dump_4_5 : design AnySt :=
  {| widths := [1; 5; 5; 5; 5; 5; 5; 5; 5];
   combs := [
    {| c_in := [1%nat; 2%nat]; c_out := [6%nat]; c_f := fun ins => match ins with [x1; x2] => let r := Or2_propagate 5 x1 x2 in [Some r] | _ => [] end |};
    {| c_in := [6%nat; 3%nat]; c_out := [7%nat]; c_f := fun ins => match ins with [x1; x2] => let r := Or2_propagate 5 x1 x2 in [Some r] | _ => [] end |};
    {| c_in := [7%nat; 4%nat]; c_out := [5%nat]; c_f := fun ins => match ins with [x1; x2] => let r := Or2_propagate 5 x1 x2 in [Some r] | _ => [] end |}];
   seqs := [
    ];
   drivers := [] |}.
Definition or_dump_4_5_st0 : list AnySt := [].

Lemma or_ladder_design_is_dump_4_5 : or_ladder_design [5; 5; 5; 5] 5 = or_dump_4_5 /\ or_dump_4_5_st0 = [] /\ ladder_r 4 = 5%nat.
Proof. repeat split; reflexivity. Qed.
