(* C08: Mux2, the Mux tree over k select bits (induction on k), Swap. *)
From V Require Import Base.Bits Gen.WireOps Gen.Prims Spec.C08 Model.StructLogic Proofs.C08.Prims Proofs.C08.Gates
  Proofs.C08.Minterm.

Lemma Mux2_correct w sel s0 s1 : 0 <= w -> Mux2_m w sel s0 s1 = mux2_spec w sel s0 s1.
Proof. intros. rewrite Mux2_char. apply trunc_mod; lia. Qed.

Lemma Swap_correct wa wb a b swap : 0 <= wa -> 0 <= wb -> Swap_m wa wb a b swap = swap_spec wa wb a b swap.
Proof.
  intros. unfold Swap_m, swap_spec. rewrite !Mux2_char. destruct (Z.odd swap); rewrite !trunc_mod by lia; reflexivity.
Qed.

(* index selected by a list of select bits, least significant first *)
Fixpoint idx (bs : list Z) : nat := match bs with [] => 0 | s :: t => Z.to_nat s + 2 * idx t end.

Lemma idx_bound bs : Forall is_bit bs -> Z.of_nat (idx bs) < 2 ^ Z.of_nat (length bs).
Proof.
  intros H. induction H as [|s t Hs Ht IH]; [cbn; lia|].
  cbn [idx length]. rewrite Nat2Z.inj_succ, Z.pow_succ_r by lia. destruct Hs as [-> | ->]; lia.
Qed.

Lemma mux_level_length wr s l m : length l = (2 * m)%nat -> length (mux_level wr s l) = m.
Proof.
  revert l. induction m as [|m IH]; intros l Hl.
  - destruct l; [reflexivity | cbn in Hl; lia].
  - destruct l as [|a [|b t]]; cbn [length] in Hl; try lia. cbn [mux_level length]. f_equal. apply IH. lia.
Qed.

Lemma mux_level_nth wr s l m j : length l = (2 * m)%nat -> (j < m)%nat -> is_bit s ->
  nth j (mux_level wr s l) 0 = trunc wr (nth (2 * j + Z.to_nat s) l 0).
Proof.
  revert l j. induction m as [|m IH]; intros l j Hl Hj Hs; [lia|].
  destruct l as [|a [|b t]]; cbn [length] in Hl; try lia. cbn [mux_level].
  destruct j as [|j].
  - cbn [nth]. rewrite Mux2_char. destruct Hs as [-> | ->]; reflexivity.
  - cbn [nth]. rewrite (IH t j) by (auto; lia).
    replace (2 * S j + Z.to_nat s)%nat with (S (S (2 * j + Z.to_nat s))) by lia. reflexivity.
Qed.

Lemma mux_tree_hd wr bs l : 0 <= wr -> Forall is_bit bs -> Z.of_nat (length l) = 2 ^ Z.of_nat (length bs) ->
  hd 0 (mux_tree wr bs l) = (match bs with [] => fun x => x | _ => trunc wr end) (nth (idx bs) l 0).
Proof.
  intros Hwr H. revert l. induction H as [|s bs Hs Hbs IH]; intros l Hl.
  - cbn. destruct l; reflexivity.
  - cbn [mux_tree idx]. cbn [length] in Hl. rewrite Nat2Z.inj_succ, Z.pow_succ_r in Hl by lia.
    pose proof (idx_bound bs Hbs) as Hb.
    set (m := Z.to_nat (2 ^ Z.of_nat (length bs))).
    assert (Hm : length l = (2 * m)%nat) by (unfold m; lia).
    rewrite IH by (rewrite (mux_level_length wr s l m Hm); unfold m; lia).
    rewrite (mux_level_nth wr s l m) by (auto; unfold m; lia).
    replace (2 * idx bs + Z.to_nat s)%nat with (Z.to_nat s + 2 * idx bs)%nat by lia.
    destruct bs; [reflexivity | apply trunc_idem; lia].
Qed.

Lemma bit_div_mod a p : 0 <= p -> bit a p = (a / 2 ^ p) mod 2.
Proof.
  intros. rewrite <- bitZ_bit by lia. unfold bitZ. change 1 with (Z.ones 1). rewrite Z.land_ones by lia.
  rewrite shiftr_div by lia. reflexivity.
Qed.

Lemma idx_bits a p n : 0 <= p ->
  Z.of_nat (idx (map (bit a) (seqZ p (p + Z.of_nat n)))) = (a / 2 ^ p) mod 2 ^ Z.of_nat n.
Proof.
  revert p. induction n as [|n IH]; intros p Hp.
  - rewrite seqZ_nil by lia. cbn [map idx]. change (2 ^ Z.of_nat 0) with 1. rewrite Z.mod_1_r. reflexivity.
  - rewrite seqZ_S. cbn [map idx]. rewrite Nat2Z.inj_add, Nat2Z.inj_mul, IH by lia.
    change (Z.of_nat 2) with 2.
    replace (Z.of_nat (S n)) with (Z.succ (Z.of_nat n)) by lia. rewrite Z.pow_succ_r by lia.
    rewrite Z.rem_mul_r by (try lia; apply pow2_pos; lia).
    rewrite Z.pow_add_r, <- Z.div_div by (try lia; apply pow2_pos; lia). change (2 ^ 1) with 2.
    rewrite bit_div_mod by lia.
    pose proof (Z.mod_pos_bound (a / 2 ^ p) 2 ltac:(lia)). rewrite Z2Nat.id by lia. reflexivity.
Qed.

Lemma Mux_correct wsel wr sel ins : 1 <= wsel -> 0 <= wr -> fits wsel sel -> Z.of_nat (length ins) = 2 ^ wsel ->
  Mux_m wsel wr sel ins = mux_spec wr sel ins.
Proof.
  intros Hws Hwr Hs Hl. unfold Mux_m, mux_spec. rewrite <- trunc_mod by lia.
  destruct (Z.eqb_spec wsel 1) as [-> | Hne].
  - rewrite Mux2_char. apply fits1_is_bit in Hs. destruct Hs as [-> | ->]; reflexivity.
  - rewrite BitsLSBF_correct by lia. unfold bits_lsbf_spec.
    assert (Hlen : length (map (bit sel) (seqZ 0 wsel)) = Z.to_nat wsel) by (rewrite map_length, seqZ_length; f_equal; lia).
    rewrite mux_tree_hd; try lia.
    + pose proof (idx_bits sel 0 (Z.to_nat wsel) ltac:(lia)) as E.
      replace (0 + Z.of_nat (Z.to_nat wsel)) with wsel in E by lia.
      rewrite Z.pow_0_r, Z.div_1_r, Z2Nat.id in E by lia. rewrite (fits_mod wsel sel) in E by (auto; lia).
      replace (idx (map (bit sel) (seqZ 0 wsel))) with (Z.to_nat sel) by lia.
      destruct (map (bit sel) (seqZ 0 wsel)) eqn:Em; [|reflexivity].
      cbn [length] in Hlen. lia.
    + apply bits_lsbf_is_bit.
    + rewrite Hlen, Z2Nat.id by lia. exact Hl.
Qed.
