(* C08: the KERNEL-LEVEL netlist of the n-ary And / Or ladders (py4hw/logic/bitwise.py, And.__init__ / Or.__init__) evaluated by
   Model/SimKernel.propagateAll puts on the result wire the value of the block model And_m / Or_m of Model/StructLogic.v -
   for EVERY arity n >= 1, every result width, every list of input widths and every valuation of the wires.

   `ladder_design g2 wis w` is HAND-WRITTEN to mirror the constructor, in exactly the shape py/netlist.py `Dump.coq_design`
   prints for a live `And(hw, 'g', ins, r)` inside a bare `HWSystem` whose wires were created in the order in0 .. in{n-1}, r:
     wire 0                 the HWSystem clock wire (width 1)
     wires 1 .. n           in0 .. in{n-1}                        (widths wis)
     wire n+1               r                                     (width w)
     n >= 3 only:
     wires n+2 .. 2n-1      the intermediates and0 .. and{n-3}    (self.wire('and{}'.format(i), w), creation order)
     wire 2n                and{n-1}: created by the LAST loop iteration and never connected (dangling, width w)
   leaves, in Simulator.propagatables order (= creation order here):
     n = 1    Buf(in0 -> r)
     n = 2    And2(in0, in1 -> r)
     n >= 3   And2(aux_i, in{i+1} -> aux_{i+1}) for i = 0 .. n-2, aux_0 = in0, aux_{n-1} = r, aux_k = and{k-1} otherwise.
   The state type of the design is irrelevant (no sequential leaf): the term is polymorphic in it; the dumps use Gen/Seq.AnySt
   (Proofs/C08/NetlistDump.v compares by `reflexivity` with pasted real dumps). *)
From V Require Import Base.Bits Gen.WireOps Gen.Prims Model.SimKernel Spec.C08 Model.StructLogic.
From V Require Import Proofs.C08.Prims Proofs.C08.Gates Spec.C04 Proofs.C04.Settle.
From Coq Require Import PeanoNat Arith.

(* ------------------------------------------------------------------ the design term *)
Definition leaf1 (w : Z) (a o : nat) : cleaf :=
  {| c_in := [a]; c_out := [o]; c_f := fun ins => match ins with [x1] => let r := Buf_propagate w x1 in [Some r] | _ => [] end |}.
Definition leaf2 (g2 : Z -> Z -> Z -> Z) (w : Z) (a b o : nat) : cleaf :=
  {| c_in := [a; b]; c_out := [o]; c_f := fun ins => match ins with [x1; x2] => let r := g2 w x1 x2 in [Some r] | _ => [] end |}.

Local Open Scope nat_scope.
(* the wire holding the partial result after k two-input gates *)
Definition ladder_aux (n k : nat) : nat := if k =? 0 then 1 else if k =? n - 1 then n + 1 else n + 1 + k.
Definition ladder_leaf (g2 : Z -> Z -> Z -> Z) (w : Z) (n i : nat) : cleaf :=
  leaf2 g2 w (ladder_aux n i) (S (S i)) (ladder_aux n (S i)).
Definition ladder_r (n : nat) : nat := n + 1.

Definition ladder_design {St} (g2 : Z -> Z -> Z -> Z) (wis : list Z) (w : Z) : design St :=
  let n := length wis in
  {| widths := [1%Z] ++ wis ++ [w] ++ (if n <=? 2 then [] else repeat w (n - 1));
     combs := match n with
              | 1 => [leaf1 w 1 2]
              | _ => map (ladder_leaf g2 w n) (seq 0 (n - 1))
              end;
     seqs := []; drivers := [] |}.

Definition and_ladder_design {St} (wis : list Z) (w : Z) : design St := ladder_design And2_propagate wis w.
Definition or_ladder_design {St} (wis : list Z) (w : Z) : design St := ladder_design Or2_propagate wis w.

(* what the inputs hold in a valuation *)
Definition ladder_ins (n : nat) (vs : list Z) : list Z := map (rd vs) (seq 1 n).

(* ------------------------------------------------------------------ list facts *)
Lemma rd_set_eq (l : list Z) i a : i < length l -> rd (set_nth l i a) i = a.
Proof. intros H. unfold rd. rewrite nth_set_nth by exact H. rewrite Nat.eqb_refl. reflexivity. Qed.
Lemma rd_set_ne (l : list Z) i j a : i <> j -> rd (set_nth l i a) j = rd l j.
Proof.
  intros H. unfold rd. destruct (Nat.lt_ge_cases j (length l)) as [Hlt|Hge].
  - rewrite nth_set_nth by exact Hlt. destruct (Nat.eqb_spec i j); [contradiction | reflexivity].
  - rewrite !nth_overflow; auto. rewrite set_nth_length. exact Hge.
Qed.
Lemma nth_repeat_lt (w : Z) m j : j < m -> nth j (repeat w m) 0%Z = w.
Proof. revert j. induction m as [|m IH]; intros [|j] H; cbn; try lia; auto. apply IH. lia. Qed.
Lemma nth_error_map_seq {B} (f : nat -> B) m i b : nth_error (map f (seq 0 m)) i = Some b -> i < m /\ b = f i.
Proof.
  intros H. assert (Hi : i < m).
  { rewrite <- (seq_length m 0), <- (map_length f). apply nth_error_Some. congruence. }
  split; [exact Hi|]. rewrite (nth_error_nth' _ (f 0)) in H by (rewrite map_length, seq_length; exact Hi).
  injection H as <-. rewrite map_nth, seq_nth by exact Hi. reflexivity.
Qed.
Lemma NoDup_map_on {B} (f : nat -> B) l : NoDup l -> (forall x y, In x l -> In y l -> f x = f y -> x = y) -> NoDup (map f l).
Proof.
  intros Hnd. induction Hnd as [|x l Hx Hl IH]; intros Hinj; cbn; constructor.
  - intros Hin. apply in_map_iff in Hin. destruct Hin as (y & Hy & Hyl). apply Hx.
    assert (Exy : x = y) by (apply Hinj; [left; reflexivity | right; exact Hyl | symmetry; exact Hy]).
    rewrite Exy. exact Hyl.
  - apply IH. intros a b Ha Hb. apply Hinj; right; assumption.
Qed.

(* ------------------------------------------------------------------ one leaf under the kernel *)
Lemma propagate1_leaf2 {St} (d : design St) g2 w vs a b o :
  propagate1 d vs (leaf2 g2 w a b o) = set_nth vs o (Wire_put (nth o (widths d) 0%Z) (g2 w (rd vs a) (rd vs b))).
Proof. reflexivity. Qed.
Lemma propagate1_leaf1 {St} (d : design St) w vs a o :
  propagate1 d vs (leaf1 w a o) = set_nth vs o (Wire_put (nth o (widths d) 0%Z) (Buf_propagate w (rd vs a))).
Proof. reflexivity. Qed.

Lemma put_and2 w a b : Wire_put w (And2_propagate w a b) = And2_propagate w a b.
Proof. change (And2_propagate w a b) with (And2_m w a b). rewrite And2_char, Wire_put_is_trunc. apply trunc_idem_any. Qed.
Lemma put_or2 w a b : Wire_put w (Or2_propagate w a b) = Or2_propagate w a b.
Proof. change (Or2_propagate w a b) with (Or2_m w a b). rewrite Or2_char, Wire_put_is_trunc. apply trunc_idem_any. Qed.
Lemma put_buf w a : Wire_put w (Buf_propagate w a) = Buf_propagate w a.
Proof. change (Buf_propagate w a) with (Buf_m w a). rewrite (Buf_char w a), Wire_put_is_trunc. apply trunc_idem_any. Qed.

(* ------------------------------------------------------------------ the ladder, by induction on the number of gates evaluated *)
Section Ladder.
Context {St : Type}.
Variable g2 : Z -> Z -> Z -> Z.
Variable w : Z.
Variable wis : list Z.
Definition put_closed : Prop := forall a b, Wire_put w (g2 w a b) = g2 w a b.
Let n := length wis.
Let D : design St := ladder_design g2 wis w.

Lemma ladder_widths_length : length (widths D) = if n <=? 2 then n + 2 else 2 * n + 1.
Proof.
  unfold D, ladder_design. cbn [widths]. fold n. rewrite !app_length. cbn [length]. fold n.
  destruct (Nat.leb_spec n 2); cbn [length]; [lia|]. rewrite repeat_length. lia.
Qed.

(* every wire a two-input gate of the ladder drives is w bits wide, exists, and is not an input *)
Lemma ladder_aux_facts k : 2 <= n -> k < n - 1 ->
  n < ladder_aux n (S k) /\ ladder_aux n (S k) < length (widths D) /\ nth (ladder_aux n (S k)) (widths D) 0%Z = w.
Proof.
  intros Hn Hk. rewrite ladder_widths_length. unfold ladder_aux. change (S k =? 0) with false. cbv iota.
  assert (Hw : forall j, j < (if n <=? 2 then 1 else n) -> nth (n + 1 + j) (widths D) 0%Z = w).
  { intros j Hj. unfold D, ladder_design. cbn [widths]. fold n.
    change ([1%Z] ++ wis ++ [w] ++ (if n <=? 2 then [] else repeat w (n - 1)))
      with ((1%Z :: wis) ++ (w :: (if n <=? 2 then [] else repeat w (n - 1)))).
    rewrite app_nth2 by (cbn [length]; fold n; lia). cbn [length]. fold n. replace (n + 1 + j - S n) with j by lia.
    destruct (Nat.leb_spec n 2).
    - destruct j; [reflexivity | lia].
    - replace (w :: repeat w (n - 1)) with (repeat w n) by (replace n with (S (n - 1)) at 1 by lia; reflexivity).
      apply nth_repeat_lt. exact Hj. }
  destruct (Nat.eqb_spec (S k) (n - 1)) as [E|E]; cbv iota.
  - split; [lia|]. split; [destruct (Nat.leb_spec n 2); lia|]. replace (n + 1) with (n + 1 + 0) by lia. apply Hw.
    destruct (Nat.leb_spec n 2); lia.
  - split; [lia|]. split; [destruct (Nat.leb_spec n 2); lia|]. apply Hw. destruct (Nat.leb_spec n 2); lia.
Qed.

Lemma ladder_prefix vs : put_closed -> 2 <= n -> length vs = length (widths D) -> forall k, k <= n - 1 ->
  let vs' := fold_left (propagate1 D) (map (ladder_leaf g2 w n) (seq 0 k)) vs in
  length vs' = length vs /\ (forall j, j <= n -> rd vs' j = rd vs j) /\
  rd vs' (ladder_aux n k) = fold_left (g2 w) (map (rd vs) (seq 2 k)) (rd vs 1).
Proof.
  intros Hput Hn Hlen. induction k as [|k IH]; intros Hk; cbv zeta.
  - cbn [seq map fold_left]. repeat split; reflexivity.
  - destruct (IH ltac:(lia)) as (IHlen & IHin & IHaux). clear IH.
    rewrite seq_S, map_app, fold_left_app. cbn [map fold_left plus].
    set (vs' := fold_left (propagate1 D) (map (ladder_leaf g2 w n) (seq 0 k)) vs) in *.
    destruct (ladder_aux_facts k Hn ltac:(lia)) as (Hgt & Hlt & Hwd).
    assert (Estep : propagate1 D vs' (ladder_leaf g2 w n k) =
                    set_nth vs' (ladder_aux n (S k)) (g2 w (rd vs' (ladder_aux n k)) (rd vs' (S (S k))))).
    { unfold ladder_leaf. rewrite propagate1_leaf2, Hwd, Hput. reflexivity. }
    rewrite Estep. clear Estep.
    split; [rewrite set_nth_length; exact IHlen|]. split.
    + intros j Hj. rewrite rd_set_ne by lia. apply IHin. exact Hj.
    + rewrite rd_set_eq by (rewrite IHlen, Hlen; exact Hlt).
      rewrite IHaux, (IHin (S (S k))) by lia.
      rewrite (seq_S k 2), map_app, fold_left_app. reflexivity.
Qed.

Lemma ladder_combs_ge2 : 2 <= n -> combs D = map (ladder_leaf g2 w n) (seq 0 (n - 1)).
Proof. intros Hn. unfold D, ladder_design. cbn [combs]. fold n. destruct n as [|[|m]]; try lia. reflexivity. Qed.

Lemma ladder_eval vs : put_closed -> 2 <= n -> length vs = length (widths D) ->
  rd (propagateAll D vs) (ladder_r n) = fold_left (g2 w) (map (rd vs) (seq 2 (n - 1))) (rd vs 1) /\
  (forall j, j <= n -> rd (propagateAll D vs) j = rd vs j) /\ length (propagateAll D vs) = length vs.
Proof.
  intros Hput Hn Hlen. unfold propagateAll. rewrite ladder_combs_ge2 by exact Hn.
  destruct (ladder_prefix vs Hput Hn Hlen (n - 1) (le_n _)) as (Hl & Hin & Haux).
  replace (ladder_aux n (n - 1)) with (ladder_r n) in Haux.
  - auto.
  - unfold ladder_aux, ladder_r. destruct (Nat.eqb_spec (n - 1) 0); [lia|]. rewrite Nat.eqb_refl. reflexivity.
Qed.

(* wellformedness: the evaluation list is in strict dependency order and every wire has one driver (C04's hypotheses) *)
Lemma ladder_aux_inj i j : 2 <= n -> i < n - 1 -> j < n - 1 -> ladder_aux n (S i) = ladder_aux n (S j) -> i = j.
Proof.
  intros Hn Hi Hj. unfold ladder_aux. change (S i =? 0) with false. change (S j =? 0) with false. cbv iota.
  destruct (Nat.eqb_spec (S i) (n - 1)), (Nat.eqb_spec (S j) (n - 1)); cbv iota; lia.
Qed.

Lemma ladder_ordered : ordered (combs D).
Proof.
  unfold D, ladder_design. cbn [combs]. fold n. destruct (Nat.lt_ge_cases n 2) as [Hlt|Hge].
  - destruct n as [|[|m]]; [| |lia].
    + intros i j a b Hi. destruct i; discriminate Hi.
    + intros i j a b Hi Hj (x & Ho & Hx). destruct i as [|i]; [|destruct i; discriminate Hi]. destruct j as [|j]; [|destruct j; discriminate Hj].
      injection Hi as <-. injection Hj as <-. cbn in Ho, Hx. lia.
  - replace (match n with 1 => [leaf1 w 1 2] | _ => map (ladder_leaf g2 w n) (seq 0 (n - 1)) end)
      with (map (ladder_leaf g2 w n) (seq 0 (n - 1))) by (destruct n as [|[|m]]; try lia; reflexivity).
    intros i j a b Hi Hj (x & Ho & Hx).
    apply nth_error_map_seq in Hi. destruct Hi as (Hi & ->). apply nth_error_map_seq in Hj. destruct Hj as (Hj & ->).
    cbn [ladder_leaf leaf2 c_out c_in In] in Ho, Hx. destruct Ho as [<- | []].
    destruct (ladder_aux_facts i Hge Hi) as (Hgt & _ & _).
    destruct Hx as [Hx | [Hx | []]]; [|lia].
    destruct j as [|j]; [change (ladder_aux n 0) with 1 in Hx; lia|].
    apply ladder_aux_inj in Hx; lia.
Qed.

Lemma ladder_single_driver : single_driver (combs D).
Proof.
  unfold single_driver, D, ladder_design. cbn [combs]. fold n. destruct (Nat.lt_ge_cases n 2) as [Hlt|Hge].
  - destruct n as [|[|m]]; [| |lia]; cbn; repeat constructor; cbn; tauto.
  - replace (match n with 1 => [leaf1 w 1 2] | _ => map (ladder_leaf g2 w n) (seq 0 (n - 1)) end)
      with (map (ladder_leaf g2 w n) (seq 0 (n - 1))) by (destruct n as [|[|m]]; try lia; reflexivity).
    assert (E : forall l, flat_map c_out (map (ladder_leaf g2 w n) l) = map (fun i => ladder_aux n (S i)) l).
    { induction l as [|x l IH]; [reflexivity|]. cbn [map flat_map]. rewrite IH. reflexivity. }
    rewrite E. apply NoDup_map_on; [apply seq_NoDup|].
    intros x y Hx Hy. apply in_seq in Hx. apply in_seq in Hy. apply ladder_aux_inj; lia.
Qed.

Lemma ladder_settled vs : settled D (propagateAll D vs).
Proof. apply propagateAll_settled; [apply ladder_ordered | apply ladder_single_driver]. Qed.
End Ladder.

(* ------------------------------------------------------------------ And / Or *)
Lemma one_input_eval {St} g2 wi w vs : length vs = 3 ->
  let D : design St := ladder_design g2 [wi] w in
  rd (propagateAll D vs) 2 = Buf_m w (rd vs 1) /\ (forall j, j <= 1 -> rd (propagateAll D vs) j = rd vs j) /\
  length (propagateAll D vs) = length vs.
Proof.
  intros Hlen D. unfold propagateAll, D, ladder_design. cbn [combs length fold_left]. rewrite propagate1_leaf1. cbn [widths app nth].
  rewrite put_buf. split; [apply rd_set_eq; lia|]. split; [intros j Hj; apply rd_set_ne; lia | apply set_nth_length].
Qed.

Lemma and_ladder_netlist_refines {St} wis w vs : wis <> [] ->
  let D : design St := and_ladder_design wis w in
  let n := length wis in
  length vs = length (widths D) ->
  rd (propagateAll D vs) (ladder_r n) = And_m w (ladder_ins n vs) /\
  (forall j, j <= n -> rd (propagateAll D vs) j = rd vs j) /\
  length (propagateAll D vs) = length vs /\ settled D (propagateAll D vs).
Proof.
  intros Hne D n Hlen. assert (Hs : settled D (propagateAll D vs)) by (apply ladder_settled).
  destruct wis as [|wi [|wi2 rest]]; [congruence | |].
  - destruct (one_input_eval (St := St) And2_propagate wi w vs Hlen) as (H1 & H2 & H3). repeat split; auto.
  - destruct (ladder_eval (St := St) And2_propagate w (wi :: wi2 :: rest) vs (put_and2 w)) as (H1 & H2 & H3); [cbn; lia | exact Hlen |].
    split; [|repeat split; assumption]. unfold n, D, and_ladder_design, or_ladder_design. rewrite H1. cbn [length Nat.sub]. unfold ladder_ins. cbn [seq map].
    unfold And_m. reflexivity.
Qed.

Lemma or_ladder_netlist_refines {St} wis w vs : wis <> [] ->
  let D : design St := or_ladder_design wis w in
  let n := length wis in
  length vs = length (widths D) ->
  rd (propagateAll D vs) (ladder_r n) = Or_m w (ladder_ins n vs) /\
  (forall j, j <= n -> rd (propagateAll D vs) j = rd vs j) /\
  length (propagateAll D vs) = length vs /\ settled D (propagateAll D vs).
Proof.
  intros Hne D n Hlen. assert (Hs : settled D (propagateAll D vs)) by (apply ladder_settled).
  destruct wis as [|wi [|wi2 rest]]; [congruence | |].
  - destruct (one_input_eval (St := St) Or2_propagate wi w vs Hlen) as (H1 & H2 & H3). repeat split; auto.
  - destruct (ladder_eval (St := St) Or2_propagate w (wi :: wi2 :: rest) vs (put_or2 w)) as (H1 & H2 & H3); [cbn; lia | exact Hlen |].
    split; [|repeat split; assumption]. unfold n, D, and_ladder_design, or_ladder_design. rewrite H1. cbn [length Nat.sub]. unfold ladder_ins. cbn [seq map].
    unfold Or_m. reflexivity.
Qed.

(* ... and therefore the C08 reference functions: AND / OR of what the input wires hold, cut to the result width *)
Lemma ladder_ins_ne n vs : n <> 0 -> ladder_ins n vs <> [].
Proof. destruct n; [congruence|]. discriminate. Qed.

Lemma and_ladder_netlist_spec {St} wis w vs : wis <> [] -> (0 <= w)%Z ->
  length vs = length (widths (and_ladder_design (St := St) wis w)) ->
  rd (propagateAll (and_ladder_design (St := St) wis w) vs) (ladder_r (length wis)) = and_spec w (ladder_ins (length wis) vs).
Proof.
  intros Hne Hw Hlen. destruct (and_ladder_netlist_refines (St := St) wis w vs Hne Hlen) as (H & _). rewrite H.
  apply And_correct; [exact Hw|]. apply ladder_ins_ne. destruct wis; [congruence | discriminate].
Qed.
Lemma or_ladder_netlist_spec {St} wis w vs : wis <> [] -> (0 <= w)%Z ->
  length vs = length (widths (or_ladder_design (St := St) wis w)) ->
  rd (propagateAll (or_ladder_design (St := St) wis w) vs) (ladder_r (length wis)) = or_spec w (ladder_ins (length wis) vs).
Proof.
  intros Hne Hw Hlen. destruct (or_ladder_netlist_refines (St := St) wis w vs Hne Hlen) as (H & _). rewrite H.
  apply Or_correct; [exact Hw|]. apply ladder_ins_ne. destruct wis; [congruence | discriminate].
Qed.

Lemma ladder_design_wellformed {St} g2 wis w :
  let D : design St := ladder_design g2 wis w in ordered (combs D) /\ single_driver (combs D).
Proof. split; [apply ladder_ordered | apply ladder_single_driver]. Qed.
