(* C08: Select / OneHotMux, OneHotDemux, SelectDefault, PriorityEncoder (both directions). *)
From V Require Import Base.Bits Gen.WireOps Gen.Prims Spec.C08 Model.StructLogic Proofs.C08.Prims Proofs.C08.Gates
  Proofs.C08.Minterm.

(* ------------------------------------------------------------------ one-hot mux / demux *)
Lemma gate_by_select wi s x : 0 <= wi -> fits wi x ->
  And2_m wi (Repeat_m wi s) x = if s =? 0 then 0 else x.
Proof.
  intros Hwi Hx. rewrite And2_char, Repeat_char by lia. destruct (s =? 0).
  - rewrite Z.land_0_l. apply trunc_small; [lia|]. pose proof (pow2_pos wi); lia.
  - rewrite <- mask_pow by lia. rewrite Z.land_comm. fold (trunc wi x). rewrite trunc_idem by lia.
    apply fits_trunc; auto.
Qed.

Lemma Forall_combine_snd {A B} (P : B -> Prop) (l : list A) (l' : list B) :
  Forall P l' -> Forall (fun p => P (snd p)) (combine l l').
Proof.
  intros H. revert l. induction H as [|x l' Hx Hl IH]; intros l; destruct l; cbn; constructor; auto.
Qed.

Lemma OneHotMux_correct wi wr sels ins : 0 <= wi -> 0 <= wr -> sels <> [] -> length sels = length ins ->
  Forall (fits wi) ins -> OneHotMux_m wi wr sels ins = onehot_mux_spec wr sels ins.
Proof.
  intros Hwi Hwr Hne Hlen Hf. unfold OneHotMux_m, onehot_mux_spec.
  rewrite Or_char_total by lia. rewrite trunc_mod by lia. f_equal. f_equal.
  apply map_ext_in. intros p Hp.
  pose proof (Forall_combine_snd (fits wi) sels ins Hf) as Hc. rewrite Forall_forall in Hc.
  apply gate_by_select; auto.
Qed.

(* with one-hot selects the OR of the gated inputs IS the selected input *)
Lemma onehot_selected sels ins k :
  length sels = length ins -> (k < length sels)%nat ->
  (forall j, (j < length sels)%nat -> nth j sels 0 = if Nat.eqb j k then 1 else 0) ->
  lor_all (map (fun p => if fst p =? 0 then 0 else snd p) (combine sels ins)) = nth k ins 0.
Proof.
  revert ins k. induction sels as [|s sels IH]; intros ins k Hlen Hk Hoh; [cbn in Hk; lia|].
  destruct ins as [|x ins]; [cbn in Hlen; lia|]. cbn [combine map fst snd].
  change (lor_all (?h :: ?t)) with (Z.lor h (lor_all t)).
  destruct k as [|k].
  - pose proof (Hoh 0%nat (Nat.lt_0_succ _)) as H0. cbn in H0. subst s. cbn [Z.eqb nth].
    assert (Hz : lor_all (map (fun p => if fst p =? 0 then 0 else snd p) (combine sels ins)) = 0).
    { clear IH Hk. assert (Hs : forall j, (j < length sels)%nat -> nth j sels 0 = 0).
      { intros j Hj. apply (Hoh (S j)). cbn; lia. }
      clear Hoh. revert ins Hlen Hs. induction sels as [|s' sels IH2]; intros ins Hlen Hs; [reflexivity|].
      destruct ins as [|y ins]; [reflexivity|]. cbn [combine map fst snd].
      change (lor_all (?h :: ?t)) with (Z.lor h (lor_all t)).
      rewrite (Hs 0%nat (Nat.lt_0_succ _) : s' = 0). cbn [Z.eqb]. rewrite Z.lor_0_l.
      apply IH2; [cbn in *; lia|]. intros j Hj. apply (Hs (S j)). cbn; lia. }
    rewrite Hz. apply Z.lor_0_r.
  - pose proof (Hoh 0%nat (Nat.lt_0_succ _)) as H0. cbn in H0. subst s. cbn [Z.eqb nth]. rewrite Z.lor_0_l.
    apply IH; [cbn in Hlen; lia | cbn in Hk; lia|]. intros j Hj. apply (Hoh (S j)). cbn; lia.
Qed.

Lemma OneHotDemux_correct wa wo a sels : 0 <= wo -> 0 <= wa -> fits wa a ->
  OneHotDemux_m wa wo a sels = onehot_demux_spec wo a sels.
Proof.
  intros Hwo Hwa Ha. unfold OneHotDemux_m, onehot_demux_spec. apply map_ext. intros s.
  rewrite And2_char, Repeat_char by lia. destruct (s =? 0).
  - rewrite Z.land_0_l. apply trunc_small; [lia|]. pose proof (pow2_pos wo); lia.
  - rewrite <- mask_pow by lia. rewrite Z.land_comm. fold (trunc wa a). rewrite (fits_trunc wa a) by auto.
    apply trunc_mod; lia.
Qed.

(* ------------------------------------------------------------------ SelectDefault *)
Lemma SelectDefault_char wr sels ins d : 0 <= wr ->
  SelectDefault_m wr sels ins d = trunc wr (first_selected sels ins d).
Proof.
  intros Hwr. unfold SelectDefault_m. revert ins. induction sels as [|s sels IH]; intros ins.
  - cbn. apply Buf_char.
  - destruct ins as [|x ins]; [cbn; apply Buf_char|].
    cbn [combine fold_right fst snd first_selected]. rewrite Mux2_char, IH.
    destruct (Z.odd s); [reflexivity | apply trunc_idem; lia].
Qed.
Lemma SelectDefault_correct wr sels ins d : 0 <= wr -> sels <> [] -> length sels = length ins ->
  SelectDefault_m wr sels ins d = select_default_spec wr sels ins d.
Proof. intros. rewrite SelectDefault_char by lia. apply trunc_mod; lia. Qed.

(* ------------------------------------------------------------------ PriorityEncoder *)
Lemma map_seq_shift {B} (f : nat -> B) n : map f (seq 1 n) = map (fun i => f (S i)) (seq 0 n).
Proof. rewrite <- seq_shift, map_map. reflexivity. Qed.

Lemma prio_chain_spec last t : is_bit last -> Forall is_bit t ->
  prio_chain 1 last t =
  map (fun i => b2z ((nth i t 0 =? 1) && ((last =? 0) && all_zero (firstn i t)))) (seq 0 (length t)).
Proof.
  intros Hl Ht. revert last Hl. induction Ht as [|x t Hx Ht IH]; intros last Hl; [reflexivity|].
  cbn [prio_chain length seq map]. f_equal.
  - cbn [nth firstn all_zero forallb]. destruct Hl as [-> | ->], Hx as [-> | ->]; reflexivity.
  - rewrite IH by (destruct Hl as [-> | ->], Hx as [-> | ->]; cbn; unfold is_bit; auto).
    rewrite map_seq_shift. apply map_ext. intros i. cbn [nth firstn]. unfold all_zero. cbn [forallb].
    destruct Hl as [-> | ->], Hx as [-> | ->]; cbn [Z.eqb andb]; try reflexivity;
      rewrite ?andb_false_r; reflexivity.
Qed.

Lemma prio_fwd_spec a : Forall is_bit a -> prio_fwd 1 a = prio_spec false a.
Proof.
  intros H. destruct H as [|x t Hx Ht]; [reflexivity|].
  unfold prio_spec. cbn [prio_fwd length seq map]. f_equal.
  - cbn [nth firstn all_zero forallb]. rewrite Buf_char. destruct Hx as [-> | ->]; reflexivity.
  - assert (E : Buf_m 1 x = x) by (rewrite Buf_char; destruct Hx as [-> | ->]; reflexivity).
    rewrite E, prio_chain_spec by auto. rewrite map_seq_shift. apply map_ext. intros i.
    cbn [nth firstn]. unfold all_zero. cbn [forallb]. rewrite (Z.eqb_sym 0 x). reflexivity.
Qed.

Lemma all_zero_rev l : all_zero (rev l) = all_zero l.
Proof.
  unfold all_zero. apply eq_true_iff_eq. rewrite !forallb_forall. split; intros H x Hx; apply H.
  - apply in_rev. rewrite rev_involutive. exact Hx.
  - apply in_rev in Hx. exact Hx.
Qed.

Lemma prio_spec_rev a : rev (prio_spec false (rev a)) = prio_spec true a.
Proof.
  unfold prio_spec. rewrite rev_length. set (n := length a).
  apply nth_ext with (d := 0) (d' := 0); [rewrite rev_length, !map_length; reflexivity|].
  intros k Hk. rewrite rev_length, map_length, seq_length in Hk.
  rewrite rev_nth by (rewrite map_length, seq_length; lia). rewrite map_length, seq_length.
  set (f := fun i => b2z ((nth i (rev a) 0 =? 1) && all_zero (firstn i (rev a)))).
  set (g := fun i => b2z ((nth i a 0 =? 1) && all_zero (skipn (S i) a))).
  rewrite (nth_indep (map f (seq 0 n)) 0 (f 0%nat)) by (rewrite map_length, seq_length; lia).
  rewrite (nth_indep (map g (seq 0 n)) 0 (g 0%nat)) by (rewrite map_length, seq_length; lia).
  rewrite !map_nth, !seq_nth by lia. cbn [plus]. unfold f, g.
  rewrite rev_nth by (fold n; lia). fold n. replace (n - S (n - S k))%nat with k by lia.
  rewrite firstn_rev, all_zero_rev. fold n. replace (n - (n - S k))%nat with (S k) by lia. reflexivity.
Qed.

Lemma PriorityEncoder_correct inc a : Forall is_bit a -> PriorityEncoder_m 1 inc a = prio_spec inc a.
Proof.
  intros H. unfold PriorityEncoder_m. destruct inc.
  - rewrite prio_fwd_spec by (apply Forall_rev; auto). apply prio_spec_rev.
  - apply prio_fwd_spec; auto.
Qed.

(* the encoder output is one-hot-or-zero and picks the highest-priority request: stated on the spec *)
Lemma prio_spec_at inc a i : (i < length a)%nat ->
  nth i (prio_spec inc a) 0 = b2z ((nth i a 0 =? 1) && all_zero (if inc then skipn (S i) a else firstn i a)).
Proof.
  intros Hi. unfold prio_spec.
  set (f := fun i => b2z ((nth i a 0 =? 1) && all_zero (if inc then skipn (S i) a else firstn i a))).
  rewrite (nth_indep (map f (seq 0 (length a))) 0 (f 0%nat)) by (rewrite map_length, seq_length; lia).
  rewrite map_nth, seq_nth by lia. reflexivity.
Qed.
