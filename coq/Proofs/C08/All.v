(* C08: composite statements used by Properties/C08.v and the refutation witnesses. *)
From V Require Import Base.Bits Gen.WireOps Gen.Prims Spec.C08 Model.StructLogic.
From V Require Export Proofs.C08.Prims Proofs.C08.Gates Proofs.C08.Minterm Proofs.C08.Mux Proofs.C08.Select
  Proofs.C08.Compare Proofs.C08.Concat Proofs.C08.Mixed.

(* under one-hot selects the one-hot mux returns exactly the selected input *)
Lemma OneHotMux_selected wi wr sels ins k : 0 <= wi -> 0 <= wr -> length sels = length ins -> (k < length sels)%nat ->
  Forall (fits wi) ins -> (forall j, (j < length sels)%nat -> nth j sels 0 = if Nat.eqb j k then 1 else 0) ->
  OneHotMux_m wi wr sels ins = nth k ins 0 mod 2 ^ wr.
Proof.
  intros Hwi Hwr Hlen Hk Hf Hoh. rewrite OneHotMux_correct; auto.
  - unfold onehot_mux_spec. rewrite (onehot_selected sels ins k) by auto. reflexivity.
  - destruct sels; cbn in Hk; [lia | congruence].
Qed.

(* priority encoder, read per output: output i is 1 iff request i is 1 and every request of higher priority is 0 *)
Lemma PriorityEncoder_at inc a i : Forall is_bit a -> (i < length a)%nat ->
  nth i (PriorityEncoder_m 1 inc a) 0 =
  b2z ((nth i a 0 =? 1) && all_zero (if inc then skipn (S i) a else firstn i a)).
Proof. intros H Hi. rewrite PriorityEncoder_correct by auto. apply prio_spec_at; auto. Qed.

Lemma signed_max_is_max mid w a b : 1 <= mid 1 1 1 -> 1 <= w -> fits w a -> fits w b ->
  sgn w (SignedMax2_m mid w w a b) = Z.max (sgn w a) (sgn w b) /\ sgn w (SignedMin2_m mid w w a b) = Z.min (sgn w a) (sgn w b).
Proof.
  intros. rewrite SignedMax2_correct, SignedMin2_correct by (auto; lia). split; [apply smax2_is_max | apply smin2_is_min]; auto.
Qed.

(* ---- the two width formulas of Xor2 (mid_a: before the repair of C08-xor2-wide-result, mid_max: after) and of Equal's xor wire *)
Lemma mid_ok_a : 1 <= mid_a 1 1 1.   Proof. unfold mid_a; lia. Qed.
Lemma mid_ok_max : 1 <= mid_max 1 1 1. Proof. unfold mid_max; lia. Qed.

Lemma Xor2_correct_a wa wb wr a b : 0 <= wr <= wa -> 0 <= wb -> fits wa a -> fits wb b -> Xor2_m mid_a wa wb wr a b = xor2_spec wr a b.
Proof. intros. apply Xor2_correct; auto; unfold mid_a; lia. Qed.
Lemma Xor2_correct_max wa wb wr a b : 0 <= wa -> 0 <= wb -> 0 <= wr -> fits wa a -> fits wb b -> Xor2_m mid_max wa wb wr a b = xor2_spec wr a b.
Proof. intros. apply Xor2_correct; auto; unfold mid_max; lia. Qed.
Lemma Xor_correct_a wi w ins : 0 <= w <= wi -> (2 <= length ins)%nat -> Forall (fits wi) ins -> Xor_m mid_a wi w ins = xor_spec w ins.
Proof. intros. apply Xor_correct; auto; unfold mid_a; lia. Qed.
Lemma Xor_correct_max wi w ins : 0 <= w -> 0 <= wi -> (2 <= length ins)%nat -> Forall (fits wi) ins -> Xor_m mid_max wi w ins = xor_spec w ins.
Proof. intros. apply Xor_correct; auto; unfold mid_max; lia. Qed.

(* Equal: a's width for the xor wire needs b no wider than a; the wider operand's width (on a Xor2 that fills it) needs nothing *)
Lemma Equal_correct_a mid wa wb a b : 1 <= wa -> 0 <= wb <= wa -> wa <= mid wa wb wa -> fits wa a -> fits wb b ->
  Equal_m mid eqw_a wa wb a b = equal_spec a b.
Proof. intros. apply Equal_correct; unfold eqw_a; auto; lia. Qed.
Lemma Equal_correct_max wa wb a b : 1 <= wa -> 1 <= wb -> fits wa a -> fits wb b ->
  Equal_m mid_max eqw_max wa wb a b = equal_spec a b.
Proof. intros. apply Equal_correct; unfold eqw_max, mid_max; auto; lia. Qed.

(* ---- refutations for the formulas of the unrepaired tree: configurations the constructors accept but for which the
   documented function is NOT computed *)
(* Xor2 with internal wires of a's width and a result wider than a: the bits at and above a's width come out as 1 *)
Lemma Xor2_before_repair_witness : exists wa wb wr a b, fits wa a /\ fits wb b /\ Xor2_m mid_a wa wb wr a b <> xor2_spec wr a b.
Proof. exists 1, 1, 2, 0, 0. unfold fits. repeat split; try (cbn; lia); vm_compute; discriminate. Qed.
(* Equal with an xor wire of a's width and b wider than a reports equality of a with the truncated b *)
Lemma Equal_before_repair_witness : exists wa wb a b, fits wa a /\ fits wb b /\ Equal_m mid_a eqw_a wa wb a b <> equal_spec a b.
Proof. exists 1, 2, 1, 3. unfold fits. repeat split; try (cbn; lia); vm_compute; discriminate. Qed.

(* ---- instances for the width formulas of the current /repo (mid_max, eqw_max): what Properties/C08.v states as headlines *)
Lemma AnyEqual_correct_max w wr ins : 1 <= w -> 1 <= wr -> (2 <= length ins)%nat -> Forall (fits w) ins ->
  AnyEqual_m mid_max eqw_max w wr ins = any_equal_spec ins.
Proof. intros. apply AnyEqual_correct; auto; unfold eqw_max, mid_max; lia. Qed.
Lemma ComparatorSU_correct_max w a b : 1 <= w -> fits w a -> fits w b -> ComparatorSU_m mid_max w a b = cmp_su_spec w a b.
Proof. intros. apply ComparatorSU_correct; auto. apply mid_ok_max. Qed.
Lemma SignedMax2_correct_max w wr a b : 1 <= w -> 0 <= wr -> fits w a -> fits w b -> SignedMax2_m mid_max w wr a b = smax2_spec w wr a b.
Proof. intros. apply SignedMax2_correct; auto. apply mid_ok_max. Qed.
Lemma SignedMin2_correct_max w wr a b : 1 <= w -> 0 <= wr -> fits w a -> fits w b -> SignedMin2_m mid_max w wr a b = smin2_spec w wr a b.
Proof. intros. apply SignedMin2_correct; auto. apply mid_ok_max. Qed.
Lemma signed_max_is_max_max w a b : 1 <= w -> fits w a -> fits w b ->
  sgn w (SignedMax2_m mid_max w w a b) = Z.max (sgn w a) (sgn w b) /\ sgn w (SignedMin2_m mid_max w w a b) = Z.min (sgn w a) (sgn w b).
Proof. intros. apply signed_max_is_max; auto. apply mid_ok_max. Qed.
