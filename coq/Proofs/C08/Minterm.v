(* C08: AND/OR over lists of 1-bit wires; Minterm, SumOfMinterms, EqualConstant, NotEqualConstant, Decoder, Demux,
   AndBits, OrBits. *)
From V Require Import Base.Bits Gen.WireOps Gen.Prims Spec.C08 Model.StructLogic Proofs.C08.Prims Proofs.C08.Gates.

(* ------------------------------------------------------------------ folds over bits *)
Lemma b2z_is_bit b : is_bit (b2z b).
Proof. destruct b; cbn; unfold is_bit; auto. Qed.
Lemma trunc_b2z w b : 1 <= w -> trunc w (b2z b) = b2z b.
Proof.
  intros. apply fits_trunc; [lia|]. apply (fits_le 1 w); [lia|]. apply is_bit_fits1, b2z_is_bit.
Qed.
Lemma trunc_is_bit w v : 1 <= w -> is_bit v -> trunc w v = v.
Proof. intros Hw H. apply fits_trunc; [lia|]. apply (fits_le 1 w); [lia|]. apply is_bit_fits1, H. Qed.

Lemma land_all_bits l : Forall is_bit l -> l <> [] -> land_all l = b2z (forallb (Z.eqb 1) l).
Proof.
  intros H. induction H as [|x l Hx Hl IH]; intros Hne; [congruence|].
  destruct l as [|y l].
  - cbn. rewrite Z.land_m1_r. destruct Hx as [-> | ->]; reflexivity.
  - change (land_all (x :: y :: l)) with (Z.land x (land_all (y :: l))). rewrite IH by congruence.
    change (forallb (Z.eqb 1) (x :: y :: l)) with ((1 =? x) && forallb (Z.eqb 1) (y :: l)).
    destruct Hx as [-> | ->]; destruct (forallb (Z.eqb 1) (y :: l)); reflexivity.
Qed.
Lemma lor_all_bits l : Forall is_bit l -> lor_all l = b2z (existsb (Z.eqb 1) l).
Proof.
  intros H. induction H as [|x l Hx Hl IH]; [reflexivity|].
  change (lor_all (x :: l)) with (Z.lor x (lor_all l)). rewrite IH. cbn [existsb].
  destruct Hx as [-> | ->]; destruct (existsb (Z.eqb 1) l); reflexivity.
Qed.
Lemma lor_all_b2z {A} (f : A -> bool) l : lor_all (map (fun x => b2z (f x)) l) = b2z (existsb f l).
Proof.
  induction l as [|x l IH]; [reflexivity|]. cbn [map existsb].
  change (lor_all (b2z (f x) :: map (fun x => b2z (f x)) l)) with (Z.lor (b2z (f x)) (lor_all (map (fun x => b2z (f x)) l))).
  rewrite IH. destruct (f x), (existsb f l); reflexivity.
Qed.

Lemma Or_char_total w l : 0 <= w -> Or_m w l = trunc w (lor_all l).
Proof.
  intros. destruct l as [|x l]; [|apply Or_char; [lia | congruence]].
  change (Or_m w []) with 0. change (lor_all []) with 0.
  symmetry. apply trunc_small; [lia|]. pose proof (pow2_pos w). lia.
Qed.

Lemma forallb_ext_in {A} (f g : A -> bool) l : (forall x, In x l -> f x = g x) -> forallb f l = forallb g l.
Proof.
  induction l as [|x l IH]; intros H; [reflexivity|]. cbn [forallb].
  rewrite (H x) by (left; reflexivity). rewrite IH; [reflexivity|]. intros; apply H; right; auto.
Qed.
Lemma forallb_map {A B} (f : B -> bool) (g : A -> B) l : forallb f (map g l) = forallb (fun x => f (g x)) l.
Proof. induction l as [|x l IH]; [reflexivity|]. cbn. rewrite IH. reflexivity. Qed.
Lemma existsb_map {A B} (f : B -> bool) (g : A -> B) l : existsb f (map g l) = existsb (fun x => f (g x)) l.
Proof. induction l as [|x l IH]; [reflexivity|]. cbn. rewrite IH. reflexivity. Qed.
Lemma existsb_negb_forallb {A} (f : A -> bool) l : existsb f l = negb (forallb (fun x => negb (f x)) l).
Proof. induction l as [|x l IH]; [reflexivity|]. cbn. rewrite IH. destruct (f x); reflexivity. Qed.

Lemma seqZ_in_iff a b i : In i (seqZ a b) <-> a <= i < b.
Proof.
  split; [apply seqZ_in|]. intros H. unfold seqZ. apply in_map_iff. exists (Z.to_nat (i - a)). split; [lia|].
  apply in_seq. lia.
Qed.

(* the bits of a and v agree below w  <->  a = v modulo 2^w *)
Lemma bits_agree_mod a v w : 0 <= w ->
  forallb (fun i => Bool.eqb (Z.testbit a i) (Z.testbit v i)) (seqZ 0 w) = (a mod 2 ^ w =? v mod 2 ^ w).
Proof.
  intros Hw. apply eq_true_iff_eq. rewrite forallb_forall, Z.eqb_eq. split.
  - intros H. apply Z.bits_inj'. intros i Hi. destruct (Z.ltb_spec i w).
    + rewrite !Z.mod_pow2_bits_low by lia. apply eqb_prop, H, seqZ_in_iff. lia.
    + rewrite !Z.mod_pow2_bits_high by lia. reflexivity.
  - intros E i Hi. apply seqZ_in_iff in Hi.
    rewrite <- (Z.mod_pow2_bits_low a w i), <- (Z.mod_pow2_bits_low v w i), E by lia. apply eqb_reflx.
Qed.

Lemma m1_mod w : 0 <= w -> (-1) mod 2 ^ w = 2 ^ w - 1.
Proof.
  intros. replace (-1) with (2 ^ w - 1 + (-1) * 2 ^ w) by lia.
  rewrite Z.mod_add by (apply Z.pow_nonzero; lia). apply Z.mod_small. pose proof (pow2_pos w). lia.
Qed.

(* ------------------------------------------------------------------ Minterm *)
Lemma Not1_bit b : is_bit b -> Not_m 1 b = b2z (b =? 0).
Proof. intros [-> | ->]; reflexivity. Qed.

Lemma minterm_parts_spec i v bits : 0 <= i -> Forall is_bit bits ->
  Forall is_bit (minterm_parts i v bits) /\ forallb (Z.eqb 1) (minterm_parts i v bits) = minterm_match i v bits.
Proof.
  intros Hi H. revert i Hi. induction H as [|b t Hb Ht IH]; intros i Hi; cbn [minterm_parts minterm_match forallb].
  - split; [constructor | reflexivity].
  - destruct (IH (i + 1) ltac:(lia)) as [IH1 IH2].
    change (Z.land (py_shr v i) 1) with (bitZ v i). rewrite bitZ_bit by lia.
    assert (Hv : is_bit (bit v i)) by apply bit_is_bit.
    split.
    + constructor; auto. destruct (bit v i =? 0); auto. rewrite Not1_bit by auto. apply b2z_is_bit.
    + rewrite IH2. f_equal. destruct Hv as [-> | ->]; cbn [Z.eqb].
      * rewrite Not1_bit by auto. destruct Hb as [-> | ->]; reflexivity.
      * destruct Hb as [-> | ->]; reflexivity.
Qed.

Lemma minterm_parts_nonempty i v bits : bits <> [] -> minterm_parts i v bits <> [].
Proof. destruct bits; cbn; congruence. Qed.

Lemma Minterm_correct wr v bits : 1 <= wr -> bits <> [] -> Forall is_bit bits ->
  Minterm_m wr v bits = minterm_spec v bits.
Proof.
  intros Hwr Hne Hb. unfold Minterm_m, minterm_spec.
  destruct (minterm_parts_spec 0 v bits ltac:(lia) Hb) as [H1 H2].
  rewrite And_char by (try lia; apply minterm_parts_nonempty; auto).
  rewrite land_all_bits by (auto; apply minterm_parts_nonempty; auto).
  rewrite H2. apply trunc_b2z; lia.
Qed.

(* Minterm over the bits of a wire = equality with the constant modulo 2^wa *)
Lemma minterm_match_bits a v p n : 0 <= p ->
  minterm_match p v (map (bit a) (seqZ p (p + Z.of_nat n))) =
  forallb (fun i => Bool.eqb (Z.testbit a i) (Z.testbit v i)) (seqZ p (p + Z.of_nat n)).
Proof.
  revert p. induction n as [|n IH]; intros p Hp.
  - rewrite seqZ_nil by lia. reflexivity.
  - rewrite seqZ_S. cbn [map minterm_match forallb]. rewrite IH by lia. f_equal.
    unfold bit. destruct (Z.testbit a p), (Z.testbit v p); reflexivity.
Qed.

Lemma Minterm_bits wa wr v a : 1 <= wa -> 1 <= wr ->
  Minterm_m wr v (BitsLSBF_m wa a) = b2z (a mod 2 ^ wa =? v mod 2 ^ wa).
Proof.
  intros Hwa Hwr. rewrite BitsLSBF_correct by lia. unfold bits_lsbf_spec.
  rewrite Minterm_correct; try lia.
  - unfold minterm_spec. f_equal. replace wa with (0 + Z.of_nat (Z.to_nat wa)) by lia.
    rewrite minterm_match_bits by lia. apply bits_agree_mod. lia.
  - replace wa with (0 + Z.of_nat (S (Z.to_nat (wa - 1)))) by lia. rewrite seqZ_S. cbn; congruence.
  - apply Forall_forall. intros x Hx. apply in_map_iff in Hx. destruct Hx as [i [<- _]]. apply bit_is_bit.
Qed.

(* ------------------------------------------------------------------ EqualConstant / NotEqualConstant *)
(* every constant, also one that does not fit the operand: it is compared modulo 2^wa *)
Lemma EqualConstant_general wa v a : 1 <= wa -> fits wa a -> EqualConstant_m wa 1 v a = b2z (a =? v mod 2 ^ wa).
Proof.
  intros Hwa Ha. unfold EqualConstant_m. destruct (Z.eqb_spec wa 1) as [-> | Hne].
  - apply fits1_is_bit in Ha. change (2 ^ 1) with 2. rewrite land_1_odd, mod2_odd.
    destruct (Z.odd v); cbn [b2z Z.eqb].
    + rewrite Buf_char. destruct Ha as [-> | ->]; reflexivity.
    + rewrite Not1_bit by auto. destruct Ha as [-> | ->]; reflexivity.
  - rewrite Minterm_bits by lia. rewrite (fits_mod wa a) by (auto; lia). reflexivity.
Qed.
Lemma EqualConstant_correct wa v a : 1 <= wa -> fits wa a -> fits wa v -> EqualConstant_m wa 1 v a = equal_spec a v.
Proof.
  intros Hwa Ha Hv. rewrite EqualConstant_general; auto.
  rewrite (fits_mod wa v) by (auto; lia). reflexivity.
Qed.
Lemma NotEqualConstant_correct wa v a : 1 <= wa -> fits wa a -> fits wa v ->
  NotEqualConstant_m wa 1 v a = not_equal_spec a v.
Proof.
  intros. unfold NotEqualConstant_m. rewrite EqualConstant_correct by auto. unfold equal_spec, not_equal_spec.
  destruct (a =? v); reflexivity.
Qed.

(* ------------------------------------------------------------------ SumOfMinterms *)
Lemma SumOfMinterms_correct wa wr a ms : 1 <= wa -> 1 <= wr -> ms <> [] -> fits wa a ->
  SumOfMinterms_m wa wr a ms = sum_of_minterms_spec wa a ms.
Proof.
  intros Hwa Hwr Hne Ha. unfold SumOfMinterms_m, sum_of_minterms_spec. cbv zeta.
  rewrite Or_char_total by lia.
  erewrite map_ext by (intros m; apply Minterm_bits; lia).
  rewrite (fits_mod wa a) by (auto; lia).
  rewrite (lor_all_b2z (fun m => a =? m mod 2 ^ wa)). apply trunc_b2z; lia.
Qed.

(* ------------------------------------------------------------------ Decoder / Demux *)
Lemma Decoder_correct wa n a : 1 <= wa -> fits wa a -> 0 <= n <= 2 ^ wa -> Decoder_m wa n a = decoder_spec n a.
Proof.
  intros Hwa Ha Hn. unfold Decoder_m, decoder_spec. apply map_ext_in. intros i Hi. apply seqZ_in in Hi.
  apply EqualConstant_correct; auto. unfold fits; lia.
Qed.

Lemma Demux_correct wa wsel a sel : 0 <= wa -> 1 <= wsel -> fits wa a -> fits wsel sel ->
  Demux_m wa wsel a sel = demux_spec wsel a sel.
Proof.
  intros Hwa Hws Ha Hs. unfold Demux_m, demux_spec.
  rewrite Decoder_correct; auto; [|pose proof (pow2_pos wsel); lia].
  unfold decoder_spec. rewrite map_map. apply map_ext. intros i.
  rewrite BufEnable_correct by lia. unfold bufenable_spec. rewrite (fits_mod wa a) by auto.
  destruct (sel =? i); reflexivity.
Qed.

(* ------------------------------------------------------------------ AndBits / OrBits *)
Lemma bits_lsbf_is_bit wa a : Forall is_bit (bits_lsbf_spec wa a).
Proof.
  apply Forall_forall. intros x Hx. apply in_map_iff in Hx. destruct Hx as [i [<- _]]. apply bit_is_bit.
Qed.
Lemma bits_lsbf_nonempty wa a : 1 <= wa -> bits_lsbf_spec wa a <> [].
Proof.
  intros. unfold bits_lsbf_spec. replace wa with (0 + Z.of_nat (S (Z.to_nat (wa - 1)))) by lia.
  rewrite seqZ_S. cbn; congruence.
Qed.

Lemma AndBits_correct wa wr a : 1 <= wa -> 1 <= wr -> fits wa a -> AndBits_m wa wr a = andbits_spec wa a.
Proof.
  intros Hwa Hwr Ha. unfold AndBits_m, andbits_spec. rewrite BitsLSBF_correct by lia.
  rewrite And_char by (try lia; apply bits_lsbf_nonempty; lia).
  rewrite land_all_bits by (try apply bits_lsbf_is_bit; apply bits_lsbf_nonempty; lia).
  rewrite trunc_b2z by lia. f_equal. unfold bits_lsbf_spec. rewrite forallb_map.
  replace (a =? 2 ^ wa - 1) with (a mod 2 ^ wa =? (-1) mod 2 ^ wa) by (rewrite (fits_mod wa a), m1_mod by (auto; lia); reflexivity).
  rewrite <- bits_agree_mod by lia.
  apply forallb_ext_in. intros i Hi. apply seqZ_in in Hi. rewrite Z.bits_m1 by lia.
  unfold bit. destruct (Z.testbit a i); reflexivity.
Qed.

Lemma OrBits_correct wa wr a : 1 <= wa -> 1 <= wr -> fits wa a -> OrBits_m wa wr a = orbits_spec a.
Proof.
  intros Hwa Hwr Ha. unfold OrBits_m, orbits_spec. rewrite BitsLSBF_correct by lia.
  rewrite Or_char_total by lia. rewrite lor_all_bits by apply bits_lsbf_is_bit.
  rewrite trunc_b2z by lia. f_equal. unfold bits_lsbf_spec. rewrite existsb_map, existsb_negb_forallb. f_equal.
  replace (a =? 0) with (a mod 2 ^ wa =? 0 mod 2 ^ wa)
    by (rewrite (fits_mod wa a), Z.mod_0_l by (auto; try lia; apply Z.pow_nonzero; lia); reflexivity).
  rewrite <- bits_agree_mod by lia.
  apply forallb_ext_in. intros i Hi. rewrite Z.bits_0.
  unfold bit. destruct (Z.testbit a i); reflexivity.
Qed.
