(* C08: gates, n-ary ladders, reductions, bit manipulation. *)
From V Require Import Base.Bits Gen.WireOps Gen.Prims Spec.C08 Model.StructLogic Proofs.C08.Prims.

(* ------------------------------------------------------------------ 1- and 2-input gates *)
Lemma Buf_correct w a : 0 <= w -> Buf_m w a = buf_spec w a.
Proof. intros. rewrite Buf_char. apply trunc_mod; lia. Qed.
Lemma Not_correct w a : 0 <= w -> Not_m w a = not_spec w a.
Proof. intros. rewrite Not_char. apply trunc_lnot_sub; lia. Qed.
Lemma Constant_correct w c : 0 <= w -> Constant_m w c = constant_spec w c.
Proof. intros. rewrite Constant_char. apply trunc_mod; lia. Qed.
Lemma And2_correct w a b : 0 <= w -> And2_m w a b = and2_spec w a b.
Proof. intros. rewrite And2_char. apply trunc_mod; lia. Qed.
Lemma Or2_correct w a b : 0 <= w -> Or2_m w a b = or2_spec w a b.
Proof. intros. rewrite Or2_char. apply trunc_mod; lia. Qed.

Lemma land_trunc_out w a b : 0 <= w -> Z.land (trunc w a) b = trunc w (Z.land a b).
Proof. intros; bitwise. Qed.
Lemma land_fits_l w a b : 0 <= w -> fits w a -> fits w (Z.land a b).
Proof.
  intros Hw Ha. rewrite <- (fits_trunc w a Hw Ha). rewrite land_trunc_out by lia. apply trunc_fits; lia.
Qed.
Lemma lor_fits w a b : 0 <= w -> fits w a -> fits w b -> fits w (Z.lor a b).
Proof.
  intros Hw Ha Hb. rewrite <- (fits_trunc w a Hw Ha), <- (fits_trunc w b Hw Hb). rewrite <- trunc_lor by lia.
  apply trunc_fits; lia.
Qed.

Lemma Nand2_char wa wr a b : 0 <= wa -> fits wa a -> Nand2_m wa wr a b = trunc wr (Z.lnot (Z.land a b)).
Proof.
  intros Hwa Ha. unfold Nand2_m. rewrite Not_char, And2_char.
  rewrite (fits_trunc wa (Z.land a b)); auto. apply land_fits_l; auto.
Qed.
Lemma Nand2_correct wa wr a b : 0 <= wa -> 0 <= wr -> fits wa a -> Nand2_m wa wr a b = nand2_spec wr a b.
Proof. intros. rewrite Nand2_char by auto. apply trunc_lnot_sub; lia. Qed.

Lemma Nor2_correct wa wr a b : 0 <= wa -> 0 <= wr -> fits wa a -> fits wa b -> Nor2_m wa wr a b = nor2_spec wr a b.
Proof.
  intros Hwa Hwr Ha Hb. unfold Nor2_m. rewrite Not_char, Or2_char.
  rewrite (fits_trunc wa (Z.lor a b)); auto using lor_fits. apply trunc_lnot_sub; lia.
Qed.

(* Xor2 from four NANDs whose internal wires are wm = mid wa wb wr bits wide: exact as soon as the result is no wider than
   the internal wires.  (mid_a: wr <= wa, the unrepaired tree; mid_max: always.) *)
Lemma Xor2_char mid wa wb wr a b : 0 <= wa -> 0 <= wb -> 0 <= wr <= mid wa wb wr -> fits wa a -> fits wb b ->
  Xor2_m mid wa wb wr a b = trunc wr (Z.lxor a b).
Proof.
  intros Hwa Hwb Hw Ha Hb. unfold Xor2_m, Nand2_m. cbv zeta. set (wm := mid wa wb wr) in *. rewrite !Not_char, !And2_char.
  rewrite <- (fits_trunc wa a) by (auto; lia). rewrite <- (fits_trunc wb b) by (auto; lia).
  generalize a b; clear a b Ha Hb; intros a b.
  bitwise.
Qed.
Lemma Xor2_correct mid wa wb wr a b : 0 <= wa -> 0 <= wb -> 0 <= wr <= mid wa wb wr -> fits wa a -> fits wb b ->
  Xor2_m mid wa wb wr a b = xor2_spec wr a b.
Proof. intros. rewrite Xor2_char by auto. apply trunc_mod; lia. Qed.

(* what Xor2 computes in general: the bits of the result at and above the internal width are all ones *)
Lemma Xor2_general mid wa wb wr a b : 0 <= wa -> 0 <= wb -> 0 <= wr -> 0 <= mid wa wb wr -> fits wa a -> fits wb b ->
  Xor2_m mid wa wb wr a b = trunc wr (Z.lnot (trunc (mid wa wb wr) (Z.lnot (Z.lxor a b)))).
Proof.
  intros Hwa Hwb Hwr Hwm Ha Hb. unfold Xor2_m, Nand2_m. cbv zeta. set (wm := mid wa wb wr) in *. rewrite !Not_char, !And2_char.
  rewrite <- (fits_trunc wa a) by (auto; lia). rewrite <- (fits_trunc wb b) by (auto; lia).
  generalize a b; clear a b Ha Hb; intros a b.
  bitwise.
Qed.

(* the two formulas: the guard of Xor2_char under each *)
Lemma mid_a_guard wa wb wr : wr <= wa -> wr <= mid_a wa wb wr.
Proof. unfold mid_a; lia. Qed.
Lemma mid_max_guard wa wb wr : wr <= mid_max wa wb wr.
Proof. unfold mid_max; lia. Qed.

(* ------------------------------------------------------------------ ladders *)
Section Ladder.
Variable op : Z -> Z -> Z.
Variable w : Z.
Hypothesis Hw : 0 <= w.
Hypothesis op_trunc_l : forall a b, trunc w (op (trunc w a) b) = trunc w (op a b).

Lemma ladder_fold rest a :
  fold_left (fun acc x => trunc w (op acc x)) rest (trunc w a) = trunc w (fold_left op rest a).
Proof.
  revert a. induction rest as [|x rest IH]; intros a; cbn [fold_left]; [reflexivity|].
  rewrite op_trunc_l. apply IH.
Qed.
End Ladder.

Lemma fold_land_all a rest : fold_left Z.land rest a = land_all (a :: rest).
Proof.
  unfold land_all. rewrite <- fold_symmetric.
  - cbn [fold_left]. rewrite Z.land_m1_l. reflexivity.
  - intros; apply Z.land_assoc.
  - intros; apply Z.land_comm.
Qed.
Lemma fold_lor_all a rest : fold_left Z.lor rest a = lor_all (a :: rest).
Proof.
  unfold lor_all. rewrite <- fold_symmetric.
  - cbn [fold_left]. rewrite Z.lor_0_l. reflexivity.
  - intros; apply Z.lor_assoc.
  - intros; apply Z.lor_comm.
Qed.
Lemma fold_lxor_all a rest : fold_left Z.lxor rest a = lxor_all (a :: rest).
Proof.
  unfold lxor_all. rewrite <- fold_symmetric.
  - cbn [fold_left]. rewrite Z.lxor_0_l. reflexivity.
  - intros; symmetry; apply Z.lxor_assoc.
  - intros; apply Z.lxor_comm.
Qed.

Lemma And_char w ins : 0 <= w -> ins <> [] -> And_m w ins = trunc w (land_all ins).
Proof.
  intros Hw Hne. destruct ins as [|a [|b rest]]; [congruence | |].
  - rewrite <- fold_land_all. cbn [And_m fold_left]. apply Buf_char.
  - rewrite <- fold_land_all. unfold And_m. cbn [fold_left].
    rewrite (And2_char w a b).
    rewrite (fold_left_ext (fun acc x => And2_m w acc x) (fun acc x => trunc w (Z.land acc x))) by (intros; apply And2_char).
    apply ladder_fold; intros; apply trunc_land_l; lia.
Qed.
Lemma And_correct w ins : 0 <= w -> ins <> [] -> And_m w ins = and_spec w ins.
Proof. intros. rewrite And_char by auto. apply trunc_mod; lia. Qed.

Lemma Or_char w ins : 0 <= w -> ins <> [] -> Or_m w ins = trunc w (lor_all ins).
Proof.
  intros Hw Hne. destruct ins as [|a [|b rest]]; [congruence | |].
  - rewrite <- fold_lor_all. cbn [Or_m fold_left]. apply Buf_char.
  - rewrite <- fold_lor_all. unfold Or_m. cbn [fold_left].
    rewrite (Or2_char w a b).
    rewrite (fold_left_ext (fun acc x => Or2_m w acc x) (fun acc x => trunc w (Z.lor acc x))) by (intros; apply Or2_char).
    apply ladder_fold; intros; apply trunc_lor_l; lia.
Qed.
Lemma Or_correct w ins : 0 <= w -> ins <> [] -> Or_m w ins = or_spec w ins.
Proof. intros. rewrite Or_char by auto. apply trunc_mod; lia. Qed.

Lemma lor_all_fits w ins : 0 <= w -> Forall (fits w) ins -> fits w (lor_all ins).
Proof.
  intros Hw H. induction H as [|x l Hx Hl IH]; cbn.
  - split; [lia | apply pow2_pos; lia].
  - apply lor_fits; auto.
Qed.

Lemma Nor_correct w0 wr ins : 0 <= w0 -> 0 <= wr -> ins <> [] -> Forall (fits w0) ins ->
  Nor_m w0 wr ins = nor_spec wr ins.
Proof.
  intros Hw0 Hwr Hne Hf. unfold Nor_m. rewrite Not_char, Or_char by auto.
  rewrite (fits_trunc w0) by auto using lor_all_fits. apply trunc_lnot_sub; lia.
Qed.

(* Xor ladder: inputs of width wi, result (and intermediate wires) of width w; the first Xor2 is (wi, wi, w), the others (w, wi, w) *)
Lemma xor_ladder mid wi w rest acc : 0 <= w -> 0 <= wi -> w <= mid w wi w -> Forall (fits wi) rest ->
  fold_left (fun acc x => Xor2_m mid w wi w acc x) rest (trunc w acc) = trunc w (fold_left Z.lxor rest acc).
Proof.
  intros Hw Hwi Hm Hf. revert acc. induction Hf as [|x rest Hx Hrest IH]; intros acc; cbn [fold_left]; [reflexivity|].
  rewrite Xor2_char by (auto using trunc_fits; lia). rewrite trunc_lxor_l by lia. apply IH.
Qed.
Lemma Xor_char mid wi w ins : 0 <= w -> 0 <= wi -> w <= mid wi wi w -> w <= mid w wi w -> (2 <= length ins)%nat ->
  Forall (fits wi) ins -> Xor_m mid wi w ins = trunc w (lxor_all ins).
Proof.
  intros Hw Hwi Hm1 Hm2 Hlen Hf. destruct ins as [|a [|b rest]]; cbn [length] in Hlen; try lia.
  inversion Hf as [|? ? Ha Hf1]; subst. inversion Hf1 as [|? ? Hb Hrest]; subst.
  rewrite <- fold_lxor_all. unfold Xor_m. cbn [fold_left].
  rewrite Xor2_char by (auto; lia). apply xor_ladder; auto; lia.
Qed.
Lemma Xor_correct mid wi w ins : 0 <= w -> 0 <= wi -> w <= mid wi wi w -> w <= mid w wi w -> (2 <= length ins)%nat ->
  Forall (fits wi) ins -> Xor_m mid wi w ins = xor_spec w ins.
Proof. intros. rewrite Xor_char by auto. apply trunc_mod; lia. Qed.

(* ------------------------------------------------------------------ bit split, bit, range, repeat, enable *)
Lemma BitsLSBF_correct wa a : 0 <= wa -> BitsLSBF_m wa a = bits_lsbf_spec wa a.
Proof.
  intros Hwa. unfold BitsLSBF_m, bits_lsbf_spec. rewrite BitsLSBF_char.
  apply map_ext_in. intros i Hi. apply seqZ_in in Hi.
  rewrite getZ_ones1 by lia. rewrite bitZ_bit by lia.
  apply fits_trunc; [lia | apply is_bit_fits1, bit_is_bit].
Qed.

Lemma rev_seqZ_map (f : Z -> Z) w : 0 <= w -> rev (map f (seqZ 0 w)) = map (fun i => f (w - 1 - i)) (seqZ 0 w).
Proof.
  intros Hw. apply nth_ext with (d := 0) (d' := 0).
  - rewrite rev_length, !map_length. reflexivity.
  - intros k Hk. rewrite rev_length, map_length, seqZ_length in Hk.
    rewrite rev_nth by (rewrite map_length, seqZ_length; lia). rewrite map_length, seqZ_length.
    rewrite nth_indep with (d' := f 0) by (rewrite map_length, seqZ_length; lia). rewrite map_nth.
    pose proof (map_nth (fun i => f (w - 1 - i)) (seqZ 0 w) 0 k) as E. cbv beta in E.
    rewrite (nth_indep (map (fun i => f (w - 1 - i)) (seqZ 0 w)) 0 (f (w - 1 - 0))) by (rewrite map_length, seqZ_length; lia).
    rewrite E. rewrite !seqZ_nth by lia. f_equal. lia.
Qed.

Lemma BitsMSBF_correct wa a : 0 <= wa -> BitsMSBF_m wa a = bits_msbf_spec wa a.
Proof.
  intros Hwa. unfold BitsMSBF_m, bits_msbf_spec.
  rewrite BitsMSBF_char, <- BitsLSBF_char.
  fold (BitsLSBF_m wa a). rewrite BitsLSBF_correct by lia. unfold bits_lsbf_spec. apply rev_seqZ_map; lia.
Qed.

Lemma Bit_correct i a : 0 <= i -> Bit_m 1 i a = bit_spec a i.
Proof. intros; apply Bit_char1; auto. Qed.
Lemma Range_correct hi lo a : 0 <= lo <= hi -> Range_m (hi - lo + 1) hi lo a = range_spec hi lo a.
Proof.
  intros. rewrite Range_char by lia. apply fits_trunc; [lia|]. unfold range_spec, fits.
  apply Z.mod_pos_bound, pow2_pos; lia.
Qed.
Lemma Repeat_correct w i : 0 <= w -> Repeat_m w i = replicate_spec w i.
Proof. intros; apply Repeat_char; auto. Qed.
Lemma BufEnable_correct w a en : 0 <= w -> BufEnable_m w a en = bufenable_spec w a en.
Proof.
  intros Hw. unfold BufEnable_m, bufenable_spec. rewrite And2_char, Repeat_char by lia.
  destruct (en =? 0).
  - rewrite Z.land_0_r. apply trunc_small; [lia|]. pose proof (pow2_pos w); lia.
  - rewrite <- mask_pow by lia. fold (trunc w a). rewrite trunc_idem by lia. apply trunc_mod; lia.
Qed.
