(* C08: PriorityEncoder on requests of ANY width.
   `PriorityEncoder.__init__` (py4hw/logic/bitwise.py) does not look at the widths of a[i] / r[i] at all: it accepts every list of
   wires (only len(a) == len(r) is asserted).  Model/StructLogic.v `PriorityEncoder_m w` is the construction with every wire w bits
   wide; Proofs/C08/Select.v proves it for w = 1.  Here: for EVERY w >= 0 the block is the BITWISE priority encoder
        r_i = a_i & ~(OR of the requests of higher priority)          (cut to w bits)
   i.e. w independent 1-bit priority encoders side by side (`PriorityEncoder_bit_slice`), with no guard on the inputs.
   Second part: requests / results of DIFFERENT widths (the constructor accepts them as well): the internal `last` chain takes the
   width w0 of the highest-priority request (hw_buf / hw_or2 / hw_not size their result from their first operand), so result i >= 1
   is cut to min(w0, width of r_i) bits: exact when no later request is wider than the first one, refuted otherwise. *)
From V Require Import Base.Bits Gen.WireOps Gen.Prims Spec.C08 Model.StructLogic Proofs.C08.Prims Proofs.C08.Gates
  Proofs.C08.Minterm Proofs.C08.Select.

(* the reference function for w-bit requests: bitwise "request and no request of higher priority" *)
Definition prio_wide_spec (w : Z) (inc : bool) (a : list Z) : list Z :=
  map (fun i => Z.land (nth i a 0) (Z.lnot (lor_all (if inc then skipn (S i) a else firstn i a))) mod 2 ^ w) (seq 0 (length a)).

(* ------------------------------------------------------------------ the chain, any width *)
Lemma prio_chain_wide w : 0 <= w -> forall t L,
  prio_chain w (trunc w L) t =
  map (fun i => trunc w (Z.land (nth i t 0) (Z.lnot (Z.lor L (lor_all (firstn i t)))))) (seq 0 (length t)).
Proof.
  intros Hw. induction t as [|x t IH]; intros L; [reflexivity|].
  cbn [prio_chain length seq map]. f_equal.
  - cbn [nth firstn lor_all fold_right]. rewrite Z.lor_0_r, And2_char, Not_char.
    rewrite trunc_lnot_trunc by lia. apply trunc_land_r; lia.
  - rewrite Or2_char, trunc_lor_l by lia. rewrite IH. rewrite map_seq_shift. apply map_ext. intros i.
    cbn [nth firstn lor_all fold_right]. rewrite Z.lor_assoc. reflexivity.
Qed.

Lemma prio_fwd_wide w a : 0 <= w ->
  prio_fwd w a = map (fun i => trunc w (Z.land (nth i a 0) (Z.lnot (lor_all (firstn i a))))) (seq 0 (length a)).
Proof.
  intros Hw. destruct a as [|x t]; [reflexivity|].
  cbn [prio_fwd length seq map]. f_equal.
  - cbn [nth firstn lor_all fold_right]. rewrite Buf_char. change (Z.lnot 0) with (-1). rewrite Z.land_m1_r. reflexivity.
  - rewrite Buf_char, prio_chain_wide by lia. rewrite map_seq_shift. apply map_ext. intros i. reflexivity.
Qed.

Lemma lor_all_testbit l k : Z.testbit (lor_all l) k = existsb (fun v => Z.testbit v k) l.
Proof. induction l as [|x l IH]; cbn [lor_all fold_right existsb]; [apply Z.bits_0|]. fold (lor_all l). rewrite Z.lor_spec, IH. reflexivity. Qed.

Lemma existsb_rev {A} (f : A -> bool) l : existsb f (rev l) = existsb f l.
Proof.
  apply eq_true_iff_eq. rewrite !existsb_exists. split; intros (x & Hx & Hf); exists x; split; auto.
  - apply in_rev. exact Hx.
  - apply in_rev in Hx. exact Hx.
Qed.

Lemma lor_all_rev l : lor_all (rev l) = lor_all l.
Proof. apply Z.bits_inj'. intros k _. rewrite !lor_all_testbit. apply existsb_rev. Qed.

(* reversing both lists turns "the requests before i" into "the requests after i" *)
Lemma rev_indexed (h : Z -> list Z -> Z) a : (forall x l, h x (rev l) = h x l) ->
  rev (map (fun i => h (nth i (rev a) 0) (firstn i (rev a))) (seq 0 (length (rev a)))) =
  map (fun i => h (nth i a 0) (skipn (S i) a)) (seq 0 (length a)).
Proof.
  intros Hrev. rewrite rev_length. set (n := length a).
  apply nth_ext with (d := 0) (d' := 0); [rewrite rev_length, !map_length; reflexivity|].
  intros k Hk. rewrite rev_length, map_length, seq_length in Hk.
  rewrite rev_nth by (rewrite map_length, seq_length; lia). rewrite map_length, seq_length.
  set (f := fun i => h (nth i (rev a) 0) (firstn i (rev a))).
  set (g := fun i => h (nth i a 0) (skipn (S i) a)).
  rewrite (nth_indep (map f (seq 0 n)) 0 (f 0%nat)) by (rewrite map_length, seq_length; lia).
  rewrite (nth_indep (map g (seq 0 n)) 0 (g 0%nat)) by (rewrite map_length, seq_length; lia).
  rewrite !map_nth, !seq_nth by lia. cbn [plus]. unfold f, g.
  rewrite rev_nth by (fold n; lia). fold n. replace (n - S (n - S k))%nat with k by lia.
  rewrite firstn_rev, Hrev. fold n. replace (n - (n - S k))%nat with (S k) by lia. reflexivity.
Qed.

Lemma PriorityEncoder_wide w inc a : 0 <= w -> PriorityEncoder_m w inc a = prio_wide_spec w inc a.
Proof.
  intros Hw. unfold PriorityEncoder_m, prio_wide_spec. destruct inc.
  - rewrite prio_fwd_wide by lia.
    rewrite (rev_indexed (fun x l => trunc w (Z.land x (Z.lnot (lor_all l)))) a) by (intros x l; rewrite lor_all_rev; reflexivity).
    apply map_ext. intros i. apply trunc_mod; lia.
  - rewrite prio_fwd_wide by lia. apply map_ext. intros i. apply trunc_mod; lia.
Qed.

(* the 1-bit statement of Select.v is the instance w = 1 of the wide one *)
Lemma all_zero_lor_all l : Forall is_bit l -> lor_all l = b2z (negb (all_zero l)).
Proof.
  intros H. induction H as [|x l Hx Hl IH]; [reflexivity|].
  cbn [lor_all fold_right]. fold (lor_all l). rewrite IH. unfold all_zero. cbn [forallb]. fold (all_zero l).
  destruct Hx as [-> | ->]; destruct (all_zero l); reflexivity.
Qed.
Lemma Forall_firstn {A} (P : A -> Prop) n l : Forall P l -> Forall P (firstn n l).
Proof. intros H. revert n. induction H as [|x l Hx Hl IH]; intros [|n]; cbn; auto. Qed.
Lemma Forall_skipn {A} (P : A -> Prop) n l : Forall P l -> Forall P (skipn n l).
Proof. intros H. revert n. induction H as [|x l Hx Hl IH]; intros [|n]; cbn; auto. Qed.
Lemma Forall_nth_bit l i : Forall is_bit l -> is_bit (nth i l 0).
Proof. intros H. revert i. induction H as [|x l Hx Hl IH]; intros [|i]; cbn; auto; left; reflexivity. Qed.

Lemma prio_wide_spec_1 inc a : Forall is_bit a -> prio_wide_spec 1 inc a = prio_spec inc a.
Proof.
  intros H. unfold prio_wide_spec, prio_spec. apply map_ext. intros i.
  assert (Hl : Forall is_bit (if inc then skipn (S i) a else firstn i a)) by (destruct inc; [apply Forall_skipn | apply Forall_firstn]; auto).
  rewrite (all_zero_lor_all _ Hl). destruct (Forall_nth_bit a i H) as [-> | ->];
    destruct (all_zero (if inc then skipn (S i) a else firstn i a)); reflexivity.
Qed.

(* bit k of every result = the 1-bit encoder on bit k of every request *)
Lemma PriorityEncoder_bit_slice w inc a k : 0 <= k < w ->
  map (fun v => bit v k) (PriorityEncoder_m w inc a) = prio_spec inc (map (fun v => bit v k) a).
Proof.
  intros Hk. rewrite PriorityEncoder_wide by lia. unfold prio_wide_spec, prio_spec. rewrite map_map, map_length.
  apply map_ext_in. intros i Hi. apply in_seq in Hi.
  unfold bit at 1. rewrite <- trunc_mod by lia. rewrite trunc_testbit by lia.
  replace (k <? w) with true by (symmetry; apply Z.ltb_lt; lia).
  rewrite Z.land_spec, Z.lnot_spec, lor_all_testbit by lia.
  rewrite (nth_indep (map (fun v => bit v k) a) 0 (bit 0 k)) by (rewrite map_length; lia).
  rewrite (map_nth (fun v => bit v k)).
  assert (E : forall l, negb (existsb (fun v => Z.testbit v k) l) = all_zero (map (fun v => bit v k) l)).
  { intros l. unfold all_zero. induction l as [|x l IH]; [reflexivity|]. cbn [existsb map forallb]. rewrite negb_orb, IH.
    unfold bit. destruct (Z.testbit x k); reflexivity. }
  rewrite E. destruct inc.
  - rewrite skipn_map. unfold bit. destruct (Z.testbit (nth i a 0) k); reflexivity.
  - rewrite firstn_map. unfold bit. destruct (Z.testbit (nth i a 0) k); reflexivity.
Qed.

(* ================================================================== requests / results of DIFFERENT widths.
   bitwise.py, PriorityEncoder.__init__: `last = hlp.hw_buf(a[0])`, `hlp.hw_not(last)`, `hlp.hw_or2(last, a[i])` - each helper sizes its
   result wire from its FIRST operand, so the whole `last` chain has the width w0 of the highest-priority request (a[0], or a[-1] when
   inc_priority); result i is And2(a_i, Not(last)) on r_i's own width.  The model below is that construction over items
   (width of r_i, value of a_i); it is a MODEL definition (kept here because this session may not add Model files; no proof uses
   anything but its unfolding).  The uniform model of Model/StructLogic.v is the instance where every width is w. *)
Fixpoint prio_chainW (w0 last : Z) (l : list (Z * Z)) : list Z :=
  match l with
  | [] => []
  | (wr, x) :: t => And2_m wr x (Not_m w0 last) :: prio_chainW w0 (Or2_m w0 last x) t
  end.
Definition prio_fwdW (w0 : Z) (l : list (Z * Z)) : list Z :=
  match l with
  | [] => []
  | (wr, x) :: t => Buf_m wr x :: prio_chainW w0 (Buf_m w0 x) t
  end.
Definition PriorityEncoderW_m (w0 : Z) (inc : bool) (l : list (Z * Z)) : list Z :=
  if inc then rev (prio_fwdW w0 (rev l)) else prio_fwdW w0 l.

Lemma prio_chainW_uniform w t : forall last, prio_chainW w last (map (pair w) t) = prio_chain w last t.
Proof. induction t as [|x t IH]; intros last; [reflexivity|]. cbn [map prio_chainW prio_chain]. rewrite IH. reflexivity. Qed.
Lemma PriorityEncoderW_uniform w inc a : PriorityEncoderW_m w inc (map (pair w) a) = PriorityEncoder_m w inc a.
Proof.
  assert (E : forall l, prio_fwdW w (map (pair w) l) = prio_fwd w l).
  { intros [|x t]; [reflexivity|]. cbn [map prio_fwdW prio_fwd]. rewrite prio_chainW_uniform. reflexivity. }
  unfold PriorityEncoderW_m, PriorityEncoder_m. destruct inc; [rewrite <- map_rev|]; rewrite E; reflexivity.
Qed.

(* the bitwise reference with a result width per output *)
Definition prio_mixed_spec (inc : bool) (l : list (Z * Z)) : list Z :=
  let a := map snd l in
  map (fun i => Z.land (nth i a 0) (Z.lnot (lor_all (if inc then skipn (S i) a else firstn i a))) mod 2 ^ fst (nth i l (0, 0)))
      (seq 0 (length l)).

Lemma land_fits_trunc w0 x y : 0 <= w0 -> fits w0 x -> Z.land x (trunc w0 y) = Z.land x y.
Proof.
  intros Hw Hx. rewrite <- (fits_trunc w0 x) at 2 by auto. unfold trunc.
  rewrite <- !Z.land_assoc. f_equal. apply Z.land_comm.
Qed.

(* exact whenever every request fits the width of the highest-priority one (in particular: all requests equally wide, any result widths) *)
Lemma prio_chainW_exact w0 : 0 <= w0 -> forall t L, Forall (fun p => 0 <= fst p /\ fits w0 (snd p)) t ->
  prio_chainW w0 (trunc w0 L) t =
  map (fun i => trunc (fst (nth i t (0, 0))) (Z.land (nth i (map snd t) 0) (Z.lnot (Z.lor L (lor_all (firstn i (map snd t)))))))
      (seq 0 (length t)).
Proof.
  intros Hw. induction t as [|[wr x] t IH]; intros L Hf; [reflexivity|]. inversion Hf as [|p t' [Hwr Hx] Ht]; subst. cbn [fst snd] in *.
  cbn [prio_chainW length seq map]. f_equal.
  - cbn [nth firstn lor_all fold_right fst snd]. rewrite Z.lor_0_r, And2_char, Not_char.
    rewrite trunc_lnot_trunc by lia. rewrite land_fits_trunc by auto. reflexivity.
  - rewrite Or2_char, trunc_lor_l by lia. rewrite IH by exact Ht. rewrite map_seq_shift. apply map_ext. intros i.
    cbn [nth firstn lor_all fold_right map snd]. rewrite Z.lor_assoc. reflexivity.
Qed.

Lemma PriorityEncoderW_exact_dec w0 l : 0 <= w0 -> Forall (fun p => 0 <= fst p /\ fits w0 (snd p)) l ->
  PriorityEncoderW_m w0 false l = prio_mixed_spec false l.
Proof.
  intros Hw Hf. unfold PriorityEncoderW_m, prio_mixed_spec. cbv zeta. destruct l as [|[wr x] t]; [reflexivity|].
  inversion Hf as [|p t' [Hwr Hx] Ht]; subst. cbn [fst snd] in *.
  cbn [prio_fwdW length seq map]. f_equal.
  - cbn [nth firstn lor_all fold_right fst snd]. rewrite Buf_char. change (Z.lnot 0) with (-1). rewrite Z.land_m1_r. apply trunc_mod; lia.
  - rewrite Buf_char, prio_chainW_exact by auto. rewrite map_seq_shift. apply map_ext_in. intros i Hi. apply in_seq in Hi.
    cbn [nth firstn lor_all fold_right map snd]. apply trunc_mod.
    assert (Hall : Forall (fun p : Z * Z => 0 <= fst p) t) by (eapply Forall_impl; [|exact Ht]; intros p [Hp _]; exact Hp).
    rewrite Forall_forall in Hall. apply Hall. apply nth_In. lia.
Qed.

(* ... and NOT in general: a request wider than the highest-priority one loses its upper bits.
   Replayed on /repo: a = [1-bit wire holding 0, 2-bit wire holding 2], r = two 2-bit wires, inc_priority=False gives r = [0, 0]. *)
Lemma PriorityEncoderW_mixed_refuted : exists w0 l, Forall (fun p => 0 <= fst p) l /\
  PriorityEncoderW_m w0 false l <> prio_mixed_spec false l.
Proof. exists 1, [(2, 0); (2, 2)]. split; [repeat constructor; cbn; lia|]. vm_compute. discriminate. Qed.
