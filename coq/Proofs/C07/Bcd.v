(* C07 (extension) — BinaryToBCD for every operand width and every number of digits: induction over the digits. *)
From V Require Import Base.Bits Gen.WireOps Gen.Helpers Gen.Prims Spec.C07 Model.StructArith Proofs.C07.Prims.

(* the chain of Mod / Div by the 4-bit constant 10 *)
Fixpoint digits10 (n : nat) (v : Z) : list Z :=
  match n with O => [] | S n' => v mod 10 :: digits10 n' (v / 10) end.

Lemma bcd_rems_eq n : forall wa rnd v, 0 <= wa -> 0 <= v < 2 ^ wa ->
  m_bcd_rems n wa rnd 10 v = digits10 n v.
Proof.
  induction n as [|n IH]; intros wa rnd v Hwa Hv; cbn [m_bcd_rems digits10]; [reflexivity|].
  rewrite Mod_eq, Div_eq by lia.
  assert (Hq : 0 <= v / 10 <= v) by (split; [apply Z.div_pos; lia | apply Z.div_le_upper_bound; lia]).
  rewrite (umod_small wa (v / 10)) by lia.
  rewrite (umod_small 4 (v mod 10)) by (change (2 ^ 4) with 16; pose proof (Z.mod_pos_bound v 10); lia).
  f_equal. apply IH; lia.
Qed.

(* ConcatenateLSBF folds over the reversed port list: value = (value << w) | v *)
Definition cat_step (value : Z) (p : Z * Z) : Z := let '(w, v) := p in Z.lor (py_shl value w) v.

Lemma cat_fold_rev (l : list (Z * Z)) : fold_left cat_step (rev l) 0 = fold_right (fun p acc => cat_step acc p) 0 l.
Proof. rewrite <- fold_left_rev_right, rev_involutive. reflexivity. Qed.

Lemma ConcatenateLSBF_eq wr l : 0 <= wr ->
  ConcatenateLSBF_propagate wr l = umod wr (fold_left cat_step l 0).
Proof.
  intros. unfold ConcatenateLSBF_propagate. cbv zeta. rewrite Wire_put_umod by lia. reflexivity.
Qed.

Lemma bcd_range n : forall a, 0 <= a -> 0 <= bcd n a < 16 ^ Z.of_nat n.
Proof.
  induction n as [|n IH]; intros a Ha; cbn [bcd].
  - cbn. lia.
  - assert (0 <= a / 10) by (apply Z.div_pos; lia). pose proof (IH (a / 10) ltac:(lia)).
    pose proof (Z.mod_pos_bound a 10). replace (Z.of_nat (S n)) with (1 + Z.of_nat n) by lia.
    rewrite Z.pow_add_r by lia. change (16 ^ 1) with 16. lia.
Qed.

Lemma cat_digits n : forall v, 0 <= v ->
  fold_right (fun p acc => cat_step acc p) 0 (map (fun d => (4, d)) (digits10 n v)) = bcd n v.
Proof.
  induction n as [|n IH]; intros v Hv; cbn [digits10 map fold_right bcd]; [reflexivity|].
  rewrite IH by (apply Z.div_pos; lia). unfold cat_step, py_shl.
  rewrite lor_add_disjoint by (change (2 ^ 4) with 16; pose proof (Z.mod_pos_bound v 10); lia).
  change (2 ^ 4) with 16. lia.
Qed.

Lemma BinaryToBCD_correct wa wr rnd a : 0 <= wa -> 0 <= wr -> wr mod 4 = 0 -> 0 <= a < 2 ^ wa ->
  m_BinaryToBCD wa wr rnd a = spec_bcd wr a.
Proof.
  intros Hwa Hwr H4 Ha. unfold m_BinaryToBCD, spec_bcd. cbv zeta.
  rewrite Constant_eq by lia. change (umod 4 10) with 10.
  rewrite (bcd_rems_eq _ wa rnd a) by lia.
  rewrite ConcatenateLSBF_eq by lia. rewrite cat_fold_rev, cat_digits by lia.
  apply umod_small.
  pose proof (bcd_range (Z.to_nat (wr / 4)) a ltac:(lia)) as Hr.
  assert (Hq : 0 <= wr / 4) by (apply Z.div_pos; lia).
  rewrite Z2Nat.id in Hr by lia.
  replace (2 ^ wr) with (16 ^ (wr / 4)); [exact Hr|].
  change 16 with (2 ^ 4). rewrite <- Z.pow_mul_r by lia. f_equal.
  rewrite (Z.div_mod wr 4) at 2 by lia. lia.
Qed.
