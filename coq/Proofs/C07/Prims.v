(* C07 — characterising lemmas of the REGENERATED primitives (Gen/Prims.v, Gen/Helpers.v).
   Every later proof uses only these equations, never the shape of the generated bodies. *)
From V Require Import Base.Bits Gen.WireOps Gen.Helpers Gen.Prims Spec.C07.

(* masks: `x & ((1<<w)-1)`, `((1<<w)-1) & x` and `x % (1<<w)` are all the reduction modulo 2^w *)
Lemma land_mask_umod x w : 0 <= w -> Z.land x (Z.shiftl 1 w - 1) = umod w x.
Proof. intros. change (Z.land x (Z.shiftl 1 w - 1)) with (trunc w x). apply trunc_mod; lia. Qed.
Lemma land_mask_umod' x w : 0 <= w -> Z.land (Z.shiftl 1 w - 1) x = umod w x.
Proof. intros. rewrite Z.land_comm. apply land_mask_umod; lia. Qed.
Lemma mod_shiftl_umod x w : 0 <= w -> x mod Z.shiftl 1 w = umod w x.
Proof. intros. rewrite Z.shiftl_1_l. reflexivity. Qed.
Lemma land_1 v : Z.land v 1 = v mod 2.
Proof. change 1 with (Z.ones 1). rewrite Z.land_ones by lia. reflexivity. Qed.
Lemma land_1' v : Z.land 1 v = v mod 2.
Proof. rewrite Z.land_comm. apply land_1. Qed.

Lemma Wire_put_umod w v : 0 <= w -> Wire_put w v = umod w v.
Proof.
  intros. unfold Wire_put, py_shl; cbv zeta.
  rewrite ?land_mask_umod, ?land_mask_umod', ?mod_shiftl_umod by lia. reflexivity.
Qed.

Lemma umod_range w v : 0 <= w -> 0 <= umod w v < 2 ^ w.
Proof. intros. unfold umod. apply Z.mod_pos_bound, pow2_pos; lia. Qed.

Lemma umod_small w v : 0 <= v < 2 ^ w -> umod w v = v.
Proof. intros. unfold umod. apply Z.mod_small; lia. Qed.

Lemma umod_umod w v : 0 <= w -> umod w (umod w v) = umod w v.
Proof. intros. unfold umod. apply Z.mod_mod, Z.pow_nonzero; lia. Qed.

Lemma umod_umod_le a b v : 0 <= a <= b -> umod a (umod b v) = umod a v.
Proof. intros. unfold umod. apply mod_mod_le; lia. Qed.

Lemma umod_add_l w a b : 0 <= w -> umod w (umod w a + b) = umod w (a + b).
Proof. intros. unfold umod. apply Z.add_mod_idemp_l, Z.pow_nonzero; lia. Qed.
Lemma umod_add_r w a b : 0 <= w -> umod w (a + umod w b) = umod w (a + b).
Proof. intros. unfold umod. apply Z.add_mod_idemp_r, Z.pow_nonzero; lia. Qed.
Lemma umod_sub_l w a b : 0 <= w -> umod w (umod w a - b) = umod w (a - b).
Proof. intros. unfold umod. apply Zminus_mod_idemp_l. Qed.
Lemma umod_sub_r w a b : 0 <= w -> umod w (a - umod w b) = umod w (a - b).
Proof. intros. unfold umod. apply Zminus_mod_idemp_r. Qed.
Lemma umod_mul_l w a b : 0 <= w -> umod w (umod w a * b) = umod w (a * b).
Proof. intros. unfold umod. apply Z.mul_mod_idemp_l, Z.pow_nonzero; lia. Qed.
Lemma umod_mul_r w a b : 0 <= w -> umod w (a * umod w b) = umod w (a * b).
Proof. intros. unfold umod. apply Z.mul_mod_idemp_r, Z.pow_nonzero; lia. Qed.
Lemma umod_add_mul w a k : 0 <= w -> umod w (a + k * 2 ^ w) = umod w a.
Proof. intros. unfold umod. apply Z.mod_add, Z.pow_nonzero; lia. Qed.
Lemma umod_opp w a : 0 <= w -> umod w (- umod w a) = umod w (- a).
Proof. intros. replace (- umod w a) with (0 - umod w a) by lia. rewrite umod_sub_r by lia. f_equal. Qed.

(* x = y modulo 2^w *)
Lemma umod_eq w x y k : 0 <= w -> x = y + k * 2 ^ w -> umod w x = umod w y.
Proof. intros Hw ->. apply umod_add_mul; lia. Qed.

Lemma pow2_split a b : 0 <= a <= b -> 2 ^ b = 2 ^ (b - a) * 2 ^ a.
Proof. intros. rewrite <- Z.pow_add_r by lia. f_equal. lia. Qed.

Lemma sgn_umod wa wr a : 0 < wa <= wr -> 0 <= a < 2 ^ wa -> umod wa (sgn wa a) = a.
Proof. intros. unfold umod. rewrite <- trunc_mod by lia. apply trunc_sgn; lia. Qed.

(* sgn differs from the pattern by a multiple of 2^wa *)
Lemma sgn_eq w a : sgn w a = a - (if a <? 2 ^ (w - 1) then 0 else 1) * 2 ^ w.
Proof. unfold sgn. destruct (a <? 2 ^ (w - 1)); lia. Qed.

(* ---- one equation per primitive ----------------------------------------------------------------
   The proofs do not depend on the SHAPE of the generated bodies: [norm] unfolds the Python-operator layer, removes
   let-bound locals, turns every way of writing a mask (`& ((1<<w)-1)`, `% (1<<w)`, either operand order, repeated
   or nested) into [umod], `& 1` into `mod 2`, `<<`/`>>` into `* 2^n` / `/ 2^n`; [cmp_cases] case-splits on every
   comparison instead of matching if/else syntactically (so `== 0` vs `!= 0`, `not`, swapped branches do not
   matter); [fin] closes the remaining equation up to commutativity / ring identities. *)
Ltac norm :=
  unfold Wire_put, py_shl, py_shr, py_truth; cbv zeta;
  rewrite ?land_mask_umod, ?land_mask_umod', ?mod_shiftl_umod by lia;
  rewrite ?land_1, ?land_1';
  rewrite ?Z.shiftl_1_l;
  rewrite ?shiftl_mul, ?shiftr_div by lia;
  rewrite ?umod_umod by lia.

Ltac cmp_cases :=
  repeat match goal with
  | |- context [Z.eqb ?a ?b] => destruct (Z.eqb_spec a b)
  | |- context [Z.leb ?a ?b] => destruct (Z.leb_spec a b)
  | |- context [Z.ltb ?a ?b] => destruct (Z.ltb_spec a b)
  | |- context [Z.gtb ?a ?b] => destruct (Z.gtb_spec a b)
  | |- context [Z.geb ?a ?b] => destruct (Z.geb_spec a b)
  end; cbn [negb andb orb].

Ltac fin :=
  try reflexivity; try lia; try (f_equal; ring); try (f_equal; lia);
  try (f_equal; apply Z.land_comm); try (f_equal; apply Z.lor_comm); try (f_equal; apply Z.lxor_comm).

Lemma AddCarryIn_eq wr a b ci : 0 <= wr -> AddCarryIn_propagate wr a b ci = umod wr (a + b + ci).
Proof. intros. unfold AddCarryIn_propagate. norm. fin. Qed.

Lemma Sub_eq wr a b : 0 <= wr -> Sub_propagate wr a b = umod wr (a - b).
Proof. intros. unfold Sub_propagate. norm. fin. Qed.

Lemma SubBorrowIn_eq wr a b bi : 0 <= wr -> SubBorrowIn_propagate wr a b bi = umod wr (a - b - bi).
Proof. intros. unfold SubBorrowIn_propagate. norm. fin. Qed.

Lemma Mul_eq wr a b : 0 <= wr -> Mul_propagate wr a b = umod wr (a * b).
Proof. intros. unfold Mul_propagate. norm. fin. Qed.

Lemma ZeroExtend_eq wr a : 0 <= wr -> ZeroExtend_propagate wr a = umod wr a.
Proof. intros. unfold ZeroExtend_propagate. norm. fin. Qed.

Lemma Buf_eq wr a : 0 <= wr -> Buf_propagate wr a = umod wr a.
Proof. intros. unfold Buf_propagate. norm. fin. Qed.

Lemma Constant_eq wr c : 0 <= wr -> Constant_propagate wr c = umod wr c.
Proof. intros. unfold Constant_propagate. norm. fin. Qed.

Lemma Not_eq wr a : 0 <= wr -> Not_propagate wr a = umod wr (- a - 1).
Proof. intros. unfold Not_propagate. norm. try (unfold Z.lnot); fin. Qed.

Lemma And2_eq wr a b : 0 <= wr -> And2_propagate wr a b = umod wr (Z.land a b).
Proof. intros. unfold And2_propagate. norm. fin. Qed.

Lemma Or2_eq wr a b : 0 <= wr -> Or2_propagate wr a b = umod wr (Z.lor a b).
Proof. intros. unfold Or2_propagate. norm. fin. Qed.

Lemma Bit_eq wr bit a : 1 <= wr -> 0 <= bit -> Bit_propagate wr bit a = (a / 2 ^ bit) mod 2.
Proof.
  intros. unfold Bit_propagate. norm.
  apply umod_small. assert (2 ^ 1 <= 2 ^ wr) by (apply pow2_le; lia).
  pose proof (Z.mod_pos_bound (a / 2 ^ bit) 2). lia.
Qed.

Lemma Range_eq wr hi lo a : 0 <= wr -> 0 <= lo -> lo <= hi + 1 ->
  Range_propagate wr hi lo a = umod wr (umod (hi - lo + 1) (a / 2 ^ lo)).
Proof. intros. unfold Range_propagate. norm. fin. Qed.

Lemma Mux2_eq wr sel x y : 0 <= wr ->
  Mux2_propagate wr sel x y = umod wr (if sel mod 2 =? 1 then y else x).
Proof. intros. unfold Mux2_propagate. norm. cmp_cases; fin. Qed.

Lemma Div_eq wr rnd a b : 0 <= wr -> b <> 0 -> Div_propagate wr rnd a b = umod wr (a / b).
Proof. intros. unfold Div_propagate. norm. cmp_cases; fin. Qed.

Lemma Mod_eq wr rnd a b : 0 <= wr -> b <> 0 -> Mod_propagate wr rnd a b = umod wr (a mod b).
Proof. intros. unfold Mod_propagate. norm. cmp_cases; fin. Qed.

Lemma ShiftLeftConstant_eq wr n a : 0 <= wr -> 0 <= n -> ShiftLeftConstant_propagate wr n a = umod wr (a * 2 ^ n).
Proof. intros. unfold ShiftLeftConstant_propagate. norm. fin. Qed.

Lemma ShiftRightConstant_eq wr n a : 0 <= wr -> 0 <= n -> ShiftRightConstant_propagate wr n a = umod wr (a / 2 ^ n).
Proof. intros. unfold ShiftRightConstant_propagate. norm. fin. Qed.

(* ---- rotations by a constant ----------------------------------------------------------------- *)
Lemma div_pow2_bound a w k : 0 <= k <= w -> 0 <= a < 2 ^ w -> 0 <= a / 2 ^ k < 2 ^ (w - k).
Proof.
  intros Hk Ha. pose proof (pow2_pos k ltac:(lia)). pose proof (pow2_split k w ltac:(lia)).
  split. { apply Z.div_pos; lia. }
  apply Z.div_lt_upper_bound; lia.
Qed.

(* the two halves of a rotation do not overlap: the OR is a sum *)
Lemma rotl_lor wa n a : 0 <= n <= wa -> 0 <= a < 2 ^ wa ->
  Z.lor (Z.shiftl a n) (Z.shiftr a (wa - n)) = a * 2 ^ n + a / 2 ^ (wa - n).
Proof.
  intros Hn Ha. rewrite shiftr_div by lia. apply lor_add_disjoint; [lia|].
  pose proof (div_pow2_bound a wa (wa - n) ltac:(lia) Ha) as Hb. replace (wa - (wa - n)) with n in Hb by lia. exact Hb.
Qed.

Lemma rotr_lor wa n a : 0 <= n <= wa -> 0 <= a < 2 ^ wa ->
  Z.lor (Z.shiftr a n) (Z.shiftl a (wa - n)) = a * 2 ^ (wa - n) + a / 2 ^ n.
Proof.
  intros Hn Ha. rewrite shiftr_div by lia. rewrite Z.lor_comm. apply lor_add_disjoint; [lia|]. apply div_pow2_bound; lia.
Qed.

(* the raw expressions are the rotations, modulo 2^wa *)
Lemma rotl_raw wa n a : 0 < wa -> 0 <= n <= wa -> 0 <= a < 2 ^ wa ->
  umod wa (a * 2 ^ n + a / 2 ^ (wa - n)) = rotl wa a n.
Proof.
  intros Hwa Hn Ha. unfold rotl. cbv zeta.
  destruct (Z.eq_dec n wa) as [->|Hne].
  - rewrite Z.mod_same by lia. replace (wa - wa) with 0 by lia. replace (wa - 0) with wa by lia.
    rewrite Z.pow_0_r, Z.div_1_r, Z.mul_1_r. rewrite (Z.div_small a (2 ^ wa)) by lia.
    rewrite (Z.mod_small a (2 ^ wa)) by lia. rewrite Z.add_0_r.
    rewrite Z.add_comm. rewrite umod_add_mul by lia. apply umod_small; lia.
  - rewrite (Z.mod_small n wa) by lia.
    pose proof (div_pow2_bound a wa (wa - n) ltac:(lia) Ha) as Hb. replace (wa - (wa - n)) with n in Hb by lia.
    unfold umod. rewrite <- Z.add_mod_idemp_l by (apply Z.pow_nonzero; lia).
    apply Z.mod_small.
    (* (a*2^n) mod 2^wa is a multiple of 2^n below 2^wa *)
    pose proof (pow2_split n wa ltac:(lia)) as Hs.
    pose proof (pow2_pos n ltac:(lia)). pose proof (pow2_pos (wa - n) ltac:(lia)).
    rewrite Hs. rewrite Z.mul_mod_distr_r by lia.
    pose proof (Z.mod_pos_bound a (2 ^ (wa - n)) ltac:(lia)). nia.
Qed.

Lemma rotr_raw wa n a : 0 < wa -> 0 <= n <= wa -> 0 <= a < 2 ^ wa ->
  umod wa (a * 2 ^ (wa - n) + a / 2 ^ n) = rotr wa a n.
Proof.
  intros Hwa Hn Ha. unfold rotr. cbv zeta.
  destruct (Z.eq_dec n wa) as [->|Hne].
  - rewrite Z.mod_same by lia. replace (wa - wa) with 0 by lia. replace (wa - 0) with wa by lia.
    rewrite Z.pow_0_r, Z.div_1_r, Z.mul_1_r, Z.mod_1_r, Z.mul_0_l, Z.add_0_r.
    rewrite (Z.div_small a (2 ^ wa)) by lia. rewrite Z.add_0_r. apply umod_small; lia.
  - rewrite (Z.mod_small n wa) by lia.
    pose proof (div_pow2_bound a wa n ltac:(lia) Ha) as Hb.
    pose proof (pow2_split n wa ltac:(lia)) as Hs.
    pose proof (pow2_pos n ltac:(lia)). pose proof (pow2_pos (wa - n) ltac:(lia)).
    pose proof (Z.mod_pos_bound a (2 ^ n) ltac:(lia)).
    rewrite (umod_eq wa _ (a / 2 ^ n + a mod 2 ^ n * 2 ^ (wa - n)) (a / 2 ^ n)); [ | lia | ].
    + apply umod_small. nia.
    + rewrite Hs. rewrite (Z.div_mod a (2 ^ n)) at 1 by lia. ring.
Qed.

(* Characterisations that hold for BOTH shapes of Rotate*Constant.propagate: with the OR left un-masked
   (`(a << n) | (a >> (w-n))`) and with the OR masked to the operand width (`... & ((1<<w)-1)`): after normalisation the
   body is [umod wr S] or [umod wr (umod wa S)] with S the sum of the two halves. *)
Ltac rot_norm wa n a :=
  unfold Wire_put, py_shl, py_shr; cbv zeta;
  rewrite ?(Z.lor_comm (Z.shiftr a (wa - n)) (Z.shiftl a n)), ?(Z.lor_comm (Z.shiftl a (wa - n)) (Z.shiftr a n));
  rewrite ?rotl_lor, ?rotr_lor by lia;
  rewrite ?land_mask_umod, ?land_mask_umod', ?mod_shiftl_umod by lia.

(* seen through a wire at least as wide as the operand and reduced to the operand width: the rotation *)
Lemma RotateLeftConstant_low wa ws n a : 1 <= wa <= ws -> 0 <= n <= wa -> 0 <= a < 2 ^ wa ->
  umod wa (RotateLeftConstant_propagate wa ws n a) = rotl wa a n.
Proof.
  intros. unfold RotateLeftConstant_propagate. rot_norm wa n a.
  rewrite ?umod_umod_le by lia. apply rotl_raw; lia.
Qed.

Lemma RotateRightConstant_low wa ws n a : 1 <= wa <= ws -> 0 <= n <= wa -> 0 <= a < 2 ^ wa ->
  umod wa (RotateRightConstant_propagate wa ws n a) = rotr wa a n.
Proof.
  intros. unfold RotateRightConstant_propagate. rot_norm wa n a.
  rewrite ?umod_umod_le by lia. apply rotr_raw; lia.
Qed.

(* result not wider than the operand *)
Lemma RotateLeftConstant_correct wa wr n a : 1 <= wa -> 0 <= wr <= wa -> 0 <= n <= wa -> 0 <= a < 2 ^ wa ->
  RotateLeftConstant_propagate wa wr n a = spec_rotl wa wr a n.
Proof.
  intros. unfold RotateLeftConstant_propagate, spec_rotl. rot_norm wa n a.
  rewrite <- (rotl_raw wa n a) by lia. rewrite ?umod_umod_le by lia. reflexivity.
Qed.

Lemma RotateRightConstant_correct wa wr n a : 1 <= wa -> 0 <= wr <= wa -> 0 <= n <= wa -> 0 <= a < 2 ^ wa ->
  RotateRightConstant_propagate wa wr n a = spec_rotr wa wr a n.
Proof.
  intros. unfold RotateRightConstant_propagate, spec_rotr. rot_norm wa n a.
  rewrite <- (rotr_raw wa n a) by lia. rewrite ?umod_umod_le by lia. reflexivity.
Qed.

(* C07-ROTC-WIDE-prims: repaired in /repo, switched by fixes/C07_switch.py *)
(* the OR is masked to the operand width: exact for every result width *)
Lemma RotateLeftConstant_full wa wr n a : 1 <= wa -> 0 <= wr -> 0 <= n <= wa -> 0 <= a < 2 ^ wa ->
  RotateLeftConstant_propagate wa wr n a = spec_rotl wa wr a n.
Proof.
  intros. unfold RotateLeftConstant_propagate, spec_rotl. rot_norm wa n a.
  rewrite rotl_raw by lia. reflexivity.
Qed.

Lemma RotateRightConstant_full wa wr n a : 1 <= wa -> 0 <= wr -> 0 <= n <= wa -> 0 <= a < 2 ^ wa ->
  RotateRightConstant_propagate wa wr n a = spec_rotr wa wr a n.
Proof.
  intros. unfold RotateRightConstant_propagate, spec_rotr. rot_norm wa n a.
  rewrite rotr_raw by lia. reflexivity.
Qed.

(* ---- two's complement helper and the signed primitives ------------------------------------------ *)
Lemma land_pow2 v k : 0 <= k -> Z.land v (2 ^ k) = if Z.testbit v k then 2 ^ k else 0.
Proof.
  intros Hk. apply Z.bits_inj'; intros i Hi. rewrite Z.land_spec, Z.pow2_bits_eqb by lia.
  destruct (Z.testbit v k) eqn:E.
  - rewrite Z.pow2_bits_eqb by lia. destruct (Z.eqb_spec k i) as [->|]; [rewrite E; reflexivity | apply andb_false_r].
  - rewrite Z.bits_0. destruct (Z.eqb_spec k i) as [->|]; [rewrite E; reflexivity | apply andb_false_r].
Qed.

Lemma signed_to_c2_eq v w : 0 <= w -> IntegerHelper_signed_to_c2 v w = spec_signed_to_c2 v w.
Proof. intros. unfold IntegerHelper_signed_to_c2, spec_signed_to_c2. norm. fin. Qed.

Lemma c2_to_signed_eq v w : 1 <= w -> IntegerHelper_c2_to_signed v w = spec_c2_to_signed v w.
Proof.
  intros Hw. unfold IntegerHelper_c2_to_signed, spec_c2_to_signed. norm.
  pose proof (umod_range w v ltac:(lia)) as Hr. set (x := umod w v) in *. clearbody x.
  rewrite ?land_pow2 by lia. rewrite ?testbit_high by lia. unfold sgn.
  pose proof (pow2_pos (w - 1) ltac:(lia)).
  destruct (Z.leb_spec (2 ^ (w - 1)) x); cmp_cases; fin.
Qed.

Lemma c2_to_signed_sgn v w : 1 <= w -> 0 <= v < 2 ^ w -> IntegerHelper_c2_to_signed v w = sgn w v.
Proof. intros. rewrite c2_to_signed_eq by lia. unfold spec_c2_to_signed. rewrite umod_small by lia. reflexivity. Qed.

Lemma SignedMul_eq wa wb wr a b : 1 <= wa -> 1 <= wb -> 0 <= wr -> 0 <= a < 2 ^ wa -> 0 <= b < 2 ^ wb ->
  SignedMul_propagate wa wb wr a b = umod wr (sgn wa a * sgn wb b).
Proof. intros. unfold SignedMul_propagate. norm. rewrite !c2_to_signed_sgn by lia. fin. Qed.

(* SignExtend: the loop ORs the high bit into positions wa .. wr-1 *)
Lemma sext_loop hb wa n v : 0 <= wa -> 0 <= hb <= 1 -> 0 <= v < 2 ^ wa ->
  fold_left (fun acc i => Z.lor acc (py_shl hb i)) (map (fun k => wa + Z.of_nat k) (seq 0 n)) v
  = v + hb * (2 ^ (wa + Z.of_nat n) - 2 ^ wa).
Proof.
  intros Hwa Hhb. revert v. 
  assert (G : forall n s v, 0 <= s -> 0 <= v < 2 ^ s ->
     fold_left (fun acc i => Z.lor acc (py_shl hb i)) (map (fun k => wa + Z.of_nat k) (seq (Z.to_nat (s - wa)) n)) v
     = v + hb * (2 ^ (s + Z.of_nat n) - 2 ^ s) \/ s < wa).
  { clear n. intros n. induction n as [|n IH]; intros s v Hs Hv.
    - left. cbn [seq map fold_left Z.of_nat]. rewrite Z.add_0_r. lia.
    - destruct (Z.ltb_spec s wa); [right; lia|]. left. cbn [seq map fold_left].
      replace (wa + Z.of_nat (Z.to_nat (s - wa))) with s by lia.
      assert (E : Z.lor v (py_shl hb s) = v + hb * 2 ^ s).
      { unfold py_shl. rewrite Z.lor_comm, (Z.add_comm v). apply lor_add_disjoint; lia. }
      rewrite E.
      replace (S (Z.to_nat (s - wa))) with (Z.to_nat ((s + 1) - wa)) by lia.
      destruct (IH (s + 1) (v + hb * 2 ^ s)) as [IH'|]; try lia.
      { rewrite Z.pow_add_r by lia. change (2 ^ 1) with 2. pose proof (pow2_pos s Hs). nia. }
      rewrite IH'. replace (s + 1 + Z.of_nat n) with (s + Z.of_nat (S n)) by lia.
      rewrite (Z.pow_add_r 2 s 1) by lia. change (2 ^ 1) with 2. ring. }
  intros v Hv. destruct (G n wa v Hwa Hv) as [E|]; [|lia].
  replace (wa - wa) with 0 in E by lia. exact E.
Qed.

(* the OR-accumulation may start from the value itself or from 0 and be merged afterwards: both are v | E *)
Lemma fold_lor_acc (g : Z -> Z) (l : list Z) acc :
  fold_left (fun a i => Z.lor a (g i)) l acc = Z.lor acc (fold_left (fun a i => Z.lor a (g i)) l 0).
Proof.
  revert acc. induction l as [|x l IH]; intros acc; cbn [fold_left]; [rewrite Z.lor_0_r; reflexivity|].
  rewrite IH, (IH (Z.lor 0 (g x))). rewrite Z.lor_0_l, Z.lor_assoc. reflexivity.
Qed.

Lemma fill_loop hb wa n : 0 <= wa -> 0 <= hb <= 1 ->
  fold_left (fun acc i => Z.lor acc (Z.shiftl hb i)) (map (fun k => wa + Z.of_nat k) (seq 0 n)) 0
  = hb * (2 ^ (wa + Z.of_nat n) - 2 ^ wa).
Proof.
  intros Hwa Hhb. pose proof (pow2_pos wa Hwa).
  change (fun acc i => Z.lor acc (Z.shiftl hb i)) with (fun acc i => Z.lor acc (py_shl hb i)).
  rewrite sext_loop by lia. lia.
Qed.

(* Accepted shapes of SignExtend.propagate: accumulator starting at the value or at 0 and merged with `|` afterwards in
   either operand order; top bit written `a >> (wa-1)` with or without `& 1` / `% 2`; masks in any spelling. *)
Lemma SignExtend_eq wa wr a : 1 <= wa -> 0 <= wr -> 0 <= a < 2 ^ wa ->
  SignExtend_propagate wa wr a = umod wr (sgn wa a).
Proof.
  intros Hwa Hwr Ha. unfold SignExtend_propagate. cbv zeta. rewrite Wire_put_umod by lia.
  unfold py_shr, py_shl, seqZ. rewrite ?land_1, ?land_1'. rewrite !shiftr_div by lia.
  assert (Hhb : a / 2 ^ (wa - 1) = if a <? 2 ^ (wa - 1) then 0 else 1).
  { pose proof (div_pow2_bound a wa (wa - 1) ltac:(lia) Ha) as Hb. replace (wa - (wa - 1)) with 1 in Hb by lia.
    change (2 ^ 1) with 2 in Hb. pose proof (pow2_pos (wa - 1) ltac:(lia)).
    destruct (Z.ltb_spec a (2 ^ (wa - 1))).
    - apply Z.div_small; lia.
    - assert (1 <= a / 2 ^ (wa - 1)); [|lia]. apply Z.div_le_lower_bound; lia. }
  assert (Hhb01 : 0 <= a / 2 ^ (wa - 1) <= 1) by (rewrite Hhb; destruct (a <? 2 ^ (wa - 1)); lia).
  rewrite ?(Z.mod_small (a / 2 ^ (wa - 1)) 2) by lia.
  set (hb := a / 2 ^ (wa - 1)) in *.
  (* bring the accumulation to  a | (fold from 0) *)
  try rewrite (fold_lor_acc (fun i => Z.shiftl hb i) _ a).
  try match goal with |- context [Z.lor (fold_left ?f ?l 0) a] => rewrite (Z.lor_comm (fold_left f l 0) a) end.
  rewrite fill_loop by lia.
  set (N := Z.of_nat (Z.to_nat (wr - wa))).
  assert (Hlor : Z.lor a (hb * (2 ^ (wa + N) - 2 ^ wa)) = a + hb * (2 ^ (wa + N) - 2 ^ wa)).
  { assert (HN : 0 <= N) by (subst N; lia). pose proof (pow2_pos N HN).
    replace (hb * (2 ^ (wa + N) - 2 ^ wa)) with (Z.shiftl (hb * (2 ^ N - 1)) wa)
      by (rewrite Z.shiftl_mul_pow2 by lia; rewrite Z.pow_add_r by lia; ring).
    rewrite Z.lor_comm, lor_add_disjoint by lia. rewrite Z.shiftl_mul_pow2 by lia. ring. }
  rewrite Hlor. subst N. subst hb.
  rewrite Hhb, sgn_eq.
  destruct (Z.le_gt_cases wa wr) as [Hle|Hgt].
  - replace (wa + Z.of_nat (Z.to_nat (wr - wa))) with wr by lia.
    destruct (a <? 2 ^ (wa - 1)); [f_equal; lia|].
    apply (umod_eq wr _ _ 1); lia.
  - replace (Z.to_nat (wr - wa)) with 0%nat by lia. rewrite Z.add_0_r.
    replace (2 ^ wa - 2 ^ wa) with 0 by lia. rewrite Z.mul_0_r, Z.add_0_r.
    destruct (a <? 2 ^ (wa - 1)); [f_equal; lia|].
    rewrite (pow2_split wr wa) by lia. symmetry.
    apply (umod_eq wr _ _ (- 2 ^ (wa - wr))); lia.
Qed.

Lemma c2_roundtrip v w : 1 <= w -> - 2 ^ (w - 1) <= v < 2 ^ (w - 1) ->
  IntegerHelper_c2_to_signed (IntegerHelper_signed_to_c2 v w) w = v.
Proof.
  intros Hw Hv. rewrite signed_to_c2_eq by lia. unfold spec_signed_to_c2.
  rewrite c2_to_signed_eq by lia. unfold spec_c2_to_signed. rewrite umod_umod by lia.
  assert (Hd : 2 ^ w = 2 * 2 ^ (w - 1)).
  { replace w with (1 + (w - 1)) at 1 by lia. rewrite Z.pow_add_r by lia. reflexivity. }
  unfold sgn. destruct (Z.ltb_spec v 0).
  - rewrite (umod_eq w v (v + 2 ^ w) (-1)) by lia. rewrite umod_small by lia.
    destruct (Z.ltb_spec (v + 2 ^ w) (2 ^ (w - 1))); lia.
  - rewrite umod_small by lia. destruct (Z.ltb_spec v (2 ^ (w - 1))); lia.
Qed.
