(* C07 — facts about the rotation specification (Spec/C07.v rotl / rotr): range, bit characterisation,
   composition (rotating by m then by n is rotating by m+n), rotr as rotl by the opposite amount. *)
From V Require Import Base.Bits Spec.C07 Proofs.C07.Prims.

(* for an amount already reduced: 0 <= k < w *)
Lemma rotl_split w x k : 0 < w -> 0 <= k < w -> 0 <= x < 2 ^ w ->
  (x * 2 ^ k) mod 2 ^ w + x / 2 ^ (w - k) = (x mod 2 ^ (w - k)) * 2 ^ k + x / 2 ^ (w - k).
Proof.
  intros Hw Hk Hx. f_equal. rewrite (pow2_split k w) by lia.
  apply Z.mul_mod_distr_r; apply Z.pow_nonzero; lia.
Qed.

Lemma rotl_red w x n : rotl w x n = rotl w x (n mod w).
Proof. unfold rotl. cbv zeta. rewrite Zmod_mod. reflexivity. Qed.

Lemma rotl_lor w x k : 0 < w -> 0 <= k < w -> 0 <= x < 2 ^ w ->
  rotl w x k = Z.lor (Z.shiftl (x mod 2 ^ (w - k)) k) (x / 2 ^ (w - k)).
Proof.
  intros Hw Hk Hx. unfold rotl. cbv zeta. rewrite (Z.mod_small k w) by lia.
  rewrite rotl_split by lia. symmetry. apply lor_add_disjoint; [lia|].
  pose proof (div_pow2_bound x w (w - k) ltac:(lia) Hx) as Hb. replace (w - (w - k)) with k in Hb by lia. exact Hb.
Qed.

Lemma rotl_range w x n : 0 < w -> 0 <= x < 2 ^ w -> 0 <= rotl w x n < 2 ^ w.
Proof.
  intros Hw Hx. rewrite rotl_red. pose proof (Z.mod_pos_bound n w Hw) as Hk. set (k := n mod w) in *. clearbody k.
  unfold rotl. cbv zeta. rewrite (Z.mod_small k w) by lia. rewrite rotl_split by lia.
  pose proof (div_pow2_bound x w (w - k) ltac:(lia) Hx) as Hb. replace (w - (w - k)) with k in Hb by lia.
  pose proof (Z.mod_pos_bound x (2 ^ (w - k)) (pow2_pos (w - k) ltac:(lia))).
  pose proof (pow2_split k w ltac:(lia)). pose proof (pow2_pos k ltac:(lia)). nia.
Qed.

Lemma small_bits_high w x i : 0 <= w -> 0 <= x < 2 ^ w -> w <= i -> Z.testbit x i = false.
Proof. intros. rewrite <- (Z.mod_small x (2 ^ w)) by lia. apply Z.mod_pow2_bits_high; lia. Qed.

Lemma rotl_bits w x n i : 0 < w -> 0 <= x < 2 ^ w -> 0 <= i ->
  Z.testbit (rotl w x n) i = (i <? w) && Z.testbit x ((i - n) mod w).
Proof.
  intros Hw Hx Hi. rewrite rotl_red. rewrite <- (Zminus_mod_idemp_r i n w).
  pose proof (Z.mod_pos_bound n w Hw) as Hk. set (k := n mod w) in *. clearbody k.
  rewrite rotl_lor by lia. rewrite Z.lor_spec, Z.shiftl_spec by lia.
  rewrite Z.div_pow2_bits by lia.
  destruct (Z.ltb_spec i k) as [Hik|Hik].
  - rewrite (Z.testbit_neg_r _ (i - k)) by lia. cbn [orb].
    replace ((i - k) mod w) with (i + (w - k)).
    + destruct (Z.ltb_spec i w); [reflexivity | lia].
    + apply Z.mod_unique with (-1); lia.
  - rewrite Z.testbit_mod_pow2 by lia.
    rewrite (small_bits_high w x (i + (w - k))) by lia. rewrite orb_false_r.
    destruct (Z.ltb_spec i w) as [Hiw|Hiw].
    + rewrite (Z.mod_small (i - k) w) by lia. destruct (Z.ltb_spec (i - k) (w - k)); [reflexivity | lia].
    + destruct (Z.ltb_spec (i - k) (w - k)); [lia | reflexivity].
Qed.

Lemma rotl_add w x m n : 0 < w -> 0 <= x < 2 ^ w -> rotl w (rotl w x m) n = rotl w x (m + n).
Proof.
  intros Hw Hx. apply Z.bits_inj'; intros i Hi.
  pose proof (rotl_range w x m Hw Hx) as Hr.
  rewrite (rotl_bits w (rotl w x m)) by lia.
  rewrite (rotl_bits w x m) by (try lia; apply Z.mod_pos_bound; lia).
  rewrite (rotl_bits w x (m + n)) by lia.
  pose proof (Z.mod_pos_bound (i - n) w Hw).
  destruct (Z.ltb_spec i w); [|reflexivity]. cbn [andb].
  destruct (Z.ltb_spec ((i - n) mod w) w); [|lia]. cbn [andb].
  f_equal. rewrite Zminus_mod_idemp_l. f_equal. lia.
Qed.

Lemma rotl_0 w x : 0 < w -> 0 <= x < 2 ^ w -> rotl w x 0 = x.
Proof.
  intros Hw Hx. unfold rotl. cbv zeta. rewrite Z.mod_0_l by lia.
  rewrite Z.pow_0_r, Z.mul_1_r, Z.sub_0_r, (Z.mod_small x), (Z.div_small x) by lia. lia.
Qed.

Lemma rotr_rotl w x n : 0 < w -> 0 <= x < 2 ^ w -> rotr w x n = rotl w x (- n).
Proof.
  intros Hw Hx. unfold rotr, rotl. cbv zeta.
  pose proof (Z.mod_pos_bound n w Hw) as Hk. remember (n mod w) as k eqn:Ek.
  destruct (Z.eq_dec k 0) as [E|E].
  - assert (E2 : (- n) mod w = 0) by (apply Z.mod_opp_l_z; [lia | congruence]). rewrite E2, E.
    rewrite Z.pow_0_r, Z.div_1_r, Z.mod_1_r, Z.mul_0_l, Z.mul_1_r, Z.sub_0_r.
    rewrite (Z.mod_small x), (Z.div_small x) by lia. lia.
  - assert (E2 : (- n) mod w = w - k) by (rewrite Ek; apply Z.mod_opp_l_nz; [lia | congruence]). rewrite E2.
    replace (w - (w - k)) with k by lia.
    rewrite (pow2_split (w - k) w) by lia. replace (w - (w - k)) with k by lia.
    rewrite Z.mul_mod_distr_r by (apply Z.pow_nonzero; lia). lia.
Qed.

Lemma rotr_range w x n : 0 < w -> 0 <= x < 2 ^ w -> 0 <= rotr w x n < 2 ^ w.
Proof. intros. rewrite rotr_rotl by lia. apply rotl_range; lia. Qed.

Lemma rotr_add w x m n : 0 < w -> 0 <= x < 2 ^ w -> rotr w (rotr w x m) n = rotr w x (m + n).
Proof.
  intros Hw Hx. pose proof (rotr_range w x m Hw Hx).
  rewrite (rotr_rotl w (rotr w x m)) by lia. rewrite !(rotr_rotl w x) by lia.
  rewrite rotl_add by lia. f_equal. lia.
Qed.

Lemma rotr_0 w x : 0 < w -> 0 <= x < 2 ^ w -> rotr w x 0 = x.
Proof. intros. rewrite rotr_rotl by lia. apply rotl_0; lia. Qed.
