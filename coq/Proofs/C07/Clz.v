(* C07 (extension) — CountLeadingZeros with _FFunction for EVERY input width: induction over the OR-tree levels.
   Level 0 = the bits of a (padded to N = 2^k, LSB first); level j+1 = pairwise OR of level j, so the leading one
   of level j sits at position p / 2^j.  _FFunction(level j) is 1 iff that position is odd, i.e. bit j of p;
   the circuit outputs the complements, whose value is N-1-p, and subtracts the padding N-aw. *)
From V Require Import Base.Bits Gen.WireOps Gen.Helpers Gen.Prims Spec.C07 Model.StructArith
  Proofs.C07.Prims Proofs.C07.Bcd.

(* ---- single-bit values ------------------------------------------------------------------------ *)
Definition bit (x : Z) : Prop := x = 0 \/ x = 1.
Definition bits (l : list Z) : Prop := Forall bit l.

Lemma Not1 x : bit x -> Not_propagate 1 x = 1 - x.
Proof. intros [-> | ->]; vm_compute; reflexivity. Qed.
Lemma And1 x y : bit x -> bit y -> And2_propagate 1 x y = x * y.
Proof. intros [-> | ->] [-> | ->]; vm_compute; reflexivity. Qed.
Lemma Or1 x y : bit x -> bit y -> Or2_propagate 1 x y = Z.max x y.
Proof. intros [-> | ->] [-> | ->]; vm_compute; reflexivity. Qed.
Lemma Buf1 x : bit x -> Buf_propagate 1 x = x.
Proof. intros [-> | ->]; vm_compute; reflexivity. Qed.
Lemma bit_b2z b : bit (b2z b).
Proof. destruct b; [right | left]; reflexivity. Qed.
Lemma bit_is_b2z x : bit x -> x = b2z (x =? 1).
Proof. intros [-> | ->]; reflexivity. Qed.
Lemma b2z_eqb1 b : (b2z b =? 1) = b.
Proof. destruct b; reflexivity. Qed.

Lemma getZ_bit l i : bits l -> bit (getZ l i).
Proof.
  intros H. unfold getZ. destruct (nth_in_or_default (Z.to_nat i) l 0) as [Hin | ->]; [|left; reflexivity].
  eapply Forall_forall in H; eauto.
Qed.

(* ---- And / Or ladders ------------------------------------------------------------------------- *)
Definition all1 (l : list Z) : bool := forallb (fun x => x =? 1) l.
Definition any1 (l : list Z) : bool := existsb (fun x => x =? 1) l.

Lemma and_ladder rest : forall x, bit x -> bits rest ->
  fold_left (fun acc y => And2_propagate 1 acc y) rest x = b2z ((x =? 1) && all1 rest).
Proof.
  induction rest as [|y rest IH]; intros x Hx Hr; cbn [fold_left all1 forallb].
  - rewrite andb_true_r. apply bit_is_b2z, Hx.
  - inversion Hr as [|? ? Hy Hr']; subst. rewrite And1 by assumption.
    rewrite IH; [ | destruct Hx as [-> | ->]; destruct Hy as [-> | ->]; [left|left|left|right]; reflexivity | assumption].
    fold (all1 rest). destruct Hx as [-> | ->]; destruct Hy as [-> | ->]; reflexivity.
Qed.

Lemma m_And_eq l : bits l -> l <> [] -> m_And 1 l = b2z (all1 l).
Proof.
  intros H Hne. destruct l as [|x [|y rest]]; [congruence | | ]; inversion H as [|? ? Hx Hr]; subst.
  - cbn [m_And all1 forallb]. rewrite Buf1, andb_true_r by assumption. apply bit_is_b2z, Hx.
  - unfold m_And. rewrite and_ladder by assumption. reflexivity.
Qed.

Lemma or_ladder rest : forall x, bit x -> bits rest ->
  fold_left (fun acc y => Or2_propagate 1 acc y) rest x = b2z ((x =? 1) || any1 rest).
Proof.
  induction rest as [|y rest IH]; intros x Hx Hr; cbn [fold_left any1 existsb].
  - rewrite orb_false_r. apply bit_is_b2z, Hx.
  - inversion Hr as [|? ? Hy Hr']; subst. rewrite Or1 by assumption.
    rewrite IH; [ | destruct Hx as [-> | ->]; destruct Hy as [-> | ->]; [left|right|right|right]; reflexivity | assumption].
    fold (any1 rest). destruct Hx as [-> | ->]; destruct Hy as [-> | ->]; reflexivity.
Qed.

Lemma m_Or_eq l : bits l -> m_Or 1 l = b2z (any1 l).
Proof.
  intros H. destruct l as [|x [|y rest]]; [reflexivity | | ]; inversion H as [|? ? Hx Hr]; subst.
  - cbn [m_Or any1 existsb]. rewrite Buf1, orb_false_r by assumption. apply bit_is_b2z, Hx.
  - unfold m_Or. rewrite or_ladder by assumption. reflexivity.
Qed.

(* ---- index bookkeeping ------------------------------------------------------------------------- *)
Lemma In_seqZ a b t : In t (seqZ a b) <-> a <= t < b.
Proof.
  unfold seqZ. rewrite in_map_iff. split.
  - intros [k [<- Hk]]. apply in_seq in Hk. lia.
  - intros H. exists (Z.to_nat (t - a)). split; [lia|]. apply in_seq. lia.
Qed.

Lemma getZ_map_not l i : 0 <= i < Z.of_nat (length l) -> bits l ->
  getZ (map (fun x => Not_propagate 1 x) l) i = 1 - getZ l i.
Proof.
  intros Hi H. unfold getZ.
  rewrite (nth_indep _ 0 (Not_propagate 1 0)) by (rewrite map_length; lia).
  rewrite map_nth. apply Not1. apply (getZ_bit l i H).
Qed.

Lemma forallb_map' {A B} (f : A -> B) (g : B -> bool) l : forallb g (map f l) = forallb (fun x => g (f x)) l.
Proof. induction l as [|x l IH]; cbn [map forallb]; [reflexivity | rewrite IH; reflexivity]. Qed.
Lemma existsb_map' {A B} (f : A -> B) (g : B -> bool) l : existsb g (map f l) = existsb (fun x => g (f x)) l.
Proof. induction l as [|x l IH]; cbn [map existsb]; [reflexivity | rewrite IH; reflexivity]. Qed.
Lemma forallb_ext_in' {A} (f g : A -> bool) l : (forall x, In x l -> f x = g x) -> forallb f l = forallb g l.
Proof.
  induction l as [|x l IH]; intros H; cbn [forallb]; [reflexivity|].
  rewrite (H x (or_introl eq_refl)), IH; [reflexivity|]. intros y Hy. apply H. right. exact Hy.
Qed.

Lemma existsb_b2z {A} (f : A -> bool) l : existsb (fun x => b2z (f x) =? 1) l = existsb f l.
Proof. induction l as [|x l IH]; cbn [existsb]; [reflexivity | rewrite b2z_eqb1, IH; reflexivity]. Qed.

(* ---- _FFunction as a boolean formula over indices ----------------------------------------------- *)
Definition Fcond (l : list Z) (t : Z) : bool :=
  let w := Z.of_nat (length l) in
  (getZ l (w - 1 - 2 * t) =? 1) && forallb (fun u => getZ l (w - 2 * u) =? 0) (seqZ 1 (t + 1)).

Lemma FFunction_eq l : bits l ->
  m_FFunction l = b2z (existsb (Fcond l) (seqZ 0 ((Z.of_nat (length l) + 1) / 2))).
Proof.
  intros H. unfold m_FFunction. cbv zeta. set (w := Z.of_nat (length l)).
  set (an := map (fun x => Not_propagate 1 x) l).
  set (prod := fun t => match getZ l (w - 1 - 2 * t) :: map (fun u => getZ an (w - 2 * u)) (seqZ 1 (t + 1)) with
                        | [x] => x | _ => m_And 1 (getZ l (w - 1 - 2 * t) :: map (fun u => getZ an (w - 2 * u)) (seqZ 1 (t + 1))) end).
  assert (Hprod : forall t, 0 <= t < (w + 1) / 2 -> prod t = b2z (Fcond l t)).
  { intros t Ht. unfold prod, Fcond. fold w.
    assert (Hb : bits (getZ l (w - 1 - 2 * t) :: map (fun u => getZ an (w - 2 * u)) (seqZ 1 (t + 1)))).
    { constructor; [apply getZ_bit, H|]. apply Forall_forall. intros x Hx. apply in_map_iff in Hx as [u [<- Hu]].
      apply In_seqZ in Hu. subst an. rewrite getZ_map_not by (try exact H; fold w; lia).
      pose proof (getZ_bit l (w - 2 * u) H) as [E | E]; rewrite E; [right | left]; reflexivity. }
    assert (E : match getZ l (w - 1 - 2 * t) :: map (fun u => getZ an (w - 2 * u)) (seqZ 1 (t + 1)) with
                | [x] => x | _ => m_And 1 (getZ l (w - 1 - 2 * t) :: map (fun u => getZ an (w - 2 * u)) (seqZ 1 (t + 1))) end
                = b2z (all1 (getZ l (w - 1 - 2 * t) :: map (fun u => getZ an (w - 2 * u)) (seqZ 1 (t + 1))))).
    { destruct (map (fun u => getZ an (w - 2 * u)) (seqZ 1 (t + 1))) as [|y ys] eqn:Em.
      - cbn [all1 forallb]. rewrite andb_true_r. inversion Hb; subst. apply bit_is_b2z; assumption.
      - apply m_And_eq; [exact Hb | discriminate]. }
    rewrite E. f_equal. cbn [all1 forallb]. f_equal. rewrite forallb_map'. apply forallb_ext_in'.
    intros u Hu. apply In_seqZ in Hu. subst an. rewrite getZ_map_not by (try exact H; fold w; lia).
    pose proof (getZ_bit l (w - 2 * u) H) as [E' | E']; rewrite E'; reflexivity. }
  change (match map prod (seqZ 0 ((w + 1) / 2)) with [x] => Buf_propagate 1 x | _ => m_Or 1 (map prod (seqZ 0 ((w + 1) / 2))) end
          = b2z (existsb (Fcond l) (seqZ 0 ((w + 1) / 2)))).
  assert (Hm : map prod (seqZ 0 ((w + 1) / 2)) = map (fun t => b2z (Fcond l t)) (seqZ 0 ((w + 1) / 2))).
  { apply map_ext_in. intros t Ht. apply In_seqZ in Ht. apply Hprod; lia. }
  rewrite Hm.
  assert (Hb : bits (map (fun t => b2z (Fcond l t)) (seqZ 0 ((w + 1) / 2)))).
  { apply Forall_forall. intros x Hx. apply in_map_iff in Hx as [t [<- _]]. apply bit_b2z. }
  assert (E : any1 (map (fun t => b2z (Fcond l t)) (seqZ 0 ((w + 1) / 2))) = existsb (Fcond l) (seqZ 0 ((w + 1) / 2))).
  { unfold any1. rewrite existsb_map'. apply existsb_b2z. }
  rewrite <- E.
  destruct (map (fun t => b2z (Fcond l t)) (seqZ 0 ((w + 1) / 2))) as [|x [|y ys]] eqn:El.
  - reflexivity.
  - inversion Hb; subst. cbn [any1 existsb]. rewrite Buf1, orb_false_r by assumption. apply bit_is_b2z; assumption.
  - apply m_Or_eq, Hb.
Qed.

(* ---- position of the leading one of a bit list (LSB first); -1 when there is none ---------------- *)
Fixpoint top (l : list Z) : Z :=
  match l with
  | [] => -1
  | x :: t => let r := top t in if 0 <=? r then r + 1 else if x =? 1 then 0 else -1
  end.

Lemma getZ_cons x t i : 0 <= i -> getZ (x :: t) (i + 1) = getZ t i.
Proof. intros. unfold getZ. replace (Z.to_nat (i + 1)) with (S (Z.to_nat i)) by lia. reflexivity. Qed.

Lemma getZ_0 x t : getZ (x :: t) 0 = x.
Proof. reflexivity. Qed.

Lemma top_spec l : bits l ->
  -1 <= top l < Z.of_nat (length l) /\ (0 <= top l -> getZ l (top l) = 1) /\ (forall i, top l < i -> getZ l i = 0).
Proof.
  induction l as [|x t IH]; intros H.
  - cbn [top length]. repeat split; try lia. intros i _. unfold getZ. destruct (Z.to_nat i); reflexivity.
  - inversion H as [|? ? Hx Ht]; subst. destruct (IH Ht) as [Hr [H1 H0]]. cbn [top length]. cbv zeta.
    destruct (Z.leb_spec 0 (top t)) as [Hp|Hp].
    + repeat split; try lia.
      * intros _. rewrite getZ_cons by lia. apply H1; lia.
      * intros i Hi. replace i with ((i - 1) + 1) by lia. rewrite getZ_cons by lia. apply H0. lia.
    + destruct (Z.eqb_spec x 1) as [->|Hx1].
      * repeat split; try lia. intros i Hi. replace i with ((i - 1) + 1) by lia. rewrite getZ_cons by lia. apply H0. lia.
      * repeat split; try lia. intros i Hi. destruct (Z.eq_dec i 0) as [->|Hi0].
        -- rewrite getZ_0. destruct Hx; lia.
        -- replace i with ((i - 1) + 1) by lia. rewrite getZ_cons by lia. apply H0. lia.
Qed.

(* _FFunction of an even-length level = parity of the position of its leading one *)
Lemma F_top l : bits l -> Z.of_nat (length l) mod 2 = 0 ->
  m_FFunction l = if 0 <=? top l then top l mod 2 else 0.
Proof.
  intros H Hev. rewrite FFunction_eq by exact H. destruct (top_spec l H) as [Hr [H1 H0]].
  set (w := Z.of_nat (length l)) in *. set (p := top l) in *.
  assert (Hiff : existsb (Fcond l) (seqZ 0 ((w + 1) / 2)) = true <-> (0 <= p /\ p mod 2 = 1)).
  { rewrite existsb_exists. split.
    - intros [t [Ht Hc]]. apply In_seqZ in Ht. unfold Fcond in Hc. fold w in Hc.
      apply andb_true_iff in Hc as [Hq Hz]. apply Z.eqb_eq in Hq. rewrite forallb_forall in Hz.
      assert (Hqp : w - 1 - 2 * t <= p).
      { destruct (Z.le_gt_cases (w - 1 - 2 * t) p); [assumption|]. rewrite H0 in Hq by lia. discriminate. }
      split; [lia|].
      destruct (Z.eq_dec (p mod 2) 1) as [|Hne]; [assumption|]. exfalso.
      assert (Hu : In ((w - p) / 2) (seqZ 1 (t + 1))) by (apply In_seqZ; lia).
      specialize (Hz _ Hu). apply Z.eqb_eq in Hz.
      replace (w - 2 * ((w - p) / 2)) with p in Hz by lia. rewrite H1 in Hz by lia. discriminate.
    - intros [Hp Hodd]. exists ((w - 1 - p) / 2). split; [apply In_seqZ; lia|].
      unfold Fcond. fold w. apply andb_true_iff. split.
      + replace (w - 1 - 2 * ((w - 1 - p) / 2)) with p by lia. apply Z.eqb_eq, H1, Hp.
      + apply forallb_forall. intros u Hu. apply In_seqZ in Hu. apply Z.eqb_eq, H0. lia. }
  destruct (Z.leb_spec 0 p) as [Hp|Hp].
  - destruct (Z.eq_dec (p mod 2) 1) as [E|E].
    + rewrite E. replace (existsb (Fcond l) (seqZ 0 ((w + 1) / 2))) with true; [reflexivity|].
      symmetry. apply Hiff. lia.
    + replace (p mod 2) with 0 by lia.
      destruct (existsb (Fcond l) (seqZ 0 ((w + 1) / 2))); [|reflexivity].
      exfalso. destruct Hiff as [Hi _]. specialize (Hi eq_refl). lia.
  - destruct (existsb (Fcond l) (seqZ 0 ((w + 1) / 2))); [|reflexivity].
    exfalso. destruct Hiff as [Hi _]. specialize (Hi eq_refl). lia.
Qed.

(* ---- one OR level halves the position of the leading one ---------------------------------------- *)
Lemma or_pairs_spec n : forall l, bits l -> length l = (2 * n)%nat ->
  bits (m_or_pairs l) /\ length (m_or_pairs l) = n /\ top (m_or_pairs l) = top l / 2.
Proof.
  induction n as [|n IH]; intros l H Hl.
  - destruct l; [|discriminate]. cbn. repeat split; constructor.
  - destruct l as [|x [|y t]]; try (cbn in Hl; lia).
    inversion H as [|? ? Hx H']; subst. inversion H' as [|? ? Hy Ht]; subst.
    destruct (IH t Ht ltac:(cbn in Hl; lia)) as [Hb [Hlen Htop]].
    cbn [m_or_pairs]. rewrite Or1 by assumption. repeat split.
    + constructor; [|exact Hb]. destruct Hx as [-> | ->]; destruct Hy as [-> | ->]; [left|right|right|right]; reflexivity.
    + cbn [length]. lia.
    + cbn [top]. cbv zeta. rewrite Htop.
      destruct (top_spec t Ht) as [Hr _].
      destruct (Z.leb_spec 0 (top t)) as [Hp|Hp].
      * destruct (Z.leb_spec 0 (top t / 2)); [|lia].
        destruct (Z.leb_spec 0 (top t + 1)); [|lia]. lia.
      * replace (top t) with (-1) by lia. change (-1 / 2) with (-1). cbn [Z.leb Z.compare].
        destruct Hx as [-> | ->]; destruct Hy as [-> | ->]; reflexivity.
Qed.

(* value of a list of bits, least significant first *)
Fixpoint val (l : list Z) : Z := match l with [] => 0 | b :: t => b + 2 * val t end.

Lemma pow2_nat k : Z.of_nat (2 ^ k) = 2 ^ Z.of_nat k.
Proof. rewrite Nat2Z.inj_pow. reflexivity. Qed.

Lemma clz_levels_spec k : forall l, bits l -> length l = (2 ^ k)%nat ->
  let p := top l in
  let '(rs, last) := m_clz_levels k l in
  bits rs /\ length rs = k /\ val rs = 2 ^ Z.of_nat k - 1 - Z.max p 0 /\ last = [if 0 <=? p then 1 else 0].
Proof.
  induction k as [|k IH]; intros l H Hl; cbv zeta.
  - cbn [m_clz_levels]. destruct l as [|x [|y t]]; try (cbn in Hl; lia).
    inversion H as [|? ? Hx _]; subst. repeat split; try constructor.
    + cbn. destruct Hx as [-> | ->]; reflexivity.
    + cbn [top]. cbv zeta. cbn [Z.leb Z.compare]. destruct Hx as [-> | ->]; reflexivity.
  - cbn [m_clz_levels]. cbv zeta.
    assert (Hl2 : length l = (2 * 2 ^ k)%nat) by (rewrite Hl; cbn [Nat.pow]; lia).
    destruct (or_pairs_spec (2 ^ k) l H Hl2) as [Hb [Hlen Htop]].
    specialize (IH (m_or_pairs l) Hb Hlen). cbv zeta in IH.
    destruct (m_clz_levels k (m_or_pairs l)) as [rs last]. destruct IH as [Hrs [Hlr [Hval Hlast]]].
    destruct (top_spec l H) as [Hr _].
    assert (Hev : Z.of_nat (length l) mod 2 = 0) by (rewrite Hl2; lia).
    rewrite F_top by assumption.
    assert (HF : bit (if 0 <=? top l then top l mod 2 else 0)).
    { destruct (0 <=? top l); [|left; reflexivity]. pose proof (Z.mod_pos_bound (top l) 2). unfold bit. lia. }
    rewrite Not1 by exact HF. repeat split.
    + constructor; [|exact Hrs]. destruct HF as [-> | ->]; [right | left]; reflexivity.
    + cbn [length]. lia.
    + cbn [val]. rewrite Hval, Htop. replace (Z.of_nat (S k)) with (Z.of_nat k + 1) by lia.
      rewrite Z.pow_add_r by lia. change (2 ^ 1) with 2.
      destruct (Z.leb_spec 0 (top l)); lia.
    + rewrite Hlast, Htop. destruct (Z.leb_spec 0 (top l)); destruct (Z.leb_spec 0 (top l / 2)); try reflexivity; lia.
Qed.

(* ---- level 0: the bits of a ----------------------------------------------------------------------- *)
Definition bitlist (n a : Z) : list Z := map (fun i => bitZ a i) (seqZ 0 n).

Lemma getZ_repeat1 n i : 0 <= i < n -> getZ (repeat 1 (Z.to_nat n)) i = 1.
Proof.
  intros Hi. unfold getZ. assert (Hin : In (nth (Z.to_nat i) (repeat 1 (Z.to_nat n)) 0) (repeat 1 (Z.to_nat n))).
  { apply nth_In. rewrite repeat_length. lia. }
  apply repeat_spec in Hin. exact Hin.
Qed.

Lemma BitsLSBF_eq n a : 0 <= n -> BitsLSBF_propagate n (repeat 1 (Z.to_nat n)) a = bitlist n a.
Proof.
  intros Hn. unfold BitsLSBF_propagate, bitlist. cbv zeta. apply map_ext_in. intros i Hi. apply In_seqZ in Hi.
  rewrite getZ_repeat1 by lia. rewrite Wire_put_umod by lia. unfold py_shr. fold (bitZ a i).
  apply umod_small. pose proof (bitZ_range a i ltac:(lia)). change (2 ^ 1) with 2. lia.
Qed.

Lemma seqZ_length a b : length (seqZ a b) = Z.to_nat (b - a).
Proof. unfold seqZ. rewrite map_length, seq_length. reflexivity. Qed.

Lemma bitlist_bits n a : bits (bitlist n a).
Proof.
  apply Forall_forall. intros x Hx. apply in_map_iff in Hx as [i [<- Hi]]. apply In_seqZ in Hi.
  rewrite bitZ_b2z by lia. apply bit_b2z.
Qed.

Lemma nth_seqZ a b i d : 0 <= i < b - a -> nth (Z.to_nat i) (seqZ a b) d = a + i.
Proof.
  intros. unfold seqZ.
  rewrite (nth_indep _ d ((fun k : nat => a + Z.of_nat k) 0%nat)) by (rewrite map_length, seq_length; lia).
  rewrite (map_nth (fun k : nat => a + Z.of_nat k)). rewrite seq_nth by lia. lia.
Qed.

Lemma getZ_bitlist n a i : 0 <= n -> 0 <= a < 2 ^ n -> 0 <= i -> getZ (bitlist n a) i = b2z (Z.testbit a i).
Proof.
  intros Hn Ha Hi. unfold getZ, bitlist. destruct (Z.ltb_spec i n) as [Hlt|Hge].
  - rewrite (nth_indep _ 0 (bitZ a 0)) by (rewrite map_length, seqZ_length; lia).
    rewrite (map_nth (fun i0 => bitZ a i0)). rewrite nth_seqZ by lia. rewrite bitZ_b2z by lia. reflexivity.
  - rewrite nth_overflow by (rewrite map_length, seqZ_length; lia).
    rewrite <- (Z.mod_small a (2 ^ n)) by lia. rewrite Z.mod_pow2_bits_high by lia. reflexivity.
Qed.

Lemma top_bitlist n a : 0 <= n -> 0 <= a < 2 ^ n -> top (bitlist n a) = if a =? 0 then -1 else Z.log2 a.
Proof.
  intros Hn Ha. destruct (top_spec _ (bitlist_bits n a)) as [Hr [H1 H0]]. set (p := top (bitlist n a)) in *.
  destruct (Z.eqb_spec a 0) as [->|Hne].
  - destruct (Z.le_gt_cases 0 p) as [Hp|Hp]; [|lia]. specialize (H1 Hp).
    rewrite getZ_bitlist in H1 by lia. rewrite Z.bits_0 in H1. discriminate.
  - assert (Hlog : Z.testbit a (Z.log2 a) = true) by (apply Z.bit_log2; lia).
    assert (Hl0 : 0 <= Z.log2 a) by apply Z.log2_nonneg.
    assert (Hle : Z.log2 a <= p).
    { destruct (Z.le_gt_cases (Z.log2 a) p); [assumption|]. specialize (H0 (Z.log2 a) ltac:(lia)).
      rewrite getZ_bitlist, Hlog in H0 by lia. discriminate. }
    specialize (H1 ltac:(lia)). rewrite getZ_bitlist in H1 by lia.
    destruct (Z.eq_dec p (Z.log2 a)) as [|Hne2]; [assumption|].
    rewrite Z.bits_above_log2 in H1 by lia. discriminate.
Qed.

(* ---- the concatenation of single-bit wires ---------------------------------------------------------- *)
Lemma cat_bits rs : bits rs -> fold_right (fun p acc => cat_step acc p) 0 (map (fun b => (1, b)) rs) = val rs.
Proof.
  induction rs as [|b rs IH]; intros H; cbn [map fold_right val]; [reflexivity|].
  inversion H as [|? ? Hb Hr]; subst. rewrite IH by exact Hr. unfold cat_step, py_shl.
  rewrite lor_add_disjoint by (destruct Hb as [-> | ->]; change (2 ^ 1) with 2; lia).
  change (2 ^ 1) with 2. lia.
Qed.

Lemma log2_up_le_pow aw : 1 <= aw -> aw <= 2 ^ Z.log2_up aw.
Proof.
  intros H. destruct (Z.eq_dec aw 1) as [->|Hne]; [cbn; lia|].
  pose proof (Z.log2_up_spec aw ltac:(lia)). lia.
Qed.

Lemma CountLeadingZeros_correct aw rw a : 1 <= aw -> Z.log2_up aw <= rw -> 0 <= a < 2 ^ aw ->
  m_CountLeadingZeros aw rw a = (spec_clz aw rw a, spec_clz_z a).
Proof.
  intros Haw Hrw Ha. unfold m_CountLeadingZeros. cbv zeta.
  set (k := Z.log2_up aw). assert (Hk : 0 <= k) by apply Z.log2_up_nonneg. assert (Hkrw : k <= rw) by exact Hrw.
  set (N := 2 ^ k). assert (HN : aw <= N) by (apply log2_up_le_pow; lia).
  assert (HaN : 0 <= a < 2 ^ N) by (pose proof (pow2_le aw N ltac:(lia)); lia).
  assert (HN0 : 0 < N) by (apply pow2_pos; lia).
  rewrite ZeroExtend_eq, (umod_small N a) by lia.
  rewrite BitsLSBF_eq by lia.
  pose proof (clz_levels_spec (Z.to_nat k) (bitlist N a) (bitlist_bits N a)) as Hlev.
  assert (Hlen : length (bitlist N a) = (2 ^ Z.to_nat k)%nat).
  { unfold bitlist. rewrite map_length, seqZ_length. apply Nat2Z.inj. rewrite pow2_nat, !Z2Nat.id by lia. subst N. lia. }
  specialize (Hlev Hlen). cbv zeta in Hlev. rewrite top_bitlist in Hlev by lia.
  destruct (m_clz_levels (Z.to_nat k) (bitlist N a)) as [rs last].
  destruct Hlev as [Hrs [Hlr [Hval Hlast]]]. rewrite Z2Nat.id in Hval by lia. fold N in Hval.
  rewrite ConcatenateLSBF_eq, cat_fold_rev, cat_bits by (try lia; exact Hrs).
  subst last. unfold spec_clz, spec_clz_z, clz.
  pose proof (pow2_le k rw ltac:(lia)) as Hkr. fold N in Hkr.
  destruct (Z.eqb_spec a 0) as [->|Hne].
  - (* a = 0: z = 1, the output is the constant aw *)
    cbn [Z.leb Z.compare getZ nth Z.to_nat]. change (getZ [0] 0) with 0. rewrite Not1 by (left; reflexivity).
    rewrite Mux2_eq by lia. change (1 - 0) with 1. change (1 mod 2 =? 1) with true. cbv iota.
    rewrite Constant_eq, umod_umod by lia. reflexivity.
  - assert (Hl0 : 0 <= Z.log2 a) by apply Z.log2_nonneg.
    assert (Hl1 : Z.log2 a < aw) by (apply Z.log2_lt_pow2; lia).
    destruct (Z.leb_spec 0 (Z.log2 a)) as [_|]; [|lia].
    change (getZ [1] 0) with 1. rewrite Not1 by (right; reflexivity).
    rewrite Mux2_eq by lia. change (1 - 1) with 0. change (0 mod 2 =? 1) with false. cbv iota.
    rewrite Hval. rewrite Z.max_l by lia.
    rewrite (umod_small k) by (fold N; lia).
    rewrite ZeroExtend_eq, (umod_small rw (N - 1 - Z.log2 a)) by lia.
    destruct (Z.gtb_spec N aw) as [Hgt|Hle].
    + rewrite Sub_eq, Constant_eq by lia. rewrite umod_sub_r, umod_umod by lia. f_equal. f_equal. lia.
    + f_equal. f_equal. lia.
Qed.
