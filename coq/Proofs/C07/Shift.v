(* C07 — the barrel shifters: ShiftRight (logical / arithmetic / arithmetic wire), ShiftLeft, RotateRight,
   RotateLeft, for every data width, amount width and result width; induction over the stages. *)
From V Require Import Base.Bits Gen.WireOps Gen.Helpers Gen.Prims Spec.C07 Model.StructArith
  Proofs.C07.Prims Proofs.C07.Struct Proofs.C07.Rotate.

Lemma mod_pow2_succ c n : 0 <= n -> c mod 2 ^ (n + 1) = c mod 2 + 2 * ((c / 2) mod 2 ^ n).
Proof.
  intros. rewrite Z.pow_add_r by lia. change (2 ^ 1) with 2. rewrite (Z.mul_comm (2 ^ n)).
  apply Z.rem_mul_r; [lia | apply pow2_pos; lia].
Qed.

Section Stages.
  (* an "action" act n x = the value x moved by n positions; P = the range invariant of the stage wires *)
  Variables (P : Z -> Prop) (act : Z -> Z -> Z) (shiftc : Z -> Z -> Z) (wp b K : Z).
  Hypothesis act0 : forall x, P x -> act 0 x = x.
  Hypothesis act_add : forall m n x, 0 <= m -> 0 <= n -> P x -> act n (act m x) = act (m + n) x.
  Hypothesis act_P : forall n x, 0 <= n -> P x -> P (act n x).
  Hypothesis stage : forall i x, 0 <= i < K -> P x -> umod wp (shiftc (py_shl 1 i) x) = act (2 ^ i) x.
  Hypothesis fit : forall x, P x -> umod wp x = x.
  Hypothesis Hwp : 0 <= wp.

  Lemma stages_eq n : forall i last, 0 <= i -> i + Z.of_nat n <= K -> P last ->
    m_stages shiftc wp b n i last = act (((b / 2 ^ i) mod 2 ^ Z.of_nat n) * 2 ^ i) last.
  Proof.
    induction n as [|n IH]; intros i last Hi HK HP.
    - cbn [m_stages Z.of_nat]. rewrite Z.pow_0_r, Z.mod_1_r, Z.mul_0_l. symmetry. apply act0, HP.
    - cbn [m_stages]. rewrite Bit_eq by lia. rewrite Mux2_eq by lia.
      set (bit := (b / 2 ^ i) mod 2).
      assert (Hbit : bit = 0 \/ bit = 1) by (subst bit; pose proof (Z.mod_pos_bound (b / 2 ^ i) 2); lia).
      assert (Hprer : umod wp (if bit mod 2 =? 1 then shiftc (py_shl 1 i) last else last) = act (bit * 2 ^ i) last).
      { destruct Hbit as [-> | ->].
        - change (0 mod 2 =? 1) with false. cbv iota. rewrite Z.mul_0_l, act0 by exact HP. apply fit, HP.
        - change (1 mod 2 =? 1) with true. cbv iota. rewrite Z.mul_1_l. apply stage; [lia | exact HP]. }
      rewrite Hprer.
      pose proof (pow2_pos i Hi) as Hp.
      assert (Hb0 : 0 <= bit * 2 ^ i) by (destruct Hbit as [-> | ->]; lia).
      rewrite IH; [ | lia | lia | apply act_P; [exact Hb0 | exact HP] ].
      assert (Hm : 0 <= (b / 2 ^ (i + 1)) mod 2 ^ Z.of_nat n * 2 ^ (i + 1)).
      { pose proof (Z.mod_pos_bound (b / 2 ^ (i + 1)) (2 ^ Z.of_nat n) (pow2_pos (Z.of_nat n) ltac:(lia))).
        pose proof (pow2_pos (i + 1) ltac:(lia)). nia. }
      rewrite act_add by (try lia; exact HP). f_equal.
      replace (Z.of_nat (S n)) with (Z.of_nat n + 1) by lia.
      rewrite mod_pow2_succ by lia. fold bit.
      rewrite (Z.pow_add_r 2 i 1) by lia. change (2 ^ 1) with 2.
      rewrite <- (Z.div_div b (2 ^ i) 2) by lia. ring.
  Qed.

  (* all wb stages, starting from bit 0, for an amount that fits the amount port *)
  Lemma stages_all wb last : 0 <= wb <= K -> 0 <= b < 2 ^ wb -> P last ->
    m_stages shiftc wp b (Z.to_nat wb) 0 last = act b last.
  Proof.
    intros Hwb Hb HP. rewrite stages_eq by (try lia; exact HP).
    rewrite Z2Nat.id by lia. rewrite Z.pow_0_r, Z.div_1_r, Z.mul_1_r, Z.mod_small by lia. reflexivity.
  Qed.
End Stages.

Definition inrange (w x : Z) : Prop := 0 <= x < 2 ^ w.

(* ---- right shift inside w bits ---------------------------------------------------------------- *)
Lemma shr_stages w wb b x : 0 <= w -> 0 <= wb -> 0 <= b < 2 ^ wb -> 0 <= x < 2 ^ w ->
  m_stages (fun n y => ShiftRightConstant_propagate w n y) w b (Z.to_nat wb) 0 x = x / 2 ^ b.
Proof.
  intros Hw Hwb Hb Hx.
  apply (stages_all (inrange w) (fun n y => y / 2 ^ n) _ w b wb); unfold inrange; [ | | | | | lia | lia | lia | lia ].
  - intros y _. rewrite Z.pow_0_r. apply Z.div_1_r.
  - intros m n y Hm Hn _. rewrite Z.div_div; [ | apply Z.pow_nonzero; lia | apply pow2_pos; lia ]. rewrite <- Z.pow_add_r by lia. reflexivity.
  - intros n y Hn Hy. pose proof (pow2_pos n Hn). split; [apply Z.div_pos; lia|].
    apply Z.le_lt_trans with y; [|lia]. apply Z.div_le_upper_bound; nia.
  - intros i y Hi Hy. pose proof (pow2_pos i ltac:(lia)).
    unfold py_shl. rewrite Z.shiftl_1_l. rewrite ShiftRightConstant_eq by lia. rewrite umod_umod by lia.
    apply umod_small. pose proof (pow2_pos (2 ^ i) ltac:(lia)). split; [apply Z.div_pos; lia|].
    apply Z.le_lt_trans with y; [|lia]. apply Z.div_le_upper_bound; nia.
  - intros y Hy. apply umod_small; lia.
Qed.

Lemma ShiftRight_logical_correct wa wb wr a b :
  0 <= wa -> 1 <= wb -> 0 <= wr -> 0 <= a < 2 ^ wa -> 0 <= b < 2 ^ wb ->
  m_ShiftRight ALogical wa wb wr a b = spec_shr wr a b.
Proof.
  intros. unfold m_ShiftRight, spec_shr. cbv zeta. cbv iota beta.
  rewrite shr_stages by lia. apply Buf_eq; lia.
Qed.

(* the sign fill produced by a we-bit pre-extension reaches the top of the result when wr + b <= we *)
Lemma sar_fill wa we wr a b :
  1 <= wa <= we -> 0 <= wr -> 0 <= a < 2 ^ wa -> 0 <= b ->
  wr + b <= we \/ a < 2 ^ (wa - 1) ->
  umod wr (umod we (sgn wa a) / 2 ^ b) = umod wr (sgn wa a / 2 ^ b).
Proof.
  intros Hwa Hwr Ha Hb Hg.
  pose proof (pow2_le wa we ltac:(lia)).
  unfold sgn. destruct (Z.ltb_spec a (2 ^ (wa - 1))) as [Hs|Hs].
  - rewrite (umod_small we a) by lia. reflexivity.
  - assert (Hg' : wr + b <= we) by lia.
    pose proof (pow2_double wa ltac:(lia)) as Hd.
    rewrite (umod_eq we (a - 2 ^ wa) (a - 2 ^ wa + 2 ^ we) (-1)) by lia.
    rewrite (umod_small we) by lia.
    rewrite (pow2_split b we) by lia.
    rewrite Z.div_add by (apply Z.pow_nonzero; lia).
    rewrite (pow2_split wr (we - b)) by lia. apply umod_add_mul; lia.
Qed.

(* the arithmetic modes for whatever pre-extension width the constructor uses (Model: sar_ext) *)
Lemma ShiftRight_arith_ext wa wb wr a b :
  1 <= wa <= sar_ext wa wb wr -> 1 <= wb -> 0 <= wr -> 0 <= a < 2 ^ wa -> 0 <= b < 2 ^ wb ->
  wr + b <= sar_ext wa wb wr \/ a < 2 ^ (wa - 1) ->
  m_ShiftRight AArith wa wb wr a b = spec_sar wa wr a b.
Proof.
  intros Hwa Hwb Hwr Ha Hb Hg. unfold m_ShiftRight, spec_sar. cbv zeta. cbv iota beta.
  set (we := sar_ext wa wb wr) in *.
  rewrite SignExtend_eq by lia.
  rewrite shr_stages by (try lia; apply umod_range; lia).
  rewrite Buf_eq by lia. apply sar_fill; lia.
Qed.

Lemma ShiftRight_wire_ext wa wb wr v a b :
  1 <= wa <= sar_ext wa wb wr -> 1 <= wb -> 0 <= wr -> 0 <= a < 2 ^ wa -> 0 <= b < 2 ^ wb ->
  wr + b <= sar_ext wa wb wr \/ a < 2 ^ (wa - 1) \/ v mod 2 = 0 ->
  m_ShiftRight (AWire v) wa wb wr a b = if v mod 2 =? 1 then spec_sar wa wr a b else spec_shr wr a b.
Proof.
  intros Hwa Hwb Hwr Ha Hb Hg. unfold m_ShiftRight, spec_sar, spec_shr. cbv zeta. cbv iota beta.
  set (we := sar_ext wa wb wr) in *.
  pose proof (pow2_le wa we ltac:(lia)).
  rewrite Mux2_eq, SignExtend_eq, ZeroExtend_eq by lia.
  rewrite shr_stages by (try lia; apply umod_range; lia).
  rewrite Buf_eq by lia. pose proof (Z.mod_pos_bound v 2).
  destruct (Z.eqb_spec (v mod 2) 1) as [E|E].
  - rewrite umod_umod by lia. apply sar_fill; lia.
  - rewrite umod_umod, (umod_small _ a) by lia. reflexivity.
Qed.

(* sar_ext is at least wa + 2^wb (exactly that before the repair of C07-SAR-WIDE, max(wa,wr) + 2^wb after) *)
Lemma sar_ext_ge wa wb wr : 1 <= wb -> wa + 2 ^ wb <= sar_ext wa wb wr.
Proof. intros. unfold sar_ext, py_shl. rewrite Z.shiftl_1_l. lia. Qed.

Lemma ShiftRight_arith_correct wa wb wr a b :
  1 <= wa -> 1 <= wb -> 0 <= wr -> 0 <= a < 2 ^ wa -> 0 <= b < 2 ^ wb ->
  wr + b <= wa + 2 ^ wb \/ a < 2 ^ (wa - 1) ->
  m_ShiftRight AArith wa wb wr a b = spec_sar wa wr a b.
Proof.
  intros. pose proof (sar_ext_ge wa wb wr ltac:(lia)). pose proof (pow2_pos wb ltac:(lia)).
  apply ShiftRight_arith_ext; lia.
Qed.

Lemma ShiftRight_wire_correct wa wb wr v a b :
  1 <= wa -> 1 <= wb -> 0 <= wr -> 0 <= a < 2 ^ wa -> 0 <= b < 2 ^ wb ->
  wr + b <= wa + 2 ^ wb \/ a < 2 ^ (wa - 1) \/ v mod 2 = 0 ->
  m_ShiftRight (AWire v) wa wb wr a b = if v mod 2 =? 1 then spec_sar wa wr a b else spec_shr wr a b.
Proof.
  intros. pose proof (sar_ext_ge wa wb wr ltac:(lia)). pose proof (pow2_pos wb ltac:(lia)).
  apply ShiftRight_wire_ext; lia.
Qed.

(* ---- left shift inside w = max(wa, wr) bits --------------------------------------------------- *)
Lemma shl_stages w wb b x : 0 <= w -> 0 <= wb -> 0 <= b < 2 ^ wb -> 0 <= x < 2 ^ w ->
  m_stages (fun n y => ShiftLeftConstant_propagate w n y) w b (Z.to_nat wb) 0 x = umod w (x * 2 ^ b).
Proof.
  intros Hw Hwb Hb Hx.
  apply (stages_all (inrange w) (fun n y => umod w (y * 2 ^ n)) _ w b wb); unfold inrange; [ | | | | | lia | lia | lia | lia ].
  - intros y Hy. rewrite Z.pow_0_r, Z.mul_1_r. apply umod_small; lia.
  - intros m n y Hm Hn _. rewrite umod_mul_l by lia. rewrite <- Z.mul_assoc, <- Z.pow_add_r by lia. reflexivity.
  - intros n y Hn Hy. apply umod_range; lia.
  - intros i y Hi Hy. pose proof (pow2_pos i ltac:(lia)).
    unfold py_shl. rewrite Z.shiftl_1_l. rewrite ShiftLeftConstant_eq by lia. apply umod_umod; lia.
  - intros y Hy. apply umod_small; lia.
Qed.

Lemma ShiftLeft_correct wa wb wr a b :
  0 <= wa -> 1 <= wb -> 0 <= wr -> 0 <= a < 2 ^ wa -> 0 <= b < 2 ^ wb ->
  m_ShiftLeft wa wb wr a b = spec_shl wr a b.
Proof.
  intros Hwa Hwb Hwr Ha Hb. unfold m_ShiftLeft, spec_shl. cbv zeta.
  pose proof (pow2_le wa (Z.max wa wr) ltac:(lia)).
  rewrite shl_stages by lia. rewrite Buf_eq by lia. apply umod_umod_le; lia.
Qed.

(* ---- rotations -------------------------------------------------------------------------------- *)
(* ws = width of the per-stage `shifted` wires; any ws >= wa works *)
Lemma rotr_stages wa wb ws b x : 1 <= wa <= ws -> 1 <= wb -> 2 ^ (wb - 1) <= wa -> 0 <= b < 2 ^ wb -> 0 <= x < 2 ^ wa ->
  m_stages (fun n y => RotateRightConstant_propagate wa ws n y) wa b (Z.to_nat wb) 0 x = rotr wa x b.
Proof.
  intros Hwa Hwb Hst Hb Hx.
  apply (stages_all (inrange wa) (fun n y => rotr wa y n) _ wa b wb); unfold inrange; [ | | | | | lia | lia | lia | lia ].
  - intros y Hy. apply rotr_0; lia.
  - intros m n y _ _ Hy. apply rotr_add; lia.
  - intros n y _ Hy. apply rotr_range; lia.
  - intros i y Hi Hy. pose proof (pow2_pos i ltac:(lia)).
    assert (2 ^ i <= 2 ^ (wb - 1)) by (apply pow2_le; lia).
    unfold py_shl. rewrite Z.shiftl_1_l. apply RotateRightConstant_low; lia.
  - intros y Hy. apply umod_small; lia.
Qed.

Lemma rotl_stages wa wb ws b x : 1 <= wa <= ws -> 1 <= wb -> 2 ^ (wb - 1) <= wa -> 0 <= b < 2 ^ wb -> 0 <= x < 2 ^ wa ->
  m_stages (fun n y => RotateLeftConstant_propagate wa ws n y) wa b (Z.to_nat wb) 0 x = rotl wa x b.
Proof.
  intros Hwa Hwb Hst Hb Hx.
  apply (stages_all (inrange wa) (fun n y => rotl wa y n) _ wa b wb); unfold inrange; [ | | | | | lia | lia | lia | lia ].
  - intros y Hy. apply rotl_0; lia.
  - intros m n y _ _ Hy. apply rotl_add; lia.
  - intros n y _ Hy. apply rotl_range; lia.
  - intros i y Hi Hy. pose proof (pow2_pos i ltac:(lia)).
    assert (2 ^ i <= 2 ^ (wb - 1)) by (apply pow2_le; lia).
    unfold py_shl. rewrite Z.shiftl_1_l. apply RotateLeftConstant_low; lia.
  - intros y Hy. apply umod_small; lia.
Qed.

(* for whatever width the constructor gives the `shifted` wires (Model: rot_sw), provided it holds the operand *)
Lemma RotateRight_ext wa wb wr a b :
  1 <= wa <= rot_sw wa wr -> 0 <= wr -> 1 <= wb -> 2 ^ (wb - 1) <= wa -> 0 <= a < 2 ^ wa -> 0 <= b < 2 ^ wb ->
  m_RotateRight wa wb wr a b = spec_rotr wa wr a b.
Proof.
  intros. unfold m_RotateRight, spec_rotr. cbv zeta. rewrite rotr_stages by lia. apply Buf_eq; lia.
Qed.

Lemma RotateLeft_ext wa wb wr a b :
  1 <= wa <= rot_sw wa wr -> 0 <= wr -> 1 <= wb -> 2 ^ (wb - 1) <= wa -> 0 <= a < 2 ^ wa -> 0 <= b < 2 ^ wb ->
  m_RotateLeft wa wb wr a b = spec_rotl wa wr a b.
Proof.
  intros. unfold m_RotateLeft, spec_rotl. cbv zeta. rewrite rotl_stages by lia. apply Buf_eq; lia.
Qed.

(* rot_sw is at least wr (exactly wr before the repair of C07-ROT-NARROW, max(wa, wr) after) *)
Lemma rot_sw_ge wa wr : wr <= rot_sw wa wr.
Proof. unfold rot_sw. lia. Qed.

Lemma RotateRight_correct wa wb wr a b :
  1 <= wa <= wr -> 1 <= wb -> 2 ^ (wb - 1) <= wa -> 0 <= a < 2 ^ wa -> 0 <= b < 2 ^ wb ->
  m_RotateRight wa wb wr a b = spec_rotr wa wr a b.
Proof. intros. pose proof (rot_sw_ge wa wr). apply RotateRight_ext; lia. Qed.

Lemma RotateLeft_correct wa wb wr a b :
  1 <= wa <= wr -> 1 <= wb -> 2 ^ (wb - 1) <= wa -> 0 <= a < 2 ^ wa -> 0 <= b < 2 ^ wb ->
  m_RotateLeft wa wb wr a b = spec_rotl wa wr a b.
Proof. intros. pose proof (rot_sw_ge wa wr). apply RotateLeft_ext; lia. Qed.

(* wr <= wa + 1 is the guard in terms of widths only *)
Lemma ShiftRight_arith_std wa wb wr a b :
  1 <= wa -> 1 <= wb -> 0 <= wr <= wa + 1 -> 0 <= a < 2 ^ wa -> 0 <= b < 2 ^ wb ->
  m_ShiftRight AArith wa wb wr a b = spec_sar wa wr a b.
Proof. intros. apply ShiftRight_arith_correct; try lia. Qed.

(* ---- refutations: the guards above cannot be dropped (one block per open finding; a block is replaced by the
   unguarded lemmas when the repair of that finding is committed in /repo: fixes/C07_switch.py) ---------------- *)
(* C07-SAR-WIDE: repaired in /repo, switched by fixes/C07_switch.py *)
(* the pre-extension is max(wa, wr) + 2^wb bits wide: the sign fill reaches the top of r for every amount *)
Lemma sar_ext_full wa wb wr b : 1 <= wb -> 0 <= b < 2 ^ wb -> wa <= sar_ext wa wb wr /\ wr + b <= sar_ext wa wb wr.
Proof. intros. unfold sar_ext, py_shl. rewrite Z.shiftl_1_l. lia. Qed.

Lemma ShiftRight_arith_full wa wb wr a b :
  1 <= wa -> 1 <= wb -> 0 <= wr -> 0 <= a < 2 ^ wa -> 0 <= b < 2 ^ wb ->
  m_ShiftRight AArith wa wb wr a b = spec_sar wa wr a b.
Proof. intros. pose proof (sar_ext_full wa wb wr b ltac:(lia) ltac:(lia)). apply ShiftRight_arith_ext; lia. Qed.

Lemma ShiftRight_wire_full wa wb wr v a b :
  1 <= wa -> 1 <= wb -> 0 <= wr -> 0 <= a < 2 ^ wa -> 0 <= b < 2 ^ wb ->
  m_ShiftRight (AWire v) wa wb wr a b = if v mod 2 =? 1 then spec_sar wa wr a b else spec_shr wr a b.
Proof. intros. pose proof (sar_ext_full wa wb wr b ltac:(lia) ltac:(lia)). apply ShiftRight_wire_ext; lia. Qed.

(* C07-ROT-NARROW: repaired in /repo, switched by fixes/C07_switch.py *)
(* the `shifted` wires are max(wa, wr) bits wide: they always hold the operand *)
Lemma RotateRight_full wa wb wr a b :
  1 <= wa -> 0 <= wr -> 1 <= wb -> 2 ^ (wb - 1) <= wa -> 0 <= a < 2 ^ wa -> 0 <= b < 2 ^ wb ->
  m_RotateRight wa wb wr a b = spec_rotr wa wr a b.
Proof. intros. apply RotateRight_ext; unfold rot_sw; lia. Qed.

Lemma RotateLeft_full wa wb wr a b :
  1 <= wa -> 0 <= wr -> 1 <= wb -> 2 ^ (wb - 1) <= wa -> 0 <= a < 2 ^ wa -> 0 <= b < 2 ^ wb ->
  m_RotateLeft wa wb wr a b = spec_rotl wa wr a b.
Proof. intros. apply RotateLeft_ext; unfold rot_sw; lia. Qed.

(* C07-ROTC-WIDE: repaired in /repo, switched by fixes/C07_switch.py *)
