(* C07 — the loop-free structural blocks: Add (ci/co), SignedAdd, SignedSub, Sign, Neg, Abs, SignedDiv. *)
From V Require Import Base.Bits Gen.WireOps Gen.Helpers Gen.Prims Spec.C07 Model.StructArith Proofs.C07.Prims.

Lemma umod_0 w : umod w 0 = 0.
Proof. unfold umod. apply Zmod_0_l. Qed.

Lemma m_ci_eq ci : m_ci ci = ci_val ci.
Proof. destruct ci; reflexivity. Qed.

Lemma Add_correct wr ci a b : 0 <= wr -> m_Add wr ci a b = spec_add wr a b (ci_val ci).
Proof. intros. unfold m_Add, spec_add. rewrite AddCarryIn_eq, m_ci_eq by lia. reflexivity. Qed.

(* bit wr of s is not changed by reducing s modulo 2^(wr+1) *)
Lemma carry_bit wr s : 0 <= wr -> (umod (wr + 1) s / 2 ^ wr) mod 2 = (s / 2 ^ wr) mod 2.
Proof.
  intros Hw. unfold umod. pose proof (pow2_pos wr Hw).
  rewrite Z.pow_add_r by lia. change (2 ^ 1) with 2.
  rewrite (Z.mod_eq s (2 ^ wr * 2)) by lia.
  replace (s - 2 ^ wr * 2 * (s / (2 ^ wr * 2))) with (s + (- 2 * (s / (2 ^ wr * 2))) * 2 ^ wr) by ring.
  rewrite Z.div_add by lia.
  replace (s / 2 ^ wr + - 2 * (s / (2 ^ wr * 2))) with (s / 2 ^ wr + (- (s / (2 ^ wr * 2))) * 2) by ring.
  apply Z.mod_add. lia.
Qed.

Lemma Add_co_correct wr wco ci a b : 0 <= wr -> 1 <= wco ->
  m_Add_co wr wco ci a b = (spec_add wr a b (ci_val ci), spec_add_co wr a b (ci_val ci)).
Proof.
  intros Hwr Hco. unfold m_Add_co, spec_add, spec_add_co. cbv zeta.
  rewrite AddCarryIn_eq, m_ci_eq by lia. f_equal.
  - rewrite Range_eq by lia. replace (wr - 1 - 0 + 1) with wr by lia.
    rewrite Z.pow_0_r, Z.div_1_r. rewrite umod_umod by lia. apply umod_umod_le; lia.
  - rewrite Bit_eq by lia. apply carry_bit; lia.
Qed.

(* ---- sign handling -------------------------------------------------------------------------- *)
Lemma high_bit wa a : 1 <= wa -> 0 <= a < 2 ^ wa -> a / 2 ^ (wa - 1) = if a <? 2 ^ (wa - 1) then 0 else 1.
Proof.
  intros Hwa Ha.
  pose proof (div_pow2_bound a wa (wa - 1) ltac:(lia) Ha) as Hb. replace (wa - (wa - 1)) with 1 in Hb by lia.
  change (2 ^ 1) with 2 in Hb. pose proof (pow2_pos (wa - 1) ltac:(lia)).
  destruct (Z.ltb_spec a (2 ^ (wa - 1))).
  - apply Z.div_small; lia.
  - assert (1 <= a / 2 ^ (wa - 1)); [|lia]. apply Z.div_le_lower_bound; lia.
Qed.

Lemma Sign_correct wa a : 1 <= wa -> 0 <= a < 2 ^ wa -> m_Sign wa a = spec_sign wa a.
Proof.
  intros Hwa Ha. unfold m_Sign, spec_sign. rewrite Bit_eq, high_bit by lia. unfold sgn.
  destruct (Z.ltb_spec a (2 ^ (wa - 1))).
  - destruct (Z.ltb_spec a 0); [lia | reflexivity].
  - destruct (Z.ltb_spec (a - 2 ^ wa) 0); [reflexivity | lia].
Qed.

Lemma spec_sign_01 wa a : spec_sign wa a = 0 \/ spec_sign wa a = 1.
Proof. unfold spec_sign. destruct (sgn wa a <? 0); auto. Qed.

Lemma Neg_correct wr a : 0 <= wr -> m_Neg wr a = spec_neg wr a.
Proof.
  intros. unfold m_Neg, spec_neg. cbv zeta. rewrite Constant_eq, Sub_eq, umod_0 by lia. f_equal.
Qed.

Lemma pow2_double w : 1 <= w -> 2 ^ w = 2 * 2 ^ (w - 1).
Proof. intros. replace w with (1 + (w - 1)) at 1 by lia. rewrite Z.pow_add_r by lia. reflexivity. Qed.

Lemma Abs_correct wa wr a : 1 <= wa -> 0 <= wr -> 0 <= a < 2 ^ wa -> m_Abs wa wr a = spec_abs wa wr a.
Proof.
  intros Hwa Hwr Ha. unfold m_Abs, spec_abs. cbv zeta.
  rewrite Mux2_eq, Sign_correct, Neg_correct by lia. unfold spec_sign, spec_neg, sgn.
  pose proof (pow2_double wa Hwa).
  destruct (Z.ltb_spec a (2 ^ (wa - 1))).
  - destruct (Z.ltb_spec a 0); [lia|]. change (0 mod 2 =? 1) with false. cbv iota. f_equal. lia.
  - destruct (Z.ltb_spec (a - 2 ^ wa) 0); [|lia]. change (1 mod 2 =? 1) with true. cbv iota. f_equal.
    rewrite (umod_eq wa (- a) (2 ^ wa - a) (-1)) by lia. rewrite umod_small by lia. lia.
Qed.

(* |sgn| fits the operand width, so Abs into a wire of the operand's width is exact *)
Lemma abs_sgn_bound wa a : 1 <= wa -> 0 <= a < 2 ^ wa -> 0 <= Z.abs (sgn wa a) < 2 ^ wa.
Proof.
  intros Hwa Ha. pose proof (sgn_range wa a ltac:(lia) Ha). pose proof (pow2_double wa Hwa).
  pose proof (pow2_pos (wa - 1) ltac:(lia)). lia.
Qed.

(* ---- SignedAdd / SignedSub ------------------------------------------------------------------- *)
Lemma sx_eq wa wr a : 1 <= wa <= wr -> 0 <= a < 2 ^ wa -> m_sx wa wr a = umod wr (sgn wa a).
Proof.
  intros Hw Ha. unfold m_sx. destruct (Z.gtb_spec wr wa).
  - apply SignExtend_eq; lia.
  - assert (wr = wa) by lia. subst wr. symmetry. apply (sgn_umod wa wa); lia.
Qed.

Lemma SignedAdd_correct wa wb wr ci a b :
  1 <= wa <= wr -> 1 <= wb <= wr -> 0 <= a < 2 ^ wa -> 0 <= b < 2 ^ wb ->
  m_SignedAdd wa wb wr ci a b = spec_sadd wa wb wr a b (ci_val ci).
Proof.
  intros Hwa Hwb Ha Hb. unfold m_SignedAdd, spec_sadd. rewrite Add_correct by lia. unfold spec_add.
  rewrite !sx_eq by lia.
  rewrite <- Z.add_assoc, umod_add_l by lia. rewrite Z.add_assoc.
  rewrite (Z.add_comm (sgn wa a)), <- Z.add_assoc, umod_add_l by lia. f_equal. lia.
Qed.

Lemma SignedAdd_co_correct wa wb wr wco ci a b :
  1 <= wa <= wr -> 1 <= wb <= wr -> 1 <= wco -> 0 <= a < 2 ^ wa -> 0 <= b < 2 ^ wb ->
  m_SignedAdd_co wa wb wr wco ci a b = (spec_sadd wa wb wr a b (ci_val ci), spec_sadd_co wa wb wr a b (ci_val ci)).
Proof.
  intros Hwa Hwb Hco Ha Hb. unfold m_SignedAdd_co. rewrite Add_co_correct by lia.
  rewrite !sx_eq by lia. f_equal. unfold spec_add, spec_sadd.
  rewrite <- Z.add_assoc, umod_add_l by lia. rewrite Z.add_assoc.
  rewrite (Z.add_comm (sgn wa a)), <- Z.add_assoc, umod_add_l by lia. f_equal. lia.
Qed.

Lemma SignedSub_correct wa wb wr a b :
  1 <= wa <= wr -> 1 <= wb <= wr -> 0 <= a < 2 ^ wa -> 0 <= b < 2 ^ wb ->
  m_SignedSub wa wb wr a b = spec_ssub wa wb wr a b.
Proof.
  intros Hwa Hwb Ha Hb. unfold m_SignedSub, spec_ssub. cbv zeta.
  rewrite Add_correct by lia. unfold spec_add, ci_val.
  rewrite Not_eq, Constant_eq, !sx_eq by lia. change (umod 1 1) with 1.
  rewrite <- Z.add_assoc, umod_add_l by lia. rewrite Z.add_assoc.
  rewrite (Z.add_comm (sgn wa a)), <- Z.add_assoc, umod_add_l by lia.
  replace (- umod wr (sgn wb b) - 1 + (sgn wa a + 1)) with (sgn wa a - umod wr (sgn wb b)) by lia.
  apply umod_sub_r; lia.
Qed.

(* ---- SignedDiv ------------------------------------------------------------------------------ *)
Lemma Xor2_bits x y : (x = 0 \/ x = 1) -> (y = 0 \/ y = 1) -> m_Xor2 1 1 1 x y = (x + y) mod 2.
Proof. intros [-> | ->] [-> | ->]; vm_compute; reflexivity. Qed.

Lemma SignedDiv_correct wa wb wr rnd a b :
  1 <= wa -> 1 <= wb -> 0 <= wr -> 0 <= a < 2 ^ wa -> 0 <= b < 2 ^ wb -> b <> 0 ->
  m_SignedDiv wa wb wr rnd a b = spec_sdiv wa wb wr a b.
Proof.
  intros Hwa Hwb Hwr Ha Hb Hb0. unfold m_SignedDiv, spec_sdiv. cbv zeta.
  rewrite !Abs_correct, !Sign_correct by lia. unfold spec_abs.
  rewrite !umod_small by (apply abs_sgn_bound; lia).
  assert (Hsb : sgn wb b <> 0).
  { unfold sgn. pose proof (pow2_double wb Hwb). destruct (b <? 2 ^ (wb - 1)); lia. }
  rewrite Div_eq by lia. rewrite Neg_correct by lia. unfold spec_neg. rewrite umod_opp by lia.
  rewrite Xor2_bits by apply spec_sign_01. rewrite Mux2_eq by lia.
  rewrite Z.quot_div by exact Hsb.
  set (sa := sgn wa a) in *. set (sb := sgn wb b) in *. unfold spec_sign. fold sa sb.
  assert (Hq : 0 <= Z.abs sa / Z.abs sb) by (apply Z.div_pos; lia).
  destruct (Z.ltb_spec sa 0); destruct (Z.ltb_spec sb 0).
  - change ((1 + 1) mod 2 mod 2 =? 1) with false. cbv iota. rewrite umod_umod by lia. f_equal.
    rewrite (Z.sgn_neg sa), (Z.sgn_neg sb) by lia. lia.
  - change ((1 + 0) mod 2 mod 2 =? 1) with true. cbv iota. rewrite umod_umod by lia. f_equal.
    rewrite (Z.sgn_neg sa), (Z.sgn_pos sb) by lia. lia.
  - change ((0 + 1) mod 2 mod 2 =? 1) with true. cbv iota. rewrite umod_umod by lia. f_equal.
    rewrite (Z.sgn_neg sb) by lia. destruct (Z.eq_dec sa 0) as [E|E].
    + rewrite E. reflexivity.
    + rewrite (Z.sgn_pos sa) by lia. lia.
  - change ((0 + 0) mod 2 mod 2 =? 1) with false. cbv iota. rewrite umod_umod by lia. f_equal.
    rewrite (Z.sgn_pos sb) by lia. destruct (Z.eq_dec sa 0) as [E|E].
    + rewrite E. reflexivity.
    + rewrite (Z.sgn_pos sa) by lia. lia.
Qed.
