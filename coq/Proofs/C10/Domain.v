(* C10: what an edge does to one clock domain depends only on that domain, its enable as read BEFORE the edge,
   and the pre-edge state. *)
From V Require Import Base.Bits Gen.WireOps Model.SimKernel Spec.C05 Spec.C10 Proofs.C05.ListAux Proofs.C05.Edge.

Lemma nodup_flat_map_distinct {A} (f : A -> list nat) (l : list A) a b :
  NoDup (flat_map f l) -> In a l -> In b l -> a <> b -> forall k, In k (f a) -> ~ In k (f b).
Proof.
  induction l as [|x l IH]; cbn [flat_map]; intros Hn Ha Hb Hab k Hka Hkb; [destruct Ha|].
  apply nodup_app_inv in Hn as (Hx & Hl & Hd).
  destruct Ha as [->|Ha], Hb as [->|Hb].
  - now apply Hab.
  - apply (Hd k Hka). apply in_flat_map. exists b; auto.
  - apply (Hd k Hkb). apply in_flat_map. exists a; auto.
  - exact (IH Hl Ha Hb Hab k Hka Hkb).
Qed.

Lemma last_for_app w p q :
  last_for w (p ++ q) = match last_for w q with Some x => Some x | None => last_for w p end.
Proof.
  induction p as [|[i v] p IH]; cbn [app last_for].
  - destruct (last_for w q); reflexivity.
  - rewrite IH. destruct (last_for w q); reflexivity.
Qed.

Section Domain.
Context {St : Type}.
Variable d : design St.

(* ------------------------------------------------------------------ leaf states after the fold of snapshot updates *)
Lemma sts_fold_notin s ks k acc :
  ~ In k ks -> nth_error (fold_left (snap_st d s) ks acc) k = nth_error acc k.
Proof.
  revert acc; induction ks as [|a ks IH]; intros acc H; cbn [fold_left]; auto.
  rewrite IH by (intros E; apply H; now right).
  apply snap_st_other. intros E; apply H; now left.
Qed.

Lemma snap_st_length s acc a : length (snap_st d s acc a) = length acc.
Proof. unfold snap_st. destruct (snap d s a) as [[st' p]|]; auto. apply set_nth_length. Qed.

Lemma snap_some_lt s k st' p : snap d s k = Some (st', p) -> (k < length (sts s))%nat.
Proof.
  unfold snap. destruct (nth_error (seqs d) k); [|discriminate].
  destruct (nth_error (sts s) k) eqn:E; [|discriminate]. intros _. apply nth_error_Some. congruence.
Qed.

Definition Q (s : state St) (k : nat) (acc : list St) : Prop :=
  length acc = length (sts s) /\ (nth_error acc k = nth_error (sts s) k \/ nth_error acc k = snap_state d s k).

Lemma snap_st_at s k acc : Q s k acc -> nth_error (snap_st d s acc k) k = snap_state d s k.
Proof.
  intros [Hl Hq]. unfold snap_st, snap_state. destruct (snap d s k) as [[st' p]|] eqn:E.
  - apply nth_error_set_nth_eq. rewrite Hl. eapply snap_some_lt, E.
  - unfold snap_state in Hq. rewrite E in Hq. destruct Hq; assumption.
Qed.

Lemma snap_st_Q s k acc a : Q s k acc -> Q s k (snap_st d s acc a).
Proof.
  intros HQ. split; [rewrite snap_st_length; apply HQ|].
  destruct (Nat.eq_dec a k) as [->|Hne].
  - right. apply snap_st_at, HQ.
  - rewrite snap_st_other by exact Hne. apply HQ.
Qed.

Lemma snap_st_done s k acc a :
  Q s k acc -> nth_error acc k = snap_state d s k -> nth_error (snap_st d s acc a) k = snap_state d s k.
Proof.
  intros HQ H. destruct (Nat.eq_dec a k) as [->|Hne].
  - apply snap_st_at, HQ.
  - rewrite snap_st_other by exact Hne. exact H.
Qed.

Lemma fold_done s k ks acc :
  Q s k acc -> nth_error acc k = snap_state d s k -> nth_error (fold_left (snap_st d s) ks acc) k = snap_state d s k.
Proof.
  revert acc; induction ks as [|a ks IH]; intros acc HQ H; cbn [fold_left]; auto.
  apply IH; [apply snap_st_Q, HQ | apply snap_st_done; assumption].
Qed.

Lemma sts_fold_in_Q s k ks acc :
  Q s k acc -> In k ks -> nth_error (fold_left (snap_st d s) ks acc) k = snap_state d s k.
Proof.
  revert acc; induction ks as [|a ks IH]; intros acc HQ Hin; [destruct Hin|]. cbn [fold_left].
  destruct (Nat.eq_dec a k) as [->|Hne].
  - apply fold_done; [apply snap_st_Q, HQ | apply snap_st_at, HQ].
  - destruct Hin as [E|Hin]; [now elim Hne|]. apply IH; [apply snap_st_Q, HQ | exact Hin].
Qed.

Lemma sts_fold_in s k ks :
  In k ks -> nth_error (fold_left (snap_st d s) ks (sts s)) k = snap_state d s k.
Proof. apply sts_fold_in_Q. split; auto. Qed.

(* ------------------------------------------------------------------ the visit list around one domain *)
Definition act (vs : list Z) (ds : list driver) : list nat :=
  flat_map (fun drv => if enabled vs drv then d_leaves drv else []) ds.

Lemma active_split vs pre drv post :
  drivers d = pre ++ drv :: post ->
  active d vs = act vs pre ++ (if enabled vs drv then d_leaves drv else []) ++ act vs post.
Proof. intros H. unfold active, act. rewrite H, flat_map_app. reflexivity. Qed.

Lemma act_sub vs ds k : In k (act vs ds) -> In k (flat_map d_leaves ds).
Proof. apply in_flat_map_filter. Qed.

Lemma domain_apart pre drv post :
  registered_once d -> drivers d = pre ++ drv :: post ->
  forall k, In k (d_leaves drv) -> ~ In k (flat_map d_leaves pre) /\ ~ In k (flat_map d_leaves post).
Proof.
  unfold registered_once, all_leaves. intros Hn Hd k Hk. rewrite Hd, flat_map_app in Hn. cbn [flat_map] in Hn.
  apply nodup_app_inv in Hn as (_ & Hn & Hpre). apply nodup_app_inv in Hn as (_ & _ & Hpost).
  split.
  - intros E. apply (Hpre k E). apply in_or_app. now left.
  - apply Hpost, Hk.
Qed.

Lemma sts_edge s :
  registered_once d -> sts (clock_drivers d s) = fold_left (snap_st d s) (active d (vals s)) (sts s).
Proof.
  intros H. rewrite clock_drivers_flat. rewrite (fold_clock1_ref d s _ (active_nodup d _ H) s); auto.
Qed.

(* (A) the state of every leaf of the domain after the edge = the per-domain reference *)
Lemma domain_state s pre drv post k :
  registered_once d -> drivers d = pre ++ drv :: post -> In k (d_leaves drv) ->
  nth_error (sts (clock_drivers d s)) k = dom_state d s drv k.
Proof.
  intros Hro Hd Hk. rewrite sts_edge by exact Hro. rewrite (active_split _ pre drv post Hd).
  destruct (domain_apart pre drv post Hro Hd k Hk) as [Hpre Hpost].
  unfold dom_state. destruct (enabled (vals s) drv).
  - apply sts_fold_in. apply in_or_app. right. apply in_or_app. now left.
  - cbn [app]. apply sts_fold_notin. intros E. apply in_app_or in E as [E|E]; apply act_sub in E; contradiction.
Qed.

(* (B) the value of every wire prepared only from the domain = the per-domain reference *)
Lemma leaf_outs_upd s k w : In w (map fst (snap_upd d s k)) -> In w (leaf_outs d k).
Proof.
  intros H. apply snap_upd_wires in H as (l & Hl & Hw). unfold leaf_outs. now rewrite Hl.
Qed.

Lemma last_for_foreign s w ks :
  (forall k, In k ks -> ~ In w (leaf_outs d k)) -> last_for w (flat_map (snap_upd d s) ks) = None.
Proof.
  intros H. apply last_for_notin. intros E.
  apply in_map_iff in E as ((w', x) & Ew & E). cbn [fst] in Ew; subst w'.
  apply in_flat_map in E as (k & Hk & E). apply (H k Hk). apply (leaf_outs_upd s).
  apply in_map_iff. exists (w, x); auto.
Qed.

Lemma domain_value s pre drv post w :
  registered_once d -> drivers d = pre ++ drv :: post -> only_from d drv w ->
  pend s = [] -> (w < length (vals s))%nat ->
  rd (vals (settleAll (clock_drivers d s))) w = dom_value d s drv w.
Proof.
  intros Hro Hd Honly Hp Hw.
  rewrite settled_value by exact Hw. rewrite pend_edge, Hp by exact Hro. cbn [app].
  rewrite (active_split _ pre drv post Hd). rewrite !flat_map_app, !last_for_app.
  assert (Hout : forall ds, (forall k, In k (flat_map d_leaves ds) -> In k (all_leaves d) /\ ~ In k (d_leaves drv)) ->
                 last_for w (flat_map (snap_upd d s) (act (vals s) ds)) = None).
  { intros ds Hds. apply last_for_foreign. intros k Hk E. apply act_sub in Hk.
    destruct (Hds k Hk) as [Hall Hnot]. apply Hnot. exact (Honly k Hall E). }
  rewrite (Hout post), (Hout pre).
  - unfold dom_value. destruct (enabled (vals s) drv); cbn [flat_map last_for]; auto.
    destruct (last_for w (flat_map (snap_upd d s) (d_leaves drv))); reflexivity.
  - intros k Hk. split.
    + unfold all_leaves. rewrite Hd, flat_map_app. apply in_or_app. now left.
    + intros E. apply (proj1 (domain_apart pre drv post Hro Hd k E)), Hk.
  - intros k Hk. split.
    + unfold all_leaves. rewrite Hd, flat_map_app. apply in_or_app. right. cbn [flat_map]. apply in_or_app. now right.
    + intros E. apply (proj2 (domain_apart pre drv post Hro Hd k E)), Hk.
Qed.

(* ------------------------------------------------------------------ gated: nothing moves *)
Lemma gated_holds s pre drv post :
  registered_once d -> drivers d = pre ++ drv :: post -> enabled (vals s) drv = false ->
  (forall k, In k (d_leaves drv) -> nth_error (sts (clock_drivers d s)) k = nth_error (sts s) k) /\
  (pend s = [] -> forall w, only_from d drv w -> rd (vals (settleAll (clock_drivers d s))) w = rd (vals s) w).
Proof.
  intros Hro Hd He. split.
  - intros k Hk. rewrite (domain_state s pre drv post k Hro Hd Hk). unfold dom_state. now rewrite He.
  - intros Hp w Honly.
    destruct (Nat.lt_ge_cases w (length (vals s))) as [Hw|Hw].
    + rewrite (domain_value s pre drv post w Hro Hd Honly Hp Hw). unfold dom_value. now rewrite He.
    + unfold rd. rewrite !nth_overflow; auto.
      cbn [settleAll vals]. rewrite fold_settle_length, clock_drivers_vals. exact Hw.
Qed.

End Domain.

(* ------------------------------------------------------------------ designs that differ in their driver tables *)
Section Frame.
Context {St : Type}.

Lemma dom_state_with_drivers (d : design St) ds s drv k : dom_state (with_drivers d ds) s drv k = dom_state d s drv k.
Proof. reflexivity. Qed.
Lemma dom_value_with_drivers (d : design St) ds s drv w : dom_value (with_drivers d ds) s drv w = dom_value d s drv w.
Proof. reflexivity. Qed.

(* enabled: identical to the same design with this driver ungated (whole state, hence the domain's) *)
Lemma enabled_same (d : design St) s pre drv post :
  drivers d = pre ++ drv :: post -> enabled (vals s) drv = true ->
  clock_drivers (with_drivers d (pre ++ ungate drv :: post)) s = clock_drivers d s /\
  clk_cycle (with_drivers d (pre ++ ungate drv :: post)) s = clk_cycle d s.
Proof.
  intros Hd He.
  assert (E : clock_drivers (with_drivers d (pre ++ ungate drv :: post)) s = clock_drivers d s).
  { rewrite !clock_drivers_flat.
    change (fold_left (clock1 (with_drivers d (pre ++ ungate drv :: post)))) with (fold_left (clock1 d)).
    f_equal. unfold active. cbn [drivers with_drivers]. rewrite Hd, !flat_map_app. cbn [flat_map].
    rewrite He. reflexivity. }
  split; auto. unfold clk_cycle. rewrite E. reflexivity.
Qed.

(* frame: the same domain inside two designs that share the leaf table but have ANY other domains around it *)
Lemma other_domains (d : design St) ds2 s pre1 post1 pre2 post2 drv :
  registered_once d -> registered_once (with_drivers d ds2) ->
  drivers d = pre1 ++ drv :: post1 -> ds2 = pre2 ++ drv :: post2 ->
  (forall k, In k (d_leaves drv) ->
     nth_error (sts (clock_drivers (with_drivers d ds2) s)) k = nth_error (sts (clock_drivers d s)) k) /\
  (pend s = [] -> forall w, only_from d drv w -> only_from (with_drivers d ds2) drv w ->
     rd (vals (settleAll (clock_drivers (with_drivers d ds2) s))) w = rd (vals (settleAll (clock_drivers d s))) w).
Proof.
  intros H1 H2 Hd1 Hd2. split.
  - intros k Hk.
    rewrite (domain_state (with_drivers d ds2) s pre2 drv post2 k H2 Hd2 Hk).
    rewrite (domain_state d s pre1 drv post1 k H1 Hd1 Hk). reflexivity.
  - intros Hp w Ho1 Ho2.
    destruct (Nat.lt_ge_cases w (length (vals s))) as [Hw|Hw].
    + rewrite (domain_value (with_drivers d ds2) s pre2 drv post2 w H2 Hd2 Ho2 Hp Hw).
      rewrite (domain_value d s pre1 drv post1 w H1 Hd1 Ho1 Hp Hw). reflexivity.
    + unfold rd. rewrite !nth_overflow; auto; cbn [settleAll vals]; rewrite fold_settle_length, clock_drivers_vals; exact Hw.
Qed.

End Frame.
