(* C10: the bucket table computed from the hierarchy (Model/ClockTree.clock_buckets), turned into the kernel's
   driver table, satisfies `registered_once`; hence the gating theorems hold for the domain of any clockable
   leaf, named by its nearest-ancestor driver.

   The bridge between the two models:
     B : list (driver id * list of allLeaves positions)          (Simulator.clockDrivers, insertion order)
     en  : driver id -> option enable wire                         (ClockDriver.enable)
     idx : allLeaves position -> index in the kernel's leaf table `seqs d`
   netlist.Dump numbers the sequential leaves in the order of `flat_map snd B`; any renumbering that is injective
   on the registered leaves is allowed here. *)
From V Require Import Base.Bits Gen.WireOps Model.SimKernel Model.ClockTree Spec.C05 Spec.C10 Spec.C10Tree
                      Proofs.C05.ListAux Proofs.C05.Edge Proofs.C10.Domain Proofs.C10.Tree Proofs.C10.Examples.
From Coq Require Import Permutation.

Definition bucket_driver (en : nat -> option nat) (idx : nat -> nat) (p : nat * list nat) : driver :=
  {| d_enable := en (fst p); d_leaves := map idx (snd p) |}.

Definition drivers_of (en : nat -> option nat) (idx : nat -> nat) (B : list (nat * list nat)) : list driver :=
  map (bucket_driver en idx) B.

Definition inj_on (idx : nat -> nat) (l : list nat) : Prop :=
  forall i j, In i l -> In j l -> idx i = idx j -> i = j.

(* the enable of driver x removed, every other driver's kept *)
Definition ungate_at (x : nat) (en : nat -> option nat) : nat -> option nat :=
  fun y => if Nat.eqb y x then None else en y.

(* wire w is prepared only by clockable leaves of the hierarchy whose nearest-ancestor driver is x *)
Definition only_from_nearest {St} (d : design St) (t : htree nat) (idx : nat -> nat) (x w : nat) : Prop :=
  forall j o, nth_error (leaves_of t None) j = Some (true, o) -> In w (leaf_outs d (idx j)) ->
              getObjectClockDriver o = Some x.

(* ------------------------------------------------------------------ list facts *)
Lemma nodup_map_inj_on (idx : nat -> nat) (l : list nat) : inj_on idx l -> NoDup l -> NoDup (map idx l).
Proof.
  induction l as [|a l IH]; intros Hinj Hn; cbn [map]; [constructor|].
  inversion Hn as [|a' l' Ha Hl]; subst. constructor.
  - intros E. apply in_map_iff in E as (b & Eb & Hb).
    assert (b = a) by (apply Hinj; [now right | now left | exact Eb]). subst b. contradiction.
  - apply IH; auto. intros i j Hi Hj. apply Hinj; now right.
Qed.

Lemma all_leaves_drivers_of en idx B :
  flat_map d_leaves (drivers_of en idx B) = map idx (flat_map snd B).
Proof.
  unfold drivers_of. induction B as [|p B IH]; cbn [map flat_map]; auto.
  rewrite IH, map_app. reflexivity.
Qed.

Lemma nodup_keys_unique (B : list (nat * list nat)) x l1 l2 :
  NoDup (map fst B) -> In (x, l1) B -> In (x, l2) B -> l1 = l2.
Proof.
  induction B as [|[y l] B IH]; intros Hn H1 H2; [destruct H1|].
  cbn [map fst] in Hn. inversion Hn as [|y' r Hy Hr]; subst.
  destruct H1 as [E1|H1], H2 as [E2|H2].
  - congruence.
  - inversion E1; subst. elim Hy. apply in_map_iff. exists (x, l2). auto.
  - inversion E2; subst. elim Hy. apply in_map_iff. exists (x, l1). auto.
  - exact (IH Hr H1 H2).
Qed.

(* a clockable id of the numbered leaf list is the position of a clockable leaf *)
Lemma clockable_id_leaf (t : htree nat) j :
  In j (clockable_ids (numbered_leaves t)) -> exists o, nth_error (leaves_of t None) j = Some (true, o).
Proof.
  unfold clockable_ids, numbered_leaves, number. generalize (leaves_of t None). intros l Hin.
  apply in_map_iff in Hin as ([[i c] od] & Ei & Hin). cbn [fst] in Ei. subst i.
  apply filter_In in Hin as [Hin Hc]. cbn [fst snd] in Hc. subst c.
  apply in_map_iff in Hin as ((i & c & o) & E & Hin). cbn [fst snd] in E. inversion E; subst. clear E.
  exists o.
  assert (G : forall (l : list (bool * obj nat)) n, In (j, (true, o)) (combine (seq n (length l)) l) ->
                     (n <= j)%nat /\ nth_error l (j - n) = Some (true, o)).
  { clear. induction l as [|y l IH]; intros n Hin; cbn in Hin; [destruct Hin|].
    destruct Hin as [E|Hin].
    - inversion E; subst. rewrite Nat.sub_diag. split; auto.
    - destruct (IH (S n) Hin) as [Hle Hn]. split; [lia|].
      replace (j - n)%nat with (S (j - S n)) by lia. exact Hn. }
  destruct (G l 0%nat Hin) as [_ Hn]. now rewrite Nat.sub_0_r in Hn.
Qed.

(* ------------------------------------------------------------------ registered_once of the computed table *)
Section Hier.
Context {St : Type}.

Lemma buckets_registered_once (d : design St) (t : htree nat) (B : list (nat * list nat))
      (en : nat -> option nat) (idx : nat -> nat) :
  clock_buckets t = Some B -> inj_on idx (flat_map snd B) -> drivers d = drivers_of en idx B ->
  registered_once d.
Proof.
  intros HB Hinj Hd. unfold registered_once, all_leaves. rewrite Hd, all_leaves_drivers_of.
  apply nodup_map_inj_on; [exact Hinj|]. exact (proj1 (proj2 (buckets_partition t B HB))).
Qed.

(* the domain of a clockable leaf: the table entry of its nearest-ancestor driver *)
Lemma leaf_domain (d : design St) (t : htree nat) B en idx i o x :
  clock_buckets t = Some B -> drivers d = drivers_of en idx B ->
  nth_error (leaves_of t None) i = Some (true, o) -> getObjectClockDriver o = Some x ->
  exists ls pre post, In (x, ls) B /\ In i ls /\
                      drivers d = pre ++ bucket_driver en idx (x, ls) :: post.
Proof.
  intros HB Hd Hi Ho.
  destruct (proj2 (proj2 (proj2 (buckets_partition t B HB))) i o Hi) as (x' & ls & Hx' & Hin & Hils).
  assert (x' = x) by congruence. subst x'.
  destruct (in_split _ _ Hin) as (B1 & B2 & EB).
  exists ls, (drivers_of en idx B1), (drivers_of en idx B2). split; [exact Hin|]. split; [exact Hils|].
  rewrite Hd, EB. unfold drivers_of. rewrite map_app. reflexivity.
Qed.

Lemma only_from_nearest_only_from (d : design St) (t : htree nat) B en idx x ls w :
  clock_buckets t = Some B -> drivers d = drivers_of en idx B -> In (x, ls) B ->
  only_from_nearest d t idx x w -> only_from d (bucket_driver en idx (x, ls)) w.
Proof.
  intros HB Hd Hin Hon k Hk Hw.
  destruct (buckets_partition t B HB) as (Hkeys & _ & Hperm & Hall).
  unfold all_leaves in Hk. rewrite Hd, all_leaves_drivers_of in Hk.
  apply in_map_iff in Hk as (j & Ej & Hj). subst k.
  apply (Permutation_in _ Hperm) in Hj.
  destruct (clockable_id_leaf t j Hj) as (o & Hjo).
  pose proof (Hon j o Hjo Hw) as Hx.
  destruct (Hall j o Hjo) as (x' & ls' & Hx' & Hin' & Hjls).
  assert (x' = x) by congruence. subst x'.
  assert (ls' = ls) by (eapply nodup_keys_unique; eauto). subst ls'.
  cbn [bucket_driver d_leaves snd]. apply in_map, Hjls.
Qed.

Lemma enabled_bucket_driver en idx x ls we vs :
  en x = Some we -> enabled vs (bucket_driver en idx (x, ls)) = negb (rd vs we =? 0).
Proof. intros E. unfold enabled, bucket_driver. cbn [d_enable fst]. now rewrite E. Qed.

(* END TO END, gated: the leaf at allLeaves position i is clockable, its nearest-ancestor driver is x, and x's
   enable wire reads 0 before the edge *)
Lemma hierarchy_gated_holds (d : design St) (s : state St) (t : htree nat) (B : list (nat * list nat))
      (en : nat -> option nat) (idx : nat -> nat) (i : nat) (o : obj nat) (x we : nat) :
  clock_buckets t = Some B -> inj_on idx (flat_map snd B) -> drivers d = drivers_of en idx B ->
  nth_error (leaves_of t None) i = Some (true, o) -> getObjectClockDriver o = Some x ->
  en x = Some we -> rd (vals s) we = 0 ->
  nth_error (sts (clock_drivers d s)) (idx i) = nth_error (sts s) (idx i) /\
  nth_error (sts (clk_cycle d s)) (idx i) = nth_error (sts s) (idx i) /\
  (pend s = [] -> forall w, only_from_nearest d t idx x w ->
     rd (vals (settleAll (clock_drivers d s))) w = rd (vals s) w /\
     ((forall c, In c (combs d) -> ~ In w (c_out c)) -> rd (vals (clk_cycle d s)) w = rd (vals s) w)).
Proof.
  intros HB Hinj Hd Hi Ho Hen Hz.
  pose proof (buckets_registered_once d t B en idx HB Hinj Hd) as Hro.
  destruct (leaf_domain d t B en idx i o x HB Hd Hi Ho) as (ls & pre & post & Hin & Hils & Hsplit).
  assert (He : enabled (vals s) (bucket_driver en idx (x, ls)) = false).
  { rewrite (enabled_bucket_driver en idx x ls we _ Hen), Hz. reflexivity. }
  assert (Hk : In (idx i) (d_leaves (bucket_driver en idx (x, ls)))) by (cbn; apply in_map, Hils).
  destruct (gated_holds d s pre _ post Hro Hsplit He) as [A1 A2].
  destruct (gated_holds_cycle d s pre _ post Hro Hsplit He) as [C1 C2].
  split; [exact (A1 _ Hk)|]. split; [exact (C1 _ Hk)|].
  intros Hp w Hon.
  pose proof (only_from_nearest_only_from d t B en idx x ls w HB Hd Hin Hon) as Honly.
  split; [exact (A2 Hp w Honly) | exact (C2 Hp w Honly)].
Qed.

(* companion, enabled: x's enable wire reads non-zero before the edge => the edge and the cycle (whole state) are
   those of the same design with driver x ungated.  Needs nothing about the hierarchy: any table B. *)
Lemma active_drivers_of (d : design St) en1 en2 idx B vs :
  (forall p, In p B -> enabled vs (bucket_driver en1 idx p) = enabled vs (bucket_driver en2 idx p)) ->
  active (with_drivers d (drivers_of en1 idx B)) vs = active (with_drivers d (drivers_of en2 idx B)) vs.
Proof.
  unfold active. cbn [drivers with_drivers]. unfold drivers_of.
  induction B as [|p B IH]; intros H; cbn [map flat_map]; auto.
  rewrite IH by (intros q Hq; apply H; now right).
  rewrite (H p (or_introl eq_refl)). reflexivity.
Qed.

Lemma hierarchy_enabled_same (d : design St) (s : state St) (B : list (nat * list nat))
      (en : nat -> option nat) (idx : nat -> nat) (x we : nat) :
  drivers d = drivers_of en idx B -> en x = Some we -> rd (vals s) we <> 0 ->
  clock_drivers (with_drivers d (drivers_of (ungate_at x en) idx B)) s = clock_drivers d s /\
  clk_cycle (with_drivers d (drivers_of (ungate_at x en) idx B)) s = clk_cycle d s.
Proof.
  intros Hd Hen Hnz.
  assert (E : clock_drivers (with_drivers d (drivers_of (ungate_at x en) idx B)) s = clock_drivers d s).
  { rewrite !clock_drivers_flat.
    change (fold_left (clock1 (with_drivers d (drivers_of (ungate_at x en) idx B)))) with (fold_left (clock1 d)).
    f_equal. rewrite (active_drivers_of d (ungate_at x en) en idx B).
    - unfold active. cbn [drivers with_drivers]. now rewrite Hd.
    - intros [y ls] _. unfold enabled, bucket_driver, ungate_at. cbn [d_enable fst].
      destruct (Nat.eqb_spec y x) as [->|Hne]; auto.
      rewrite Hen. apply Z.eqb_neq in Hnz. now rewrite Hnz. }
  split; auto. unfold clk_cycle. rewrite E. reflexivity.
Qed.

End Hier.

(* ------------------------------------------------------------------ non-vacuity: ex_tree with a gated sub-domain *)
(* ex_tree has 5 leaves; positions 0,2,3,4 are clockable; driver 9 (sub-block A) owns 0 and 2, driver 7 (top) owns
   3 and 4.  Kernel leaf table in bucket order (what netlist.Dump does): position 0 -> 0, 2 -> 1, 3 -> 2, 4 -> 3. *)
Definition ex_h_idx (p : nat) : nat := match p with 0 => 0 | 2 => 1 | 3 => 2 | 4 => 3 | _ => 9 end%nat.
Definition ex_h_en (x : nat) : option nat := if Nat.eqb x 9 then Some 4%nat else None.
Definition ex_h_B : list (nat * list nat) := [(9%nat, [0%nat; 2%nat]); (7%nat, [3%nat; 4%nat])].
(* wires 0..3 = the four counters, wire 4 = the enable of driver 9 (poked from outside) *)
Definition ex_h : design Z :=
  {| widths := [4; 4; 4; 4; 1]; combs := [];
     seqs := [count_leaf 0; count_leaf 1; count_leaf 2; count_leaf 3];
     drivers := drivers_of ex_h_en ex_h_idx ex_h_B |}.
Definition ex_h_s0 : state Z := {| vals := [0; 0; 0; 0; 0]; pend := []; sts := [0; 0; 0; 0]; total := O |}.
Definition ex_h_s1 : state Z := {| vals := [0; 0; 0; 0; 1]; pend := []; sts := [0; 0; 0; 0]; total := O |}.

Lemma ex_h_hyps :
  clock_buckets ex_tree = Some ex_h_B /\ inj_on ex_h_idx (flat_map snd ex_h_B) /\
  drivers ex_h = drivers_of ex_h_en ex_h_idx ex_h_B /\
  (exists o, nth_error (leaves_of ex_tree None) 2 = Some (true, o) /\ getObjectClockDriver o = Some 9%nat) /\
  ex_h_en 9%nat = Some 4%nat /\ rd (vals ex_h_s0) 4 = 0 /\ rd (vals ex_h_s1) 4 <> 0 /\
  only_from_nearest ex_h ex_tree ex_h_idx 9%nat 1%nat /\
  registered_once ex_h.
Proof.
  assert (Hinj : inj_on ex_h_idx (flat_map snd ex_h_B)).
  { intros i j Hi Hj. cbn in Hi, Hj.
    destruct Hi as [<-|[<-|[<-|[<-|[]]]]]; destruct Hj as [<-|[<-|[<-|[<-|[]]]]]; cbn; intros E; congruence. }
  split; [exact ex_tree_buckets|]. split; [exact Hinj|]. split; [reflexivity|].
  split; [eexists; split; vm_compute; reflexivity|].
  split; [reflexivity|]. split; [reflexivity|]. split; [vm_compute; discriminate|].
  split.
  - intros j o Hj Hw.
    destruct j as [|[|[|[|[|j]]]]]; cbn in Hj; try discriminate; inversion Hj; subst; cbn in Hw |- *;
      try reflexivity; try (destruct Hw as [Hw|[]]; discriminate).
    destruct j; discriminate.
  - apply (buckets_registered_once ex_h ex_tree ex_h_B ex_h_en ex_h_idx ex_tree_buckets Hinj eq_refl).
Qed.

(* the gated sub-domain really is frozen while the top domain counts; with the enable at 1 everything counts *)
Lemma ex_h_runs :
  vals (cycles ex_h 3 ex_h_s0) = [0; 0; 3; 3; 0] /\ sts (cycles ex_h 3 ex_h_s0) = [0; 0; 3; 3] /\
  vals (cycles ex_h 3 ex_h_s1) = [3; 3; 3; 3; 1].
Proof. vm_compute. auto. Qed.
