(* C10: getObjectClockDriver returns the nearest ancestor's driver; topologicalSort's bucketing registers every
   clockable leaf exactly once, with that driver. *)
From V Require Import Base.Bits Model.ClockTree Spec.C10Tree.
From Coq Require Import Permutation.

Section Lookup.
Context {D : Type}.

Lemma lookup_nearest (o : obj D) : getObjectClockDriver o = nearest o.
Proof.
  unfold nearest. induction o as [[x|]|[x|] p IH]; cbn [getObjectClockDriver ancestors map o_drv first_some]; auto.
Qed.

Lemma first_some_spec (l : list (option D)) x :
  first_some l = Some x <->
  exists i, nth_error l i = Some (Some x) /\ forall j, (j < i)%nat -> nth_error l j = Some None.
Proof.
  induction l as [|[y|] l IH]; cbn [first_some].
  - split; [discriminate | intros (i & H & _); destruct i; discriminate].
  - split.
    + intros E. exists O. split; [cbn; now rewrite E | intros j Hj; lia].
    + intros (i & Hi & Hlt). destruct i as [|i]; [cbn in Hi; congruence|].
      specialize (Hlt O ltac:(lia)). discriminate.
  - rewrite IH. split.
    + intros (i & Hi & Hlt). exists (S i). split; auto.
      intros [|j] Hj; cbn [nth_error]; auto. apply Hlt. lia.
    + intros (i & Hi & Hlt). destruct i as [|i]; [discriminate|].
      exists i. split; auto. intros j Hj. apply (Hlt (S j)). lia.
Qed.

Lemma first_some_none (l : list (option D)) : first_some l = None <-> forall a, In a l -> a = None.
Proof.
  induction l as [|[y|] l IH]; cbn [first_some].
  - split; auto. intros _ a [].
  - split; [discriminate|]. intros H. specialize (H (Some y) (or_introl eq_refl)). discriminate.
  - rewrite IH. split.
    + intros H a [<-|Ha]; auto.
    + intros H a Ha. apply H. now right.
Qed.

(* the closest ancestor (the object itself included) that has a driver, and nobody closer has one *)
Lemma nearest_ancestor (o : obj D) x :
  getObjectClockDriver o = Some x <->
  exists i a, nth_error (ancestors o) i = Some a /\ o_drv a = Some x /\
              forall j b, (j < i)%nat -> nth_error (ancestors o) j = Some b -> o_drv b = None.
Proof.
  rewrite lookup_nearest. unfold nearest. rewrite first_some_spec. split.
  - intros (i & Hi & Hlt). rewrite nth_error_map in Hi.
    destruct (nth_error (ancestors o) i) as [a|] eqn:Ea; [|discriminate]. cbn in Hi.
    exists i, a. split; auto. split; [congruence|].
    intros j b Hj Hb. specialize (Hlt j Hj). rewrite nth_error_map, Hb in Hlt. cbn in Hlt. congruence.
  - intros (i & a & Hi & Ha & Hlt). exists i. split.
    + rewrite nth_error_map, Hi. cbn. now rewrite Ha.
    + intros j Hj. rewrite nth_error_map.
      destruct (nth_error (ancestors o) j) as [b|] eqn:Eb.
      * cbn. now rewrite (Hlt j b Hj Eb).
      * exfalso. apply nth_error_None in Eb.
        assert (i < length (ancestors o))%nat by (apply nth_error_Some; congruence). lia.
Qed.

(* the exception is raised exactly when no ancestor (the object itself included) has a driver *)
Lemma lookup_error (o : obj D) :
  getObjectClockDriver o = None <-> forall a, In a (ancestors o) -> o_drv a = None.
Proof.
  rewrite lookup_nearest. unfold nearest. rewrite first_some_none. split.
  - intros H a Ha. apply H. apply in_map, Ha.
  - intros H x Hx. apply in_map_iff in Hx as (a & <- & Ha). apply H, Ha.
Qed.

(* induction principle for the nested htree *)
Section Ind.
  Variable P : htree D -> Prop.
  Hypothesis step : forall drv c children, Forall P children -> P (HNode drv c children).
  Fixpoint htree_ind2 (t : htree D) : P t :=
    match t with
    | HNode drv c children =>
        step drv c children
          ((fix go (l : list (htree D)) : Forall P l :=
              match l with [] => Forall_nil P | x :: r => Forall_cons x (htree_ind2 x) (go r) end) children)
    end.
End Ind.

(* walking up from each leaf = resolving the driver top-down as an inherited attribute *)
Lemma leaves_lookup (t : htree D) : forall parent,
  map (fun p => (fst p, getObjectClockDriver (snd p))) (leaves_of t parent) =
  leaves_inherited t (match parent with None => None | Some p => getObjectClockDriver p end).
Proof.
  induction t as [drv c children IH] using htree_ind2. intros parent.
  cbn [leaves_of leaves_inherited].
  set (me := mk_obj drv parent).
  set (mine := match drv with Some x => Some x | None => match parent with None => None | Some p => getObjectClockDriver p end end).
  assert (Hme : getObjectClockDriver me = mine) by (unfold me, mine, mk_obj; destruct drv, parent; reflexivity).
  destruct children as [|ch rest]; [cbn; now rewrite Hme|].
  generalize dependent (ch :: rest). intros l IH. clear ch rest.
  induction IH as [|x l Hx _ IHl]; cbn [flat_map map]; auto.
  rewrite map_app, IHl, (Hx (Some me)), Hme. reflexivity.
Qed.
End Lookup.

(* ------------------------------------------------------------------ bucketing *)
Lemma add_perm b drv i : Permutation (flat_map snd (add_clockable b drv i)) (i :: flat_map snd b).
Proof.
  induction b as [|[x ls] b IH]; cbn [add_clockable flat_map snd app]; auto.
  destruct (Nat.eqb x drv); cbn [flat_map snd].
  - rewrite <- app_assoc. cbn [app]. apply Permutation_sym, Permutation_middle.
  - apply Permutation_trans with (ls ++ i :: flat_map snd b).
    + apply Permutation_app_head, IH.
    + apply Permutation_sym, Permutation_middle.
Qed.

Lemma add_keys b drv i :
  map fst (add_clockable b drv i) = if existsb (Nat.eqb drv) (map fst b) then map fst b else map fst b ++ [drv].
Proof.
  induction b as [|[x ls] b IH]; cbn [add_clockable map fst existsb app]; auto.
  rewrite (Nat.eqb_sym drv x). destruct (Nat.eqb x drv) eqn:E; cbn [map fst orb]; auto.
  rewrite IH. destruct (existsb (Nat.eqb drv) (map fst b)); reflexivity.
Qed.

Lemma add_keys_nodup b drv i : NoDup (map fst b) -> NoDup (map fst (add_clockable b drv i)).
Proof.
  intros H. rewrite add_keys. destruct (existsb (Nat.eqb drv) (map fst b)) eqn:E; auto.
  apply NoDup_rev in H. rewrite <- (rev_involutive (map fst b ++ [drv])). apply NoDup_rev.
  rewrite rev_app_distr. cbn [rev app]. constructor; auto.
  rewrite <- in_rev. intros Hin.
  assert (existsb (Nat.eqb drv) (map fst b) = true) by (apply existsb_exists; exists drv; split; auto; apply Nat.eqb_refl).
  congruence.
Qed.

Lemma add_has b drv i : exists ls, In (drv, ls) (add_clockable b drv i) /\ In i ls.
Proof.
  induction b as [|[x ls] b (ls' & H1 & H2)]; cbn [add_clockable].
  - exists [i]. split; now left.
  - destruct (Nat.eqb_spec x drv) as [->|Hne].
    + exists (ls ++ [i]). split; [now left | apply in_or_app; right; now left].
    + exists ls'. split; [now right | exact H2].
Qed.

Lemma add_keeps b drv i x ls :
  In (x, ls) b -> exists ls', In (x, ls') (add_clockable b drv i) /\ incl ls ls'.
Proof.
  induction b as [|[y l] b IH]; intros Hin; [destruct Hin|]. cbn [add_clockable].
  destruct Hin as [E|Hin].
  - inversion E; subst. destruct (Nat.eqb x drv).
    + exists (ls ++ [i]). split; [now left | apply incl_appl, incl_refl].
    + exists ls. split; [now left | apply incl_refl].
  - destruct (Nat.eqb y drv).
    + exists ls. split; [now right | apply incl_refl].
    + destruct (IH Hin) as (ls' & H1 & H2). exists ls'. split; auto. now right.
Qed.

Lemma bucket_perm leaves : forall b B,
  bucket leaves b = Some B -> Permutation (flat_map snd B) (flat_map snd b ++ clockable_ids leaves).
Proof.
  unfold clockable_ids.
  induction leaves as [|[[i c] o] leaves IH]; intros b B H; cbn [bucket] in H.
  - inversion H; subst. cbn. now rewrite app_nil_r.
  - destruct c; cbn [filter fst snd map].
    + destruct o as [drv|]; [|discriminate].
      apply Permutation_trans with (flat_map snd (add_clockable b drv i) ++
                                    map (fun p => fst (fst p)) (filter (fun p => snd (fst p)) leaves)).
      * apply IH, H.
      * apply Permutation_trans with ((i :: flat_map snd b) ++ map (fun p => fst (fst p)) (filter (fun p => snd (fst p)) leaves)).
        -- apply Permutation_app_tail, add_perm.
        -- cbn [app]. apply Permutation_middle.
    + apply IH, H.
Qed.

Lemma bucket_keys leaves : forall b B, bucket leaves b = Some B -> NoDup (map fst b) -> NoDup (map fst B).
Proof.
  induction leaves as [|[[i c] o] leaves IH]; intros b B H Hn; cbn [bucket] in H.
  - inversion H; subst; auto.
  - destruct c; [destruct o as [drv|]; [|discriminate]|].
    + eapply IH; [exact H | apply add_keys_nodup, Hn].
    + eapply IH; eauto.
Qed.

Lemma bucket_keeps leaves : forall b B x ls,
  bucket leaves b = Some B -> In (x, ls) b -> exists ls', In (x, ls') B /\ incl ls ls'.
Proof.
  induction leaves as [|[[i c] o] leaves IH]; intros b B x ls H Hin; cbn [bucket] in H.
  - inversion H; subst. exists ls. split; auto. apply incl_refl.
  - destruct c; [destruct o as [drv|]; [|discriminate]|].
    + destruct (add_keeps b drv i x ls Hin) as (l1 & H1 & I1).
      destruct (IH _ _ _ _ H H1) as (l2 & H2 & I2). exists l2. split; auto. eapply incl_tran; eauto.
    + eapply IH; eauto.
Qed.

Lemma bucket_has leaves : forall b B i drv,
  bucket leaves b = Some B -> In (i, true, Some drv) leaves -> exists ls, In (drv, ls) B /\ In i ls.
Proof.
  induction leaves as [|[[j c] o] leaves IH]; intros b B i drv H Hin; [destruct Hin|]. cbn [bucket] in H.
  destruct Hin as [E|Hin].
  - inversion E; subst. destruct (add_has b drv i) as (ls & H1 & H2).
    destruct (bucket_keeps _ _ _ _ _ H H1) as (ls' & H3 & H4). exists ls'. split; auto.
  - destruct c; [destruct o as [drv'|]; [|discriminate]|]; eapply IH; eauto.
Qed.

Lemma bucket_error leaves : forall b,
  bucket leaves b = None <-> exists i, In (i, true, None) leaves.
Proof.
  induction leaves as [|[[j c] o] leaves IH]; intros b; cbn [bucket].
  - split; [discriminate | intros (i & [])].
  - destruct c; [destruct o as [drv|]|].
    + rewrite IH. split; intros (i & H); exists i; [now right | destruct H as [E|H]; [discriminate | exact H]].
    + split; auto. intros _. exists j. now left.
    + rewrite IH. split; intros (i & H); exists i; [now right | destruct H as [E|H]; [discriminate | exact H]].
Qed.

(* the simulator's driver table for a hierarchy: every clockable leaf exactly once, under its nearest driver *)
Definition numbered_leaves (t : htree nat) : list (nat * bool * option nat) :=
  map (fun p => (fst p, fst (snd p), getObjectClockDriver (snd (snd p)))) (number (leaves_of t None)).

Lemma clockable_ids_nodup t : NoDup (clockable_ids (numbered_leaves t)).
Proof.
  unfold clockable_ids, numbered_leaves, number.
  generalize (leaves_of t None). intros l. generalize 0%nat.
  induction l as [|[c o] l IH]; intros n; cbn; [constructor|].
  destruct c; cbn.
  - constructor; [|apply IH]. intros E. apply in_map_iff in E as ([[i c'] o'] & Ei & E). cbn in Ei; subst i.
    apply filter_In in E as [E _]. apply in_map_iff in E as ((i & c'' & o'') & Ei & E). inversion Ei; subst.
    apply in_combine_l in E. apply in_seq in E. lia.
  - apply IH.
Qed.

Lemma buckets_partition t B :
  clock_buckets t = Some B ->
  NoDup (map fst B) /\ NoDup (flat_map snd B) /\ Permutation (flat_map snd B) (clockable_ids (numbered_leaves t)) /\
  (forall i o, nth_error (leaves_of t None) i = Some (true, o) ->
     exists drv ls, getObjectClockDriver o = Some drv /\ In (drv, ls) B /\ In i ls).
Proof.
  unfold clock_buckets. fold (numbered_leaves t). intros H.
  pose proof (bucket_perm _ _ _ H) as HP. cbn [flat_map app] in HP.
  split; [eapply bucket_keys; [exact H | constructor]|].
  split; [eapply Permutation_NoDup; [apply Permutation_sym, HP | apply clockable_ids_nodup]|].
  split; [exact HP|].
  intros i o Hi.
  assert (Hin : In (i, true, getObjectClockDriver o) (numbered_leaves t)).
  { unfold numbered_leaves, number. apply in_map_iff. exists (i, (true, o)). split; auto.
    assert (Hlen : (i < length (leaves_of t None))%nat) by (apply nth_error_Some; congruence).
    assert (E : nth_error (combine (seq 0 (length (leaves_of t None))) (leaves_of t None)) i = Some (i, (true, o))).
    { clear H HP. revert Hi Hlen. generalize (leaves_of t None). intros l.
      assert (G : forall n i, nth_error l i = Some (true, o) -> nth_error (combine (seq n (length l)) l) i = Some ((n + i)%nat, (true, o))).
      { induction l as [|x l IH]; intros n [|j] Hj; cbn in *; try discriminate.
        - inversion Hj. now rewrite Nat.add_0_r.
        - rewrite (IH (S n) j Hj). replace (n + S j)%nat with (S n + j)%nat by lia. reflexivity. }
      intros Hi _. exact (G 0%nat i Hi). }
    eapply nth_error_In, E. }
  destruct (getObjectClockDriver o) as [drv|] eqn:Eo.
  - destruct (bucket_has _ _ _ _ _ H Hin) as (ls & H1 & H2). exists drv, ls. auto.
  - exfalso. assert (bucket (numbered_leaves t) [] = None) by (apply bucket_error; exists i; exact Hin). congruence.
Qed.

Lemma buckets_error t :
  clock_buckets t = None <-> exists i o, nth_error (leaves_of t None) i = Some (true, o) /\ getObjectClockDriver o = None.
Proof.
  unfold clock_buckets. fold (numbered_leaves t). rewrite bucket_error. unfold numbered_leaves, number. split.
  - intros (i & H). apply in_map_iff in H as ((j & c & o) & E & H). cbn in E. inversion E; subst.
    exists i, o. split; auto.
    revert H. generalize (leaves_of t None). intros l.
    assert (G : forall n, In (i, (true, o)) (combine (seq n (length l)) l) -> (n <= i)%nat /\ nth_error l (i - n) = Some (true, o)).
    { induction l as [|x l IH]; intros n Hin; cbn in Hin; [destruct Hin|].
      destruct Hin as [E'|Hin].
      - inversion E'; subst. rewrite Nat.sub_diag. split; auto.
      - destruct (IH (S n) Hin) as [Hle Hn]. split; [lia|].
        replace (i - n)%nat with (S (i - S n)) by lia. exact Hn. }
    intros H. destruct (G 0%nat H) as [_ Hn]. now rewrite Nat.sub_0_r in Hn.
  - intros (i & o & Hi & Ho). exists i. apply in_map_iff. exists (i, (true, o)). cbn. rewrite Ho. split; auto.
    revert Hi. generalize (leaves_of t None). intros l.
    assert (G : forall n i, nth_error l i = Some (true, o) -> In ((n + i)%nat, (true, o)) (combine (seq n (length l)) l)).
    { induction l as [|x l IH]; intros n [|j] Hj; cbn in *; try discriminate.
      - inversion Hj. left. now rewrite Nat.add_0_r.
      - right. replace (n + S j)%nat with (S n + j)%nat by lia. apply IH, Hj. }
    intros Hi. exact (G 0%nat i Hi).
Qed.
