(* C10: concrete instances (non-vacuity), including an enable derived from a register inside the gated domain. *)
From V Require Import Base.Bits Gen.WireOps Model.SimKernel Model.ClockTree Spec.C05 Spec.C10 Spec.C10Tree
                      Proofs.C05.ListAux Proofs.C05.Edge Proofs.C05.Split Proofs.C10.Domain Proofs.C10.Tree.

Section Cycle.
Context {St : Type}.
Variable d : design St.

(* a wire that no combinational leaf writes is not changed by the propagate pass that ends the cycle *)
Lemma cycle_value_frame s w :
  (forall c, In c (combs d) -> ~ In w (c_out c)) ->
  rd (vals (clk_cycle d s)) w = rd (vals (settleAll (clock_drivers d s))) w.
Proof. intros H. unfold clk_cycle. cbn [vals]. unfold propagateAll. apply (P_frame d), H. Qed.

Lemma gated_holds_cycle s pre drv post :
  registered_once d -> drivers d = pre ++ drv :: post -> enabled (vals s) drv = false ->
  (forall k, In k (d_leaves drv) -> nth_error (sts (clk_cycle d s)) k = nth_error (sts s) k) /\
  (pend s = [] -> forall w, only_from d drv w -> (forall c, In c (combs d) -> ~ In w (c_out c)) ->
     rd (vals (clk_cycle d s)) w = rd (vals s) w).
Proof.
  intros Hro Hd He. destruct (gated_holds d s pre drv post Hro Hd He) as [A B]. split.
  - exact A.
  - intros Hp w Ho Hc. rewrite cycle_value_frame by exact Hc. apply B; auto.
Qed.
End Cycle.

(* a domain that switches itself off: wire 0 = q of a toggling register, which is also the domain's enable;
   wire 1 = a counter in the same domain; wire 2 = a free-running counter in the ungated default domain *)
Definition toggle_leaf : sleaf Z :=
  {| s_in := [0%nat]; s_out := [0%nat]; s_f := fun _ ins => (1 - nth 0 ins 0, [Some (1 - nth 0 ins 0)]) |}.
Definition count_leaf (w : nat) : sleaf Z :=
  {| s_in := [w]; s_out := [w]; s_f := fun _ ins => (nth 0 ins 0 + 1, [Some (nth 0 ins 0 + 1)]) |}.

Definition ex_gate : driver := {| d_enable := Some 0%nat; d_leaves := [0%nat; 1%nat] |}.
Definition ex_free : driver := {| d_enable := None; d_leaves := [2%nat] |}.
Definition ex_self : design Z :=
  {| widths := [1; 4; 4]; combs := []; seqs := [toggle_leaf; count_leaf 1; count_leaf 2]; drivers := [ex_gate; ex_free] |}.
Definition ex_self_s0 : state Z := {| vals := [1; 0; 0]; pend := []; sts := [1; 0; 0]; total := O |}.

Lemma ex_self_registered_once : registered_once ex_self.
Proof. apply registered_once_b_spec. vm_compute. reflexivity. Qed.

Lemma ex_self_only_from : only_from ex_self ex_gate 0%nat /\ only_from ex_self ex_gate 1%nat /\ only_from ex_self ex_free 2%nat.
Proof.
  repeat split; intros k Hk Hw; cbn in Hk; destruct Hk as [<-|[<-|[<-|[]]]]; cbn in Hw |- *; intuition congruence.
Qed.

(* first edge: enable reads 1, the domain advances and clears its own enable; afterwards it is frozen while the
   other domain keeps counting *)
Lemma ex_self_runs :
  vals (cycles ex_self 1 ex_self_s0) = [0; 1; 1] /\ vals (cycles ex_self 4 ex_self_s0) = [0; 1; 4] /\
  sts (cycles ex_self 4 ex_self_s0) = [0; 1; 4] /\ total (cycles ex_self 4 ex_self_s0) = 4%nat.
Proof. vm_compute. auto. Qed.

(* the enable really is 1 before the first edge and 0 before the second (hypotheses of enabled_same / gated_holds) *)
Lemma ex_self_enable_values :
  enabled (vals ex_self_s0) ex_gate = true /\ enabled (vals (cycles ex_self 1 ex_self_s0)) ex_gate = false.
Proof. vm_compute. auto. Qed.

(* another driver table around the same gated domain: the free counter now gated by wire 1, listed first *)
Definition ex_other_table : list driver := [ {| d_enable := Some 1%nat; d_leaves := [2%nat] |}; ex_gate ].
Lemma ex_other_table_ok :
  registered_once (with_drivers ex_self ex_other_table) /\
  ex_other_table = [ {| d_enable := Some 1%nat; d_leaves := [2%nat] |} ] ++ ex_gate :: [] /\
  only_from (with_drivers ex_self ex_other_table) ex_gate 0%nat /\ only_from (with_drivers ex_self ex_other_table) ex_gate 1%nat.
Proof.
  split; [apply registered_once_b_spec; vm_compute; reflexivity|]. split; [reflexivity|].
  split; intros k Hk Hw; cbn in Hk; destruct Hk as [<-|[<-|[<-|[]]]]; cbn in Hw |- *; intuition congruence.
Qed.

(* a hierarchy: top has driver 7; child A has its own driver 9 with a clockable leaf two levels below; child B has none *)
Definition ex_tree : htree nat :=
  HNode (Some 7%nat) false
    [ HNode (Some 9%nat) false [ HNode None false [ HNode None true [] ; HNode None false [] ] ; HNode None true [] ];
      HNode None false [ HNode None true [] ];
      HNode None true [] ].

Lemma ex_tree_buckets : clock_buckets ex_tree = Some [(9%nat, [0%nat; 2%nat]); (7%nat, [3%nat; 4%nat])].
Proof. vm_compute. reflexivity. Qed.

Lemma ex_tree_no_driver :
  clock_buckets (HNode None false [HNode None true []]) = None /\
  clock_buckets (HNode None false [HNode None false []]) = Some [].
Proof. vm_compute. auto. Qed.
