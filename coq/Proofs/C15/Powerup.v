(* C15 composed with C06: the range hypothesis of the capstone (every value a watched wire carries going into an edge
   fits the wire's width) is C06's invariant (Proofs/C06/Range.v: Inv = every wire value and every pending value is
   inside its width, kept by init / clk / poke / propagateAll for ARBITRARY leaf functions).  Both developments are
   over Model/SimKernel.v's design/state, so the bridge is only: Inv at s  ->  fits at every pre-edge value of every
   run of cycles from s (wire ids outside the width list read 0 and have width 0).
   1. end_to_end_from_powerup: s reached from init by any C06 operation list, fresh recorder, clk(n), get_wavedrom
      decodes to the n pre-edge samples: no range assumption.
   2. history_end_to_end: the same over a whole recorder history (pokes, clk(n), clear()) started at power-up. *)
From V Require Import Base.Bits Gen.WireOps Model.SimKernel Model.Trace Proofs.C06.Range.
From V Require Import Model.Waveform Spec.C15.
From V Require Import Proofs.C15.Digits Proofs.C15.Row Proofs.C15.Watch Proofs.C15.Kernel Proofs.C15.Wavedrom
                      Proofs.C15.EndToEnd Proofs.C15.History.

(* ---------------------------------------------------------------- the bridge: C06's `ranged` read at one wire *)
Lemma ranged_length ws vs : ranged ws vs -> length ws = length vs.
Proof. unfold ranged. induction 1 as [|a b ws vs _ _ IH]; cbn [length]; [reflexivity | now rewrite IH]. Qed.

Lemma ranged_fits ws vs w : ranged ws vs -> fits (nth w ws 0) (rd vs w).
Proof.
  intros H. destruct (Nat.lt_ge_cases w (length vs)) as [Hlt|Hge].
  - exact (ranged_nth ws vs w H Hlt).
  - pose proof (ranged_length ws vs H) as Hl. unfold rd. rewrite (nth_overflow vs) by lia. rewrite (nth_overflow ws) by lia.
    unfold fits. simpl. lia.
Qed.

Lemma dict_get_keys (dd : dict) w l : dict_get dd w = Some l -> In w (keys dd).
Proof.
  induction dd as [|[w' l'] r IH]; cbn [dict_get keys map fst]; [discriminate|].
  destruct (Nat.eqb_spec w' w) as [->|_]; [intros _; now left | intros H; right; apply IH, H].
Qed.

Lemma dict_In_get (dd : dict) w l : NoDup (keys dd) -> In (w, l) dd -> dict_get dd w = Some l.
Proof.
  induction dd as [|[w' l'] rest IH]; intros Hnd Hp; [destruct Hp|].
  cbn [dict_get]. cbn [keys map fst] in Hnd. inversion Hnd as [|? ? Hnin Hrest]; subst.
  destruct Hp as [E|Hp]; [injection E as -> ->; now rewrite Nat.eqb_refl|].
  destruct (Nat.eqb_spec w' w) as [->|_]; [|apply IH; auto].
  exfalso. apply Hnin. change w with (fst (w, l)). now apply in_map.
Qed.

Section Powerup.
Context {St : Type}.
Variable getR : St -> dict.
Variable setR : St -> dict -> St.
Hypothesis get_set : forall st dd, getR (setR st dd) = dd.
Variable d : design St.
Hypothesis widths_nonneg : Forall (fun w => 0 <= w) (widths d).
Variable k : nat.
Variable entries : list entry.
Let r0 := wf_init (widths d) entries.
Hypothesis Hleaf : nth_error (seqs d) k = Some (recorder_leaf getR setR (wf_uniq r0)).

(* C06's invariant at s gives C15's range hypothesis for every edge of every clk(n) started at s *)
Lemma inv_pre_edge_fits s : Inv d s -> forall t w, fits (nth w (widths d) 0) (pre_edge d (propagated d s) w t).
Proof.
  intros [Hv Hp] t w. unfold pre_edge. apply ranged_fits.
  assert (Inv d (propagated d s)) as HI.
  { split; cbn [propagated vals pend]; [apply (propagateAll_ranged d widths_nonneg); exact Hv | exact Hp]. }
  exact (proj1 (cycles_inv d widths_nonneg t _ HI)).
Qed.

Lemma end_to_end_inv n s :
  Inv d s -> listed_once d k -> ungated d k -> entries <> [] ->
  recS getR k s = Some (wf_getDict r0) ->
  exists dd', recS getR k (clk d n s) = Some dd' /\
    decode_clock (fst (wf_wavedrom (widths d) (with_data d entries dd'))) = Some n /\
    length (snd (wf_wavedrom (widths d) (with_data d entries dd'))) = length entries /\
    forall i e, nth_error entries i = Some e ->
      exists rw, nth_error (snd (wf_wavedrom (widths d) (with_data d entries dd'))) i = Some rw
        /\ dict_get dd' (entry_wire e) = Some (samples_of d (propagated d s) (entry_wire e) n)
        /\ decode (nth (entry_wire e) (widths d) 0) rw = Some (samples_of d (propagated d s) (entry_wire e) n)
        /\ length (fst rw) = (n + 2)%nat.
Proof.
  intros HI H1 H2 Hne Hr.
  exact (end_to_end getR setR get_set d k entries Hleaf n s H1 H2 Hne (inv_pre_edge_fits s HI) Hr).
Qed.

(* ---- whole recorder histories *)
Lemma krun_inv s o : Inv d s -> Inv d (krun getR setR d k s o).
Proof.
  intros H. destruct o as [w v|n|]; cbn [krun].
  - apply poke_inv; assumption.
  - apply clk_inv; assumption.
  - unfold kclear. destruct (nth_error (sts s) k); [|exact H]. destruct H as [Hv Hp]. split; cbn; assumption.
Qed.

Lemma kruns_inv ops : forall s, Inv d s -> Inv d (fold_left (krun getR setR d k) ops s).
Proof. induction ops as [|o ops IH]; intros s H; cbn [fold_left]; auto. apply IH, krun_inv, H. Qed.

Lemma kexp_fits w ops : forall acc s, Inv d s -> Forall (fits (nth w (widths d) 0)) acc ->
  Forall (fits (nth w (widths d) 0)) (kexp getR setR d k w acc s ops).
Proof.
  induction ops as [|o ops IH]; intros acc s HI Hacc; [exact Hacc|].
  destruct o as [w' v|n|]; cbn [kexp].
  - apply IH; [exact (krun_inv s (KPoke w' v) HI) | exact Hacc].
  - apply IH; [exact (krun_inv s (KClk n) HI)|]. apply Forall_app. split; [exact Hacc|].
    unfold samples_of. apply Forall_forall. intros x Hx. apply in_map_iff in Hx as [t [<- _]].
    apply inv_pre_edge_fits, HI.
  - apply IH; [exact (krun_inv s KClear HI) | constructor].
Qed.

Lemma history_end_to_end ops s :
  Inv d s -> listed_once d k -> ungated d k -> entries <> [] ->
  recS getR k s = Some (wf_getDict r0) ->
  exists dd', recS getR k (fold_left (krun getR setR d k) ops s) = Some dd' /\
    decode_clock (fst (wf_wavedrom (widths d) (with_data d entries dd'))) = Some (kcount 0 ops) /\
    length (snd (wf_wavedrom (widths d) (with_data d entries dd'))) = length entries /\
    forall i e, nth_error entries i = Some e ->
      exists rw, nth_error (snd (wf_wavedrom (widths d) (with_data d entries dd'))) i = Some rw
        /\ dict_get dd' (entry_wire e) = Some (kexp getR setR d k (entry_wire e) [] s ops)
        /\ decode (nth (entry_wire e) (widths d) 0) rw = Some (kexp getR setR d k (entry_wire e) [] s ops)
        /\ length (fst rw) = (kcount 0 ops + 2)%nat.
Proof.
  intros HI H1 H2 Hne Hr.
  pose proof (wf_init_inv (widths d) entries) as Hinv0. fold r0 in Hinv0.
  assert (NoDup (wf_uniq r0)) as Hnd by (rewrite <- (inv_keys _ _ _ Hinv0); eapply inv_NoDup, Hinv0).
  destruct (khistory getR setR get_set d k (wf_uniq r0) Hleaf ops H1 H2 Hnd s _ Hr (inv_keys _ _ _ Hinv0))
    as [dd' [Ha [Hb Hc]]].
  exists dd'. split; [exact Ha|].
  assert (wf_inv (widths d) entries (with_data d entries dd')) as Hinv.
  { destruct Hinv0 as [Hw Hf Hu Hk]. constructor; cbn [with_data wf_wires wf_format wf_uniq wf_data]; auto. }
  assert (forall w l, dict_get dd' w = Some l -> l = kexp getR setR d k w [] s ops) as Hget.
  { intros w l Hl. pose proof (dict_get_keys _ _ _ Hl) as Hin. rewrite Hb, <- (inv_keys _ _ _ Hinv0) in Hin.
    destruct (dict_get_In _ _ Hin) as [l0 Hl0].
    assert (l0 = []) as ->.
    { pose proof (same_len_get O _ _ _ (same_len_init (widths d) entries) Hl0) as E. destruct l0; [reflexivity|discriminate]. }
    rewrite (Hc w [] Hl0) in Hl. now injection Hl as <-. }
  assert (same_len (kcount 0 ops) dd') as Hn.
  { unfold same_len. rewrite Forall_forall. intros [w l] Hp. cbn [snd].
    pose proof (inv_NoDup _ _ _ Hinv) as Hnd'. cbn [with_data wf_data] in Hnd'.
    rewrite (Hget _ _ (dict_In_get dd' w l Hnd' Hp)). apply (kexp_length getR setR d k). }
  assert (in_range (widths d) (wf_data (with_data d entries dd'))) as Hrng.
  { intros w l Hl. cbn [with_data wf_data] in Hl. rewrite (Hget _ _ Hl). apply kexp_fits; [exact HI | constructor]. }
  destruct (wavedrom_decodes (widths d) entries _ (kcount 0 ops) Hinv Hn Hrng Hne) as [Hk1 [_ [Hk3 Hk4]]].
  split; [exact Hk1|]. split; [exact Hk3|].
  intros i e Hi. destruct (Hk4 i e Hi) as [rw [samples [Ha' [Hb' [Hc' Hd]]]]].
  cbn [with_data wf_data] in Hb'. pose proof (Hget _ _ Hb') as ->.
  exists rw. repeat split; auto.
Qed.
End Powerup.

(* ---------------------------------------------------------------- the theorems of Properties/C15.v *)
Lemma end_to_end_from_powerup_thm :
  forall (St : Type) (getR : St -> dict) (setR : St -> dict -> St),
    (forall st dd, getR (setR st dd) = dd) ->
  forall (d : design St) (k : nat) entries (st0 : list St) (ops : list op) (n : nat),
    let r0 := wf_init (widths d) entries in
    let s := fold_left (run_op d) ops (init d st0) in
    Forall (fun w => 0 <= w) (widths d) ->
    nth_error (seqs d) k = Some (recorder_leaf getR setR (wf_uniq r0)) ->
    listed_once d k -> ungated d k -> entries <> [] ->
    recS getR k s = Some (wf_getDict r0) ->
    exists dd', recS getR k (clk d n s) = Some dd' /\
      (let r' := {| wf_wires := wf_wires r0; wf_format := wf_format r0; wf_uniq := wf_uniq r0; wf_data := dd' |} in
      decode_clock (fst (wf_wavedrom (widths d) r')) = Some n /\
      length (snd (wf_wavedrom (widths d) r')) = length entries /\
      forall i e, nth_error entries i = Some e ->
        exists rw, nth_error (snd (wf_wavedrom (widths d) r')) i = Some rw
          /\ dict_get dd' (entry_wire e) = Some (samples_of d (propagated d s) (entry_wire e) n)
          /\ decode (nth (entry_wire e) (widths d) 0) rw = Some (samples_of d (propagated d s) (entry_wire e) n)
          /\ length (fst rw) = (n + 2)%nat).
Proof.
  intros St getR setR Hgs d k entries st0 ops n r0 s Hnn Hleaf H1 H2 Hne Hr.
  exact (end_to_end_inv getR setR Hgs d Hnn k entries Hleaf n s (history_inv d Hnn st0 ops) H1 H2 Hne Hr).
Qed.

(* the same when leaves put values on wires from their constructors (C06_invariant_constructor_puts) *)
Lemma end_to_end_from_powerup_constructor_puts_thm :
  forall (St : Type) (getR : St -> dict) (setR : St -> dict -> St),
    (forall st dd, getR (setR st dd) = dd) ->
  forall (d : design St) (k : nat) entries (st0 : list St) (pokes : list (nat * Z)) (ops : list op) (n : nat),
    let r0 := wf_init (widths d) entries in
    let s := fold_left (run_op d) ops (init_poked d st0 pokes) in
    Forall (fun w => 0 <= w) (widths d) ->
    nth_error (seqs d) k = Some (recorder_leaf getR setR (wf_uniq r0)) ->
    listed_once d k -> ungated d k -> entries <> [] ->
    recS getR k s = Some (wf_getDict r0) ->
    exists dd', recS getR k (clk d n s) = Some dd' /\
      (let r' := {| wf_wires := wf_wires r0; wf_format := wf_format r0; wf_uniq := wf_uniq r0; wf_data := dd' |} in
      decode_clock (fst (wf_wavedrom (widths d) r')) = Some n /\
      length (snd (wf_wavedrom (widths d) r')) = length entries /\
      forall i e, nth_error entries i = Some e ->
        exists rw, nth_error (snd (wf_wavedrom (widths d) r')) i = Some rw
          /\ dict_get dd' (entry_wire e) = Some (samples_of d (propagated d s) (entry_wire e) n)
          /\ decode (nth (entry_wire e) (widths d) 0) rw = Some (samples_of d (propagated d s) (entry_wire e) n)
          /\ length (fst rw) = (n + 2)%nat).
Proof.
  intros St getR setR Hgs d k entries st0 pokes ops n r0 s Hnn Hleaf H1 H2 Hne Hr.
  exact (end_to_end_inv getR setR Hgs d Hnn k entries Hleaf n s (history_poked_inv d Hnn st0 pokes ops) H1 H2 Hne Hr).
Qed.

(* a recorder that is fresh at power-up, then ANY history of pokes / clk(n) / clear(): get_wavedrom of the final
   recording decodes, entry by entry, to the reference history kexp *)
Lemma history_end_to_end_from_powerup_thm :
  forall (St : Type) (getR : St -> dict) (setR : St -> dict -> St),
    (forall st dd, getR (setR st dd) = dd) ->
  forall (d : design St) (k : nat) entries (st0 : list St) (pokes : list (nat * Z)) (ops : list kop),
    let r0 := wf_init (widths d) entries in
    let s0 := init_poked d st0 pokes in
    Forall (fun w => 0 <= w) (widths d) ->
    nth_error (seqs d) k = Some (recorder_leaf getR setR (wf_uniq r0)) ->
    listed_once d k -> ungated d k -> entries <> [] ->
    recS getR k s0 = Some (wf_getDict r0) ->
    exists dd', recS getR k (fold_left (krun getR setR d k) ops s0) = Some dd' /\
      (let r' := {| wf_wires := wf_wires r0; wf_format := wf_format r0; wf_uniq := wf_uniq r0; wf_data := dd' |} in
      decode_clock (fst (wf_wavedrom (widths d) r')) = Some (kcount 0 ops) /\
      length (snd (wf_wavedrom (widths d) r')) = length entries /\
      forall i e, nth_error entries i = Some e ->
        exists rw, nth_error (snd (wf_wavedrom (widths d) r')) i = Some rw
          /\ dict_get dd' (entry_wire e) = Some (kexp getR setR d k (entry_wire e) [] s0 ops)
          /\ decode (nth (entry_wire e) (widths d) 0) rw = Some (kexp getR setR d k (entry_wire e) [] s0 ops)
          /\ length (fst rw) = (kcount 0 ops + 2)%nat).
Proof.
  intros St getR setR Hgs d k entries st0 pokes ops r0 s0 Hnn Hleaf H1 H2 Hne Hr.
  exact (history_end_to_end getR setR Hgs d Hnn k entries Hleaf ops s0 (init_poked_inv d Hnn st0 pokes) H1 H2 Hne Hr).
Qed.

(* ---------------------------------------------------------------- a concrete instance
   an 8-bit register (d = wire 0, q = wire 1; its constructor shows 5 on q) and a recorder watching q, the input
   port and q again, in the ungated clock domain; the user pokes 300 (> 8 bits: stored as 44) *)
Definition pu_d0 : design Z :=
  {| widths := [8; 8; 1]; combs := [];
     seqs := [{| s_in := [0%nat]; s_out := [1%nat]; s_f := fun (st : Z) ins => (st, [Some (nth 0 ins 0)]) |}];
     drivers := [{| d_enable := None; d_leaves := [0%nat] |}] |}.
Definition pu_entries : list entry := [EWire 1; EPort 0; EWire 1].
Definition pu_d : design (Z + dict) := with_recorder pu_d0 (wf_uniq (wf_init (widths pu_d0) pu_entries)) 0 None.
Definition pu_st0 : list (Z + dict) := [inl 0; inr (wf_getDict (wf_init (widths pu_d0) pu_entries))].

Lemma pu_hyps :
  (forall (st : Z + dict) dd, getR_sum (setR_sum st dd) = dd) /\
  Forall (fun w => 0 <= w) (widths pu_d) /\
  nth_error (seqs pu_d) 1 = Some (recorder_leaf getR_sum setR_sum (wf_uniq (wf_init (widths pu_d) pu_entries))) /\
  listed_once pu_d 1 /\ ungated pu_d 1 /\ pu_entries <> [] /\
  (* the recorder is still fresh after pokes / propagateAll / clk(0) (hypothesis of end_to_end_from_powerup) *)
  recS getR_sum 1 (fold_left (run_op pu_d) [OpPoke 0%nat 300; OpPropagate; OpClk 0] (init pu_d pu_st0))
    = Some (wf_getDict (wf_init (widths pu_d) pu_entries)) /\
  recS getR_sum 1 (fold_left (run_op pu_d) [OpPoke 0%nat 300; OpPropagate; OpClk 0] (init_poked pu_d pu_st0 [(1%nat, 5)]))
    = Some (wf_getDict (wf_init (widths pu_d) pu_entries)) /\
  (* and at power-up (hypothesis of history_end_to_end_from_powerup); a history with a clear() in the middle *)
  recS getR_sum 1 (init_poked pu_d pu_st0 [(1%nat, 5)]) = Some (wf_getDict (wf_init (widths pu_d) pu_entries)) /\
  recS getR_sum 1 (fold_left (krun getR_sum setR_sum pu_d 1) [KClk 2; KClear; KPoke 0 300; KClk 3]
                             (init_poked pu_d pu_st0 [(1%nat, 5)]))
    = Some [(1%nat, [0; 44; 44]); (0%nat, [44; 44; 44])] /\
  kcount 0 [KClk 2; KClear; KPoke 0 300; KClk 3] = 3%nat.
Proof.
  split; [reflexivity|]. split; [repeat constructor; lia|]. split; [reflexivity|]. split; [vm_compute; reflexivity|].
  split; [intros drv Hin _; vm_compute in Hin; destruct Hin as [<-|[]]; reflexivity|].
  split; [discriminate|].
  repeat split; vm_compute; reflexivity.
Qed.
