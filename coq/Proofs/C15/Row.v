(* C15: a row built by get_wavedrom (Model.Waveform.row) is read back by Spec.C15.decode; spans *)
From V Require Import Base.Bits Model.SimKernel Model.Waveform Spec.C15 Proofs.C15.Digits.

Definition changed (last : option Z) (v : Z) : bool :=
  match last with None => true | Some l => negb (v =? l) end.

(* the characters / labels row_step appends, as a structural recursion *)
Fixpoint enc (ww : Z) (f : fmt) (last : option Z) (data : list Z) : list Z * list (list Z) :=
  match data with
  | [] => ([], [])
  | v :: r =>
      let cl := enc ww f (Some v) r in
      if changed last v
      then (if ww =? 1 then (str_dec v ++ fst cl, snd cl) else (str_dec 2 ++ fst cl, apply_fmt f v :: snd cl))
      else (ch_dot :: fst cl, snd cl)
  end.

Lemma same_changed last v : changed last v = true -> same last v = false.
Proof. destruct last as [l|]; cbn [changed same]; [|reflexivity]. rewrite (Z.eqb_sym l v). destruct (v =? l); cbn; congruence. Qed.

Lemma row_fold ww f data : forall wd dd last,
  fst (fold_left (row_step ww f) data (wd, dd, last)) = (wd ++ fst (enc ww f last data), dd ++ snd (enc ww f last data)).
Proof.
  induction data as [|v r IH]; intros wd dd last; cbn [fold_left enc].
  - cbn [fst snd]. now rewrite !app_nil_r.
  - unfold row_step at 2. fold (changed last v).
    destruct (changed last v); [destruct (ww =? 1)|]; rewrite IH; cbn [fst snd];
      rewrite <- ?app_assoc; reflexivity.
Qed.

Lemma row_enc ww f data :
  row ww f data = (ch_x :: fst (enc ww f None data) ++ [ch_x], snd (enc ww f None data)).
Proof.
  unfold row. pose proof (row_fold ww f data [ch_x] [] None) as H.
  destruct (fold_left (row_step ww f) data ([ch_x], [], None)) as [[wd dd] l]. cbn [fst] in H.
  inversion H; subst. reflexivity.
Qed.

(* what a legal sample of a wire of this width looks like (it is the C06 range invariant) *)
Definition sample_ok (ww : Z) (f : fmt) (v : Z) : Prop :=
  if ww =? 1 then 0 <= v < 2 else (f = FmtHEX /\ 0 <= v).

Lemma decode_enc ww f data : Forall (sample_ok ww f) data -> forall last,
  decode_body (ww =? 1) last (fst (enc ww f last data) ++ [120]) (snd (enc ww f last data)) = Some data.
Proof.
  induction 1 as [|v r Hv Hr IH]; intros last; cbn [enc].
  - reflexivity.
  - unfold sample_ok in Hv. destruct (changed last v) eqn:Ech.
    + apply same_changed in Ech. destruct (ww =? 1) eqn:Ew.
      * rewrite str_dec_bit by exact Hv. cbn [fst snd app].
        specialize (IH (Some v)).
        assert (v = 0 \/ v = 1) as [-> | ->] by lia; cbn [decode_body];
          (replace (48 + 0) with 48 by lia); (replace (48 + 1) with 49 by lia); cbn -[decode_body enc same];
          rewrite Ech, IH; reflexivity.
      * destruct Hv as [-> Hv]. change (str_dec 2) with [50]. cbn [fst snd app apply_fmt].
        cbn [decode_body]. cbn -[decode_body enc parse_hex str_HEX same].
        rewrite hex_roundtrip by exact Hv. specialize (IH (Some v)). rewrite Ech, IH. reflexivity.
    + destruct last as [l|]; [|discriminate]. cbn [changed] in Ech.
      assert (v = l) as -> by lia. cbn [fst snd app]. unfold ch_dot.
      cbn [decode_body]. cbn -[decode_body enc]. rewrite IH. reflexivity.
Qed.

Lemma roundtrip_ok ww f data : Forall (sample_ok ww f) data -> decode ww (row ww f data) = Some data.
Proof.
  intros H. rewrite row_enc. unfold decode. cbn [fst snd]. unfold ch_x.
  change (120 =? 120) with true. cbv iota. apply decode_enc, H.
Qed.

Definition fmt_of_width (ww : Z) : fmt := if ww =? 1 then FmtEmpty else FmtHEX.

Lemma fits_sample_ok ww v : fits ww v -> sample_ok ww (fmt_of_width ww) v.
Proof.
  unfold fits, sample_ok, fmt_of_width. intros H. destruct (Z.eqb_spec ww 1) as [->|Hn].
  - change (2 ^ 1) with 2 in H. lia.
  - split; [reflexivity | lia].
Qed.

Lemma roundtrip ww samples : Forall (fits ww) samples ->
  decode ww (row ww (if ww =? 1 then FmtEmpty else FmtHEX) samples) = Some samples.
Proof.
  intros H. apply (roundtrip_ok ww (fmt_of_width ww)).
  eapply Forall_impl; [|exact H]. intros v. apply fits_sample_ok.
Qed.

(* ---------------------------------------------------------------- span *)
Definition span_ok (ww : Z) (v : Z) : Prop := ww = 1 -> 0 <= v < 2.

Lemma enc_length ww f data : Forall (span_ok ww) data -> forall last,
  length (fst (enc ww f last data)) = length data.
Proof.
  induction 1 as [|v r Hv Hr IH]; intros last; cbn [enc]; [reflexivity|].
  destruct (changed last v); [destruct (Z.eqb_spec ww 1) as [E|E]|]; cbn [fst length].
  - rewrite str_dec_bit by (apply Hv, E). cbn [app length]. now rewrite IH.
  - change (str_dec 2) with [50]. cbn [app length]. now rewrite IH.
  - now rewrite IH.
Qed.

Lemma enc_labels_le ww f data : forall last, (length (snd (enc ww f last data)) <= length data)%nat.
Proof.
  induction data as [|v r IH]; intros last; cbn [enc]; [cbn; lia|].
  specialize (IH (Some v)).
  destruct (changed last v); [destruct (ww =? 1)|]; cbn [snd length]; lia.
Qed.

Lemma row_span ww f data : Forall (span_ok ww) data ->
  length (fst (row ww f data)) = (length data + 2)%nat.
Proof.
  intros H. rewrite row_enc. cbn [fst length]. rewrite app_length, enc_length by exact H. cbn [length]. lia.
Qed.

Lemma row_ends ww f data : exists body,
  fst (row ww f data) = 120 :: body ++ [120].
Proof. rewrite row_enc. eexists. reflexivity. Qed.

Lemma clock_row_length n : length (clock_row n) = (n + 2)%nat.
Proof. unfold clock_row. cbn [length]. rewrite app_length, repeat_length. cbn [length]. lia. Qed.

Lemma count_dots_repeat n : count_dots (repeat 46 n ++ [120]) = Some n.
Proof. induction n as [|n IH]; cbn [repeat app count_dots]; [reflexivity|]. cbn -[count_dots]. now rewrite IH. Qed.

Lemma clock_row_decodes n : decode_clock (clock_row n) = Some n.
Proof. unfold clock_row, decode_clock, ch_P, ch_dot, ch_x. change (80 =? 80) with true. cbv iota. apply count_dots_repeat. Qed.

(* without the range guard the claim is false: a 1-bit row holding the (illegal) value 10 renders as
   "x10x", which reads back as the two samples 1, 0 *)
Lemma roundtrip_needs_range : decode 1 (row 1 FmtEmpty [10]) = Some [1; 0].
Proof. vm_compute. reflexivity. Qed.
