(* C15: watch-list handling (__init__), clock(), clear() of the recorder taken alone *)
From V Require Import Base.Bits Model.SimKernel Model.Waveform Spec.C15.

Lemma existsb_eqb_In x l : existsb (Nat.eqb x) l = true <-> In x l.
Proof.
  rewrite existsb_exists. split.
  - intros [y [Hy E]]. apply Nat.eqb_eq in E. now subst.
  - intros H. exists x. split; auto. apply Nat.eqb_refl.
Qed.

Lemma existsb_eqb_false x l : existsb (Nat.eqb x) l = false <-> ~ In x l.
Proof. rewrite <- existsb_eqb_In. destruct (existsb (Nat.eqb x) l); split; congruence. Qed.

(* ---------------------------------------------------------------- first_occ *)
Lemma first_occ_In seen l x : In x (first_occ seen l) <-> In x l /\ ~ In x seen.
Proof.
  revert seen. induction l as [|y r IH]; intros seen; cbn [first_occ].
  - cbn. tauto.
  - destruct (existsb (Nat.eqb y) seen) eqn:E.
    + apply existsb_eqb_In in E. rewrite IH. cbn [In]. split; [tauto|]. intros [[->|H] N]; tauto.
    + apply existsb_eqb_false in E. cbn [In]. rewrite IH, in_app_iff. cbn [In].
      destruct (Nat.eq_dec y x) as [->|Hn]; tauto.
Qed.

Lemma first_occ_NoDup seen l : NoDup (first_occ seen l).
Proof.
  revert seen. induction l as [|y r IH]; intros seen; cbn [first_occ]; [constructor|].
  destruct (existsb (Nat.eqb y) seen); auto. constructor; auto.
  rewrite first_occ_In, in_app_iff. cbn [In]. tauto.
Qed.


(* ---------------------------------------------------------------- dict *)
Definition keys (d : dict) : list nat := map fst d.

Lemma dict_set_new d k v : ~ In k (keys d) -> dict_set d k v = d ++ [(k, v)].
Proof.
  induction d as [|[k' l] r IH]; intros H; cbn [dict_set app]; [reflexivity|].
  cbn [keys map fst In] in H. destruct (Nat.eqb_spec k' k) as [->|Hn]; [tauto|].
  rewrite IH; [reflexivity|]. unfold keys. tauto.
Qed.

Lemma dict_upd_map d k f : NoDup (keys d) ->
  dict_upd d k f = map (fun p => if Nat.eqb (fst p) k then (fst p, f (snd p)) else p) d.
Proof.
  induction d as [|[k' l] r IH]; intros H; cbn [dict_upd map fst snd]; [reflexivity|].
  cbn [keys map fst] in H. inversion H as [|? ? Hk Hr]; subst.
  destruct (Nat.eqb_spec k' k) as [->|Hn].
  - f_equal. symmetry. erewrite map_ext_in; [apply map_id|].
    intros [a b] Hab. cbn [fst]. destruct (Nat.eqb_spec a k) as [->|]; [|reflexivity].
    exfalso. apply Hk. change k with (fst (k, b)). now apply in_map.
  - f_equal. apply IH, Hr.
Qed.

Lemma dict_upd_keys d k f : keys (dict_upd d k f) = keys d.
Proof.
  induction d as [|[k' l] r IH]; cbn [dict_upd]; [reflexivity|].
  destruct (Nat.eqb k' k); cbn [keys map fst]; [reflexivity|]. f_equal. exact IH.
Qed.

Lemma dict_get_map (h : nat -> list Z -> list Z) d k :
  dict_get (map (fun p => (fst p, h (fst p) (snd p))) d) k = option_map (h k) (dict_get d k).
Proof.
  induction d as [|[k' l] r IH]; cbn [map dict_get fst snd]; [reflexivity|].
  destruct (Nat.eqb_spec k' k) as [->|Hn]; [reflexivity | exact IH].
Qed.

Lemma dict_get_In d k : In k (keys d) -> exists l, dict_get d k = Some l.
Proof.
  induction d as [|[k' l] r IH]; cbn [keys map fst In dict_get]; [tauto|].
  intros [->|H]; [rewrite Nat.eqb_refl; eauto|].
  destruct (Nat.eqb k' k); eauto.
Qed.

Lemma dict_get_app_new d k v : dict_get (d ++ [(k, v)]) k = match dict_get d k with Some l => Some l | None => Some v end.
Proof.
  induction d as [|[k' l] r IH]; cbn [app dict_get]; [now rewrite Nat.eqb_refl|].
  destruct (Nat.eqb k' k); auto.
Qed.

(* ---------------------------------------------------------------- clock() *)
Definition app_sample (g : nat -> Z) (us : list nat) (w : nat) (l : list Z) : list Z :=
  if existsb (Nat.eqb w) us then l ++ [g w] else l.

Lemma clock_fold g us : NoDup us -> forall d, NoDup (keys d) ->
  fold_left (fun d p => dict_upd d (fst p) (fun l => l ++ [snd p])) (combine us (map g us)) d
  = map (fun p => (fst p, app_sample g us (fst p) (snd p))) d.
Proof.
  induction 1 as [|u us Hu Hus IH]; intros d Hd; cbn [map combine fold_left].
  - symmetry. erewrite map_ext; [apply map_id|]. intros [a b]. reflexivity.
  - rewrite IH by (rewrite dict_upd_keys; exact Hd).
    rewrite dict_upd_map by exact Hd. rewrite map_map. apply map_ext. intros [a b]. cbn [fst snd].
    unfold app_sample. cbn [existsb].
    destruct (Nat.eqb_spec a u) as [->|Hn]; cbn [fst snd orb].
    + apply existsb_eqb_false in Hu. now rewrite Hu.
    + reflexivity.
Qed.

(* one clock(): every key gets exactly one more sample, the value g reads on that wire *)
Lemma clock_ins_all g d : NoDup (keys d) ->
  clock_ins (keys d) d (map g (keys d)) = map (fun p => (fst p, snd p ++ [g (fst p)])) d.
Proof.
  intros H. unfold clock_ins. rewrite clock_fold by auto.
  apply map_ext_in. intros [a b] Hab. cbn [fst snd]. unfold app_sample.
  assert (In a (keys d)) as Hin by (change a with (fst (a, b)); now apply in_map).
  apply existsb_eqb_In in Hin. now rewrite Hin.
Qed.

Lemma keys_map_snd (h : nat -> list Z -> list Z) d : keys (map (fun p => (fst p, h (fst p) (snd p))) d) = keys d.
Proof. unfold keys. rewrite map_map. reflexivity. Qed.

(* ---------------------------------------------------------------- __init__ *)
Definition fmt_of (ws : list Z) (e : entry) : fmt := if nth (entry_wire e) ws 0 =? 1 then FmtEmpty else FmtHEX.

Lemma init_fold ws entries : forall fm uq dt, keys dt = uq ->
  fold_left (init_step ws) entries (fm, uq, dt) =
  (fm ++ map (fmt_of ws) entries,
   uq ++ first_occ uq (map entry_wire entries),
   dt ++ map (fun w => (w, [])) (first_occ uq (map entry_wire entries))).
Proof.
  induction entries as [|x r IH]; intros fm uq dt Hk; cbn [fold_left map first_occ].
  - now rewrite !app_nil_r.
  - unfold init_step at 2. destruct (existsb (Nat.eqb (entry_wire x)) uq) eqn:E.
    + rewrite IH by exact Hk. rewrite <- app_assoc. reflexivity.
    + apply existsb_eqb_false in E. rewrite dict_set_new by (rewrite Hk; exact E).
      rewrite IH by (unfold keys in *; rewrite map_app, Hk; reflexivity).
      rewrite <- !app_assoc. reflexivity.
Qed.

(* the state of a recorder watching `entries`: the invariant every operation keeps *)
Record wf_inv (ws : list Z) (entries : list entry) (r : wf) : Prop := {
  inv_wires : wf_wires r = entries;
  inv_format : wf_format r = map (fmt_of ws) entries;
  inv_uniq : wf_uniq r = first_occ [] (map entry_wire entries);
  inv_keys : keys (wf_data r) = wf_uniq r }.

Lemma wf_init_eq ws entries :
  wf_init ws entries = {| wf_wires := entries; wf_format := map (fmt_of ws) entries;
                          wf_uniq := first_occ [] (map entry_wire entries);
                          wf_data := map (fun w => (w, [])) (first_occ [] (map entry_wire entries)) |}.
Proof. unfold wf_init. rewrite init_fold by reflexivity. reflexivity. Qed.

Lemma wf_init_inv ws entries : wf_inv ws entries (wf_init ws entries).
Proof.
  rewrite wf_init_eq. constructor; cbn; auto. unfold keys. rewrite map_map. cbn. apply map_id.
Qed.

Lemma inv_NoDup ws entries r : wf_inv ws entries r -> NoDup (keys (wf_data r)).
Proof. intros [_ _ Hu Hk]. rewrite Hk, Hu. apply first_occ_NoDup. Qed.

Lemma inv_watched ws entries r e : wf_inv ws entries r -> In e entries -> In (entry_wire e) (keys (wf_data r)).
Proof.
  intros [_ _ Hu Hk] He. rewrite Hk, Hu. apply first_occ_In. split; [now apply in_map | intros []].
Qed.

Lemma wf_clock_data ws entries r vals : wf_inv ws entries r ->
  wf_data (wf_clock r vals) = map (fun p => (fst p, snd p ++ [rd vals (fst p)])) (wf_data r).
Proof.
  intros H. cbn [wf_clock wf_data]. rewrite <- (inv_keys _ _ _ H).
  apply clock_ins_all. eapply inv_NoDup, H.
Qed.

Lemma wf_clock_inv ws entries r vals : wf_inv ws entries r -> wf_inv ws entries (wf_clock r vals).
Proof.
  intros H. pose proof (wf_clock_data _ _ _ vals H) as Hd. destruct H as [Hw Hf Hu Hk].
  constructor; cbn [wf_clock wf_wires wf_format wf_uniq]; auto.
  change (clock_ins _ _ _) with (wf_data (wf_clock r vals)). rewrite Hd.
  rewrite (keys_map_snd (fun k l => l ++ [rd vals k])). exact Hk.
Qed.

Lemma wf_clear_inv ws entries r : wf_inv ws entries r -> wf_inv ws entries (wf_clear r).
Proof.
  intros [Hw Hf Hu Hk]. constructor; cbn [wf_clear wf_wires wf_format wf_uniq wf_data]; auto.
  unfold clear_data. rewrite (keys_map_snd (fun _ _ => [])). exact Hk.
Qed.

Lemma wf_op_inv ws entries r o : wf_inv ws entries r -> wf_inv ws entries (wf_op r o).
Proof. destruct o; cbn [wf_op]; [apply wf_clock_inv | apply wf_clear_inv]. Qed.

Lemma wf_ops_inv ws entries ops : forall r, wf_inv ws entries r -> wf_inv ws entries (fold_left wf_op ops r).
Proof. induction ops as [|o ops IH]; intros r H; cbn [fold_left]; auto. apply IH, wf_op_inv, H. Qed.

(* per wire: clock() appends exactly the value carried, clear() empties *)
Lemma wf_clock_get ws entries r vals w l : wf_inv ws entries r ->
  dict_get (wf_data r) w = Some l -> dict_get (wf_data (wf_clock r vals)) w = Some (l ++ [rd vals w]).
Proof.
  intros H Hg. rewrite (wf_clock_data _ _ _ vals H).
  rewrite (dict_get_map (fun k l => l ++ [rd vals k])), Hg. reflexivity.
Qed.

Lemma wf_clear_get r w l : dict_get (wf_data r) w = Some l -> dict_get (wf_data (wf_clear r)) w = Some [].
Proof.
  intros Hg. cbn [wf_clear wf_data]. unfold clear_data.
  rewrite (dict_get_map (fun _ _ => [])), Hg. reflexivity.
Qed.

Lemma wf_history_from ws entries ops : forall r w l, wf_inv ws entries r ->
  dict_get (wf_data r) w = Some l ->
  dict_get (wf_data (fold_left wf_op ops r)) w = Some (hist w l ops).
Proof.
  induction ops as [|o ops IH]; intros r w l H Hg; cbn [fold_left hist]; auto.
  destruct o as [vs|]; cbn [wf_op].
  - eapply IH; [apply wf_clock_inv, H | eapply wf_clock_get; eauto].
  - eapply IH; [apply wf_clear_inv, H | eapply wf_clear_get; eauto].
Qed.

Lemma wf_init_get ws entries e : In e entries -> dict_get (wf_data (wf_init ws entries)) (entry_wire e) = Some [].
Proof.
  intros He. destruct (dict_get_In _ _ (inv_watched _ _ _ e (wf_init_inv ws entries) He)) as [l Hl].
  rewrite Hl. rewrite wf_init_eq in Hl. cbn [wf_data] in Hl.
  revert Hl. generalize (first_occ [] (map entry_wire entries)). intros us.
  induction us as [|u us IH]; cbn [map dict_get]; [discriminate|].
  destruct (Nat.eqb u (entry_wire e)); [congruence | exact IH].
Qed.

(* the recorder taken alone, any history of clock()/clear(): every entry (wire, port, repeated) reads the
   reference sample list of its wire *)
Lemma wf_history ws entries ops e : In e entries ->
  dict_get (wf_data (fold_left wf_op ops (wf_init ws entries))) (entry_wire e) = Some (hist (entry_wire e) [] ops).
Proof. intros He. eapply wf_history_from; [apply wf_init_inv | apply wf_init_get, He]. Qed.

Lemma hist_length_clocks w ops : forall acc,
  (forall o, In o ops -> o <> WClear) -> length (hist w acc ops) = (length acc + length ops)%nat.
Proof.
  induction ops as [|o ops IH]; intros acc H; cbn [hist length]; [lia|].
  destruct o as [vs|]; [|exfalso; eapply H; [left; reflexivity | reflexivity]].
  rewrite IH by (intros o Ho; apply H; now right). rewrite app_length. cbn [length]. lia.
Qed.

(* all sample lists have the same length (what the clock row relies on) *)
Definition same_len (n : nat) (d : dict) : Prop := Forall (fun p => length (snd p) = n) d.

Lemma same_len_clock n g d : same_len n d -> same_len (S n) (map (fun p => (fst p, snd p ++ [g (fst p)])) d).
Proof.
  unfold same_len. rewrite !Forall_forall. intros H p Hp. apply in_map_iff in Hp as [q [<- Hq]].
  cbn [snd]. rewrite app_length, (H q Hq). cbn [length]. lia.
Qed.

Lemma same_len_clear d : same_len 0 (clear_data d).
Proof. unfold same_len, clear_data. rewrite Forall_forall. intros p Hp. apply in_map_iff in Hp as [q [<- _]]. reflexivity. Qed.

Lemma same_len_init ws entries : same_len 0 (wf_data (wf_init ws entries)).
Proof. rewrite wf_init_eq. cbn [wf_data]. unfold same_len. rewrite Forall_forall. intros p Hp. apply in_map_iff in Hp as [q [<- _]]. reflexivity. Qed.

Lemma same_len_ops ws entries ops : forall r n, wf_inv ws entries r -> same_len n (wf_data r) ->
  exists m, same_len m (wf_data (fold_left wf_op ops r)).
Proof.
  induction ops as [|o ops IH]; intros r n H Hn; cbn [fold_left]; [eauto|].
  destruct o as [vs|]; cbn [wf_op].
  - apply (IH _ (S n)); [apply wf_clock_inv, H|]. rewrite (wf_clock_data _ _ _ vs H). apply same_len_clock, Hn.
  - apply (IH _ O); [apply wf_clear_inv, H|]. apply same_len_clear.
Qed.

Lemma same_len_get n d k l : same_len n d -> dict_get d k = Some l -> length l = n.
Proof.
  unfold same_len. induction d as [|[k' l'] r IH]; cbn [dict_get]; [discriminate|].
  intros H. inversion H; subst. destruct (Nat.eqb k' k); [intros [= <-]; auto | auto].
Qed.
