(* C15: the recorder inside the kernel over a whole user history: pokes, clk(n) (n = 0 included), clear() *)
From V Require Import Base.Bits Model.SimKernel Model.Waveform Spec.C15.
From V Require Import Proofs.C15.Watch Proofs.C15.Kernel.

Section KHist.
Context {St : Type}.
Variable getR : St -> dict.
Variable setR : St -> dict -> St.
Hypothesis get_set : forall st dd, getR (setR st dd) = dd.
Variable d : design St.
Variable k : nat.
Variable uq : list nat.
Hypothesis Hleaf : nth_error (seqs d) k = Some (recorder_leaf getR setR uq).

(* user-visible operations: wire.put on an input, Simulator.clk(n), Waveform.clear() *)
Inductive kop := KPoke (w : nat) (v : Z) | KClk (n : nat) | KClear.

(* clear() acts on the recorder's component of the simulator state only *)
Definition kclear (s : state St) : state St :=
  match nth_error (sts s) k with
  | Some st => {| vals := vals s; pend := pend s; sts := set_nth (sts s) k (setR st (clear_data (getR st))); total := total s |}
  | None => s
  end.

Definition krun (s : state St) (o : kop) : state St :=
  match o with KPoke w v => poke d s w v | KClk n => clk d n s | KClear => kclear s end.

(* what wire w's sample list must be after the history: every clk(n) contributes the n values w carried going
   into its edges, clear() forgets *)
Fixpoint kexp (w : nat) (acc : list Z) (s : state St) (ops : list kop) : list Z :=
  match ops with
  | [] => acc
  | KClk n :: r => kexp w (acc ++ samples_of d (propagated d s) w n) (clk d n s) r
  | KClear :: r => kexp w [] (kclear s) r
  | o :: r => kexp w acc (krun s o) r
  end.

Lemma kclear_rec s dd : recS getR k s = Some dd -> recS getR k (kclear s) = Some (clear_data dd).
Proof.
  unfold recS, kclear. destruct (nth_error (sts s) k) as [st|] eqn:E; [|discriminate].
  cbn [option_map sts]. intros [= <-]. erewrite nth_error_set_nth_same by exact E. cbn [option_map]. now rewrite get_set.
Qed.

Lemma khistory ops : listed_once d k -> ungated d k -> NoDup uq -> forall s dd,
  recS getR k s = Some dd -> keys dd = uq ->
  exists dd', recS getR k (fold_left krun ops s) = Some dd' /\ keys dd' = uq /\
    forall w acc, dict_get dd w = Some acc -> dict_get dd' w = Some (kexp w acc s ops).
Proof.
  intros H1 H2 Hnd. induction ops as [|o ops IH]; intros s dd Hr Hk; cbn [fold_left kexp].
  - exists dd. auto.
  - destruct o as [w v|n|]; cbn [krun].
    + destruct (IH (poke d s w v) dd Hr Hk) as [dd' [Ha [Hb Hc]]]. exists dd'. auto.
    + pose proof (clk_rec getR setR get_set d k uq Hleaf n H1 H2 Hnd s dd Hr Hk) as Hc.
      destruct (IH _ _ Hc) as [dd' [Ha [Hb Hd]]].
      { rewrite (keys_map_snd (fun k l => l ++ samples_of d (propagated d s) k n)). exact Hk. }
      exists dd'. split; [exact Ha|]. split; [exact Hb|]. intros w acc Hw. apply Hd.
      rewrite (dict_get_map (fun k l => l ++ samples_of d (propagated d s) k n)), Hw. reflexivity.
    + pose proof (kclear_rec s dd Hr) as Hc.
      destruct (IH _ _ Hc) as [dd' [Ha [Hb Hd]]].
      { unfold clear_data. rewrite (keys_map_snd (fun _ _ => [])). exact Hk. }
      exists dd'. split; [exact Ha|]. split; [exact Hb|]. intros w acc Hw. apply Hd.
      unfold clear_data. rewrite (dict_get_map (fun _ _ => [])), Hw. reflexivity.
Qed.

(* number of samples = number of cycles simulated since the last clear() *)
Fixpoint kcount (acc : nat) (ops : list kop) : nat :=
  match ops with [] => acc | KClk n :: r => kcount (acc + n) r | KClear :: r => kcount 0 r | _ :: r => kcount acc r end.

Lemma kexp_length w ops : forall acc s, length (kexp w acc s ops) = kcount (length acc) ops.
Proof.
  induction ops as [|o ops IH]; intros acc s; cbn [kexp kcount]; [reflexivity|].
  destruct o as [w' v|n|]; rewrite IH; [reflexivity| |reflexivity].
  rewrite app_length, samples_of_length. reflexivity.
Qed.

Lemma khistory_entries ws entries ops s :
  listed_once d k -> ungated d k -> uq = wf_uniq (wf_init ws entries) ->
  recS getR k s = Some (wf_getDict (wf_init ws entries)) ->
  exists dd', recS getR k (fold_left krun ops s) = Some dd' /\ keys dd' = uq /\
    forall e, In e entries ->
      dict_get dd' (entry_wire e) = Some (kexp (entry_wire e) [] s ops) /\
      length (kexp (entry_wire e) [] s ops) = kcount 0 ops.
Proof.
  intros H1 H2 Hu Hr. pose proof (wf_init_inv ws entries) as Hinv.
  assert (NoDup uq) as Hnd by (rewrite Hu, <- (inv_keys _ _ _ Hinv); eapply inv_NoDup, Hinv).
  assert (keys (wf_data (wf_init ws entries)) = uq) as Hk by (rewrite Hu; apply (inv_keys _ _ _ Hinv)).
  destruct (khistory ops H1 H2 Hnd s _ Hr Hk) as [dd' [Ha [Hb Hc]]].
  exists dd'. split; [exact Ha|]. split; [exact Hb|]. intros e He. split.
  - apply Hc. apply wf_init_get, He.
  - apply kexp_length.
Qed.
End KHist.
