(* C15: the recorder as a clockable leaf of the kernel model: one sample per edge, the pre-edge value *)
From V Require Import Base.Bits Model.SimKernel Model.Waveform Spec.C15 Proofs.C15.Watch.

Lemma nth_error_set_nth_same {A} (l : list A) : forall i x v, nth_error l i = Some x -> nth_error (set_nth l i v) i = Some v.
Proof. induction l as [|y l IH]; intros [|i] x v H; cbn in *; try discriminate; eauto. Qed.

Lemma nth_error_set_nth_other {A} (l : list A) : forall i j v, i <> j -> nth_error (set_nth l i v) j = nth_error l j.
Proof. induction l as [|y l IH]; intros [|i] [|j] v H; cbn; auto; try congruence. Qed.

Lemma iter_succ_r {A} (f : A -> A) n x : Nat.iter (S n) f x = Nat.iter n f (f x).
Proof. induction n as [|n IH]; cbn in *; [reflexivity|]. now rewrite IH. Qed.

Lemma iter_add {A} (f : A -> A) a b x : Nat.iter (a + b) f x = Nat.iter a f (Nat.iter b f x).
Proof. induction a as [|a IH]; [reflexivity|]. change (S a + b)%nat with (S (a + b)). cbn [Nat.iter nat_rect]. unfold Nat.iter in *. cbn [nat_rect]. now rewrite IH. Qed.

Section KRec.
Context {St : Type}.
Variable getR : St -> dict.
Variable setR : St -> dict -> St.
Hypothesis get_set : forall st dd, getR (setR st dd) = dd.
Variable d : design St.
Variable k : nat.                 (* index of the recorder among the sequential leaves *)
Variable uq : list nat.           (* its unique wires *)
Hypothesis Hleaf : nth_error (seqs d) k = Some (recorder_leaf getR setR uq).

(* what the recorder holds in a simulator state *)
Definition recS (s : state St) : option dict := option_map getR (nth_error (sts s) k).
(* one clock() while the wires hold vs *)
Definition F (vs : list Z) (dd : dict) : dict := clock_ins uq dd (map (rd vs) uq).
(* how many times the recorder's clock() runs at an edge taken with wire values vs *)
Definition times (vs : list Z) (ds : list driver) : nat :=
  count_occ Nat.eq_dec (concat (map d_leaves (filter (enabled vs) ds))) k.

Lemma clock1_rec s j dd : recS s = Some dd ->
  recS (clock1 d s j) = Some (if Nat.eqb j k then F (vals s) dd else dd) /\ vals (clock1 d s j) = vals s.
Proof.
  unfold recS. intros H. destruct (nth_error (sts s) k) as [st|] eqn:Est; [|discriminate].
  cbn [option_map] in H. injection H as H. unfold clock1.
  destruct (Nat.eqb_spec j k) as [->|Hn].
  - rewrite Hleaf, Est. cbn [recorder_leaf s_f s_in s_out]. cbn [vals sts prep app].
    split; [|reflexivity]. erewrite nth_error_set_nth_same by exact Est. cbn [option_map].
    rewrite get_set, H. reflexivity.
  - destruct (nth_error (seqs d) j) as [l|]; [|rewrite Est; cbn; subst; auto].
    destruct (nth_error (sts s) j) as [stj|]; [|rewrite Est; cbn; subst; auto].
    destruct (s_f l stj _) as [st' rs]. cbn [vals sts]. split; [|reflexivity].
    rewrite nth_error_set_nth_other by exact Hn. rewrite Est. cbn. now subst.
Qed.

Lemma clockAll_rec ls : forall s dd, recS s = Some dd ->
  recS (fold_left (clock1 d) ls s) = Some (Nat.iter (count_occ Nat.eq_dec ls k) (F (vals s)) dd)
  /\ vals (fold_left (clock1 d) ls s) = vals s.
Proof.
  induction ls as [|j ls IH]; intros s dd H; cbn [fold_left count_occ]; [auto|].
  destruct (clock1_rec s j dd H) as [H1 Hv]. destruct (IH _ _ H1) as [H2 Hv2].
  rewrite H2, Hv2, Hv. split; [|reflexivity]. f_equal.
  destruct (Nat.eq_dec j k) as [->|Hn].
  - rewrite Nat.eqb_refl. now rewrite iter_succ_r.
  - destruct (Nat.eqb_spec j k); [congruence | reflexivity].
Qed.

Lemma drivers_rec ds : forall s dd, recS s = Some dd ->
  let s' := fold_left (fun s drv => if enabled (vals s) drv then clockAll d s drv else s) ds s in
  recS s' = Some (Nat.iter (times (vals s) ds) (F (vals s)) dd) /\ vals s' = vals s.
Proof.
  induction ds as [|drv ds IH]; intros s dd H; cbn [fold_left]; [auto|].
  unfold times. cbn [filter]. destruct (enabled (vals s) drv) eqn:En.
  - destruct (clockAll_rec (d_leaves drv) s dd H) as [H1 Hv]. fold (clockAll d s drv) in H1, Hv.
    destruct (IH _ _ H1) as [H2 Hv2]. cbv zeta in H2, Hv2. rewrite H2, Hv2, Hv. split; [|reflexivity].
    f_equal. cbn [map concat]. rewrite count_occ_app, Nat.add_comm, iter_add. reflexivity.
  - apply (IH _ _ H).
Qed.

Lemma clk_cycle_rec s dd : recS s = Some dd ->
  recS (clk_cycle d s) = Some (Nat.iter (times (vals s) (drivers d)) (F (vals s)) dd).
Proof.
  intros H. destruct (drivers_rec (drivers d) s dd H) as [H1 _]. cbv zeta in H1.
  exact H1.
Qed.

(* ---- ungated: the recorder is listed once, under a driver without enable *)
Definition listed_once : Prop := count_occ Nat.eq_dec (concat (map d_leaves (drivers d))) k = 1%nat.
Definition ungated : Prop := forall drv, In drv (drivers d) -> In k (d_leaves drv) -> d_enable drv = None.

Lemma times_ungated vs ds : (forall drv, In drv ds -> In k (d_leaves drv) -> d_enable drv = None) ->
  times vs ds = count_occ Nat.eq_dec (concat (map d_leaves ds)) k.
Proof.
  unfold times. induction ds as [|drv ds IH]; intros H; cbn [filter map concat]; [reflexivity|].
  rewrite count_occ_app. destruct (enabled vs drv) eqn:En.
  - cbn [map concat]. rewrite count_occ_app, IH; [reflexivity|]. intros; apply H; [now right | auto].
  - rewrite IH by (intros; apply H; [now right | auto]).
    assert (~ In k (d_leaves drv)) as Hn.
    { intros Hin. unfold enabled in En. rewrite (H drv (or_introl eq_refl) Hin) in En. discriminate. }
    apply (count_occ_not_In Nat.eq_dec) in Hn. rewrite Hn. reflexivity.
Qed.

Lemma clk_cycle_ungated s dd : listed_once -> ungated -> recS s = Some dd ->
  recS (clk_cycle d s) = Some (F (vals s) dd).
Proof.
  intros H1 H2 H. rewrite (clk_cycle_rec s dd H), (times_ungated _ _ H2), H1. reflexivity.
Qed.

(* ---- gated: at an edge where every driver that lists the recorder is disabled, nothing is recorded *)
Lemma times_disabled vs ds : (forall drv, In drv ds -> In k (d_leaves drv) -> enabled vs drv = false) ->
  times vs ds = 0%nat.
Proof.
  unfold times. induction ds as [|drv ds IH]; intros H; cbn [filter map concat]; [reflexivity|].
  destruct (enabled vs drv) eqn:En.
  - cbn [map concat]. rewrite count_occ_app, IH by (intros; apply H; [now right | auto]).
    assert (~ In k (d_leaves drv)) as Hn by (intros Hin; rewrite (H drv (or_introl eq_refl) Hin) in En; discriminate).
    apply (count_occ_not_In Nat.eq_dec) in Hn. rewrite Hn. reflexivity.
  - apply IH. intros; apply H; [now right | auto].
Qed.

Lemma clk_cycle_gated s dd :
  (forall drv, In drv (drivers d) -> In k (d_leaves drv) -> enabled (vals s) drv = false) ->
  recS s = Some dd -> recS (clk_cycle d s) = Some dd.
Proof. intros Hg H. rewrite (clk_cycle_rec s dd H), (times_disabled _ _ Hg). reflexivity. Qed.

(* ---- n edges *)
Lemma samples_of_S s w n : samples_of d s w (S n) = rd (vals s) w :: samples_of d (clk_cycle d s) w n.
Proof.
  unfold samples_of. cbn [seq map]. f_equal. rewrite <- seq_shift, map_map. apply map_ext. reflexivity.
Qed.

Lemma cycles_rec n : listed_once -> ungated -> NoDup uq -> forall s dd, recS s = Some dd -> keys dd = uq ->
  recS (cycles d n s) = Some (map (fun p => (fst p, snd p ++ samples_of d s (fst p) n)) dd).
Proof.
  intros H1 H2 Hnd. induction n as [|n IH]; intros s dd H Hk; cbn [cycles].
  - rewrite H. f_equal. symmetry. erewrite map_ext; [apply map_id|]. intros [a b]. cbn. now rewrite app_nil_r.
  - pose proof (clk_cycle_ungated s dd H1 H2 H) as Hc. unfold F in Hc.
    rewrite <- Hk in Hc at 1 2. rewrite clock_ins_all in Hc by (rewrite Hk; exact Hnd).
    rewrite (IH _ _ Hc) by (rewrite (keys_map_snd (fun k l => l ++ [rd (vals s) k])); exact Hk).
    f_equal. rewrite map_map. apply map_ext. intros [a b]. cbn [fst snd].
    rewrite samples_of_S, <- app_assoc. reflexivity.
Qed.

Lemma recS_propagated s : recS (propagated d s) = recS s.
Proof. reflexivity. Qed.

Lemma clk_rec n : listed_once -> ungated -> NoDup uq -> forall s dd, recS s = Some dd -> keys dd = uq ->
  recS (clk d n s) = Some (map (fun p => (fst p, snd p ++ samples_of d (propagated d s) (fst p) n)) dd).
Proof. intros H1 H2 Hnd s dd H Hk. apply (cycles_rec n H1 H2 Hnd (propagated d s) dd); auto. Qed.

Lemma samples_of_length s w n : length (samples_of d s w n) = n.
Proof. unfold samples_of. now rewrite map_length, seq_length. Qed.

(* the statement per watch-list entry *)
Lemma one_sample_per_cycle ws entries (r : wf) n s e old :
  listed_once -> ungated ->
  wf_inv ws entries r -> uq = wf_uniq r -> recS s = Some (wf_data r) ->
  In e entries -> dict_get (wf_data r) (entry_wire e) = Some old ->
  exists dd', recS (clk d n s) = Some dd'
    /\ keys dd' = uq
    /\ dict_get dd' (entry_wire e) = Some (old ++ samples_of d (propagated d s) (entry_wire e) n)
    /\ length (old ++ samples_of d (propagated d s) (entry_wire e) n) = (length old + n)%nat.
Proof.
  intros H1 H2 Hinv Hu Hr He Hold.
  assert (NoDup uq) as Hnd by (rewrite Hu, <- (inv_keys _ _ _ Hinv); eapply inv_NoDup, Hinv).
  assert (keys (wf_data r) = uq) as Hk by (rewrite Hu; apply (inv_keys _ _ _ Hinv)).
  eexists. split; [apply (clk_rec n H1 H2 Hnd s _ Hr Hk)|]. split; [|split].
  - rewrite (keys_map_snd (fun k l => l ++ samples_of d (propagated d s) k n)). exact Hk.
  - rewrite (dict_get_map (fun k l => l ++ samples_of d (propagated d s) k n)), Hold. reflexivity.
  - rewrite app_length, samples_of_length. reflexivity.
Qed.

End KRec.
