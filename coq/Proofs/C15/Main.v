(* C15: the statements of Properties/C15.v, proved here (Properties only restates them) *)
From V Require Import Base.Bits Model.SimKernel Model.Waveform Spec.C15.
From V Require Import Proofs.C15.Digits Proofs.C15.Row Proofs.C15.Watch Proofs.C15.Kernel Proofs.C15.Wavedrom Proofs.C15.History.

Lemma thm_C15_watchlist : forall ws entries,
  let r := wf_init ws entries in
  wf_wires r = entries /\
  wf_uniq r = first_occ [] (map entry_wire entries) /\
  NoDup (wf_uniq r) /\
  (forall w, In w (wf_uniq r) <-> exists e, In e entries /\ entry_wire e = w) /\
  wf_getDict r = map (fun w => (w, [])) (wf_uniq r) /\
  wf_format r = map (fun e => if nth (entry_wire e) ws 0 =? 1 then FmtEmpty else FmtHEX) entries.
Proof.
  intros ws entries r. subst r. rewrite wf_init_eq. cbn [wf_wires wf_uniq wf_getDict wf_data wf_format].
  repeat split; auto using first_occ_NoDup.
  - intros H. apply first_occ_In in H as [H _]. apply in_map_iff in H as [e [E He]]. eauto.
  - intros [e [He E]]. apply first_occ_In. split; [subst; now apply in_map | intros []].
Qed.

Lemma thm_C15_history : forall ws entries ops e, In e entries ->
  dict_get (wf_getDict (fold_left wf_op ops (wf_init ws entries))) (entry_wire e) = Some (hist (entry_wire e) [] ops).
Proof. exact wf_history. Qed.

Lemma thm_C15_one_sample_per_cycle :
  forall (St : Type) (getR : St -> dict) (setR : St -> dict -> St),
    (forall st dd, getR (setR st dd) = dd) ->
  forall (d : design St) (k : nat) ws entries (r : wf) (n : nat) (s : state St) e old,
    nth_error (seqs d) k = Some (recorder_leaf getR setR (wf_uniq r)) ->
    listed_once d k -> ungated d k ->
    wf_inv ws entries r ->
    recS getR k s = Some (wf_getDict r) ->
    In e entries -> dict_get (wf_getDict r) (entry_wire e) = Some old ->
    exists dd', recS getR k (clk d n s) = Some dd'
      /\ keys dd' = wf_uniq r
      /\ dict_get dd' (entry_wire e) = Some (old ++ samples_of d (propagated d s) (entry_wire e) n)
      /\ length (old ++ samples_of d (propagated d s) (entry_wire e) n) = (length old + n)%nat.
Proof.
  intros St getR setR Hgs d k ws entries r n s e old Hleaf H1 H2 Hinv Hr He Hold.
  exact (one_sample_per_cycle getR setR Hgs d k (wf_uniq r) Hleaf ws entries r n s e old H1 H2 Hinv eq_refl Hr He Hold).
Qed.

Lemma thm_C15_invariant : forall ws entries ops, wf_inv ws entries (fold_left wf_op ops (wf_init ws entries)).
Proof. intros. apply wf_ops_inv, wf_init_inv. Qed.

Lemma thm_C15_gated_skips :
  forall (St : Type) (getR : St -> dict) (setR : St -> dict -> St),
    (forall st dd, getR (setR st dd) = dd) ->
  forall (d : design St) (k : nat) uq (s : state St) dd,
    nth_error (seqs d) k = Some (recorder_leaf getR setR uq) ->
    (forall drv, In drv (drivers d) -> In k (d_leaves drv) -> enabled (vals s) drv = false) ->
    recS getR k s = Some dd -> recS getR k (clk_cycle d s) = Some dd.
Proof. intros St getR setR Hgs d k uq s dd Hleaf Hg H. exact (clk_cycle_gated getR setR Hgs d k uq Hleaf s dd Hg H). Qed.

Lemma thm_C15_hex_label_roundtrip : forall v, 0 <= v -> parse_hex (str_HEX v) = Some v.
Proof. exact hex_roundtrip. Qed.

Lemma thm_C15_roundtrip : forall ww samples, Forall (fits ww) samples ->
  decode ww (row ww (if ww =? 1 then FmtEmpty else FmtHEX) samples) = Some samples.
Proof. exact roundtrip. Qed.

Lemma thm_C15_roundtrip_unguarded_refuted : exists ww samples,
  decode ww (row ww (if ww =? 1 then FmtEmpty else FmtHEX) samples) <> Some samples.
Proof. exists 1, [10]. change (if 1 =? 1 then FmtEmpty else FmtHEX) with FmtEmpty. rewrite roundtrip_needs_range. discriminate. Qed.

Lemma thm_C15_span : forall ww f samples n,
  (ww = 1 -> Forall (fits 1) samples) ->
  length (fst (row ww f samples)) = (length samples + 2)%nat /\
  (exists body, fst (row ww f samples) = 120 :: body ++ [120]) /\
  clock_row n = 80 :: repeat 46 n ++ [120] /\ length (clock_row n) = (n + 2)%nat /\ decode_clock (clock_row n) = Some n.
Proof.
  intros ww f samples n H. split; [|split; [apply row_ends | split; [reflexivity | split; [apply clock_row_length | apply clock_row_decodes]]]].
  apply row_span. destruct (Z.eq_dec ww 1) as [E|E].
  - eapply Forall_impl; [|exact (H E)]. intros v Hv _. unfold fits in Hv. change (2 ^ 1) with 2 in Hv. exact Hv.
  - clear H. induction samples; constructor; auto. intros E'. congruence.
Qed.

Lemma thm_C15_wavedrom_decodes : forall ws entries ops, entries <> [] ->
  let r := fold_left wf_op ops (wf_init ws entries) in
  in_range ws (wf_getDict r) ->
  exists n, decode_clock (fst (wf_wavedrom ws r)) = Some n /\ length (fst (wf_wavedrom ws r)) = (n + 2)%nat /\
  length (snd (wf_wavedrom ws r)) = length entries /\
  forall i e, nth_error entries i = Some e ->
    exists rw samples, nth_error (snd (wf_wavedrom ws r)) i = Some rw
      /\ dict_get (wf_getDict r) (entry_wire e) = Some samples
      /\ decode (nth (entry_wire e) ws 0) rw = Some samples
      /\ length samples = n /\ length (fst rw) = (n + 2)%nat.
Proof.
  intros ws entries ops Hne r Hr. subst r.
  destruct (same_len_ops ws entries ops _ O (wf_init_inv ws entries) (same_len_init ws entries)) as [n Hn].
  exists n. pose proof (wf_ops_inv ws entries ops _ (wf_init_inv ws entries)) as Hinv.
  destruct (wavedrom_decodes ws entries _ n Hinv Hn Hr Hne) as [H1 [H2 [H3 H4]]].
  repeat split; auto. intros i e Hi. destruct (H4 i e Hi) as [rw [samples [Ha [Hb [Hc Hd]]]]].
  exists rw, samples. repeat split; auto. eapply same_len_get; eauto.
Qed.

Lemma thm_C15_clear : forall ws entries ops,
  let r := wf_clear (fold_left wf_op ops (wf_init ws entries)) in
  wf_getDict r = wf_getDict (wf_init ws entries) /\ wf_uniq r = wf_uniq (wf_init ws entries) /\
  wf_inv ws entries r /\
  (entries <> [] -> wf_wavedrom ws r = ([80; 120], map (fun _ => ([120; 120], [])) entries)).
Proof.
  intros ws entries ops r. subst r.
  pose proof (wf_ops_inv ws entries ops _ (wf_init_inv ws entries)) as Hinv.
  remember (fold_left wf_op ops (wf_init ws entries)) as R eqn:ER. clear ER.
  pose proof (wf_clear_inv _ _ _ Hinv) as Hc.
  assert (wf_data (wf_clear R) = wf_data (wf_init ws entries)) as Hd.
  { cbn [wf_clear wf_data]. unfold clear_data. rewrite wf_init_eq. cbn [wf_data].
    rewrite <- (inv_uniq _ _ _ Hinv), <- (inv_keys _ _ _ Hinv). unfold keys. rewrite map_map. reflexivity. }
  split; [exact Hd|]. split; [cbn [wf_clear wf_uniq]; rewrite (inv_uniq _ _ _ Hinv), wf_init_eq; reflexivity|].
  split; [exact Hc|]. intros Hne.
  rewrite (wavedrom_ok ws entries _ O Hc (same_len_clear _) Hne). f_equal.
  apply map_ext_in. intros e He. unfold row_of.
  destruct (dict_get_In _ _ (inv_watched _ _ _ e Hc He)) as [l Hl].
  rewrite (data_of_get _ _ _ Hl).
  assert (l = []) as ->.
  { pose proof (same_len_get O _ _ _ (same_len_clear _) Hl) as E. destruct l; [reflexivity | discriminate]. }
  reflexivity.
Qed.

Lemma thm_C15_nonvacuous :
  let ws := [8; 1; 8] in
  let entries := [EWire 0; EPort 1; EWire 0; EPort 0; EWire 2] in
  let r := fold_left wf_op [WClock [7; 1; 0]; WClear; WClock [255; 1; 3]; WClock [255; 0; 3]; WClock [16; 0; 3]] (wf_init ws entries) in
  wf_getDict r = [(0%nat, [255; 255; 16]); (1%nat, [1; 0; 0]); (2%nat, [3; 3; 3])] /\
  in_range ws (wf_getDict r) /\
  fst (wf_wavedrom ws r) = [80; 46; 46; 46; 120] /\
  nth_error (snd (wf_wavedrom ws r)) 1 = Some ([120; 49; 48; 46; 120], []) /\
  nth_error (snd (wf_wavedrom ws r)) 3 = Some ([120; 50; 46; 50; 120], [[70; 70]; [49; 48]]).
Proof.
  intros ws entries r.
  assert (wf_getDict r = [(0%nat, [255; 255; 16]); (1%nat, [1; 0; 0]); (2%nat, [3; 3; 3])]) as E by (vm_compute; reflexivity).
  split; [exact E|]. split.
  - rewrite E. intros w l H. subst ws.
    destruct w as [|[|[|w]]]; cbn [dict_get Nat.eqb] in H; try discriminate; injection H as <-; cbn [nth];
      repeat constructor; unfold fits; lia.
  - repeat split; vm_compute; reflexivity.
Qed.

Lemma thm_C15_kernel_nonvacuous :
  let d0 : design Z := {| widths := [8; 8; 1]; combs := [];
                          seqs := [{| s_in := [0%nat]; s_out := [1%nat]; s_f := fun (st : Z) ins => (st, [Some (nth 0 ins 0)]) |}];
                          drivers := [{| d_enable := None; d_leaves := [0%nat] |}] |} in
  let entries := [EWire 1; EPort 0; EWire 1] in
  let r0 := wf_init (widths d0) entries in
  let d := with_recorder d0 (wf_uniq r0) 0 None in                  (* recorder in the ungated domain *)
  let dg := with_recorder d0 (wf_uniq r0) 1 (Some 2%nat) in          (* recorder in a domain gated by wire 2 *)
  let st0 : list (Z + dict) := [inl 0; inr (wf_getDict r0)] in
  (forall (st : Z + dict) dd, getR_sum (setR_sum st dd) = dd) /\
  nth_error (seqs d) 1 = Some (recorder_leaf getR_sum setR_sum (wf_uniq r0)) /\
  listed_once d 1 /\ ungated d 1 /\
  recS getR_sum 1 (init d st0) = Some (wf_getDict r0) /\
  recS getR_sum 1 (clk d 3 (poke d (init d st0) 0 77)) = Some [(1%nat, [0; 77; 77]); (0%nat, [77; 77; 77])] /\
  (* gated off: three cycles are simulated (the register follows its input) and nothing is recorded *)
  total (clk dg 3 (poke dg (init dg st0) 0 77)) = 3%nat /\
  rd (vals (clk dg 3 (poke dg (init dg st0) 0 77))) 1 = 77 /\
  recS getR_sum 1 (clk dg 3 (poke dg (init dg st0) 0 77)) = Some [(1%nat, []); (0%nat, [])] /\
  (* gate open on the second call only *)
  recS getR_sum 1 (clk dg 2 (poke dg (clk dg 3 (poke dg (init dg st0) 0 77)) 2 1)) = Some [(1%nat, [77; 77]); (0%nat, [77; 77])].
Proof.
  intros d0 entries r0 d dg st0.
  split; [reflexivity|]. split; [reflexivity|]. split; [vm_compute; reflexivity|]. split.
  - intros drv Hin _. vm_compute in Hin. destruct Hin as [<-|[]]. reflexivity.
  - repeat split; vm_compute; reflexivity.
Qed.

Lemma thm_C15_rendering_injective : forall ww s1 s2, Forall (fits ww) s1 -> Forall (fits ww) s2 ->
  row ww (if ww =? 1 then FmtEmpty else FmtHEX) s1 = row ww (if ww =? 1 then FmtEmpty else FmtHEX) s2 -> s1 = s2.
Proof.
  intros ww s1 s2 H1 H2 E. pose proof (roundtrip ww s1 H1) as R1. pose proof (roundtrip ww s2 H2) as R2.
  rewrite E in R1. rewrite R1 in R2. now injection R2.
Qed.
