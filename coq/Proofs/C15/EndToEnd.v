(* C15: capstone — a fresh recorder inside the kernel, clk(n), then get_wavedrom: every row reads back as the
   values the entry's wire carried going into each of the n edges *)
From V Require Import Base.Bits Model.SimKernel Model.Waveform Spec.C15.
From V Require Import Proofs.C15.Digits Proofs.C15.Row Proofs.C15.Watch Proofs.C15.Kernel Proofs.C15.Wavedrom.

Section E2E.
Context {St : Type}.
Variable getR : St -> dict.
Variable setR : St -> dict -> St.
Hypothesis get_set : forall st dd, getR (setR st dd) = dd.
Variable d : design St.
Variable k : nat.
Variable entries : list entry.
Let r0 := wf_init (widths d) entries.
Hypothesis Hleaf : nth_error (seqs d) k = Some (recorder_leaf getR setR (wf_uniq r0)).

Definition with_data (dd : dict) : wf :=
  {| wf_wires := wf_wires r0; wf_format := wf_format r0; wf_uniq := wf_uniq r0; wf_data := dd |}.

Lemma end_to_end n s :
  listed_once d k -> ungated d k -> entries <> [] ->
  (forall t w, fits (nth w (widths d) 0) (pre_edge d (propagated d s) w t)) ->
  recS getR k s = Some (wf_getDict r0) ->
  exists dd', recS getR k (clk d n s) = Some dd' /\
    decode_clock (fst (wf_wavedrom (widths d) (with_data dd'))) = Some n /\
    length (snd (wf_wavedrom (widths d) (with_data dd'))) = length entries /\
    forall i e, nth_error entries i = Some e ->
      exists rw, nth_error (snd (wf_wavedrom (widths d) (with_data dd'))) i = Some rw
        /\ dict_get dd' (entry_wire e) = Some (samples_of d (propagated d s) (entry_wire e) n)
        /\ decode (nth (entry_wire e) (widths d) 0) rw = Some (samples_of d (propagated d s) (entry_wire e) n)
        /\ length (fst rw) = (n + 2)%nat.
Proof.
  intros H1 H2 Hne Hfit Hr.
  pose proof (wf_init_inv (widths d) entries) as Hinv0. fold r0 in Hinv0.
  assert (NoDup (wf_uniq r0)) as Hnd by (rewrite <- (inv_keys _ _ _ Hinv0); eapply inv_NoDup, Hinv0).
  pose proof (clk_rec getR setR get_set d k (wf_uniq r0) Hleaf n H1 H2 Hnd s _ Hr (inv_keys _ _ _ Hinv0)) as Hc.
  set (dd' := map (fun p => (fst p, snd p ++ samples_of d (propagated d s) (fst p) n)) (wf_data r0)) in *.
  exists dd'. split; [exact Hc|].
  assert (wf_inv (widths d) entries (with_data dd')) as Hinv.
  { destruct Hinv0 as [Hw Hf Hu Hk]. constructor; cbn [with_data wf_wires wf_format wf_uniq wf_data]; auto.
    subst dd'. rewrite (keys_map_snd (fun k l => l ++ samples_of d (propagated d s) k n)). exact Hk. }
  assert (forall w l, dict_get dd' w = Some l -> l = samples_of d (propagated d s) w n) as Hget.
  { intros w l Hl. subst dd'. rewrite (dict_get_map (fun k l => l ++ samples_of d (propagated d s) k n)) in Hl.
    destruct (dict_get (wf_data r0) w) as [l0|] eqn:E0; [|discriminate]. cbn [option_map] in Hl. injection Hl as <-.
    assert (l0 = []) as ->; [|reflexivity].
    pose proof (same_len_get O _ _ _ (same_len_init (widths d) entries) E0) as E. destruct l0; [reflexivity|discriminate]. }
  assert (same_len n dd') as Hn.
  { unfold same_len. rewrite Forall_forall. intros [w l] Hp. cbn [snd].
    assert (dict_get dd' w = Some l) as Hl.
    { pose proof (inv_NoDup _ _ _ Hinv) as Hnd'. cbn [with_data wf_data] in Hnd'.
      clear - Hp Hnd'. induction dd' as [|[w' l'] rest IH]; [destruct Hp|].
      cbn [dict_get]. cbn [keys map fst] in Hnd'. inversion Hnd' as [|? ? Hnin Hrest]; subst.
      destruct Hp as [E|Hp]; [injection E as -> ->; now rewrite Nat.eqb_refl|].
      destruct (Nat.eqb_spec w' w) as [->|_]; [|apply IH; auto].
      exfalso. apply Hnin. change w with (fst (w, l)). now apply in_map. }
    rewrite (Hget _ _ Hl). apply samples_of_length. }
  assert (in_range (widths d) (wf_data (with_data dd'))) as Hrng.
  { intros w l Hl. cbn [with_data wf_data] in Hl. rewrite (Hget _ _ Hl). unfold samples_of.
    rewrite Forall_forall. intros v Hv. apply in_map_iff in Hv as [t [<- _]]. apply Hfit. }
  destruct (wavedrom_decodes (widths d) entries _ n Hinv Hn Hrng Hne) as [Hk1 [_ [Hk3 Hk4]]].
  split; [exact Hk1|]. split; [exact Hk3|].
  intros i e Hi. destruct (Hk4 i e Hi) as [rw [samples [Ha [Hb [Hc' Hd]]]]].
  cbn [with_data wf_data] in Hb. pose proof (Hget _ _ Hb) as ->.
  exists rw. repeat split; auto.
Qed.
End E2E.
