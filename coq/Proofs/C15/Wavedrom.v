(* C15: get_wavedrom of a whole recorder: one row per ENTRY, each decoding to its wire's samples; span *)
From V Require Import Base.Bits Model.SimKernel Model.Waveform Spec.C15 Proofs.C15.Digits Proofs.C15.Row Proofs.C15.Watch.

Section W.
Variable ws : list Z.
Variable r : wf.

Definition row_of (e : entry) : list Z * list (list Z) :=
  row (nth (entry_wire e) ws 0) (fmt_of ws e) (data_of r (entry_wire e)).

Definition wstep (acc : nat * list (list Z * list (list Z))) (ie : nat * entry) :=
  (length (data_of r (entry_wire (snd ie))),
   snd acc ++ [row (nth (entry_wire (snd ie)) ws 0) (nth (fst ie) (wf_format r) FmtEmpty) (data_of r (entry_wire (snd ie)))]).

Definition last_len (es : list entry) (n0 : nat) : nat :=
  fold_left (fun _ e => length (data_of r (entry_wire e))) es n0.

Lemma wfold es : forall pre acc, wf_format r = map (fmt_of ws) (pre ++ es) ->
  fold_left wstep (combine (seq (length pre) (length es)) es) acc = (last_len es (fst acc), snd acc ++ map row_of es).
Proof.
  induction es as [|e es IH]; intros pre acc Hf; cbn [length seq combine fold_left map last_len].
  - rewrite app_nil_r. now destruct acc.
  - specialize (IH (pre ++ [e]) (wstep acc (length pre, e))).
    rewrite app_length in IH. cbn [length] in IH. rewrite Nat.add_1_r in IH.
    rewrite IH by (rewrite <- app_assoc; exact Hf).
    unfold wstep at 1 2. cbn [fst snd]. unfold last_len. f_equal.
    rewrite <- app_assoc. cbn [app]. f_equal. f_equal. unfold row_of. f_equal.
    rewrite Hf, map_app, app_nth2 by (rewrite map_length; lia).
    rewrite map_length, Nat.sub_diag. reflexivity.
Qed.

Lemma wavedrom_rows entries : wf_wires r = entries -> wf_format r = map (fmt_of ws) entries ->
  wf_wavedrom ws r = (clock_row (last_len entries O), map row_of entries).
Proof.
  intros Hw Hf. unfold wf_wavedrom. rewrite Hw.
  pose proof (wfold entries [] (O, []) Hf) as H. cbn [length app fst snd] in H.
  change (fun acc ie => _) with wstep. rewrite H. reflexivity.
Qed.

Lemma last_len_same n es n0 : (forall e, In e es -> length (data_of r (entry_wire e)) = n) -> es <> [] ->
  last_len es n0 = n.
Proof.
  unfold last_len. revert n0. induction es as [|e es IH]; intros n0 H Hne; [congruence|].
  cbn [fold_left]. destruct es as [|e' es'].
  - cbn. apply H. now left.
  - apply IH; [intros; apply H; now right | discriminate].
Qed.
End W.

Lemma data_of_get r w l : dict_get (wf_data r) w = Some l -> data_of r w = l.
Proof. unfold data_of. now intros ->. Qed.

Lemma wavedrom_ok ws entries r n : wf_inv ws entries r -> same_len n (wf_data r) -> entries <> [] ->
  wf_wavedrom ws r = (clock_row n, map (row_of ws r) entries).
Proof.
  intros Hinv Hn Hne. rewrite (wavedrom_rows ws r entries (inv_wires _ _ _ Hinv) (inv_format _ _ _ Hinv)).
  f_equal. f_equal. apply last_len_same; auto. intros e He.
  destruct (dict_get_In _ _ (inv_watched _ _ _ e Hinv He)) as [l Hl].
  rewrite (data_of_get _ _ _ Hl). eapply same_len_get; eauto.
Qed.

(* every wire's samples are inside the wire's width (the C06 invariant, a hypothesis here) *)
Definition in_range (ws : list Z) (dd : dict) : Prop :=
  forall w l, dict_get dd w = Some l -> Forall (fits (nth w ws 0)) l.

Lemma wavedrom_decodes ws entries r n : wf_inv ws entries r -> same_len n (wf_data r) -> in_range ws (wf_data r) ->
  entries <> [] ->
  decode_clock (fst (wf_wavedrom ws r)) = Some n /\ length (fst (wf_wavedrom ws r)) = (n + 2)%nat /\
  length (snd (wf_wavedrom ws r)) = length entries /\
  forall i e, nth_error entries i = Some e ->
    exists rw samples, nth_error (snd (wf_wavedrom ws r)) i = Some rw
      /\ dict_get (wf_data r) (entry_wire e) = Some samples
      /\ decode (nth (entry_wire e) ws 0) rw = Some samples
      /\ length (fst rw) = (n + 2)%nat.
Proof.
  intros Hinv Hn Hr Hne. rewrite (wavedrom_ok ws entries r n Hinv Hn Hne). cbn [fst snd].
  split; [apply clock_row_decodes|]. split; [apply clock_row_length|]. split; [apply map_length|].
  intros i e Hi. assert (In e entries) as He by (eapply nth_error_In; eauto).
  destruct (dict_get_In _ _ (inv_watched _ _ _ e Hinv He)) as [l Hl].
  exists (row_of ws r e), l. split; [now apply map_nth_error|]. split; [exact Hl|].
  unfold row_of. rewrite (data_of_get _ _ _ Hl). split.
  - apply roundtrip. eapply Hr; eauto.
  - rewrite row_span.
    + f_equal. eapply same_len_get; eauto.
    + eapply Forall_impl; [|eapply Hr; eauto]. intros v Hv E. rewrite E in Hv. unfold fits in Hv.
      change (2 ^ 1) with 2 in Hv. exact Hv.
Qed.
