(* C15: the digit strings of Model/Waveform.v ({:X}, {}) read back by Spec.C15.parse_hex *)
From V Require Import Base.Bits Model.SimKernel Model.Waveform Spec.C15.

Definition valof (b : Z) (acc : Z) (ds : list Z) : Z := fold_left (fun a d => a * b + d) ds acc.

Lemma digits_aux_value b : 2 <= b -> forall fuel v acc,
  0 <= v < 2 ^ Z.of_nat fuel -> valof b 0 (digits_aux fuel b v acc) = valof b v acc.
Proof.
  intros Hb. induction fuel as [|f IH]; intros v acc Hv.
  - cbn [digits_aux]. assert (v = 0) as -> by (cbn in Hv; lia). reflexivity.
  - cbn [digits_aux]. destruct (Z.ltb_spec v b) as [Hlt|Hge].
    + unfold valof. cbn [fold_left]. f_equal.
    + rewrite IH.
      * unfold valof. cbn [fold_left]. f_equal.
        pose proof (Z.div_mod v b ltac:(lia)). lia.
      * split; [apply Z.div_pos; lia|].
        apply Z.div_lt_upper_bound; [lia|].
        rewrite Nat2Z.inj_succ, Z.pow_succ_r in Hv by lia.
        assert (0 < 2 ^ Z.of_nat f) by (apply pow2_pos; lia). nia.
Qed.

Lemma digits_aux_range b : 2 <= b -> forall fuel v acc,
  0 <= v -> Forall (fun d => 0 <= d < b) acc -> Forall (fun d => 0 <= d < b) (digits_aux fuel b v acc).
Proof.
  intros Hb. induction fuel as [|f IH]; intros v acc Hv Hacc; cbn [digits_aux]; auto.
  destruct (Z.ltb_spec v b) as [Hlt|Hge].
  - constructor; auto; lia.
  - apply IH; [apply Z.div_pos; lia|]. constructor; auto. apply Z.mod_pos_bound; lia.
Qed.

Lemma digits_aux_nonempty b fuel v acc : acc <> [] -> digits_aux fuel b v acc <> [].
Proof.
  revert v acc. induction fuel as [|f IH]; intros v acc H; cbn [digits_aux]; auto.
  destruct (v <? b); [discriminate|]. apply IH. discriminate.
Qed.

Lemma fuel_enough v : 0 <= v -> 0 <= v < 2 ^ Z.of_nat (S (Z.to_nat (Z.log2 v))).
Proof.
  intros Hv. split; auto.
  rewrite Nat2Z.inj_succ, Z2Nat.id by apply Z.log2_nonneg.
  destruct (Z.eq_dec v 0) as [->|Hn]; [reflexivity|].
  apply Z.log2_spec. lia.
Qed.

Lemma digits_value b v : 2 <= b -> 0 <= v -> valof b 0 (digits b v) = v.
Proof. intros Hb Hv. unfold digits. rewrite digits_aux_value; auto using fuel_enough. Qed.

Lemma digits_range b v : 2 <= b -> 0 <= v -> Forall (fun d => 0 <= d < b) (digits b v).
Proof. intros Hb Hv. unfold digits. apply digits_aux_range; auto. Qed.

Lemma digits_nonempty b v : digits b v <> [].
Proof.
  unfold digits. cbn [digits_aux]. destruct (v <? b); [discriminate|].
  apply digits_aux_nonempty. discriminate.
Qed.

Lemma hexval_digit_char d : 0 <= d < 16 -> hexval (digit_char d) = Some d.
Proof.
  intros H. unfold hexval, digit_char.
  destruct (Z.ltb_spec d 10) as [Hl|Hg].
  - replace ((48 <=? 48 + d) && (48 + d <=? 57)) with true by lia. f_equal. lia.
  - replace ((48 <=? 55 + d) && (55 + d <=? 57)) with false by lia.
    replace ((65 <=? 55 + d) && (55 + d <=? 70)) with true by lia. f_equal. lia.
Qed.

Lemma parse_hex_from_digits ds : Forall (fun d => 0 <= d < 16) ds ->
  forall acc, parse_hex_from acc (map digit_char ds) = Some (valof 16 acc ds).
Proof.
  induction 1 as [|d ds Hd Hds IH]; intros acc; cbn [map parse_hex_from]; [reflexivity|].
  rewrite hexval_digit_char by exact Hd. rewrite IH. reflexivity.
Qed.

(* the digit-string lemma: a label written with {:X} reads back as the value *)
Lemma hex_roundtrip v : 0 <= v -> parse_hex (str_HEX v) = Some v.
Proof.
  intros Hv. unfold str_HEX, fmt_int. replace (v <? 0) with false by lia.
  unfold parse_hex. destruct (map digit_char (digits 16 v)) eqn:E.
  - exfalso. apply (digits_nonempty 16 v). destruct (digits 16 v); [reflexivity|discriminate].
  - rewrite <- E. rewrite parse_hex_from_digits by (apply digits_range; lia).
    f_equal. apply digits_value; lia.
Qed.

(* labels are never empty and contain only 0-9A-F *)
Lemma hex_label_chars v : 0 <= v ->
  str_HEX v <> [] /\ Forall (fun c => 48 <= c <= 57 \/ 65 <= c <= 70) (str_HEX v).
Proof.
  intros Hv. unfold str_HEX, fmt_int. replace (v <? 0) with false by lia. split.
  - pose proof (digits_nonempty 16 v). destruct (digits 16 v); [congruence|discriminate].
  - pose proof (digits_range 16 v ltac:(lia) Hv) as H. induction H as [|d ds Hd _ IH]; cbn [map]; constructor; auto.
    unfold digit_char. destruct (Z.ltb_spec d 10); lia.
Qed.

Lemma str_dec_bit v : 0 <= v < 2 -> str_dec v = [48 + v].
Proof. intros H. assert (v = 0 \/ v = 1) as [-> | ->] by lia; reflexivity. Qed.
