(* C20 — encoder (CMDResponse): invariant, characters still to be transferred, progress. *)
From V Require Import Base.Bits Gen.WireOps Gen.Seq Spec.C20 Model.Cmd Proofs.C20.Ref.

Lemma nib_nibble t i : 0 <= i -> Z.land (py_shr t (i * 4)) 15 = nibble t i.
Proof.
  intros Hi. unfold py_shr, nibble. rewrite shiftr_div by lia.
  change 15 with (Z.ones 4). rewrite Z.land_ones by lia.
  replace (i * 4) with (4 * i) by lia. rewrite Z.pow_mul_r by lia. reflexivity.
Qed.

Lemma nibble_range t i : 0 <= nibble t i < 16.
Proof. unfold nibble. apply Z.mod_pos_bound. lia. Qed.

Lemma hexdigits_S t k : 1 <= k ->
  hexdigits t (Z.to_nat k) = hexchar (nibble t (k - 1)) :: hexdigits t (Z.to_nat (k - 1)).
Proof.
  intros Hk. replace (Z.to_nat k) with (S (Z.to_nat (k - 1))) by lia. cbn [hexdigits].
  rewrite Z2Nat.id by lia. reflexivity.
Qed.

Section Resp.
Variables wvalid wv : Z.
Hypothesis Hwvalid : 1 <= wvalid.
Hypothesis Hwv : 7 <= wv.

Lemma trunc_valid1 : trunc wvalid 1 = 1.
Proof.
  apply trunc_small; [lia|]. pose proof (pow2_le 1 wvalid ltac:(lia)). change (2 ^ 1) with 2 in *. lia.
Qed.

Lemma trunc_char x : 0 <= x < 128 -> trunc wv x = x.
Proof.
  intros. apply trunc_small; [lia|]. pose proof (pow2_le 7 wv ltac:(lia)). change (2 ^ 7) with 128 in *. lia.
Qed.

Lemma enc_char a : 0 <= a < 16 ->
  (if (a >=? 0) && (a <=? 9) then trunc wv (48 + a) else trunc wv (65 + a - 10)) = hexchar a.
Proof.
  intros Ha. unfold hexchar. destruct (Z.leb_spec a 9).
  - replace (a >=? 0) with true by lia. cbn [andb]. apply trunc_char. lia.
  - replace (a >=? 0) with true by lia. cbn [andb]. rewrite trunc_char by lia. lia.
Qed.

Definition rs_t (c : rs_cfg) : Z := CMDResponse_s_temp (rs_st c).
Definition rs_ts (c : rs_cfg) : Z := CMDResponse_s_temp_size (rs_st c).
Definition rs_a (c : rs_cfg) : Z := CMDResponse_s_aux (rs_st c).

Definition rs_inv (c : rs_cfg) : Prop :=
  let s := rs_state c in let vd := r_valid (rs_o c) in let vv := r_v (rs_o c) in
  (s = 0 /\ vd = 0) \/
  (s = 1 /\ vd = 0 /\ -1 <= rs_ts c) \/
  (s = 2 /\ vd = 1 /\ vv = 61 /\ -1 <= rs_ts c) \/
  (s = 3 /\ vd = 0 /\ 0 <= rs_ts c /\ rs_a c = nibble (rs_t c) (rs_ts c)) \/
  (s = 4 /\ vd = 1 /\ vv = hexchar (rs_a c) /\ 0 <= rs_ts c /\ rs_a c = nibble (rs_t c) (rs_ts c)) \/
  (s = 5 /\ vd = 0) \/
  (s = 6 /\ vd = 1 /\ vv = 33).

(* the characters that are still to be transferred *)
Definition rs_pend (c : rs_cfg) : list Z :=
  let s := rs_state c in
  if s =? 0 then []
  else if (s =? 1) || (s =? 2) then 61 :: hexdigits (rs_t c) (Z.to_nat (rs_ts c + 1)) ++ [33]
  else if (s =? 3) || (s =? 4) then hexchar (rs_a c) :: hexdigits (rs_t c) (Z.to_nat (rs_ts c)) ++ [33]
  else [33].

(* number of consumer-ready cycles that certainly suffice to finish *)
Definition rs_need (c : rs_cfg) : nat :=
  let s := rs_state c in let ts := rs_ts c in
  if s =? 0 then 0 else if s =? 1 then Z.to_nat (2 * ts + 6) else if s =? 2 then Z.to_nat (2 * ts + 5)
  else if s =? 3 then Z.to_nat (2 * ts + 4) else if s =? 4 then Z.to_nat (2 * ts + 3) else if s =? 5 then 2 else 1.

Ltac projs :=
  cbn [CMDResponse_s_state CMDResponse_s_temp CMDResponse_s_temp_size CMDResponse_s_aux rs_st rs_o rs_state rs_t rs_ts rs_a
       CMDResponse_o_valid CMDResponse_o_v upd r_valid r_v i_vin i_size i_start i_ready
       Z.eqb Pos.eqb orb andb negb fst snd app] in *.

Ltac red_step :=
  unfold rs_step; rewrite CMDResponse_clock_ref; unfold resp_ref, mk_rs_st, mk_rs_out; projs.

Ltac fin := unfold rs_inv, rs_pend, rs_need, xfer, on; projs;
  repeat match goal with E : (?r =? 0) = _ |- context [?r =? 0] => rewrite E end; projs;
  repeat split; try reflexivity; try lia; try (intuition lia; fail).

Lemma rs_step_busy c i : rs_inv c -> rs_state c <> 0 ->
  let c' := rs_step wvalid wv c i in
  rs_inv c' /\ xfer (rs_o c) (i_ready i) ++ rs_pend c' = rs_pend c /\
  (rs_need c' <= rs_need c)%nat /\ (on (i_ready i) = true -> (rs_need c' < rs_need c)%nat) /\ (1 <= rs_need c)%nat.
Proof.
  destruct c as [[s t ts a] [vd vv]]. destruct i as [vin size start ready].
  unfold rs_inv. projs. intros H Hs0.
  destruct H as [(-> & _)|[(-> & -> & Hts)|[(-> & -> & -> & Hts)|[(-> & -> & Hts & Ha)|[(-> & -> & -> & Hts & Ha)|[(-> & ->)|(-> & -> & ->)]]]]]];
    [congruence| | | | | |]; clear Hs0.
  - (* 1 *) red_step. unfold py_truth. destruct (ready =? 0) eqn:Er; projs; rewrite ?trunc_valid1, ?(trunc_char 61) by lia.
    + fin.
    + fin.
  - (* 2 *) red_step. destruct (ready =? 0) eqn:Er; projs; rewrite ?trunc_valid1, ?trunc_0.
    + fin.
    + assert (Hcase : ((ts <? 0) = true /\ ts = -1) \/ ((ts <? 0) = false /\ 0 <= ts)).
      { destruct (Z.ltb_spec ts 0); lia. }
      destruct Hcase as [[Hc ->]|[Hc Hts0]]; rewrite Hc.
      * (* size 0: no digit, straight to the final '!' *)
        unfold rs_inv, rs_pend, rs_need, xfer, on. projs. rewrite Er. projs.
        repeat split; try reflexivity; try lia; try discriminate; try (intuition lia; fail).
      * rewrite nib_nibble by lia. unfold rs_inv, rs_pend, rs_need, xfer, on. projs. rewrite Er. projs.
        rewrite (hexdigits_S t (ts + 1)) by lia. replace (ts + 1 - 1) with ts by lia.
        repeat split; try reflexivity; try lia; try discriminate; try (intuition lia; fail).
  - (* 3 *) red_step. unfold py_truth. destruct (ready =? 0) eqn:Er; projs; rewrite ?trunc_valid1.
    + fin.
    + rewrite enc_char by (rewrite Ha; apply nibble_range).
      fin.
  - (* 4 *) red_step. destruct (ready =? 0) eqn:Er; projs; rewrite ?trunc_valid1, ?trunc_0.
    + fin.
    + destruct (ts =? 0) eqn:Ets; projs.
      * assert (ts = 0) by lia; subst ts. unfold rs_inv, rs_pend, rs_need, xfer, on. projs. rewrite Er. projs.
        repeat split; try reflexivity; try lia; try discriminate; try (intuition lia; fail).
      * rewrite nib_nibble by lia. unfold rs_inv, rs_pend, rs_need, xfer, on. projs. rewrite Er. projs.
        rewrite (hexdigits_S t ts) by lia.
        repeat split; try reflexivity; try lia; try discriminate; try (intuition lia; fail).
  - (* 5 *) red_step. rewrite trunc_valid1, (trunc_char 33) by lia.
    unfold rs_inv, rs_pend, rs_need, xfer, on. projs.
    repeat split; try reflexivity; try lia; try discriminate; try (intuition lia; fail).
  - (* 6 *) red_step. destruct (ready =? 0) eqn:Er; projs; rewrite ?trunc_valid1, ?trunc_0.
    + unfold rs_inv, rs_pend, rs_need, xfer, on. projs. rewrite Er. projs.
      repeat split; try reflexivity; try lia; try discriminate; try (intuition lia; fail).
    + unfold rs_inv, rs_pend, rs_need, xfer, on. projs. rewrite Er. projs.
      repeat split; try reflexivity; try lia; try discriminate; try (intuition lia; fail).
Qed.


Lemma idle_inv c : rs_idle c -> rs_inv c.
Proof. intros [Hs Hv]. left. auto. Qed.

Lemma inv_idle c : rs_inv c -> rs_state c = 0 -> rs_idle c.
Proof. unfold rs_inv, rs_idle. intros H Hs. rewrite Hs in H. intuition lia. Qed.

Lemma rs_step_idle c i : rs_idle c -> on (i_start i) = false -> rs_step wvalid wv c i = c /\ xfer (rs_o c) (i_ready i) = [].
Proof.
  destruct c as [[s t ts a] [vd vv]]. destruct i as [vin size start ready]. unfold rs_idle, on, xfer. projs.
  intros [-> ->] Hst. red_step. unfold py_truth. rewrite Hst. projs. auto.
Qed.

Lemma rs_step_start c i : rs_idle c -> on (i_start i) = true -> 0 <= i_size i ->
  rs_inv (rs_step wvalid wv c i) /\ rs_state (rs_step wvalid wv c i) <> 0 /\
  rs_pend (rs_step wvalid wv c i) = response (i_vin i) (Z.to_nat (i_size i)) /\
  rs_need (rs_step wvalid wv c i) = Z.to_nat (2 * i_size i + 4) /\ xfer (rs_o c) (i_ready i) = [].
Proof.
  destruct c as [[s t ts a] [vd vv]]. destruct i as [vin size start ready]. unfold rs_idle, on, xfer. projs.
  intros [-> ->] Hst Hk. red_step. unfold py_truth. rewrite Hst. projs.
  unfold rs_inv, rs_pend, rs_need, response. projs. replace (size - 1 + 1) with size by lia.
  repeat split; try reflexivity; try lia; try (intuition lia; fail).
Qed.

Lemma ready_count_cons i r : ready_count (i :: r) = ((if on (i_ready i) then 1 else 0) + ready_count r)%nat.
Proof. unfold ready_count. cbn [filter]. destruct (on (i_ready i)); reflexivity. Qed.

Lemma rs_pend_idle c : rs_state c = 0 -> rs_pend c = [].
Proof. intros H. unfold rs_pend. rewrite H. reflexivity. Qed.

(* liveness while busy: enough consumer-ready cycles -> the stream splits at the return to idle *)
Lemma rs_busy_live ins : forall c, rs_inv c -> rs_state c <> 0 -> (rs_need c <= ready_count ins)%nat ->
  exists pre post, ins = pre ++ post /\ rs_xfers wvalid wv c pre = rs_pend c /\ rs_idle (rs_iter wvalid wv c pre).
Proof.
  induction ins as [|i r IH]; intros c Hi Hs Hn.
  - destruct (rs_step_busy c {| i_vin := 0; i_size := 0; i_start := 0; i_ready := 0 |} Hi Hs) as (_ & _ & _ & _ & H1).
    cbn in Hn. lia.
  - destruct (rs_step_busy c i Hi Hs) as (Hi' & Hx & Hle & Hlt & _).
    destruct (Z.eq_dec (rs_state (rs_step wvalid wv c i)) 0) as [H0|H0].
    + exists [i], r. split; [reflexivity|]. cbn [rs_xfers rs_iter]. rewrite app_nil_r.
      rewrite (rs_pend_idle _ H0), app_nil_r in Hx. split; [exact Hx | apply inv_idle; auto].
    + rewrite ready_count_cons in Hn.
      destruct (IH _ Hi' H0) as (pre & post & -> & Hxs & Hidle).
      { destruct (on (i_ready i)); [specialize (Hlt eq_refl)|]; lia. }
      exists (i :: pre), post. split; [reflexivity|]. cbn [rs_xfers rs_iter]. rewrite Hxs. auto.
Qed.

(* safety: as long as no new request arrives, what has been transferred is a prefix of what was pending *)
Lemma rs_safe ins : forall c, rs_inv c -> Forall (fun i => i_start i = 0) ins ->
  exists rest, rs_xfers wvalid wv c ins ++ rest = rs_pend c.
Proof.
  induction ins as [|i r IH]; intros c Hi Hf.
  - exists (rs_pend c). reflexivity.
  - apply Forall_cons_iff in Hf. destruct Hf as [Hst Hf]. cbn [rs_xfers].
    destruct (Z.eq_dec (rs_state c) 0) as [H0|H0].
    + destruct (rs_step_idle c i (inv_idle c Hi H0)) as [Hc Hx]; [unfold on; rewrite Hst; reflexivity|].
      rewrite Hc, Hx. cbn [app]. apply IH; auto.
    + destruct (rs_step_busy c i Hi H0) as (Hi' & Hx & _).
      destruct (IH _ Hi' Hf) as [rest Hr]. exists rest. rewrite <- app_assoc, Hr. exact Hx.
Qed.

Theorem resp_stream_thm c0 value k st r0 env :
  rs_idle c0 -> 0 <= k -> on st = true -> (Z.to_nat (2 * k + 4) <= ready_count env)%nat ->
  let first := {| i_vin := value; i_size := k; i_start := st; i_ready := r0 |} in
  exists pre post, env = pre ++ post /\
    rs_xfers wvalid wv c0 (first :: pre) = response value (Z.to_nat k) /\
    rs_idle (rs_iter wvalid wv c0 (first :: pre)).
Proof.
  intros Hc Hk Hst Hn first.
  destruct (rs_step_start c0 first Hc Hst Hk) as (Hi & Hs & Hp & Hneed & Hx).
  destruct (rs_busy_live env _ Hi Hs) as (pre & post & He & Hxs & Hidle); [rewrite Hneed; exact Hn|].
  exists pre, post. split; [exact He|]. cbn [rs_xfers rs_iter]. rewrite Hx, Hxs, Hp. auto.
Qed.

Theorem resp_prefix_thm c0 value k st r0 env :
  rs_idle c0 -> 0 <= k -> on st = true -> Forall (fun i => i_start i = 0) env ->
  let first := {| i_vin := value; i_size := k; i_start := st; i_ready := r0 |} in
  exists rest, rs_xfers wvalid wv c0 (first :: env) ++ rest = response value (Z.to_nat k).
Proof.
  intros Hc Hk Hst Hf first.
  destruct (rs_step_start c0 first Hc Hst Hk) as (Hi & Hs & Hp & Hneed & Hx).
  destruct (rs_safe env _ Hi Hf) as [rest Hr]. exists rest. cbn [rs_xfers]. rewrite Hx. cbn [app]. rewrite Hr, Hp. reflexivity.
Qed.

Theorem resp_idle_thm c i : rs_idle c -> i_start i = 0 ->
  rs_step wvalid wv c i = c /\ xfer (rs_o c) (i_ready i) = [].
Proof. intros Hc Hs. apply rs_step_idle; auto. unfold on. rewrite Hs. reflexivity. Qed.

End Resp.
