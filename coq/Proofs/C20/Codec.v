(* C20 — decoder and encoder COMPOSED: the product of the CMDRequest and CMDResponse cycle models.
   Wiring (createHILUART): the decoder's start_resp output wire is the encoder's start_resp input; the encoder's vin / size
   inputs are the entry of a table of output (value, size) pairs selected by the decoder's index_out wire (the two Mux blocks
   resp_v / resp_size); the consumer drives the encoder's ready.  Both blocks are clocked by the same edge: each reads the wire
   values of the cycle BEFORE the edge (Model/SimKernel.v clock1), so the encoder sees start_resp one cycle after the decoder
   prepared it, together with the index_out wire of that same cycle.
   The theorem reuses req_O_thm (decoder, ends at the start_resp event) and resp_stream_thm (encoder, starts at i_start) as
   black boxes.  The glue is (1) a one-step FRAME property of the regenerated decoder: the index_out wire only changes in a
   cycle in which set_index_out is high afterwards, hence — the event list being exactly [EvO n; EvS] — index_out still holds n
   in the cycle start_resp is high; (2) start_resp is low in every other cycle, so the encoder idles before, and returns to
   idle and stays there after the response. *)
From V Require Import Base.Bits Gen.WireOps Gen.Seq Spec.C20 Model.Cmd Proofs.C20.Ref Proofs.C20.Req Proofs.C20.Resp Proofs.C20.Cmds.

(* ------------------------------------------------------------------ the product machine *)
(* what the environment supplies in one cycle: the consumer's ready and the table of (value, size) of the DUT outputs *)
Record cenv := { e_ready : Z; e_tab : list (Z * Z) }.

(* the encoder's four input wires in a cycle in which the decoder's output wires are o *)
Definition enc_in (o : rq_obs) (e : cenv) : rs_in :=
  let sel := nth (Z.to_nat (q_index_out o)) (e_tab e) (0, 0) in
  {| i_vin := fst sel; i_size := snd sel; i_start := q_start_resp o; i_ready := e_ready e |}.

Definition codec := ((rq_cfg * sched) * rs_cfg)%type.

(* one clock edge of producer + decoder + encoder *)
Definition codec_step (W : rq_w) (wvalid wv : Z) (x : codec) (e : cenv) : codec :=
  (sys_step W (fst x), rs_step wvalid wv (snd x) (enc_in (rq_o (fst (fst x))) e)).

Fixpoint codec_iter (W : rq_w) (wvalid wv : Z) (x : codec) (envs : list cenv) : codec :=
  match envs with [] => x | e :: t => codec_iter W wvalid wv (codec_step W wvalid wv x e) t end.

(* the characters transferred to the consumer (valid and ready high before an edge), in order *)
Fixpoint codec_xfers (W : rq_w) (wvalid wv : Z) (x : codec) (envs : list cenv) : list Z :=
  match envs with
  | [] => []
  | e :: t => xfer (rs_o (snd x)) (e_ready e) ++ codec_xfers W wvalid wv (codec_step W wvalid wv x e) t
  end.

Definition cready_count (envs : list cenv) : nat := length (filter (fun e => on (e_ready e)) envs).

(* ------------------------------------------------------------------ list helpers *)
Fixpoint zipw (os : list rq_obs) (es : list cenv) : list rs_in :=
  match os, es with
  | o :: os', e :: es' => enc_in o e :: zipw os' es'
  | _, _ => []
  end.

Lemma zipw_app o1 : forall e1 o2 e2, length o1 = length e1 -> zipw (o1 ++ o2) (e1 ++ e2) = zipw o1 e1 ++ zipw o2 e2.
Proof.
  induction o1 as [|o r IH]; intros [|e e1] o2 e2 Hl; cbn [length] in Hl; try discriminate Hl.
  - reflexivity.
  - cbn [app zipw]. rewrite IH by lia. reflexivity.
Qed.

Lemma ready_count_zipw os : forall es, length os = length es -> ready_count (zipw os es) = cready_count es.
Proof.
  induction os as [|o r IH]; intros [|e es] Hl; cbn [length] in Hl; try discriminate Hl.
  - reflexivity.
  - cbn [zipw]. rewrite ready_count_cons. unfold cready_count. cbn [filter enc_in i_ready].
    fold (cready_count es). rewrite IH by lia. unfold cready_count.
    destruct (on (e_ready e)); reflexivity.
Qed.

Definition quiet (o : rq_obs) : Prop := on (q_start_resp o) = false.

Lemma zipw_quiet os : forall es, Forall quiet os -> Forall (fun i => on (i_start i) = false) (zipw os es).
Proof.
  induction os as [|o r IH]; intros [|e es] Hq; cbn [zipw]; try constructor.
  - apply Forall_cons_iff in Hq. exact (proj1 Hq).
  - apply IH. apply Forall_cons_iff in Hq. exact (proj2 Hq).
Qed.

Lemma skipn_len_app {A} (l1 l2 : list A) : skipn (length l1) (l1 ++ l2) = l2.
Proof. induction l1 as [|a r IH]; cbn [length skipn app]; auto. Qed.

Lemma cready_skipn_mono l : forall a b, (a <= b)%nat -> (cready_count (skipn b l) <= cready_count (skipn a l))%nat.
Proof.
  induction l as [|e t IH]; intros a b Hab.
  - rewrite !skipn_nil. lia.
  - destruct a as [|a], b as [|b]; cbn [skipn]; try lia.
    + specialize (IH O b ltac:(lia)). cbn [skipn] in IH. unfold cready_count in *. cbn [filter].
      destruct (on (e_ready e)); cbn [length]; lia.
    + apply IH. lia.
Qed.

(* ------------------------------------------------------------------ the encoder idles while start_resp is low *)
Lemma rs_idle_run wvalid wv ins : forall c, rs_idle c -> Forall (fun i => on (i_start i) = false) ins ->
  rs_iter wvalid wv c ins = c /\ rs_xfers wvalid wv c ins = [].
Proof.
  induction ins as [|i r IH]; intros c Hc Hf; [split; reflexivity|].
  apply Forall_cons_iff in Hf. destruct Hf as [Hi Hr].
  destruct (rs_step_idle wvalid wv c i Hc Hi) as [Hs Hx].
  cbn [rs_iter rs_xfers]. rewrite Hs, Hx. cbn [app]. apply IH; assumption.
Qed.

Lemma rs_xfers_app wvalid wv a : forall c b,
  rs_xfers wvalid wv c (a ++ b) = rs_xfers wvalid wv c a ++ rs_xfers wvalid wv (rs_iter wvalid wv c a) b.
Proof. induction a as [|i r IH]; intros c b; cbn [app rs_xfers rs_iter]; [reflexivity|]. rewrite IH, app_assoc. reflexivity. Qed.

Lemma rs_iter_app wvalid wv a : forall c b,
  rs_iter wvalid wv c (a ++ b) = rs_iter wvalid wv (rs_iter wvalid wv c a) b.
Proof. induction a as [|i r IH]; intros c b; cbn [app rs_iter]; [reflexivity|]. apply IH. Qed.

(* ------------------------------------------------------------------ events -> shape of the trace *)
(* the index_out wire keeps its value, or set_index_out is high afterwards *)
Definition frame (a b : rq_obs) : Prop := q_index_out b = q_index_out a \/ on (q_set_index_out b) = true.

Fixpoint chain (prev : rq_obs) (os : list rq_obs) : Prop :=
  match os with [] => True | o :: t => frame prev o /\ chain o t end.

Lemma events_cons o t : events (o :: t) = ev_of o ++ events t.
Proof. reflexivity. Qed.

Lemma events_app a b : events (a ++ b) = events a ++ events b.
Proof. unfold events. apply flat_map_app. Qed.

Lemma ev_of_nil_quiet o : ev_of o = [] -> quiet o.
Proof.
  unfold ev_of, quiet.
  destruct (on (q_set_index_in o)); [discriminate|]. destruct (on (q_set_v_in o)); [discriminate|].
  destruct (on (q_set_index_out o)); [discriminate|]. destruct (on (q_clk_pulse o)); [discriminate|].
  destruct (on (q_start_resp o)); [discriminate|]. reflexivity.
Qed.

Lemma events_nil_quiet os : events os = [] -> Forall quiet os.
Proof.
  induction os as [|o t IH]; intros H; constructor; rewrite events_cons in H; apply app_eq_nil in H; destruct H as [H1 H2].
  - apply ev_of_nil_quiet; exact H1.
  - apply IH; exact H2.
Qed.

(* after the EvO event: index_out = i until (and in) the start_resp cycle *)
Lemma phase2 i os : forall prev, q_index_out prev = i -> chain prev os -> events os = [EvS] ->
  exists A oS B, os = A ++ oS :: B /\ Forall quiet A /\ on (q_start_resp oS) = true /\ q_index_out oS = i /\ events B = [].
Proof.
  induction os as [|o t IH]; intros prev Hp Hc He; [discriminate He|].
  cbn [chain] in Hc. destruct Hc as [Hf Hc]. rewrite events_cons in He. unfold ev_of in He.
  destruct (on (q_set_index_in o)) eqn:E1; [discriminate He|].
  destruct (on (q_set_v_in o)) eqn:E2; [discriminate He|].
  destruct (on (q_set_index_out o)) eqn:E3; [discriminate He|].
  destruct (on (q_clk_pulse o)) eqn:E4; [discriminate He|].
  assert (Hio : q_index_out o = i) by (destruct Hf as [Hf|Hf]; congruence).
  destruct (on (q_start_resp o)) eqn:E5; cbn [app] in He.
  - exists [], o, t. cbn [app]. injection He as He. repeat split; auto.
  - destruct (IH o Hio Hc He) as (A & oS & B & -> & HA & HS & HI & HB).
    exists (o :: A), oS, B. cbn [app]. repeat split; auto.
Qed.

Lemma phase1 i os : forall prev, chain prev os -> events os = [EvO i; EvS] ->
  exists A oS B, os = A ++ oS :: B /\ Forall quiet A /\ on (q_start_resp oS) = true /\ q_index_out oS = i /\ events B = [].
Proof.
  induction os as [|o t IH]; intros prev Hc He; [discriminate He|].
  cbn [chain] in Hc. destruct Hc as [Hf Hc]. rewrite events_cons in He. unfold ev_of in He.
  destruct (on (q_set_index_in o)) eqn:E1; [discriminate He|].
  destruct (on (q_set_v_in o)) eqn:E2; [discriminate He|].
  destruct (on (q_set_index_out o)) eqn:E3; destruct (on (q_clk_pulse o)) eqn:E4; destruct (on (q_start_resp o)) eqn:E5;
    cbn [app] in He; try discriminate He.
  - (* set_index_out and start_resp in the same cycle *)
    injection He as Hi He. exists [], o, t. cbn [app]. repeat split; auto.
  - (* the EvO cycle *)
    injection He as Hi He.
    destruct (phase2 i t o Hi Hc He) as (A & oS & B & -> & HA & HS & HI & HB).
    exists (o :: A), oS, B. cbn [app]. repeat split; auto.
  - (* nothing yet *)
    destruct (IH o Hc He) as (A & oS & B & -> & HA & HS & HI & HB).
    exists (o :: A), oS, B. cbn [app]. repeat split; auto.
Qed.

(* ------------------------------------------------------------------ the frame property of the regenerated decoder *)
Lemma rq_step_frame W c v ch : rq_w_ok W -> frame (rq_o c) (rq_o (rq_step W c v ch)).
Proof.
  intros (Hw1 & Hw2 & Hw3 & Hw4 & Hw5 & Hw6 & Hw7 & Hw8 & Hw9).
  destruct c as [[s ct nc t] [rd ii vi io si sv so ck sr]].
  unfold rq_step. rewrite CMDRequest_clock_ref. unfold req_ref, mk_rq_st, mk_rq_out, rq_settle, frame.
  cbn [CMDRequest_s_state CMDRequest_s_cur_type CMDRequest_s_new_c CMDRequest_s_temp rq_st rq_o].
  repeat match goal with |- context [if ?b then _ else _] => destruct b end;
    cbn [rq_o CMDRequest_o_index_out CMDRequest_o_set_index_out upd q_index_out q_set_index_out];
    try (left; reflexivity).
  all: right; rewrite trunc_1 by lia; reflexivity.
Qed.

Lemma sys_step_frame W x : rq_w_ok W -> frame (rq_o (fst x)) (rq_o (fst (sys_step W x))).
Proof. intros HW. unfold sys_step. destruct (prod_out (snd x)) as [v ch]. cbn [fst]. apply rq_step_frame; exact HW. Qed.

Lemma sys_trace_S W n x : sys_trace W (S n) x = rq_o (fst (sys_step W x)) :: sys_trace W n (sys_step W x).
Proof. reflexivity. Qed.

Lemma sys_trace_chain W n : rq_w_ok W -> forall x, chain (rq_o (fst x)) (sys_trace W n x).
Proof.
  intros HW. induction n as [|n IH]; intros x; [exact I|].
  rewrite sys_trace_S. cbn [chain]. split; [apply sys_step_frame; exact HW | apply IH].
Qed.

Lemma sys_trace_length W n : forall x, length (sys_trace W n x) = n.
Proof. induction n as [|n IH]; intros x; [reflexivity|]. rewrite sys_trace_S. cbn [length]. rewrite IH. reflexivity. Qed.

Lemma sys_trace_add W a : forall b x, sys_trace W (a + b) x = sys_trace W a x ++ sys_trace W b (sys_iter W a x).
Proof.
  induction a as [|a IH]; intros b x; [reflexivity|].
  cbn [Nat.add]. rewrite !sys_trace_S, IH. reflexivity.
Qed.

(* ------------------------------------------------------------------ the product decomposes: the decoder runs on its own *)
Fixpoint enc_ins (W : rq_w) (s : rq_cfg * sched) (envs : list cenv) : list rs_in :=
  match envs with [] => [] | e :: t => enc_in (rq_o (fst s)) e :: enc_ins W (sys_step W s) t end.

Lemma codec_decompose W wvalid wv envs : forall x,
  codec_xfers W wvalid wv x envs = rs_xfers wvalid wv (snd x) (enc_ins W (fst x) envs) /\
  snd (codec_iter W wvalid wv x envs) = rs_iter wvalid wv (snd x) (enc_ins W (fst x) envs) /\
  fst (codec_iter W wvalid wv x envs) = sys_iter W (length envs) (fst x).
Proof.
  induction envs as [|e t IH]; intros x; [repeat split; reflexivity|].
  destruct (IH (codec_step W wvalid wv x e)) as (H1 & H2 & H3).
  cbn [codec_xfers codec_iter enc_ins rs_xfers rs_iter length sys_iter].
  rewrite H1, H2, H3. unfold codec_step. cbn [fst snd enc_in i_ready]. repeat split; reflexivity.
Qed.

Lemma enc_ins_trace W t : forall e x,
  enc_ins W x (e :: t) = zipw (rq_o (fst x) :: sys_trace W (length t) x) (e :: t).
Proof.
  induction t as [|e' t IH]; intros e x.
  - reflexivity.
  - change (enc_ins W x (e :: e' :: t)) with (enc_in (rq_o (fst x)) e :: enc_ins W (sys_step W x) (e' :: t)).
    rewrite IH. cbn [length]. rewrite sys_trace_S. reflexivity.
Qed.

(* ------------------------------------------------------------------ the composed theorem *)
Section Codec.
Variable W : rq_w.
Variables wvalid wv : Z.
Hypothesis HW : rq_w_ok W.
Hypothesis Hwvalid : 1 <= wvalid.
Hypothesis Hwv : 7 <= wv.
Notation wo := (ww_index_out W).

Theorem codec_O_thm c0 e0 ds p v k :
  rq_canon c0 -> rs_idle e0 -> Forall (fun d => hexdigit d = true) ds -> map snd p = 79 :: ds ++ [63] -> 0 <= k ->
  exists N, forall envs,
    Forall (fun e => nth_error (e_tab e) (Z.to_nat (hexval ds mod 2 ^ wo)) = Some (v, k)) envs ->
    (Z.to_nat (2 * k + 4) <= cready_count (skipn N envs))%nat ->
    codec_xfers W wvalid wv (c0, p, e0) envs = response v (Z.to_nat k) /\
    rs_idle (snd (codec_iter W wvalid wv (c0, p, e0) envs)) /\
    snd (fst (codec_iter W wvalid wv (c0, p, e0) envs)) = [] /\
    rq_canon (fst (fst (codec_iter W wvalid wv (c0, p, e0) envs))).
Proof.
  intros Hc He0 Hds Hp Hk.
  destruct (req_O_thm W HW c0 ds p Hc Hds Hp) as [N0 HN0].
  exists (S N0). intros envs Hst Hrdy.
  set (idx := hexval ds mod 2 ^ wo) in *.
  (* the run is longer than N0 + 1 cycles *)
  assert (Hlen : (S N0 < length envs)%nat).
  { destruct (Nat.lt_ge_cases (S N0) (length envs)) as [Hl|Hl]; [exact Hl|].
    rewrite skipn_all2 in Hrdy by exact Hl. unfold cready_count in Hrdy. cbn [filter length] in Hrdy. lia. }
  destruct envs as [|e t]; [cbn [length] in Hlen; lia|]. cbn [length] in Hlen.
  destruct (codec_decompose W wvalid wv (e :: t) (c0, p, e0)) as (D1 & D2 & D3).
  cbn [fst snd] in D1, D2, D3. rewrite D1, D2, D3. clear D1 D2 D3.
  rewrite enc_ins_trace. cbn [fst length].
  (* the decoder's trace: N0 cycles, then the rest *)
  assert (Hm : exists m, length t = (N0 + m)%nat) by (exists (length t - N0)%nat; lia).
  destruct Hm as [m Hm].
  destruct (HN0 N0 (le_n _)) as (Hev0 & _).
  destruct (HN0 (S (length t)) ltac:(lia)) as (_ & _ & Hnil & _ & Hcan).
  destruct (HN0 (length t) ltac:(lia)) as (Hev1 & _).
  rewrite Hm in Hev1, Hnil, Hcan |- *. rewrite sys_trace_add in Hev1 |- *.
  set (T0 := sys_trace W N0 (c0, p)) in *. set (R := sys_trace W m (sys_iter W N0 (c0, p))) in *.
  rewrite events_app, Hev0 in Hev1.
  assert (HR : events R = []).
  { apply (app_inv_head [EvO idx; EvS]). rewrite app_nil_r. exact Hev1. }
  pose proof (sys_trace_chain W N0 HW (c0, p)) as Hch. cbn [fst] in Hch. fold T0 in Hch.
  destruct (phase1 idx T0 (rq_o c0) Hch Hev0) as (A & oS & B & HT0 & HA & HS & HI & HB).
  assert (HlT0 : length T0 = N0) by apply sys_trace_length.
  rewrite HT0 in HlT0. rewrite app_length in HlT0. cbn [length] in HlT0.
  (* observation list = (before) ++ start cycle :: (after) *)
  assert (Hq0 : quiet (rq_o c0)).
  { destruct Hc as (_ & Hf & _). unfold strobes in Hf.
    repeat (apply Forall_cons_iff in Hf; destruct Hf as [? Hf]).
    unfold quiet, on. match goal with H : q_start_resp _ = 0 |- _ => rewrite H end. reflexivity. }
  set (A' := rq_o c0 :: A). set (Rst := B ++ R).
  assert (Hobs : rq_o c0 :: T0 ++ R = A' ++ oS :: Rst).
  { rewrite HT0. unfold A', Rst. rewrite <- app_assoc. reflexivity. }
  rewrite Hobs.
  assert (HqA : Forall quiet A') by (constructor; assumption).
  assert (HqR : Forall quiet Rst).
  { unfold Rst. apply Forall_app. split; apply events_nil_quiet; assumption. }
  (* split the environment stream accordingly *)
  set (a := length A').
  assert (Ha : (a <= N0)%nat) by (unfold a, A'; cbn [length]; lia).
  set (envs := e :: t) in *.
  assert (Hle : length envs = S (N0 + m)) by (unfold envs; cbn [length]; lia).
  assert (Hsp : envs = firstn a envs ++ skipn a envs) by (symmetry; apply firstn_skipn).
  assert (HlEA : length (firstn a envs) = a) by (apply firstn_length_le; lia).
  destruct (skipn a envs) as [|eS ER] eqn:Esk.
  { exfalso. assert (Hl2 : length (skipn a envs) = 0%nat) by (rewrite Esk; reflexivity). rewrite skipn_length in Hl2. lia. }
  set (EA := firstn a envs) in *.
  assert (HlER : length ER = length Rst).
  { assert (Hl2 : length (skipn a envs) = S (length ER)) by (rewrite Esk; reflexivity).
    rewrite skipn_length in Hl2. unfold Rst. rewrite app_length.
    assert (HlR : length R = m) by apply sys_trace_length.
    assert (HaA : a = S (length A)) by reflexivity. lia. }
  assert (HER : (Z.to_nat (2 * k + 4) <= cready_count ER)%nat).
  { assert (Hsk : skipn (S a) envs = ER).
    { rewrite Hsp. replace (EA ++ eS :: ER) with ((EA ++ [eS]) ++ ER) by (rewrite <- app_assoc; reflexivity).
      replace (S a) with (length (EA ++ [eS])) by (rewrite app_length; cbn [length]; lia).
      apply skipn_len_app. }
    rewrite <- Hsk. eapply Nat.le_trans; [exact Hrdy|]. apply cready_skipn_mono. lia. }
  rewrite Hsp. rewrite zipw_app by (unfold a in HlEA; lia).
  change (zipw (oS :: Rst) (eS :: ER)) with (enc_in oS eS :: zipw Rst ER).
  (* the selected table entry in the start cycle *)
  assert (HeS : In eS envs) by (rewrite Hsp; apply in_or_app; right; left; reflexivity).
  rewrite Forall_forall in Hst. specialize (Hst eS HeS).
  assert (Hfirst : enc_in oS eS = {| i_vin := v; i_size := k; i_start := q_start_resp oS; i_ready := e_ready eS |}).
  { unfold enc_in. rewrite HI. rewrite (nth_error_nth _ _ (0, 0) Hst). reflexivity. }
  rewrite Hfirst.
  (* phase A: idle *)
  destruct (rs_idle_run wvalid wv (zipw A' EA) e0 He0 (zipw_quiet A' EA HqA)) as [IA XA].
  rewrite rs_xfers_app, rs_iter_app, IA, XA. cbn [app].
  (* phase B: the response *)
  assert (Hrc : (Z.to_nat (2 * k + 4) <= ready_count (zipw Rst ER))%nat).
  { rewrite ready_count_zipw by lia. exact HER. }
  destruct (resp_stream_thm wvalid wv Hwvalid Hwv e0 v k (q_start_resp oS) (e_ready eS) (zipw Rst ER) He0 Hk HS Hrc)
    as (pre & post & Hpp & Hx & Hidle).
  cbv zeta in Hx, Hidle.
  (* phase C: idle again *)
  assert (Hpost : Forall (fun i => on (i_start i) = false) post).
  { pose proof (zipw_quiet Rst ER HqR) as Hz. rewrite Hpp in Hz. apply Forall_app in Hz. exact (proj2 Hz). }
  rewrite Hpp.
  match goal with |- context [?f :: pre ++ post] => change (f :: pre ++ post) with ((f :: pre) ++ post) end.
  destruct (rs_idle_run wvalid wv post _ Hidle Hpost) as [IC XC].
  rewrite rs_xfers_app, rs_iter_app, IC, XC, Hx, app_nil_r.
  split; [reflexivity|]. split; [exact Hidle|]. split; [exact Hnil | exact Hcan].
Qed.

End Codec.

(* ------------------------------------------------------------------ non-vacuity: "O3?" with producer gaps, 4 outputs,
   output 3 = 0x1A5 on 4 nibbles, consumer ready every third cycle *)
Definition tab0 : list (Z * Z) := [(7, 2); (0, 0); (65535, 4); (421, 4)].
Definition cenv0 (r : Z) : cenv := {| e_ready := r; e_tab := tab0 |}.
Definition envs0 : list cenv := flat_map (fun _ => [cenv0 0; cenv0 0; cenv0 1]) (seq 0 24).
Definition pO : sched := [([4], 79); ([], 51); ([2; 2], 63)].

Lemma codec_instance :
  rq_w_ok W0 /\ rq_canon rq_reset /\ rs_idle rs_reset /\ map snd pO = 79 :: [51] ++ [63] /\
  Forall (fun e => nth_error (e_tab e) (Z.to_nat (hexval [51] mod 2 ^ ww_index_out W0)) = Some (421, 4)) envs0 /\
  codec_xfers W0 1 8 (rq_reset, pO, rs_reset) envs0 = response 421 4 /\ response 421 4 = [61; 48; 49; 65; 53; 33] /\
  rs_idle (snd (codec_iter W0 1 8 (rq_reset, pO, rs_reset) envs0)).
Proof.
  split; [exact W0_ok|]. split; [exact reset_canon|]. split; [exact reset_idle|].
  split; [reflexivity|]. split; [|vm_compute; repeat split; reflexivity].
  unfold envs0. apply Forall_forall. intros e He. apply in_flat_map in He. destruct He as (j & _ & Hj).
  cbn [In] in Hj. destruct Hj as [<-|[<-|[<-|[]]]]; reflexivity.
Qed.
