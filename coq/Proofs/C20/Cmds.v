(* C20 — per-command corollaries, non-vacuity instances and refutation witnesses. *)
From V Require Import Base.Bits Gen.WireOps Gen.Seq Spec.C20 Model.Cmd Proofs.C20.Ref Proofs.C20.Req Proofs.C20.Resp.

Section Cmds.
Variable W : rq_w.
Hypothesis HW : rq_w_ok W.
Notation wi := (ww_index_in W).
Notation wv := (ww_v_in W).
Notation wo := (ww_index_out W).

Lemma req_cmd_thm c0 cmd p : rq_canon c0 -> wf_cmd cmd -> map snd p = encode cmd ->
  exists N, forall n, (N <= n)%nat ->
    events (sys_trace W n (c0, p)) = expected wi wv wo cmd /\
    pulse1 (rq_o c0) (sys_trace W n (c0, p)) /\
    snd (sys_iter W n (c0, p)) = [] /\
    rq_state (fst (sys_iter W n (c0, p))) = 1 /\ rq_canon (fst (sys_iter W n (c0, p))).
Proof.
  intros Hc Hwf Hp.
  destruct (req_stream_thm W HW c0 [cmd] p Hc) as [N HN]; [repeat constructor; exact Hwf | cbn [flat_map]; rewrite app_nil_r; exact Hp |].
  exists N. intros n Hn. specialize (HN n Hn). cbn [flat_map] in HN. rewrite app_nil_r in HN. exact HN.
Qed.

Lemma req_I_thm c0 ds p : rq_canon c0 -> Forall (fun d => hexdigit d = true) ds -> map snd p = 73 :: ds ++ [61] ->
  exists N, forall n, (N <= n)%nat ->
    events (sys_trace W n (c0, p)) = [EvI (hexval ds mod 2 ^ wi)] /\
    pulse1 (rq_o c0) (sys_trace W n (c0, p)) /\
    snd (sys_iter W n (c0, p)) = [] /\
    rq_state (fst (sys_iter W n (c0, p))) = 1 /\ rq_canon (fst (sys_iter W n (c0, p))).
Proof. intros Hc Hd Hp. exact (req_cmd_thm c0 (CmdI ds) p Hc Hd Hp). Qed.

Lemma req_V_thm c0 ds p : rq_canon c0 -> Forall (fun d => hexdigit d = true) ds -> map snd p = ds ++ [33] ->
  exists N, forall n, (N <= n)%nat ->
    events (sys_trace W n (c0, p)) = [EvV (hexval ds mod 2 ^ wv)] /\
    pulse1 (rq_o c0) (sys_trace W n (c0, p)) /\
    snd (sys_iter W n (c0, p)) = [] /\
    rq_state (fst (sys_iter W n (c0, p))) = 1 /\ rq_canon (fst (sys_iter W n (c0, p))).
Proof. intros Hc Hd Hp. exact (req_cmd_thm c0 (CmdV ds) p Hc Hd Hp). Qed.

Lemma req_O_thm c0 ds p : rq_canon c0 -> Forall (fun d => hexdigit d = true) ds -> map snd p = 79 :: ds ++ [63] ->
  exists N, forall n, (N <= n)%nat ->
    events (sys_trace W n (c0, p)) = [EvO (hexval ds mod 2 ^ wo); EvS] /\
    pulse1 (rq_o c0) (sys_trace W n (c0, p)) /\
    snd (sys_iter W n (c0, p)) = [] /\
    rq_state (fst (sys_iter W n (c0, p))) = 1 /\ rq_canon (fst (sys_iter W n (c0, p))).
Proof. intros Hc Hd Hp. exact (req_cmd_thm c0 (CmdO ds) p Hc Hd Hp). Qed.

Lemma req_K_thm c0 ds p : rq_canon c0 -> Forall (fun d => hexdigit d = true) ds -> map snd p = 75 :: ds ++ [59] ->
  exists N, forall n, (N <= n)%nat ->
    events (sys_trace W n (c0, p)) = repeat EvK (Z.to_nat (hexval ds)) /\
    pulse1 (rq_o c0) (sys_trace W n (c0, p)) /\
    snd (sys_iter W n (c0, p)) = [] /\
    rq_state (fst (sys_iter W n (c0, p))) = 1 /\ rq_canon (fst (sys_iter W n (c0, p))).
Proof. intros Hc Hd Hp. exact (req_cmd_thm c0 (CmdK ds) p Hc Hd Hp). Qed.
End Cmds.

(* ------------------------------------------------------------------ encoder *)
Definition in0 (r : Z) : rs_in := {| i_vin := 999; i_size := 77; i_start := 0; i_ready := r |}.

(* size = 0: exactly "=!" *)
Lemma resp_size0_ok : rs_xfers 1 8 rs_reset ({| i_vin := 5; i_size := 0; i_start := 1; i_ready := 1 |} :: map (fun _ => in0 1) (seq 0 8)) = response 5 0 /\
  response 5 0 = [61; 33].
Proof. vm_compute. split; reflexivity. Qed.

(* ------------------------------------------------------------------ instances (the hypotheses are satisfiable) *)
(* the widths createHILUART uses for a DUT with 8 inputs / 4 outputs *)
Definition W0 : rq_w := {| ww_ready := 1; ww_index_in := 3; ww_v_in := 32; ww_index_out := 2; ww_set_index_in := 1;
                           ww_set_v_in := 1; ww_set_index_out := 1; ww_clk_pulse := 1; ww_start_resp := 1 |}.
Lemma W0_ok : rq_w_ok W0.
Proof. unfold rq_w_ok, W0; cbn; lia. Qed.
Lemma reset_canon : rq_canon rq_reset.
Proof. unfold rq_canon, rq_reset; cbn. repeat split; auto. repeat constructor. Qed.

(* "I1A=" then "\n" then "2F!" then "O7?" then "K3;" with assorted producer gaps, 80 cycles from power-on *)
Definition p0 : sched :=
  [([], 73); ([5; 7], 49); ([], 65); ([0], 61); ([], 10); ([9; 9; 9], 50); ([], 70); ([], 33);
   ([1], 79); ([], 55); ([2; 2], 63); ([], 75); ([], 51); ([], 59)].
Lemma run_instance :
  events (sys_trace W0 80 (rq_reset, p0)) = [EvI 2; EvV 47; EvO 3; EvS; EvK; EvK; EvK] /\
  snd (sys_iter W0 80 (rq_reset, p0)) = [].
Proof. vm_compute. split; reflexivity. Qed.
Lemma p0_cmds : map snd p0 = flat_map encode [CmdI [49; 65]; CmdX 10; CmdV [50; 70]; CmdO [55]; CmdK [51]] /\
  Forall wf_cmd [CmdI [49; 65]; CmdX 10; CmdV [50; 70]; CmdO [55]; CmdK [51]].
Proof. split; [reflexivity|]. repeat constructor. Qed.

(* encoder: value 0x1A5 as 4 nibbles, consumer ready every third cycle *)
Definition env0 : list rs_in := flat_map (fun _ => [in0 0; in0 0; in0 1]) (seq 0 16).
Lemma resp_instance :
  rs_xfers 1 8 rs_reset ({| i_vin := 421; i_size := 4; i_start := 1; i_ready := 0 |} :: env0) = response 421 4 /\
  response 421 4 = [61; 48; 49; 65; 53; 33] /\ (Z.to_nat (2 * 4 + 4) <= ready_count env0)%nat.
Proof. vm_compute. repeat split; try reflexivity. lia. Qed.
Lemma reset_idle : rs_idle rs_reset.
Proof. split; reflexivity. Qed.

(* ------------------------------------------------------------------ refutations: the guards are needed *)
(* a producer that pulses valid for one cycle without waiting for ready loses characters: "I1=" with one idle
   cycle between the pulses produces no event at all *)
Lemma req_without_handshake_refuted :
  exists cs gap,
    events (map rq_o (rq_run W0 rq_reset (pulse_inputs gap cs ++ repeat (0, 0) 20))) <> parse 3 32 2 0 cs /\
    rq_accepted W0 rq_reset (pulse_inputs gap cs ++ repeat (0, 0) 20) <> cs.
Proof. exists [73; 49; 61], 1%nat. vm_compute. split; intros H; discriminate H. Qed.

(* lower-case digits are not digits for the decoder: "Ia=" selects input 0, not 10 *)
Lemma req_lowercase_refuted :
  exists n, events (sys_trace W0 n (rq_reset, [([], 73); ([], 97); ([], 61)])) = [EvI 0].
Proof. exists 20%nat. vm_compute. reflexivity. Qed.
