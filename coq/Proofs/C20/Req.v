(* C20 — decoder (CMDRequest): invariant, ghost refinement to the reference parser, progress. *)
From V Require Import Base.Bits Gen.WireOps Gen.Seq Spec.C20 Model.Cmd Proofs.C20.Ref.

Lemma trunc_0 w : trunc w 0 = 0.
Proof. reflexivity. Qed.
Lemma trunc_1 w : 1 <= w -> trunc w 1 = 1.
Proof.
  intros. apply trunc_small; [lia|]. pose proof (pow2_le 1 w ltac:(lia)). change (2 ^ 1) with 2 in *. lia.
Qed.

Lemma lor_digit t d : 0 <= d < 16 -> Z.lor (py_shl t 4) d = 16 * t + d.
Proof. intros. unfold py_shl. rewrite lor_add_disjoint by (change (2 ^ 4) with 16; lia). change (2 ^ 4) with 16. lia. Qed.

Section Req.
Variable W : rq_w.
Hypothesis HW : rq_w_ok W.
Notation wi := (ww_index_in W).
Notation wv := (ww_v_in W).
Notation wo := (ww_index_out W).

(* ------------------------------------------------------------------ invariant *)
Definition pat (o : rq_obs) (r si sv so ck sr : Z) : Prop :=
  q_ready o = r /\ q_set_index_in o = si /\ q_set_v_in o = sv /\ q_set_index_out o = so /\ q_clk_pulse o = ck /\ q_start_resp o = sr.

Definition exp_pat (s : Z) (o : rq_obs) : Prop :=
  if s =? 1 then pat o 1 0 0 0 0 0
  else if s =? 10 then pat o 0 0 0 1 0 0
  else if s =? 9 then pat o 0 0 0 0 1 0
  else if s =? 4 then pat o 0 0 0 0 0 0 \/ pat o 0 1 0 0 0 0 \/ pat o 0 0 1 0 0 0 \/ pat o 0 0 0 0 0 1
  else pat o 0 0 0 0 0 0.

Definition rq_inv (c : rq_cfg) : Prop :=
  0 <= rq_temp c /\ In (rq_state c) [0; 1; 2; 3; 4; 5; 6; 7; 8; 9; 10] /\ exp_pat (rq_state c) (rq_o c).

(* ------------------------------------------------------------------ ghost: the abstract accumulator and the events still to come *)
Definition rq_nc (c : rq_cfg) : Z := CMDRequest_s_new_c (rq_st c).

Definition rq_acc (c : rq_cfg) : Z :=
  let s := rq_state c in
  if s =? 2 then fst (parse_char wi wv wo (rq_temp c) (rq_nc c))
  else if (s =? 0) || (s =? 1) then rq_temp c else 0.

Definition rq_pend (c : rq_cfg) : list ev :=
  let s := rq_state c in let t := rq_temp c in
  if s =? 2 then snd (parse_char wi wv wo t (rq_nc c))
  else if s =? 3 then [EvI (t mod 2 ^ wi)]
  else if s =? 5 then [EvV (t mod 2 ^ wv)]
  else if s =? 6 then [EvO (t mod 2 ^ wo); EvS]
  else if (s =? 10) || (s =? 7) then [EvS]
  else if (s =? 8) || (s =? 9) then repeat EvK (Z.to_nat t)
  else [].

(* an upper bound on the number of edges until the decoder is back in state 1 (it takes no input meanwhile) *)
Definition rq_dist (c : rq_cfg) : nat :=
  let s := rq_state c in let t2 := Z.to_nat (2 * rq_temp c) in
  if s =? 1 then 0 else if s =? 0 then 1 else if s =? 4 then 2
  else if (s =? 3) || (s =? 5) || (s =? 7) then 3 else if s =? 10 then 4 else if s =? 6 then 5
  else if s =? 8 then t2 + 3 else if s =? 9 then t2 + 4 else t2 + 6.

Definition accepts (c : rq_cfg) (v : Z) : bool := on (q_ready (rq_o c)) && on v.

Ltac projs :=
  cbn [CMDRequest_s_state CMDRequest_s_cur_type CMDRequest_s_new_c CMDRequest_s_temp rq_st rq_o rq_state rq_temp rq_nc
       CMDRequest_o_ready CMDRequest_o_set_index_in CMDRequest_o_set_v_in CMDRequest_o_set_index_out CMDRequest_o_index_in
       CMDRequest_o_start_resp CMDRequest_o_v_in CMDRequest_o_index_out CMDRequest_o_clk_pulse upd
       q_ready q_index_in q_v_in q_index_out q_set_index_in q_set_v_in q_set_index_out q_clk_pulse q_start_resp
       Z.eqb Pos.eqb orb andb negb fst snd app strobes] in *.

Ltac red_step :=
  unfold rq_step; rewrite CMDRequest_clock_ref; unfold req_ref, mk_rq_st, mk_rq_out, rq_settle; projs.

Ltac widths :=
  destruct HW as (Hw1 & Hw2 & Hw3 & Hw4 & Hw5 & Hw6 & Hw7 & Hw8 & Hw9).

Ltac truncs :=
  rewrite ?trunc_0; rewrite ?(trunc_1 (ww_ready W)), ?(trunc_1 (ww_set_index_in W)), ?(trunc_1 (ww_set_v_in W)),
    ?(trunc_1 (ww_set_index_out W)), ?(trunc_1 (ww_clk_pulse W)), ?(trunc_1 (ww_start_resp W)) by lia;
  rewrite ?(trunc_mod (ww_index_in W)), ?(trunc_mod (ww_v_in W)), ?(trunc_mod (ww_index_out W)) by lia.

Ltac inv_goal :=
  unfold rq_inv, exp_pat, pat; projs;
  split; [ lia | split; [ cbn [In]; tauto | repeat split; try reflexivity; tauto ] ].

Lemma rq_step_all c v ch : rq_inv c ->
  let c' := rq_step W c v ch in
  rq_inv c' /\
  (if accepts c v then rq_pend c = [] /\ ev_of (rq_o c') = [] /\ parse_char wi wv wo (rq_acc c) ch = (rq_acc c', rq_pend c')
   else rq_acc c' = rq_acc c /\ ev_of (rq_o c') ++ rq_pend c' = rq_pend c) /\
  Forall2 (fun a b => a = 0 \/ b = 0) (strobes (rq_o c)) (strobes (rq_o c')) /\
  (rq_state c <> 1 -> (rq_dist c' < rq_dist c)%nat) /\
  (rq_state c = 1 -> accepts c v = false -> c' = c) /\
  (on (q_ready (rq_o c)) = true <-> rq_state c = 1).
Proof.
  widths.
  destruct c as [[s ct nc t] [rd ii vi io si sv so ck sr]].
  unfold rq_inv, accepts. projs. intros (Ht & Hs & Hp).
  cbn [In] in Hs.
  assert (Hall : forall x y : Z, (x = 0 \/ y = 0) -> True) by auto.
  destruct Hs as [<-|[<-|[<-|[<-|[<-|[<-|[<-|[<-|[<-|[<-|[<-|[]]]]]]]]]]]];
    unfold exp_pat, pat in Hp; projs.
  - (* 0 *) destruct Hp as (-> & -> & -> & -> & -> & ->).
    red_step. truncs. unfold on, rq_acc, rq_pend, rq_dist, ev_of. projs.
    repeat split; try inv_goal; try (repeat constructor; auto; fail); try lia; try discriminate.
  - (* 1 *) destruct Hp as (-> & -> & -> & -> & -> & ->).
    red_step. unfold on, py_truth. projs.
    destruct (v =? 0) eqn:Ev; projs; truncs; unfold rq_acc, rq_pend, rq_dist, ev_of, on; projs.
    + repeat split; try inv_goal; try (repeat constructor; auto; fail); try lia; try discriminate.
    + repeat split; try inv_goal; try (repeat constructor; auto; fail); try lia; try discriminate.
      destruct (parse_char wi wv wo t ch); reflexivity.
  - (* 2 *) destruct Hp as (-> & -> & -> & -> & -> & ->).
    red_step. unfold on, rq_acc, rq_pend, rq_dist, ev_of, parse_char, hexdigit, digit_val, is_dec, is_hexu. projs.
    destruct (nc =? 73) eqn:E1; [projs; repeat split; try inv_goal; try (repeat constructor; auto; fail); try lia; try discriminate|].
    destruct (nc =? 61) eqn:E2; [projs; repeat split; try inv_goal; try (repeat constructor; auto; fail); try lia; try discriminate|].
    destruct (nc =? 79) eqn:E3; [projs; repeat split; try inv_goal; try (repeat constructor; auto; fail); try lia; try discriminate|].
    destruct (nc =? 75) eqn:E4; [projs; repeat split; try inv_goal; try (repeat constructor; auto; fail); try lia; try discriminate|].
    destruct (nc =? 33) eqn:E5; [projs; repeat split; try inv_goal; try (repeat constructor; auto; fail); try lia; try discriminate|].
    destruct (nc =? 63) eqn:E6; [projs; repeat split; try inv_goal; try (repeat constructor; auto; fail); try lia; try discriminate|].
    destruct (nc =? 59) eqn:E7; [projs; repeat split; try inv_goal; try (repeat constructor; auto; fail); try lia; try discriminate|].
    destruct ((nc >=? 48) && (nc <=? 57)) eqn:E8.
    { projs. rewrite lor_digit by lia.
      repeat split; try inv_goal; try (repeat constructor; auto; fail); try lia; try discriminate. }
    destruct ((nc >=? 65) && (nc <=? 70)) eqn:E9.
    { projs. rewrite lor_digit by lia. replace (nc + 10 - 65) with (nc - 55) by lia.
      repeat split; try inv_goal; try (repeat constructor; auto; fail); try lia; try discriminate. }
    projs. repeat split; try inv_goal; try (repeat constructor; auto; fail); try lia; try discriminate.
  - (* 3 *) destruct Hp as (-> & -> & -> & -> & -> & ->).
    red_step. truncs. unfold on, rq_acc, rq_pend, rq_dist, ev_of. projs.
    repeat split; try inv_goal; try (repeat constructor; auto; fail); try lia; try discriminate.
  - (* 4 *)
    destruct Hp as [Hp|[Hp|[Hp|Hp]]]; destruct Hp as (-> & -> & -> & -> & -> & ->);
      red_step; truncs; unfold on, rq_acc, rq_pend, rq_dist, ev_of; projs;
      repeat split; try inv_goal; try (repeat constructor; auto; fail); try lia; try discriminate.
  - (* 5 *) destruct Hp as (-> & -> & -> & -> & -> & ->).
    red_step. truncs. unfold on, rq_acc, rq_pend, rq_dist, ev_of. projs.
    repeat split; try inv_goal; try (repeat constructor; auto; fail); try lia; try discriminate.
  - (* 6 *) destruct Hp as (-> & -> & -> & -> & -> & ->).
    red_step. truncs. unfold on, rq_acc, rq_pend, rq_dist, ev_of. projs.
    repeat split; try inv_goal; try (repeat constructor; auto; fail); try lia; try discriminate.
  - (* 7 *) destruct Hp as (-> & -> & -> & -> & -> & ->).
    red_step. truncs. unfold on, rq_acc, rq_pend, rq_dist, ev_of. projs.
    repeat split; try inv_goal; try (repeat constructor; auto; fail); try lia; try discriminate.
  - (* 8 *) destruct Hp as (-> & -> & -> & -> & -> & ->).
    red_step. destruct (t =? 0) eqn:Et; projs; truncs; unfold on, rq_acc, rq_pend, rq_dist, ev_of; projs.
    + assert (t = 0) by lia; subst t.
      repeat split; try inv_goal; try (repeat constructor; auto; fail); try lia; try discriminate.
    + replace (Z.to_nat t) with (S (Z.to_nat (t - 1))) by lia. cbn [repeat].
      repeat split; try inv_goal; try (repeat constructor; auto; fail); try lia; try discriminate.
  - (* 9 *) destruct Hp as (-> & -> & -> & -> & -> & ->).
    red_step. truncs. unfold on, rq_acc, rq_pend, rq_dist, ev_of. projs.
    repeat split; try inv_goal; try (repeat constructor; auto; fail); try lia; try discriminate.
  - (* 10 *) destruct Hp as (-> & -> & -> & -> & -> & ->).
    red_step. truncs. unfold on, rq_acc, rq_pend, rq_dist, ev_of. projs.
    repeat split; try inv_goal; try (repeat constructor; auto; fail); try lia; try discriminate.
Qed.

Lemma rq_step_inv c v ch : rq_inv c -> rq_inv (rq_step W c v ch).
Proof. intros H. apply (rq_step_all c v ch H). Qed.

Lemma rq_ready_state c : rq_inv c -> (on (q_ready (rq_o c)) = true <-> rq_state c = 1).
Proof. intros H. apply (rq_step_all c 0 0 H). Qed.

Lemma canon_inv c : rq_canon c -> rq_inv c /\ rq_acc c = 0 /\ rq_pend c = [].
Proof.
  destruct c as [[s ct nc t] [rd ii vi io si sv so ck sr]].
  unfold rq_canon, rq_inv, rq_acc, rq_pend, exp_pat, pat. projs. intros (Ht & Hf & Hs).
  repeat (apply Forall_cons_iff in Hf; destruct Hf as [? Hf]). subst.
  destruct Hs as [[-> ->]|[-> ->]]; projs; cbn [In]; repeat split; auto; lia.
Qed.

Lemma inv_state1 c : rq_inv c -> rq_state c = 1 ->
  q_ready (rq_o c) = 1 /\ Forall (fun x => x = 0) (strobes (rq_o c)) /\ rq_acc c = rq_temp c /\ rq_pend c = [].
Proof.
  destruct c as [[s ct nc t] [rd ii vi io si sv so ck sr]].
  unfold rq_inv, rq_acc, rq_pend, exp_pat, pat. projs. intros (Ht & _ & Hp) ->. projs.
  destruct Hp as (-> & -> & -> & -> & -> & ->). repeat split; auto. repeat constructor.
Qed.

(* ------------------------------------------------------------------ the reference parser *)
Lemma parse_full_cons a c r :
  parse_full wi wv wo a (c :: r) =
  (fst (parse_full wi wv wo (fst (parse_char wi wv wo a c)) r),
   snd (parse_char wi wv wo a c) ++ snd (parse_full wi wv wo (fst (parse_char wi wv wo a c)) r)).
Proof. cbn [parse_full]. destruct (parse_char wi wv wo a c) as [a1 e1]. cbn [fst snd]. destruct (parse_full wi wv wo a1 r); reflexivity. Qed.

Lemma parse_full_app a cs1 : forall cs2,
  parse_full wi wv wo a (cs1 ++ cs2) =
  (fst (parse_full wi wv wo (fst (parse_full wi wv wo a cs1)) cs2),
   snd (parse_full wi wv wo a cs1) ++ snd (parse_full wi wv wo (fst (parse_full wi wv wo a cs1)) cs2)).
Proof.
  revert a. induction cs1 as [|c r IH]; intros a cs2.
  - cbn [app parse_full fst snd]. destruct (parse_full wi wv wo a cs2); reflexivity.
  - rewrite <- app_comm_cons, !parse_full_cons, IH. cbn [fst snd]. rewrite app_assoc. reflexivity.
Qed.

Lemma parse_char_digit a c : hexdigit c = true -> parse_char wi wv wo a c = (16 * a + digit_val c, []).
Proof.
  intros H. unfold parse_char. rewrite H. unfold hexdigit, is_dec, is_hexu in H.
  destruct (c =? 73) eqn:E1; [lia|]. destruct (c =? 61) eqn:E2; [lia|]. destruct (c =? 79) eqn:E3; [lia|].
  destruct (c =? 75) eqn:E4; [lia|]. destruct (c =? 33) eqn:E5; [lia|]. destruct (c =? 63) eqn:E6; [lia|].
  destruct (c =? 59) eqn:E7; [lia|]. reflexivity.
Qed.

Lemma parse_char_other a c : special c = false -> hexdigit c = false -> parse_char wi wv wo a c = (0, []).
Proof.
  intros Hs H. unfold parse_char. rewrite H. unfold special in Hs.
  destruct (c =? 73) eqn:E1; [lia|]. destruct (c =? 61) eqn:E2; [lia|]. destruct (c =? 79) eqn:E3; [lia|].
  destruct (c =? 75) eqn:E4; [lia|]. destruct (c =? 33) eqn:E5; [lia|]. destruct (c =? 63) eqn:E6; [lia|].
  destruct (c =? 59) eqn:E7; [lia|]. reflexivity.
Qed.

Lemma parse_digits ds : forall a, Forall (fun d => hexdigit d = true) ds -> parse_full wi wv wo a ds = (hexval_from a ds, []).
Proof.
  induction ds as [|d r IH]; intros a H; [reflexivity|].
  apply Forall_cons_iff in H. destruct H as [Hd Hr].
  rewrite parse_full_cons, parse_char_digit by exact Hd. cbn [fst snd]. rewrite IH by exact Hr. reflexivity.
Qed.

Lemma parse_cmd c : wf_cmd c -> parse_full wi wv wo 0 (encode c) = (0, expected wi wv wo c).
Proof.
  destruct c as [ds|ds|ds|ds|x]; cbn [wf_cmd encode expected]; intros H.
  - rewrite parse_full_cons. change (parse_char wi wv wo 0 73) with (0, @nil ev). cbn [fst snd].
    rewrite parse_full_app, (parse_digits ds) by exact H. cbn [fst snd app]. reflexivity.
  - rewrite parse_full_app, (parse_digits ds) by exact H. cbn [fst snd app]. reflexivity.
  - rewrite parse_full_cons. change (parse_char wi wv wo 0 79) with (0, @nil ev). cbn [fst snd].
    rewrite parse_full_app, (parse_digits ds) by exact H. cbn [fst snd app]. reflexivity.
  - rewrite parse_full_cons. change (parse_char wi wv wo 0 75) with (0, @nil ev). cbn [fst snd].
    rewrite parse_full_app, (parse_digits ds) by exact H. cbn [fst snd app].
    change (parse_full wi wv wo (hexval_from 0 ds) [59]) with (0, repeat EvK (Z.to_nat (hexval_from 0 ds)) ++ []).
    cbn [fst snd]. rewrite app_nil_r. reflexivity.
  - destruct H as [Hs Hd]. cbn [parse_full]. rewrite parse_char_other by assumption. reflexivity.
Qed.

Lemma parse_cmds cmds : Forall wf_cmd cmds ->
  parse_full wi wv wo 0 (flat_map encode cmds) = (0, flat_map (expected wi wv wo) cmds).
Proof.
  induction cmds as [|c r IH]; intros H; [reflexivity|].
  apply Forall_cons_iff in H. destruct H as [Hc Hr].
  cbn [flat_map]. rewrite parse_full_app, parse_cmd by exact Hc. cbn [fst snd]. rewrite IH by exact Hr. reflexivity.
Qed.

(* ------------------------------------------------------------------ open loop: any input stream *)
Lemma rq_run_ghost ins : forall c, rq_inv c ->
  rq_inv (rq_last W c ins) /\
  events (map rq_o (rq_run W c ins)) ++ rq_pend (rq_last W c ins) =
    rq_pend c ++ snd (parse_full wi wv wo (rq_acc c) (rq_accepted W c ins)) /\
  rq_acc (rq_last W c ins) = fst (parse_full wi wv wo (rq_acc c) (rq_accepted W c ins)) /\
  pulse1 (rq_o c) (map rq_o (rq_run W c ins)).
Proof.
  induction ins as [|[v ch] r IH]; intros c Hi.
  - cbn. rewrite app_nil_r. auto.
  - destruct (rq_step_all c v ch Hi) as (Hi' & Hg & Hp & _).
    destruct (IH _ Hi') as (Hl & He & Ha & Hpp).
    cbn [rq_last rq_run rq_accepted map pulse1]. unfold events in *. cbn [flat_map].
    fold (accepts c v). destruct (accepts c v).
    + destruct Hg as (Hp0 & He0 & Hpc). rewrite Hp0, He0. cbn [app].
      rewrite parse_full_cons, Hpc. cbn [fst snd]. split; [exact Hl | split; [exact He | split; [exact Ha | split; auto]]].
    + destruct Hg as (Ha0 & He0). cbn [app]. rewrite <- Ha0, <- He0, <- !app_assoc. rewrite He.
      split; [exact Hl | split; [reflexivity | split; [exact Ha | split; auto]]].
Qed.

(* ------------------------------------------------------------------ closed loop with a handshaking producer *)
Definition Phi (x : rq_cfg * sched) : Z * list ev :=
  (fst (parse_full wi wv wo (rq_acc (fst x)) (map snd (snd x))),
   rq_pend (fst x) ++ snd (parse_full wi wv wo (rq_acc (fst x)) (map snd (snd x)))).

Lemma sys_step_phi x : rq_inv (fst x) ->
  rq_inv (fst (sys_step W x)) /\ fst (Phi (sys_step W x)) = fst (Phi x) /\
  ev_of (rq_o (fst (sys_step W x))) ++ snd (Phi (sys_step W x)) = snd (Phi x) /\
  Forall2 (fun a b => a = 0 \/ b = 0) (strobes (rq_o (fst x))) (strobes (rq_o (fst (sys_step W x)))).
Proof.
  destruct x as [c p]. cbn [fst snd]. intros Hi. unfold sys_step, Phi. cbn [fst snd].
  destruct p as [|[[|g gs] ch] r]; cbn [prod_out prod_step fst snd map].
  - destruct (rq_step_all c 0 0 Hi) as (Hi' & Hg & Hp & _). unfold accepts in Hg.
    change (on 0) with false in Hg. rewrite andb_false_r in Hg. destruct Hg as [Ha He].
    rewrite Ha. cbn [parse_full fst snd]. rewrite !app_nil_r. auto.
  - destruct (rq_step_all c 1 ch Hi) as (Hi' & Hg & Hp & _). unfold accepts in Hg.
    change (on 1) with true in Hg. rewrite andb_true_r in Hg.
    destruct (on (q_ready (rq_o c))).
    + destruct Hg as (Hp0 & He0 & Hpc). cbn [fst snd map].
      rewrite (parse_full_cons (rq_acc c)), Hpc, Hp0, He0. cbn [fst snd app]. auto.
    + destruct Hg as [Ha He]. cbn [fst snd map]. rewrite Ha, <- He, <- app_assoc. auto.
  - destruct (rq_step_all c 0 g Hi) as (Hi' & Hg & Hp & _). unfold accepts in Hg.
    change (on 0) with false in Hg. rewrite andb_false_r in Hg. destruct Hg as [Ha He].
    rewrite Ha, <- He, <- app_assoc. auto.
Qed.

Lemma sys_run_phi n : forall x, rq_inv (fst x) ->
  rq_inv (fst (sys_iter W n x)) /\ fst (Phi (sys_iter W n x)) = fst (Phi x) /\
  events (sys_trace W n x) ++ snd (Phi (sys_iter W n x)) = snd (Phi x) /\
  pulse1 (rq_o (fst x)) (sys_trace W n x).
Proof.
  induction n as [|n IH]; intros x Hi.
  - cbn. auto.
  - destruct (sys_step_phi x Hi) as (Hi' & Ha & He & Hp).
    destruct (IH _ Hi') as (Hl & Ha' & He' & Hp').
    unfold sys_trace, events in *. cbn [sys_iter sys_run map flat_map pulse1].
    rewrite <- app_assoc, He', He, Ha', Ha. auto.
Qed.

Definition psize (p : sched) : nat := fold_right (fun gc n => S (length (fst gc) + n)) O p.
Definition done (x : rq_cfg * sched) : Prop := snd x = [] /\ rq_state (fst x) = 1.

Lemma prod_step_size p r : (psize (prod_step p r) <= psize p)%nat.
Proof. destruct p as [|[[|g gs] ch] q]; cbn [prod_step psize fold_right fst length]; [lia| |lia]. destruct (on r); cbn [psize fold_right fst length]; lia. Qed.

Lemma prod_step_size_lt p r : on r = true -> p <> [] -> (psize (prod_step p r) < psize p)%nat.
Proof. intros Hr Hp. destruct p as [|[[|g gs] ch] q]; [congruence| |]; cbn [prod_step psize fold_right fst length]; [rewrite Hr|]; cbn [psize fold_right fst length]; lia. Qed.

Lemma sys_live : forall n d x, (psize (snd x) <= n)%nat -> (rq_dist (fst x) <= d)%nat -> rq_inv (fst x) ->
  exists N, done (sys_iter W N x).
Proof.
  assert (Hstep : forall x, rq_inv (fst x) ->
            rq_inv (fst (sys_step W x)) /\
            (psize (snd (sys_step W x)) <= psize (snd x))%nat /\
            (rq_state (fst x) <> 1 -> (rq_dist (fst (sys_step W x)) < rq_dist (fst x))%nat) /\
            (rq_state (fst x) = 1 -> snd x <> [] -> (psize (snd (sys_step W x)) < psize (snd x))%nat)).
  { intros [c p] Hi. unfold sys_step. cbn [fst snd] in *. destruct (prod_out p) as [v ch]. cbn [fst snd].
    destruct (rq_step_all c v ch Hi) as (Hi' & _ & _ & Hd & _ & Hr).
    split; [exact Hi' | split; [apply prod_step_size | split; [exact Hd |]]].
    intros Hs Hp. apply prod_step_size_lt; auto. apply Hr; auto. }
  assert (Hnil : forall x : rq_cfg * sched, (psize (snd x) <= 0)%nat -> snd x = []).
  { intros [c [|gc q]] H; [reflexivity | cbn [snd psize fold_right] in H; lia]. }
  induction n as [|n IHn]; induction d as [|d IHd]; intros x Hp Hd Hi;
    destruct (Hstep x Hi) as (Hi' & Hle & Hdec & Hlt);
    destruct (Z.eq_dec (rq_state (fst x)) 1) as [Hs|Hs].
  - exists O. split; auto.
  - specialize (Hdec Hs). lia.
  - exists O. split; auto.
  - specialize (Hdec Hs). destruct (IHd (sys_step W x)) as [N HN]; [lia | lia | auto |].
    exists (S N). exact HN.
  - destruct (list_eq_dec (fun a b : list Z * Z => ltac:(decide equality; [apply Z.eq_dec | apply (list_eq_dec Z.eq_dec)])) (snd x) [])
      as [Hx|Hx]; [exists O; split; auto|].
    specialize (Hlt Hs Hx).
    destruct (IHn (rq_dist (fst (sys_step W x))) (sys_step W x) ltac:(lia) (le_n _) Hi') as [N HN].
    exists (S N). exact HN.
  - specialize (Hdec Hs). lia.
  - destruct (list_eq_dec (fun a b : list Z * Z => ltac:(decide equality; [apply Z.eq_dec | apply (list_eq_dec Z.eq_dec)])) (snd x) [])
      as [Hx|Hx]; [exists O; split; auto|].
    specialize (Hlt Hs Hx).
    destruct (IHn (rq_dist (fst (sys_step W x))) (sys_step W x) ltac:(lia) (le_n _) Hi') as [N HN].
    exists (S N). exact HN.
  - specialize (Hdec Hs). destruct (IHd (sys_step W x)) as [N HN]; [lia | lia | auto |].
    exists (S N). exact HN.
Qed.


Lemma sys_done_fix x : rq_inv (fst x) -> done x -> sys_step W x = x.
Proof.
  destruct x as [c p]. unfold done. cbn [fst snd]. intros Hi [-> Hs]. unfold sys_step. cbn [fst snd prod_out prod_step].
  f_equal. apply (rq_step_all c 0 0 Hi); auto. unfold accepts. change (on 0) with false. apply andb_false_r.
Qed.

Lemma sys_iter_fix n x : sys_step W x = x -> sys_iter W n x = x.
Proof. intros H. induction n; cbn [sys_iter]; [reflexivity | rewrite H; auto]. Qed.

Lemma sys_iter_add a : forall b x, sys_iter W (a + b) x = sys_iter W b (sys_iter W a x).
Proof. induction a; intros; cbn [sys_iter Nat.add]; auto. Qed.

Theorem req_chars_thm c0 p : rq_canon c0 ->
  exists N, forall n, (N <= n)%nat ->
    events (sys_trace W n (c0, p)) = parse wi wv wo 0 (map snd p) /\
    pulse1 (rq_o c0) (sys_trace W n (c0, p)) /\
    snd (sys_iter W n (c0, p)) = [] /\
    rq_state (fst (sys_iter W n (c0, p))) = 1 /\
    q_ready (rq_o (fst (sys_iter W n (c0, p)))) = 1 /\
    Forall (fun x => x = 0) (strobes (rq_o (fst (sys_iter W n (c0, p))))) /\
    rq_temp (fst (sys_iter W n (c0, p))) = fst (parse_full wi wv wo 0 (map snd p)).
Proof.
  intros Hc. destruct (canon_inv c0 Hc) as (Hi & Ha & Hp).
  destruct (sys_live (psize p) (rq_dist c0) (c0, p) (le_n _) (le_n _) Hi) as [N HN].
  exists N. intros n Hn.
  destruct (sys_run_phi N (c0, p) Hi) as (HiN & _).
  assert (Hfix : sys_iter W n (c0, p) = sys_iter W N (c0, p)).
  { replace n with (N + (n - N))%nat by lia. rewrite sys_iter_add. apply sys_iter_fix, sys_done_fix; auto. }
  destruct (sys_run_phi n (c0, p) Hi) as (Hin & Hacc & Hev & Hpl).
  rewrite Hfix in *. destruct HN as [Hnil Hs1].
  destruct (inv_state1 _ HiN Hs1) as (Hr & Hst & Hat & Hpe).
  unfold Phi in Hacc, Hev. cbn [fst snd] in Hacc, Hev.
  rewrite Hnil, Hpe, Ha, Hp in *. cbn [map parse_full fst snd app] in *. rewrite app_nil_r in Hev.
  unfold parse. repeat split; auto. congruence.
Qed.

Theorem req_stream_thm c0 cmds p : rq_canon c0 -> Forall wf_cmd cmds -> map snd p = flat_map encode cmds ->
  exists N, forall n, (N <= n)%nat ->
    events (sys_trace W n (c0, p)) = flat_map (expected wi wv wo) cmds /\
    pulse1 (rq_o c0) (sys_trace W n (c0, p)) /\
    snd (sys_iter W n (c0, p)) = [] /\
    rq_state (fst (sys_iter W n (c0, p))) = 1 /\ rq_canon (fst (sys_iter W n (c0, p))).
Proof.
  intros Hc Hwf Hp. destruct (req_chars_thm c0 p Hc) as [N HN]. exists N. intros n Hn.
  destruct (HN n Hn) as (He & Hpl & Hnil & Hs & Hr & Hst & Ht).
  unfold parse in He. rewrite Hp, parse_cmds in * by exact Hwf. cbn [fst snd] in *.
  repeat split; auto.
Qed.

Theorem req_hex_thm c0 ds p : rq_canon c0 -> Forall (fun d => hexdigit d = true) ds -> map snd p = ds ->
  exists N, forall n, (N <= n)%nat ->
    rq_temp (fst (sys_iter W n (c0, p))) = hexval ds /\ rq_state (fst (sys_iter W n (c0, p))) = 1 /\
    snd (sys_iter W n (c0, p)) = [] /\ events (sys_trace W n (c0, p)) = [].
Proof.
  intros Hc Hds Hp. destruct (req_chars_thm c0 p Hc) as [N HN]. exists N. intros n Hn.
  destruct (HN n Hn) as (He & Hpl & Hnil & Hs & Hr & Hst & Ht).
  unfold parse in He. rewrite Hp, parse_digits in * by exact Hds. cbn [fst snd] in *. auto.
Qed.

(* open loop, ANY input stream: the events seen so far are a prefix of the meaning of the accepted characters,
   complete whenever the decoder is back in its waiting state *)
Theorem req_transducer_thm c0 ins : rq_canon c0 ->
  exists rest,
    events (map rq_o (rq_run W c0 ins)) ++ rest = parse wi wv wo 0 (rq_accepted W c0 ins) /\
    (rq_state (rq_last W c0 ins) = 1 -> rest = []) /\
    pulse1 (rq_o c0) (map rq_o (rq_run W c0 ins)).
Proof.
  intros Hc. destruct (canon_inv c0 Hc) as (Hi & Ha & Hp).
  destruct (rq_run_ghost ins c0 Hi) as (Hl & He & _ & Hpl).
  exists (rq_pend (rq_last W c0 ins)). rewrite Hp, Ha in He. cbn [app] in He.
  split; [exact He | split; [|exact Hpl]]. intros Hs. apply (inv_state1 _ Hl Hs).
Qed.

End Req.
