(* C20 — the REGENERATED step functions (Gen/Seq.v) equal the hand-written reference functions of Model/Cmd.v.
   These two lemmas are the only place that looks inside the generated definitions: every other proof uses
   req_ref / resp_ref.  The proofs are SEMANTIC: every atomic boolean condition (of the generated code and of the
   reference) is case-split, python truth tests are reduced to `x =? 0`, and each leaf is closed field by field up to
   linear arithmetic (with `(t << 4) | d = t*16 + d` for a nibble d), so behaviour-preserving rewrites of clock()
   (`if r == 0: A else: B` vs `if r: B else: A`, `(t << 4) | d` vs `t*16 + d`, `t = t - 1` vs `t -= 1`, reordered
   statements, renamed locals) keep them valid; a change of behaviour breaks them. *)
From V Require Import Base.Bits Gen.WireOps Gen.Seq Spec.C20 Model.Cmd.

Lemma Wire_prepare_trunc w v : Wire_prepare w v = trunc w v.
Proof. reflexivity. Qed.

(* Python's (t << 4) | d for a nibble d and ANY integer t (also negative: a multiple of 16 has a zero low nibble) *)
Lemma lor_nib t d : 0 <= d < 16 -> Z.lor (py_shl t 4) d = t * 16 + d.
Proof. intros. unfold py_shl. rewrite lor_add_disjoint by (change (2 ^ 4) with 16; lia). reflexivity. Qed.
Lemma shl4_mul t : py_shl t 4 = t * 16.
Proof. unfold py_shl. rewrite shiftl_mul by lia. reflexivity. Qed.

(* find an atomic boolean (no andb / orb / negb on top) inside a condition *)
Ltac atom_of b :=
  lazymatch b with
  | negb ?c => atom_of c
  | andb ?c _ => atom_of c
  | orb ?c _ => atom_of c
  | _ => b
  end.

(* decide every `if` whose condition is not a literal, atom by atom, normalising lets / tuple matches in between *)
Ltac split_ifs :=
  repeat (cbv beta iota zeta; cbn [negb andb orb];
          match goal with
          | |- context [if ?b then _ else _] =>
              lazymatch b with
              | true => fail
              | false => fail
              | _ => let a := atom_of b in
                     lazymatch a with
                     | true => fail | false => fail
                     | _ => let E := fresh "E" in destruct a eqn:E
                     end
              end
          end).

(* a leaf: equal states and outputs, field by field, up to arithmetic; contradictory case combinations by lia *)
Ltac leaf :=
  cbv beta iota zeta; cbn [negb andb orb];
  first
    [ reflexivity
    | exfalso; lia
    | rewrite ?lor_nib by lia; rewrite ?shl4_mul;
      repeat match goal with
             | |- @eq (_ * _)%type (_, _) (_, _) => f_equal
             | |- @eq CMDRequest_state _ _ => f_equal
             | |- @eq CMDRequest_out _ _ => f_equal
             | |- @eq CMDResponse_state _ _ => f_equal
             | |- @eq CMDResponse_out _ _ => f_equal
             | |- @eq (option Z) (Some _) (Some _) => f_equal
             end;
      first [ reflexivity | lia | f_equal; lia ] ].

Lemma CMDRequest_clock_ref W st v ch : rq_clock W st v ch = req_ref W st v ch.
Proof.
  destruct st as [s ct nc t]. destruct W as [wr wii wvi wio wsi wsv wso wck wsr].
  unfold rq_clock, CMDRequest_clock, req_ref, mk_rq_st, mk_rq_out, py_truth.
  rewrite !Wire_prepare_trunc.
  cbn [CMDRequest_s_state CMDRequest_s_cur_type CMDRequest_s_new_c CMDRequest_s_temp
       ww_ready ww_index_in ww_v_in ww_index_out ww_set_index_in ww_set_v_in ww_set_index_out ww_clk_pulse ww_start_resp].
  split_ifs; leaf.
Qed.

Lemma CMDResponse_clock_ref wvalid wv st vin size start ready :
  CMDResponse_clock wvalid wv st vin size start ready = resp_ref wvalid wv st vin size start ready.
Proof.
  destruct st as [s t ts a].
  unfold CMDResponse_clock, resp_ref, mk_rs_st, mk_rs_out, py_truth.
  rewrite !Wire_prepare_trunc.
  cbn [CMDResponse_s_state CMDResponse_s_temp CMDResponse_s_temp_size CMDResponse_s_aux].
  split_ifs; leaf.
Qed.
