(* C20 — the REGENERATED step functions (Gen/Seq.v) equal the hand-written reference functions of Model/Cmd.v.
   These two lemmas are the only place that looks inside the generated definitions: every other proof uses
   req_ref / resp_ref.  A change of CMDRequest.clock / CMDResponse.clock in /repo that alters behaviour breaks them. *)
From V Require Import Base.Bits Gen.WireOps Gen.Seq Spec.C20 Model.Cmd.

Lemma Wire_prepare_trunc w v : Wire_prepare w v = trunc w v.
Proof. reflexivity. Qed.

(* decide every `if` whose condition is not a literal, normalising lets and tuple matches in between *)
Ltac split_ifs :=
  repeat (cbv beta iota zeta;
          match goal with
          | |- context [if ?b then _ else _] =>
              lazymatch b with true => fail | false => fail | _ => destruct b end
          end).

Lemma CMDRequest_clock_ref W st v ch : rq_clock W st v ch = req_ref W st v ch.
Proof.
  destruct st as [s ct nc t]. destruct W as [wr wii wvi wio wsi wsv wso wck wsr].
  unfold rq_clock, CMDRequest_clock, req_ref, mk_rq_st, mk_rq_out.
  rewrite !Wire_prepare_trunc.
  cbn [CMDRequest_s_state CMDRequest_s_cur_type CMDRequest_s_new_c CMDRequest_s_temp
       ww_ready ww_index_in ww_v_in ww_index_out ww_set_index_in ww_set_v_in ww_set_index_out ww_clk_pulse ww_start_resp].
  split_ifs; reflexivity.
Qed.

Lemma CMDResponse_clock_ref wvalid wv st vin size start ready :
  CMDResponse_clock wvalid wv st vin size start ready = resp_ref wvalid wv st vin size start ready.
Proof.
  destruct st as [s t ts a].
  unfold CMDResponse_clock, resp_ref, mk_rs_st, mk_rs_out.
  rewrite !Wire_prepare_trunc.
  cbn [CMDResponse_s_state CMDResponse_s_temp CMDResponse_s_temp_size CMDResponse_s_aux].
  split_ifs; reflexivity.
Qed.
