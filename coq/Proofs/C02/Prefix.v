(* C02 — histories that LEAVE the domain.  C02_block_sound / C02_comb_block_sound assume the whole stimulus stays in the
   domain (py_sim g_dom ... = (tr, true)).  For ANY stimulus py_sim g_dom returns the trajectory up to (not including)
   the first step at which Python's semantics under the guard is undefined, and the flag tells whether the end was reached.
   Here: the Verilog trajectory of a validated block starts with exactly those rows — the two sides agree on the longest
   in-domain prefix of every history; nothing is claimed from the first out-of-domain step on.
   Same induction as run_sound / run_c, with the accumulated settle flag generalised. *)
From V Require Import Base.Bits Model.VSyntax Model.VSem Model.PySyntax Model.PySem Model.Tv Spec.C02
  Proofs.C02.Arith Proofs.C02.Expr Proofs.C02.Stmt Proofs.C02.Block Proofs.C02.Comb.
Local Open Scope string_scope.
Local Open Scope Z_scope.

Section ClockPrefix.
Variable b : pyblock.
Variable f : flat.
Variables (c : nat) (ini body : rstmt).
Hypothesis Hk : b_kind b = KClock.
Hypothesis F : clock_facts b f c ini body.

Lemma run_prefix ports attrs : obs_ok b f ports attrs -> forall steps st env ok0 tr ok, binv b f st env -> pokes_inputs b steps ->
  py_run g_dom b st steps ports attrs = (tr, ok) ->
  exists vtr vok, vrun f (Some c) env ok0 steps (resolve_names f (ports ++ attrs)) = (vtr, vok) /\ firstn (length tr) vtr = tr.
Proof.
  intros Hobs. induction steps as [| [ins n] steps IH]; intros st env ok0 tr ok Hb Hpk Hr; cbn [py_run vrun] in *.
  - inversion Hr; subst. exists [], ok0. split; reflexivity.
  - inversion Hpk as [| ? ? Hins Hrest]; subst. cbn [fst] in Hins.
    destruct (py_step g_dom b st ins n) as [st' |] eqn:Hs.
    + destruct (py_run g_dom b st' steps ports attrs) as [tr' ok'] eqn:Hr'. inversion Hr; subst tr ok.
      destruct (step_sound b f c ini body Hk F _ _ _ _ _ Hins Hb Hs) as (env' & Hv & Hb'). fold ((vins f) ins). rewrite Hv.
      destruct (IH st' env' (ok0 && true)%bool tr' ok' Hb' Hrest Hr') as (vtr & vok & Hvr & Hfn). rewrite Hvr.
      eexists. exists vok. split; [reflexivity |]. cbn [length firstn]. rewrite Hfn.
      rewrite (obs_eq b f Hk _ _ _ _ (proj1 Hb') Hobs). reflexivity.
    + inversion Hr; subst tr ok. destruct (vstep _ _ _ _ _) as [env' ok'']. destruct (vrun _ _ _ _ _ _) as [vtr vok].
      eexists. eexists. split; reflexivity.
Qed.

Theorem clock_block_prefix_sound ports attrs steps tr ok : obs_ok b f ports attrs -> pokes_inputs b steps ->
  py_sim g_dom b steps ports attrs = (tr, ok) ->
  exists vtr vok, vsim f (flat_clk f) steps (ports ++ attrs) = (vtr, vok) /\ firstn (length tr) vtr = tr.
Proof.
  intros Hobs Hpk Hs. unfold py_sim, py_start in Hs. rewrite Hk in Hs.
  destruct (py_run g_dom b (py_init b) steps ports attrs) as [tr' ok'] eqn:Hr. inversion Hs; subst tr ok.
  pose proof (powerup_sound b f (cf_ins _ _ _ _ _ F) (cf_outs _ _ _ _ _ F) (cf_pow _ _ _ _ _ F)) as Hb0.
  unfold vsim. rewrite (settle_id b f c ini body F). rewrite (cf_clk _ _ _ _ _ F).
  destruct (run_prefix _ _ Hobs _ _ _ true _ _ Hb0 Hpk Hr) as (vtr & vok & Hvr & Hfn). rewrite Hvr.
  eexists. exists vok. split; [reflexivity |]. cbn [length firstn]. rewrite Hfn.
  rewrite (obs_eq b f Hk _ _ _ _ (proj1 Hb0) Hobs). reflexivity.
Qed.
End ClockPrefix.

Section CombPrefix.
Variable b : pyblock.
Variable f : flat.
Variables (ini body : rstmt).
Hypothesis Hk : b_kind b = KPropagate.
Hypothesis F : comb_facts b f ini body.

Lemma run_c_prefix clk ports : obs_okc b f ports -> forall steps st env ok0 tr ok, cinv b f st env -> pokes_inputs b steps -> comb_steps steps ->
  py_run g_dom b st steps ports [] = (tr, ok) ->
  exists vtr vok, vrun f clk env ok0 steps (resolve_names f (ports ++ [])) = (vtr, vok) /\ firstn (length tr) vtr = tr.
Proof.
  intros Hobs. induction steps as [| [ins n] steps IH]; intros st env ok0 tr ok Hc Hpk Hn0 Hr; cbn [py_run vrun] in *.
  - inversion Hr; subst. exists [], ok0. split; reflexivity.
  - inversion Hpk as [| ? ? Hins Hrest]; subst. inversion Hn0 as [| ? ? Hn Hnrest]; subst. cbn [fst snd] in Hins, Hn. subst n.
    destruct (py_step g_dom b st ins 0) as [st' |] eqn:Hs.
    + destruct (py_run g_dom b st' steps ports []) as [tr' ok'] eqn:Hr'. inversion Hr; subst tr ok.
      destruct (step_c b f ini body Hk F clk _ _ _ _ Hins Hc Hs) as (env' & Hv & Hc'). fold (vins f ins). rewrite Hv.
      destruct (IH st' env' (ok0 && true)%bool tr' ok' Hc' Hrest Hnrest Hr') as (vtr & vok & Hvr & Hfn). rewrite Hvr.
      eexists. exists vok. split; [reflexivity |]. cbn [length firstn]. rewrite Hfn.
      rewrite (obs_eqc b f _ _ _ (proj1 (proj2 Hc')) Hobs). reflexivity.
    + inversion Hr; subst tr ok. destruct (vstep _ _ _ _ _) as [env' ok'']. destruct (vrun _ _ _ _ _ _) as [vtr vok].
      eexists. eexists. split; reflexivity.
Qed.

Theorem comb_block_prefix_sound clkname ports steps tr ok : obs_okc b f ports -> pokes_inputs b steps -> comb_steps steps ->
  py_sim g_dom b steps ports [] = (tr, ok) ->
  exists vtr vok, vsim f clkname steps (ports ++ []) = (vtr, vok) /\ firstn (length tr) vtr = tr.
Proof.
  intros Hobs Hpk Hn0 Hs. unfold py_sim, py_start in Hs. rewrite Hk in Hs.
  destruct (py_call g_dom b (py_init b)) as [st0 |] eqn:Hc0.
  - destruct (py_run g_dom b st0 steps ports []) as [tr' ok'] eqn:Hr. inversion Hs; subst tr ok.
    destruct (pass_sound b f ini body Hk F _ _ _ (powerup_c b f ini body F) Hc0) as [Hc1 Hid]. unfold vsim.
    rewrite (settle_comb b f ini body F _ Hid).
    destruct (run_c_prefix (net_index (f_nets f) clkname 0) _ Hobs _ _ _ true _ _ Hc1 Hpk Hn0 Hr) as (vtr & vok & Hvr & Hfn). rewrite Hvr.
    eexists. exists vok. split; [reflexivity |]. cbn [length firstn]. rewrite Hfn.
    rewrite (obs_eqc b f _ _ _ (proj1 (proj2 Hc1)) Hobs). reflexivity.
  - (* propagate() at construction already leaves the domain: the in-domain prefix is empty *)
    inversion Hs; subst tr ok. destruct (vsim f clkname steps (ports ++ [])) as [vtr vok]. exists vtr, vok. split; reflexivity.
Qed.
End CombPrefix.

Lemma block_prefix_sound b m : b_kind b = KClock -> tv_block b m = true ->
  exists f, elaborate [m] 200 (m_name m) = inr f /\
    forall ports attrs steps tr ok, obs_ok b f ports attrs -> pokes_inputs b steps ->
      py_sim g_dom b steps ports attrs = (tr, ok) ->
      exists vtr vok, vsim f (flat_clk f) steps (ports ++ attrs) = (vtr, vok) /\ firstn (length tr) vtr = tr.
Proof.
  intros Hk Ht. unfold tv_block in Ht. destruct (elaborate [m] 200 (m_name m)) as [e | f]; [discriminate |].
  exists f. split; [reflexivity |]. destruct (tv_flat_clock b f Hk Ht) as (c & ini & body & F).
  intros ports attrs steps tr ok. apply (clock_block_prefix_sound b f c ini body Hk F).
Qed.

Lemma comb_prefix_sound b m : b_kind b = KPropagate -> tv_block b m = true ->
  exists f, elaborate [m] 200 (m_name m) = inr f /\
    forall clkname ports steps tr ok, obs_okc b f ports -> pokes_inputs b steps -> comb_steps steps ->
      py_sim g_dom b steps ports [] = (tr, ok) ->
      exists vtr vok, vsim f clkname steps (ports ++ []) = (vtr, vok) /\ firstn (length tr) vtr = tr.
Proof.
  intros Hk Ht. unfold tv_block in Ht. destruct (elaborate [m] 200 (m_name m)) as [e | f]; [discriminate |].
  exists f. split; [reflexivity |]. destruct (tv_flat_comb b f Hk Ht) as (ini & body & F).
  intros clkname ports steps tr ok. apply (comb_block_prefix_sound b f ini body Hk F).
Qed.
