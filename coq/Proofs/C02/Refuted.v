(* C02 — refutation witnesses (vm_compute) for the silent mistranslations present at the pinned commit. *)
From V Require Import Base.PyInt Model.VSyntax Model.VSem Model.PySyntax Model.PySem Model.Tv Spec.C02.
Local Open Scope string_scope.

(* the emitted module differs from the Python method on an in-domain stimulus (and the validator rejects it) *)
Definition refutes (b : pyblock) (d : design) (top : string) (steps : stimulus) : Prop :=
  exists f m, d = [m] /\ elaborate d 200 top = inr f /\ tv_block b m = false /\
              in_domain b steps /\ pokes_inputs b steps /\ ~ agree_on b f steps (map fst (b_outs b)) (map fst (b_attrs b)).

Ltac refute :=
  eexists; eexists; split; [reflexivity |]; split; [vm_compute; reflexivity |]; split; [vm_compute; reflexivity |];
  split; [eexists; vm_compute; reflexivity |]; split;
  [repeat constructor; simpl; discriminate | vm_compute; intros [_ H]; discriminate H].

Lemma narrow_cond_refuted : refutes src_NarrowCond tgt_NarrowCond "NarrowCond" [([("a", 1); ("b", 1)], 1%nat)].
Proof. refute. Qed.

Lemma narrow_shift_refuted : refutes src_NarrowShift tgt_NarrowShift "NarrowShift" [([("a", 139); ("b", 234)], 1%nat)].
Proof. refute. Qed.

(* C02-boolop-value: repaired in /repo, switched by fixes/C02_switch.py *)

(* C02-cmp-rhs: repaired in /repo, switched by fixes/C02_switch.py *)
(* the repaired transpiler's output for the former witness class is accepted by the validator (hence correct by C02_block_sound) *)
Lemma cmp_rhs_repaired : match tgt_CmpRhs with m :: _ => tv_block src_CmpRhs m = true | [] => False end.
Proof. vm_compute. reflexivity. Qed.

(* C02-portname: repaired in /repo, switched by fixes/C02_switch.py *)
(* the repaired transpiler's output for the former witness class is accepted by the validator (hence correct by C02_block_sound) *)
Lemma portname_repaired : match tgt_PortName with m :: _ => tv_block src_PortName m = true | [] => False end.
Proof. vm_compute. reflexivity. Qed.
