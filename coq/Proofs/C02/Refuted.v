(* C02 — refutation witnesses (vm_compute) for the silent mistranslations present at the pinned commit. *)
From V Require Import Base.PyInt Model.VSyntax Model.VSem Model.PySyntax Model.PySem Model.Tv Spec.C02.
Local Open Scope string_scope.

(* the emitted module differs from the Python method on an in-domain stimulus (and the validator rejects it) *)
Definition refutes (b : pyblock) (d : design) (top : string) (steps : stimulus) : Prop :=
  exists f m, d = [m] /\ elaborate d 200 top = inr f /\ tv_block b m = false /\
              in_domain b steps /\ pokes_inputs b steps /\ ~ agree_on b f steps (map fst (b_outs b)) (map fst (b_attrs b)).

Ltac refute :=
  eexists; eexists; split; [reflexivity |]; split; [vm_compute; reflexivity |]; split; [vm_compute; reflexivity |];
  split; [eexists; vm_compute; reflexivity |]; split;
  [repeat constructor; simpl; discriminate | vm_compute; intros [_ H]; discriminate H].

Lemma narrow_cond_refuted : refutes src_NarrowCond tgt_NarrowCond "NarrowCond" [([("a", 1); ("b", 1)], 1%nat)].
Proof. refute. Qed.

Lemma narrow_shift_refuted : refutes src_NarrowShift tgt_NarrowShift "NarrowShift" [([("a", 139); ("b", 234)], 1%nat)].
Proof. refute. Qed.

(* <C02-boolop-value> *)
Lemma boolop_value_refuted : refutes src_OrValue tgt_OrValue "OrValue" [([("a", 8); ("b", 14)], 1%nat)].
Proof. refute. Qed.
(* </C02-boolop-value> *)

(* <C02-cmp-rhs> *)
Lemma cmp_rhs_refuted : refutes src_CmpRhs tgt_CmpRhs "CmpRhs" [([("a", 13); ("b", 0)], 1%nat)].
Proof. refute. Qed.
(* </C02-cmp-rhs> *)

(* <C02-portname> *)
(* port named after the attribute: the text does not even elaborate (undeclared identifier), so it is rejected *)
Lemma portname_refuted :
  (exists e, elaborate tgt_PortName 200 "PortName" = inl e) /\
  match tgt_PortName with m :: _ => tv_block src_PortName m = false | [] => False end.
Proof. split; [eexists; vm_compute; reflexivity | vm_compute; reflexivity]. Qed.
(* </C02-portname> *)
