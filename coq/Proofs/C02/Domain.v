(* C02 — the domain bound.  The property grants "non-negative, at most 32 bits for local and state variables"; the theorems
   are stated for g_dom = [0, 2^31).  A Verilog `integer` is 32 bit SIGNED, so a Python value in [2^31, 2^32) is a negative
   integer on the Verilog side: signed `/`, `%`, comparisons and widening assignments then differ from Python.  Witness below
   (source term and target text are the REAL transpiler's output for the class in the comment, dumped as in Spec/C02.v):
   block soundness with the guard widened to [0, 2^32) is FALSE, so 2^31 cannot be relaxed.
   The same blocks are the non-vacuity examples of the prefix theorems (Proofs/C02/Prefix.v): their stimuli leave g_dom. *)
From V Require Import Base.Bits Model.VSyntax Model.VSem Model.PySyntax Model.PySem Model.Tv Spec.C02
  Proofs.C02.Arith Proofs.C02.Expr Proofs.C02.Stmt Proofs.C02.Block Proofs.C02.Comb Proofs.C02.Main Proofs.C02.Prefix.
Local Open Scope string_scope.
Local Open Scope Z_scope.

Definition g_32 (v : Z) : bool := (0 <=? v) && (v <? 2 ^ 32).

(* C02_block_sound with an arbitrary guard in place of g_dom *)
Definition block_sound_for (g : Z -> bool) : Prop := forall b m, b_kind b = KClock -> tv_block b m = true ->
  exists f, elaborate [m] 200 (m_name m) = inr f /\
    forall ports attrs steps tr, obs_ok b f ports attrs -> pokes_inputs b steps ->
      py_sim g b steps ports attrs = (tr, true) -> vsim f (flat_clk f) steps (ports ++ attrs) = (tr, true).

Lemma block_sound_for_dom : block_sound_for g_dom.
Proof. exact block_sound. Qed.

(* class Wide32(Logic):   ports a:16, b:1 in, o:32 out;  __init__: self.s = 1
       def clock(self):
           self.s = self.s * self.a.get()
           self.o.prepare(self.s // 3)
   emitted:  integer s;  initial s=1;  always @(posedge clk) begin s=s*a; o<=s/3; end *)
Definition src_Wide32 : pyblock :=
  {| b_kind := KClock; b_ins := [("a", 16); ("b", 1)]; b_outs := [("o", 32)]; b_attrs := [("s", 1)];
   b_body := (PSSeq (PSAttr "s" (PBin PMul (PAttr "s") (PGet "a"))) (PSPrepare "o" (PBin PFloorDiv (PAttr "s") (PConst 3)))) |}.
Definition mod_Wide32 : vmodule :=
  {| m_name := "Wide32"; m_params := []; m_ports := [{| p_dir := DIn; p_reg := false; p_width := 1; p_name := "clk" |}; {| p_dir := DIn; p_reg := false; p_width := 16; p_name := "a" |}; {| p_dir := DIn; p_reg := false; p_width := 1; p_name := "b" |}; {| p_dir := DOut; p_reg := true; p_width := 32; p_name := "o" |}];
     m_items := [
      IInteger "s";
      IInitial (SBlk (LId "s") (ENum 1));
      IAlways (EvPos "clk") (SSeq (SBlk (LId "s") (EBin BMul (EId "s") (EId "a"))) (SNba (LId "o") (EBin BDiv (EId "s") (ENum 3))))] |}.
(* s: 1 -> 50000 -> 2 500 000 000  (in [2^31, 2^32)) *)
Definition wide_steps : stimulus := [([("a", 50000); ("b", 0)], 1%nat); ([("a", 50000); ("b", 0)], 1%nat)].
Definition wide_py_trace : list (list Z) := [[0; 1]; [16666; 50000]; [833333333; 2500000000]].
Definition wide_v_trace : list (list Z) := [[0; 1]; [16666; 50000]; [3696644864; 2500000000]].

Lemma wide_validated : tv_block src_Wide32 mod_Wide32 = true.
Proof. vm_compute. reflexivity. Qed.

Lemma wide_obs f : elaborate [mod_Wide32] 200 "Wide32" = inr f -> obs_ok src_Wide32 f ["o"] ["s"].
Proof.
  intros H. vm_compute in H. inversion H; subst f. split; repeat constructor; try (vm_compute; reflexivity); vm_compute; discriminate.
Qed.

Lemma wide_pokes : pokes_inputs src_Wide32 wide_steps.
Proof. repeat constructor; simpl; discriminate. Qed.

(* every guarded value is non-negative and has at most 32 bits; it is also Python's own trajectory (g_all) and the real simulator's *)
Lemma wide_in_32 : py_sim g_32 src_Wide32 wide_steps ["o"] ["s"] = (wide_py_trace, true) /\
                   py_sim g_all src_Wide32 wide_steps ["o"] ["s"] = (wide_py_trace, true).
Proof. split; vm_compute; reflexivity. Qed.

(* under g_dom the history is cut before the step at which s reaches 2^31 *)
Lemma wide_dom_prefix : py_sim g_dom src_Wide32 wide_steps ["o"] ["s"] = ([[0; 1]; [16666; 50000]], false).
Proof. vm_compute. reflexivity. Qed.

Lemma wide_verilog f : elaborate [mod_Wide32] 200 "Wide32" = inr f -> vsim f (flat_clk f) wide_steps (["o"] ++ ["s"]) = (wide_v_trace, true).
Proof. intros H. vm_compute in H. inversion H; subst f. vm_compute. reflexivity. Qed.

(* the witness, spelled out: accepted by the validator, all values within 32 bits, o = 833333333 in Python and 3696644864
   (= 2^32 - 598322432: signed division of the negative integer) in Verilog *)
Lemma wide_witness : exists f,
  elaborate [mod_Wide32] 200 (m_name mod_Wide32) = inr f /\ tv_block src_Wide32 mod_Wide32 = true /\
  obs_ok src_Wide32 f ["o"] ["s"] /\ pokes_inputs src_Wide32 wide_steps /\
  py_sim g_32 src_Wide32 wide_steps ["o"] ["s"] = (wide_py_trace, true) /\
  py_sim g_all src_Wide32 wide_steps ["o"] ["s"] = (wide_py_trace, true) /\
  vsim f (flat_clk f) wide_steps (["o"] ++ ["s"]) = (wide_v_trace, true) /\
  wide_v_trace <> wide_py_trace.
Proof.
  destruct (elaborate [mod_Wide32] 200 (m_name mod_Wide32)) as [e | f] eqn:He; [vm_compute in He; discriminate |].
  exists f. split; [reflexivity |]. split; [exact wide_validated |]. split; [exact (wide_obs f He) |]. split; [exact wide_pokes |].
  split; [exact (proj1 wide_in_32) |]. split; [exact (proj2 wide_in_32) |]. split; [exact (wide_verilog f He) |].
  vm_compute. intros H. discriminate H.
Qed.

Theorem domain_31_tight : ~ block_sound_for g_32.
Proof.
  intros H. destruct (H src_Wide32 mod_Wide32 eq_refl wide_validated) as (f & He & Hall).
  pose proof (Hall ["o"] ["s"] wide_steps wide_py_trace (wide_obs f He) wide_pokes (proj1 wide_in_32)) as Hv.
  rewrite (wide_verilog f He) in Hv. vm_compute in Hv. discriminate Hv.
Qed.

(* ---------------------------------------------------------------- non-vacuity of the prefix theorems *)
(* clock block: hypotheses of C02_block_prefix_sound hold for Wide32 with a history that leaves the domain (ok = false, two rows
   in the prefix); the Verilog trajectory starts with those two rows and then differs from Python's: nothing can be claimed
   beyond the prefix *)
Lemma wide_prefix_example : exists f,
  elaborate [mod_Wide32] 200 (m_name mod_Wide32) = inr f /\ b_kind src_Wide32 = KClock /\ tv_block src_Wide32 mod_Wide32 = true /\
  obs_ok src_Wide32 f ["o"] ["s"] /\ pokes_inputs src_Wide32 wide_steps /\
  py_sim g_dom src_Wide32 wide_steps ["o"] ["s"] = ([[0; 1]; [16666; 50000]], false) /\
  vsim f (flat_clk f) wide_steps (["o"] ++ ["s"]) = ([[0; 1]; [16666; 50000]; [3696644864; 2500000000]], true).
Proof.
  destruct (elaborate [mod_Wide32] 200 (m_name mod_Wide32)) as [e | f] eqn:He; [vm_compute in He; discriminate |].
  exists f. split; [reflexivity |]. split; [reflexivity |]. split; [exact wide_validated |]. split; [exact (wide_obs f He) |].
  split; [exact wide_pokes |]. split; [exact wide_dom_prefix |]. exact (wide_verilog f He).
Qed.

(* class CombWide(Logic):   ports a:32, b:1 in, o:8 out
       def propagate(self):
           t = self.a.get() * 2
           if t > 9: self.o.put(t + self.b.get())
           else:     self.o.put(t)
   emitted:  integer t;  always @* begin t=a*2; if (t>9) begin o<=t+b; end else begin o<=t; end end *)
Definition src_CombWide : pyblock :=
  {| b_kind := KPropagate; b_ins := [("a", 32); ("b", 1)]; b_outs := [("o", 8)]; b_attrs := [];
   b_body := (PSSeq (PSLocal "t" (PBin PMul (PGet "a") (PConst 2))) (PSIf (PCmp PGt (PLocal "t") (PConst 9)) (PSPut "o" (PBin PAdd (PLocal "t") (PGet "b"))) (PSPut "o" (PLocal "t")))) |}.
Definition mod_CombWide : vmodule :=
  {| m_name := "CombWide"; m_params := []; m_ports := [{| p_dir := DIn; p_reg := false; p_width := 32; p_name := "a" |}; {| p_dir := DIn; p_reg := false; p_width := 1; p_name := "b" |}; {| p_dir := DOut; p_reg := true; p_width := 8; p_name := "o" |}];
     m_items := [
      IInteger "t";
      IInitial SSkip;
      IAlways EvStar (SSeq (SBlk (LId "t") (EBin BMul (EId "a") (ENum 2))) (SIf (EBin BGt (EId "t") (ENum 9)) (SNba (LId "o") (EBin BAdd (EId "t") (EId "b"))) (SNba (LId "o") (EId "t"))))] |}.
(* second step: t = 2^32 + 6 leaves the domain (Python: o = 7; Verilog: t wraps to 6, o = 6) *)
Definition combwide_steps : stimulus := [([("a", 5); ("b", 1)], 0%nat); ([("a", 2147483651); ("b", 1)], 0%nat); ([("a", 2); ("b", 1)], 0%nat)].

Lemma combwide_prefix_example : exists f,
  elaborate [mod_CombWide] 200 (m_name mod_CombWide) = inr f /\ b_kind src_CombWide = KPropagate /\ tv_block src_CombWide mod_CombWide = true /\
  obs_okc src_CombWide f ["o"] /\ pokes_inputs src_CombWide combwide_steps /\ comb_steps combwide_steps /\
  py_sim g_dom src_CombWide combwide_steps ["o"] [] = ([[0]; [11]], false) /\
  py_sim g_all src_CombWide combwide_steps ["o"] [] = ([[0]; [11]; [7]; [4]], true) /\
  vsim f "" combwide_steps (["o"] ++ []) = ([[0]; [11]; [6]; [4]], true).
Proof.
  destruct (elaborate [mod_CombWide] 200 (m_name mod_CombWide)) as [e | f] eqn:He; [vm_compute in He; discriminate |].
  exists f. split; [reflexivity |]. split; [reflexivity |]. split; [vm_compute; reflexivity |].
  vm_compute in He. inversion He; subst f.
  split; [repeat constructor; try (vm_compute; reflexivity); vm_compute; discriminate |].
  split; [repeat constructor; simpl; discriminate |]. split; [repeat constructor |].
  split; [vm_compute; reflexivity |]. split; vm_compute; reflexivity.
Qed.
