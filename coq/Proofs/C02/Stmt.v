(* C02 — soundness of the statement validator for clock() bodies: executing the Verilog statement (blocking writes
   immediate, non-blocking ones queued) keeps the simulation relation with Python's execution of the source statement
   (attribute / local updates immediate, prepares appended to the pending list). *)
From V Require Import Base.Bits Model.VSyntax Model.VSem Model.PySyntax Model.PySem Model.Tv Proofs.C02.Arith Proofs.C02.Expr.
Local Open Scope Z_scope.

(* ---------------------------------------------------------------- lists, nets *)
Lemma length_set_nth {A} (l : list A) i v : length (set_nth l i v) = length l.
Proof. revert i. induction l as [| a l IH]; intros [| i]; simpl; auto. Qed.

Lemma getv_set_same env i v : (i < length env)%nat -> getv (set_nth env i v) i = v.
Proof. unfold getv. revert i. induction env as [| a l IH]; intros [| i] H; simpl in *; try lia; auto. apply IH. lia. Qed.

Lemma getv_set_other env i j v : i <> j -> getv (set_nth env i v) j = getv env j.
Proof. unfold getv. revert i j. induction env as [| a l IH]; intros [| i] [| j] H; simpl; auto; try congruence. Qed.

Lemma net_index_spec nets x : forall k i, net_index nets x k = Some i -> exists n, nth_error nets (i - k) = Some n /\ fn_name n = x /\ (k <= i)%nat.
Proof.
  induction nets as [| n nets IH]; intros k i H; simpl in H; [discriminate |].
  destruct (String.eqb (fn_name n) x) eqn:He.
  - inversion H; subst. exists n. rewrite Nat.sub_diag. simpl. apply String.eqb_eq in He. auto.
  - destruct (IH (S k) i H) as (m & Hn & Hm & Hle). exists m. replace (i - k)%nat with (S (i - S k)) by lia. simpl. repeat split; auto. lia.
Qed.

Lemma net_index_inj nets a b i : net_index nets a 0 = Some i -> net_index nets b 0 = Some i -> a = b.
Proof.
  intros Ha Hb. apply net_index_spec in Ha as (n & Hn & Hna & _). apply net_index_spec in Hb as (m & Hm & Hmb & _).
  rewrite Hn in Hm. inversion Hm. subst. reflexivity.
Qed.

Lemma net_index_lt nets x i : net_index nets x 0 = Some i -> (i < length nets)%nat.
Proof. intros H. apply net_index_spec in H as (n & Hn & _). rewrite Nat.sub_0_r in Hn. apply nth_error_Some. congruence. Qed.

Lemma net_is_full nets i x w sg : net_is nets i x w sg = true ->
  net_index nets x 0 = Some i /\ 0 < w /\ exists n, nth_error nets i = Some n /\ fn_width n = w.
Proof.
  unfold net_is. destruct (net_index nets x 0) as [j |]; [| discriminate]. destruct (nth_error nets i) as [n |]; [| discriminate].
  intros H. apply andb_prop in H as [H Hw]. apply andb_prop in H as [H _]. apply andb_prop in H as [Hij Hfw].
  apply Nat.eqb_eq in Hij. subst. split; [reflexivity | split; [lia |]]. exists n. split; [reflexivity | lia].
Qed.

(* ---------------------------------------------------------------- environments *)
Definition env_wf (nets : list fnet) (env : list Z) : Prop :=
  length env = length nets /\ forall i n, nth_error nets i = Some n -> 0 <= getv env i < 2 ^ fn_width n.

Lemma write_full env i w v : 0 <= w -> 0 <= getv env i < 2 ^ w -> write env (i, 0, w) v = set_nth env i (v mod 2 ^ w).
Proof.
  intros Hw Hold. unfold write, vtrunc. rewrite Z.shiftr_0_r, !Z.shiftl_0_r. rewrite (Z.mod_small (getv env i)) by exact Hold.
  f_equal. lia.
Qed.

Lemma env_wf_set nets env i n v : env_wf nets env -> nth_error nets i = Some n -> 0 <= v < 2 ^ fn_width n -> env_wf nets (set_nth env i v).
Proof.
  intros [Hl Hr] Hn Hv. split; [rewrite length_set_nth; exact Hl |]. intros j m Hm.
  destruct (Nat.eq_dec i j) as [-> | Hne].
  - rewrite getv_set_same. { rewrite Hn in Hm. inversion Hm; subst. exact Hv. } rewrite Hl. apply nth_error_Some. congruence.
  - rewrite getv_set_other by exact Hne. apply Hr. exact Hm.
Qed.

Lemma assoc_app_l l1 l2 x v : assoc l1 x = Some v -> assoc (l1 ++ l2) x = Some v.
Proof. induction l1 as [| [y w] l IH]; simpl; [discriminate |]. destruct (String.eqb x y); auto. Qed.
Lemma assoc_app_some l1 l2 x v : assoc l2 x = Some v -> assoc (l1 ++ l2) x <> None.
Proof. induction l1 as [| [y w] l IH]; simpl; [congruence |]. destruct (String.eqb x y); [congruence | auto]. Qed.

Lemma upd_same s x v : upd s x v x = v.
Proof. unfold upd. rewrite String.eqb_refl. reflexivity. Qed.
Lemma upd_other s x y v : y <> x -> upd s x v y = s y.
Proof. unfold upd. intros H. apply String.eqb_neq in H. rewrite H. reflexivity. Qed.
Lemma lupd_same s x v : lupd s x v x = Some v.
Proof. unfold lupd. rewrite String.eqb_refl. reflexivity. Qed.
Lemma lupd_other s x y v : y <> x -> lupd s x v y = s y.
Proof. unfold lupd. intros H. apply String.eqb_neq in H. rewrite H. reflexivity. Qed.

Lemma is_var_spec E x : is_var E x = true -> is_attr E x = true /\ assoc (tv_consts E) x = None.
Proof. unfold is_var, is_const. intros H. apply andb_prop in H as [Ha Hc]. split; [exact Ha |]. destruct (assoc (tv_consts E) x); [discriminate | reflexivity]. Qed.

Lemma localname_spec E x : is_localname E x = true -> is_port E x = false /\ is_attr E x = false.
Proof. unfold is_localname. intros H. apply andb_prop in H as [Hp Ha]. apply negb_true_iff in Hp, Ha. auto. Qed.

Lemma readable_port E p : is_readable E p = true -> is_port E p = true.
Proof.
  unfold is_readable, is_port. destruct (tv_kind E); [auto |]. destruct (assoc (tv_ins E) p) as [w |] eqn:Ha; [| discriminate].
  intros _. rewrite (assoc_app_l _ (tv_outs E) _ _ Ha). reflexivity.
Qed.

(* ---------------------------------------------------------------- the three kinds of update keep `rel` *)
Section Updates.
Variable E : tvenv.

Lemma rel_set_attr st env x i v :
  rel E st env -> env_wf (tv_nets E) env -> is_var E x = true -> is_port E x = false -> net_index (tv_nets E) x 0 = Some i -> g_dom v = true ->
  rel E (set_attrs st (upd (ps_attrs st) x v)) (set_nth env i v).
Proof.
  intros R [Hl _] Hvar Hnp Hi Hd. apply is_var_spec in Hvar as [Hattr Hnc]. pose proof (net_index_lt _ _ _ Hi) as Hlt.
  constructor; cbn [ps_wires ps_attrs ps_locals set_attrs].
  - intros p j Hp Hj. assert (x <> p) by (intros ->; apply readable_port in Hp; congruence).
    rewrite getv_set_other. { apply (r_port _ _ _ R); assumption. } intros ->. apply H. eapply net_index_inj; eassumption.
  - intros y j Hy Hyp Hj. destruct (String.eqb_spec y x) as [-> | Hne].
    + rewrite Hi in Hj. inversion Hj; subst j. rewrite getv_set_same by lia. rewrite upd_same. auto.
    + rewrite upd_other by exact Hne. rewrite getv_set_other. { apply (r_attr _ _ _ R); assumption. } intros ->. apply Hne. eapply net_index_inj; eassumption.
  - intros y j u Hy Hj Hu. assert (x <> y) by (intros ->; apply localname_spec in Hy; destruct Hy; congruence).
    rewrite getv_set_other. { eapply (r_local _ _ _ R); eassumption. } intros ->. apply H. eapply net_index_inj; eassumption.
  - intros y c Hc. assert (y <> x) by (intros ->; congruence). rewrite upd_other by exact H. apply (r_const _ _ _ R). exact Hc.
Qed.

Lemma rel_set_local st env x i v :
  rel E st env -> env_wf (tv_nets E) env -> is_localname E x = true -> net_index (tv_nets E) x 0 = Some i -> g_dom v = true ->
  rel E (set_locals st (lupd (ps_locals st) x v)) (set_nth env i v).
Proof.
  intros R [Hl _] Hloc Hi Hd. apply localname_spec in Hloc as [Hnp Hna]. pose proof (net_index_lt _ _ _ Hi) as Hlt.
  constructor; cbn [ps_wires ps_attrs ps_locals set_locals].
  - intros p j Hp Hj. assert (x <> p) by (intros ->; apply readable_port in Hp; congruence).
    rewrite getv_set_other. { apply (r_port _ _ _ R); assumption. } intros ->. apply H. eapply net_index_inj; eassumption.
  - intros y j Hy Hyp Hj. assert (x <> y) by (intros ->; congruence).
    rewrite getv_set_other. { apply (r_attr _ _ _ R); assumption. } intros ->. apply H. eapply net_index_inj; eassumption.
  - intros y j u Hy Hj Hu. destruct (String.eqb_spec y x) as [-> | Hne].
    + rewrite lupd_same in Hu. inversion Hu; subst u. rewrite Hi in Hj. inversion Hj; subst j. rewrite getv_set_same by lia. auto.
    + rewrite lupd_other in Hu by exact Hne. rewrite getv_set_other. { eapply (r_local _ _ _ R); eassumption. } intros ->. apply Hne. eapply net_index_inj; eassumption.
  - intros y c Hc. apply (r_const _ _ _ R). exact Hc.
Qed.

Lemma rel_set_wire st env p i v :
  rel E st env -> env_wf (tv_nets E) env -> is_port E p = true -> net_index (tv_nets E) p 0 = Some i ->
  0 <= v < 2 ^ width_in (tv_ins E ++ tv_outs E) p ->
  rel E (set_wires st (upd (ps_wires st) p v)) (set_nth env i v).
Proof.
  intros R [Hl _] Hp Hi Hv. pose proof (net_index_lt _ _ _ Hi) as Hlt.
  constructor; cbn [ps_wires ps_attrs ps_locals set_wires].
  - intros q j Hq Hj. destruct (String.eqb_spec q p) as [-> | Hne].
    + rewrite Hi in Hj. inversion Hj; subst j. rewrite getv_set_same by lia. rewrite upd_same. auto.
    + rewrite upd_other by exact Hne. rewrite getv_set_other. { apply (r_port _ _ _ R); assumption. } intros ->. apply Hne. eapply net_index_inj; eassumption.
  - intros y j Hy Hyp Hj. assert (p <> y) by (intros ->; congruence).
    rewrite getv_set_other. { apply (r_attr _ _ _ R); assumption. } intros ->. apply H. eapply net_index_inj; eassumption.
  - intros y j u Hy Hj Hu. assert (p <> y) by (intros ->; apply localname_spec in Hy; destruct Hy; congruence).
    rewrite getv_set_other. { eapply (r_local _ _ _ R); eassumption. } intros ->. apply H. eapply net_index_inj; eassumption.
  - intros y c Hc. apply (r_const _ _ _ R). exact Hc.
Qed.
End Updates.

(* ---------------------------------------------------------------- statements *)
Definition pend_rel (E : tvenv) (t : target * Z) (p : string * Z) : Prop :=
  exists i w n, fst t = (i, 0, w) /\ snd t = snd p /\ net_index (tv_nets E) (fst p) 0 = Some i /\ nth_error (tv_nets E) i = Some n /\ fn_width n = w /\
                0 < w /\ 0 <= snd p < 2 ^ w /\ is_port E (fst p) = true /\ width_in (tv_ins E ++ tv_outs E) (fst p) = w.

Definition sinv (E : tvenv) (st : pystate) (s : list Z * list (target * Z)) : Prop :=
  rel E st (fst s) /\ env_wf (tv_nets E) (fst s) /\ Forall2 (pend_rel E) (snd s) (ps_pend st).

Section Stmt.
Variable E : tvenv.

Lemma rhs_sound st env lw e re v :
  rel E st env -> tv_rhs E lw e re = true -> pyev g_dom st e = Some v -> 1 <= lw ->
  vtrunc lw (reval env (Z.max lw (rsize re)) (rsigned re) re) = v mod 2 ^ lw.
Proof.
  intros R Ht Hev Hlw. unfold tv_rhs in Ht. destruct (tv_sound E st env R e re) as [Hv _].
  destruct (Hv _ _ v Ht Hev ltac:(lia) (fun h => h)) as (Hr & _ & _). rewrite Hr. unfold vtrunc. apply mod_mod_le. lia.
Qed.

Lemma cond_branch st env c rc vc :
  rel E st env -> tv_cond E c rc = true -> guard g_dom (pyev g_dom st c) = Some vc -> (rself env rc =? 0) = (vc =? 0).
Proof.
  intros R Ht Hg. apply guard_some in Hg as [Hev Hd]. destruct (tv_sound E st env R c rc) as [_ Hc]. exact (Hc 0 false vc Ht Hev Hd).
Qed.

Lemma case_const subj k rc : tv E true 0 false (PCmp PEq subj (PConst k)) rc = true -> g_dom k = true.
Proof.
  intros H. destruct rc as [| | | | | | o' ra rb | | | |]; cbn [tv negb orb andb] in H; rewrite ?andb_false_r in H; try discriminate.
  cbn zeta in H. apply andb_prop in H as [_ H]. apply andb_prop in H as [H _]. apply andb_prop in H as [H _]. apply andb_prop in H as [_ H].
  destruct rb; cbn [tv negb orb andb] in H; try discriminate. apply andb_prop in H as [_ H]. apply g_dom_spec. apply in31_spec. exact H.
Qed.

Lemma stmt_sound : tv_kind E = KClock -> forall ps rs st s st',
  tv_stmt E ps rs = true -> sinv E st s -> pyexec g_dom (tv_outs E) ps st = Some st' -> sinv E st' (exec rs s).
Proof.
  intros Hk. induction ps as [| a IHa b IHb | c t IHt e IHe | subj k body IHb rest IHr | x e | x e | p e | p e | w];
    intros rs st s st' Ht Hinv Hex; destruct rs as [| ra rb | rc rt re | l re | l re]; cbn [tv_stmt] in Ht; try discriminate; cbn [pyexec] in Hex.
  - inversion Hex; subst. exact Hinv.
  - apply andb_prop in Ht as [Hta Htb]. apply obind_some in Hex as (st1 & Hex1 & Hex2). cbn [exec].
    eapply IHb; [exact Htb | | exact Hex2]. eapply IHa; eassumption.
  - apply andb_prop in Ht as [Ht Hte]. apply andb_prop in Ht as [Htc Htt]. apply obind_some in Hex as (vc & Hg & Hex).
    pose proof (proj1 Hinv) as R. cbn [exec]. rewrite (cond_branch _ _ _ _ _ R Htc Hg).
    destruct (vc =? 0); [eapply IHe | eapply IHt]; eassumption.
  - apply andb_prop in Ht as [Ht Htr]. apply andb_prop in Ht as [Htc Htb]. apply obind_some in Hex as (vs & Hg & Hex).
    pose proof (proj1 Hinv) as R. cbn [exec]. pose proof (case_const _ _ _ Htc) as Hdk.
    assert (Hgc : guard g_dom (pyev g_dom st (PCmp PEq subj (PConst k))) = Some (b2z (vs =? k))).
    { cbn [pyev]. rewrite Hg. cbn [obind guard]. rewrite Hdk. cbn [obind cmp_fun]. unfold guard, obind. destruct (vs =? k); reflexivity. }
    rewrite (cond_branch _ _ _ _ _ R Htc Hgc).
    destruct (vs =? k); cbn [b2z Z.eqb]; [eapply IHb | eapply IHr]; eassumption.
  - (* self.x = e *)
    destruct l as [i w | |]; try discriminate. apply andb_prop in Ht as [Ht Hrhs]. apply andb_prop in Ht as [Ht Hw]. apply andb_prop in Ht as [Ht Hn].
    apply andb_prop in Ht as [Hvar Hnp]. apply Z.eqb_eq in Hw. subst w. apply negb_true_iff in Hnp. apply net_is_full in Hn as (Hi & _ & n & Hnth & Hfw).
    apply obind_some in Hex as (v & Hg & Hex). inversion Hex; subst st'. apply guard_some in Hg as [Hev Hd].
    destruct Hinv as (R & Hwf & Hq). destruct s as [env q]. cbn [fst snd] in *. cbn [exec ltarget fst snd]. unfold assign_value. cbn [lwidth].
    rewrite (rhs_sound _ _ _ _ _ _ R Hrhs Hev ltac:(lia)). pose proof (proj1 (g_dom_spec v) Hd) as Hdv.
    rewrite write_full; [| lia | rewrite <- Hfw; apply (proj2 Hwf); exact Hnth]. rewrite Z.mod_mod by (apply pow2_nz; lia).
    change (2 ^ 32) with 4294967296. rewrite Z.mod_small by lia.
    split; [| split]; cbn [fst snd].
    + apply rel_set_attr; assumption.
    + apply (env_wf_set _ _ _ n); [assumption | assumption |]. rewrite Hfw. change (2 ^ 32) with 4294967296. lia.
    + exact Hq.
  - (* x = e *)
    destruct l as [i w | |]; try discriminate. apply andb_prop in Ht as [Ht Hrhs]. apply andb_prop in Ht as [Ht Hw]. apply andb_prop in Ht as [Hloc Hn].
    apply Z.eqb_eq in Hw. subst w. apply net_is_full in Hn as (Hi & _ & n & Hnth & Hfw).
    apply obind_some in Hex as (v & Hg & Hex). inversion Hex; subst st'. apply guard_some in Hg as [Hev Hd].
    destruct Hinv as (R & Hwf & Hq). destruct s as [env q]. cbn [fst snd] in *. cbn [exec ltarget fst snd]. unfold assign_value. cbn [lwidth].
    rewrite (rhs_sound _ _ _ _ _ _ R Hrhs Hev ltac:(lia)). pose proof (proj1 (g_dom_spec v) Hd) as Hdv.
    rewrite write_full; [| lia | rewrite <- Hfw; apply (proj2 Hwf); exact Hnth]. rewrite Z.mod_mod by (apply pow2_nz; lia).
    change (2 ^ 32) with 4294967296. rewrite Z.mod_small by lia.
    split; [| split]; cbn [fst snd].
    + apply rel_set_local; assumption.
    + apply (env_wf_set _ _ _ n); [assumption | assumption |]. rewrite Hfw. change (2 ^ 32) with 4294967296. lia.
    + exact Hq.
  - (* self.p.prepare(e) *)
    destruct l as [i w | |]; try discriminate. apply andb_prop in Ht as [Ht Hrhs]. apply andb_prop in Ht as [Ht Hn]. apply andb_prop in Ht as [Ht Hww].
    apply andb_prop in Ht as [_ Ho]. destruct (assoc (tv_outs E) p) as [w' |] eqn:Hao; [| discriminate]. apply Z.eqb_eq in Ho. subst w'. apply Z.eqb_eq in Hww.
    apply net_is_full in Hn as (Hi & Hpos & n & Hnth & Hfw).
    apply obind_some in Hex as (v & Hev & Hex). inversion Hex; subst st'.
    destruct Hinv as (R & Hwf & Hq). destruct s as [env q]. cbn [fst snd] in *. cbn [exec ltarget fst snd]. unfold assign_value. cbn [lwidth].
    rewrite (rhs_sound _ _ _ _ _ _ R Hrhs Hev ltac:(lia)).
    split; [| split]; cbn [fst snd ps_pend set_pend].
    + destruct R as [R1 R2 R3 R4]. constructor; assumption.
    + exact Hwf.
    + apply Forall2_app; [exact Hq |]. constructor; [| constructor].
      exists i, w, n. cbn [fst snd]. replace (width_in (tv_outs E) p) with w by (unfold width_in; rewrite Hao; reflexivity).
      split; [reflexivity |]. split; [reflexivity |]. split; [exact Hi |]. split; [exact Hnth |]. split; [exact Hfw |]. split; [exact Hpos |].
      split; [apply Z.mod_pos_bound; apply pow2_pos; lia |]. split; [| exact Hww].
      unfold is_port. pose proof (assoc_app_some (tv_ins E) _ _ _ Hao). destruct (assoc (tv_ins E ++ tv_outs E) p); [reflexivity | congruence].
  - (* put in a clock body *)
    destruct l as [i w | |]; try discriminate. rewrite Hk in Ht. discriminate.
Qed.
End Stmt.
