(* C02 — the refusal clause: "a Python construct the transpiler cannot express must be refused, never silently turned
   into Verilog".  The dumper (py/props/c02_dump.py) writes every construct outside the subset as PUnsupported /
   PSUnsupported.  has_unsup finds such a node ANYWHERE in a method body; the validator accepts no module at all for a
   body that has one, whatever the emitted text is and whether or not the node is ever executed.  (Hence a text returned
   for such a method is always reported by the check; only an exception of the transpiler is a correct answer.) *)
From V Require Import Base.Bits Model.VSyntax Model.VSem Model.PySyntax Model.PySem Model.Tv Spec.C02
  Proofs.C02.Arith Proofs.C02.Expr Proofs.C02.Stmt Proofs.C02.Block Proofs.C02.Comb.
Local Open Scope string_scope.
Local Open Scope Z_scope.

Fixpoint has_unsup_expr (e : pyexpr) : bool :=
  match e with
  | PConst _ | PGet _ | PAttr _ | PLocal _ => false
  | PBin _ a b | PCmp _ a b | PBool _ a b => has_unsup_expr a || has_unsup_expr b
  | PUn _ a => has_unsup_expr a
  | PIfExp c a b => has_unsup_expr c || has_unsup_expr a || has_unsup_expr b
  | PUnsupported _ => true
  end.

Fixpoint has_unsup (s : pystmt) : bool :=
  match s with
  | PSPass => false
  | PSSeq a b => has_unsup a || has_unsup b
  | PSIf c t e => has_unsup_expr c || has_unsup t || has_unsup e
  | PSCase subj _ body rest => has_unsup_expr subj || has_unsup body || has_unsup rest
  | PSAttr _ e | PSLocal _ e | PSPrepare _ e | PSPut _ e => has_unsup_expr e
  | PSUnsupported _ => true
  end.

Ltac split_ands :=
  repeat match goal with H : (_ && _) = true |- _ => apply andb_prop in H; destruct H end.

(* an accepted expression pair has no unsupported node on the Python side (in value and in condition position) *)
Lemma tv_no_unsup E : forall pe cond W sg re, tv E cond W sg pe re = true -> has_unsup_expr pe = false.
Proof.
  induction pe as [n | p | x | x | o a IHa b IHb | o a IHa | o a IHa b IHb | o a IHa b IHb | c IHc a IHa b IHb | w];
    intros cond W sg re Ht; cbn [has_unsup_expr]; try reflexivity.
  - (* PBin *)
    destruct re; cbn [tv] in Ht; apply andb_prop in Ht as [_ Ht]; try discriminate.
    destruct (hom_op o) eqn:Hh.
    + split_ands. apply orb_false_intro; [eapply IHa | eapply IHb]; eassumption.
    + destruct o; try discriminate; match type of Ht with context [match ?o' with _ => _ end] => destruct o' end; try discriminate;
        split_ands; (apply orb_false_intro; [eapply IHa | eapply IHb]; eassumption).
  - (* PUn *)
    destruct re; destruct o; cbn [tv] in Ht; apply andb_prop in Ht as [_ Ht]; try discriminate;
      match type of Ht with context [match ?u with _ => _ end] => destruct u end; try discriminate; eapply IHa; eassumption.
  - (* PCmp *)
    destruct re; cbn [tv] in Ht; apply andb_prop in Ht as [_ Ht]; try discriminate.
    split_ands. apply orb_false_intro; [eapply IHa | eapply IHb]; eassumption.
  - (* PBool *)
    destruct re; cbn [tv] in Ht; apply andb_prop in Ht as [_ Ht]; try discriminate.
    split_ands. apply orb_false_intro; [eapply IHa | eapply IHb]; eassumption.
  - (* PIfExp *)
    destruct re; cbn [tv] in Ht; apply andb_prop in Ht as [_ Ht]; try discriminate.
    split_ands. apply orb_false_intro; [apply orb_false_intro; [eapply IHc | eapply IHa] | eapply IHb]; eassumption.
  - (* PUnsupported *)
    destruct re; cbn [tv] in Ht; apply andb_prop in Ht as [_ Ht]; discriminate.
Qed.

Lemma tv_stmt_no_unsup E : forall ps rs, tv_stmt E ps rs = true -> has_unsup ps = false.
Proof.
  induction ps as [| a IHa b IHb | c t IHt e IHe | subj k body IHb rest IHr | x e | x e | p e | p e | w];
    intros rs Ht; cbn [has_unsup]; try reflexivity.
  - destruct rs; cbn [tv_stmt] in Ht; try discriminate. split_ands. apply orb_false_intro; [eapply IHa | eapply IHb]; eassumption.
  - destruct rs; cbn [tv_stmt] in Ht; try discriminate. split_ands.
    apply orb_false_intro; [apply orb_false_intro; [eapply tv_no_unsup | eapply IHt] | eapply IHe]; unfold tv_cond in *; eassumption.
  - destruct rs; cbn [tv_stmt] in Ht; try discriminate. split_ands.
    match goal with H : tv_cond _ _ _ = true |- _ => unfold tv_cond in H; apply tv_no_unsup in H; cbn [has_unsup_expr] in H; rewrite orb_false_r in H; rename H into Hs end.
    apply orb_false_intro; [apply orb_false_intro; [exact Hs | eapply IHb] | eapply IHr]; eassumption.
  - destruct rs as [| | | l re |]; cbn [tv_stmt] in Ht; try discriminate. destruct l; try discriminate. split_ands.
    unfold tv_rhs in *. eapply tv_no_unsup; eassumption.
  - destruct rs as [| | | l re |]; cbn [tv_stmt] in Ht; try discriminate. destruct l; try discriminate. split_ands.
    unfold tv_rhs in *. eapply tv_no_unsup; eassumption.
  - destruct rs as [| | | |l re]; cbn [tv_stmt] in Ht; try discriminate. destruct l; try discriminate. split_ands.
    unfold tv_rhs in *. eapply tv_no_unsup; eassumption.
  - destruct rs as [| | | |l re]; cbn [tv_stmt] in Ht; try discriminate. destruct l; try discriminate. split_ands.
    unfold tv_rhs in *. eapply tv_no_unsup; eassumption.
  - destruct rs; cbn [tv_stmt] in Ht; discriminate.
Qed.

Lemma tv_block_no_unsup b m : tv_block b m = true -> has_unsup (b_body b) = false.
Proof.
  intros Ht. unfold tv_block in Ht. destruct (elaborate [m] 200 (m_name m)) as [e | f]; [discriminate |].
  destruct (b_kind b) eqn:Hk.
  - destruct (tv_flat_clock b f Hk Ht) as (c & ini & body & F). exact (tv_stmt_no_unsup _ _ _ (cf_stmt _ _ _ _ _ F)).
  - destruct (tv_flat_comb b f Hk Ht) as (ini & body & F). exact (tv_stmt_no_unsup _ _ _ (pf_stmt _ _ _ _ F)).
Qed.

(* the refusal clause, for clock() and propagate() blocks alike (tv_block is the one validator for both kinds) *)
Theorem unsupported_never_validated b m : has_unsup (b_body b) = true -> tv_block b m = false.
Proof.
  intros Hu. destruct (tv_block b m) eqn:Ht; [| reflexivity]. rewrite (tv_block_no_unsup b m Ht) in Hu. discriminate.
Qed.

(* Python's side of the same clause: executing an unsupported node is undefined in PySem (so the soundness theorems say
   nothing about it) — which is why the validator must reject on the SYNTAX, executed or not *)
(* non-vacuity: an unsupported node deep inside a branch that the stimulus of LastWriteWins never needs *)
Definition src_WithUnsupported : pyblock :=
  {| b_kind := KClock; b_ins := [("a", 6); ("b", 1)]; b_outs := [("o", 7)]; b_attrs := [("s", 0)];
     b_body := PSSeq (PSPrepare "o" (PGet "a"))
                (PSIf (PCmp PEq (PAttr "s") (PConst 77))
                      (PSAttr "s" (PBin PAdd (PAttr "s") (PIfExp (PGet "b") (PUnsupported "a < b < c") (PConst 1))))
                      PSPass) |}.

Lemma with_unsupported_has : has_unsup (b_body src_WithUnsupported) = true.
Proof. reflexivity. Qed.

(* the dead branch is never executed: Python's semantics of the block is defined on this history ... *)
Lemma with_unsupported_runs :
  py_sim g_dom src_WithUnsupported [([("a", 5); ("b", 1)], 2%nat)] ["o"] ["s"] = ([[0; 0]; [5; 0]], true).
Proof. vm_compute. reflexivity. Qed.

(* ... and the accepted examples have no such node (the theorem's hypothesis separates the two classes) *)
Lemma accepted_have_none : has_unsup (b_body src_LastWriteWins) = false /\ has_unsup (b_body src_MatchFsm) = false /\ has_unsup (b_body src_CombMux) = false.
Proof. repeat split. Qed.
