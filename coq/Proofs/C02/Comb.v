(* C02 — block level for combinational (propagate) blocks.  `always @*` is executed by VSem as: run the body (blocking
   writes immediate, `<=` queued), apply the queue, repeat until nothing changes.  One pass corresponds to one call of
   propagate() (puts are immediate in Python, deferred in Verilog: harmless because the body never reads an output);
   a second pass reproduces the same environment (the body only depends on input ports, constants and locals it has
   assigned itself), so the iteration stops with the stability flag set. *)
From V Require Import Base.Bits Model.VSyntax Model.VSem Model.PySyntax Model.PySem Model.Tv Spec.C02
  Proofs.C02.Arith Proofs.C02.Expr Proofs.C02.Stmt Proofs.C02.Block.
Local Open Scope Z_scope.

(* put read as "queue the value" (what `<=` does) *)
Fixpoint pyexecD (g : Z -> bool) (outs : list (string * Z)) (s : pystmt) (st : pystate) : option pystate :=
  match s with
  | PSPass => Some st
  | PSSeq a b => obind (pyexecD g outs a st) (pyexecD g outs b)
  | PSIf c t e => obind (guard g (pyev g st c)) (fun vc => if vc =? 0 then pyexecD g outs e st else pyexecD g outs t st)
  | PSCase subj k body rest => obind (guard g (pyev g st subj)) (fun vs => if vs =? k then pyexecD g outs body st else pyexecD g outs rest st)
  | PSAttr x e => obind (guard g (pyev g st e)) (fun v => Some (set_attrs st (upd (ps_attrs st) x v)))
  | PSLocal x e => obind (guard g (pyev g st e)) (fun v => Some (set_locals st (lupd (ps_locals st) x v)))
  | PSPrepare p e => obind (pyev g st e) (fun v => Some (set_pend st (ps_pend st ++ [(p, v mod 2 ^ width_in outs p)])))
  | PSPut p e => obind (pyev g st e) (fun v => Some (set_pend st (ps_pend st ++ [(p, v mod 2 ^ width_in outs p)])))
  | PSUnsupported _ => None
  end.

(* nets that differ from the environment at the entry of the pass are integers of locals assigned so far *)
Definition frame (E : tvenv) (env0 : list Z) (st : pystate) (env : list Z) : Prop :=
  forall i, getv env i <> getv env0 i -> exists x, net_index (tv_nets E) x 0 = Some i /\ is_localname E x = true /\ ps_locals st x <> None.

Section StmtD.
Variable E : tvenv.
Variable env0 : list Z.
Hypothesis Hk : tv_kind E = KPropagate.
Hypothesis Hnovar : forall x, is_var E x = false.

Lemma stmt_soundD : forall ps rs st s st',
  tv_stmt E ps rs = true -> sinv E st s -> frame E env0 st (fst s) -> pyexecD g_dom (tv_outs E) ps st = Some st' ->
  sinv E st' (exec rs s) /\ frame E env0 st' (fst (exec rs s)).
Proof.
  induction ps as [| a IHa b IHb | c t IHt e IHe | subj k body IHb rest IHr | x e | x e | p e | p e | w];
    intros rs st s st' Ht Hinv Hfr Hex; destruct rs as [| ra rb | rc rt re | l re | l re]; cbn [tv_stmt] in Ht; try discriminate; cbn [pyexecD] in Hex.
  - inversion Hex; subst. split; assumption.
  - apply andb_prop in Ht as [Hta Htb]. apply obind_some in Hex as (st1 & Hex1 & Hex2). cbn [exec].
    destruct (IHa _ _ _ _ Hta Hinv Hfr Hex1) as [I1 F1]. exact (IHb _ _ _ _ Htb I1 F1 Hex2).
  - apply andb_prop in Ht as [Ht Hte]. apply andb_prop in Ht as [Htc Htt]. apply obind_some in Hex as (vc & Hg & Hex).
    pose proof (proj1 Hinv) as R. cbn [exec]. rewrite (cond_branch _ _ _ _ _ _ R Htc Hg).
    destruct (vc =? 0); [eapply IHe | eapply IHt]; eassumption.
  - apply andb_prop in Ht as [Ht Htr]. apply andb_prop in Ht as [Htc Htb]. apply obind_some in Hex as (vs & Hg & Hex).
    pose proof (proj1 Hinv) as R. cbn [exec]. pose proof (case_const _ _ _ _ Htc) as Hdk.
    assert (Hgc : guard g_dom (pyev g_dom st (PCmp PEq subj (PConst k))) = Some (b2z (vs =? k))).
    { cbn [pyev]. rewrite Hg. cbn [obind guard]. rewrite Hdk. cbn [obind cmp_fun]. unfold guard, obind. destruct (vs =? k); reflexivity. }
    rewrite (cond_branch _ _ _ _ _ _ R Htc Hgc).
    destruct (vs =? k); cbn [b2z Z.eqb]; [eapply IHb | eapply IHr]; eassumption.
  - destruct l as [i w | |]; try discriminate. apply andb_prop in Ht as [Ht _]. apply andb_prop in Ht as [Ht _]. apply andb_prop in Ht as [Ht _].
    apply andb_prop in Ht as [Hvar _]. rewrite Hnovar in Hvar. discriminate.
  - (* x = e *)
    destruct l as [i w | |]; try discriminate. apply andb_prop in Ht as [Ht Hrhs]. apply andb_prop in Ht as [Ht Hw]. apply andb_prop in Ht as [Hloc Hn].
    apply Z.eqb_eq in Hw. subst w. apply net_is_full in Hn as (Hi & _ & n & Hnth & Hfw).
    apply obind_some in Hex as (v & Hg & Hex). inversion Hex; subst st'. apply guard_some in Hg as [Hev Hd].
    destruct Hinv as (R & Hwf & Hq). destruct s as [env q]. cbn [fst snd] in *. cbn [exec ltarget fst snd]. unfold assign_value. cbn [lwidth].
    rewrite (rhs_sound _ _ _ _ _ _ _ R Hrhs Hev ltac:(lia)). pose proof (proj1 (g_dom_spec v) Hd) as Hdv.
    rewrite write_full; [| lia | rewrite <- Hfw; apply (proj2 Hwf); exact Hnth]. rewrite Z.mod_mod by (apply pow2_nz; lia).
    change (2 ^ 32) with 4294967296. rewrite Z.mod_small by lia.
    split; [split; [| split] |]; cbn [fst snd].
    + apply rel_set_local; assumption.
    + apply (env_wf_set _ _ _ n); [assumption | assumption |]. rewrite Hfw. change (2 ^ 32) with 4294967296. lia.
    + exact Hq.
    + intros j Hj. cbn [ps_locals set_locals]. destruct (Nat.eq_dec i j) as [<- | Hne].
      * exists x. rewrite lupd_same. repeat split; try assumption. discriminate.
      * rewrite getv_set_other in Hj by exact Hne. destruct (Hfr j Hj) as (y & Hy1 & Hy2 & Hy3). exists y. repeat split; try assumption.
        destruct (String.eqb_spec y x) as [-> | Hyx]; [rewrite lupd_same; discriminate | rewrite lupd_other by exact Hyx; exact Hy3].
  - destruct l as [i w | |]; try discriminate. rewrite Hk in Ht. discriminate.
  - (* self.p.put(e), queued *)
    destruct l as [i w | |]; try discriminate. apply andb_prop in Ht as [Ht Hrhs]. apply andb_prop in Ht as [Ht Hn]. apply andb_prop in Ht as [Ht Hww].
    apply andb_prop in Ht as [_ Ho]. destruct (assoc (tv_outs E) p) as [w' |] eqn:Hao; [| discriminate]. apply Z.eqb_eq in Ho. subst w'. apply Z.eqb_eq in Hww.
    apply net_is_full in Hn as (Hi & Hpos & n & Hnth & Hfw).
    apply obind_some in Hex as (v & Hev & Hex). inversion Hex; subst st'.
    destruct Hinv as (R & Hwf & Hq). destruct s as [env q]. cbn [fst snd] in *. cbn [exec ltarget fst snd]. unfold assign_value. cbn [lwidth].
    rewrite (rhs_sound _ _ _ _ _ _ _ R Hrhs Hev ltac:(lia)).
    split; [split; [| split] |]; cbn [fst snd ps_pend set_pend].
    + destruct R as [R1 R2 R3 R4]. constructor; assumption.
    + exact Hwf.
    + apply Forall2_app; [exact Hq |]. constructor; [| constructor].
      exists i, w, n. cbn [fst snd]. replace (width_in (tv_outs E) p) with w by (unfold width_in; rewrite Hao; reflexivity).
      split; [reflexivity |]. split; [reflexivity |]. split; [exact Hi |]. split; [exact Hnth |]. split; [exact Hfw |]. split; [exact Hpos |].
      split; [apply Z.mod_pos_bound; apply pow2_pos; lia |]. split; [| exact Hww].
      unfold is_port. pose proof (assoc_app_some (tv_ins E) _ _ _ Hao). destruct (assoc (tv_ins E ++ tv_outs E) p); [reflexivity | congruence].
    + exact Hfr.
Qed.
End StmtD.

(* ---------------------------------------------------------------- Python side: what a propagate body depends on *)
Definition agree (outs : list (string * Z)) (st1 st2 : pystate) : Prop :=
  (forall p, assoc outs p = None -> ps_wires st1 p = ps_wires st2 p) /\ (forall x, ps_attrs st1 x = ps_attrs st2 x) /\
  (forall x, ps_locals st1 x = ps_locals st2 x).

Lemma pyev_agree g outs e st1 st2 : reads_port outs e = false -> agree outs st1 st2 -> pyev g st1 e = pyev g st2 e.
Proof.
  intros Hr (Hw & Ha & Hl). induction e as [n | p | x | x | o a IHa b IHb | o a IHa | o a IHa b IHb | o a IHa b IHb | c IHc a IHa b IHb | w];
    cbn [reads_port] in Hr; cbn [pyev].
  - reflexivity.
  - destruct (assoc outs p) eqn:Hp; [discriminate |]. rewrite (Hw p Hp). reflexivity.
  - rewrite Ha. reflexivity.
  - apply Hl.
  - apply orb_false_iff in Hr as [Hra Hrb]. rewrite (IHa Hra), (IHb Hrb). reflexivity.
  - rewrite (IHa Hr). reflexivity.
  - apply orb_false_iff in Hr as [Hra Hrb]. rewrite (IHa Hra), (IHb Hrb). reflexivity.
  - apply orb_false_iff in Hr as [Hra Hrb]. rewrite (IHa Hra), (IHb Hrb). reflexivity.
  - apply orb_false_iff in Hr as [Hr Hrb]. apply orb_false_iff in Hr as [Hrc Hra]. rewrite (IHc Hrc), (IHa Hra), (IHb Hrb). reflexivity.
  - reflexivity.
Qed.

Fixpoint puts_outs (outs : list (string * Z)) (s : pystmt) : bool :=
  match s with
  | PSSeq a b => puts_outs outs a && puts_outs outs b
  | PSIf _ t e => puts_outs outs t && puts_outs outs e
  | PSCase _ _ b r => puts_outs outs b && puts_outs outs r
  | PSPut p _ => match assoc outs p with Some _ => true | None => false end
  | PSPrepare _ _ | PSAttr _ _ | PSUnsupported _ => false
  | _ => true
  end.

Lemma tv_stmt_puts E : tv_kind E = KPropagate -> (forall x, is_var E x = false) -> forall ps rs, tv_stmt E ps rs = true -> puts_outs (tv_outs E) ps = true.
Proof.
  intros Hk Hnv. induction ps as [| a IHa b IHb | c t IHt e IHe | subj k body IHb rest IHr | x e | x e | p e | p e | w];
    intros rs Ht; destruct rs as [| ra rb | rc rt re | l re | l re]; cbn [tv_stmt] in Ht; try discriminate; cbn [puts_outs]; try reflexivity.
  - apply andb_prop in Ht as [Hta Htb]. rewrite (IHa _ Hta), (IHb _ Htb). reflexivity.
  - apply andb_prop in Ht as [Ht Hte]. apply andb_prop in Ht as [_ Htt]. rewrite (IHt _ Htt), (IHe _ Hte). reflexivity.
  - apply andb_prop in Ht as [Ht Htr]. apply andb_prop in Ht as [_ Htb]. rewrite (IHb _ Htb), (IHr _ Htr). reflexivity.
  - destruct l; try discriminate. apply andb_prop in Ht as [Ht _]. apply andb_prop in Ht as [Ht _]. apply andb_prop in Ht as [Ht _].
    apply andb_prop in Ht as [Hv _]. rewrite Hnv in Hv. discriminate.
  - destruct l; try discriminate. rewrite Hk in Ht. discriminate.
  - destruct l; try discriminate. apply andb_prop in Ht as [Ht _]. apply andb_prop in Ht as [Ht _]. apply andb_prop in Ht as [Ht _].
    apply andb_prop in Ht as [_ Ho]. destruct (assoc (tv_outs E) p); [reflexivity | discriminate].
Qed.

Definition eff (st : pystate) : store := fold_left (fun w q => upd w (fst q) (snd q)) (ps_pend st) (ps_wires st).

(* immediate puts (st) versus queued puts (sd) *)
Definition Drel (outs : list (string * Z)) (st sd : pystate) : Prop :=
  agree outs st sd /\ (forall p, ps_wires st p = eff sd p) /\ ps_pend st = [] /\ Forall (fun q => assoc outs (fst q) <> None) (ps_pend sd).

Lemma pyexec_D g outs : forall s st sd st', stmt_reads_out outs s = false -> puts_outs outs s = true -> Drel outs st sd ->
  pyexec g outs s st = Some st' ->
  exists sd', pyexecD g outs s sd = Some sd' /\ Drel outs st' sd' /\ (forall p, ps_wires sd' p = ps_wires sd p).
Proof.
  induction s as [| a IHa b IHb | c t IHt e IHe | subj k body IHb rest IHr | x e | x e | p e | p e | w];
    intros st sd st' Hr Hp HD Hex; cbn [stmt_reads_out] in Hr; cbn [puts_outs] in Hp; cbn [pyexec] in Hex; cbn [pyexecD]; try discriminate.
  - inversion Hex; subst. exists sd. auto.
  - apply orb_false_iff in Hr as [Hra Hrb]. apply andb_prop in Hp as [Hpa Hpb]. apply obind_some in Hex as (st1 & H1 & H2).
    destruct (IHa _ _ _ Hra Hpa HD H1) as (sd1 & E1 & D1 & W1). destruct (IHb _ _ _ Hrb Hpb D1 H2) as (sd2 & E2 & D2 & W2).
    exists sd2. rewrite E1. cbn [obind]. split; [exact E2 | split; [exact D2 |]]. intros q. rewrite W2. apply W1.
  - apply orb_false_iff in Hr as [Hr Hre]. apply orb_false_iff in Hr as [Hrc Hrt]. apply andb_prop in Hp as [Hpt Hpe].
    rewrite <- (pyev_agree g outs c st sd Hrc (proj1 HD)). apply obind_some in Hex as (vc & Hg & Hex). rewrite Hg. cbn [obind].
    destruct (vc =? 0); [eapply IHe | eapply IHt]; eassumption.
  - apply orb_false_iff in Hr as [Hr Hre]. apply orb_false_iff in Hr as [Hrc Hrt]. apply andb_prop in Hp as [Hpt Hpe].
    rewrite <- (pyev_agree g outs subj st sd Hrc (proj1 HD)). apply obind_some in Hex as (vc & Hg & Hex). rewrite Hg. cbn [obind].
    destruct (vc =? k); [eapply IHb | eapply IHr]; eassumption.
  - rewrite <- (pyev_agree g outs e st sd Hr (proj1 HD)). apply obind_some in Hex as (v & Hg & Hex). rewrite Hg. cbn [obind]. inversion Hex; subst st'.
    eexists. split; [reflexivity |]. destruct HD as ((Hw & Ha & Hl) & He & Hpd & Hf). split; [| intros; reflexivity].
    split; [split; [| split] | split; [| split]]; cbn [ps_wires ps_attrs ps_locals ps_pend set_locals]; try assumption.
    intros y. unfold lupd. rewrite Hl. reflexivity.
  - destruct (assoc outs p) as [w |] eqn:Hao; [| discriminate].
    rewrite <- (pyev_agree g outs e st sd Hr (proj1 HD)). apply obind_some in Hex as (v & Hg & Hex). rewrite Hg. cbn [obind]. inversion Hex; subst st'.
    eexists. split; [reflexivity |]. destruct HD as ((Hw & Ha & Hl) & He & Hpd & Hf). split; [| intros; reflexivity].
    split; [split; [| split] | split; [| split]]; cbn [ps_wires ps_attrs ps_locals ps_pend set_wires set_pend]; try assumption.
    + intros q Hq. rewrite upd_other by (intros ->; congruence). apply Hw. exact Hq.
    + intros q. unfold eff. cbn [ps_pend ps_wires set_pend]. rewrite fold_left_app. cbn [fold_left fst snd].
      destruct (String.eqb_spec q p) as [-> | Hne]; [rewrite !upd_same; reflexivity | rewrite !upd_other by exact Hne; apply He].
    + apply Forall_app. split; [exact Hf |]. constructor; [cbn [fst]; congruence | constructor].
Qed.

Definition agreeD (outs : list (string * Z)) (st1 st2 : pystate) : Prop := agree outs st1 st2 /\ ps_pend st1 = ps_pend st2.

Lemma pyexecD_congr g outs : forall s st1 st2 a, stmt_reads_out outs s = false -> agreeD outs st1 st2 ->
  pyexecD g outs s st1 = Some a -> exists b, pyexecD g outs s st2 = Some b /\ agreeD outs a b.
Proof.
  induction s as [| a0 IHa b0 IHb | c t IHt e IHe | subj k body IHb rest IHr | x e | x e | p e | p e | w];
    intros st1 st2 a Hr HA Hex; cbn [stmt_reads_out] in Hr; cbn [pyexecD] in Hex |- *; try discriminate.
  - inversion Hex; subst. exists st2. auto.
  - apply orb_false_iff in Hr as [Hra Hrb]. apply obind_some in Hex as (s1 & H1 & H2).
    destruct (IHa _ _ _ Hra HA H1) as (t1 & E1 & A1). destruct (IHb _ _ _ Hrb A1 H2) as (t2 & E2 & A2). exists t2. rewrite E1. auto.
  - apply orb_false_iff in Hr as [Hr Hre]. apply orb_false_iff in Hr as [Hrc Hrt].
    rewrite <- (pyev_agree g outs c st1 st2 Hrc (proj1 HA)). apply obind_some in Hex as (vc & Hg & Hex). rewrite Hg. cbn [obind].
    destruct (vc =? 0); [eapply IHe | eapply IHt]; eassumption.
  - apply orb_false_iff in Hr as [Hr Hre]. apply orb_false_iff in Hr as [Hrc Hrt].
    rewrite <- (pyev_agree g outs subj st1 st2 Hrc (proj1 HA)). apply obind_some in Hex as (vc & Hg & Hex). rewrite Hg. cbn [obind].
    destruct (vc =? k); [eapply IHb | eapply IHr]; eassumption.
  - rewrite <- (pyev_agree g outs e st1 st2 Hr (proj1 HA)). apply obind_some in Hex as (v & Hg & Hex). rewrite Hg. cbn [obind]. inversion Hex; subst a.
    eexists. split; [reflexivity |]. destruct HA as ((Hw & Ha & Hl) & Hp). split; [split; [| split] |]; cbn [ps_wires ps_attrs ps_locals ps_pend set_attrs]; try assumption.
    intros y. unfold upd. rewrite Ha. reflexivity.
  - rewrite <- (pyev_agree g outs e st1 st2 Hr (proj1 HA)). apply obind_some in Hex as (v & Hg & Hex). rewrite Hg. cbn [obind]. inversion Hex; subst a.
    eexists. split; [reflexivity |]. destruct HA as ((Hw & Ha & Hl) & Hp). split; [split; [| split] |]; cbn [ps_wires ps_attrs ps_locals ps_pend set_locals]; try assumption.
    intros y. unfold lupd. rewrite Hl. reflexivity.
  - rewrite <- (pyev_agree g outs e st1 st2 Hr (proj1 HA)). apply obind_some in Hex as (v & Hg & Hex). rewrite Hg. cbn [obind]. inversion Hex; subst a.
    eexists. split; [reflexivity |]. destruct HA as ((Hw & Ha & Hl) & Hp). split; [split; [| split] |]; cbn [ps_wires ps_attrs ps_locals ps_pend set_pend]; try assumption.
    rewrite Hp. reflexivity.
  - rewrite <- (pyev_agree g outs e st1 st2 Hr (proj1 HA)). apply obind_some in Hex as (v & Hg & Hex). rewrite Hg. cbn [obind]. inversion Hex; subst a.
    eexists. split; [reflexivity |]. destruct HA as ((Hw & Ha & Hl) & Hp). split; [split; [| split] |]; cbn [ps_wires ps_attrs ps_locals ps_pend set_pend]; try assumption.
    rewrite Hp. reflexivity.
Qed.

(* ---------------------------------------------------------------- the non-blocking queue *)
Definition tgt_index (t : target * Z) : nat := fst (fst (fst t)).

Lemma list_ext (a b : list Z) : length a = length b -> (forall j, getv a j = getv b j) -> a = b.
Proof. intros Hl H. apply (nth_ext a b 0 0 Hl). intros n _. apply H. Qed.

Section Queue.
Variable E : tvenv.

Lemma q_unique pend : forall q1 q2, Forall2 (pend_rel E) q1 pend -> Forall2 (pend_rel E) q2 pend -> q1 = q2.
Proof.
  induction pend as [| p pend IH]; intros q1 q2 H1 H2; inversion H1; inversion H2; subst; [reflexivity |].
  f_equal; [| apply IH; assumption].
  match goal with A : pend_rel E ?x p, B : pend_rel E ?y p |- ?x = ?y =>
    destruct A as (i & w & n & Ht & Hv & Hi & _ & _ & _ & _ & _ & Hw); destruct B as (i' & w' & n' & Ht' & Hv' & Hi' & _ & _ & _ & _ & _ & Hw');
    destruct x as [tx vx]; destruct y as [ty vy]; cbn [fst snd] in * end.
  subst. rewrite Hi in Hi'. inversion Hi'. reflexivity.
Qed.

Lemma apply_untouched q pend : Forall2 (pend_rel E) q pend -> forall env, env_wf (tv_nets E) env ->
  forall j, ~ In j (map tgt_index q) -> getv (apply_nbas env q) j = getv env j.
Proof.
  induction 1 as [| t p q pend Hp Hq IH]; intros env Hwf j Hj; [reflexivity |].
  destruct Hp as (i & w & n & Ht & Hv & Hi & Hn & Hfw & Hpos & Hr & _ & _).
  unfold apply_nbas in *. cbn [fold_left]. rewrite Ht. rewrite write_full; [| lia | rewrite <- Hfw; apply (proj2 Hwf); exact Hn].
  cbn [map] in Hj. unfold tgt_index at 1 in Hj. rewrite Ht in Hj. cbn [fst] in Hj.
  rewrite IH.
  - apply getv_set_other. intros ->. apply Hj. left. reflexivity.
  - apply (env_wf_set _ _ _ n); [exact Hwf | exact Hn |]. rewrite Hfw. apply Z.mod_pos_bound. apply pow2_pos. lia.
  - intros Hin. apply Hj. right. exact Hin.
Qed.

Lemma apply_same q pend : Forall2 (pend_rel E) q pend -> forall e e', env_wf (tv_nets E) e -> env_wf (tv_nets E) e' ->
  (forall j, ~ In j (map tgt_index q) -> getv e j = getv e' j) -> forall j, getv (apply_nbas e q) j = getv (apply_nbas e' q) j.
Proof.
  induction 1 as [| t p q pend Hp Hq IH]; intros e e' Hwf Hwf' Hag j.
  - apply Hag. intros [].
  - destruct Hp as (i & w & n & Ht & Hv & Hi & Hn & Hfw & Hpos & Hr & _ & _).
    unfold apply_nbas in *. cbn [fold_left]. rewrite Ht.
    rewrite !write_full; try lia; try (rewrite <- Hfw; first [apply (proj2 Hwf) | apply (proj2 Hwf')]; exact Hn).
    assert (Hb : 0 <= snd t mod 2 ^ w < 2 ^ fn_width n) by (rewrite Hfw; apply Z.mod_pos_bound; apply pow2_pos; lia).
    assert (Hlt : (i < length (tv_nets E))%nat) by (apply nth_error_Some; congruence).
    apply IH.
    + apply (env_wf_set _ _ _ n); assumption.
    + apply (env_wf_set _ _ _ n); assumption.
    + intros k Hk. destruct (Nat.eq_dec i k) as [<- | Hne].
      * rewrite !getv_set_same; [reflexivity | rewrite (proj1 Hwf'); exact Hlt | rewrite (proj1 Hwf); exact Hlt].
      * rewrite !getv_set_other by exact Hne. apply Hag. cbn [map]. unfold tgt_index at 1. rewrite Ht. cbn [fst]. intros [Heq | Hin]; [congruence | exact (Hk Hin)].
Qed.
End Queue.

(* ---------------------------------------------------------------- all ports (outputs included) *)
Section Prel.
Variable E : tvenv.

Definition prel (w : store) (env : list Z) : Prop :=
  forall p i, is_port E p = true -> net_index (tv_nets E) p 0 = Some i -> getv env i = w p /\ 0 <= w p < 2 ^ width_in (tv_ins E ++ tv_outs E) p.

Lemma prel_set w env p i v : prel w env -> length env = length (tv_nets E) -> net_index (tv_nets E) p 0 = Some i ->
  0 <= v < 2 ^ width_in (tv_ins E ++ tv_outs E) p -> prel (upd w p v) (set_nth env i v).
Proof.
  intros P Hl Hi Hv q j Hq Hj. pose proof (net_index_lt _ _ _ Hi) as Hlt. destruct (String.eqb_spec q p) as [-> | Hne].
  - rewrite Hi in Hj. inversion Hj; subst j. rewrite getv_set_same by lia. rewrite upd_same. auto.
  - rewrite upd_other by exact Hne. rewrite getv_set_other. { apply P; assumption. } intros ->. apply Hne. eapply net_index_inj; eassumption.
Qed.

Lemma apply_pend_prel q pend : Forall2 (pend_rel E) q pend -> forall w env, prel w env -> env_wf (tv_nets E) env ->
  prel (fold_left (fun w p => upd w (fst p) (snd p)) pend w) (apply_nbas env q).
Proof.
  induction 1 as [| t p q pend Hp Hq IH]; intros w env P Hwf; [exact P |].
  destruct Hp as (i & wd & n & Ht & Hv & Hi & Hn & Hfw & Hpos & Hr & Hport & Hww).
  unfold apply_nbas in *. cbn [fold_left]. rewrite Ht, Hv. rewrite write_full; [| lia | rewrite <- Hfw; apply (proj2 Hwf); exact Hn].
  rewrite Z.mod_small by exact Hr. apply IH.
  - apply prel_set; [exact P | exact (proj1 Hwf) | exact Hi | rewrite Hww; exact Hr].
  - apply (env_wf_set _ _ _ n); [exact Hwf | exact Hn |]. rewrite Hfw. exact Hr.
Qed.

Lemma rel_ext st st2 env : (forall p, ps_wires st p = ps_wires st2 p) -> (forall x, ps_attrs st x = ps_attrs st2 x) ->
  (forall x, ps_locals st x = ps_locals st2 x) -> rel E st env -> rel E st2 env.
Proof.
  intros Hw Ha Hl [R1 R2 R3 R4]. constructor.
  - intros p i Hp Hi. rewrite <- Hw. apply R1; assumption.
  - intros x i Hx Hxp Hi. rewrite <- Ha. apply R2; assumption.
  - intros x i v Hx Hi Hv. rewrite <- Hl in Hv. eapply R3; eassumption.
  - intros x v Hc. rewrite <- Ha. apply R4. exact Hc.
Qed.
End Prel.

Lemma list_eqb_eq : forall a b, list_eqb a b = true -> a = b.
Proof.
  induction a as [| x a IH]; intros [| y b] H; simpl in H; try discriminate; [reflexivity |].
  apply andb_prop in H as [Hxy Hab]. apply Z.eqb_eq in Hxy. subst. f_equal. apply IH. exact Hab.
Qed.

(* ---------------------------------------------------------------- facts extracted from tv_flat *)
Record comb_facts (b : pyblock) (f : flat) (ini body : rstmt) : Prop := {
  pf_procs : f_procs f = [(TInit, ini); (TStar, body)];
  pf_assigns : f_assigns f = [];
  pf_stmt : tv_stmt (mk_env b f) (b_body b) body = true;
  pf_noread : stmt_reads_out (b_outs b) (b_body b) = false;
  pf_const : forallb (fun p => is_const (mk_env b f) (fst p)) (b_attrs b) = true;
  pf_ins : ports_ok (f_nets f) (b_ins b) false = true;
  pf_outs : ports_ok (f_nets f) (b_outs b) true = true;
  pf_pow : powerup_ok (mk_env b f) f = true }.

Lemma tv_flat_comb b f : b_kind b = KPropagate -> tv_flat b f = true -> exists ini body, comb_facts b f ini body.
Proof.
  intros Hk H. unfold tv_flat in H. rewrite Hk in H.
  apply andb_prop in H as [H Hp]. apply andb_prop in H as [H Ha]. apply andb_prop in H as [H Hpow]. apply andb_prop in H as [Hi Ho].
  destruct (f_assigns f) eqn:Has; [| discriminate].
  destruct (f_procs f) as [| [t1 ini] [| [t2 body] [| ? ?]]] eqn:Hpr; try discriminate; destruct t1; try discriminate; destruct t2 as [c | |]; try discriminate.
  apply andb_prop in Hp as [Hp Hc]. apply andb_prop in Hp as [Hst Hnr]. apply negb_true_iff in Hnr.
  exists ini, body. constructor; try assumption; reflexivity.
Qed.

Lemma pyexec_attrs g outs : forall s st st', puts_outs outs s = true -> pyexec g outs s st = Some st' -> forall x, ps_attrs st' x = ps_attrs st x.
Proof.
  induction s as [| a IHa b0 IHb | c t IHt e IHe | subj k body IHb rest IHr | x e | x e | p e | p e | w];
    intros st st' Hp Hex y; cbn [puts_outs] in Hp; cbn [pyexec] in Hex; try discriminate.
  - inversion Hex; reflexivity.
  - apply andb_prop in Hp as [Hpa Hpb]. apply obind_some in Hex as (s1 & H1 & H2). rewrite (IHb _ _ Hpb H2), (IHa _ _ Hpa H1). reflexivity.
  - apply andb_prop in Hp as [Hpt Hpe]. apply obind_some in Hex as (vc & _ & Hex). destruct (vc =? 0); [eapply IHe | eapply IHt]; eassumption.
  - apply andb_prop in Hp as [Hpt Hpe]. apply obind_some in Hex as (vc & _ & Hex). destruct (vc =? k); [eapply IHb | eapply IHr]; eassumption.
  - apply obind_some in Hex as (v & _ & Hex). inversion Hex. reflexivity.
  - apply obind_some in Hex as (v & _ & Hex). inversion Hex. reflexivity.
Qed.

Section CombRun.
Variable b : pyblock.
Variable f : flat.
Variables (ini body : rstmt).
Hypothesis Hk : b_kind b = KPropagate.
Hypothesis F : comb_facts b f ini body.
Let E := mk_env b f.

Lemma novar x : is_var E x = false.
Proof.
  unfold is_var. destruct (is_attr E x) eqn:Ha; [| reflexivity]. unfold is_attr in Ha. change (tv_attrs E) with (b_attrs b) in Ha.
  destruct (assoc (b_attrs b) x) as [v |] eqn:Hx; [| discriminate]. pose proof (pf_const _ _ _ _ F) as Hc. rewrite forallb_forall in Hc.
  specialize (Hc _ (assoc_in _ _ _ Hx)). cbn [fst] in Hc. fold E in Hc. rewrite Hc. reflexivity.
Qed.

Definition pass (env : list Z) : list Z := let '(e1, q) := exec body (env, []) in apply_nbas e1 q.

Lemma settle_pass_eq env : settle_pass f env = pass env.
Proof. unfold settle_pass, run_star, pass. rewrite (pf_assigns _ _ _ _ F), (pf_procs _ _ _ _ F). cbn [fold_left fst snd]. reflexivity. Qed.

Lemma settle_comb env : pass (pass env) = pass env -> settle f (settle_fuel f) env = (pass env, true).
Proof.
  intros Hid. unfold settle_fuel. rewrite (pf_assigns _ _ _ _ F), (pf_procs _ _ _ _ F). cbn [length Nat.add]. cbn [settle].
  rewrite settle_pass_eq. destruct (list_eqb env (pass env)) eqn:He.
  - apply list_eqb_eq in He. rewrite <- He. reflexivity.
  - rewrite settle_pass_eq, Hid, list_eqb_refl. reflexivity.
Qed.

Definition cinv (st : pystate) (env : list Z) : Prop :=
  rel E st env /\ prel E (ps_wires st) env /\ env_wf (f_nets f) env /\ ps_pend st = [].

Lemma pass_sound st env st' : cinv st env -> py_call g_dom b st = Some st' -> cinv st' (pass env) /\ pass (pass env) = pass env.
Proof.
  intros (R & P & Hwf & Hpd) Hc. unfold py_call in Hc. apply obind_some in Hc as (s1 & Hex & Hs). inversion Hs; subst st'. clear Hs.
  set (stc := set_locals st (fun _ => None)) in *.
  pose proof (tv_stmt_puts E Hk novar _ _ (pf_stmt _ _ _ _ F)) as Hputs. change (tv_outs E) with (b_outs b) in Hputs.
  pose proof (pf_noread _ _ _ _ F) as Hnr.
  (* immediate puts vs queued puts *)
  assert (HD0 : Drel (b_outs b) stc stc).
  { split; [split; [| split]; reflexivity |]. split; [| split].
    - intros p. unfold eff. subst stc. cbn [ps_pend ps_wires set_locals]. rewrite Hpd. reflexivity.
    - subst stc. cbn [ps_pend set_locals]. exact Hpd.
    - subst stc. cbn [ps_pend set_locals]. rewrite Hpd. constructor. }
  destruct (pyexec_D g_dom (b_outs b) _ _ _ _ Hnr Hputs HD0 Hex) as (sd1 & Hexd & HD1 & Hw1).
  (* first pass *)
  assert (Hinv : sinv E stc (env, [])).
  { split; [| split]; cbn [fst snd]. - apply rel_clear_locals. exact R. - exact Hwf. - subst stc. cbn [ps_pend set_locals]. rewrite Hpd. constructor. }
  assert (Hfr0 : frame E env stc env) by (intros i Hi; congruence).
  destruct (stmt_soundD E env Hk novar _ _ _ _ _ (pf_stmt _ _ _ _ F) Hinv Hfr0 Hexd) as [(R1 & W1 & Q1) Fr1].
  unfold pass at 1 3 4. destruct (exec body (env, [])) as [e1 q1] eqn:Hexec1. cbn [fst snd] in *.
  destruct (apply_pend E q1 (ps_pend sd1) Q1 sd1 e1 R1 W1) as [R2 W2].
  set (env1 := apply_nbas e1 q1) in *.
  destruct HD1 as ((Hnw & Hat & Hlo) & Heff & Hpd1 & Hfo).
  assert (Hwst' : forall p, ps_wires (py_settle s1) p = eff sd1 p).
  { intros p. unfold py_settle. cbn [ps_wires set_pend set_wires]. rewrite Hpd1. cbn [fold_left]. apply Heff. }
  assert (R' : rel E (py_settle s1) env1).
  { apply (rel_ext E (set_wires sd1 (eff sd1))); [| | | exact R2].
    - intros p. rewrite Hwst'. reflexivity.
    - intros x. unfold py_settle. cbn [ps_attrs set_pend set_wires]. symmetry. apply Hat.
    - intros x. unfold py_settle. cbn [ps_locals set_pend set_wires]. symmetry. apply Hlo. }
  (* ports: frozen during the body, then the queue *)
  assert (Pe1 : prel E (ps_wires sd1) e1).
  { intros p i Hp Hi. rewrite Hw1. subst stc. cbn [ps_wires set_locals]. destruct (P p i Hp Hi) as [Hg Hr]. split; [| exact Hr]. rewrite <- Hg.
    destruct (Z.eq_dec (getv e1 i) (getv env i)) as [Heq | Hne]; [exact Heq |]. exfalso.
    destruct (Fr1 i Hne) as (x & Hx & Hloc & _). rewrite (net_index_inj _ _ _ _ Hx Hi) in Hloc. apply localname_spec in Hloc as [Hnp _]. congruence. }
  pose proof (apply_pend_prel E q1 (ps_pend sd1) Q1 _ _ Pe1 W1) as P2. fold env1 in P2.
  assert (P' : prel E (ps_wires (py_settle s1)) env1).
  { intros p i Hp Hi. rewrite Hwst'. exact (P2 p i Hp Hi). }
  split.
  { split; [exact R' | split; [exact P' | split; [exact W2 | reflexivity]]]. }
  (* second pass *)
  set (st1c := set_locals (py_settle s1) (fun _ => None)).
  assert (HA : agreeD (b_outs b) stc st1c).
  { split; [split; [| split] |]; subst stc st1c; cbn [ps_wires ps_attrs ps_locals ps_pend set_locals py_settle set_pend set_wires].
    - intros p Hp. rewrite Hpd1. cbn [fold_left]. rewrite (Hnw p Hp), Hw1. reflexivity.
    - intros x. rewrite (pyexec_attrs _ _ _ _ _ Hputs Hex x). reflexivity.
    - reflexivity.
    - exact Hpd. }
  destruct (pyexecD_congr g_dom (b_outs b) _ _ _ _ Hnr HA Hexd) as (sd2 & Hexd2 & ((_ & _ & Hlo2) & Hpd2)).
  assert (Hinv2 : sinv E st1c (env1, [])).
  { split; [| split]; cbn [fst snd]. - apply rel_clear_locals. exact R'. - exact W2. - subst st1c. cbn [ps_pend set_locals py_settle set_pend]. constructor. }
  assert (Hfr2 : frame E env1 st1c env1) by (intros i Hi; congruence).
  destruct (stmt_soundD E env1 Hk novar _ _ _ _ _ (pf_stmt _ _ _ _ F) Hinv2 Hfr2 Hexd2) as [(R3 & W3 & Q3) Fr3].
  unfold pass. destruct (exec body (env1, [])) as [e2 q2] eqn:Hexec2. cbn [fst snd] in *.
  rewrite <- Hpd2 in Q3. rewrite (q_unique E _ _ _ Q3 Q1).
  apply list_ext.
  - destruct (apply_pend E q1 (ps_pend sd1) Q1 sd2 e2) as [_ W4]; [exact R3 | exact W3 |]. rewrite (proj1 W4). symmetry. exact (proj1 W2).
  - apply (apply_same E q1 (ps_pend sd1) Q1 e2 e1 W3 W1). intros j Hj.
    pose proof (apply_untouched E q1 (ps_pend sd1) Q1 e1 W1 j Hj) as Hu. fold env1 in Hu.
    destruct (Z.eq_dec (getv e2 j) (getv env1 j)) as [Heq | Hne]; [congruence |].
    destruct (Fr3 j Hne) as (x & Hx & Hloc & Hdef). destruct (ps_locals sd2 x) as [v |] eqn:Hv; [| congruence].
    destruct (r_local _ _ _ R3 x j v Hloc Hx Hv) as [Hg2 _]. rewrite <- Hlo2 in Hv. destruct (r_local _ _ _ R1 x j v Hloc Hx Hv) as [Hg1 _]. congruence.
Qed.

(* ---------------------------------------------------------------- stimulus *)
Lemma poke_prel ins : Forall (fun p => assoc (b_ins b) (fst p) <> None) ins -> forall st env, prel E (ps_wires st) env -> env_wf (f_nets f) env ->
  prel E (ps_wires (py_poke b st ins)) (set_inputs f env (vins f ins)).
Proof.
  induction 1 as [| [x v] ins Hx Hrest IH]; intros st env P Hwf.
  - unfold py_poke, set_inputs. cbn [fold_left vins map ps_wires set_wires]. exact P.
  - cbn [fst] in Hx. destruct (assoc (b_ins b) x) as [w |] eqn:Ha; [| congruence].
    destruct (ports_ok_in b f _ _ _ _ (pf_ins _ _ _ _ F) (assoc_in _ _ _ Ha)) as (i & n & Hi & Hn & Hfw & Hpos).
    set (v' := v mod 2 ^ w).
    assert (Hr : 0 <= v' < 2 ^ w) by (apply Z.mod_pos_bound; apply pow2_pos; lia).
    assert (P1 : prel E (ps_wires (set_wires st (upd (ps_wires st) x v'))) (set_nth env i v')).
    { cbn [ps_wires set_wires]. apply prel_set; [exact P | exact (proj1 Hwf) | exact Hi |].
      unfold E. cbn [tv_ins tv_outs mk_env]. unfold width_in. rewrite (assoc_app_l _ _ _ _ Ha). exact Hr. }
    assert (W1 : env_wf (f_nets f) (set_nth env i v')) by (apply (env_wf_set _ _ _ n); [exact Hwf | exact Hn | rewrite Hfw; exact Hr]).
    specialize (IH _ _ P1 W1).
    replace (py_poke b st ((x, v) :: ins)) with (py_poke b (set_wires st (upd (ps_wires st) x v')) ins).
    2:{ unfold py_poke. cbn [fold_left fst snd set_wires ps_wires ps_attrs ps_locals ps_pend].
        replace (width_in (b_ins b) x) with w by (unfold width_in; rewrite Ha; reflexivity). reflexivity. }
    replace (set_inputs f env (vins f ((x, v) :: ins))) with (set_inputs f (set_nth env i v') (vins f ins)); [exact IH |].
    unfold set_inputs. cbn [vins map fold_left fst snd]. rewrite Hi. rewrite (nth_error_nth _ _ _ Hn). rewrite Hfw. reflexivity.
Qed.

Lemma poke_c ins st env : Forall (fun p => assoc (b_ins b) (fst p) <> None) ins -> cinv st env -> cinv (py_poke b st ins) (set_inputs f env (vins f ins)).
Proof.
  intros Hins (R & P & Hwf & Hpd).
  destruct (poke_sound b f (pf_ins _ _ _ _ F) ins Hins st env (conj R (conj Hwf Hpd))) as (R' & W' & Hp').
  split; [exact R' | split; [| split; [exact W' | exact Hp']]]. apply poke_prel; assumption.
Qed.

Lemma step_c clk st env ins st' : Forall (fun p => assoc (b_ins b) (fst p) <> None) ins -> cinv st env -> py_step g_dom b st ins 0 = Some st' ->
  exists env', vstep f clk env (vins f ins) 0 = (env', true) /\ cinv st' env'.
Proof.
  intros Hins Hc Hs. unfold py_step in Hs. rewrite Hk in Hs. unfold vstep.
  destruct (pass_sound _ _ _ (poke_c _ _ _ Hins Hc) Hs) as [Hc' Hid]. rewrite (settle_comb _ Hid). cbn [vcycles].
  eexists. split; [reflexivity | exact Hc'].
Qed.

Definition obs_okc (ports : list string) : Prop := Forall (fun p => is_port E p = true /\ net_index (f_nets f) p 0 <> None) ports.

Lemma obs_eqc st env ports : prel E (ps_wires st) env -> obs_okc ports -> map (getv env) (resolve_names f (ports ++ [])) = py_obs st ports [].
Proof.
  intros P Hp. unfold resolve_names, py_obs. rewrite app_nil_r. cbn [map]. rewrite app_nil_r.
  induction Hp as [| p ports [Hpp Hpi] _ IH]; [reflexivity |]. cbn [map]. f_equal; [| exact IH].
  destruct (net_index (f_nets f) p 0) as [i |] eqn:Hi; [| congruence]. exact (proj1 (P p i Hpp Hi)).
Qed.

Definition comb_steps (steps : stimulus) : Prop := Forall (fun s => snd s = 0%nat) steps.

Lemma run_c clk ports : obs_okc ports -> forall steps st env tr, cinv st env -> pokes_inputs b steps -> comb_steps steps ->
  py_run g_dom b st steps ports [] = (tr, true) -> vrun f clk env true steps (resolve_names f (ports ++ [])) = (tr, true).
Proof.
  intros Hobs. induction steps as [| [ins n] steps IH]; intros st env tr Hc Hpk Hn0 Hr; cbn [py_run vrun] in *.
  - inversion Hr; subst. reflexivity.
  - inversion Hpk as [| ? ? Hins Hrest]; subst. inversion Hn0 as [| ? ? Hn Hnrest]; subst. cbn [fst snd] in Hins, Hn. subst n.
    destruct (py_step g_dom b st ins 0) as [st' |] eqn:Hs; [| discriminate].
    destruct (py_run g_dom b st' steps ports []) as [tr' ok'] eqn:Hr'. inversion Hr; subst tr ok'.
    destruct (step_c clk _ _ _ _ Hins Hc Hs) as (env' & Hv & Hc'). fold (vins f ins). rewrite Hv. cbn [andb].
    rewrite (IH _ _ _ Hc' Hrest Hnrest Hr'). rewrite (obs_eqc _ _ _ (proj1 (proj2 Hc')) Hobs). reflexivity.
Qed.

Lemma powerup_c : cinv (py_init b) (power_up f).
Proof.
  destruct (powerup_sound b f (pf_ins _ _ _ _ F) (pf_outs _ _ _ _ F) (pf_pow _ _ _ _ F)) as (R & Hwf & Hpd).
  split; [exact R | split; [| split; [exact Hwf | exact Hpd]]].
  pose proof (pf_pow _ _ _ _ F) as H. unfold powerup_ok in H.
  apply andb_prop in H as [H _]. apply andb_prop in H as [H _]. apply andb_prop in H as [H _]. apply andb_prop in H as [H _].
  apply andb_prop in H as [H _]. apply andb_prop in H as [_ HB]. rewrite forallb_forall in HB.
  intros p i Hp Hi. unfold is_port in Hp. cbn [ps_wires py_init]. unfold width_in.
  destruct (assoc (tv_ins E ++ tv_outs E) p) as [w |] eqn:Ha; [| discriminate].
  pose proof (assoc_in _ _ _ Ha) as Hin. specialize (HB _ Hin). cbn [fst] in HB. change (tv_nets E) with (f_nets f) in Hi. rewrite Hi in HB.
  apply Z.eqb_eq in HB. split; [exact HB |].
  assert (0 < w).
  { unfold E in Hin. cbn [tv_ins tv_outs mk_env] in Hin. apply in_app_or in Hin as [Hin | Hin].
    - destruct (ports_ok_in b f _ _ _ _ (pf_ins _ _ _ _ F) Hin) as (? & ? & _ & _ & _ & ?). assumption.
    - destruct (ports_ok_in b f _ _ _ _ (pf_outs _ _ _ _ F) Hin) as (? & ? & _ & _ & _ & ?). assumption. }
  pose proof (pow2_pos w). lia.
Qed.

Theorem comb_block_sound clkname ports steps tr : obs_okc ports -> pokes_inputs b steps -> comb_steps steps ->
  py_sim g_dom b steps ports [] = (tr, true) -> vsim f clkname steps (ports ++ []) = (tr, true).
Proof.
  intros Hobs Hpk Hn0 Hs. unfold py_sim, py_start in Hs. rewrite Hk in Hs.
  destruct (py_call g_dom b (py_init b)) as [st0 |] eqn:Hc0; [| discriminate].
  destruct (py_run g_dom b st0 steps ports []) as [tr' ok] eqn:Hr. inversion Hs; subst tr ok.
  destruct (pass_sound _ _ _ powerup_c Hc0) as [Hc1 Hid]. unfold vsim. rewrite (settle_comb _ Hid).
  rewrite (run_c _ _ Hobs _ _ _ _ Hc1 Hpk Hn0 Hr). rewrite (obs_eqc _ _ _ (proj1 (proj2 Hc1)) Hobs). reflexivity.
Qed.
End CombRun.
