(* C02 — soundness of the expression validator: tv E cond W sg pe re = true, a Python state and a Verilog environment
   related by `rel`, and pe defined under the domain guard  ==>  the Verilog value of re (IEEE 1364 context rules of
   VSem.reval) is the Python value of pe modulo 2^W (value position) / has the same truth value (condition position). *)
From V Require Import Base.Bits Model.VSyntax Model.VSem Model.PySyntax Model.PySem Model.Tv Proofs.C02.Arith.
Local Open Scope Z_scope.

(* ---------------------------------------------------------------- the simulation relation *)
Record rel (E : tvenv) (st : pystate) (env : list Z) : Prop := {
  r_port : forall p i, is_port E p = true -> net_index (tv_nets E) p 0 = Some i ->
             getv env i = ps_wires st p /\ 0 <= ps_wires st p < 2 ^ width_in (tv_ins E ++ tv_outs E) p;
  r_attr : forall x i, is_attr E x = true -> is_port E x = false -> net_index (tv_nets E) x 0 = Some i ->
             getv env i = ps_attrs st x /\ g_dom (ps_attrs st x) = true;
  r_local : forall x i v, is_localname E x = true -> net_index (tv_nets E) x 0 = Some i -> ps_locals st x = Some v ->
             getv env i = v /\ g_dom v = true;
  r_const : forall x v, assoc (tv_consts E) x = Some v -> ps_attrs st x = v }.

(* ---------------------------------------------------------------- small facts *)
Lemma g_dom_spec v : g_dom v = true <-> 0 <= v < 2147483648.
Proof. unfold g_dom. change (2 ^ 31) with 2147483648. lia. Qed.
Lemma in31_spec v : in31 v = true <-> 0 <= v < 2147483648.
Proof. unfold in31. change (2 ^ 31) with 2147483648. lia. Qed.

Lemma guard_some g o v : guard g o = Some v -> o = Some v /\ g v = true.
Proof. unfold guard, obind. destruct o as [x |]; [| discriminate]. destruct (g x) eqn:Hg; [| discriminate]. intros H; inversion H; subst. auto. Qed.

Lemma obind_some {A B} (o : option A) (f : A -> option B) r : obind o f = Some r -> exists a, o = Some a /\ f a = Some r.
Proof. destruct o as [a |]; simpl; [| discriminate]. intros H. exists a. auto. Qed.

Lemma net_is_spec nets i x w sg : net_is nets i x w sg = true -> net_index nets x 0 = Some i /\ 0 < w.
Proof.
  unfold net_is. destruct (net_index nets x 0) as [j |]; [| discriminate]. destruct (nth_error nets i) as [n |]; [| discriminate].
  intros H. apply andb_prop in H as [H Hw]. apply andb_prop in H as [H _]. apply andb_prop in H as [Hij _].
  apply Nat.eqb_eq in Hij. subst. split; [reflexivity | lia].
Qed.

Lemma pow31_le W : 31 <= W -> 2147483648 <= 2 ^ W.
Proof. intros H. change 2147483648 with (2 ^ 31). apply pow2_le. lia. Qed.

Lemma extend_int sg W v : 0 <= v < 2147483648 -> 32 <= W -> extend sg 32 W v = v mod 2 ^ W.
Proof.
  intros Hv HW. unfold extend, to_signed, vtrunc. destruct sg; [| reflexivity].
  change (2 ^ (32 - 1)) with 2147483648. destruct (Z.leb_spec 2147483648 v); [lia | reflexivity].
Qed.

Lemma to_signed_small W v : 0 <= v < 2147483648 -> 32 <= W -> to_signed W v = v.
Proof.
  intros Hv HW. unfold to_signed. pose proof (pow31_le (W - 1)). destruct (Z.leb_spec (2 ^ (W - 1)) v); [lia | reflexivity].
Qed.

(* exactness: a value that fits the context is unchanged by "mod 2^W" *)
Lemma fits_exact W re v :
  fits W re = true -> g_dom v = true -> (forall n, ubits re = Some n -> 0 <= v < 2 ^ n) -> 0 <= v < 2 ^ W.
Proof.
  unfold fits. intros H Hg Hu. apply g_dom_spec in Hg. apply orb_prop in H as [H | H].
  - pose proof (pow31_le W). lia.
  - destruct (ubits re) as [n |]; [| discriminate]. apply (bound_mono v n W); [apply Hu; reflexivity | lia].
Qed.

Lemma b2z_01 b : 0 <= b2z b < 2 ^ 1.
Proof. destruct b; simpl; lia. Qed.
Lemma b2z_mod b W : 1 <= W -> b2z b mod 2 ^ W = b2z b.
Proof. intros H. apply Z.mod_small. pose proof (pow2_le 1 W). destruct b; simpl in *; lia. Qed.

Lemma boolexp_01 g st e v : is_boolexp e = true -> pyev g st e = Some v -> v = 0 \/ v = 1.
Proof.
  revert v. induction e as [| | | | | o a IHa | o a IHa b IHb | o a IHa b IHb | |]; intros v Hb Hev; simpl in Hb; try discriminate.
  - destruct o; try discriminate. cbn [pyev] in Hev. apply obind_some in Hev as (va & _ & Hv). inversion Hv. destruct (va =? 0); auto.
  - cbn [pyev] in Hev. apply obind_some in Hev as (va & _ & Hev). apply obind_some in Hev as (vb & _ & Hv). inversion Hv.
    destruct (cmp_fun o va vb); auto.
  - apply andb_prop in Hb as [Ha Hb']. destruct o; cbn [pyev] in Hev; apply obind_some in Hev as (va & Hga & Hev);
      apply guard_some in Hga as [Hea _]; destruct (va =? 0) eqn:Hz.
    + inversion Hev; subst. apply Z.eqb_eq in Hz. auto.
    + apply guard_some in Hev as [Heb _]. eauto.
    + apply guard_some in Hev as [Heb _]. eauto.
    + inversion Hev; subst. eauto.
Qed.
