(* C02 — soundness of the expression validator: tv E cond W sg pe re = true, a Python state and a Verilog environment
   related by `rel`, and pe defined under the domain guard  ==>  the Verilog value of re (IEEE 1364 context rules of
   VSem.reval) is the Python value of pe modulo 2^W (value position) / has the same truth value (condition position). *)
From V Require Import Base.Bits Model.VSyntax Model.VSem Model.PySyntax Model.PySem Model.Tv Proofs.C02.Arith.
Local Open Scope Z_scope.

(* ---------------------------------------------------------------- the simulation relation *)
Record rel (E : tvenv) (st : pystate) (env : list Z) : Prop := {
  r_port : forall p i, is_readable E p = true -> net_index (tv_nets E) p 0 = Some i ->
             getv env i = ps_wires st p /\ 0 <= ps_wires st p < 2 ^ width_in (tv_ins E ++ tv_outs E) p;
  r_attr : forall x i, is_attr E x = true -> is_port E x = false -> net_index (tv_nets E) x 0 = Some i ->
             getv env i = ps_attrs st x /\ g_dom (ps_attrs st x) = true;
  r_local : forall x i v, is_localname E x = true -> net_index (tv_nets E) x 0 = Some i -> ps_locals st x = Some v ->
             getv env i = v /\ g_dom v = true;
  r_const : forall x v, assoc (tv_consts E) x = Some v -> ps_attrs st x = v }.

(* ---------------------------------------------------------------- small facts *)
Lemma g_dom_spec v : g_dom v = true <-> 0 <= v < 2147483648.
Proof. unfold g_dom. change (2 ^ 31) with 2147483648. lia. Qed.
Lemma in31_spec v : in31 v = true <-> 0 <= v < 2147483648.
Proof. unfold in31. change (2 ^ 31) with 2147483648. lia. Qed.

Lemma guard_some g o v : guard g o = Some v -> o = Some v /\ g v = true.
Proof. unfold guard, obind. destruct o as [x |]; [| discriminate]. destruct (g x) eqn:Hg; [| discriminate]. intros H; inversion H; subst. auto. Qed.

Lemma obind_some {A B} (o : option A) (f : A -> option B) r : obind o f = Some r -> exists a, o = Some a /\ f a = Some r.
Proof. destruct o as [a |]; simpl; [| discriminate]. intros H. exists a. auto. Qed.

Lemma net_is_spec nets i x w sg : net_is nets i x w sg = true -> net_index nets x 0 = Some i /\ 0 < w.
Proof.
  unfold net_is. destruct (net_index nets x 0) as [j |]; [| discriminate]. destruct (nth_error nets i) as [n |]; [| discriminate].
  intros H. apply andb_prop in H as [H Hw]. apply andb_prop in H as [H _]. apply andb_prop in H as [Hij _].
  apply Nat.eqb_eq in Hij. subst. split; [reflexivity | lia].
Qed.

Lemma pow31_le W : 31 <= W -> 2147483648 <= 2 ^ W.
Proof. intros H. change 2147483648 with (2 ^ 31). apply pow2_le. lia. Qed.

Lemma extend_int sg W v : 0 <= v < 2147483648 -> 32 <= W -> extend sg 32 W v = v mod 2 ^ W.
Proof.
  intros Hv HW. unfold extend, to_signed, vtrunc. destruct sg; [| reflexivity].
  change (2 ^ (32 - 1)) with 2147483648. destruct (Z.leb_spec 2147483648 v); [lia | reflexivity].
Qed.

Lemma to_signed_small W v : 0 <= v < 2147483648 -> 32 <= W -> to_signed W v = v.
Proof.
  intros Hv HW. unfold to_signed. pose proof (pow31_le (W - 1)). destruct (Z.leb_spec (2 ^ (W - 1)) v); [lia | reflexivity].
Qed.

(* exactness: a value that fits the context is unchanged by "mod 2^W" *)
Lemma fits_exact W re v :
  fits W re = true -> g_dom v = true -> (forall n, ubits re = Some n -> 0 <= v < 2 ^ n) -> 0 <= v < 2 ^ W.
Proof.
  unfold fits. intros H Hg Hu. apply g_dom_spec in Hg. apply orb_prop in H as [H | H].
  - pose proof (pow31_le W). lia.
  - destruct (ubits re) as [n |]; [| discriminate]. apply (bound_mono v n W); [apply Hu; reflexivity | lia].
Qed.

Lemma b2z_01 b : 0 <= b2z b < 2 ^ 1.
Proof. destruct b; simpl; lia. Qed.
Lemma b2z_mod b W : 1 <= W -> b2z b mod 2 ^ W = b2z b.
Proof. intros H. apply Z.mod_small. pose proof (pow2_le 1 W). destruct b; simpl in *; lia. Qed.

Lemma boolexp_01 g st e v : is_boolexp e = true -> pyev g st e = Some v -> v = 0 \/ v = 1.
Proof.
  revert v. induction e as [| | | | | o a IHa | o a IHa b IHb | o a IHa b IHb | |]; intros v Hb Hev; simpl in Hb; try discriminate.
  - destruct o; try discriminate. cbn [pyev] in Hev. apply obind_some in Hev as (va & _ & Hv). inversion Hv. destruct (va =? 0); auto.
  - cbn [pyev] in Hev. apply obind_some in Hev as (va & _ & Hev). apply obind_some in Hev as (vb & _ & Hv). inversion Hv.
    destruct (cmp_fun o va vb); auto.
  - apply andb_prop in Hb as [Ha Hb']. destruct o; cbn [pyev] in Hev; apply obind_some in Hev as (va & Hga & Hev);
      apply guard_some in Hga as [Hea _]; destruct (va =? 0) eqn:Hz.
    + inversion Hev; subst. apply Z.eqb_eq in Hz. auto.
    + apply guard_some in Hev as [Heb _]. eauto.
    + apply guard_some in Hev as [Heb _]. eauto.
    + inversion Hev; subst. eauto.
Qed.

(* ---------------------------------------------------------------- statements *)
Section Sound.
Variable E : tvenv.
Variable st : pystate.
Variable env : list Z.
Hypothesis R : rel E st env.

Definition val_sound (pe : pyexpr) (re : rexpr) : Prop :=
  forall W sg v, tv E false W sg pe re = true -> pyev g_dom st pe = Some v -> rsize re <= W -> (sg = true -> rsigned re = true) ->
    reval env W sg re = v mod 2 ^ W /\ (forall n, ubits re = Some n -> 0 <= v < 2 ^ n) /\ 1 <= rsize re.
Definition cond_sound (pe : pyexpr) (re : rexpr) : Prop :=
  forall W sg v, tv E true W sg pe re = true -> pyev g_dom st pe = Some v -> g_dom v = true -> (rself env re =? 0) = (v =? 0).

Lemma cond_of_val pe re :
  val_sound pe re ->
  (forall W sg, tv E true W sg pe re = true -> tv E false (rsize re) (rsigned re) pe re = true /\ fits (rsize re) re = true) ->
  cond_sound pe re.
Proof.
  intros Hv Hb W sg v Ht Hev Hg. destruct (Hb W sg Ht) as [Ht' Hf].
  destruct (Hv (rsize re) (rsigned re) v Ht' Hev (Z.le_refl _) (fun h => h)) as (Hr & Hu & Hs).
  unfold rself. rewrite Hr. rewrite mod_small_pow; [reflexivity |]. exact (fits_exact _ _ _ Hf Hg Hu).
Qed.

Ltac bridge := let W := fresh "W" in let sg := fresh "sg" in let H := fresh "H" in let Hf := fresh "Hf" in let Harm := fresh "Harm" in
  intros W sg H; cbn [tv negb orb] in H |- *; apply andb_prop in H as [Hf Harm]; first [discriminate Harm | split; [exact Harm | exact Hf]].

(* exact value of a sub-expression that fits its context *)
Lemma exact_val pe re W sg v :
  val_sound pe re -> tv E false W sg pe re = true -> fits W re = true -> guard g_dom (pyev g_dom st pe) = Some v ->
  rsize re <= W -> (sg = true -> rsigned re = true) ->
  reval env W sg re = v /\ 0 <= v < 2147483648 /\ 0 <= v < 2 ^ W /\ (forall n, ubits re = Some n -> 0 <= v < 2 ^ n) /\ 1 <= rsize re.
Proof.
  intros Hv Ht Hf Hg Hs Hsg. apply guard_some in Hg as [Hev Hd].
  destruct (Hv W sg v Ht Hev Hs Hsg) as (Hr & Hu & H1). pose proof (fits_exact _ _ _ Hf Hd Hu) as Hx.
  rewrite Hr, mod_small_pow by exact Hx. apply g_dom_spec in Hd. auto.
Qed.

(* ---------------------------------------------------------------- leaves *)
Lemma const_sound n re : val_sound (PConst n) re /\ cond_sound (PConst n) re.
Proof.
  assert (Hv : val_sound (PConst n) re).
  { intros W sg v Ht Hev Hs Hsg. destruct re; cbn [tv negb orb andb] in Ht; try discriminate.
    apply andb_prop in Ht as [Heq H31]. apply Z.eqb_eq in Heq. subst n0. apply in31_spec in H31.
    cbn [pyev] in Hev. inversion Hev; subst v. cbn [rsize] in Hs. cbn [reval]. split; [| split].
    - unfold vtrunc at 1. change (2 ^ 32) with 4294967296. rewrite Z.mod_small by lia. apply extend_int; lia.
    - cbn [ubits]. intros k Hk. destruct (Z.leb_spec 0 n); [| discriminate]. inversion Hk. apply log2_bound. lia.
    - cbn [rsize]. lia. }
  split; [exact Hv |]. apply cond_of_val; [exact Hv |]. destruct re; bridge.
Qed.

Ltac split_and H := repeat match type of H with (_ && _ = true) => let H2 := fresh H in apply andb_prop in H as [H H2] end.

Lemma get_sound p re : val_sound (PGet p) re /\ cond_sound (PGet p) re.
Proof.
  assert (Hv : val_sound (PGet p) re).
  { intros W sg v Ht Hev Hs Hsg. destruct re; cbn [tv negb orb andb] in Ht; try discriminate.
    apply andb_prop in Ht as [Ht Hw]. apply andb_prop in Ht as [Ht Hns]. apply andb_prop in Ht as [Hp Hn].
    apply net_is_spec in Hn as [Hi Hpos]. apply Z.eqb_eq in Hw. destruct (r_port _ _ _ R p i Hp Hi) as [Hg Hr]. rewrite Hw in Hr.
    cbn [pyev] in Hev. inversion Hev; subst v. cbn [rsize] in Hs. cbn [rsigned] in Hsg.
    assert (sg = false) as -> by (destruct sg; [specialize (Hsg eq_refl); subst sg0; discriminate | reflexivity]).
    cbn [reval]. unfold extend, vtrunc. rewrite Hg. split; [reflexivity | split].
    - cbn [ubits]. intros k Hk. inversion Hk; subst k. exact Hr.
    - cbn [rsize]. lia. }
  split; [exact Hv |]. apply cond_of_val; [exact Hv |]. destruct re; bridge.
Qed.

Lemma int_leaf W sg i v : 0 <= v < 2147483648 -> getv env i = v -> 32 <= W ->
  reval env W sg (RId i 32 true) = v mod 2 ^ W /\ (forall n, ubits (RId i 32 true) = Some n -> 0 <= v < 2 ^ n) /\ 1 <= rsize (RId i 32 true).
Proof.
  intros Hv Hg HW. cbn [reval rsize ubits]. rewrite Hg. split; [apply extend_int; assumption | split; [| lia]].
  intros n Hn. inversion Hn. change (2 ^ 32) with 4294967296. lia.
Qed.

Lemma attr_sound x re : val_sound (PAttr x) re /\ cond_sound (PAttr x) re.
Proof.
  assert (Hv : val_sound (PAttr x) re).
  { intros W sg v Ht Hev Hs Hsg. cbn [pyev] in Hev. inversion Hev; subst v. destruct re; cbn [tv negb orb andb] in Ht; try discriminate.
    - (* a constant attribute, emitted as its literal value *)
      destruct (assoc (tv_consts E) x) as [c |] eqn:Hc; [| discriminate]. apply andb_prop in Ht as [Heq H31]. apply Z.eqb_eq in Heq. subst c.
      apply in31_spec in H31. rewrite (r_const _ _ _ R x n Hc). cbn [rsize] in Hs. cbn [reval]. split; [| split].
      + unfold vtrunc at 1. change (2 ^ 32) with 4294967296. rewrite Z.mod_small by lia. apply extend_int; lia.
      + cbn [ubits]. intros k Hk. destruct (Z.leb_spec 0 n); [| discriminate]. inversion Hk. apply log2_bound. lia.
      + cbn [rsize]. lia.
    - apply andb_prop in Ht as [Ht Hw]. apply andb_prop in Ht as [Ht Hsgn]. apply andb_prop in Ht as [Ht Hn]. apply andb_prop in Ht as [Ha Hnp].
      apply net_is_spec in Hn as [Hi _]. apply Z.eqb_eq in Hw. subst w. destruct sg0; [| discriminate].
      apply negb_true_iff in Hnp. destruct (r_attr _ _ _ R x i Ha Hnp Hi) as [Hg Hd]. apply g_dom_spec in Hd.
      cbn [rsize] in Hs. apply int_leaf; assumption. }
  split; [exact Hv |]. apply cond_of_val; [exact Hv |]. destruct re; bridge.
Qed.

Lemma local_sound x re : val_sound (PLocal x) re /\ cond_sound (PLocal x) re.
Proof.
  assert (Hv : val_sound (PLocal x) re).
  { intros W sg v Ht Hev Hs Hsg. cbn [pyev] in Hev. destruct re; cbn [tv negb orb andb] in Ht; try discriminate.
    apply andb_prop in Ht as [Ht Hw]. apply andb_prop in Ht as [Ht Hsgn]. apply andb_prop in Ht as [Hl Hn].
    apply net_is_spec in Hn as [Hi _]. apply Z.eqb_eq in Hw. subst w. destruct sg0; [| discriminate].
    destruct (r_local _ _ _ R x i v Hl Hi Hev) as [Hg Hd]. apply g_dom_spec in Hd.
    cbn [rsize] in Hs. apply int_leaf; assumption. }
  split; [exact Hv |]. apply cond_of_val; [exact Hv |]. destruct re; bridge.
Qed.

Lemma unsup_sound w re : val_sound (PUnsupported w) re /\ cond_sound (PUnsupported w) re.
Proof. split; intros W sg v Ht Hev; cbn [pyev] in Hev; discriminate. Qed.

(* ---------------------------------------------------------------- unary operators *)
Lemma un_sound o a re : (forall ra, val_sound a ra /\ cond_sound a ra) -> val_sound (PUn o a) re /\ cond_sound (PUn o a) re.
Proof.
  intros IH.
  assert (Hv : val_sound (PUn o a) re).
  { intros W sg v Ht Hev Hs Hsg. destruct re as [| | | | | u ra | | | | |]; try (destruct o; cbn [tv negb orb andb] in Ht; discriminate).
    destruct (IH ra) as [IHv IHc].
    destruct o, u; cbn [tv negb orb andb] in Ht; try discriminate; cbn [pyev] in Hev.
    - apply obind_some in Hev as (va & Hea & Hv'). inversion Hv'; subst v. cbn [rsize] in Hs. cbn [rsigned] in Hsg.
      destruct (IHv W sg va Ht Hea Hs Hsg) as (Hr & _ & H1). cbn [reval rsize ubits]. rewrite Hr. unfold vtrunc.
      split; [apply lnot_mod2; lia | split; [intros n Hn; discriminate | exact H1]].
    - apply obind_some in Hev as (va & Hga & Hv'). inversion Hv'; subst v. apply guard_some in Hga as [Hea Hd].
      pose proof (IHc 0 false va Ht Hea Hd) as Hc. unfold rself in Hc. cbn [reval rsize ubits]. rewrite Hc. unfold vtrunc.
      cbn [rsize] in Hs. split; [reflexivity | split; [intros n Hn; inversion Hn; apply b2z_01 | lia]].
    - apply obind_some in Hev as (va & Hea & Hv'). inversion Hv'; subst v. cbn [rsize] in Hs. cbn [rsigned] in Hsg.
      destruct (IHv W sg va Ht Hea Hs Hsg) as (Hr & _ & H1). cbn [reval rsize ubits]. rewrite Hr. unfold vtrunc.
      split; [apply opp_mod2; lia | split; [intros n Hn; discriminate | exact H1]]. }
  split; [exact Hv |]. apply cond_of_val; [exact Hv |].
  destruct o; destruct re as [| | | | | u ra | | | | |]; try bridge; destruct u; bridge.
Qed.

(* ---------------------------------------------------------------- binary operators *)
Lemma add_bound a b na nb : 0 <= a < 2 ^ na -> 0 <= b < 2 ^ nb -> 0 <= a + b < 2 ^ (Z.max na nb + 1).
Proof.
  intros Ha Hb. pose proof (bound_mono a na (Z.max na nb) Ha ltac:(lia)). pose proof (bound_mono b nb (Z.max na nb) Hb ltac:(lia)).
  assert (0 <= Z.max na nb). { destruct (Z.lt_ge_cases (Z.max na nb) 0) as [Hn | Hp]; [| exact Hp]. rewrite Z.pow_neg_r in H by exact Hn. lia. }
  rewrite Z.pow_add_r by lia. change (2 ^ 1) with 2. lia.
Qed.

Lemma max_nonneg_of_bound v n : 0 <= v < 2 ^ n -> 0 <= n.
Proof. intros H. destruct (Z.lt_ge_cases n 0) as [Hn | Hp]; [| exact Hp]. rewrite Z.pow_neg_r in H by exact Hn. lia. Qed.

Lemma hom_ubits o o' ra rb va vb :
  hom_op o = true -> hom_match o o' = true ->
  (forall n, ubits ra = Some n -> 0 <= va < 2 ^ n) -> (forall n, ubits rb = Some n -> 0 <= vb < 2 ^ n) ->
  forall n, ubits (RBin o' ra rb) = Some n -> 0 <= hom_fun o va vb < 2 ^ n.
Proof.
  intros Ho Hm Ha Hb n Hn. destruct o, o'; try discriminate; cbn [ubits] in Hn; try discriminate; cbn [hom_fun];
    destruct (ubits ra) as [na |]; try discriminate; destruct (ubits rb) as [nb |]; try discriminate; cbn [omax option_map] in Hn; inversion Hn; subst n;
    specialize (Ha na eq_refl); specialize (Hb nb eq_refl).
  - apply add_bound; assumption.
  - pose proof (max_nonneg_of_bound _ _ Ha). apply land_bound; [lia | apply (bound_mono va na); [assumption | lia] | apply (bound_mono vb nb); [assumption | lia]].
  - pose proof (max_nonneg_of_bound _ _ Ha). apply lor_bound; [lia | apply (bound_mono va na); [assumption | lia] | apply (bound_mono vb nb); [assumption | lia]].
  - pose proof (max_nonneg_of_bound _ _ Ha). apply lxor_bound; [lia | apply (bound_mono va na); [assumption | lia] | apply (bound_mono vb nb); [assumption | lia]].
Qed.

Lemma hom_mod o o' x y W : hom_op o = true -> hom_match o o' = true -> 0 <= W ->
  bop o' (x mod 2 ^ W) (y mod 2 ^ W) mod 2 ^ W = hom_fun o x y mod 2 ^ W.
Proof.
  intros Ho Hm HW. destruct o, o'; try discriminate; cbn [bop hom_fun].
  - apply add_mod2; exact HW. - apply sub_mod2; exact HW. - apply mul_mod2; exact HW.
  - apply land_mod2; exact HW. - apply lor_mod2; exact HW. - apply lxor_mod2; exact HW.
Qed.

Lemma hom_reval o o' W sg ra rb : hom_op o = true -> hom_match o o' = true ->
  reval env W sg (RBin o' ra rb) = vtrunc W (bop o' (reval env W sg ra) (reval env W sg rb)) /\
  rsize (RBin o' ra rb) = Z.max (rsize ra) (rsize rb) /\ rsigned (RBin o' ra rb) = rsigned ra && rsigned rb.
Proof. intros Ho Hm. destruct o, o'; try discriminate; auto. Qed.

Lemma bin_sound o a b re :
  (forall ra, val_sound a ra /\ cond_sound a ra) -> (forall rb, val_sound b rb /\ cond_sound b rb) ->
  val_sound (PBin o a b) re /\ cond_sound (PBin o a b) re.
Proof.
  intros IHa IHb.
  assert (Hv : val_sound (PBin o a b) re).
  { intros W sg v Ht Hev Hs Hsg. destruct re as [| | | | | | o' ra rb | | | |]; try (cbn [tv negb orb andb] in Ht; discriminate).
    destruct (IHa ra) as [IHva _]. destruct (IHb rb) as [IHvb _].
    cbn [tv negb orb andb] in Ht. cbn [pyev] in Hev. destruct (hom_op o) eqn:Hhom.
    - (* + - * & | ^ *)
      apply andb_prop in Ht as [Ht Htb]. apply andb_prop in Ht as [Hm Hta].
      apply obind_some in Hev as (va & Hea & Hev). apply obind_some in Hev as (vb & Heb & Hv'). inversion Hv'; subst v.
      destruct (hom_reval o o' W sg ra rb Hhom Hm) as (Hr & Hsz & Hsn). rewrite Hsz in Hs. rewrite Hsn in Hsg.
      destruct (IHva W sg va Hta Hea ltac:(lia)) as (Hra & Hua & H1a). { intros h. apply Hsg in h. apply andb_prop in h. tauto. }
      destruct (IHvb W sg vb Htb Heb ltac:(lia)) as (Hrb & Hub & H1b). { intros h. apply Hsg in h. apply andb_prop in h. tauto. }
      rewrite Hr, Hra, Hrb, Hsz. unfold vtrunc. split; [apply hom_mod; [assumption | assumption | lia] | split; [| lia]].
      apply hom_ubits; assumption.
    - destruct o; try discriminate; destruct o'; try discriminate.
      + (* // *)
        apply andb_prop in Ht as [Ht Hsw]. apply andb_prop in Ht as [Ht Hfb]. apply andb_prop in Ht as [Ht Htb]. apply andb_prop in Ht as [Hta Hfa].
        apply obind_some in Hev as (va & Hga & Hev). apply obind_some in Hev as (vb & Hgb & Hv').
        destruct (vb =? 0) eqn:Hz; [discriminate |]. inversion Hv'; subst v. apply Z.eqb_neq in Hz.
        cbn [rsize arith_op] in Hs. cbn [rsigned arith_op] in Hsg.
        destruct (exact_val a ra W sg va IHva Hta Hfa Hga ltac:(lia)) as (Hra & Hda & Hxa & Hua & H1a). { intros h. apply Hsg in h. apply andb_prop in h. tauto. }
        destruct (exact_val b rb W sg vb IHvb Htb Hfb Hgb ltac:(lia)) as (Hrb & Hdb & Hxb & Hub & H1b). { intros h. apply Hsg in h. apply andb_prop in h. tauto. }
        cbn [reval arith_op rsize ubits]. rewrite Hra, Hrb. pose proof (div_le va vb ltac:(lia) ltac:(lia)) as Hq.
        split; [| split; [| lia]].
        * destruct sg.
          -- apply orb_prop in Hsw as [Hsw | Hsw]; [discriminate |]. rewrite !to_signed_small by lia. rewrite quot_div by lia. reflexivity.
          -- rewrite quot_div by lia. reflexivity.
        * intros n Hn. specialize (Hua n Hn). lia.
      + (* % *)
        apply andb_prop in Ht as [Ht Hsw]. apply andb_prop in Ht as [Ht Hfb]. apply andb_prop in Ht as [Ht Htb]. apply andb_prop in Ht as [Hta Hfa].
        apply obind_some in Hev as (va & Hga & Hev). apply obind_some in Hev as (vb & Hgb & Hv').
        destruct (vb =? 0) eqn:Hz; [discriminate |]. inversion Hv'; subst v. apply Z.eqb_neq in Hz.
        cbn [rsize arith_op] in Hs. cbn [rsigned arith_op] in Hsg.
        destruct (exact_val a ra W sg va IHva Hta Hfa Hga ltac:(lia)) as (Hra & Hda & Hxa & Hua & H1a). { intros h. apply Hsg in h. apply andb_prop in h. tauto. }
        destruct (exact_val b rb W sg vb IHvb Htb Hfb Hgb ltac:(lia)) as (Hrb & Hdb & Hxb & Hub & H1b). { intros h. apply Hsg in h. apply andb_prop in h. tauto. }
        cbn [reval arith_op rsize ubits]. rewrite Hra, Hrb. pose proof (Z.mod_pos_bound va vb ltac:(lia)) as Hq.
        split; [| split; [| lia]].
        * destruct sg.
          -- apply orb_prop in Hsw as [Hsw | Hsw]; [discriminate |]. rewrite !to_signed_small by lia. rewrite rem_mod by lia. reflexivity.
          -- rewrite rem_mod by lia. reflexivity.
        * intros n Hn. specialize (Hub n Hn). lia.
      + (* << *)
        apply andb_prop in Ht as [Ht Hfb]. apply andb_prop in Ht as [Hta Htb].
        apply obind_some in Hev as (va & Hea & Hev). apply obind_some in Hev as (vb & Hgb & Hv').
        destruct (vb <? 0) eqn:Hz; [discriminate |]. inversion Hv'; subst v. apply Z.ltb_ge in Hz.
        cbn [rsize arith_op shift_op] in Hs. cbn [rsigned arith_op shift_op] in Hsg.
        destruct (IHva W sg va Hta Hea Hs Hsg) as (Hra & Hua & H1a).
        destruct (exact_val b rb (rsize rb) (rsigned rb) vb IHvb Htb Hfb Hgb (Z.le_refl _) (fun h => h)) as (Hrb & Hdb & Hxb & Hub & H1b).
        cbn [reval arith_op shift_op rsize ubits]. rewrite Hra, Hrb. unfold vtrunc, py_shl.
        split; [apply shiftl_mod2; lia | split; [intros n Hn; discriminate | exact H1a]].
      + (* >> *)
        apply andb_prop in Ht as [Ht Hfb]. apply andb_prop in Ht as [Ht Htb]. apply andb_prop in Ht as [Hta Hfa].
        apply obind_some in Hev as (va & Hga & Hev). apply obind_some in Hev as (vb & Hgb & Hv').
        destruct (vb <? 0) eqn:Hz; [discriminate |]. inversion Hv'; subst v. apply Z.ltb_ge in Hz.
        cbn [rsize arith_op shift_op] in Hs. cbn [rsigned arith_op shift_op] in Hsg.
        destruct (exact_val a ra W sg va IHva Hta Hfa Hga Hs Hsg) as (Hra & Hda & Hxa & Hua & H1a).
        destruct (exact_val b rb (rsize rb) (rsigned rb) vb IHvb Htb Hfb Hgb (Z.le_refl _) (fun h => h)) as (Hrb & Hdb & Hxb & Hub & H1b).
        cbn [reval arith_op shift_op rsize ubits]. rewrite Hra, Hrb. unfold vtrunc, py_shr.
        split; [reflexivity | split; [| exact H1a]].
        intros n Hn. specialize (Hua n Hn). pose proof (shiftr_le va vb ltac:(lia) Hz). lia. }
  split; [exact Hv |]. apply cond_of_val; [exact Hv |]. destruct re; bridge.
Qed.

(* ---------------------------------------------------------------- comparisons *)
Lemma cmp_reval o o' W sg ra rb x y :
  cmp_match o o' = true -> 1 <= W ->
  forall cw csg, cw = Z.max (rsize ra) (rsize rb) -> csg = rsigned ra && rsigned rb ->
  reval env cw csg ra = x -> reval env cw csg rb = y -> (if csg then to_signed cw x else x) = x -> (if csg then to_signed cw y else y) = y ->
  reval env W sg (RBin o' ra rb) = b2z (cmp_fun o x y) mod 2 ^ W /\ rsize (RBin o' ra rb) = 1 /\ ubits (RBin o' ra rb) = Some 1.
Proof.
  intros Hm HW cw csg Hcw Hcsg Hx Hy Hsx Hsy. destruct o, o'; try discriminate; cbn [reval arith_op shift_op rsize ubits cmp_fun];
    rewrite <- Hcw, <- Hcsg, Hx, Hy, Hsx, Hsy; unfold vtrunc; auto.
Qed.

Lemma cmp_sound o a b re :
  (forall ra, val_sound a ra /\ cond_sound a ra) -> (forall rb, val_sound b rb /\ cond_sound b rb) ->
  val_sound (PCmp o a b) re /\ cond_sound (PCmp o a b) re.
Proof.
  intros IHa IHb.
  assert (Hv : val_sound (PCmp o a b) re).
  { intros W sg v Ht Hev Hs Hsg. destruct re as [| | | | | | o' ra rb | | | |]; try (cbn [tv negb orb andb] in Ht; discriminate).
    destruct (IHa ra) as [IHva _]. destruct (IHb rb) as [IHvb _].
    cbn [tv negb orb andb] in Ht. cbn zeta in Ht. cbn [pyev] in Hev.
    apply andb_prop in Ht as [Ht Hsw]. apply andb_prop in Ht as [Ht Hfb]. apply andb_prop in Ht as [Ht Htb]. apply andb_prop in Ht as [Ht Hfa].
    apply andb_prop in Ht as [Hm Hta].
    apply obind_some in Hev as (va & Hga & Hev). apply obind_some in Hev as (vb & Hgb & Hv'). inversion Hv'; subst v.
    remember (Z.max (rsize ra) (rsize rb)) as cw eqn:Hcw. remember (rsigned ra && rsigned rb) as csg eqn:Hcsg.
    destruct (exact_val a ra cw csg va IHva Hta Hfa Hga ltac:(lia)) as (Hra & Hda & Hxa & Hua & H1a). { intros h. rewrite h in Hcsg. symmetry in Hcsg. apply andb_prop in Hcsg. tauto. }
    destruct (exact_val b rb cw csg vb IHvb Htb Hfb Hgb ltac:(lia)) as (Hrb & Hdb & Hxb & Hub & H1b). { intros h. rewrite h in Hcsg. symmetry in Hcsg. apply andb_prop in Hcsg. tauto. }
    assert (Hsz : rsize (RBin o' ra rb) = 1) by (destruct o, o'; try discriminate; reflexivity).
    rewrite Hsz in Hs.
    destruct (cmp_reval o o' W sg ra rb va vb Hm Hs cw csg Hcw Hcsg Hra Hrb) as (Hr & _ & Hu).
    { destruct csg; [| reflexivity]. apply orb_prop in Hsw as [Hsw | Hsw]; [discriminate |]. apply to_signed_small; lia. }
    { destruct csg; [| reflexivity]. apply orb_prop in Hsw as [Hsw | Hsw]; [discriminate |]. apply to_signed_small; lia. }
    rewrite Hr, Hu, Hsz. split; [reflexivity | split; [| lia]]. intros n Hn. inversion Hn. apply b2z_01. }
  split; [exact Hv |]. apply cond_of_val; [exact Hv |]. destruct re; bridge.
Qed.

(* ---------------------------------------------------------------- and / or *)
Lemma bool_reval o o' W sg ra rb :
  bool_match o o' = true ->
  reval env W sg (RBin o' ra rb) =
    vtrunc W (b2z (match o with PAnd => negb (rself env ra =? 0) && negb (rself env rb =? 0) | POr => negb (rself env ra =? 0) || negb (rself env rb =? 0) end))
  /\ rsize (RBin o' ra rb) = 1 /\ rsigned (RBin o' ra rb) = false /\ ubits (RBin o' ra rb) = Some 1.
Proof. intros Hm. destruct o, o'; try discriminate; auto. Qed.

Lemma bool_sound o a b re :
  (forall ra, val_sound a ra /\ cond_sound a ra) -> (forall rb, val_sound b rb /\ cond_sound b rb) ->
  val_sound (PBool o a b) re /\ cond_sound (PBool o a b) re.
Proof.
  intros IHa IHb. split.
  - intros W sg v Ht Hev Hs Hsg. destruct re as [| | | | | | o' ra rb | | | |]; try (cbn [tv negb orb andb] in Ht; discriminate).
    destruct (IHa ra) as [_ IHca]. destruct (IHb rb) as [_ IHcb].
    cbn [tv negb orb andb] in Ht. apply andb_prop in Ht as [Ht Htb]. apply andb_prop in Ht as [Ht Hta]. apply andb_prop in Ht as [Hm Hbe].
    apply andb_prop in Hbe as [Hba Hbb].
    destruct (bool_reval o o' W sg ra rb Hm) as (Hr & Hsz & _ & Hu). rewrite Hsz in Hs. rewrite Hr, Hu, Hsz. unfold vtrunc.
    assert (Hgoal : b2z (match o with PAnd => negb (rself env ra =? 0) && negb (rself env rb =? 0)
                                  | POr => negb (rself env ra =? 0) || negb (rself env rb =? 0) end) = v /\ (v = 0 \/ v = 1)).
    { destruct o; cbn [pyev] in Hev; apply obind_some in Hev as (va & Hga & Hev); apply guard_some in Hga as [Hea Hda];
        pose proof (IHca 0 false va Hta Hea Hda) as Hca; pose proof (boolexp_01 _ _ _ _ Hba Hea) as H01a; rewrite Hca.
      - destruct (va =? 0) eqn:Hz.
        + inversion Hev; subst v. apply Z.eqb_eq in Hz. subst va. simpl. auto.
        + apply guard_some in Hev as [Heb Hdb]. pose proof (IHcb 0 false v Htb Heb Hdb) as Hcb. pose proof (boolexp_01 _ _ _ _ Hbb Heb) as H01b.
          rewrite Hcb. destruct H01b as [-> | ->]; simpl; auto.
      - destruct (va =? 0) eqn:Hz.
        + apply guard_some in Hev as [Heb Hdb]. pose proof (IHcb 0 false v Htb Heb Hdb) as Hcb. pose proof (boolexp_01 _ _ _ _ Hbb Heb) as H01b.
          rewrite Hcb. destruct H01b as [-> | ->]; simpl; auto.
        + inversion Hev; subst v. destruct H01a as [-> | ->]; [discriminate |]. simpl. auto. }
    destruct Hgoal as [Hg H01]. rewrite Hg. split; [reflexivity | split; [| lia]].
    intros n Hn. inversion Hn. change (2 ^ 1) with 2. lia.
  - intros W sg v Ht Hev Hd. destruct re as [| | | | | | o' ra rb | | | |]; try (cbn [tv negb orb andb] in Ht; rewrite ?andb_false_r in Ht; discriminate).
    destruct (IHa ra) as [_ IHca]. destruct (IHb rb) as [_ IHcb].
    cbn [tv negb orb andb] in Ht. apply andb_prop in Ht as [_ Ht]. apply andb_prop in Ht as [Ht Htb]. apply andb_prop in Ht as [Ht Hta]. apply andb_prop in Ht as [Hm _].
    destruct (bool_reval o o' 1 false ra rb Hm) as (Hr & Hsz & Hsn & _). unfold rself at 1. rewrite Hsz, Hsn, Hr. unfold vtrunc. rewrite b2z_mod by lia.
    destruct o; cbn [pyev] in Hev; apply obind_some in Hev as (va & Hga & Hev); apply guard_some in Hga as [Hea Hda];
      pose proof (IHca 0 false va Hta Hea Hda) as Hca; rewrite Hca.
    + destruct (va =? 0) eqn:Hz.
      * inversion Hev; subst v. rewrite Hz. reflexivity.
      * apply guard_some in Hev as [Heb Hdb]. rewrite (IHcb 0 false v Htb Heb Hdb). destruct (v =? 0); reflexivity.
    + destruct (va =? 0) eqn:Hz.
      * apply guard_some in Hev as [Heb Hdb]. rewrite (IHcb 0 false v Htb Heb Hdb). destruct (v =? 0); reflexivity.
      * inversion Hev; subst v. rewrite Hz. reflexivity.
Qed.

(* ---------------------------------------------------------------- ternary *)
Lemma ifexp_sound c a b re :
  (forall rc, val_sound c rc /\ cond_sound c rc) -> (forall ra, val_sound a ra /\ cond_sound a ra) -> (forall rb, val_sound b rb /\ cond_sound b rb) ->
  val_sound (PIfExp c a b) re /\ cond_sound (PIfExp c a b) re.
Proof.
  intros IHc IHa IHb.
  assert (Hv : val_sound (PIfExp c a b) re).
  { intros W sg v Ht Hev Hs Hsg. destruct re as [| | | | | | | rc ra rb | | |]; try (cbn [tv negb orb andb] in Ht; discriminate).
    destruct (IHc rc) as [_ IHcc]. destruct (IHa ra) as [IHva _]. destruct (IHb rb) as [IHvb _].
    cbn [tv negb orb andb] in Ht. apply andb_prop in Ht as [Ht Htb]. apply andb_prop in Ht as [Htc Hta].
    cbn [pyev] in Hev. apply obind_some in Hev as (vc & Hgc & Hev). apply guard_some in Hgc as [Hec Hdc].
    pose proof (IHcc 0 false vc Htc Hec Hdc) as Hcc. unfold rself in Hcc.
    cbn [rsize] in Hs. cbn [rsigned] in Hsg. cbn [reval rsize ubits]. rewrite Hcc.
    destruct (vc =? 0).
    - destruct (IHvb W sg v Htb Hev ltac:(lia)) as (Hr & Hu & H1). { intros h. apply Hsg in h. apply andb_prop in h. tauto. }
      split; [exact Hr | split; [| lia]]. intros n Hn. destruct (ubits ra) as [na |]; [| discriminate]. destruct (ubits rb) as [nb |]; [| discriminate].
      cbn [omax] in Hn. inversion Hn. apply (bound_mono v nb); [apply Hu; reflexivity | lia].
    - destruct (IHva W sg v Hta Hev ltac:(lia)) as (Hr & Hu & H1). { intros h. apply Hsg in h. apply andb_prop in h. tauto. }
      split; [exact Hr | split; [| lia]]. intros n Hn. destruct (ubits ra) as [na |]; [| discriminate]. destruct (ubits rb) as [nb |]; [| discriminate].
      cbn [omax] in Hn. inversion Hn. apply (bound_mono v na); [apply Hu; reflexivity | lia]. }
  split; [exact Hv |]. apply cond_of_val; [exact Hv |]. destruct re; bridge.
Qed.

(* ---------------------------------------------------------------- all expressions *)
Theorem tv_sound pe : forall re, val_sound pe re /\ cond_sound pe re.
Proof.
  induction pe as [n | p | x | x | o a IHa b IHb | o a IHa | o a IHa b IHb | o a IHa b IHb | c IHc a IHa b IHb | w]; intros re.
  - apply const_sound. - apply get_sound. - apply attr_sound. - apply local_sound.
  - apply bin_sound; assumption. - apply un_sound; assumption. - apply cmp_sound; assumption.
  - apply bool_sound; assumption. - apply ifexp_sound; assumption. - apply unsup_sound.
Qed.
End Sound.
