(* C02 — block level (clock blocks): one simulator cycle of the elaborated module (edge: all posedge processes, then
   the non-blocking queue; settle) corresponds to one call of clock() followed by Wire.settleAll; induction on the
   stimulus gives equal trajectories of output ports and integer attributes. *)
From V Require Import Base.Bits Model.VSyntax Model.VSem Model.PySyntax Model.PySem Model.Tv Spec.C02
  Proofs.C02.Arith Proofs.C02.Expr Proofs.C02.Stmt.
Local Open Scope Z_scope.

Section Block.
Variable E : tvenv.

Lemma rel_set_pend st env p : rel E st env -> rel E (set_pend st p) env.
Proof. intros [R1 R2 R3 R4]. constructor; assumption. Qed.

Lemma rel_clear_locals st env : rel E st env -> rel E (set_locals st (fun _ => None)) env.
Proof. intros [R1 R2 R3 R4]. constructor; cbn [ps_wires ps_attrs ps_locals set_locals]; try assumption. intros x i v _ _ H. discriminate. Qed.

(* Wire.settleAll  ==  applying the non-blocking queue *)
Lemma apply_pend q pend : Forall2 (pend_rel E) q pend -> forall st env, rel E st env -> env_wf (tv_nets E) env ->
  rel E (set_wires st (fold_left (fun w p => upd w (fst p) (snd p)) pend (ps_wires st))) (apply_nbas env q) /\ env_wf (tv_nets E) (apply_nbas env q).
Proof.
  induction 1 as [| t p q pend Hp Hq IH]; intros st env R Hwf.
  - cbn [fold_left apply_nbas]. split; [| exact Hwf]. destruct st; exact R.
  - destruct Hp as (i & w & n & Ht & Hv & Hi & Hn & Hfw & Hpos & Hr & Hport & Hww).
    unfold apply_nbas in *. cbn [fold_left]. rewrite Ht, Hv. rewrite write_full; [| lia | rewrite <- Hfw; apply (proj2 Hwf); exact Hn].
    rewrite Z.mod_small by exact Hr.
    assert (R1 : rel E (set_wires st (upd (ps_wires st) (fst p) (snd p))) (set_nth env i (snd p))).
    { apply rel_set_wire; try assumption. rewrite Hww. exact Hr. }
    assert (W1 : env_wf (tv_nets E) (set_nth env i (snd p))). { apply (env_wf_set _ _ _ n); try assumption. rewrite Hfw. exact Hr. }
    destruct (IH _ _ R1 W1) as [R2 W2]. split; [exact R2 | exact W2].
Qed.
End Block.

(* ---------------------------------------------------------------- facts extracted from tv_flat *)
Lemma list_eqb_refl l : list_eqb l l = true.
Proof. induction l as [| a l IH]; simpl; [reflexivity |]. rewrite Z.eqb_refl. exact IH. Qed.

Record clock_facts (b : pyblock) (f : flat) (c : nat) (ini body : rstmt) : Prop := {
  cf_procs : f_procs f = [(TInit, ini); (TPos c, body)];
  cf_assigns : f_assigns f = [];
  cf_stmt : tv_stmt (mk_env b f) (b_body b) body = true;
  cf_ins : ports_ok (f_nets f) (b_ins b) false = true;
  cf_outs : ports_ok (f_nets f) (b_outs b) true = true;
  cf_pow : powerup_ok (mk_env b f) f = true;
  cf_clk : net_index (f_nets f) (flat_clk f) 0 = Some c }.

Lemma tv_flat_clock b f : b_kind b = KClock -> tv_flat b f = true -> exists c ini body, clock_facts b f c ini body.
Proof.
  intros Hk H. unfold tv_flat in H. rewrite Hk in H.
  apply andb_prop in H as [H Hp]. apply andb_prop in H as [H Ha]. apply andb_prop in H as [H Hpow]. apply andb_prop in H as [Hi Ho].
  destruct (f_assigns f) eqn:Has; [| discriminate].
  destruct (f_procs f) as [| [t1 ini] [| [t2 body] [| ? ?]]] eqn:Hpr; try discriminate; destruct t1; try discriminate; destruct t2 as [c | |]; try discriminate.
  apply andb_prop in Hp as [Hst Hc]. exists c, ini, body. constructor; try assumption; try reflexivity.
  unfold flat_clk. rewrite Hpr. destruct (nth_error (f_nets f) c) as [n |]; [| discriminate].
  apply andb_prop in Hc as [_ Hc]. destruct (net_index (f_nets f) (fn_name n) 0) as [c' |]; [| discriminate]. apply Nat.eqb_eq in Hc. subst. reflexivity.
Qed.

Section Base.
Variable b : pyblock.
Variable f : flat.
Hypothesis HBins : ports_ok (f_nets f) (b_ins b) false = true.
Hypothesis HBouts : ports_ok (f_nets f) (b_outs b) true = true.
Hypothesis HBpow : powerup_ok (mk_env b f) f = true.
Let E := mk_env b f.

Definition binv (st : pystate) (env : list Z) : Prop := rel E st env /\ env_wf (f_nets f) env /\ ps_pend st = [].

Lemma assoc_in l x v : assoc l x = Some v -> In (x, v) l.
Proof. induction l as [| [y w] l IH]; simpl; [discriminate |]. destruct (String.eqb_spec x y) as [-> | Hne]; intros H; [inversion H; auto | auto]. Qed.

Lemma ports_ok_in ps isreg x w : ports_ok (f_nets f) ps isreg = true -> In (x, w) ps ->
  exists i n, net_index (f_nets f) x 0 = Some i /\ nth_error (f_nets f) i = Some n /\ fn_width n = w /\ 0 < w.
Proof.
  unfold ports_ok. intros H Hin. rewrite forallb_forall in H. specialize (H _ Hin). cbn [fst snd] in H.
  destruct (net_index (f_nets f) x 0) as [i |]; [| discriminate]. destruct (nth_error (f_nets f) i) as [n |] eqn:Hn; [| discriminate].
  apply andb_prop in H as [H Hw]. apply andb_prop in H as [Hfw _]. exists i, n. repeat split; auto; lia.
Qed.

Lemma is_port_in x : assoc (b_ins b) x <> None -> is_port E x = true.
Proof.
  intros H. unfold is_port. unfold E; cbn [tv_ins tv_outs mk_env]. destruct (assoc (b_ins b) x) as [w |] eqn:Ha; [| congruence].
  rewrite (assoc_app_l _ _ _ _ Ha). reflexivity.
Qed.

Definition vins (ins : list (string * Z)) : list (nat * Z) :=
  map (fun p => (match net_index (f_nets f) (fst p) 0 with Some i => i | None => length (f_nets f) end, snd p)) ins.

Lemma poke_sound ins : Forall (fun p => assoc (b_ins b) (fst p) <> None) ins -> forall st env, binv st env ->
  binv (py_poke b st ins) (set_inputs f env (vins ins)).
Proof.
  induction 1 as [| [x v] ins Hx Hins IH]; intros st env (R & Hwf & Hp).
  - unfold py_poke, set_inputs. cbn [fold_left vins map]. split; [| split]; try assumption. destruct st; exact R.
  - cbn [fst] in Hx. destruct (assoc (b_ins b) x) as [w |] eqn:Ha; [| congruence].
    destruct (ports_ok_in _ _ _ _ HBins (assoc_in _ _ _ Ha)) as (i & n & Hi & Hn & Hfw & Hpos).
    set (v' := v mod 2 ^ w).
    assert (Hr : 0 <= v' < 2 ^ w) by (apply Z.mod_pos_bound; apply pow2_pos; lia).
    assert (B1 : binv (set_wires st (upd (ps_wires st) x v')) (set_nth env i v')).
    { split; [| split].
      - apply rel_set_wire; try assumption. + apply is_port_in. congruence.
        + unfold E; cbn [tv_ins tv_outs mk_env]. unfold width_in. rewrite (assoc_app_l _ _ _ _ Ha). exact Hr.
      - apply (env_wf_set _ _ _ n); try assumption. rewrite Hfw. exact Hr.
      - exact Hp. }
    specialize (IH _ _ B1).
    replace (py_poke b st ((x, v) :: ins)) with (py_poke b (set_wires st (upd (ps_wires st) x v')) ins).
    2:{ unfold py_poke. cbn [fold_left fst snd set_wires ps_wires ps_attrs ps_locals ps_pend]. replace (width_in (b_ins b) x) with w by (unfold width_in; rewrite Ha; reflexivity). reflexivity. }
    replace (set_inputs f env (vins ((x, v) :: ins))) with (set_inputs f (set_nth env i v') (vins ins)); [exact IH |].
    unfold set_inputs. cbn [vins map fold_left fst snd]. rewrite Hi. rewrite (nth_error_nth _ _ _ Hn). rewrite Hfw. reflexivity.
Qed.

(* power-up *)
Lemma assoc_filter (P : string * Z -> bool) l x v : (forall a b c, P (a, b) = P (a, c)) -> assoc (filter P l) x = Some v -> assoc l x = Some v.
Proof.
  intros HP. induction l as [| [y w] l IH]; simpl; [discriminate |]. destruct (P (y, w)) eqn:Hp; simpl.
  - destruct (String.eqb x y); auto.
  - intros H. specialize (IH H). destruct (String.eqb_spec x y) as [-> | Hne]; [| exact IH].
    exfalso. clear IH. revert H. induction l as [| [z u] l IH2]; simpl; [discriminate |].
    destruct (P (z, u)) eqn:Hq; simpl; [| exact IH2]. destruct (String.eqb_spec y z) as [-> | Hne]; [| exact IH2].
    rewrite (HP z u w) in Hq. congruence.
Qed.

Lemma powerup_sound : binv (py_init b) (power_up f).
Proof.
  pose proof HBpow as H. unfold powerup_ok in H.
  apply andb_prop in H as [H HG]. apply andb_prop in H as [H HF]. apply andb_prop in H as [H HE]. apply andb_prop in H as [H HD].
  apply andb_prop in H as [H HC]. apply andb_prop in H as [HA HB].
  rewrite forallb_forall in HA, HB, HC, HD, HG. unfold E in *; cbn [tv_attrs tv_ins tv_outs tv_consts mk_env] in *.
  split; [| split].
  - constructor; cbn [ps_wires ps_attrs ps_locals py_init].
    + intros p i Hp Hi. change (tv_nets E) with (f_nets f) in Hi. apply readable_port in Hp. unfold is_port in Hp. unfold E in Hp; cbn [tv_ins tv_outs mk_env] in Hp.
      unfold width_in. unfold E; cbn [tv_ins tv_outs mk_env]. destruct (assoc (b_ins b ++ b_outs b) p) as [w |] eqn:Ha; [| discriminate].
      pose proof (assoc_in _ _ _ Ha) as Hin. specialize (HB _ Hin). cbn [fst] in HB. rewrite Hi in HB. apply Z.eqb_eq in HB. split; [exact HB |].
      assert (0 < w).
      { apply in_app_or in Hin as [Hin | Hin].
        - destruct (ports_ok_in _ _ _ _ HBins Hin) as (? & ? & _ & _ & _ & ?). assumption.
        - destruct (ports_ok_in _ _ _ _ HBouts Hin) as (? & ? & _ & _ & _ & ?). assumption. }
      pose proof (pow2_pos w). lia.
    + intros x i Hx Hxp Hi. change (tv_nets E) with (f_nets f) in Hi. unfold is_attr in Hx. unfold E in Hx; cbn [tv_attrs mk_env] in Hx. destruct (assoc (b_attrs b) x) as [v |] eqn:Ha; [| discriminate].
      specialize (HA _ (assoc_in _ _ _ Ha)). cbn [fst snd] in HA. rewrite Hi in HA. apply andb_prop in HA as [HA1 HA2]. apply Z.eqb_eq in HA1.
      split; [exact HA1 |]. apply g_dom_spec. apply in31_spec. exact HA2.
    + intros x i v _ _ Hv. discriminate.
    + intros x v Hc. apply assoc_filter in Hc; [| intros; reflexivity]. rewrite Hc. reflexivity.
  - split.
    + apply Nat.eqb_eq. exact HF.
    + intros i n Hn. assert (Hlt : (i < length (f_nets f))%nat) by (apply nth_error_Some; congruence).
      specialize (HG i). rewrite Hn in HG. assert (Hin : In i (seq 0 (length (f_nets f)))) by (apply in_seq; lia).
      specialize (HG Hin). lia.
  - reflexivity.
Qed.

End Base.

Section Run.
Variable b : pyblock.
Variable f : flat.
Variables (c : nat) (ini body : rstmt).
Hypothesis Hk : b_kind b = KClock.
Hypothesis F : clock_facts b f c ini body.
Let E := mk_env b f.

Lemma settle_id env : settle f (settle_fuel f) env = (env, true).
Proof.
  unfold settle_fuel. cbn [settle]. unfold settle_pass, run_star. rewrite (cf_assigns _ _ _ _ _ F), (cf_procs _ _ _ _ _ F). cbn [fold_left fst].
  rewrite list_eqb_refl. reflexivity.
Qed.

Lemma call_sound st env st' : (binv b f) st env -> py_call g_dom b st = Some st' -> (binv b f) st' (edge f c env).
Proof.
  intros (R & Hwf & Hp) Hc. unfold py_call in Hc. apply obind_some in Hc as (st1 & Hex & Hs). inversion Hs; subst st'. clear Hs.
  assert (Hinv : sinv E (set_locals st (fun _ => None)) (env, [])).
  { split; [| split]; cbn [fst snd]. - apply rel_clear_locals. exact R. - exact Hwf. - cbn [ps_pend set_locals]. rewrite Hp. constructor. }
  pose proof (stmt_sound E Hk _ _ _ _ _ (cf_stmt _ _ _ _ _ F) Hinv Hex) as (R1 & W1 & Q1).
  unfold edge. rewrite (cf_procs _ _ _ _ _ F). cbn [fold_left fst snd]. rewrite Nat.eqb_refl.
  destruct (exec body (env, [])) as [e1 q] eqn:Hexec. cbn [fst snd] in *.
  destruct (apply_pend E q (ps_pend st1) Q1 st1 e1 R1 W1) as [R2 W2].
  unfold py_settle. split; [| split].
  - apply rel_set_pend. exact R2.
  - exact W2.
  - reflexivity.
Qed.

Lemma cycles_sound n : forall st env st', (binv b f) st env -> py_cycles g_dom b n st = Some st' ->
  exists env', vcycles f (Some c) n env true = (env', true) /\ (binv b f) st' env'.
Proof.
  induction n as [| n IH]; intros st env st' Hb Hc; cbn [py_cycles vcycles] in *.
  - inversion Hc; subst. exists env. auto.
  - apply obind_some in Hc as (st1 & Hc1 & Hc2). rewrite settle_id. cbn [andb]. eapply IH; [| exact Hc2]. eapply call_sound; eassumption.
Qed.

Lemma step_sound st env ins n st' : Forall (fun p => assoc (b_ins b) (fst p) <> None) ins -> (binv b f) st env -> py_step g_dom b st ins n = Some st' ->
  exists env', vstep f (Some c) env ((vins f) ins) n = (env', true) /\ (binv b f) st' env'.
Proof.
  intros Hins Hb Hs. unfold py_step in Hs. rewrite Hk in Hs. unfold vstep. rewrite settle_id.
  eapply cycles_sound; [| exact Hs]. apply (poke_sound b f (cf_ins _ _ _ _ _ F)); assumption.
Qed.

(* observation *)
Definition obs_ok (ports attrs : list string) : Prop :=
  Forall (fun p => is_port E p = true /\ net_index (f_nets f) p 0 <> None) ports /\
  Forall (fun x => is_attr E x = true /\ is_port E x = false /\ net_index (f_nets f) x 0 <> None) attrs.

Lemma obs_eq st env ports attrs : rel E st env -> obs_ok ports attrs -> map (getv env) (resolve_names f (ports ++ attrs)) = py_obs st ports attrs.
Proof.
  intros R [Hp Ha]. unfold resolve_names, py_obs. rewrite map_app, map_app. f_equal.
  - induction Hp as [| p ports [Hpp Hpi] _ IH]; [reflexivity |]. cbn [map]. f_equal; [| exact IH].
    destruct (net_index (f_nets f) p 0) as [i |] eqn:Hi; [| congruence].
    apply (r_port _ _ _ R p i); [| exact Hi]. unfold is_readable. unfold E; cbn [tv_kind mk_env]. rewrite Hk. exact Hpp.
  - induction Ha as [| x attrs (Hxa & Hxp & Hxi) _ IH]; [reflexivity |]. cbn [map]. f_equal; [| exact IH].
    destruct (net_index (f_nets f) x 0) as [i |] eqn:Hi; [| congruence].
    apply (r_attr _ _ _ R x i); assumption.
Qed.

Lemma run_sound ports attrs : obs_ok ports attrs -> forall steps st env tr, (binv b f) st env -> pokes_inputs b steps ->
  py_run g_dom b st steps ports attrs = (tr, true) ->
  vrun f (Some c) env true steps (resolve_names f (ports ++ attrs)) = (tr, true).
Proof.
  intros Hobs. induction steps as [| [ins n] steps IH]; intros st env tr Hb Hpk Hr; cbn [py_run vrun] in *.
  - inversion Hr; subst. reflexivity.
  - inversion Hpk as [| ? ? Hins Hrest]; subst. cbn [fst] in Hins.
    destruct (py_step g_dom b st ins n) as [st' |] eqn:Hs; [| discriminate].
    destruct (py_run g_dom b st' steps ports attrs) as [tr' ok'] eqn:Hr'. inversion Hr; subst tr ok'.
    destruct (step_sound _ _ _ _ _ Hins Hb Hs) as (env' & Hv & Hb'). fold ((vins f) ins). rewrite Hv. cbn [andb].
    rewrite (IH _ _ _ Hb' Hrest Hr'). rewrite (obs_eq _ _ _ _ (proj1 Hb') Hobs). reflexivity.
Qed.

Theorem clock_block_sound ports attrs steps tr : obs_ok ports attrs -> pokes_inputs b steps ->
  py_sim g_dom b steps ports attrs = (tr, true) -> vsim f (flat_clk f) steps (ports ++ attrs) = (tr, true).
Proof.
  intros Hobs Hpk Hs. unfold py_sim, py_start in Hs. rewrite Hk in Hs. destruct (py_run g_dom b (py_init b) steps ports attrs) as [tr' ok] eqn:Hr. inversion Hs; subst tr ok.
  unfold vsim. rewrite settle_id. rewrite (cf_clk _ _ _ _ _ F).
  rewrite (run_sound _ _ Hobs _ _ _ _ (powerup_sound b f (cf_ins _ _ _ _ _ F) (cf_outs _ _ _ _ _ F) (cf_pow _ _ _ _ _ F)) Hpk Hr). rewrite (obs_eq _ _ _ _ (proj1 (powerup_sound b f (cf_ins _ _ _ _ _ F) (cf_outs _ _ _ _ _ F) (cf_pow _ _ _ _ _ F))) Hobs). reflexivity.
Qed.
End Run.
