(* C02 — arithmetic facts: the operators + - * & | ^ ~ unary- << commute with "mod 2^W"; bounds of bitwise operators. *)
From V Require Import Base.Bits.
Local Open Scope Z_scope.

Lemma pow2_nz W : 0 <= W -> 2 ^ W <> 0.
Proof. intros H. pose proof (pow2_pos W H). lia. Qed.

Lemma mod_small_pow v W : 0 <= v < 2 ^ W -> v mod 2 ^ W = v.
Proof. intros H. apply Z.mod_small. exact H. Qed.

Lemma add_mod2 a b W : 0 <= W -> (a mod 2 ^ W + b mod 2 ^ W) mod 2 ^ W = (a + b) mod 2 ^ W.
Proof. intros H. rewrite <- Z.add_mod by (apply pow2_nz; exact H). reflexivity. Qed.

Lemma sub_mod2 a b W : 0 <= W -> (a mod 2 ^ W - b mod 2 ^ W) mod 2 ^ W = (a - b) mod 2 ^ W.
Proof. intros H. rewrite <- Zminus_mod. reflexivity. Qed.

Lemma mul_mod2 a b W : 0 <= W -> ((a mod 2 ^ W) * (b mod 2 ^ W)) mod 2 ^ W = (a * b) mod 2 ^ W.
Proof. intros H. rewrite <- Z.mul_mod by (apply pow2_nz; exact H). reflexivity. Qed.

Lemma testbit_mod2 a W n : 0 <= W -> 0 <= n -> Z.testbit (a mod 2 ^ W) n = (n <? W) && Z.testbit a n.
Proof.
  intros HW Hn. destruct (Z.ltb_spec n W) as [Hlt | Hge].
  - rewrite Z.mod_pow2_bits_low by lia. reflexivity.
  - rewrite Z.mod_pow2_bits_high by lia. reflexivity.
Qed.

Lemma land_mod2 a b W : 0 <= W -> Z.land (a mod 2 ^ W) (b mod 2 ^ W) mod 2 ^ W = Z.land a b mod 2 ^ W.
Proof.
  intros H. apply Z.bits_inj'. intros n Hn.
  rewrite !testbit_mod2, !Z.land_spec, !testbit_mod2 by assumption. destruct (n <? W); simpl; reflexivity.
Qed.
Lemma lor_mod2 a b W : 0 <= W -> Z.lor (a mod 2 ^ W) (b mod 2 ^ W) mod 2 ^ W = Z.lor a b mod 2 ^ W.
Proof.
  intros H. apply Z.bits_inj'. intros n Hn.
  rewrite !testbit_mod2, !Z.lor_spec, !testbit_mod2 by assumption. destruct (n <? W); simpl; reflexivity.
Qed.
Lemma lxor_mod2 a b W : 0 <= W -> Z.lxor (a mod 2 ^ W) (b mod 2 ^ W) mod 2 ^ W = Z.lxor a b mod 2 ^ W.
Proof.
  intros H. apply Z.bits_inj'. intros n Hn.
  rewrite !testbit_mod2, !Z.lxor_spec, !testbit_mod2 by assumption. destruct (n <? W); simpl; reflexivity.
Qed.

Lemma opp_mod2 a W : 0 <= W -> (- (a mod 2 ^ W)) mod 2 ^ W = (- a) mod 2 ^ W.
Proof.
  intros H. replace (- (a mod 2 ^ W)) with (0 - a mod 2 ^ W) by lia. replace (- a) with (0 - a) by lia.
  apply Zminus_mod_idemp_r.
Qed.

Lemma lnot_mod2 a W : 0 <= W -> Z.lnot (a mod 2 ^ W) mod 2 ^ W = Z.lnot a mod 2 ^ W.
Proof.
  intros H. unfold Z.lnot. rewrite <- !Z.sub_1_r.
  rewrite (Zminus_mod (- (a mod 2 ^ W)) 1), (Zminus_mod (- a) 1), opp_mod2 by exact H. reflexivity.
Qed.

Lemma shiftl_mod2 a s W : 0 <= W -> 0 <= s -> Z.shiftl (a mod 2 ^ W) s mod 2 ^ W = Z.shiftl a s mod 2 ^ W.
Proof. intros H Hs. rewrite !Z.shiftl_mul_pow2 by exact Hs. apply Zmult_mod_idemp_l. Qed.

(* bounds *)
Lemma lt_pow2_bits v n : 0 <= n -> 0 <= v -> (v < 2 ^ n <-> forall m, n <= m -> Z.testbit v m = false).
Proof.
  intros Hn Hv. split.
  - intros Hlt m Hm. destruct (Z.eq_dec v 0) as [-> | Hnz]; [apply Z.bits_0 |].
    apply Z.bits_above_log2; [exact Hv |]. apply Z.lt_le_trans with n; [| exact Hm].
    apply Z.log2_lt_pow2; lia.
  - intros Hb. destruct (Z.eq_dec v 0) as [-> | Hnz]; [apply pow2_pos; exact Hn |].
    destruct (Z.lt_ge_cases v (2 ^ n)) as [Hlt | Hge]; [exact Hlt |].
    exfalso. assert (Hl : n <= Z.log2 v) by (apply Z.log2_le_pow2; lia).
    specialize (Hb (Z.log2 v) Hl). rewrite Z.bit_log2 in Hb by lia. discriminate.
Qed.

Lemma land_bound a b n : 0 <= n -> 0 <= a < 2 ^ n -> 0 <= b < 2 ^ n -> 0 <= Z.land a b < 2 ^ n.
Proof.
  intros Hn Ha Hb. assert (H0 : 0 <= Z.land a b) by (apply Z.land_nonneg; lia). split; [exact H0 |].
  apply lt_pow2_bits; [exact Hn | exact H0 |]. intros m Hm. rewrite Z.land_spec.
  rewrite (proj1 (lt_pow2_bits a n Hn (proj1 Ha)) (proj2 Ha) m Hm). reflexivity.
Qed.
Lemma lor_bound a b n : 0 <= n -> 0 <= a < 2 ^ n -> 0 <= b < 2 ^ n -> 0 <= Z.lor a b < 2 ^ n.
Proof.
  intros Hn Ha Hb. assert (H0 : 0 <= Z.lor a b) by (apply Z.lor_nonneg; lia). split; [exact H0 |].
  apply lt_pow2_bits; [exact Hn | exact H0 |]. intros m Hm. rewrite Z.lor_spec.
  rewrite (proj1 (lt_pow2_bits a n Hn (proj1 Ha)) (proj2 Ha) m Hm), (proj1 (lt_pow2_bits b n Hn (proj1 Hb)) (proj2 Hb) m Hm). reflexivity.
Qed.
Lemma lxor_bound a b n : 0 <= n -> 0 <= a < 2 ^ n -> 0 <= b < 2 ^ n -> 0 <= Z.lxor a b < 2 ^ n.
Proof.
  intros Hn Ha Hb. assert (H0 : 0 <= Z.lxor a b) by (apply Z.lxor_nonneg; lia). split; [exact H0 |].
  apply lt_pow2_bits; [exact Hn | exact H0 |]. intros m Hm. rewrite Z.lxor_spec.
  rewrite (proj1 (lt_pow2_bits a n Hn (proj1 Ha)) (proj2 Ha) m Hm), (proj1 (lt_pow2_bits b n Hn (proj1 Hb)) (proj2 Hb) m Hm). reflexivity.
Qed.

Lemma bound_mono v a b : 0 <= v < 2 ^ a -> a <= b -> 0 <= v < 2 ^ b.
Proof.
  intros H Hab. assert (0 <= a). { destruct (Z.lt_ge_cases a 0) as [Hneg | Hpos]; [| exact Hpos]. rewrite Z.pow_neg_r in H by exact Hneg. lia. }
  pose proof (pow2_le a b). lia.
Qed.

Lemma log2_bound n : 0 <= n -> 0 <= n < 2 ^ (Z.log2 n + 1).
Proof.
  intros H. split; [exact H |]. destruct (Z.eq_dec n 0) as [-> | Hnz]; [reflexivity |].
  pose proof (Z.log2_spec n). replace (Z.log2 n + 1) with (Z.succ (Z.log2 n)) by lia. lia.
Qed.

Lemma shiftr_le a s : 0 <= a -> 0 <= s -> 0 <= Z.shiftr a s <= a.
Proof.
  intros Ha Hs. rewrite Z.shiftr_div_pow2 by exact Hs. pose proof (pow2_pos s Hs). split.
  - apply Z.div_pos; lia.
  - apply Z.div_le_upper_bound; [lia |]. nia.
Qed.

Lemma div_le a b : 0 <= a -> 0 < b -> 0 <= a / b <= a.
Proof. intros Ha Hb. split; [apply Z.div_pos; lia |]. apply Z.div_le_upper_bound; [lia | nia]. Qed.

Lemma quot_div a b : 0 <= a -> 0 < b -> Z.quot a b = a / b.
Proof. intros. apply Z.quot_div_nonneg; lia. Qed.
Lemma rem_mod a b : 0 <= a -> 0 < b -> Z.rem a b = a mod b.
Proof. intros. apply Z.rem_mod_nonneg; lia. Qed.
