(* C02 — the statements of Properties/C02.v, assembled. *)
From V Require Import Base.Bits Model.VSyntax Model.VSem Model.PySyntax Model.PySem Model.Tv Spec.C02
  Proofs.C02.Arith Proofs.C02.Expr Proofs.C02.Stmt Proofs.C02.Block Proofs.C02.Comb.
Local Open Scope string_scope.
Local Open Scope Z_scope.

Lemma expr_sound E st env pe re W sg v :
  rel E st env -> tv E false W sg pe re = true -> pyev g_dom st pe = Some v -> rsize re <= W -> (sg = true -> rsigned re = true) ->
  reval env W sg re = v mod 2 ^ W.
Proof. intros R Ht Hev Hs Hsg. destruct (tv_sound E st env R pe re) as [Hv _]. exact (proj1 (Hv W sg v Ht Hev Hs Hsg)). Qed.

Lemma expr_exact E st env pe re W sg v :
  rel E st env -> tv E false W sg pe re = true -> pyev g_dom st pe = Some v -> rsize re <= W -> (sg = true -> rsigned re = true) ->
  g_dom v = true -> 31 <= W -> reval env W sg re = v.
Proof.
  intros R Ht Hev Hs Hsg Hd HW. rewrite (expr_sound E st env pe re W sg v) by assumption. apply Z.mod_small.
  apply g_dom_spec in Hd. pose proof (pow31_le W HW). lia.
Qed.

Lemma cond_sound_top E st env pe re v :
  rel E st env -> tv_cond E pe re = true -> pyev g_dom st pe = Some v -> g_dom v = true -> (rself env re =? 0) = (v =? 0).
Proof. intros R Ht Hev Hd. destruct (tv_sound E st env R pe re) as [_ Hc]. exact (Hc 0 false v Ht Hev Hd). Qed.

Lemma block_sound b m : b_kind b = KClock -> tv_block b m = true ->
  exists f, elaborate [m] 200 (m_name m) = inr f /\
    forall ports attrs steps tr, obs_ok b f ports attrs -> pokes_inputs b steps ->
      py_sim g_dom b steps ports attrs = (tr, true) -> vsim f (flat_clk f) steps (ports ++ attrs) = (tr, true).
Proof.
  intros Hk Ht. unfold tv_block in Ht. destruct (elaborate [m] 200 (m_name m)) as [e | f]; [discriminate |].
  exists f. split; [reflexivity |]. destruct (tv_flat_clock b f Hk Ht) as (c & ini & body & F).
  intros ports attrs steps tr. apply (clock_block_sound b f c ini body Hk F).
Qed.

(* non-vacuity: a concrete validated block, a stimulus inside the domain, the hypotheses hold and both sides agree *)
Definition lww_steps : stimulus := [([("a", 5); ("b", 0)], 1%nat); ([("a", 63); ("b", 1)], 2%nat); ([("a", 9); ("b", 0)], 1%nat)].

Lemma lww_validated : match tgt_LastWriteWins with m :: _ => tv_block src_LastWriteWins m = true | [] => False end.
Proof. vm_compute. reflexivity. Qed.

Lemma lww_in_domain : py_sim g_dom src_LastWriteWins lww_steps ["o"] ["s"] = ([[0; 0]; [6; 1]; [63; 1]; [9; 0]], true).
Proof. vm_compute. reflexivity. Qed.

Lemma lww_obs f : elaborate tgt_LastWriteWins 200 "LastWriteWins" = inr f -> obs_ok src_LastWriteWins f ["o"] ["s"].
Proof.
  intros H. vm_compute in H. inversion H; subst f. split; repeat constructor; try (vm_compute; reflexivity); vm_compute; discriminate.
Qed.

Lemma lww_pokes : pokes_inputs src_LastWriteWins lww_steps.
Proof. repeat constructor; simpl; discriminate. Qed.

Lemma matchfsm_validated : match tgt_MatchFsm with m :: _ => tv_block src_MatchFsm m = true | [] => False end.
Proof. vm_compute. reflexivity. Qed.

(* ---------------------------------------------------------------- combinational blocks *)
Lemma comb_sound b m : b_kind b = KPropagate -> tv_block b m = true ->
  exists f, elaborate [m] 200 (m_name m) = inr f /\
    forall clkname ports steps tr, obs_okc b f ports -> pokes_inputs b steps -> comb_steps steps ->
      py_sim g_dom b steps ports [] = (tr, true) -> vsim f clkname steps (ports ++ []) = (tr, true).
Proof.
  intros Hk Ht. unfold tv_block in Ht. destruct (elaborate [m] 200 (m_name m)) as [e | f]; [discriminate |].
  exists f. split; [reflexivity |]. destruct (tv_flat_comb b f Hk Ht) as (ini & body & F).
  intros clkname ports steps tr. apply (comb_block_sound b f ini body Hk F).
Qed.

Definition mux_steps : stimulus := [([("a", 21); ("b", 0)], 0%nat); ([("a", 31); ("b", 1)], 0%nat); ([("a", 4); ("b", 3)], 0%nat)].

Lemma mux_validated : match tgt_CombMux with m :: _ => tv_block src_CombMux m = true | [] => False end.
Proof. vm_compute. reflexivity. Qed.

Lemma mux_in_domain : exists tr, py_sim g_dom src_CombMux mux_steps ["o"] [] = (tr, true) /\ length tr = 4%nat.
Proof. eexists. split; [vm_compute; reflexivity | reflexivity]. Qed.

Lemma mux_obs f : elaborate tgt_CombMux 200 "CombMux" = inr f -> obs_okc src_CombMux f ["o"].
Proof. intros H. vm_compute in H. inversion H; subst f. repeat constructor; try (vm_compute; reflexivity); vm_compute; discriminate. Qed.

Lemma mux_steps_ok : pokes_inputs src_CombMux mux_steps /\ comb_steps mux_steps.
Proof. split; repeat constructor; simpl; discriminate. Qed.
