(* C13 — FPAdder_SP for exponent gaps < 32: sign of the exact sum, error < 2 ulp of the larger operand. *)
From V Require Import Base.Bits Spec.C13 Model.Fp Proofs.C13.Fields Proofs.C13.Cmp Proofs.C13.AddComm.

(* ---- arithmetic of the normalisation step: S is shifted left by clz, bit 0 dropped, exponent ea-clz+1 *)
Lemma out_mag_bounds S clz ea : 0 <= clz <= ea -> 0 <= S ->
  0 <= S * 2 ^ ea - (S * 2 ^ clz / 2) * 2 ^ (ea - clz + 1) <= 2 ^ ea /\
  (1 <= clz -> (S * 2 ^ clz / 2) * 2 ^ (ea - clz + 1) = S * 2 ^ ea).
Proof.
  intros Hc HS. destruct (Z.eq_dec clz 0) as [-> | Hnz].
  - change (2 ^ 0) with 1. rewrite Z.mul_1_r, Z.sub_0_r. rewrite Z.pow_add_r by lia. change (2 ^ 1) with 2.
    pose proof (pow2_pos ea ltac:(lia)). split; [|lia].
    assert (S = 2 * (S / 2) + S mod 2) by (apply Z.div_mod; lia).
    assert (0 <= S mod 2 < 2) by (apply Z.mod_pos_bound; lia). nia.
  - assert (E : S * 2 ^ clz / 2 * 2 ^ (ea - clz + 1) = S * 2 ^ ea).
    { change 2 with (2 ^ 1) at 2. rewrite shl_div_exact by lia.
      rewrite <- Z.mul_assoc, <- Z.pow_add_r by lia. do 2 f_equal. lia. }
    rewrite E. pose proof (pow2_pos ea ltac:(lia)). split; [lia | intros _; reflexivity].
Qed.

Lemma normalise_range S : 0 < S < 2 ^ 25 ->
  let clz := 24 - Z.log2 S in 0 <= clz <= 24 /\ 2 ^ 24 <= S * 2 ^ clz < 2 ^ 25 /\ (S < 2 ^ 24 -> 1 <= clz) /\ (2 ^ 24 <= S -> clz = 0).
Proof.
  intros HS clz. pose proof (Z.log2_spec S ltac:(lia)) as Hl. 
  assert (Hk : 0 <= Z.log2 S < 25) by (split; [apply Z.log2_nonneg | apply Z.log2_lt_pow2; lia]).
  subst clz. set (k := Z.log2 S) in *.
  split; [lia|]. split.
  - replace (2 ^ 24) with (2 ^ k * 2 ^ (24 - k)) by (rewrite <- Z.pow_add_r by lia; f_equal; lia).
    replace (2 ^ 25) with (2 ^ Z.succ k * 2 ^ (24 - k)) by (rewrite <- Z.pow_add_r by lia; f_equal; lia).
    pose proof (pow2_pos (24 - k) ltac:(lia)). nia.
  - split.
    + intros Hlt. destruct (Z.eq_dec k 24) as [E | E]; [rewrite E in Hl; lia | lia].
    + intros Hge. assert (k = 24); [|lia]. apply log2_bounds; [lia|]. change (24 + 1) with 25. lia.
Qed.

(* ---- the whole post-swap computation on integers.
   ma, mb : 24-bit significands; ea >= eb : exponent fields; sub = signs differ;
   X * 2^eb is the magnitude of the exact sum, S the aligned sum/difference *)
Lemma add_arith ma mb ea eb (sub : bool) :
  2 ^ 23 <= ma < 2 ^ 24 -> 2 ^ 23 <= mb < 2 ^ 24 -> 1 <= eb -> eb <= ea <= 254 -> (ea = eb -> mb <= ma) ->
  let d := ea - eb in
  let mb' := mb / 2 ^ d in
  let S := if sub then ma - mb' else ma + mb' in
  let X := if sub then ma * 2 ^ d - mb else ma * 2 ^ d + mb in
  2 ^ 24 <= X * 2 ^ eb < 2 ^ 278 ->
  0 < S < 2 ^ 25 /\ 0 <= mb' <= ma /\
  let clz := 24 - Z.log2 S in
  0 <= clz <= 24 /\ 2 ^ 24 <= S * 2 ^ clz < 2 ^ 25 /\ 1 <= ea - clz + 1 <= 254 /\
  Z.abs ((S * 2 ^ clz / 2) * 2 ^ (ea - clz + 1) - X * 2 ^ eb) < 2 * 2 ^ ea.
Proof.
  intros Hma Hmb Heb Hea Hord d mb' S X Hnorm.
  assert (Hd : 0 <= d) by (unfold d; lia).
  pose proof (pow2_pos d Hd) as HP. pose proof (pow2_pos eb ltac:(lia)) as HU.
  assert (Hea2 : 2 ^ ea = 2 ^ d * 2 ^ eb) by (rewrite <- Z.pow_add_r by lia; f_equal; unfold d; lia).
  assert (Hdm : mb = 2 ^ d * mb' + mb mod 2 ^ d) by (apply Z.div_mod; lia).
  assert (Hrem : 0 <= mb mod 2 ^ d < 2 ^ d) by (apply Z.mod_pos_bound; lia).
  assert (Hmb' : 0 <= mb' <= ma).
  { split; [apply Z.div_pos; lia|]. destruct (Z.eq_dec d 0) as [E | E].
    - unfold mb'. rewrite E. change (2 ^ 0) with 1. rewrite Z.div_1_r. apply Hord. unfold d in E. lia.
    - assert (2 <= 2 ^ d) by (apply pow2_ge_2; lia). assert (mb' < 2 ^ 23); [|lia].
      apply Z.div_lt_upper_bound; [lia|]. nia. }
  assert (Hmb'' : mb' <= mb) by nia.
  set (rem := mb mod 2 ^ d) in *.
  (* exact magnitude relative to S * 2^ea *)
  assert (HXS : if sub then S * 2 ^ ea - X * 2 ^ eb = rem * 2 ^ eb else X * 2 ^ eb - S * 2 ^ ea = rem * 2 ^ eb).
  { unfold S, X. rewrite Hea2. destruct sub; rewrite Hdm at 1; ring. }
  assert (Hrem2 : 0 <= rem * 2 ^ eb < 2 ^ ea) by (rewrite Hea2; nia).
  assert (HS : 0 < S < 2 ^ 25).
  { unfold S. destruct sub; [|lia]. split; [|lia].
    destruct (Z.eq_dec (ma - mb') 0) as [E | E]; [exfalso | lia].
    (* S = 0 forces d = 0 and ma = mb, i.e. an exact sum of 0: excluded by the normal-range hypothesis *)
    unfold S in HXS. rewrite E in HXS. lia. }
  split; [exact HS|]. split; [exact Hmb'|].
  destruct (normalise_range S HS) as (Hclz & HT & Hlt & Hge). cbv zeta.
  set (clz := 24 - Z.log2 S) in *.
  split; [exact Hclz|]. split; [exact HT|].
  assert (Hclz_ea : clz <= ea).
  { destruct sub.
    - (* S * 2^ea >= exact >= 2^24 *)
      assert (2 ^ 24 <= S * 2 ^ ea) by lia.
      pose proof (Z.log2_spec S ltac:(lia)) as Hl.
      pose proof (exp_lower S ea 24 (Z.succ (Z.log2 S)) ltac:(lia) ltac:(pose proof (Z.log2_nonneg S); lia) ltac:(lia) H).
      unfold clz. lia.
    - assert (2 ^ 23 <= S) by (unfold S; lia).
      assert (23 <= Z.log2 S) by (apply Z.log2_le_pow2; lia). unfold clz. lia. }
  destruct (out_mag_bounds S clz ea ltac:(lia) ltac:(lia)) as [Hout Hexact].
  split.
  - split; [lia|]. destruct (Z.eq_dec ea 254) as [E254 | ]; [|lia].
    destruct (Z.eq_dec clz 0) as [E0 | ]; [exfalso | lia].
    (* clz = 0 means S >= 2^24, only possible when adding; then the exact sum is >= 2^24 * 2^254 = 2^278 *)
    assert (2 ^ 24 <= S) by (rewrite E0 in HT; change (2 ^ 0) with 1 in HT; lia).
    destruct sub; [unfold S in *; lia|].
    assert (2 ^ 278 <= S * 2 ^ ea).
    { rewrite E254. replace (2 ^ 278) with (2 ^ 24 * 2 ^ 254) by (rewrite <- Z.pow_add_r by lia; reflexivity). nia. }
    lia.
  - destruct sub.
    + (* S < 2^24: clz >= 1, the truncation is exact *)
      assert (S < 2 ^ 24) by (unfold S; lia). rewrite (Hexact (Hlt H)). lia.
    + lia.
Qed.

(* ---- the datapath after the swap computes exactly these integers *)
Lemma add_core_gen_bound ew x y : 0 <= ew -> normal x -> normal y -> mag y <= mag x -> expo x - expo y < 2 ^ ew ->
  add_exact_normal x y -> add_spec x y (add_core_gen ew x y).
Proof.
  intros Hew [Hx Hex] [Hy Hey] Hmag Hgap Hnorm.
  pose proof (frac_range x) as Hfx. pose proof (frac_range y) as Hfy.
  destruct (mag_order x y) as (A1 & A2 & _).
  assert (Hord1 : expo y <= expo x) by lia.
  assert (Hord2 : expo x = expo y -> 2 ^ 23 + frac y <= 2 ^ 23 + frac x) by (intros E; specialize (A2 E); lia).
  set (ea := expo x) in *. set (eb := expo y) in *.
  set (ma := 2 ^ 23 + frac x) in *. set (mb := 2 ^ 23 + frac y) in *.
  set (sub := xorb (negative x) (negative y)).
  set (d := ea - eb).
  set (X := if sub then ma * 2 ^ d - mb else ma * 2 ^ d + mb).
  assert (Hea2 : 2 ^ ea = 2 ^ d * 2 ^ eb) by (rewrite <- Z.pow_add_r by (unfold d; lia); f_equal; unfold d; lia).
  assert (Hmx : mag x = ma * 2 ^ ea) by reflexivity.
  assert (Hmy : mag y = mb * 2 ^ eb) by reflexivity.
  assert (HX0 : 0 <= X * 2 ^ eb).
  { unfold X. destruct sub; [|pose proof (pow2_pos d ltac:(unfold d; lia)); pose proof (pow2_pos eb ltac:(lia)); nia].
    rewrite Hmx, Hmy, Hea2 in Hmag. lia. }
  assert (Hsum : sval x + sval y = (if negative x then -1 else 1) * (X * 2 ^ eb)).
  { rewrite !sval_mag, Hmx, Hmy, Hea2. unfold X, sub. destruct (negative x), (negative y); simpl xorb; cbv iota; ring. }
  unfold add_exact_normal, normal_range in Hnorm. change (150 - 126) with 24 in Hnorm. change (150 + 128) with 278 in Hnorm.
  assert (HnX : 2 ^ 24 <= X * 2 ^ eb < 2 ^ 278).
  { rewrite Hsum in Hnorm. destruct (negative x); lia. }
  pose proof (add_arith ma mb ea eb sub ltac:(unfold ma; lia) ltac:(unfold mb; lia) ltac:(lia) ltac:(lia) Hord2) as Har.
  cbv zeta in Har. fold d in Har. fold X in Har. specialize (Har HnX).
  destruct Har as (HS & Hmb' & Hclz & HT & Her & Herr).
  set (mb' := mb / 2 ^ d) in *.
  set (S := if sub then ma - mb' else ma + mb') in *.
  set (clz := 24 - Z.log2 S) in *.
  (* the model, wire by wire *)
  assert (Hcore : add_core_gen ew x y = pack (negative x) (ea - clz + 1) (S * 2 ^ clz / 2 - 2 ^ 23)).
  { unfold add_core_gen. rewrite !fp_m_normal, !fp_e_expo, !fp_s_negative by (assumption || lia).
    fold ea eb ma mb sub. cbv zeta.
    replace (sub_w ew ea eb) with d by (unfold sub_w; symmetry; apply trunc_small; unfold d; lia).
    replace (shr_w 24 mb d) with mb'
      by (unfold shr_w; rewrite shiftr_div by (unfold d; lia); symmetry; apply trunc_small; unfold ma, mb' in *; lia).
    assert (HmrS : mux2 sub (add_w 25 ma mb') (sub_w 25 ma mb') = S).
    { unfold S, mux2, add_w, sub_w. destruct sub; apply trunc_small; unfold ma, mb in *; lia. }
    rewrite HmrS.
    destruct (clz_w_pos 25 5 S ltac:(lia) ltac:(lia) ltac:(lia)) as [Hc _].
    rewrite Hc. replace (25 - 1 - Z.log2 S) with clz by (unfold clz; lia).
    replace (shl_w 25 S clz) with (S * 2 ^ clz)
      by (unfold shl_w; rewrite shiftl_mul by lia; symmetry; apply trunc_small; lia).
    replace (add_w 8 (sub_w 8 ea clz) 1) with (ea - clz + 1)
      by (unfold add_w, sub_w; rewrite trunc_add_l by lia; symmetry; apply trunc_small; lia).
    rewrite rng_divmod by lia. change (2 ^ 1) with 2. change (23 - 1 + 1) with 23.
    assert (2 ^ 23 <= S * 2 ^ clz / 2 < 2 ^ 24) by lia.
    replace ((S * 2 ^ clz / 2) mod 2 ^ 23) with (S * 2 ^ clz / 2 - 2 ^ 23) by lia.
    apply cat_sem_pack; lia. }
  rewrite Hcore.
  assert (Hq : 2 ^ 23 <= S * 2 ^ clz / 2 < 2 ^ 24) by lia.
  unfold add_spec, normal, ulp_s.
  rewrite pack_expo, pack_negative by lia.
  split; [split; [apply pack_word; lia | lia]|]. split.
  - rewrite Hsum. destruct (negative x); destruct (Z.ltb_spec (-1 * (X * 2 ^ eb)) 0); destruct (Z.ltb_spec (1 * (X * 2 ^ eb)) 0); try reflexivity; lia.
  - rewrite sval_pack by lia. rewrite Hsum.
    replace (2 ^ 23 + (S * 2 ^ clz / 2 - 2 ^ 23)) with (S * 2 ^ clz / 2) by lia.
    fold ea eb. replace (Z.max ea eb) with ea by lia.
    set (OM := S * 2 ^ clz / 2 * 2 ^ (ea - clz + 1)) in *. set (EX := X * 2 ^ eb) in *.
    clearbody OM EX. clear - Herr. destruct (negative x); lia.
Qed.

(* ---- with the swap stage in front: an ew-bit ediff wire is exact for exponent gaps below 2^ew *)
Lemma fpadd_w_gap_lemma ew a b : 0 <= ew -> normal a -> normal b -> Z.abs (expo a - expo b) < 2 ^ ew ->
  add_exact_normal a b -> add_spec a b (fpadd_w ew a b).
Proof.
  intros Hew Ha Hb Hgap Hnorm. unfold fpadd_w. rewrite add_swap_val by (apply Ha || apply Hb).
  destruct (mag_order a b) as (A1 & _). destruct (mag_order b a) as (B1 & _).
  destruct (Z.ltb_spec (mag a) (mag b)) as [Hlt | Hge]; cbn [fst snd].
  - assert (expo a <= expo b) by lia.
    assert (Hsp : add_spec b a (add_core_gen ew b a)).
    { apply add_core_gen_bound; try assumption; try lia.
      unfold add_exact_normal in *. rewrite Z.add_comm. exact Hnorm. }
    unfold add_spec in *. rewrite (Z.add_comm (sval a) (sval b)), (Z.max_comm (expo a) (expo b)). exact Hsp.
  - assert (expo b <= expo a) by lia. apply add_core_gen_bound; try assumption; lia.
Qed.

(* 8 bits or more cover every gap between normal exponent fields (at most 253) *)
Lemma fpadd_w_total_lemma ew a b : 8 <= ew -> normal a -> normal b -> add_exact_normal a b -> add_spec a b (fpadd_w ew a b).
Proof.
  intros Hew Ha Hb Hnorm. apply fpadd_w_gap_lemma; try assumption; [lia|].
  pose proof (proj2 Ha). pose proof (proj2 Hb). pose proof (pow2_le 8 ew ltac:(lia)). lia.
Qed.

Lemma fpadd_bound_lemma a b : normal a -> normal b -> add_exact_normal a b -> add_spec a b (fpadd a b).
Proof. intros. apply (fpadd_w_total_lemma 8); try assumption; lia. Qed.
