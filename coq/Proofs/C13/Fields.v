(* C13 — field extraction, packing and the word-level sub-block functions, characterised arithmetically. *)
From V Require Import Base.Bits Spec.C13 Model.Fp.

Lemma rng_divmod hi lo v : 0 <= lo <= hi + 1 -> rng hi lo v = (v / 2 ^ lo) mod 2 ^ (hi - lo + 1).
Proof. intros; unfold rng. rewrite trunc_mod, shiftr_div by lia. reflexivity. Qed.

Lemma fp_e_expo a : fp_e a = expo a.
Proof. unfold fp_e, expo. rewrite rng_divmod by lia. reflexivity. Qed.

Lemma fp_f_frac a : fp_f a = frac a.
Proof. unfold fp_f, frac. rewrite rng_divmod by lia. change (2 ^ 0) with 1. rewrite Z.div_1_r. reflexivity. Qed.

Lemma testbit_top w v : 0 <= w -> 0 <= v < 2 ^ (w + 1) -> Z.testbit v w = (2 ^ w <=? v).
Proof.
  intros Hw Hv. pose proof (testbit_high (w + 1) v ltac:(lia) Hv) as H.
  replace (w + 1 - 1) with w in H by lia. exact H.
Qed.

Lemma fp_s_negative a : word a -> fp_s a = negative a.
Proof. intros Ha. unfold fp_s, negative. apply (testbit_top 31); [lia | exact Ha]. Qed.

Lemma expo_range a : 0 <= expo a < 2 ^ 8.
Proof. unfold expo. apply Z.mod_pos_bound. lia. Qed.

Lemma frac_range a : 0 <= frac a < 2 ^ 23.
Proof. unfold frac. apply Z.mod_pos_bound. lia. Qed.

(* a 32-bit word is the sum of its fields *)
Lemma word_fields a : word a -> a = b2z (negative a) * 2 ^ 31 + expo a * 2 ^ 23 + frac a.
Proof.
  unfold word, negative, expo, frac. intros Ha.
  destruct (Z.leb_spec (2 ^ 31) a); simpl b2z; lia.
Qed.

(* ---- packing *)
Definition pack (s : bool) (e m : Z) : Z := b2z s * 2 ^ 31 + e * 2 ^ 23 + m.

Lemma cat_sem_pack s e m : 0 <= e < 2 ^ 8 -> 0 <= m < 2 ^ 23 -> cat_sem s e m = pack s e m.
Proof.
  intros He Hm. unfold cat_sem, pack.
  rewrite (lor_add_disjoint (b2z s) e 8) by lia.
  rewrite (lor_add_disjoint (b2z s * 2 ^ 8 + e) m 23) by lia.
  rewrite trunc_small by (destruct s; simpl b2z; lia).
  destruct s; simpl b2z; lia.
Qed.

Lemma pack_word s e m : 0 <= e < 2 ^ 8 -> 0 <= m < 2 ^ 23 -> word (pack s e m).
Proof. intros; unfold word, pack. destruct s; simpl b2z; lia. Qed.

Lemma pack_expo s e m : 0 <= e < 2 ^ 8 -> 0 <= m < 2 ^ 23 -> expo (pack s e m) = e.
Proof. intros; unfold expo, pack. destruct s; simpl b2z; lia. Qed.

Lemma pack_frac s e m : 0 <= e < 2 ^ 8 -> 0 <= m < 2 ^ 23 -> frac (pack s e m) = m.
Proof. intros; unfold frac, pack. destruct s; simpl b2z; lia. Qed.

Lemma pack_negative s e m : 0 <= e < 2 ^ 8 -> 0 <= m < 2 ^ 23 -> negative (pack s e m) = s.
Proof. intros; unfold negative, pack. destruct s; simpl b2z; lia. Qed.

Lemma pack_fields a : word a -> a = pack (negative a) (expo a) (frac a).
Proof. exact (word_fields a). Qed.

(* ---- magnitudes *)
Definition mag (a : Z) : Z := (2 ^ 23 + frac a) * 2 ^ expo a.

Lemma sval_mag a : sval a = if negative a then - mag a else mag a.
Proof. unfold sval, mag. destruct (negative a); lia. Qed.

Lemma mag_pos a : 0 < mag a.
Proof.
  unfold mag. pose proof (frac_range a). pose proof (expo_range a).
  pose proof (pow2_pos (expo a) ltac:(lia)). nia.
Qed.

Lemma pow2_split a b : 0 <= a <= b -> 2 ^ b = 2 ^ (b - a) * 2 ^ a.
Proof. intros. rewrite <- Z.pow_add_r by lia. f_equal; lia. Qed.

Lemma pow2_ge_2 n : 1 <= n -> 2 <= 2 ^ n.
Proof. intros. change 2 with (2 ^ 1) at 1. apply pow2_le; lia. Qed.

(* larger exponent field -> larger magnitude, whatever the fractions *)
Lemma mag_lt_exp ea eb ma mb : 0 <= ma < 2 ^ 23 -> 0 <= mb < 2 ^ 23 -> 0 <= ea < eb ->
  (2 ^ 23 + ma) * 2 ^ ea < (2 ^ 23 + mb) * 2 ^ eb.
Proof.
  intros Hma Hmb He. rewrite (pow2_split ea eb) by lia.
  pose proof (pow2_ge_2 (eb - ea) ltac:(lia)). pose proof (pow2_pos ea ltac:(lia)). nia.
Qed.

Lemma mag_lt_frac e ma mb : 0 <= e -> ma < mb -> (2 ^ 23 + ma) * 2 ^ e < (2 ^ 23 + mb) * 2 ^ e.
Proof. intros He Hm. pose proof (pow2_pos e He). nia. Qed.

(* ---- the w-bit comparator *)
Lemma cmp_w_spec w a b : 0 < w -> 0 <= a < 2 ^ w -> 0 <= b < 2 ^ w ->
  cmp_w w a b = (b <? a, a =? b, a <? b).
Proof.
  intros Hw Ha Hb. unfold cmp_w, sub_w.
  assert (Hp : 2 ^ (w + 1) = 2 * 2 ^ w) by (rewrite Z.pow_add_r by lia; lia).
  destruct (Z.ltb_spec a b) as [Hlt | Hge].
  - assert (E : trunc (w + 1) (a - b) = a - b + 2 ^ (w + 1)).
    { rewrite <- (trunc_add_pow (w + 1) (a - b) 1) by lia. rewrite Z.mul_1_l. apply trunc_small; lia. }
    rewrite E. rewrite testbit_top by lia.
    replace (2 ^ w <=? a - b + 2 ^ (w + 1)) with true by lia.
    replace (a - b + 2 ^ (w + 1) =? 0) with false by lia.
    replace (b <? a) with false by lia. replace (a =? b) with false by lia. reflexivity.
  - rewrite trunc_small by lia. rewrite testbit_top by lia.
    replace (2 ^ w <=? a - b) with false by lia.
    destruct (Z.eqb_spec a b) as [-> | Hne].
    + rewrite Z.sub_diag. simpl. replace (b <? b) with false by lia. reflexivity.
    + replace (a - b =? 0) with false by lia. replace (b <? a) with true by lia. reflexivity.
Qed.

(* ---- hidden bit and the 24-bit significand of a normal operand *)
Lemma fp_m_normal a : 1 <= expo a -> fp_m a = 2 ^ 23 + frac a.
Proof.
  intros He. unfold fp_m, fp_hidden. rewrite fp_e_expo, fp_f_frac.
  replace (expo a =? 0) with false by lia. simpl negb. simpl b2z.
  pose proof (frac_range a). rewrite (lor_add_disjoint 1 (frac a) 23) by lia.
  apply trunc_small; lia.
Qed.

(* ---- leading-zero count *)
Lemma log2_bounds a k : 0 <= k -> 2 ^ k <= a < 2 ^ (k + 1) -> Z.log2 a = k.
Proof. intros Hk Ha. apply Z.log2_unique; lia. Qed.

Lemma clz_w_pos aw rw a : 0 < a < 2 ^ aw -> 0 < aw <= 2 ^ rw -> 0 <= rw ->
  clz_w aw rw a = aw - 1 - Z.log2 a /\ 0 <= Z.log2 a < aw.
Proof.
  intros Ha Haw Hrw. unfold clz_w. replace (a =? 0) with false by lia.
  assert (Hl : 0 <= Z.log2 a < aw).
  { split; [apply Z.log2_nonneg|]. apply Z.log2_lt_pow2; lia. }
  split; [|exact Hl]. apply trunc_small; lia.
Qed.

(* ---- powers of two: shifting left then dividing / reducing *)
Lemma shl_div_exact n p q : 0 <= q <= p -> (n * 2 ^ p) / 2 ^ q = n * 2 ^ (p - q).
Proof.
  intros H. rewrite (pow2_split q p) by lia. rewrite Z.mul_assoc. apply Z.div_mul. pose proof (pow2_pos q); lia.
Qed.

Lemma shl_div_floor n p q : 0 <= p <= q -> (n * 2 ^ p) / 2 ^ q = n / 2 ^ (q - p).
Proof.
  intros H. rewrite (pow2_split p q) by lia.
  apply Z.div_mul_cancel_r; [pose proof (pow2_pos (q - p)) | pose proof (pow2_pos p)]; lia.
Qed.

Lemma shl_mod_exact n p q : 0 <= q <= p -> (n * 2 ^ p) mod 2 ^ q = 0.
Proof.
  intros H. rewrite (pow2_split q p) by lia. rewrite Z.mul_assoc. apply Z.mod_mul. pose proof (pow2_pos q); lia.
Qed.

Lemma shl_mod_floor n p q : 0 <= p <= q -> (n * 2 ^ p) mod 2 ^ q = (n mod 2 ^ (q - p)) * 2 ^ p.
Proof.
  intros H. rewrite (pow2_split p q) by lia.
  apply Z.mul_mod_distr_r; [pose proof (pow2_pos (q - p)) | pose proof (pow2_pos p)]; lia.
Qed.

(* bounds on an exponent from bounds on  P * 2^E *)
Lemma exp_lower P E K p : 0 <= E -> 0 <= p -> 0 <= P < 2 ^ p -> 2 ^ K <= P * 2 ^ E -> K - p < E.
Proof.
  intros HE Hp HP H. destruct (Z.lt_ge_cases (K - p) E) as [|Hc]; [assumption|exfalso].
  assert (2 ^ (E + p) <= 2 ^ K) by (apply pow2_le; lia).
  rewrite Z.pow_add_r in * by lia. pose proof (pow2_pos E HE). nia.
Qed.

Lemma exp_upper P E K p : 0 <= E -> 0 <= p -> 2 ^ p <= P -> P * 2 ^ E < 2 ^ K -> E < K - p.
Proof.
  intros HE Hp HP H. destruct (Z.lt_ge_cases E (K - p)) as [|Hc]; [assumption|exfalso].
  destruct (Z.lt_ge_cases K 0).
  - rewrite (Z.pow_neg_r 2 K) in H by lia. pose proof (pow2_pos E HE). pose proof (pow2_pos p Hp). nia.
  - assert (2 ^ K <= 2 ^ (E + p)) by (apply pow2_le; lia).
    rewrite Z.pow_add_r in * by lia. pose proof (pow2_pos E HE). nia.
Qed.

Lemma sval_pack s e m : 0 <= e < 2 ^ 8 -> 0 <= m < 2 ^ 23 ->
  sval (pack s e m) = (if s then -1 else 1) * ((2 ^ 23 + m) * 2 ^ e).
Proof. intros He Hm. unfold sval. rewrite pack_negative, pack_frac, pack_expo by assumption. reflexivity. Qed.
