(* C13 — FPAdder_SP: the comparator + Swap stage puts the operand of larger magnitude first; commutativity. *)
From V Require Import Base.Bits Spec.C13 Model.Fp Proofs.C13.Fields Proofs.C13.Cmp.

Lemma add_swap_val a b : word a -> word b ->
  add_swap a b = if mag a <? mag b then (b, a) else (a, b).
Proof.
  intros Ha Hb. unfold add_swap. rewrite fpcmp_abs by assumption. cbn [snd]. unfold mux2.
  destruct (mag a <? mag b); reflexivity.
Qed.

(* equal magnitudes: same exponent and fraction fields *)
Lemma mag_inj a b : mag a = mag b -> expo a = expo b /\ frac a = frac b.
Proof.
  intros H. destruct (mag_order a b) as (A1 & A2 & _). destruct (mag_order b a) as (B1 & B2 & _).
  assert (expo a = expo b) by lia. split; [assumption|]. lia.
Qed.

Lemma fpadd_w_comm_lemma ew a b : word a -> word b -> sval a + sval b <> 0 -> fpadd_w ew a b = fpadd_w ew b a.
Proof.
  intros Ha Hb Hnz. unfold fpadd_w. rewrite (add_swap_val a b), (add_swap_val b a) by assumption.
  destruct (Z.ltb_spec (mag a) (mag b)); destruct (Z.ltb_spec (mag b) (mag a)); try reflexivity; try lia.
  assert (Hm : mag a = mag b) by lia. destruct (mag_inj a b Hm) as [He Hf].
  assert (negative a = negative b).
  { rewrite !sval_mag in Hnz. pose proof (mag_pos a). destruct (negative a), (negative b); try reflexivity; lia. }
  assert (a = b) by (rewrite (pack_fields a Ha), (pack_fields b Hb); congruence).
  subst b. reflexivity.
Qed.

Lemma fpadd_comm_lemma a b : word a -> word b -> sval a + sval b <> 0 -> fpadd a b = fpadd b a.
Proof. exact (fpadd_w_comm_lemma 8 a b). Qed.
