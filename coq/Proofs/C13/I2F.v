(* C13 — InttoFP_SP: every 32-bit integer is converted by truncation toward zero to 24 significant bits,
   p_lost exactly when bits were discarded. *)
From V Require Import Base.Bits Spec.C13 Model.Fp Proofs.C13.Fields.

(* the arithmetic core: n has its leading one at position k; S = n normalised to 32 bits *)
Lemma i2f_core n k : 0 <= k <= 31 -> 0 <= n ->
  let S := n * 2 ^ (31 - k) in let sh := Z.max 0 (k - 23) in
  (S / 2 ^ 8) * 2 ^ (127 + k) = (n / 2 ^ sh) * 2 ^ sh * 2 ^ 150 /\
  (S mod 2 ^ 8 = 0 <-> (n / 2 ^ sh) * 2 ^ sh = n).
Proof.
  intros Hk Hn S sh. subst S. destruct (Z.le_gt_cases k 23) as [Hle | Hgt].
  - replace sh with 0 by lia. change (2 ^ 0) with 1. rewrite Z.div_1_r, Z.mul_1_r.
    rewrite shl_div_exact, shl_mod_exact by lia. split; [|tauto].
    rewrite <- Z.mul_assoc, <- Z.pow_add_r by lia. do 2 f_equal. lia.
  - replace sh with (k - 23) by lia.
    rewrite shl_div_floor, shl_mod_floor by lia.
    replace (8 - (31 - k)) with (k - 23) by lia. split.
    + rewrite <- !Z.mul_assoc, <- Z.pow_add_r by lia. do 2 f_equal. lia.
    + pose proof (pow2_pos (k - 23) ltac:(lia)). pose proof (pow2_pos (31 - k) ltac:(lia)).
      split; intros H1.
      * assert (n mod 2 ^ (k - 23) = 0) by nia. lia.
      * assert (n mod 2 ^ (k - 23) = 0) by lia. nia.
Qed.

(* Abs on 32 bits: magnitude and sign of the two's complement reading *)
Lemma abs32 a : word a ->
  mux2 (Z.testbit a 31) a (sub_w 32 0 a) = Z.abs (sgn 32 a) /\ Z.testbit a 31 = (sgn 32 a <? 0) /\ Z.abs (sgn 32 a) <= 2 ^ 31.
Proof.
  intros Ha. unfold word in Ha. rewrite (testbit_top 31) by lia. unfold sgn, mux2, sub_w.
  change (32 - 1) with 31. destruct (Z.ltb_spec a (2 ^ 31)) as [Hlt | Hge].
  - replace (2 ^ 31 <=? a) with false by lia. repeat split; lia.
  - replace (2 ^ 31 <=? a) with true by lia.
    rewrite <- (trunc_add_pow 32 (0 - a) 1), trunc_small by lia. repeat split; lia.
Qed.

Lemma int2fp_zero : int2fp 0 = (0, false).
Proof. vm_compute. reflexivity. Qed.

Lemma int2fp_trunc_lemma a : word a -> int2fp_spec a (fst (int2fp a)) (snd (int2fp a)).
Proof.
  intros Ha. unfold int2fp_spec. destruct (abs32 a Ha) as (Habs & Hsign & Hle).
  destruct (Z.eqb_spec (sgn 32 a) 0) as [Hz | Hnz].
  - assert (a = 0). { unfold word in Ha. unfold sgn in Hz. change (32 - 1) with 31 in Hz. clear Habs Hsign Hle. destruct (Z.ltb_spec a (2 ^ 31)); [assumption | lia]. }
    subst a. rewrite int2fp_zero. split; reflexivity.
  - set (x := sgn 32 a) in *. set (n := Z.abs x) in *.
    assert (Hn : 0 < n) by (unfold n; lia).
    unfold int2fp. rewrite Habs. fold n.
    destruct (clz_w_pos 32 5 n ltac:(lia) ltac:(lia) ltac:(lia)) as [Hclz Hk].
    pose proof (Z.log2_spec n Hn) as Hlog.
    set (k := Z.log2 n) in *.
    assert (Hk31 : 0 <= k <= 31) by lia.
    rewrite Hclz. replace (32 - 1 - k) with (31 - k) by lia.
    replace (n =? 0) with false by lia.
    unfold shl_w. rewrite shiftl_mul by lia.
    assert (HS : 2 ^ 31 <= n * 2 ^ (31 - k) < 2 ^ 32).
    { replace (2 ^ 31) with (2 ^ k * 2 ^ (31 - k)) by (rewrite <- Z.pow_add_r by lia; f_equal; lia).
      replace (2 ^ 32) with (2 ^ (Z.succ k) * 2 ^ (31 - k)) by (rewrite <- Z.pow_add_r by lia; f_equal; lia).
      pose proof (pow2_pos (31 - k) ltac:(lia)). nia. }
    rewrite trunc_small by lia.
    destruct (i2f_core n k Hk31 ltac:(lia)) as [Hval Hlost]. cbv zeta in Hval, Hlost.
    set (S := n * 2 ^ (31 - k)) in *.
    rewrite !rng_divmod by lia. change (2 ^ 0) with 1. rewrite Z.div_1_r.
    unfold sub_w. rewrite (trunc_small 8 (158 - (31 - k))) by lia.
    assert (Hq : 2 ^ 23 <= S / 2 ^ 8 < 2 ^ 24) by lia.
    replace ((S / 2 ^ 8) mod 2 ^ (30 - 8 + 1)) with (S / 2 ^ 8 - 2 ^ 23) by lia.
    rewrite cat_sem_pack by lia. unfold mux2. cbn [fst snd].
    split; [split; [apply pack_word; lia | rewrite pack_expo by lia; lia]|].
    split.
    + rewrite sval_pack by lia. rewrite Hsign.
      replace (2 ^ 23 + (S / 2 ^ 8 - 2 ^ 23)) with (S / 2 ^ 8) by lia.
      replace (158 - (31 - k)) with (127 + k) by lia. rewrite Hval.
      unfold trunc_sig24. fold k. 
      destruct (Z.ltb_spec x 0).
      * replace (Z.sgn x) with (-1) by lia. ring.
      * replace (Z.sgn x) with 1 by lia. ring.
    + unfold trunc_sig24. fold k. change (7 - 0 + 1) with 8.
      destruct (Z.eqb_spec (S mod 2 ^ 8) 0) as [E | E]; simpl negb.
      * split; [discriminate|]. intros H. exfalso. apply H. apply Hlost. exact E.
      * split; [|reflexivity]. intros _ Heq. apply E. apply Hlost. exact Heq.
Qed.

(* sanity of the specification function: trunc_sig24 n keeps the 24 leading bits of n and clears the rest *)
Lemma trunc_sig24_spec n : 0 < n ->
  let sh := Z.max 0 (Z.log2 n - 23) in let q := n / 2 ^ sh in
  trunc_sig24 n = q * 2 ^ sh /\ 0 < q < 2 ^ 24 /\ (0 < sh -> 2 ^ 23 <= q) /\
  trunc_sig24 n <= n < trunc_sig24 n + 2 ^ sh.
Proof.
  intros Hn sh q. unfold trunc_sig24. fold sh. fold q.
  pose proof (Z.log2_spec n Hn) as Hl. pose proof (Z.log2_nonneg n) as Hk. set (k := Z.log2 n) in *.
  assert (Hsh : 0 <= sh) by (unfold sh; lia).
  pose proof (pow2_pos sh Hsh) as HP.
  assert (Hdm : n = 2 ^ sh * q + n mod 2 ^ sh) by (apply Z.div_mod; lia).
  assert (Hrem : 0 <= n mod 2 ^ sh < 2 ^ sh) by (apply Z.mod_pos_bound; lia).
  assert (Hlo : 2 ^ (k - sh) <= q).
  { apply Z.div_le_lower_bound; [lia|]. rewrite <- Z.pow_add_r by (unfold sh; lia). replace (sh + (k - sh)) with k by lia. lia. }
  assert (Hhi : q < 2 ^ (k + 1 - sh)).
  { apply Z.div_lt_upper_bound; [lia|]. rewrite <- Z.pow_add_r by (unfold sh; lia). replace (sh + (k + 1 - sh)) with (Z.succ k) by lia. lia. }
  pose proof (pow2_pos (k - sh) ltac:(unfold sh; lia)).
  split; [reflexivity|]. split; [split; [lia|]|split].
  - pose proof (pow2_le (k + 1 - sh) 24 ltac:(unfold sh; lia)). lia.
  - intros Hpos. replace (k - sh) with 23 in Hlo by (unfold sh in *; lia). exact Hlo.
  - nia.
Qed.
