(* C13 — the scaled integer sval is the rational value times 2^150 *)
From V Require Import Base.Bits Spec.C13 Proofs.C13.Fields.
From Coq Require Import QArith Qpower Qfield.

Lemma Qval_sval a : (Qval a == inject_Z (sval a) / inject_Z (2 ^ 150))%Q.
Proof.
  unfold Qval, sval. pose proof (expo_range a) as He.
  assert (Hp : (Qpower 2 (expo a - 150) == inject_Z (2 ^ expo a) / inject_Z (2 ^ 150))%Q).
  { unfold Z.sub. rewrite Qpower_plus by (intro H; discriminate).
    rewrite Qpower_opp. rewrite !Zpower_Qpower by lia. reflexivity. }
  rewrite Hp. rewrite !inject_Z_mult.
  assert (Hs : (inject_Z (if negative a then -1 else 1) == (if negative a then -1 else 1))%Q) by (destruct (negative a); reflexivity).
  rewrite Hs. field. intro H. apply (Qeq_bool_neq (inject_Z (2 ^ 150)) 0); [vm_compute; reflexivity | exact H].
Qed.
