(* C13 — FPComparator_SP orders normal operands exactly as their values (plain mode) / magnitudes (absolute mode). *)
From V Require Import Base.Bits Spec.C13 Model.Fp Proofs.C13.Fields.

(* magnitudes are ordered lexicographically by (exponent field, fraction field) *)
Lemma mag_order a b :
  (expo a < expo b -> mag a < mag b) /\
  (expo a = expo b -> frac a < frac b -> mag a < mag b) /\
  (expo a = expo b -> frac a = frac b -> mag a = mag b).
Proof.
  pose proof (frac_range a). pose proof (frac_range b). pose proof (expo_range a). pose proof (expo_range b).
  unfold mag. repeat split.
  - intros. apply mag_lt_exp; lia.
  - intros E L. rewrite E. apply mag_lt_frac; lia.
  - intros E1 E2. rewrite E1, E2. reflexivity.
Qed.

Lemma fpcmp_abs a b : word a -> word b ->
  fpcmp true a b = (mag b <? mag a, mag a =? mag b, mag a <? mag b).
Proof.
  intros Ha Hb. unfold fpcmp. rewrite !fp_e_expo, !fp_f_frac.
  rewrite (cmp_w_spec 8) by (try lia; apply expo_range).
  rewrite (cmp_w_spec 23) by (try lia; apply frac_range).
  destruct (mag_order a b) as (A1 & A2 & A3). destruct (mag_order b a) as (B1 & B2 & B3).
  destruct (Z.ltb_spec (expo a) (expo b)); destruct (Z.ltb_spec (expo b) (expo a)); destruct (Z.eqb_spec (expo a) (expo b));
    try lia;
    destruct (Z.ltb_spec (frac a) (frac b)); destruct (Z.ltb_spec (frac b) (frac a)); destruct (Z.eqb_spec (frac a) (frac b));
    try lia; simpl;
    repeat match goal with |- context [?x <? ?y] => destruct (Z.ltb_spec x y) | |- context [?x =? ?y] => destruct (Z.eqb_spec x y) end;
    try reflexivity; exfalso; lia.
Qed.

Lemma fpcmp_plain a b : word a -> word b ->
  fpcmp false a b = (sval b <? sval a, sval a =? sval b, sval a <? sval b).
Proof.
  intros Ha Hb. unfold fpcmp. rewrite !fp_e_expo, !fp_f_frac, !fp_s_negative by assumption.
  rewrite (cmp_w_spec 8) by (try lia; apply expo_range).
  rewrite (cmp_w_spec 23) by (try lia; apply frac_range).
  rewrite !sval_mag. pose proof (mag_pos a). pose proof (mag_pos b).
  destruct (mag_order a b) as (A1 & A2 & A3). destruct (mag_order b a) as (B1 & B2 & B3).
  destruct (negative a), (negative b); unfold mux2; simpl;
  destruct (Z.ltb_spec (expo a) (expo b)); destruct (Z.ltb_spec (expo b) (expo a)); destruct (Z.eqb_spec (expo a) (expo b));
    try lia;
    destruct (Z.ltb_spec (frac a) (frac b)); destruct (Z.ltb_spec (frac b) (frac a)); destruct (Z.eqb_spec (frac a) (frac b));
    try lia; simpl;
    repeat match goal with |- context [?x <? ?y] => destruct (Z.ltb_spec x y) | |- context [?x =? ?y] => destruct (Z.eqb_spec x y) end;
    try reflexivity; exfalso; lia.
Qed.

Lemma abs_sval a : Z.abs (sval a) = mag a.
Proof. rewrite sval_mag. pose proof (mag_pos a). destruct (negative a); lia. Qed.

Lemma fpcmp_exact_lemma absolute a b : normal a -> normal b -> fpcmp absolute a b = cmp_spec absolute a b.
Proof.
  intros [Ha _] [Hb _]. unfold cmp_spec. destruct absolute.
  - rewrite !abs_sval. apply fpcmp_abs; assumption.
  - apply fpcmp_plain; assumption.
Qed.
