(* C13 — the abstract word operators of Model/Fp.v ARE the structural block models of C07 / C08.
   Model/Fp.v replaces every integer sub-block instance of the FP circuits by a word function (add_w, sub_w, shr_w, shl_w,
   clz_w, cmp_w, rng, mux2, cat_sem).  Here each of them is proved equal, for every width and every in-range value, to the
   model of the block it stands for (Model/StructArith.v, Model/StructLogic.v: the REGENERATED primitives wired as the
   constructors do), by going through the C07 / C08 correctness lemmas.  So the FP datapath theorems rest on the same
   block models that C07 / C08 tie to the regenerated code. *)
From V Require Import Base.Bits Gen.WireOps Gen.Helpers Gen.Prims.
From V Require Import Spec.C07 Model.StructArith Proofs.C07.Prims Proofs.C07.Struct Proofs.C07.Shift Proofs.C07.Clz.
From V Require Import Spec.C08 Model.StructLogic Proofs.C08.All.
From V Require Import Spec.C13 Model.Fp Proofs.C13.Fields.

(* ---- Add (ci = None: the constructor's internal constant 0) *)
Lemma add_w_is_Add w a b : 0 <= w -> add_w w a b = m_Add w None a b.
Proof.
  intros Hw. rewrite Add_correct by lia. unfold add_w, spec_add, umod, ci_val.
  rewrite trunc_mod by lia. f_equal. lia.
Qed.

(* ---- Sub (a primitive: Sub_propagate, C07_sub) *)
Lemma sub_w_is_Sub w a b : 0 <= w -> sub_w w a b = Sub_propagate w a b.
Proof. intros Hw. rewrite Sub_eq by lia. unfold sub_w, umod. apply trunc_mod; lia. Qed.

(* ---- Neg = Sub(zero, a): the `sub_w w 0 a` of Abs (InttoFP_SP) and of final_m_neg (FPtoInt_SP) *)
Lemma sub_w_0_is_Neg w a : 0 <= w -> sub_w w 0 a = m_Neg w a.
Proof.
  intros Hw. rewrite Neg_correct by lia. unfold sub_w, spec_neg, umod. rewrite trunc_mod by lia. f_equal.
Qed.

(* ---- logical barrel ShiftRight: stages on wa-bit wires (the width of a), Buf into the wr-bit result *)
Lemma shr_w_is_ShiftRight wa wb wr a n :
  0 <= wa -> 1 <= wb -> 0 <= wr -> 0 <= a < 2 ^ wa -> 0 <= n < 2 ^ wb ->
  trunc wr (shr_w wa a n) = m_ShiftRight ALogical wa wb wr a n.
Proof.
  intros Hwa Hwb Hwr Ha Hn. rewrite ShiftRight_logical_correct by lia.
  unfold shr_w, spec_shr, umod. rewrite shiftr_div by lia.
  assert (Hq : 0 <= a / 2 ^ n < 2 ^ wa).
  { pose proof (pow2_pos n (proj1 Hn)) as Hp. split.
    - apply Z.div_pos; lia.
    - apply Z.le_lt_trans with a; [|lia]. apply Z.div_le_upper_bound; nia. }
  rewrite (trunc_small wa) by lia. apply trunc_mod; lia.
Qed.

(* result as wide as the operand (the mantissa alignment shift of FPAdder_SP) *)
Lemma shr_w_is_ShiftRight_same w wb a n :
  0 <= w -> 1 <= wb -> 0 <= a < 2 ^ w -> 0 <= n < 2 ^ wb ->
  shr_w w a n = m_ShiftRight ALogical w wb w a n.
Proof.
  intros Hw Hwb Ha Hn. rewrite <- shr_w_is_ShiftRight by lia. unfold shr_w. rewrite trunc_idem by lia. reflexivity.
Qed.

(* ---- barrel ShiftLeft of a wa-bit operand into wr bits *)
Lemma shl_w_is_ShiftLeft wa wb wr a n :
  0 <= wa -> 1 <= wb -> 0 <= wr -> 0 <= a < 2 ^ wa -> 0 <= n < 2 ^ wb ->
  shl_w wr a n = m_ShiftLeft wa wb wr a n.
Proof.
  intros Hwa Hwb Hwr Ha Hn. rewrite ShiftLeft_correct by lia.
  unfold shl_w, spec_shl, umod. rewrite shiftl_mul by lia. apply trunc_mod; lia.
Qed.

(* ---- CountLeadingZeros (first output; the z output is not used by the FP blocks) *)
Lemma clz_w_is_CountLeadingZeros aw rw a :
  1 <= aw -> Z.log2_up aw <= rw -> 0 <= a < 2 ^ aw ->
  clz_w aw rw a = fst (m_CountLeadingZeros aw rw a).
Proof.
  intros Haw Hrw Ha. rewrite CountLeadingZeros_correct by lia. cbn [fst].
  assert (Hrw0 : 0 <= rw) by (pose proof (Z.log2_up_nonneg aw); lia).
  unfold clz_w, spec_clz, clz, umod. destruct (a =? 0); apply trunc_mod; lia.
Qed.

(* ---- Comparator: the three 1-bit outputs (gt, eq, lt) *)
Lemma cmp_w_is_Comparator w a b : 1 <= w -> 0 <= a < 2 ^ w -> 0 <= b < 2 ^ w ->
  Comparator_m w a b = (b2z (fst (fst (cmp_w w a b))), b2z (snd (fst (cmp_w w a b))), b2z (snd (cmp_w w a b))).
Proof.
  intros Hw Ha Hb. rewrite Comparator_correct by (unfold fits; lia).
  rewrite cmp_w_spec by lia. reflexivity.
Qed.

(* ---- Range(a, hi, lo) into hi-lo+1 bits *)
Lemma rng_is_Range hi lo a : 0 <= lo <= hi -> rng hi lo a = Range_m (hi - lo + 1) hi lo a.
Proof. intros H. rewrite Range_correct by lia. unfold range_spec. apply rng_divmod; lia. Qed.

(* ---- Bit(a, i) / Sign: the 1-bit wires that Fp.v keeps as bool *)
Lemma testbit_is_Bit a i : 0 <= i -> b2z (Z.testbit a i) = Bit_m 1 i a.
Proof. intros H. rewrite Bit_correct by lia. reflexivity. Qed.

(* ---- Mux2(sel, sel0, sel1) on a w-bit result, select wire carrying the bool *)
Lemma mux2_is_Mux2 w sel s0 s1 : 0 <= w -> trunc w (mux2 sel s0 s1) = Mux2_m w (b2z sel) s0 s1.
Proof.
  intros Hw. rewrite Mux2_correct by lia. unfold mux2_spec, mux2. rewrite trunc_mod by lia.
  destruct sel; reflexivity.
Qed.

(* ---- ConcatenateMSBF [s(1); e(8); m(23)] into 32 bits *)
Lemma cat_sem_is_Concatenate s e m : 0 <= e < 2 ^ 8 -> 0 <= m < 2 ^ 23 ->
  cat_sem s e m = ConcatenateMSBF_m 32 [(1, b2z s); (8, e); (23, m)].
Proof.
  intros He Hm. rewrite ConcatenateMSBF_exact.
  - rewrite cat_sem_pack by lia. unfold pack. cbn [msbf_spec total_width fold_right fst].
    change (8 + (23 + 0)) with 31. change (23 + 0) with 23. change (2 ^ 0) with 1. lia.
  - repeat constructor; unfold item_ok; cbn [fst snd]; try lia; destruct s; cbn; lia.
  - cbn. lia.
Qed.

(* the property theorems *)
Lemma word_ops_are_C07_blocks :
  (forall w a b, 0 <= w -> add_w w a b = m_Add w None a b) /\
  (forall w a b, 0 <= w -> sub_w w a b = Sub_propagate w a b) /\
  (forall w a, 0 <= w -> sub_w w 0 a = m_Neg w a) /\
  (forall wa wb wr a n, 0 <= wa -> 1 <= wb -> 0 <= wr -> 0 <= a < 2 ^ wa -> 0 <= n < 2 ^ wb ->
     trunc wr (shr_w wa a n) = m_ShiftRight ALogical wa wb wr a n) /\
  (forall w wb a n, 0 <= w -> 1 <= wb -> 0 <= a < 2 ^ w -> 0 <= n < 2 ^ wb ->
     shr_w w a n = m_ShiftRight ALogical w wb w a n) /\
  (forall wa wb wr a n, 0 <= wa -> 1 <= wb -> 0 <= wr -> 0 <= a < 2 ^ wa -> 0 <= n < 2 ^ wb ->
     shl_w wr a n = m_ShiftLeft wa wb wr a n) /\
  (forall aw rw a, 1 <= aw -> Z.log2_up aw <= rw -> 0 <= a < 2 ^ aw ->
     clz_w aw rw a = fst (m_CountLeadingZeros aw rw a)).
Proof.
  exact (conj add_w_is_Add (conj sub_w_is_Sub (conj sub_w_0_is_Neg (conj shr_w_is_ShiftRight
        (conj shr_w_is_ShiftRight_same (conj shl_w_is_ShiftLeft clz_w_is_CountLeadingZeros)))))).
Qed.

Lemma word_ops_are_C08_blocks :
  (forall w a b, 1 <= w -> 0 <= a < 2 ^ w -> 0 <= b < 2 ^ w ->
     Comparator_m w a b = (b2z (fst (fst (cmp_w w a b))), b2z (snd (fst (cmp_w w a b))), b2z (snd (cmp_w w a b)))) /\
  (forall hi lo a, 0 <= lo <= hi -> rng hi lo a = Range_m (hi - lo + 1) hi lo a) /\
  (forall a i, 0 <= i -> b2z (Z.testbit a i) = Bit_m 1 i a) /\
  (forall w sel s0 s1, 0 <= w -> trunc w (mux2 sel s0 s1) = Mux2_m w (b2z sel) s0 s1) /\
  (forall s e m, 0 <= e < 2 ^ 8 -> 0 <= m < 2 ^ 23 ->
     cat_sem s e m = ConcatenateMSBF_m 32 [(1, b2z s); (8, e); (23, m)]).
Proof.
  exact (conj cmp_w_is_Comparator (conj rng_is_Range (conj testbit_is_Bit (conj mux2_is_Mux2 cat_sem_is_Concatenate)))).
Qed.
