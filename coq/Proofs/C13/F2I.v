(* C13 — FPtoInt_SP: truncation toward zero for |v| < 2^31, invalid exactly for |v| >= 2^31;
   the p_lost flag is characterised exactly (it also fires on odd integers: the refuted clause). *)
From V Require Import Base.Bits Spec.C13 Model.Fp Proofs.C13.Fields.

Section Normal.
Variable a : Z.
Hypothesis Hn : normal a.
Let e := expo a.
Let m24 := 2 ^ 23 + frac a.

Lemma Hm24 : 2 ^ 23 <= m24 < 2 ^ 24.
Proof. unfold m24. pose proof (frac_range a). lia. Qed.
Lemma He : 1 <= e <= 254.
Proof. exact (proj2 Hn). Qed.

Lemma mag_em : mag a = m24 * 2 ^ e.
Proof. reflexivity. Qed.

Lemma real_e_val : fp_real_e a = if e <=? 126 then e + 129 else e - 127.
Proof.
  pose proof He. unfold fp_real_e, sub_w. rewrite fp_e_expo. fold e.
  destruct (Z.leb_spec e 126).
  - rewrite <- (trunc_add_pow 8 (e - 127) 1), trunc_small by lia. lia.
  - apply trunc_small; lia.
Qed.

Lemma small_bit : Z.testbit (fp_real_e a) 7 = (e <=? 126).
Proof.
  pose proof He. rewrite real_e_val. destruct (Z.leb_spec e 126); rewrite (testbit_top 7) by lia; lia.
Qed.

Lemma too_big_val : f2i_too_big a = (158 <=? e).
Proof.
  pose proof He. unfold f2i_too_big. rewrite small_bit, real_e_val.
  rewrite (cmp_w_spec 8) by (destruct (Z.leb_spec e 126); lia). cbn [fst].
  change (Z.testbit 30 7) with false.
  destruct (Z.leb_spec e 126); simpl xorb; destruct (Z.ltb_spec 30 (e + 129)); destruct (Z.ltb_spec 30 (e - 127));
    destruct (Z.leb_spec 158 e); try reflexivity; lia.
Qed.

Lemma not_denorm : fp_isdenorm a = false /\ fp_iszero a = false.
Proof.
  pose proof He. unfold fp_isdenorm, fp_iszero, fp_hidden. rewrite fp_e_expo. fold e.
  replace (e =? 0) with false by lia. split; reflexivity.
Qed.

(* the 64-bit wire `shifted` *)
Lemma shifted_mid : 127 <= e <= 157 -> f2i_shifted a = m24 * 2 ^ (e - 118).
Proof.
  intros Hmid. pose proof Hm24. unfold f2i_shifted. rewrite real_e_val, fp_m_normal by (exact (proj1 He)).
  fold m24. replace (e <=? 126) with false by lia.
  unfold sub_w, shr_w, shl_w, mux2. rewrite (shiftl_mul m24 32) by lia.
  destruct (Z.le_gt_cases e 150) as [Hle | Hgt].
  - rewrite (trunc_small 8 (23 - (e - 127))) by lia. rewrite (testbit_top 7) by lia.
    replace (2 ^ 7 <=? 23 - (e - 127)) with false by lia.
    rewrite shiftr_div by lia. rewrite shl_div_exact by lia.
    replace (32 - (23 - (e - 127))) with (e - 118) by lia.
    assert (m24 * 2 ^ (e - 118) < 2 ^ 56).
    { replace (2 ^ 56) with (2 ^ 24 * 2 ^ 32) by (rewrite <- Z.pow_add_r by lia; reflexivity).
      pose proof (pow2_le (e - 118) 32 ltac:(lia)). pose proof (pow2_pos (e - 118) ltac:(lia)). nia. }
    pose proof (pow2_pos (e - 118) ltac:(lia)).
    rewrite (trunc_small 56) by nia. apply trunc_small; nia.
  - assert (E1 : trunc 8 (23 - (e - 127)) = 406 - e).
    { rewrite <- (trunc_add_pow 8 (23 - (e - 127)) 1), trunc_small by lia. lia. }
    rewrite E1. rewrite (testbit_top 7) by lia. replace (2 ^ 7 <=? 406 - e) with true by lia.
    rewrite (trunc_small 8 (e - 127 - 23)) by lia.
    rewrite shiftl_mul by lia. rewrite <- Z.mul_assoc, <- Z.pow_add_r by lia.
    replace (32 + (e - 127 - 23)) with (e - 118) by lia.
    assert (m24 * 2 ^ (e - 118) < 2 ^ 63).
    { replace (2 ^ 63) with (2 ^ 24 * 2 ^ 39) by (rewrite <- Z.pow_add_r by lia; reflexivity).
      pose proof (pow2_le (e - 118) 39 ltac:(lia)). pose proof (pow2_pos (e - 118) ltac:(lia)). nia. }
    pose proof (pow2_pos (e - 118) ltac:(lia)).
    apply trunc_small; nia.
Qed.

Lemma shifted_small : e <= 126 -> 0 <= f2i_shifted a < 2 ^ 32.
Proof.
  intros Hs. pose proof He. pose proof Hm24. unfold f2i_shifted. rewrite real_e_val, fp_m_normal by (exact (proj1 He)).
  fold m24. replace (e <=? 126) with true by lia.
  unfold sub_w, shr_w, shl_w, mux2. rewrite (shiftl_mul m24 32) by lia.
  assert (E1 : trunc 8 (23 - (e + 129)) = 150 - e).
  { rewrite <- (trunc_add_pow 8 (23 - (e + 129)) 1), trunc_small by lia. lia. }
  rewrite E1. rewrite (testbit_top 7) by lia.
  destruct (Z.leb_spec (2 ^ 7) (150 - e)) as [Hl | Hr].
  - rewrite (trunc_small 8 (e + 129 - 23)) by lia.
    rewrite shiftl_mul by lia. rewrite <- Z.mul_assoc, <- Z.pow_add_r by lia.
    rewrite trunc_mod by lia. rewrite shl_mod_exact by lia. lia.
  - rewrite shiftr_div by lia.
    assert (0 <= m24 * 2 ^ 32 / 2 ^ (150 - e) < 2 ^ 32).
    { split; [apply Z.div_pos; [lia | apply pow2_pos; lia]|].
      apply Z.div_lt_upper_bound; [apply pow2_pos; lia|].
      pose proof (pow2_le 24 (150 - e) ltac:(lia)). nia. }
    rewrite (trunc_small 56) by lia. rewrite trunc_small by lia. lia.
Qed.

(* the outputs with the Select network collapsed *)
Lemma fp2int_gen_normal hi :
  fp2int_gen hi a =
  (trunc 32 (let pos := rng 64 32 (f2i_shifted a) in if negative a then sub_w 33 0 pos else pos),
   (e <=? 126) || negb (rng hi 0 (f2i_shifted a) =? 0), false, (158 <=? e)).
Proof.
  destruct not_denorm as [Hd Hz]. unfold fp2int_gen. rewrite Hd, Hz, small_bit, too_big_val, fp_s_negative by exact (proj1 Hn).
  cbv zeta. unfold mux2. cbn [negb andb orb].
  rewrite ?andb_true_r, ?andb_false_r, ?orb_false_r.
  replace (Z.lor 0 (if e <=? 126 then 0 else 0)) with 0 by (destruct (e <=? 126); reflexivity).
  rewrite Z.lor_0_l. reflexivity.
Qed.

Lemma in_range_exp : fp2int_in_range a <-> e <= 157.
Proof.
  pose proof He. pose proof Hm24. unfold fp2int_in_range. 
  replace (Z.abs (sval a)) with (m24 * 2 ^ e).
  2:{ rewrite sval_mag. pose proof (mag_pos a) as Hp. rewrite mag_em in *. destruct (negative a); lia. }
  replace (2 ^ 31 * 2 ^ 150) with (2 ^ 181) by (rewrite <- Z.pow_add_r by lia; reflexivity). split.
  - intros Hlt. pose proof (exp_upper m24 e 181 23 ltac:(lia) ltac:(lia) ltac:(lia) Hlt). lia.
  - intros Hle. pose proof (pow2_le e 157 ltac:(lia)). pose proof (pow2_pos e ltac:(lia)).
    replace (2 ^ 181) with (2 ^ 24 * 2 ^ 157) by (rewrite <- Z.pow_add_r by lia; reflexivity). nia.
Qed.

Lemma value_quot : fp2int_value a = (if negative a then -1 else 1) * (mag a / 2 ^ 150) /\
                   (fp2int_discarded a <-> mag a mod 2 ^ 150 <> 0).
Proof.
  pose proof (mag_pos a). unfold fp2int_value, fp2int_discarded. rewrite sval_mag. destruct (negative a).
  - rewrite Z.quot_opp_l, Z.rem_opp_l by lia. rewrite Z.quot_div_nonneg, Z.rem_mod_nonneg by lia. split; lia.
  - rewrite Z.quot_div_nonneg, Z.rem_mod_nonneg by lia. split; lia.
Qed.

(* magnitude vs the shifted wire for 127 <= e <= 157 *)
Lemma mag_shifted : 127 <= e <= 157 ->
  mag a / 2 ^ 150 = f2i_shifted a / 2 ^ 32 /\ mag a mod 2 ^ 150 = (f2i_shifted a mod 2 ^ 32) * 2 ^ 118.
Proof.
  intros Hmid. rewrite shifted_mid by assumption. rewrite mag_em.
  replace (2 ^ e) with (2 ^ (e - 118) * 2 ^ 118) by (rewrite <- Z.pow_add_r by lia; f_equal; lia).
  replace (2 ^ 150) with (2 ^ 32 * 2 ^ 118) by (rewrite <- Z.pow_add_r by lia; reflexivity).
  rewrite Z.mul_assoc. split.
  - apply Z.div_mul_cancel_r; lia.
  - apply Z.mul_mod_distr_r; lia.
Qed.

Lemma mag_small : e <= 126 -> mag a / 2 ^ 150 = 0 /\ mag a mod 2 ^ 150 <> 0.
Proof.
  intros Hs. pose proof He. pose proof Hm24. pose proof (mag_pos a) as Hp. rewrite mag_em in *.
  assert (m24 * 2 ^ e < 2 ^ 150).
  { replace (2 ^ 150) with (2 ^ 24 * 2 ^ 126) by (rewrite <- Z.pow_add_r by lia; reflexivity).
    pose proof (pow2_le e 126 ltac:(lia)). pose proof (pow2_pos e ltac:(lia)). nia. }
  split; [apply Z.div_small; lia | rewrite Z.mod_small by lia; lia].
Qed.

Lemma fp2int_outputs hi r pl dn inv : fp2int_gen hi a = (r, pl, dn, inv) -> (hi = 32 \/ hi = 31) ->
  dn = false /\ (inv = true <-> ~ fp2int_in_range a) /\
  (fp2int_in_range a ->
     word r /\ sgn 32 r = fp2int_value a /\
     (pl = true <-> (fp2int_discarded a \/ (hi = 32 /\ Z.odd (fp2int_value a) = true)))).
Proof.
  rewrite fp2int_gen_normal. intros Heq Hhi.
  pose proof (f_equal (fun t => fst (fst (fst t))) Heq) as Hr. pose proof (f_equal (fun t => snd (fst (fst t))) Heq) as Hpl.
  pose proof (f_equal (fun t => snd (fst t)) Heq) as Hdn. pose proof (f_equal (fun t => snd t) Heq) as Hinv.
  cbv beta in Hr, Hpl, Hdn, Hinv. cbn [fst snd] in Hr, Hpl, Hdn, Hinv. clear Heq. pose proof He as He'.
  split; [symmetry; exact Hdn|]. split.
  - rewrite in_range_exp. subst inv. destruct (Z.leb_spec 158 e); split; intros; try discriminate; try reflexivity; lia.
  - intros Hin. rewrite in_range_exp in Hin. destruct value_quot as [Hv Hdisc]. rewrite Hv, Hdisc.
    split; [subst r; unfold word; apply trunc_range; lia|].
    destruct (Z.le_gt_cases e 126) as [Hs | Hb].
    + destruct (mag_small Hs) as [Hq Hm]. pose proof (shifted_small Hs) as Hsh.
      rewrite Hq. cbv zeta in Hr. rewrite rng_divmod in Hr by lia.
      rewrite (Z.div_small (f2i_shifted a)) in Hr by lia. change (0 mod 2 ^ (64 - 32 + 1)) with 0 in Hr.
      unfold sub_w in Hr. change (trunc 33 (0 - 0)) with 0 in Hr.
      replace (if negative a then 0 else 0) with 0 in Hr by (destruct (negative a); reflexivity).
      change (trunc 32 0) with 0 in Hr. subst r. split.
      * unfold sgn. simpl. destruct (negative a); reflexivity.
      * subst pl. replace (e <=? 126) with true by lia. simpl. split; [intros _; left; exact Hm | reflexivity].
    + destruct (mag_shifted ltac:(lia)) as [Hq Hm]. rewrite Hq, Hm.
      pose proof (shifted_mid ltac:(lia)) as Hsm.
      set (S := f2i_shifted a) in *.
      assert (HS : 0 <= S < 2 ^ 63).
      { rewrite Hsm. pose proof Hm24. pose proof (pow2_pos (e - 118) ltac:(lia)). pose proof (pow2_le (e - 118) 39 ltac:(lia)).
        replace (2 ^ 63) with (2 ^ 24 * 2 ^ 39) by (rewrite <- Z.pow_add_r by lia; reflexivity). nia. }
      cbv zeta in Hr. rewrite rng_divmod in Hr by lia.
      replace ((S / 2 ^ 32) mod 2 ^ (64 - 32 + 1)) with (S / 2 ^ 32) in Hr by lia.
      set (V := S / 2 ^ 32) in *. assert (HV : 0 <= V < 2 ^ 31) by lia.
      split.
      * subst r. unfold sub_w, sgn. rewrite !trunc_mod by lia. change (32 - 1) with 31.
        destruct (negative a).
        -- destruct (Z.ltb_spec ((((0 - V) mod 2 ^ 33) mod 2 ^ 32)) (2 ^ 31)); lia.
        -- destruct (Z.ltb_spec (V mod 2 ^ 32) (2 ^ 31)); lia.
      * subst pl. replace (e <=? 126) with false by lia. cbn [orb].
        rewrite rng_divmod by lia. change (2 ^ 0) with 1. rewrite Z.div_1_r.
        assert (Hodd : Z.odd ((if negative a then -1 else 1) * V) = Z.odd V).
        { destruct (negative a); [|f_equal; lia]. replace (-1 * V) with (- V) by lia. apply Z.odd_opp. }
        rewrite Hodd. pose proof (Zmod_odd V) as Hmo.
        destruct Hhi as [-> | ->].
        -- change (32 - 0 + 1) with 33.
           destruct (Z.eqb_spec (S mod 2 ^ 33) 0) as [E | E]; cbn [negb]; split.
           ++ discriminate.
           ++ intros [Hd | [_ Ho]]; exfalso; [| rewrite Ho in Hmo]; unfold V in *; lia.
           ++ intros _. destruct (Z.odd V) eqn:Ho; [right; split; reflexivity|left]. unfold V in *. lia.
           ++ reflexivity.
        -- change (31 - 0 + 1) with 32.
           destruct (Z.eqb_spec (S mod 2 ^ 32) 0) as [E | E]; cbn [negb]; split.
           ++ discriminate.
           ++ intros [Hd | [Hc _]]; [exfalso; lia | discriminate].
           ++ intros _. left. pose proof (pow2_pos 118). nia.
           ++ reflexivity.
Qed.

End Normal.

(* ---- the statements used by Properties/C13.v; fp2int = fp2int_gen 31 is the circuit of the current /repo *)
Lemma fp2int_trunc_lemma a r pl dn inv : normal a -> fp2int a = (r, pl, dn, inv) -> fp2int_in_range a ->
  word r /\ sgn 32 r = fp2int_value a /\ inv = false /\ dn = false.
Proof.
  intros Hn Heq Hin. destruct (fp2int_outputs a Hn 31 r pl dn inv Heq (or_intror eq_refl)) as (Hd & Hi & Hr).
  destruct (Hr Hin) as (Hw & Hv & _). split; [exact Hw|]. split; [exact Hv|]. split; [|exact Hd].
  destruct inv; [|reflexivity]. exfalso. apply (proj1 Hi); [reflexivity | exact Hin].
Qed.

Lemma fp2int_invalid_lemma a r pl dn inv : normal a -> fp2int a = (r, pl, dn, inv) ->
  (inv = true <-> ~ fp2int_in_range a).
Proof. intros Hn Heq. exact (proj1 (proj2 (fp2int_outputs a Hn 31 r pl dn inv Heq (or_intror eq_refl)))). Qed.

(* the precision-lost flag is exact *)
Lemma fp2int_plost_lemma a r pl dn inv : normal a -> fp2int a = (r, pl, dn, inv) -> fp2int_in_range a ->
  (pl = true <-> fp2int_discarded a).
Proof.
  intros Hn Heq Hin. destruct (fp2int_outputs a Hn 31 r pl dn inv Heq (or_intror eq_refl)) as (_ & _ & Hr).
  destruct (Hr Hin) as (_ & _ & Hp). rewrite Hp. split; [intros [H | [H _]]; [exact H | discriminate] | intros H; left; exact H].
Qed.

(* ---- history: the instance BEFORE /repo 48843fa tested Range(shifted, 32, 0) (fp2int_gen 32): the flag also fired on odd integers *)
Lemma fp2int_32_plost_char a r pl dn inv : normal a -> fp2int_gen 32 a = (r, pl, dn, inv) -> fp2int_in_range a ->
  (pl = true <-> (fp2int_discarded a \/ Z.odd (fp2int_value a) = true)).
Proof.
  intros Hn Heq Hin. destruct (fp2int_outputs a Hn 32 r pl dn inv Heq (or_introl eq_refl)) as (_ & _ & Hr).
  destruct (Hr Hin) as (_ & _ & Hp). rewrite Hp. split; intros [H | H]; try (left; exact H); right; [exact (proj2 H) | split; [reflexivity | exact H]].
Qed.

(* 1.0 = 0x3f800000: nothing is discarded, the old instance raised p_lost; the current one does not *)
Lemma fp2int_32_plost_refuted_lemma :
  exists a, normal a /\ fp2int_in_range a /\ ~ fp2int_discarded a /\ fp2int_gen 32 a = (1, true, false, false)
            /\ fp2int a = (1, false, false, false).
Proof.
  exists 1065353216. split; [|split; [|split; [|split]]].
  - unfold normal, word. vm_compute. intuition discriminate.
  - unfold fp2int_in_range. vm_compute. reflexivity.
  - unfold fp2int_discarded. vm_compute. intros H; apply H; reflexivity.
  - vm_compute. reflexivity.
  - vm_compute. reflexivity.
Qed.
