(* C13 — FPMult_SP: truncated 24x24 product, error < 1 ulp of the result; commutative. *)
From V Require Import Base.Bits Spec.C13 Model.Fp Proofs.C13.Fields.

Lemma fpmul_comm_lemma a b : fpmul a b = fpmul b a.
Proof.
  unfold fpmul. rewrite (xorb_comm (fp_s a) (fp_s b)), (Z.mul_comm (fp_m a) (fp_m b)).
  unfold add_w. rewrite (Z.add_comm (fp_e a) (fp_e b)). reflexivity.
Qed.

(* the arithmetic core: P = ma*mb in [2^46, 2^48), E = ea+eb *)
Lemma mul_core P E k : 0 <= E -> 0 <= k -> 
  Z.abs ((P / 2 ^ k) * 2 ^ (E + k) - P * 2 ^ E) < 2 ^ (E + k).
Proof.
  intros HE Hk. rewrite Z.pow_add_r by lia.
  pose proof (pow2_pos E HE). pose proof (pow2_pos k Hk).
  assert (0 <= P - (P / 2 ^ k) * 2 ^ k < 2 ^ k) by lia.
  nia.
Qed.

Lemma fpmul_ulp_lemma a b : normal a -> normal b -> mul_exact_normal a b -> mul_spec a b (fpmul a b).
Proof.
  intros [Ha Hea] [Hb Heb] Hn.
  pose proof (frac_range a) as Hfa. pose proof (frac_range b) as Hfb.
  unfold mul_exact_normal, normal_range in Hn.
  assert (Hprod : Z.abs (sval a * sval b) = ((2 ^ 23 + frac a) * (2 ^ 23 + frac b)) * 2 ^ (expo a + expo b)).
  { rewrite Z.abs_mul, !(sval_mag), Z.pow_add_r by lia. pose proof (mag_pos a). pose proof (mag_pos b).
    unfold mag in *. destruct (negative a), (negative b); rewrite ?Z.abs_opp, !Z.abs_eq by lia; ring. }
  rewrite Hprod in Hn.
  set (P := (2 ^ 23 + frac a) * (2 ^ 23 + frac b)) in *.
  set (E := expo a + expo b) in *.
  assert (HP : 2 ^ 46 <= P < 2 ^ 48) by (unfold P; nia).
  assert (HE : 0 <= E) by (unfold E; lia).
  unfold fpmul. rewrite !fp_m_normal, !fp_e_expo, !fp_s_negative by (assumption || lia).
  fold P. rewrite (trunc_small 48 P) by lia.
  unfold add_w. fold E. rewrite (trunc_small 9 E) by (unfold E; lia).
  unfold sub_w. rewrite trunc_sub_l by lia.
  rewrite (testbit_top 47) by lia.
  assert (Hsign : forall er mr, 0 <= er < 2 ^ 8 -> 0 <= mr < 2 ^ 23 ->
     Z.abs (sval (pack (xorb (negative a) (negative b)) er mr) * 2 ^ 150 - sval a * sval b)
     = Z.abs ((2 ^ 23 + mr) * 2 ^ er * 2 ^ 150 - P * 2 ^ E)).
  { intros er mr Her Hmr. rewrite sval_pack by assumption. rewrite !sval_mag. unfold mag, P, E. rewrite Z.pow_add_r by lia.
    destruct (negative a), (negative b); simpl xorb; cbv iota;
      match goal with |- Z.abs ?x = Z.abs ?y => (replace x with y by ring; reflexivity) || (replace x with (- y) by ring; apply Z.abs_opp) end. }
  unfold mux2. destruct (Z.leb_spec (2 ^ 47) P) as [Hhi | Hlo].
  - (* bit 47 set: exponent E-126, significand P / 2^24 *)
    pose proof (exp_lower P E 174 48 HE ltac:(lia) ltac:(lia) (proj1 Hn)).
    pose proof (exp_upper P E 428 47 HE ltac:(lia) Hhi (proj2 Hn)).
    rewrite (trunc_small 8 (E - 126)) by lia.
    rewrite rng_divmod by lia.
    assert (Hq : 2 ^ 23 <= P / 2 ^ 24 < 2 ^ 24) by lia.
    replace ((P / 2 ^ 24) mod 2 ^ (46 - 24 + 1)) with (P / 2 ^ 24 - 2 ^ 23) by lia.
    rewrite cat_sem_pack by lia.
    unfold mul_spec, normal, ulp_s. rewrite pack_expo by lia.
    split; [split; [apply pack_word; lia | lia]|].
    rewrite Hsign by lia.
    replace (2 ^ 23 + (P / 2 ^ 24 - 2 ^ 23)) with (P / 2 ^ 24) by lia.
    rewrite <- Z.mul_assoc, <- !Z.pow_add_r by lia.
    replace (E - 126 + 150) with (E + 24) by lia. apply mul_core; lia.
  - pose proof (exp_lower P E 174 47 HE ltac:(lia) ltac:(lia) (proj1 Hn)).
    pose proof (exp_upper P E 428 46 HE ltac:(lia) ltac:(lia) (proj2 Hn)).
    rewrite (trunc_small 8 (E - 126 - 1)) by lia.
    rewrite rng_divmod by lia.
    assert (Hq : 2 ^ 23 <= P / 2 ^ 23 < 2 ^ 24) by lia.
    replace ((P / 2 ^ 23) mod 2 ^ (45 - 23 + 1)) with (P / 2 ^ 23 - 2 ^ 23) by lia.
    rewrite cat_sem_pack by lia.
    unfold mul_spec, normal, ulp_s. rewrite pack_expo by lia.
    split; [split; [apply pack_word; lia | lia]|].
    rewrite Hsign by lia.
    replace (2 ^ 23 + (P / 2 ^ 23 - 2 ^ 23)) with (P / 2 ^ 23) by lia.
    rewrite <- Z.mul_assoc, <- !Z.pow_add_r by lia.
    replace (E - 126 - 1 + 150) with (E + 23) by lia. apply mul_core; lia.
Qed.
