(* C13 — history: the adder BEFORE /repo 150f909 had a 5-bit ediff wire (instance fpadd_w 5), which wraps for exponent
   gaps >= 32: 2^40 + 2^8 returned 2^41. *)
From V Require Import Base.Bits Spec.C13 Model.Fp.

Lemma fpadd_5bit_refuted_lemma :
  exists a b, normal a /\ normal b /\ add_exact_normal a b /\
              (expo a - expo b) mod 32 <> expo a - expo b /\            (* the signature of the defect *)
              fpadd_w 5 a b = 1409286144 (* 0x54000000 = 2^41 *) /\ ~ add_spec a b (fpadd_w 5 a b).
Proof.
  exists 1400897536 (* 0x53800000 = 2^40 *), 1132462080 (* 0x43800000 = 2^8 *).
  split; [|split; [|split; [|split; [|split]]]].
  - unfold normal, word. vm_compute. intuition discriminate.
  - unfold normal, word. vm_compute. intuition discriminate.
  - unfold add_exact_normal, normal_range. vm_compute. intuition discriminate.
  - vm_compute. discriminate.
  - vm_compute. reflexivity.
  - intros (_ & _ & H). vm_compute in H. discriminate.
Qed.
