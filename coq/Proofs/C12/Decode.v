(* C12 — FPNum.from_ieee754_{hp,sp,dp}: the number built from a bit pattern denotes the IEEE-754 value of the pattern. *)
From V Require Import Base.Bits Spec.C12 Model.HelperInt Model.FPNum Proofs.C12.Int Proofs.C12.QFacts Proofs.C12.FPNum.
From Coq Require Import QArith Qpower Qfield.
Open Scope Z_scope.

(* a format whose literals are the standard ones for (ew, mw); sube = exponent handed to subnormals, nanm = NaN mantissa *)
Definition fmt_std (ew mw sube nanm : Z) : fpfmt :=
  mkFmt (std_layout ew mw) (2 ^ ew - 1) (2 ^ (ew - 1) - 1) sube mw nanm.

Lemma fmts_std : (forall s, fmt_hp_with s = fmt_std 5 10 s 512) /\ fmt_sp = fmt_std 8 23 (-126) 4194304 /\
                 fmt_dp = fmt_std 11 52 (-1022) 2251799813685248.
Proof. repeat split. Qed.

Section Decode.
Variables ew mw sube nanm : Z.
Hypothesis Hew : 1 <= ew.
Hypothesis Hmw : 0 <= mw.
Let F := fmt_std ew mw sube nanm.

Lemma fld_ranges v : 0 <= fld_s ew mw v <= 1 /\ 0 <= fld_e ew mw v < 2 ^ ew /\ 0 <= fld_m ew mw v < 2 ^ mw.
Proof.
  unfold fld_s, fld_e, fld_m. pose proof (Z.mod_pos_bound (v / 2 ^ (ew + mw)) 2 ltac:(lia)).
  pose proof (mod_pow2_range ew (v / 2 ^ mw) ltac:(lia)). pose proof (mod_pow2_range mw v Hmw). lia.
Qed.

Definition sign_of (v : Z) : Z := if fld_s ew mw v =? 0 then 1 else -1.

Lemma sign_of_neg v : (sign_of v <? 0) = ieee_neg ew mw v.
Proof.
  unfold sign_of, ieee_neg. destruct (fld_ranges v) as [Hs _].
  destruct (Z.eqb_spec (fld_s ew mw v) 0) as [-> | N]; [reflexivity|].
  replace (fld_s ew mw v) with 1 by lia. reflexivity.
Qed.

Lemma sign_of_q v : inject_Z (sign_of v) = sgnq (fld_s ew mw v =? 1).
Proof.
  unfold sign_of. destruct (fld_ranges v) as [Hs _].
  destruct (Z.eqb_spec (fld_s ew mw v) 0) as [-> | N]; [reflexivity|].
  replace (fld_s ew mw v) with 1 by lia. reflexivity.
Qed.

Lemma from_unfold v :
  FPNum_from_ieee754 F v =
  let s := sign_of v in let e := fld_e ew mw v in let m := fld_m ew mw v in
  if e =? 2 ^ ew - 1 then set_semp s e m 0
  else if e =? 0 then FPNum4 s sube m (2 ^ mw) else FPNum4 s (e - (2 ^ (ew - 1) - 1)) (2 ^ mw + m) (2 ^ mw).
Proof.
  unfold FPNum_from_ieee754, F, fmt_std; cbn [F_lay F_emax F_bias F_sube F_mw]. rewrite unpack_fields by lia.
  cbv zeta. fold (sign_of v). destruct (fld_e ew mw v =? 2 ^ ew - 1); [reflexivity|].
  destruct (fld_ranges v) as (_ & _ & Hm).
  assert (HL : Z.lor (py_shl 1 mw) (fld_m ew mw v) = 2 ^ mw + fld_m ew mw v).
  { unfold py_shl. rewrite lor_add_disjoint by lia. lia. }
  rewrite HL. rewrite shl1 by lia. destruct (fld_e ew mw v =? 0); reflexivity.
Qed.

(* infinities and NaNs *)
Lemma decode_special v : fld_e ew mw v = 2 ^ ew - 1 ->
  xval (FPNum_from_ieee754 F v) = ieee_value ew mw v /\ f_s (FPNum_from_ieee754 F v) = sign_of v.
Proof.
  intros E. rewrite from_unfold. cbv zeta. unfold ieee_value. rewrite E, Z.eqb_refl. unfold set_semp, xval; cbn [f_nan f_inf f_s Z.eqb andb].
  destruct (fld_m ew mw v =? 0); cbn [negb]; [|split; reflexivity]. rewrite sign_of_neg. split; reflexivity.
Qed.

(* finite patterns: value, with the subnormal exponent as a parameter *)
Lemma decode_finite v : fld_e ew mw v <> 2 ^ ew - 1 ->
  let x := FPNum_from_ieee754 F v in
  wf x /\ f_inf x = false /\ f_nan x = false /\ f_s x = sign_of v /\
  (fval x == sgnq (fld_s ew mw v =? 1) *
             (if fld_e ew mw v =? 0 then inject_Z (fld_m ew mw v) * two_pow (sube - mw)
              else inject_Z (2 ^ mw + fld_m ew mw v) * two_pow (fld_e ew mw v - ieee_bias ew - mw)))%Q.
Proof.
  intros NE. cbv zeta. rewrite from_unfold. cbv zeta. replace (fld_e ew mw v =? 2 ^ ew - 1) with false by lia.
  destruct (fld_ranges v) as (_ & He & Hm). pose proof (pow2_pos mw Hmw) as Pm.
  assert (Ss : sign_of v = 1 \/ sign_of v = -1) by (unfold sign_of; destruct (_ =? 0); auto).
  rewrite <- sign_of_q.
  destruct (Z.eqb_spec (fld_e ew mw v) 0) as [E0 | N0].
  - destruct (FPNum4_wf (sign_of v) sube (fld_m ew mw v) (2 ^ mw) Ss ltac:(lia) (pow2_pow mw Hmw)) as (W & I1 & N1 & V).
    destruct (FPNum4_spec (sign_of v) sube (fld_m ew mw v) (2 ^ mw) ltac:(lia) Pm) as (S1 & _).
    split; [exact W | split; [exact I1 | split; [exact N1 | split; [exact S1|]]]].
    rewrite V. unfold val4. rewrite two_pow_sub, (two_pow_Z mw) by lia. field. apply inject_pow2_nz; lia.
  - destruct (FPNum4_wf (sign_of v) (fld_e ew mw v - (2 ^ (ew - 1) - 1)) (2 ^ mw + fld_m ew mw v) (2 ^ mw) Ss ltac:(lia) (pow2_pow mw Hmw)) as (W & I1 & N1 & V).
    destruct (FPNum4_spec (sign_of v) (fld_e ew mw v - (2 ^ (ew - 1) - 1)) (2 ^ mw + fld_m ew mw v) (2 ^ mw) ltac:(lia) Pm) as (S1 & _).
    split; [exact W | split; [exact I1 | split; [exact N1 | split; [exact S1|]]]].
    rewrite V. unfold val4, ieee_bias. rewrite (two_pow_sub _ mw), (two_pow_Z mw) by lia. field. apply inject_pow2_nz; lia.
Qed.

(* the statement: with the IEEE subnormal exponent (1 - bias), or on any pattern that is not a non-zero subnormal, decoding is exact *)
Lemma decode_exact v : (sube = 1 - ieee_bias ew \/ fld_e ew mw v <> 0 \/ fld_m ew mw v = 0) ->
  let x := FPNum_from_ieee754 F v in
  xeq (xval x) (ieee_value ew mw v) /\ (f_s x <? 0) = ieee_neg ew mw v /\ wf x.
Proof.
  intros G. cbv zeta. destruct (Z.eq_dec (fld_e ew mw v) (2 ^ ew - 1)) as [E | NE].
  - destruct (decode_special v E) as [-> S1]. rewrite S1, sign_of_neg. split; [|split; [reflexivity|]].
    + destruct (ieee_value ew mw v); cbn; reflexivity.
    + rewrite from_unfold. cbv zeta. rewrite E, Z.eqb_refl. split.
      * unfold sign_ok, set_semp; cbn [f_s]. unfold sign_of; destruct (_ =? 0); auto.
      * unfold set_semp; cbn [f_inf f_nan Z.eqb andb]. destruct (fld_m ew mw v =? 0); cbn; intros; discriminate.
  - destruct (decode_finite v NE) as (W & I1 & N1 & S1 & V). rewrite S1, sign_of_neg.
    split; [|split; [reflexivity | exact W]].
    rewrite (xval_fin _ I1 N1). unfold ieee_value. cbv zeta. replace (fld_e ew mw v =? 2 ^ ew - 1) with false by lia.
    cbn [xeq]. rewrite V. unfold ieee_mag.
    destruct (Z.eqb_spec (fld_e ew mw v) 0) as [E0 | N0]; [|reflexivity].
    destruct G as [-> | [G | G]]; [reflexivity | contradiction |]. rewrite G. change (inject_Z 0) with 0%Q. ring.
Qed.

(* every non-zero subnormal is off by the factor 2^(sube - (1 - bias)) *)
Lemma decode_subnormal_scaled v : fld_e ew mw v = 0 -> 2 <= ew ->
  let x := FPNum_from_ieee754 F v in
  f_inf x = false /\ f_nan x = false /\
  (fval x == two_pow (sube - (1 - ieee_bias ew)) * (sgnq (fld_s ew mw v =? 1) * ieee_mag ew mw 0 (fld_m ew mw v)))%Q.
Proof.
  intros E0 Hew2. cbv zeta. assert (NE : fld_e ew mw v <> 2 ^ ew - 1).
  { rewrite E0. pose proof (pow2_lt 1 ew ltac:(lia)). change (2 ^ 1) with 2 in *. lia. }
  destruct (decode_finite v NE) as (W & I1 & N1 & S1 & V). split; [exact I1 | split; [exact N1|]].
  rewrite V, E0. unfold ieee_mag. cbn [Z.eqb].
  replace (sube - mw) with ((sube - (1 - ieee_bias ew)) + (1 - ieee_bias ew - mw)) by lia.
  rewrite two_pow_add. ring.
Qed.
End Decode.

(* ------------------------------------------------------------------ the three formats of the code *)
Lemma decode_sp v : let x := FPNum_from_ieee754 fmt_sp v in
  xeq (xval x) (ieee_value 8 23 v) /\ (f_s x <? 0) = ieee_neg 8 23 v /\ wf x.
Proof. destruct fmts_std as (_ & -> & _). apply decode_exact; first [lia | left; reflexivity]. Qed.

Lemma decode_dp v : let x := FPNum_from_ieee754 fmt_dp v in
  xeq (xval x) (ieee_value 11 52 v) /\ (f_s x <? 0) = ieee_neg 11 52 v /\ wf x.
Proof. destruct fmts_std as (_ & _ & ->). apply decode_exact; first [lia | left; reflexivity]. Qed.

(* half precision: all 2^16 patterns (subnormal exponent -14 since 8541cf4) *)
Lemma decode_hp v : let x := FPNum_from_ieee754 fmt_hp v in
  xeq (xval x) (ieee_value 5 10 v) /\ (f_s x <? 0) = ieee_neg 5 10 v /\ wf x.
Proof. unfold fmt_hp. destruct fmts_std as (-> & _ & _). apply decode_exact; first [lia | left; reflexivity]. Qed.

(* HISTORY (finding #21, repaired by 8541cf4): with exponent -16 EVERY subnormal half pattern decoded to a quarter of its value *)
Lemma decode_hp_subnormal_quarter_before v : fld_e 5 10 v = 0 ->
  let x := FPNum_from_ieee754 fmt_hp_before_8541cf4 v in
  f_inf x = false /\ f_nan x = false /\
  (fval x == (1 # 4) * (sgnq (fld_s 5 10 v =? 1) * ieee_mag 5 10 0 (fld_m 5 10 v)))%Q.
Proof.
  intros E. unfold fmt_hp_before_8541cf4. destruct fmts_std as (-> & _ & _).
  destruct (decode_subnormal_scaled 5 10 (-16) 512 ltac:(lia) ltac:(lia) v E ltac:(lia)) as (I1 & N1 & V).
  cbv zeta. split; [exact I1 | split; [exact N1|]]. rewrite V. reflexivity.
Qed.
