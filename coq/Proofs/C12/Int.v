(* C12 — integer helpers: two's complement, signExtend, FixedPoint raw arithmetic, field pack / unpack.
   IntegerHelper_signed_to_c2 / IntegerHelper_c2_to_signed / signExtend are the REGENERATED definitions;
   each gets a characterising lemma right here and the rest depends only on those. *)
From V Require Import Base.Bits Gen.Helpers Spec.C12 Model.HelperInt.
Open Scope Z_scope.

(* ------------------------------------------------------------------ small arithmetic facts *)
Lemma shl1 w : 0 <= w -> py_shl 1 w = 2 ^ w.
Proof. intros; unfold py_shl; rewrite Z.shiftl_1_l; reflexivity. Qed.

Lemma pow2_split w : 0 < w -> 2 ^ w = 2 * 2 ^ (w - 1).
Proof. intros; replace w with (1 + (w - 1)) at 1 by lia; rewrite Z.pow_add_r by lia; reflexivity. Qed.

Lemma land_pow2 v k : 0 <= k -> Z.land v (2 ^ k) = if Z.testbit v k then 2 ^ k else 0.
Proof.
  intros Hk. apply Z.bits_inj'; intros i Hi. rewrite Z.land_spec.
  destruct (Z.testbit v k) eqn:E.
  - rewrite Z.pow2_bits_eqb by lia. destruct (Z.eqb_spec k i); subst; [rewrite E|]; auto using andb_false_r.
  - rewrite Z.pow2_bits_eqb, Z.bits_0 by lia. destruct (Z.eqb_spec k i); subst; [rewrite E|]; auto using andb_false_r.
Qed.

Lemma mod_pow2_range w v : 0 <= w -> 0 <= v mod 2 ^ w < 2 ^ w.
Proof. intros; apply Z.mod_pos_bound, pow2_pos; lia. Qed.

Lemma lor_comm_add lo hi n : 0 <= n -> 0 <= lo < 2 ^ n -> Z.lor lo (Z.shiftl hi n) = hi * 2 ^ n + lo.
Proof. intros; rewrite Z.lor_comm; apply lor_add_disjoint; lia. Qed.

(* ------------------------------------------------------------------ characterisation of the generated definitions *)
Lemma signed_to_c2_char v w : 0 <= w -> IntegerHelper_signed_to_c2 v w = c2_encode w v.
Proof. intros; unfold IntegerHelper_signed_to_c2, c2_encode; cbv zeta. apply (trunc_mod w v); lia. Qed.

Lemma c2_to_signed_char v w : 1 <= w -> IntegerHelper_c2_to_signed v w = c2_decode w v.
Proof.
  intros Hw. unfold IntegerHelper_c2_to_signed, c2_decode; cbv zeta.
  change (Z.land v (py_shl 1 w - 1)) with (trunc w v). rewrite trunc_mod by lia.
  pose proof (mod_pow2_range w v ltac:(lia)) as Hr. set (u := v mod 2 ^ w) in *.
  rewrite !shl1 by lia. rewrite land_pow2 by lia. rewrite testbit_high by lia.
  unfold sgn. pose proof (pow2_pos (w - 1) ltac:(lia)).
  destruct (Z.leb_spec (2 ^ (w - 1)) u); destruct (Z.ltb_spec u (2 ^ (w - 1))); try lia.
  - replace (2 ^ (w - 1) >? 0) with true by lia. reflexivity.
  - reflexivity.
Qed.

Lemma c2_decode_range w u : 1 <= w -> - 2 ^ (w - 1) <= c2_decode w u < 2 ^ (w - 1).
Proof. intros; unfold c2_decode; apply sgn_range; [lia | apply mod_pow2_range; lia]. Qed.

Lemma c2_decode_cong w u : 1 <= w -> (c2_decode w u) mod 2 ^ w = u mod 2 ^ w.
Proof.
  intros Hw. unfold c2_decode. pose proof (mod_pow2_range w u ltac:(lia)) as Hr.
  rewrite <- trunc_mod by lia. rewrite trunc_sgn by lia. reflexivity.
Qed.

Lemma c2_decode_encode w v : 1 <= w -> - 2 ^ (w - 1) <= v < 2 ^ (w - 1) -> c2_decode w (c2_encode w v) = v.
Proof.
  intros Hw Hv. unfold c2_decode, c2_encode. rewrite Z.mod_mod by (apply Z.pow_nonzero; lia).
  pose proof (pow2_split w ltac:(lia)) as Hs. unfold sgn.
  destruct (Z.ltb_spec v 0) as [Hn | Hn].
  - replace (v mod 2 ^ w) with (v + 2 ^ w).
    + destruct (Z.ltb_spec (v + 2 ^ w) (2 ^ (w - 1))); lia.
    + apply Z.mod_unique with (-1); lia.
  - rewrite Z.mod_small by lia. destruct (Z.ltb_spec v (2 ^ (w - 1))); lia.
Qed.

Lemma c2_encode_decode w u : 1 <= w -> 0 <= u < 2 ^ w -> c2_encode w (c2_decode w u) = u.
Proof. intros Hw Hu. unfold c2_encode. rewrite c2_decode_cong by lia. apply Z.mod_small; lia. Qed.

(* the four statements over the generated functions *)
Lemma c2_round_trip w v : 1 <= w -> - 2 ^ (w - 1) <= v < 2 ^ (w - 1) ->
  IntegerHelper_c2_to_signed (IntegerHelper_signed_to_c2 v w) w = v.
Proof. intros; rewrite signed_to_c2_char, c2_to_signed_char by lia; apply c2_decode_encode; lia. Qed.

Lemma c2_converse w u : 1 <= w -> 0 <= u < 2 ^ w ->
  IntegerHelper_signed_to_c2 (IntegerHelper_c2_to_signed u w) w = u.
Proof. intros; rewrite c2_to_signed_char, signed_to_c2_char by lia; apply c2_encode_decode; lia. Qed.

Lemma signed_to_c2_spec w v : 0 <= w ->
  0 <= IntegerHelper_signed_to_c2 v w < 2 ^ w /\ IntegerHelper_signed_to_c2 v w = v mod 2 ^ w.
Proof. intros; rewrite signed_to_c2_char by lia; unfold c2_encode; split; [apply mod_pow2_range; lia | reflexivity]. Qed.

Lemma c2_to_signed_spec w u : 1 <= w ->
  - 2 ^ (w - 1) <= IntegerHelper_c2_to_signed u w < 2 ^ (w - 1) /\
  (IntegerHelper_c2_to_signed u w) mod 2 ^ w = u mod 2 ^ w.
Proof. intros; rewrite c2_to_signed_char by lia; split; [apply c2_decode_range | apply c2_decode_cong]; lia. Qed.

(* ------------------------------------------------------------------ signExtend *)
Lemma signExtend_char v w nw : 1 <= w -> w <= nw -> signExtend v w nw = sign_extend_spec v w nw.
Proof.
  intros Hw Hnw. unfold signExtend, sign_extend_spec, c2_encode, c2_decode; cbv zeta.
  change (Z.land v (py_shl 1 w - 1)) with (trunc w v). rewrite trunc_mod by lia.
  pose proof (mod_pow2_range w v ltac:(lia)) as Hr. set (u := v mod 2 ^ w) in *.
  change (Z.land (py_shr u (w - 1)) 1) with (bitZ u (w - 1)). rewrite bitZ_b2z by lia.
  rewrite testbit_high by lia. rewrite shl1 by lia.
  pose proof (pow2_split w ltac:(lia)) as Hs. pose proof (pow2_pos (w - 1) ltac:(lia)) as Hp.
  pose proof (pow2_le w nw ltac:(lia)) as Hle.
  assert (Hnwp : 2 ^ nw = 2 ^ (nw - w) * 2 ^ w) by (rewrite <- Z.pow_add_r by lia; f_equal; lia).
  pose proof (pow2_pos (nw - w) ltac:(lia)) as Hp2.
  unfold sgn, py_shl. destruct (Z.leb_spec (2 ^ (w - 1)) u) as [Hge | Hlt]; cbn [b2z Z.eqb].
  - destruct (Z.ltb_spec u (2 ^ (w - 1))); [lia|].
    rewrite lor_comm_add by lia.
    set (A := 2 ^ (nw - w)) in *. set (B := 2 ^ w) in *. rewrite Hnwp.
    apply Z.mod_unique with (-1); [left; nia | ring].
  - destruct (Z.ltb_spec u (2 ^ (w - 1))); [|lia].
    rewrite Z.shiftl_0_l, Z.lor_0_r. symmetry; apply Z.mod_small; lia.
Qed.
