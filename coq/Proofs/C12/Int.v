(* C12 — integer helpers: two's complement, signExtend, FixedPoint raw arithmetic, field pack / unpack.
   IntegerHelper_signed_to_c2 / IntegerHelper_c2_to_signed / signExtend are the REGENERATED definitions;
   each gets a characterising lemma right here and the rest depends only on those. *)
From V Require Import Base.Bits Gen.Helpers Spec.C12 Model.HelperInt.
Open Scope Z_scope.

(* ------------------------------------------------------------------ small arithmetic facts *)
Lemma shl1 w : 0 <= w -> py_shl 1 w = 2 ^ w.
Proof. intros; unfold py_shl; rewrite Z.shiftl_1_l; reflexivity. Qed.

Lemma pow2_split w : 0 < w -> 2 ^ w = 2 * 2 ^ (w - 1).
Proof. intros; replace w with (1 + (w - 1)) at 1 by lia; rewrite Z.pow_add_r by lia; reflexivity. Qed.

Lemma land_pow2 v k : 0 <= k -> Z.land v (2 ^ k) = if Z.testbit v k then 2 ^ k else 0.
Proof.
  intros Hk. apply Z.bits_inj'; intros i Hi. rewrite Z.land_spec.
  destruct (Z.testbit v k) eqn:E.
  - rewrite Z.pow2_bits_eqb by lia. destruct (Z.eqb_spec k i); subst; [rewrite E|]; auto using andb_false_r.
  - rewrite Z.pow2_bits_eqb, Z.bits_0 by lia. destruct (Z.eqb_spec k i); subst; [rewrite E|]; auto using andb_false_r.
Qed.

Lemma mod_pow2_range w v : 0 <= w -> 0 <= v mod 2 ^ w < 2 ^ w.
Proof. intros; apply Z.mod_pos_bound, pow2_pos; lia. Qed.

Lemma lor_comm_add lo hi n : 0 <= n -> 0 <= lo < 2 ^ n -> Z.lor lo (Z.shiftl hi n) = hi * 2 ^ n + lo.
Proof. intros; rewrite Z.lor_comm; apply lor_add_disjoint; lia. Qed.

(* ------------------------------------------------------------------ characterisation of the generated definitions *)
(* Shape-independent treatment of the REGENERATED helpers: unfold everything (lets included), bring shifts of 1 and masks to
   arithmetic form, decide the sign bit of the masked value semantically (case split on u < 2^(w-1)) and rewrite EVERY way of testing
   it (bit w-1 by shift-and-mask, by and-with-2^(w-1), by testbit) to its value; closed comparisons then compute.  No step names a
   let-bound variable or relies on where the code places its `if`. *)
Lemma land_mask x n : 0 <= n -> Z.land x (2 ^ n - 1) = x mod 2 ^ n.
Proof. intros. replace (2 ^ n - 1) with (Z.ones n) by (rewrite Z.ones_equiv; lia). apply Z.land_ones; lia. Qed.

Lemma signbit_lo u w : 1 <= w -> 0 <= u < 2 ^ (w - 1) ->
  Z.land (Z.shiftr u (w - 1)) 1 = 0 /\ Z.land u (2 ^ (w - 1)) = 0 /\ Z.testbit u (w - 1) = false /\ u / 2 ^ (w - 1) = 0.
Proof.
  intros Hw Hu. pose proof (pow2_split w ltac:(lia)).
  assert (T : Z.testbit u (w - 1) = false) by (rewrite testbit_high by lia; lia).
  repeat split; auto.
  - change (Z.land (Z.shiftr u (w - 1)) 1) with (bitZ u (w - 1)). rewrite bitZ_b2z, T by lia. reflexivity.
  - rewrite land_pow2, T by lia. reflexivity.
  - apply Z.div_small; lia.
Qed.

Lemma signbit_hi u w : 1 <= w -> 2 ^ (w - 1) <= u < 2 ^ w ->
  Z.land (Z.shiftr u (w - 1)) 1 = 1 /\ Z.land u (2 ^ (w - 1)) = 2 ^ (w - 1) /\ Z.testbit u (w - 1) = true /\ u / 2 ^ (w - 1) = 1.
Proof.
  intros Hw Hu. pose proof (pow2_split w ltac:(lia)). pose proof (pow2_pos (w - 1) ltac:(lia)).
  assert (T : Z.testbit u (w - 1) = true) by (rewrite testbit_high by lia; lia).
  repeat split; auto.
  - change (Z.land (Z.shiftr u (w - 1)) 1) with (bitZ u (w - 1)). rewrite bitZ_b2z, T by lia. reflexivity.
  - rewrite land_pow2, T by lia. reflexivity.
  - symmetry. apply Z.div_unique with (u - 2 ^ (w - 1)); lia.
Qed.

(* arithmetic normal form of a generated definition (after `unfold`) *)
Ltac norm_gen :=
  unfold py_shl, py_shr, py_truth, mask, trunc in *; cbv zeta;
  rewrite ?Z.shiftl_1_l; rewrite ?land_mask by lia.

(* closed tests on constants and on 2^(w-1) *)
Ltac decide_tests P :=
  rewrite ?Z.eqb_refl; rewrite ?Z.mod_0_l by lia; rewrite ?Z.shiftl_0_l, ?Z.shiftr_0_l, ?Z.lor_0_r, ?Z.lor_0_l, ?Z.add_0_r, ?Z.mul_0_l;
  repeat match goal with
         | |- context [?a >? ?b] => let E := fresh in assert (E : (a >? b) = true) by lia; rewrite E; clear E
         | |- context [?a >? ?b] => let E := fresh in assert (E : (a >? b) = false) by lia; rewrite E; clear E
         | |- context [?a <? ?b] => let E := fresh in assert (E : (a <? b) = true) by lia; rewrite E; clear E
         | |- context [?a <? ?b] => let E := fresh in assert (E : (a <? b) = false) by lia; rewrite E; clear E
         | |- context [?a =? ?b] => let E := fresh in assert (E : (a =? b) = true) by lia; rewrite E; clear E
         | |- context [?a =? ?b] => let E := fresh in assert (E : (a =? b) = false) by lia; rewrite E; clear E
         | |- context [?a >=? ?b] => let E := fresh in assert (E : (a >=? b) = true) by lia; rewrite E; clear E
         | |- context [?a >=? ?b] => let E := fresh in assert (E : (a >=? b) = false) by lia; rewrite E; clear E
         | |- context [?a <=? ?b] => let E := fresh in assert (E : (a <=? b) = true) by lia; rewrite E; clear E
         | |- context [?a <=? ?b] => let E := fresh in assert (E : (a <=? b) = false) by lia; rewrite E; clear E
         end;
  cbv beta iota zeta; cbn [negb andb orb];
  rewrite ?Z.shiftl_0_l, ?Z.shiftr_0_l, ?Z.lor_0_r, ?Z.lor_0_l, ?Z.add_0_r, ?Z.mul_0_l.

(* case split on the sign bit of u (0 <= u < 2^w); in each branch every form of the test is replaced by its value *)
Ltac sign_cases u w Hw Hr :=
  let L := fresh "L" in let F := fresh "F" in
  pose proof (pow2_split w ltac:(lia)); pose proof (pow2_pos (w - 1) ltac:(lia));
  destruct (Z.lt_ge_cases u (2 ^ (w - 1))) as [L | L];
  [ destruct (signbit_lo u w Hw ltac:(lia)) as (F & ?F & ?F & ?F)
  | destruct (signbit_hi u w Hw ltac:(lia)) as (F & ?F & ?F & ?F) ];
  repeat match goal with
         | E : Z.land (Z.shiftr u (w - 1)) 1 = _ |- _ => rewrite ?E; clear E
         | E : Z.land u (2 ^ (w - 1)) = _ |- _ => rewrite ?E; clear E
         | E : Z.testbit u (w - 1) = _ |- _ => rewrite ?E; clear E
         | E : u / 2 ^ (w - 1) = _ |- _ => rewrite ?E; clear E
         end;
  decide_tests tt.

Lemma signed_to_c2_char v w : 0 <= w -> IntegerHelper_signed_to_c2 v w = c2_encode w v.
Proof.
  intros Hw. unfold IntegerHelper_signed_to_c2, c2_encode. norm_gen.
  try reflexivity; rewrite ?Z.mod_mod by (apply Z.pow_nonzero; lia); reflexivity.
Qed.

Lemma c2_to_signed_char v w : 1 <= w -> IntegerHelper_c2_to_signed v w = c2_decode w v.
Proof.
  intros Hw. unfold IntegerHelper_c2_to_signed, c2_decode, sgn. norm_gen.
  pose proof (mod_pow2_range w v ltac:(lia)) as Hr. set (u := v mod 2 ^ w) in *. clearbody u.
  sign_cases u w Hw Hr; lia.
Qed.

Lemma c2_decode_range w u : 1 <= w -> - 2 ^ (w - 1) <= c2_decode w u < 2 ^ (w - 1).
Proof. intros; unfold c2_decode; apply sgn_range; [lia | apply mod_pow2_range; lia]. Qed.

Lemma c2_decode_cong w u : 1 <= w -> (c2_decode w u) mod 2 ^ w = u mod 2 ^ w.
Proof.
  intros Hw. unfold c2_decode. pose proof (mod_pow2_range w u ltac:(lia)) as Hr.
  rewrite <- trunc_mod by lia. rewrite trunc_sgn by lia. reflexivity.
Qed.

Lemma c2_decode_encode w v : 1 <= w -> - 2 ^ (w - 1) <= v < 2 ^ (w - 1) -> c2_decode w (c2_encode w v) = v.
Proof.
  intros Hw Hv. unfold c2_decode, c2_encode. rewrite Z.mod_mod by (apply Z.pow_nonzero; lia).
  pose proof (pow2_split w ltac:(lia)) as Hs. unfold sgn.
  destruct (Z.ltb_spec v 0) as [Hn | Hn].
  - replace (v mod 2 ^ w) with (v + 2 ^ w).
    + destruct (Z.ltb_spec (v + 2 ^ w) (2 ^ (w - 1))); lia.
    + apply Z.mod_unique with (-1); lia.
  - rewrite Z.mod_small by lia. destruct (Z.ltb_spec v (2 ^ (w - 1))); lia.
Qed.

Lemma c2_encode_decode w u : 1 <= w -> 0 <= u < 2 ^ w -> c2_encode w (c2_decode w u) = u.
Proof. intros Hw Hu. unfold c2_encode. rewrite c2_decode_cong by lia. apply Z.mod_small; lia. Qed.

(* the four statements over the generated functions *)
Lemma c2_round_trip w v : 1 <= w -> - 2 ^ (w - 1) <= v < 2 ^ (w - 1) ->
  IntegerHelper_c2_to_signed (IntegerHelper_signed_to_c2 v w) w = v.
Proof. intros; rewrite signed_to_c2_char, c2_to_signed_char by lia; apply c2_decode_encode; lia. Qed.

Lemma c2_converse w u : 1 <= w -> 0 <= u < 2 ^ w ->
  IntegerHelper_signed_to_c2 (IntegerHelper_c2_to_signed u w) w = u.
Proof. intros; rewrite c2_to_signed_char, signed_to_c2_char by lia; apply c2_encode_decode; lia. Qed.

Lemma signed_to_c2_spec w v : 0 <= w ->
  0 <= IntegerHelper_signed_to_c2 v w < 2 ^ w /\ IntegerHelper_signed_to_c2 v w = v mod 2 ^ w.
Proof. intros; rewrite signed_to_c2_char by lia; unfold c2_encode; split; [apply mod_pow2_range; lia | reflexivity]. Qed.

Lemma c2_to_signed_spec w u : 1 <= w ->
  - 2 ^ (w - 1) <= IntegerHelper_c2_to_signed u w < 2 ^ (w - 1) /\
  (IntegerHelper_c2_to_signed u w) mod 2 ^ w = u mod 2 ^ w.
Proof. intros; rewrite c2_to_signed_char by lia; split; [apply c2_decode_range | apply c2_decode_cong]; lia. Qed.

(* ------------------------------------------------------------------ signExtend *)
Lemma signExtend_char v w nw : 1 <= w -> w <= nw -> signExtend v w nw = sign_extend_spec v w nw.
Proof.
  intros Hw Hnw. unfold signExtend, sign_extend_spec, c2_encode, c2_decode, sgn. norm_gen.
  pose proof (mod_pow2_range w v ltac:(lia)) as Hr. set (u := v mod 2 ^ w) in *. clearbody u.
  pose proof (pow2_le w nw ltac:(lia)) as Hle.
  assert (Hnwp : 2 ^ nw = 2 ^ (nw - w) * 2 ^ w) by (rewrite <- Z.pow_add_r by lia; f_equal; lia).
  pose proof (pow2_pos (nw - w) ltac:(lia)) as Hp2.
  sign_cases u w Hw Hr.
  - (* sign bit clear: the masked value itself *)
    symmetry; apply Z.mod_small; lia.
  - (* sign bit set: nw - w ones above the masked value *)
    rewrite ?lor_comm_add by lia; rewrite ?lor_add_disjoint by lia.
    set (A := 2 ^ (nw - w)) in *. set (B := 2 ^ w) in *. rewrite Hnwp.
    apply Z.mod_unique with (-1); [left; nia | ring].
Qed.

(* ------------------------------------------------------------------ arithmetic used by FixedPoint.mult *)
(* P = X modulo 2^n, n >= fw + w : dropping fw low bits and keeping w bits gives the same *)
Lemma div_mod_cong P X K n fw w : 0 <= fw -> 0 <= w -> fw + w <= n -> P = X + K * 2 ^ n ->
  (P / 2 ^ fw) mod 2 ^ w = (X / 2 ^ fw) mod 2 ^ w.
Proof.
  intros Hf Hw Hn ->.
  replace (2 ^ n) with (2 ^ (n - fw - w) * 2 ^ w * 2 ^ fw)
    by (rewrite <- !Z.pow_add_r by lia; f_equal; lia).
  rewrite !Z.mul_assoc. rewrite Z.div_add by (apply Z.pow_nonzero; lia).
  rewrite Z.mod_add by (apply Z.pow_nonzero; lia). reflexivity.
Qed.

(* ------------------------------------------------------------------ field pack / unpack, any format *)
Definition std_layout (ew mw : Z) : layout := mkLayout (ew + mw) mw (2 ^ ew - 1) mw.

Lemma layouts_std : layout_hp = std_layout 5 10 /\ layout_sp = std_layout 8 23 /\ layout_dp = std_layout 11 52.
Proof. repeat split. Qed.

Lemma land1 x : Z.land x 1 = x mod 2.
Proof. change 1 with (Z.ones 1) at 1. rewrite Z.land_ones by lia. reflexivity. Qed.

Lemma land_pm1 x n : 0 <= n -> Z.land x (2 ^ n - 1) = x mod 2 ^ n.
Proof. intros. replace (2 ^ n - 1) with (Z.ones n) by (rewrite Z.ones_equiv; lia). apply Z.land_ones; lia. Qed.

Lemma pack_compose ew mw s e m : 0 <= ew -> 0 <= mw ->
  FPNum_pack (std_layout ew mw) s e m = ieee_compose ew mw (s mod 2) (e mod 2 ^ ew) (m mod 2 ^ mw).
Proof.
  intros He Hm. unfold FPNum_pack, std_layout, ieee_compose; cbn [l_spos l_epos l_emask l_mbits].
  rewrite land1, land_pm1 by lia. rewrite shl1 by lia. rewrite land_pm1 by lia.
  pose proof (mod_pow2_range ew e He) as Hre. pose proof (mod_pow2_range mw m Hm) as Hrm.
  unfold py_shl. rewrite <- Z.shiftl_shiftl by lia. rewrite <- Z.shiftl_lor.
  rewrite lor_add_disjoint by lia. rewrite lor_add_disjoint by lia. reflexivity.
Qed.

Lemma unpack_fields ew mw v : 0 <= ew -> 0 <= mw ->
  FPNum_unpack (std_layout ew mw) v = (fld_s ew mw v, fld_e ew mw v, fld_m ew mw v).
Proof.
  intros He Hm. unfold FPNum_unpack, std_layout, fld_s, fld_e, fld_m; cbn [l_spos l_epos l_emask l_mbits]; cbv zeta.
  unfold py_shr. rewrite !shiftr_div by lia. rewrite land1, land_pm1 by lia. rewrite shl1, land_pm1 by lia. reflexivity.
Qed.

Section Fields.
Variables ew mw : Z.
Hypothesis He : 0 <= ew.
Hypothesis Hm : 0 <= mw.

Lemma compose_range s e m : 0 <= s <= 1 -> 0 <= e < 2 ^ ew -> 0 <= m < 2 ^ mw ->
  0 <= ieee_compose ew mw s e m < 2 ^ (1 + ew + mw).
Proof.
  intros Hs Hee Hmm. unfold ieee_compose. rewrite !Z.pow_add_r by lia. change (2 ^ 1) with 2.
  pose proof (pow2_pos ew He). pose proof (pow2_pos mw Hm). nia.
Qed.

Lemma fld_m_compose s e m : 0 <= m < 2 ^ mw -> fld_m ew mw (ieee_compose ew mw s e m) = m.
Proof.
  intros Hmm. unfold fld_m, ieee_compose. rewrite Z.add_comm, Z.mod_add by (apply Z.pow_nonzero; lia).
  apply Z.mod_small; lia.
Qed.

Lemma compose_div s e m : 0 <= m < 2 ^ mw -> ieee_compose ew mw s e m / 2 ^ mw = s * 2 ^ ew + e.
Proof.
  intros Hmm. unfold ieee_compose. rewrite Z.div_add_l by (apply Z.pow_nonzero; lia).
  rewrite Z.div_small by lia. lia.
Qed.

Lemma fld_e_compose s e m : 0 <= e < 2 ^ ew -> 0 <= m < 2 ^ mw -> fld_e ew mw (ieee_compose ew mw s e m) = e.
Proof.
  intros Hee Hmm. unfold fld_e. rewrite compose_div by lia.
  rewrite Z.add_comm, Z.mod_add by (apply Z.pow_nonzero; lia). apply Z.mod_small; lia.
Qed.

Lemma fld_s_compose s e m : 0 <= s <= 1 -> 0 <= e < 2 ^ ew -> 0 <= m < 2 ^ mw -> fld_s ew mw (ieee_compose ew mw s e m) = s.
Proof.
  intros Hs Hee Hmm. unfold fld_s. rewrite Z.add_comm, Z.pow_add_r by lia.
  rewrite <- Z.div_div by (try apply Z.pow_nonzero; try apply pow2_pos; lia).
  rewrite compose_div by lia. rewrite Z.div_add_l by (apply Z.pow_nonzero; lia).
  rewrite Z.div_small by lia. rewrite Z.add_0_r. apply Z.mod_small; lia.
Qed.

Lemma compose_fields v : ieee_compose ew mw (fld_s ew mw v) (fld_e ew mw v) (fld_m ew mw v) = v mod 2 ^ (1 + ew + mw).
Proof.
  unfold ieee_compose, fld_s, fld_e, fld_m.
  pose proof (pow2_pos ew He) as Pe. pose proof (pow2_pos mw Hm) as Pm.
  assert (Hdd : v / 2 ^ (ew + mw) = v / 2 ^ mw / 2 ^ ew).
  { rewrite Z.add_comm, Z.pow_add_r by lia. rewrite Z.div_div by lia. reflexivity. }
  rewrite Hdd. set (q1 := v / 2 ^ mw). set (q2 := q1 / 2 ^ ew).
  assert (H1 : v = q1 * 2 ^ mw + v mod 2 ^ mw) by (unfold q1; rewrite Z.mul_comm; apply Z.div_mod; lia).
  assert (H2 : q1 = q2 * 2 ^ ew + q1 mod 2 ^ ew) by (unfold q2; rewrite Z.mul_comm; apply Z.div_mod; lia).
  assert (H3 : q2 = (q2 / 2) * 2 + q2 mod 2) by (rewrite Z.mul_comm; apply Z.div_mod; lia).
  pose proof (Z.mod_pos_bound v (2 ^ mw) Pm) as B1. pose proof (Z.mod_pos_bound q1 (2 ^ ew) Pe) as B2.
  pose proof (Z.mod_pos_bound q2 2 ltac:(lia)) as B3.
  set (m := v mod 2 ^ mw) in *. set (e := q1 mod 2 ^ ew) in *. set (s := q2 mod 2) in *.
  apply Z.mod_unique with (q2 / 2).
  - left. apply (compose_range s e m); lia.
  - rewrite H1 at 1. rewrite H2 at 1. rewrite H3 at 1. rewrite !Z.pow_add_r by lia. change (2 ^ 1) with 2. ring.
Qed.
End Fields.

(* the statements about the code's functions *)
Lemma unpack_pack ew mw s e m : 0 <= ew -> 0 <= mw ->
  FPNum_unpack (std_layout ew mw) (FPNum_pack (std_layout ew mw) s e m) = (s mod 2, e mod 2 ^ ew, m mod 2 ^ mw).
Proof.
  intros He Hm. rewrite unpack_fields, pack_compose by lia.
  pose proof (mod_pow2_range ew e He). pose proof (mod_pow2_range mw m Hm). pose proof (Z.mod_pos_bound s 2 ltac:(lia)).
  rewrite fld_s_compose, fld_e_compose, fld_m_compose by lia. reflexivity.
Qed.

Lemma unpack_pack_id ew mw s e m : 0 <= ew -> 0 <= mw -> 0 <= s <= 1 -> 0 <= e < 2 ^ ew -> 0 <= m < 2 ^ mw ->
  FPNum_unpack (std_layout ew mw) (FPNum_pack (std_layout ew mw) s e m) = (s, e, m).
Proof. intros. rewrite unpack_pack by lia. rewrite !Z.mod_small by lia. reflexivity. Qed.

Lemma pack_unpack ew mw v : 0 <= ew -> 0 <= mw ->
  (let '(s, e, m) := FPNum_unpack (std_layout ew mw) v in FPNum_pack (std_layout ew mw) s e m) = v mod 2 ^ (1 + ew + mw).
Proof.
  intros He Hm. rewrite unpack_fields by lia. rewrite pack_compose by lia.
  unfold fld_s at 1. rewrite Z.mod_mod by lia. unfold fld_e at 1. rewrite Z.mod_mod by (apply Z.pow_nonzero; lia).
  unfold fld_m at 1. rewrite Z.mod_mod by (apply Z.pow_nonzero; lia).
  apply compose_fields; lia.
Qed.

Lemma pack_unpack_id ew mw v : 0 <= ew -> 0 <= mw -> 0 <= v < 2 ^ (1 + ew + mw) ->
  (let '(s, e, m) := FPNum_unpack (std_layout ew mw) v in FPNum_pack (std_layout ew mw) s e m) = v.
Proof. intros. rewrite pack_unpack by lia. apply Z.mod_small; lia. Qed.

(* FloatingPointHelper.unpack (unmasked sign) agrees with the masked one on patterns of the format *)
Lemma fph_unpack_eq ew mw v : 0 <= ew -> 0 <= mw -> 0 <= v < 2 ^ (1 + ew + mw) ->
  FPH_unpack (std_layout ew mw) v = FPNum_unpack (std_layout ew mw) v.
Proof.
  intros He Hm Hv. unfold FPH_unpack, FPNum_unpack, std_layout; cbn [l_spos l_epos l_emask l_mbits]; cbv zeta.
  f_equal. f_equal. rewrite land1. unfold py_shr. rewrite shiftr_div by lia.
  symmetry. apply Z.mod_small. pose proof (pow2_pos (ew + mw) ltac:(lia)).
  split; [apply Z.div_pos; lia|]. apply Z.div_lt_upper_bound; [lia|].
  replace (1 + ew + mw) with (1 + (ew + mw)) in Hv by lia. rewrite Z.pow_add_r in Hv by lia. change (2 ^ 1) with 2 in Hv. lia.
Qed.

Lemma fph_assemble_compose ew mw s e m : 0 <= ew -> 0 <= mw -> 0 <= e < 2 ^ ew -> 0 <= m < 2 ^ mw ->
  FPH_assemble (std_layout ew mw) s e m = ieee_compose ew mw s e m.
Proof.
  intros He Hm Hee Hmm. unfold FPH_assemble, std_layout, ieee_compose; cbn [l_spos l_epos l_emask l_mbits].
  unfold py_shl. rewrite <- Z.shiftl_shiftl by lia. rewrite <- Z.shiftl_lor.
  rewrite lor_add_disjoint by lia. rewrite lor_add_disjoint by lia. reflexivity.
Qed.

(* ------------------------------------------------------------------ FixedPoint.toFloatingPoint: the numerator over 2^fw *)
Lemma lxor_mask v w : 0 <= w -> 0 <= v < 2 ^ w -> Z.lxor v (2 ^ w - 1) = 2 ^ w - 1 - v.
Proof.
  intros Hw Hv. replace (2 ^ w - 1) with (Z.ones w) by (rewrite Z.ones_equiv; lia).
  assert (L : Z.land v (Z.lxor v (Z.ones w)) = 0).
  { apply Z.bits_inj'; intros i Hi. rewrite Z.land_spec, Z.lxor_spec, Z.bits_0.
    destruct (Z.ltb_spec i w) as [Li | Gi].
    - rewrite Z.ones_spec_low by lia. destruct (Z.testbit v i); reflexivity.
    - rewrite <- (Z.mod_small v (2 ^ w)) by lia. rewrite Z.mod_pow2_bits_high by lia. reflexivity. }
  pose proof (Z.add_nocarry_lxor _ _ L) as A.
  rewrite <- Z.lxor_assoc, Z.lxor_nilpotent, Z.lxor_0_l in A. lia.
Qed.

Lemma toFloat_num_signed iw fw v : 0 <= iw -> 0 <= fw -> 0 <= v < 2 ^ (1 + iw + fw) ->
  FixedPoint_toFloat_num 1 iw fw v = c2_decode (1 + iw + fw) v.
Proof.
  intros Hi Hf Hv. unfold FixedPoint_toFloat_num, c2_decode. set (w := 1 + iw + fw) in *.
  assert (Hw : 1 <= w) by (unfold w; lia).
  rewrite Z.mod_small by lia. change (Z.land (py_shr v (iw + fw)) 1) with (bitZ v (iw + fw)).
  rewrite bitZ_b2z by lia. replace (iw + fw) with (w - 1) by (unfold w; lia). rewrite testbit_high by lia.
  pose proof (pow2_split w ltac:(lia)) as Hs. pose proof (pow2_pos (w - 1) ltac:(lia)) as Hp.
  unfold sgn. destruct (Z.leb_spec (2 ^ (w - 1)) v) as [G | L]; cbn [b2z Z.eqb Pos.eqb].
  - destruct (Z.ltb_spec v (2 ^ (w - 1))); [lia|]. cbv zeta. rewrite shl1 by lia.
    rewrite lxor_mask by lia. change (Z.land ?x (2 ^ w - 1)) with (Z.land x (2 ^ w - 1)).
    rewrite land_pm1 by lia. rewrite Z.mod_small by lia. lia.
  - destruct (Z.ltb_spec v (2 ^ (w - 1))); [reflexivity | lia].
Qed.

Lemma toFloat_num_unsigned iw fw v : 0 <= iw -> 0 <= fw -> 0 <= v < 2 ^ (iw + fw) ->
  FixedPoint_toFloat_num 0 iw fw v = v.
Proof.
  intros Hi Hf Hv. unfold FixedPoint_toFloat_num. unfold py_shr. rewrite shiftr_div by lia.
  rewrite Z.div_small by lia. reflexivity.
Qed.

(* ------------------------------------------------------------------ FixedPoint on raw encodings (every format, iw = 0 included) *)
Lemma intToFixedPoint_spec sw iw fw v : 0 <= sw -> 0 <= iw -> 0 <= fw ->
  (0 <= v \/ sw <> 0) -> v <= 2 ^ iw / 2 ->
  FixedPoint_intToFixedPoint sw iw fw v = Some (fx_of_int_spec (fx_width sw iw fw) fw v).
Proof.
  intros Hs Hi Hf Hv Hmax. unfold FixedPoint_intToFixedPoint, fx_of_int_spec, fx_width.
  replace ((v <? 0) && (sw =? 0)) with false by (destruct Hv; lia).
  replace (iw <? 0) with false by lia. cbv zeta. rewrite shl1 by lia.
  unfold py_shr. rewrite shiftr_div by lia. change (2 ^ 1) with 2.
  replace (v >? 2 ^ iw / 2) with false by lia.
  f_equal. change (Z.land ?x (py_shl 1 ?w - 1)) with (trunc w x). rewrite trunc_mod by lia.
  unfold py_shl; rewrite shiftl_mul by lia. reflexivity.
Qed.

(* HISTORY: for iw >= 1 the constructor before 6fe767a computed the same *)
Lemma intToFixedPoint_same_as_before sw iw fw v : 1 <= iw ->
  FixedPoint_intToFixedPoint sw iw fw v = FixedPoint_intToFixedPoint_before_6fe767a sw iw fw v.
Proof.
  intros Hi. unfold FixedPoint_intToFixedPoint, FixedPoint_intToFixedPoint_before_6fe767a.
  replace (iw <? 0) with false by lia. replace (iw - 1 <? 0) with false by lia. cbv zeta.
  rewrite (shl1 iw), (shl1 (iw - 1)) by lia. unfold py_shr. rewrite shiftr_div by lia. change (2 ^ 1) with 2.
  rewrite (pow2_split iw) by lia. rewrite Z.mul_comm, Z.div_mul by lia. reflexivity.
Qed.

Lemma fx_zero_ok sw iw fw : 0 <= sw -> 0 <= iw -> 0 <= fw ->
  exists z, FixedPoint_intToFixedPoint sw iw fw 0 = Some z.
Proof.
  intros. eexists. apply intToFixedPoint_spec; first [lia | apply Z.div_pos; [apply Z.pow_nonneg|]; lia].
Qed.

Lemma fx_add_ok sw iw fw a b : 0 <= sw -> 0 <= iw -> 0 <= fw ->
  FixedPoint_add sw iw fw a b = Some (fx_add_spec (fx_width sw iw fw) a b).
Proof.
  intros Hs Hi Hf. unfold FixedPoint_add, FixedPoint_add_gen. destruct (fx_zero_ok sw iw fw Hs Hi Hf) as [z ->].
  cbv zeta. f_equal. apply (trunc_mod (sw + iw + fw) (a + b)); lia.
Qed.

Lemma fx_sub_ok sw iw fw a b : 0 <= sw -> 0 <= iw -> 0 <= fw ->
  FixedPoint_sub sw iw fw a b = Some (fx_sub_spec (fx_width sw iw fw) a b).
Proof.
  intros Hs Hi Hf. unfold FixedPoint_sub, FixedPoint_sub_gen. destruct (fx_zero_ok sw iw fw Hs Hi Hf) as [z ->].
  cbv zeta. f_equal. apply (trunc_mod (sw + iw + fw) (a - b)); lia.
Qed.

(* mult sign-extends from bit w-1: the format needs at least one bit (w = 0: `v >> -1` raises) *)
Lemma fx_mult_ok sw iw fw a b : 0 <= sw -> 0 <= iw -> 0 <= fw -> 1 <= sw + iw + fw ->
  FixedPoint_mult sw iw fw a b = Some (fx_mult_spec (fx_width sw iw fw) fw a b).
Proof.
  intros Hs Hi Hf Hw1. unfold FixedPoint_mult, FixedPoint_mult_gen. destruct (fx_zero_ok sw iw fw Hs Hi Hf) as [z ->].
  cbv zeta. f_equal. unfold fx_mult_spec, fx_width. set (w := sw + iw + fw).
  assert (Hw : 1 <= w) by (unfold w; lia).
  change (Z.land ?x (py_shl 1 w - 1)) with (trunc w x). rewrite trunc_mod by lia.
  unfold py_shr. rewrite shiftr_div by lia.
  rewrite !signExtend_char by lia. unfold sign_extend_spec, c2_encode.
  set (sa := c2_decode w a). set (sb := c2_decode w b).
  apply div_mod_cong with (K := - sa * (sb / 2 ^ (w * 2)) - sb * (sa / 2 ^ (w * 2)) + (sa / 2 ^ (w * 2)) * (sb / 2 ^ (w * 2)) * 2 ^ (w * 2)) (n := w * 2);
    try (unfold w; lia).
  pose proof (pow2_pos (w * 2) ltac:(lia)) as Hp.
  rewrite (Z.mod_eq sa (2 ^ (w * 2))), (Z.mod_eq sb (2 ^ (w * 2))) by lia. ring.
Qed.

(* with an unsigned format (sw = 0) the top bit is still read as a sign; below it the plain product is obtained *)
Lemma fx_mult_small sw iw fw a b : 0 <= sw -> 0 <= iw -> 0 <= fw -> 1 <= sw + iw + fw ->
  let w := fx_width sw iw fw in
  0 <= a < 2 ^ (w - 1) -> 0 <= b < 2 ^ (w - 1) ->
  FixedPoint_mult sw iw fw a b = Some (((a * b) / 2 ^ fw) mod 2 ^ w).
Proof.
  intros Hs Hi Hf Hw1 w Ha Hb. rewrite fx_mult_ok by lia. unfold fx_mult_spec. fold w.
  assert (Hw : 1 <= w) by (unfold w, fx_width; lia).
  pose proof (pow2_split w ltac:(lia)).
  assert (Hd : forall x, 0 <= x < 2 ^ (w - 1) -> c2_decode w x = x).
  { intros x Hx. unfold c2_decode, sgn. rewrite Z.mod_small by lia. destruct (Z.ltb_spec x (2 ^ (w - 1))); lia. }
  rewrite !Hd by lia. reflexivity.
Qed.

Lemma fx_mult_unsigned_topbit :    (* FixedPoint(0,2,1, 2).mult(FixedPoint(0,2,1, 0.5)) : raw 4 * raw 1 -> raw 6 (3.0), plain product would be raw 2 (1.0) *)
  FixedPoint_mult 0 2 1 4 1 = Some 6 /\ ((4 * 1) / 2 ^ 1) mod 2 ^ 3 = 2.
Proof. vm_compute. split; reflexivity. Qed.

(* HISTORY (finding #23, repaired by 6fe767a): with the old constructor every operation raised for iw = 0 *)
Lemma fx_iw0_raised_before sw fw a b :
  FixedPoint_add_gen FixedPoint_intToFixedPoint_before_6fe767a sw 0 fw a b = None /\
  FixedPoint_sub_gen FixedPoint_intToFixedPoint_before_6fe767a sw 0 fw a b = None /\
  FixedPoint_mult_gen FixedPoint_intToFixedPoint_before_6fe767a sw 0 fw a b = None.
Proof.
  unfold FixedPoint_add_gen, FixedPoint_sub_gen, FixedPoint_mult_gen, FixedPoint_intToFixedPoint_before_6fe767a.
  replace ((0 <? 0) && (sw =? 0)) with false by reflexivity. cbn [Z.sub Z.opp Z.add Z.ltb Z.compare Z.pos_sub]. repeat split.
Qed.
