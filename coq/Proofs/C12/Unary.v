(* C12 — FPNum.neg / abs / div2 are exact on the rationals; reducePrecision truncates the significand toward zero to
   the requested number of fraction bits; reducePrecisionWithRounding rounds it to nearest, ties toward zero. *)
From V Require Import Base.Bits Spec.C12 Model.HelperInt Model.FPNum Proofs.C12.Int Proofs.C12.QFacts Proofs.C12.FPNum.
From Coq Require Import QArith Qpower Qfield Qabs Qround.
Open Scope Z_scope.

(* ------------------------------------------------------------------ spec-side operators on the extended rationals *)
Definition xabs (a : xq) : xq :=
  match a with XNaN => XNaN | XInf _ => XInf false | XFin q => XFin (Qabs q) end.
(* division by 2^n *)
Definition xdiv2 (n : Z) (a : xq) : xq :=
  match a with XNaN => XNaN | XInf s => XInf s | XFin q => XFin (q / inject_Z (2 ^ n)) end.
(* a non-negative rational truncated (toward zero) to prec fraction bits *)
Definition trunc_bits (prec : Z) (q : Q) : Q := (inject_Z (Qfloor (q * two_pow prec)) / two_pow prec)%Q.

(* the representation FPNum(s, e, m, 0) of a special value: p = 0, infinity iff m = 0, NaN otherwise *)
Definition canon_special (a : fpnum) : Prop :=
  f_p a = 0 /\ f_inf a = (f_m a =? 0) /\ f_nan a = negb (f_m a =? 0).

(* ------------------------------------------------------------------ facts about val4 *)
Lemma scale_pos e p : 0 < p -> (0 < two_pow e / inject_Z p)%Q.
Proof.
  intros Hp. apply Qlt_shift_div_l; [apply inject_Z_pos; lia|]. rewrite Qmult_0_l. apply two_pow_pos.
Qed.

Lemma val4_one e m p : 0 < p -> (val4 1 e m p == inject_Z m * (two_pow e / inject_Z p))%Q.
Proof. intros Hp. rewrite val4_factor by exact Hp. rewrite Z.mul_1_l. reflexivity. Qed.

Lemma val4_nonneg e m p : 0 <= m -> 0 < p -> (0 <= val4 1 e m p)%Q.
Proof.
  intros Hm Hp. rewrite val4_one by exact Hp. apply Qmult_le_0_compat.
  - change 0%Q with (inject_Z 0). rewrite <- Zle_Qle. exact Hm.
  - apply Qlt_le_weak, scale_pos, Hp.
Qed.

Lemma val4_mono e a b p : 0 < p -> a <= b -> (val4 1 e a p <= val4 1 e b p)%Q.
Proof.
  intros Hp Hab. rewrite !val4_one by exact Hp. apply Qmult_le_compat_r.
  - rewrite <- Zle_Qle. exact Hab.
  - apply Qlt_le_weak, scale_pos, Hp.
Qed.

Lemma val4_abs s e t p : (s = 1 \/ s = -1) -> 0 < p -> (Qabs (val4 s e t p) == val4 1 e (Z.abs t) p)%Q.
Proof.
  intros Hs Hp. rewrite val4_factor by exact Hp. rewrite val4_one by exact Hp. rewrite Qabs_Qmult.
  rewrite (Qabs_pos (two_pow e / inject_Z p)) by (apply Qlt_le_weak, scale_pos, Hp).
  replace (Z.abs t) with (Z.abs (s * t)) by (destruct Hs as [-> | ->]; lia). reflexivity.
Qed.

(* t / p * 2^e against 2^(e - q) *)
Lemma val4_pow_form e t p q : 0 < p -> 0 <= q ->
  (val4 1 e t p == inject_Z (t * 2 ^ q) * (two_pow e / (inject_Z p * inject_Z (2 ^ q))))%Q /\
  (two_pow (e - q) == inject_Z p * (two_pow e / (inject_Z p * inject_Z (2 ^ q))))%Q.
Proof.
  intros Hp Hq. split.
  - rewrite val4_one by exact Hp. rewrite inject_Z_mult. field.
    repeat split; first [apply inject_pow2_nz; lia | apply inject_Z_nz; lia].
  - rewrite two_pow_sub, (two_pow_Z q) by lia. field.
    repeat split; first [apply inject_pow2_nz; lia | apply inject_Z_nz; lia].
Qed.

Lemma scale2_pos e p q : 0 < p -> 0 <= q -> (0 < two_pow e / (inject_Z p * inject_Z (2 ^ q)))%Q.
Proof.
  intros Hp Hq. rewrite <- inject_Z_mult. apply scale_pos. pose proof (pow2_pos q Hq). nia.
Qed.

Lemma val4_lt_pow e t p q : 0 < p -> 0 <= q -> t * 2 ^ q < p -> (val4 1 e t p < two_pow (e - q))%Q.
Proof.
  intros Hp Hq Ht. destruct (val4_pow_form e t p q Hp Hq) as [E1 E2]. rewrite E1, E2.
  apply Qmult_lt_r; [apply scale2_pos; assumption|]. rewrite <- Zlt_Qlt. exact Ht.
Qed.

Lemma val4_le_pow e t p q : 0 < p -> 0 <= q -> t * 2 ^ q <= p -> (val4 1 e t p <= two_pow (e - q))%Q.
Proof.
  intros Hp Hq Ht. destruct (val4_pow_form e t p q Hp Hq) as [E1 E2]. rewrite E1, E2.
  apply Qmult_le_compat_r; [|apply Qlt_le_weak, scale2_pos; assumption]. rewrite <- Zle_Qle. exact Ht.
Qed.

Lemma val4_diff s e m1 m2 p : p <> 0 -> (val4 s e m1 p - val4 s e m2 p == val4 s e (m1 - m2) p)%Q.
Proof.
  intros Hp. unfold val4. unfold Z.sub. rewrite inject_Z_plus, inject_Z_opp. field. apply inject_Z_nz; lia.
Qed.

(* ------------------------------------------------------------------ neg / abs / div2 : exact *)
Lemma neg_exact a : f_inf a = false -> f_nan a = false -> fin_ok a ->
  let r := FPNum_neg a in
  xeq (xval r) (xneg (xval a)) /\ f_inf r = false /\ f_nan r = false /\ f_s r = - f_s a /\ (wf a -> wf r).
Proof.
  intros Ia Na [Hm Hp]. cbv zeta. unfold FPNum_neg. rewrite mul_m1.
  destruct (FPNum4_spec (- f_s a) (f_e a) (f_m a) (f_p a) Hm Hp) as (S1 & I1 & N1 & O1 & V1 & W1 & _).
  rewrite (xval_fin _ I1 N1), (xval_fin a Ia Na). cbn [xneg xeq].
  split; [rewrite V1, val4_opp, <- fval_val4; reflexivity|].
  split; [exact I1|]. split; [exact N1|]. split; [exact S1|].
  intros [Sa Hw]. destruct (Hw Ia Na) as [_ PW]. split.
  - unfold sign_ok in *. rewrite S1. lia.
  - intros _ _. split; [apply O1 | apply W1, PW].
Qed.

Lemma abs_exact a : f_inf a = false -> f_nan a = false -> fin_ok a -> sign_ok a ->
  let r := FPNum_abs a in
  xeq (xval r) (xabs (xval a)) /\ f_inf r = false /\ f_nan r = false /\ f_s r = 1 /\ (wf a -> wf r).
Proof.
  intros Ia Na [Hm Hp] Sa. cbv zeta. unfold FPNum_abs.
  destruct (FPNum4_spec 1 (f_e a) (f_m a) (f_p a) Hm Hp) as (S1 & I1 & N1 & O1 & V1 & W1 & _).
  rewrite (xval_fin _ I1 N1), (xval_fin a Ia Na). cbn [xabs xeq].
  split.
  - rewrite V1, (fval_val4 a). rewrite val4_abs by (exact Sa || exact Hp).
    rewrite Z.abs_eq by exact Hm. reflexivity.
  - split; [exact I1|]. split; [exact N1|]. split; [exact S1|].
    intros [_ Hw]. destruct (Hw Ia Na) as [_ PW]. split.
    + unfold sign_ok. rewrite S1. now left.
    + intros _ _. split; [apply O1 | apply W1, PW].
Qed.

Lemma val4_div2 s e m p n : 0 < p -> 0 <= n -> (val4 s e m (p * 2 ^ n) == val4 s e m p / inject_Z (2 ^ n))%Q.
Proof.
  intros Hp Hn. unfold val4. rewrite inject_Z_mult. field.
  repeat split; first [apply inject_pow2_nz; lia | apply inject_Z_nz; lia].
Qed.

Lemma div2_exact a n : 0 <= n -> f_inf a = false -> f_nan a = false -> fin_ok a ->
  let r := FPNum_div2 a n in
  xeq (xval r) (xdiv2 n (xval a)) /\ f_inf r = false /\ f_nan r = false /\ f_s r = f_s a /\ (wf a -> wf r).
Proof.
  intros Hn Ia Na [Hm Hp]. cbv zeta. unfold FPNum_div2. rewrite shl_n by exact Hn.
  pose proof (pow2_pos n Hn) as P2.
  assert (Hp' : 0 < f_p a * 2 ^ n) by nia.
  destruct (FPNum4_spec (f_s a) (f_e a) (f_m a) (f_p a * 2 ^ n) Hm Hp') as (S1 & I1 & N1 & O1 & V1 & W1 & _).
  rewrite (xval_fin _ I1 N1), (xval_fin a Ia Na). cbn [xdiv2 xeq].
  split; [rewrite V1, val4_div2, <- fval_val4 by assumption; reflexivity|].
  split; [exact I1|]. split; [exact N1|]. split; [exact S1|].
  intros [Sa Hw]. destruct (Hw Ia Na) as [_ PW]. split.
  - unfold sign_ok in *. rewrite S1. exact Sa.
  - intros _ _. split; [apply O1 | apply W1, pow2_mul; [exact PW | apply pow2_pow; exact Hn]].
Qed.

(* the specials, in the representation the constructor understands (p = 0) *)
Lemma unary_special a n : canon_special a -> sign_ok a -> 0 <= n ->
  xval (FPNum_neg a) = xneg (xval a) /\ xval (FPNum_abs a) = xabs (xval a) /\
  xval (FPNum_div2 a n) = xdiv2 n (xval a).
Proof.
  destruct a as [s e m p i nn]. unfold canon_special, sign_ok. cbn [f_s f_e f_m f_p f_inf f_nan].
  intros (-> & -> & ->) Hs Hn.
  unfold FPNum_neg, FPNum_abs, FPNum_div2. cbn [f_s f_e f_m f_p f_inf f_nan].
  unfold py_shl. rewrite Z.shiftl_0_l. rewrite !FPNum4_special. unfold xval. cbn [f_s f_e f_m f_p f_inf f_nan].
  destruct (m =? 0); cbn [negb xneg xabs xdiv2]; [|auto].
  destruct Hs as [-> | ->]; cbn; auto.
Qed.

(* an infinity that is only FLAGGED (reduceExponentPrecision sets infinity = True and keeps p <> 0) is outside the guard:
   the constructor called by neg starts from infinity = False and looks at p only *)
Lemma neg_flagged_infinity :
  let x := FPNum_reduceExponentPrecision (mkfp 1 200 1 1 false false) 8 in
  xval x = XInf false /\ f_p x = 1 /\ f_inf (FPNum_neg x) = false /\ FPNum_neg x = mkfp (-1) 200 1 1 false false.
Proof. vm_compute. repeat split. Qed.

(* ------------------------------------------------------------------ reducePrecision *)
Lemma pow_div_pow a b : 0 <= b <= a -> 2 ^ a / 2 ^ b = 2 ^ (a - b).
Proof.
  intros H. replace a with ((a - b) + b) at 1 by lia. rewrite Z.pow_add_r by lia.
  apply Z.div_mul. pose proof (pow2_pos b ltac:(lia)). lia.
Qed.

Lemma pow_half a : 0 < a -> 2 ^ a / 2 = 2 ^ (a - 1).
Proof. intros H. rewrite (pow2_split a) by lia. rewrite (Z.mul_comm 2). apply Z.div_mul. lia. Qed.

Lemma red_prec_pow2 fuel : forall a b m, 0 <= a -> 0 <= b -> a - b <= Z.of_nat fuel ->
  red_prec fuel m (2 ^ b) (2 ^ a) = (m / 2 ^ Z.max 0 (a - b), 2 ^ Z.min a b).
Proof.
  induction fuel as [|f IH]; intros a b m Ha Hb Hf; cbn [red_prec].
  - rewrite Z.max_l, Z.min_l by lia. rewrite Z.pow_0_r, Z.div_1_r. reflexivity.
  - rewrite pow_lt_iff by lia. destruct (Z.ltb_spec b a) as [L | G].
    + rewrite !shr_1. rewrite pow_half by lia.
      rewrite IH by lia. rewrite !Z.max_r, !Z.min_r by lia. f_equal.
      rewrite Z.div_div by (pose proof (pow2_pos (a - 1 - b) ltac:(lia)); lia).
      f_equal. replace (a - b) with (1 + (a - 1 - b)) by lia. rewrite Z.pow_add_r by lia. reflexivity.
    + rewrite Z.max_l, Z.min_l by lia. rewrite Z.pow_0_r, Z.div_1_r. reflexivity.
Qed.

Lemma fuel_of_pow2 k : 0 <= k -> Z.of_nat (fuel_of (2 ^ k)) = k + 2.
Proof. intros Hk. unfold fuel_of. rewrite Z.log2_pow2 by lia. lia. Qed.

Lemma Qfloor_div a b : 0 < b -> Qfloor (inject_Z a / inject_Z b) = a / b.
Proof.
  intros Hb. destruct b as [|pb|pb]; try lia.
  rewrite <- (Qfloor_comp _ _ (Qmake_Qdiv a pb)). reflexivity.
Qed.

Lemma qfloor_scaled m k prec : 0 <= k -> 0 <= prec ->
  Qfloor (inject_Z m / inject_Z (2 ^ k) * two_pow prec) =
  if prec <=? k then m / 2 ^ (k - prec) else m * 2 ^ (prec - k).
Proof.
  intros Hk Hp. destruct (Z.leb_spec prec k) as [L | G].
  - rewrite <- Qfloor_div by (apply pow2_pos; lia). apply Qfloor_comp.
    rewrite two_pow_Z by lia. replace k with ((k - prec) + prec) at 1 by lia.
    rewrite Z.pow_add_r, inject_Z_mult by lia. field.
    repeat split; first [apply inject_pow2_nz; lia | apply inject_Z_nz; lia].
  - rewrite <- Qfloor_Z. apply Qfloor_comp.
    rewrite two_pow_Z by lia. replace prec with ((prec - k) + k) at 1 by lia.
    rewrite Z.pow_add_r, !inject_Z_mult by lia. field. repeat split; first [apply inject_pow2_nz; lia | apply inject_Z_nz; lia].
Qed.

(* what the loop leaves, for p = 2^k *)
Lemma reduce_precision_shape x prec k : 0 <= prec -> 0 <= k -> f_p x = 2 ^ k ->
  FPNum_reducePrecision x prec =
  mkfp (f_s x) (f_e x) (f_m x / 2 ^ Z.max 0 (k - prec)) (2 ^ Z.min k prec) (f_inf x) (f_nan x).
Proof.
  intros Hp Hk Ek. unfold FPNum_reducePrecision. rewrite shl1 by exact Hp. rewrite Ek.
  rewrite red_prec_pow2 by (try rewrite fuel_of_pow2; lia). reflexivity.
Qed.

Lemma reduce_precision_spec x prec : 0 <= prec -> 0 <= f_m x -> pow2 (f_p x) ->
  let y := FPNum_reducePrecision x prec in
  let D := f_p x / f_p y in
  f_s y = f_s x /\ f_e y = f_e x /\ f_inf y = f_inf x /\ f_nan y = f_nan x /\
  f_p y = Z.min (f_p x) (2 ^ prec) /\ pow2 (f_p y) /\ f_p x = f_p y * D /\
  f_m y = f_m x / D /\ 0 <= f_m y /\
  f_m y * f_p x <= f_m x * f_p y < (f_m y + 1) * f_p x /\
  (fval y == inject_Z (f_s x) * trunc_bits prec (inject_Z (f_m x) / inject_Z (f_p x)) * two_pow (f_e x))%Q /\
  (sign_ok x -> (Qabs (fval y) <= Qabs (fval x))%Q /\ (Qabs (fval x - fval y) < two_pow (f_e x - prec))%Q).
Proof.
  intros Hp Hm (k & Hk & Ek). cbv zeta. rewrite (reduce_precision_shape x prec k Hp Hk Ek).
  cbn [f_s f_e f_m f_p f_inf f_nan]. rewrite Ek.
  set (j := Z.max 0 (k - prec)).
  assert (Hj : 0 <= j) by (unfold j; lia).
  assert (Emin : Z.min k prec = k - j) by (unfold j; lia).
  rewrite Emin. rewrite pow_div_pow by lia. replace (k - (k - j)) with j by lia.
  pose proof (pow2_pos j Hj) as PJ. pose proof (pow2_pos (k - j) ltac:(lia)) as PKJ. pose proof (pow2_pos k Hk) as PK.
  assert (Esplit : 2 ^ k = 2 ^ (k - j) * 2 ^ j) by (rewrite <- Z.pow_add_r by lia; f_equal; lia).
  pose proof (Z.div_mod (f_m x) (2 ^ j) ltac:(lia)) as DM.
  pose proof (Z.mod_pos_bound (f_m x) (2 ^ j) PJ) as MB.
  assert (Hmy : 0 <= f_m x / 2 ^ j) by (apply Z.div_pos; lia).
  split; [reflexivity|]. split; [reflexivity|]. split; [reflexivity|]. split; [reflexivity|].
  split.
  { destruct (Z.le_ge_cases k prec) as [L | G].
    - rewrite Z.min_l by (apply pow2_le; lia). f_equal. unfold j. lia.
    - rewrite Z.min_r by (apply pow2_le; lia). f_equal. unfold j. lia. }
  split; [apply pow2_pow; lia|]. split; [exact Esplit|]. split; [reflexivity|]. split; [exact Hmy|].
  split; [rewrite Esplit; nia|].
  (* the result over the common denominator 2^k *)
  assert (Vy : (val4 (f_s x) (f_e x) (f_m x / 2 ^ j) (2 ^ (k - j)) ==
                val4 (f_s x) (f_e x) (f_m x / 2 ^ j * 2 ^ j) (2 ^ k))%Q).
  { apply val_ratio; first [lia | rewrite Esplit; ring]. }
  split.
  - rewrite fval_val4. cbn [f_s f_e f_m f_p]. unfold val4, trunc_bits.
    rewrite qfloor_scaled by lia. unfold j.
    destruct (Z.leb_spec prec k) as [L | G].
    + rewrite Z.max_r by lia. replace (k - (k - prec)) with prec by lia. rewrite (two_pow_Z prec) by lia. reflexivity.
    + rewrite Z.max_l by lia. rewrite Z.pow_0_r, Z.div_1_r, Z.sub_0_r.
      rewrite (two_pow_Z prec) by lia.
      assert (E : 2 ^ prec = 2 ^ (prec - k) * 2 ^ k) by (rewrite <- Z.pow_add_r by lia; f_equal; lia).
      rewrite E, !inject_Z_mult. field.
      repeat split; first [apply inject_pow2_nz; lia | apply inject_Z_nz; lia].
  - intros Sx. rewrite !fval_val4. cbn [f_s f_e f_m f_p]. rewrite Ek, Vy. split.
    + rewrite !val4_abs by (exact Sx || lia). apply val4_mono; [lia|].
      rewrite !Z.abs_eq by nia. nia.
    + rewrite val4_diff by lia. rewrite val4_abs by (exact Sx || lia).
      replace (f_m x - f_m x / 2 ^ j * 2 ^ j) with (f_m x mod 2 ^ j) by lia.
      rewrite Z.abs_eq by lia. apply val4_lt_pow; try lia.
      destruct (Z.le_ge_cases k prec) as [L | G].
      * assert (E0 : 2 ^ j = 1) by (replace j with 0 by (unfold j; lia); reflexivity).
        rewrite E0, Z.mod_1_r. lia.
      * assert (Ej : j = k - prec) by (unfold j; lia).
        assert (E2 : 2 ^ k = 2 ^ j * 2 ^ prec) by (rewrite <- Z.pow_add_r by lia; f_equal; lia).
        rewrite E2. pose proof (pow2_pos prec Hp). nia.
Qed.

(* ------------------------------------------------------------------ reducePrecisionWithRounding *)
Lemma red_prec_r_pow2 fuel : forall M a b i, 0 <= b -> b <= a -> 0 <= i -> a - b <= Z.of_nat fuel ->
  red_prec_r fuel (M / 2 ^ i) (2 ^ b) (2 ^ a) (M mod 2 ^ i) i =
  (M / 2 ^ (i + (a - b)), 2 ^ b, M mod 2 ^ (i + (a - b)), i + (a - b)).
Proof.
  induction fuel as [|f IH]; intros M a b i Hb Hab Hi Hf; cbn [red_prec_r].
  - assert (a = b) by lia. subst a. rewrite Z.sub_diag, Z.add_0_r. reflexivity.
  - rewrite pow_lt_iff by lia. destruct (Z.ltb_spec b a) as [L | G].
    + rewrite !shr_1. rewrite pow_half by lia.
      pose proof (pow2_pos i Hi) as PI.
      assert (E1 : M / 2 ^ i / 2 = M / 2 ^ (i + 1)).
      { rewrite Z.div_div by lia. rewrite Z.pow_add_r by lia. reflexivity. }
      assert (E2 : Z.lor (py_shl (Z.land (M / 2 ^ i) 1) i) (M mod 2 ^ i) = M mod 2 ^ (i + 1)).
      { unfold py_shl. rewrite land1. rewrite lor_add_disjoint by (try apply Z.mod_pos_bound; lia).
        rewrite Z.pow_add_r by lia. change (2 ^ 1) with 2. rewrite Z.rem_mul_r by lia. ring. }
      rewrite E1, E2. rewrite IH by lia. replace (i + 1 + (a - 1 - b)) with (i + (a - b)) by lia. reflexivity.
    + assert (a = b) by lia. subst a. rewrite Z.sub_diag, Z.add_0_r. reflexivity.
Qed.

Lemma reduce_precision_rounding_shape x prec k : 0 <= prec -> 0 <= k -> f_p x = 2 ^ k ->
  FPNum_reducePrecisionWithRounding x prec =
  if prec <? k then
    mkfp (f_s x) (f_e x)
         (f_m x / 2 ^ (k - prec) + (if f_m x mod 2 ^ (k - prec) >? 2 ^ (k - prec - 1) then 1 else 0))
         (2 ^ prec) (f_inf x) (f_nan x)
  else x.
Proof.
  intros Hp Hk Ek. unfold FPNum_reducePrecisionWithRounding. cbv zeta. rewrite shl1 by exact Hp. rewrite Ek.
  rewrite pow_lt_iff by lia. destruct (Z.ltb_spec prec k) as [L | G]; [|reflexivity].
  pose proof (red_prec_r_pow2 (fuel_of (2 ^ k)) (f_m x) k prec 0 Hp ltac:(lia) ltac:(lia)
                              ltac:(rewrite fuel_of_pow2; lia)) as H.
  rewrite Z.pow_0_r, Z.div_1_r, Z.mod_1_r, Z.add_0_l in H. rewrite H.
  rewrite shl1 by lia. destruct (f_m x mod 2 ^ (k - prec) >? 2 ^ (k - prec - 1)); [reflexivity | rewrite Z.add_0_r; reflexivity].
Qed.

Lemma reduce_precision_rounding_spec x prec : 0 <= prec -> 0 <= f_m x -> pow2 (f_p x) ->
  let y := FPNum_reducePrecisionWithRounding x prec in
  let D := f_p x / f_p y in
  f_s y = f_s x /\ f_e y = f_e x /\ f_inf y = f_inf x /\ f_nan y = f_nan x /\
  f_p y = Z.min (f_p x) (2 ^ prec) /\ pow2 (f_p y) /\ f_p x = f_p y * D /\
  f_m y = f_m x / D + (if 2 * (f_m x mod D) >? D then 1 else 0) /\ 0 <= f_m y /\
  2 * Z.abs (f_m x - f_m y * D) <= D /\
  (sign_ok x -> (Qabs (fval x - fval y) <= two_pow (f_e x - prec - 1))%Q).
Proof.
  intros Hp Hm (k & Hk & Ek). cbv zeta. rewrite (reduce_precision_rounding_shape x prec k Hp Hk Ek).
  pose proof (pow2_pos k Hk) as PK.
  destruct (Z.ltb_spec prec k) as [L | G].
  - cbn [f_s f_e f_m f_p f_inf f_nan]. rewrite Ek. rewrite pow_div_pow by lia.
    set (j := k - prec). assert (Hj : 1 <= j) by (unfold j; lia).
    replace (k - prec - 1) with (j - 1) by (unfold j; lia).
    pose proof (pow2_pos j ltac:(lia)) as PJ. pose proof (pow2_pos prec Hp) as PP.
    pose proof (pow2_split j ltac:(lia)) as SJ. pose proof (pow2_pos (j - 1) ltac:(lia)) as PJ1.
    assert (Esplit : 2 ^ k = 2 ^ prec * 2 ^ j) by (rewrite <- Z.pow_add_r by lia; f_equal; unfold j; lia).
    pose proof (Z.div_mod (f_m x) (2 ^ j) ltac:(lia)) as DM.
    pose proof (Z.mod_pos_bound (f_m x) (2 ^ j) PJ) as MB.
    assert (Hmy : 0 <= f_m x / 2 ^ j) by (apply Z.div_pos; lia).
    assert (Etest : (2 * (f_m x mod 2 ^ j) >? 2 ^ j) = (f_m x mod 2 ^ j >? 2 ^ (j - 1))).
    { destruct (Z.gtb_spec (f_m x mod 2 ^ j) (2 ^ (j - 1))); destruct (Z.gtb_spec (2 * (f_m x mod 2 ^ j)) (2 ^ j)); lia. }
    rewrite Etest.
    set (up := if f_m x mod 2 ^ j >? 2 ^ (j - 1) then 1 else 0).
    assert (Hup : (up = 1 /\ 2 ^ (j - 1) < f_m x mod 2 ^ j) \/ (up = 0 /\ f_m x mod 2 ^ j <= 2 ^ (j - 1))).
    { unfold up. destruct (Z.gtb_spec (f_m x mod 2 ^ j) (2 ^ (j - 1))); [left | right]; lia. }
    assert (Herr : 2 * Z.abs (f_m x - (f_m x / 2 ^ j + up) * 2 ^ j) <= 2 ^ j) by (destruct Hup as [[-> H] | [-> H]]; lia).
    split; [reflexivity|]. split; [reflexivity|]. split; [reflexivity|]. split; [reflexivity|].
    split; [rewrite Z.min_r by (apply pow2_le; lia); reflexivity|].
    split; [apply pow2_pow; lia|]. split; [exact Esplit|]. split; [reflexivity|].
    split; [destruct Hup as [[-> _] | [-> _]]; lia|]. split; [exact Herr|].
    intros Sx. rewrite !fval_val4. cbn [f_s f_e f_m f_p]. rewrite Ek.
    assert (Vy : (val4 (f_s x) (f_e x) (f_m x / 2 ^ j + up) (2 ^ prec) ==
                  val4 (f_s x) (f_e x) ((f_m x / 2 ^ j + up) * 2 ^ j) (2 ^ k))%Q).
    { apply val_ratio; first [lia | rewrite Esplit; ring]. }
    rewrite Vy. rewrite val4_diff by lia. rewrite val4_abs by (exact Sx || lia).
    replace (f_e x - prec - 1) with (f_e x - (prec + 1)) by lia.
    apply val4_le_pow; try lia.
    rewrite Esplit, Z.pow_add_r by lia. change (2 ^ 1) with 2. nia.
  - rewrite Ek. rewrite Z.div_same by lia. rewrite Z.mod_1_r, Z.div_1_r.
    replace (2 * 0 >? 1) with false by reflexivity.
    split; [reflexivity|]. split; [reflexivity|]. split; [reflexivity|]. split; [reflexivity|].
    split; [rewrite Z.min_l by (apply pow2_le; lia); reflexivity|].
    split; [apply pow2_pow; lia|]. split; [lia|]. split; [lia|]. split; [exact Hm|].
    split; [lia|].
    intros Sx. setoid_replace (fval x - fval x)%Q with 0%Q by ring. cbn [Qabs Z.abs].
    apply Qlt_le_weak, two_pow_pos.
Qed.

(* ------------------------------------------------------------------ instances *)
Lemma unary_ex :
  let a := mkfp (-1) 3 13 8 false false in        (* -13 *)
  wf a /\ fin_ok a /\
  FPNum_neg a = mkfp 1 3 13 8 false false /\ FPNum_abs a = mkfp 1 3 13 8 false false /\
  FPNum_div2 a 3 = mkfp (-1) 0 104 64 false false /\        (* -13/8 *)
  FPNum_reducePrecision a 2 = mkfp (-1) 3 6 4 false false /\                (* -12 *)
  FPNum_reducePrecisionWithRounding a 1 = mkfp (-1) 3 3 2 false false /\    (* 13/8 -> 3/2 (dropped 01: down) *)
  FPNum_reducePrecisionWithRounding (mkfp (-1) 3 15 8 false false) 1 = mkfp (-1) 3 4 2 false false /\   (* dropped 11: up *)
  FPNum_reducePrecisionWithRounding (mkfp (-1) 3 5 4 false false) 1 = mkfp (-1) 3 2 2 false false /\     (* tie: down *)
  canon_special (mkfp (-1) 0 0 0 true false) /\ xval (FPNum_neg (mkfp (-1) 0 0 0 true false)) = XInf false.
Proof.
  cbv zeta. split.
  { split; [right; reflexivity|]. intros _ _. split; [cbn; lia | exists 3; split; [lia | reflexivity]]. }
  split; [split; cbn; lia|].
  vm_compute. repeat split.
Qed.
