(* C12 — cross-check of Spec.C12.ieee_value (our rational reading of a bit pattern) against Flocq's
   IEEE754.Bits.binary_float_of_bits (b32_of_bits / b64_of_bits): same class, same sign, same real value.
   This is the ONLY file that uses the real numbers; Print Assumptions on its theorems reports the axioms of
   Coq's classical reals (see docs/C12.md).  Nothing else depends on it. *)
From Coq Require Import ZArith Reals QArith Qreals Lia Lra.
From Flocq Require Import Core Binary Bits.
From V Require Import Spec.C12 Proofs.C12.QFacts.

Lemma Q2R_inject z : Q2R (inject_Z z) = IZR z.
Proof. unfold Q2R, inject_Z; simpl. field. Qed.

Lemma Q2R_two_pow k : Q2R (two_pow k) = bpow radix2 k.
Proof.
  destruct (Z_le_gt_dec 0 k) as [H | H].
  - rewrite (Qeq_eqR _ _ (two_pow_Z k H)), Q2R_inject. apply (IZR_Zpower radix2). exact H.
  - replace k with (- (- k))%Z by lia. rewrite (Qeq_eqR _ _ (two_pow_opp (- k))).
    rewrite Q2R_inv by apply two_pow_nz. rewrite bpow_opp. f_equal.
    rewrite (Qeq_eqR _ _ (two_pow_Z (- k) ltac:(lia))), Q2R_inject. apply (IZR_Zpower radix2). lia.
Qed.

Lemma Q2R_sgnq s : Q2R (sgnq s) = if s then (-1)%R else 1%R.
Proof. destruct s; unfold sgnq, Q2R; simpl; field. Qed.

Section X.
Variables mw ew : Z.
Hypothesis Hmw : (0 < mw)%Z.
Hypothesis Hew : (0 < ew)%Z.
Hypothesis Hmax : (mw + 1 < 2 ^ (ew - 1))%Z.

Let prec := (mw + 1)%Z.
Let emax := (2 ^ (ew - 1))%Z.

Definition agrees (x : xq) (neg : bool) (f : full_float) : Prop :=
  match x with
  | XNaN => is_nan_FF f = true
  | XInf s => f = F754_infinity s
  | XFin q => is_finite_FF f = true /\ FF2R radix2 f = Q2R q /\ sign_FF f = neg
  end.

Lemma aux_agrees v : (0 <= v < 2 ^ (1 + ew + mw))%Z ->
  agrees (ieee_value ew mw v) (ieee_neg ew mw v) (binary_float_of_bits_aux mw ew v).
Proof.
  intros Hv. unfold binary_float_of_bits_aux, split_bits, ieee_value, ieee_neg, fld_s, fld_e, fld_m. cbv zeta.
  assert (Pm : (0 < 2 ^ mw)%Z) by (apply Z.pow_pos_nonneg; lia).
  assert (Pe : (0 < 2 ^ ew)%Z) by (apply Z.pow_pos_nonneg; lia).
  (* the sign bit *)
  assert (Hs : ((v / 2 ^ (ew + mw)) mod 2 =? 1)%Z = (2 ^ mw * 2 ^ ew <=? v)%Z).
  { rewrite <- Z.pow_add_r by lia. replace (mw + ew)%Z with (ew + mw)%Z by lia.
    assert (P : (0 < 2 ^ (ew + mw))%Z) by (apply Z.pow_pos_nonneg; lia).
    replace (1 + ew + mw)%Z with (1 + (ew + mw))%Z in Hv by lia. rewrite Z.pow_add_r in Hv by lia. change (2 ^ 1)%Z with 2%Z in Hv.
    destruct (Z.leb_spec (2 ^ (ew + mw)) v) as [L | G].
    - replace (v / 2 ^ (ew + mw))%Z with 1%Z; [reflexivity|]. apply Z.div_unique with (v - 2 ^ (ew + mw))%Z; lia.
    - rewrite Z.div_small by lia. reflexivity. }
  rewrite Hs. set (s := (2 ^ mw * 2 ^ ew <=? v)%Z).
  set (e := ((v / 2 ^ mw) mod 2 ^ ew)%Z). set (m := (v mod 2 ^ mw)%Z).
  assert (He : (0 <= e < 2 ^ ew)%Z) by (apply Z.mod_pos_bound; lia).
  assert (Hm : (0 <= m < 2 ^ mw)%Z) by (apply Z.mod_pos_bound; lia).
  assert (Hemax : (1 < 2 ^ ew - 1)%Z).
  { assert (2 ^ 2 <= 2 ^ ew)%Z; [apply Z.pow_le_mono_r; try lia|]. 
    - destruct (Z.eq_dec ew 1) as [-> | N]; [|lia]. simpl in Hmax. lia.
    - change (2 ^ 2)%Z with 4%Z in *. lia. }
  rewrite !Zeq_is_eq_bool' || idtac.
  unfold Zeq_bool. 
  destruct (Z.eqb_spec e 0) as [E0 | N0].
  - (* zero / subnormal *)
    rewrite E0. replace (0 =? 2 ^ ew - 1)%Z with false by lia. cbn [Z.compare].
    unfold ieee_mag. cbn [Z.eqb]. unfold agrees.
    destruct m as [|pm|pm] eqn:Em; [| |lia].
    + cbn. split; [reflexivity|]. split; [|reflexivity].
      rewrite Q2R_mult, Q2R_mult. change (inject_Z 0) with 0%Q. unfold Q2R at 2. simpl. lra.
    + cbn [is_finite_FF FF2R sign_FF]. split; [reflexivity|]. split; [|reflexivity].
      rewrite !Q2R_mult, Q2R_sgnq, Q2R_inject, Q2R_two_pow. unfold F2R; cbn [Fnum Fexp]. unfold SpecFloat.emin.
      replace (1 - ieee_bias ew - mw)%Z with (3 - 2 ^ (ew - 1) - (mw + 1))%Z by (unfold ieee_bias; lia).
      destruct s; cbn [SpecFloat.cond_Zopp]; [rewrite opp_IZR|]; lra.
  - replace (match (e ?= 0)%Z with Eq => true | _ => false end) with false by (destruct (Z.compare_spec e 0%Z); try reflexivity; lia).
    destruct (Z.eqb_spec e (2 ^ ew - 1)) as [Ee | Ne].
    + (* infinity / NaN *)
      replace (match (e ?= 2 ^ ew - 1)%Z with Eq => true | _ => false end) with true by (rewrite Ee, Z.compare_refl; reflexivity).
      destruct m as [|pm|pm] eqn:Em; [| |lia]; cbn [Z.eqb agrees is_nan_FF]; reflexivity.
    + replace (match (e ?= 2 ^ ew - 1)%Z with Eq => true | _ => false end) with false by (destruct (Z.compare_spec e (2 ^ ew - 1)%Z); try reflexivity; lia).
      unfold ieee_mag. replace (e =? 0)%Z with false by lia. unfold agrees.
      destruct (m + 2 ^ mw)%Z as [|px|px] eqn:Ex; [lia| |lia].
      cbn [is_finite_FF FF2R sign_FF]. split; [reflexivity|]. split; [|reflexivity].
      rewrite !Q2R_mult, Q2R_sgnq, Q2R_inject, Q2R_two_pow. unfold F2R; cbn [Fnum Fexp]. unfold SpecFloat.emin.
      replace (2 ^ mw + m)%Z with (Z.pos px) by lia.
      replace (e - ieee_bias ew - mw)%Z with (e + (3 - 2 ^ (ew - 1) - (mw + 1)) - 1)%Z by (unfold ieee_bias; lia).
      destruct s; cbn [SpecFloat.cond_Zopp]; [rewrite opp_IZR|]; lra.
Qed.

Definition agrees_B (x : xq) (neg : bool) (f : binary_float prec emax) : Prop :=
  match x with
  | XNaN => is_nan prec emax f = true
  | XInf s => f = B754_infinity prec emax s
  | XFin q => is_finite prec emax f = true /\ B2R prec emax f = Q2R q /\ Bsign prec emax f = neg
  end.

Lemma bits_agree v : (0 <= v < 2 ^ (1 + ew + mw))%Z ->
  agrees_B (ieee_value ew mw v) (ieee_neg ew mw v) (binary_float_of_bits mw ew Hmw Hew Hmax v).
Proof.
  intros Hv. pose proof (aux_agrees v Hv) as A. unfold binary_float_of_bits.
  unfold agrees_B, agrees in *. destruct (ieee_value ew mw v) as [|s|q].
  - rewrite is_nan_FF2B. exact A.
  - generalize (binary_float_of_bits_aux_correct mw ew Hmw Hew Hmax v). rewrite A. intros H0. reflexivity.
  - rewrite is_finite_FF2B, B2R_FF2B, Bsign_FF2B. exact A.
Qed.
End X.

(* binary32 / binary64 *)
Theorem ieee_value_is_flocq_b32 v : (0 <= v < 2 ^ 32)%Z ->
  match ieee_value 8 23 v with
  | XNaN => is_nan 24 128 (b32_of_bits v) = true
  | XInf s => b32_of_bits v = B754_infinity 24 128 s
  | XFin q => is_finite 24 128 (b32_of_bits v) = true /\ B2R 24 128 (b32_of_bits v) = Q2R q /\ Bsign 24 128 (b32_of_bits v) = ieee_neg 8 23 v
  end.
Proof. intros Hv. exact (bits_agree 23 8 eq_refl eq_refl eq_refl v Hv). Qed.

Theorem ieee_value_is_flocq_b64 v : (0 <= v < 2 ^ 64)%Z ->
  match ieee_value 11 52 v with
  | XNaN => is_nan 53 1024 (b64_of_bits v) = true
  | XInf s => b64_of_bits v = B754_infinity 53 1024 s
  | XFin q => is_finite 53 1024 (b64_of_bits v) = true /\ B2R 53 1024 (b64_of_bits v) = Q2R q /\ Bsign 53 1024 (b64_of_bits v) = ieee_neg 11 52 v
  end.
Proof. intros Hv. exact (bits_agree 52 11 eq_refl eq_refl eq_refl v Hv). Qed.
