(* C12 — FloatingPointHelper.ieee754_to_sp / ieee754_to_dp (model over dyadic rationals): the float returned for a bit
   pattern is the IEEE-754 value of the pattern, sign of zero included. *)
From V Require Import Base.Bits Spec.C12 Model.HelperInt Model.FPHelper Proofs.C12.Int Proofs.C12.QFacts.
From Coq Require Import QArith Qpower Qfield.
Open Scope Z_scope.

Definition fph_std (ew mw nanm : Z) (zs : bool) : fphfmt := mkFphFmt (std_layout ew mw) (2 ^ (ew - 1) - 1) mw nanm zs.

Lemma fphs_std : (forall zs, fph_sp_with zs = fph_std 8 23 8388607 zs) /\ fph_dp = fph_std 11 52 2251799813685247 true.
Proof. split; reflexivity. Qed.

Section D.
Variables ew mw nanm : Z.
Variable zs : bool.
Hypothesis Hew : 1 <= ew.
Hypothesis Hmw : 0 <= mw.
Let H := fph_std ew mw nanm zs.

Lemma emax_eq : 2 * (2 ^ (ew - 1) - 1) + 1 = 2 ^ ew - 1.
Proof. rewrite (pow2_split ew) by lia. lia. Qed.

Lemma fld_ranges' v : 0 <= fld_s ew mw v <= 1 /\ 0 <= fld_e ew mw v < 2 ^ ew /\ 0 <= fld_m ew mw v < 2 ^ mw.
Proof.
  unfold fld_s, fld_e, fld_m. pose proof (Z.mod_pos_bound (v / 2 ^ (ew + mw)) 2 ltac:(lia)).
  pose proof (mod_pow2_range ew (v / 2 ^ mw) ltac:(lia)). pose proof (mod_pow2_range mw v Hmw). lia.
Qed.

Lemma odd_bit s : 0 <= s <= 1 -> Z.odd s = (s =? 1).
Proof. intros. assert (s = 0 \/ s = 1) as [-> | ->] by lia; reflexivity. Qed.

Lemma fph_decode_exact v : 0 <= v < 2 ^ (1 + ew + mw) ->
  let x := FPH_from_ieee754 H v in
  xeq (pf_value x) (ieee_value ew mw v) /\ (x = PNaN \/ pf_neg x = ieee_neg ew mw v).
Proof.
  intros Hv. cbv zeta. unfold FPH_from_ieee754.
  destruct (fld_ranges' v) as (Hs & He & Hm). pose proof (pow2_pos ew ltac:(lia)) as Pe. pose proof (pow2_pos mw Hmw) as Pm.
  destruct (Z.eqb_spec v 0) as [-> | Nz].
  - unfold ieee_value, ieee_neg, fld_s, fld_e, fld_m. rewrite !Z.div_0_l, !Z.mod_0_l by (try apply Z.pow_nonzero; lia).
    replace (0 =? 2 ^ ew - 1) with false by (pose proof (pow2_lt 0 ew ltac:(lia)); change (2 ^ 0) with 1 in *; lia).
    split; [|right; reflexivity]. unfold ieee_mag. cbn [Z.eqb pf_value xeq sgnq]. change (inject_Z 0) with 0%Q. ring.
  - unfold H, fph_std; cbn [H_lay H_bias H_mw]. rewrite (fph_unpack_eq ew mw v ltac:(lia) Hmw Hv). rewrite (unpack_fields ew mw v ltac:(lia) Hmw). rewrite emax_eq.
    unfold ieee_value, ieee_neg. cbv zeta.
    set (s := fld_s ew mw v) in *. set (e := fld_e ew mw v) in *. set (m := fld_m ew mw v) in *.
    destruct (Z.eqb_spec e (2 ^ ew - 1)) as [Ee | Ne].
    + destruct (m =? 0); [split; [reflexivity | right; reflexivity] | split; [exact I | left; reflexivity]].
    + unfold FPH_parts_to_float; cbn [H_bias H_mw]. unfold ieee_mag, ieee_bias.
      destruct (Z.eqb_spec e 0) as [E0 | N0].
      * destruct (Z.eqb_spec m 0) as [M0 | NM]; cbn [andb].
        { split; [|right; reflexivity]. cbn [pf_value xeq]. rewrite M0. change (inject_Z 0) with 0%Q. ring. }
        { rewrite odd_bit by lia. destruct (Z.geb_spec (1 - (2 ^ (ew - 1) - 1) - mw) 0) as [K | K].
          - split; [|right; reflexivity]. cbn [pf_value xeq]. rewrite inject_Z_mult, <- two_pow_Z by lia.
            change (two_pow (- 0)) with 1%Q. ring.
          - split; [|right; reflexivity]. cbn [pf_value xeq]. rewrite Z.opp_involutive. reflexivity. }
      * cbn [andb]. rewrite shl1 by lia. change (Z.lor (2 ^ mw) m) with (Z.lor (2 ^ mw) m).
        assert (HL : Z.lor (2 ^ mw) m = 2 ^ mw + m).
        { pose proof (lor_add_disjoint 1 m mw Hmw ltac:(lia)) as L. rewrite Z.shiftl_1_l in L. lia. }
        rewrite HL. rewrite odd_bit by lia. destruct (Z.geb_spec (e - (2 ^ (ew - 1) - 1) - mw) 0) as [K | K].
        { split; [|right; reflexivity]. cbn [pf_value xeq]. rewrite inject_Z_mult, <- two_pow_Z by lia.
          change (two_pow (- 0)) with 1%Q. ring. }
        { split; [|right; reflexivity]. cbn [pf_value xeq]. rewrite Z.opp_involutive. reflexivity. }
Qed.
End D.

Lemma fph_decode_sp v : 0 <= v < 2 ^ 32 ->
  let x := FPH_from_ieee754 fph_sp v in xeq (pf_value x) (ieee_value 8 23 v) /\ (x = PNaN \/ pf_neg x = ieee_neg 8 23 v).
Proof. intros Hv. cbv zeta. unfold fph_sp. rewrite (proj1 fphs_std true). apply fph_decode_exact; lia. Qed.

Lemma fph_decode_dp v : 0 <= v < 2 ^ 64 ->
  let x := FPH_from_ieee754 fph_dp v in xeq (pf_value x) (ieee_value 11 52 v) /\ (x = PNaN \/ pf_neg x = ieee_neg 11 52 v).
Proof. intros Hv. cbv zeta. rewrite (proj2 fphs_std). apply fph_decode_exact; lia. Qed.
