(* C12 — FPNum(float) (closed-form model of convert_float_to_semp / adjust_sem): the number denotes the float exactly. *)
From V Require Import Base.Bits Spec.C12 Model.HelperInt Model.FPNum Model.FPHelper Proofs.C12.Int Proofs.C12.QFacts Proofs.C12.FPNum.
From Coq Require Import QArith Qpower Qfield.
Open Scope Z_scope.

Lemma of_finite_exact neg n d : 0 <= n ->
  let x := FPNum_of_finite neg n d in
  wf x /\ f_inf x = false /\ f_nan x = false /\ (f_s x <? 0) = neg /\ xeq (xval x) (pf_value (PFin neg n d)).
Proof.
  intros Hn. cbv zeta. unfold FPNum_of_finite.
  set (s := if neg then -1 else 1).
  assert (Ss : s = 1 \/ s = -1) by (unfold s; destruct neg; auto).
  assert (Sn : (s <? 0) = neg) by (unfold s; destruct neg; reflexivity).
  assert (Sq : inject_Z s = sgnq neg) by (unfold s; destruct neg; reflexivity).
  destruct (Z.eqb_spec n 0) as [-> | Nz].
  - destruct (adjust_semp_spec (mkfp s 0 0 1 false false) ltac:(split; cbn; lia)) as (S1 & I1 & N1 & [O1 O2] & V & W & _ & _).
    cbn [f_s f_inf f_nan f_p] in *.
    split; [split; [unfold sign_ok; rewrite S1; exact Ss | intros _ _; split; [lia | apply W; exists 0; split; [lia | reflexivity]]]|].
    split; [exact I1 | split; [exact N1 | split; [rewrite S1; exact Sn|]]].
    rewrite (xval_fin _ I1 N1). cbn [pf_value xeq]. rewrite V. unfold fval; cbn [f_s f_e f_m f_p].
    change (inject_Z 0) with 0%Q. unfold Qdiv. ring.
  - pose proof (Z.log2_nonneg n) as Ln. rewrite shl1 by lia. pose proof (pow2_pos (Z.log2 n) Ln) as Pl.
    destruct (adjust_semp_spec (mkfp s (Z.log2 n - d) n (2 ^ Z.log2 n) false false) ltac:(split; cbn; lia)) as (S1 & I1 & N1 & [O1 O2] & V & W & _ & _).
    cbn [f_s f_inf f_nan f_p] in *.
    split; [split; [unfold sign_ok; rewrite S1; exact Ss | intros _ _; split; [lia | apply W; apply pow2_pow; lia]]|].
    split; [exact I1 | split; [exact N1 | split; [rewrite S1; exact Sn|]]].
    rewrite (xval_fin _ I1 N1). cbn [pf_value xeq]. rewrite V. unfold fval; cbn [f_s f_e f_m f_p].
    rewrite Sq. unfold Z.sub at 1. rewrite two_pow_add, (two_pow_Z (Z.log2 n)) by lia. field. apply inject_pow2_nz; lia.
Qed.

Lemma of_special : xval FPNum_of_nan = XNaN /\ (forall neg, xval (FPNum_of_inf neg) = XInf neg) /\
                   wf FPNum_of_nan /\ (forall neg, wf (FPNum_of_inf neg)).
Proof.
  split; [reflexivity|]. split; [intros []; reflexivity|]. split.
  - split; [left; reflexivity | cbn; intros _ H; discriminate H].
  - intros neg. split; [destruct neg; [right | left]; reflexivity | cbn; intros H; discriminate H].
Qed.
