(* C12 — FPNum: the loops of adjust_semp / increase_precision preserve the denoted rational, terminate within the
   model's fuel with the loop condition false, and add / sub / mul / compare are exact on the rationals. *)
From V Require Import Base.Bits Spec.C12 Model.HelperInt Model.FPNum Proofs.C12.Int Proofs.C12.QFacts.
From Coq Require Import QArith Qpower Qfield.
Open Scope Z_scope.

Ltac inj E := injection E as ? ?; subst.

Definition pow2 (p : Z) : Prop := exists k, 0 <= k /\ p = 2 ^ k.

Lemma pow2_gt0 p : pow2 p -> 0 < p.
Proof. intros (k & Hk & ->). apply pow2_pos; lia. Qed.

Lemma pow2_double p : pow2 p -> pow2 (2 * p).
Proof. intros (k & Hk & ->). exists (k + 1). split; [lia|]. rewrite Z.pow_add_r by lia. change (2 ^ 1) with 2. ring. Qed.

Lemma pow2_mul p q : pow2 p -> pow2 q -> pow2 (p * q).
Proof. intros (a & Ha & ->) (b & Hb & ->). exists (a + b). split; [lia|]. rewrite Z.pow_add_r by lia. reflexivity. Qed.

Lemma pow2_pow k : 0 <= k -> pow2 (2 ^ k).
Proof. intros; exists k; split; [lia | reflexivity]. Qed.

Lemma shr_1 m : py_shr m 1 = m / 2.
Proof. unfold py_shr. rewrite shiftr_div by lia. reflexivity. Qed.

Lemma shl_1 m : py_shl m 1 = m * 2.
Proof. unfold py_shl. rewrite shiftl_mul by lia. change (2 ^ 1) with 2. ring. Qed.

Lemma shl_n m n : 0 <= n -> py_shl m n = m * 2 ^ n.
Proof. intros; unfold py_shl; apply shiftl_mul; lia. Qed.

Lemma even_test m : (Z.land m 1 =? 0) = true -> m = 2 * (m / 2).
Proof. rewrite land1. intros H. apply Z.eqb_eq in H. pose proof (Z.div_mod m 2 ltac:(lia)). lia. Qed.

(* ------------------------------------------------------------------ the loops *)
Lemma strip_inv fuel : forall m p m' p', strip fuel m p = (m', p') -> 0 < p -> 0 <= m ->
  0 < p' /\ 0 <= m' /\ m * p' = m' * p /\ (pow2 p -> pow2 p') /\ (0 < m -> 0 < m') /\ (m = 0 -> m' = 0).
Proof.
  induction fuel as [|f IH]; intros m p m' p' E Hp Hm; cbn [strip] in E.
  - inj E. repeat split; auto.
  - destruct ((Z.land m 1 =? 0) && (Z.land p 1 =? 0)) eqn:C.
    + apply andb_prop in C as [Cm Cp]. apply even_test in Cm, Cp. rewrite !shr_1 in E.
      assert (Hp2 : 0 < p / 2) by lia. assert (Hm2 : 0 <= m / 2) by lia.
      destruct (IH _ _ _ _ E Hp2 Hm2) as (A1 & A2 & A3 & A4 & A5 & A6).
      repeat split; auto; try nia; try (intros; first [apply A5 | apply A6]; lia).
      intros (k & Hk & Ek). apply A4. destruct (Z.eq_dec k 0) as [-> | Hk0]; [change (2 ^ 0) with 1 in Ek; lia|].
      exists (k - 1). split; [lia|]. rewrite (pow2_split k) in Ek by lia. lia.
    + inj E. repeat split; auto.
Qed.

Lemma strip_done fuel : forall m p m' p', strip fuel m p = (m', p') -> 0 < p -> p < 2 ^ Z.of_nat fuel ->
  (Z.land m' 1 =? 0) && (Z.land p' 1 =? 0) = false.
Proof.
  induction fuel as [|f IH]; intros m p m' p' E Hp Hf; cbn [strip] in E.
  - change (2 ^ Z.of_nat 0) with 1 in Hf. lia.
  - destruct ((Z.land m 1 =? 0) && (Z.land p 1 =? 0)) eqn:C.
    + apply andb_prop in C as [Cm Cp]. apply even_test in Cp. rewrite !shr_1 in E.
      apply (IH _ _ _ _ E); [lia|]. rewrite Nat2Z.inj_succ, Z.pow_succ_r in Hf by lia. lia.
    + inj E. exact C.
Qed.

Lemma fuel_of_enough x : 0 < x -> x < 2 ^ Z.of_nat (fuel_of x) /\ 2 * x < 2 ^ Z.of_nat (fuel_of x).
Proof.
  intros Hx. unfold fuel_of. rewrite !Nat2Z.inj_succ, Z2Nat.id by (apply Z.log2_nonneg).
  pose proof (Z.log2_spec x Hx) as [_ H]. rewrite !Z.pow_succ_r by (pose proof (Z.log2_nonneg x); lia).
  rewrite Z.pow_succ_r in H by apply Z.log2_nonneg. lia.
Qed.

Lemma grow_p_inv fuel : forall m p e p' e', grow_p fuel m p e = (p', e') ->
  exists j, 0 <= j /\ p' = p * 2 ^ j /\ e' = e + j.
Proof.
  induction fuel as [|f IH]; intros m p e p' e' E; cbn [grow_p] in E.
  - inj E. exists 0. rewrite Z.pow_0_r. lia.
  - destruct (m >=? py_shl p 1) eqn:C.
    + destruct (IH _ _ _ _ _ E) as (j & Hj & -> & ->). exists (j + 1). rewrite shl_1.
      rewrite Z.pow_add_r by lia. change (2 ^ 1) with 2. lia.
    + inj E. exists 0. rewrite Z.pow_0_r. lia.
Qed.

Lemma grow_p_done fuel : forall m p e p' e', grow_p fuel m p e = (p', e') -> 0 < p -> p <= m ->
  m < 2 * p * 2 ^ Z.of_nat fuel -> p' <= m < 2 * p'.
Proof.
  induction fuel as [|f IH]; intros m p e p' e' E Hp Hpm Hf; cbn [grow_p] in E.
  - inj E. change (2 ^ Z.of_nat 0) with 1 in Hf. lia.
  - rewrite shl_1 in E. destruct (m >=? p * 2) eqn:C.
    + rewrite Nat2Z.inj_succ, Z.pow_succ_r in Hf by lia. apply Z.geb_le in C. apply (IH _ _ _ _ _ E); lia.
    + inj E. rewrite Z.geb_leb in C. apply Z.leb_gt in C. lia.
Qed.

Lemma grow_m_inv fuel : forall m p e m' e', grow_m fuel m p e = (m', e') ->
  exists j, 0 <= j /\ m' = m * 2 ^ j /\ e' = e - j.
Proof.
  induction fuel as [|f IH]; intros m p e m' e' E; cbn [grow_m] in E.
  - inj E. exists 0. rewrite Z.pow_0_r. lia.
  - destruct (m <? p) eqn:C.
    + cbv zeta in E. rewrite shl_1 in E. destruct (m * 2 =? 0) eqn:Z0.
      * inj E. exists 1. change (2 ^ 1) with 2. lia.
      * destruct (IH _ _ _ _ _ E) as (j & Hj & -> & ->). exists (j + 1).
        rewrite Z.pow_add_r by lia. change (2 ^ 1) with 2. lia.
    + inj E. exists 0. rewrite Z.pow_0_r. lia.
Qed.

Lemma grow_m_done fuel : forall m p e m' e', grow_m fuel m p e = (m', e') -> 0 < m -> m < 2 * p ->
  p <= m * 2 ^ Z.of_nat fuel -> p <= m' < 2 * p.
Proof.
  induction fuel as [|f IH]; intros m p e m' e' E Hm Hmp Hf; cbn [grow_m] in E.
  - inj E. change (2 ^ Z.of_nat 0) with 1 in Hf. lia.
  - destruct (m <? p) eqn:C.
    + cbv zeta in E. rewrite shl_1 in E. replace (m * 2 =? 0) with false in E by lia.
      rewrite Nat2Z.inj_succ, Z.pow_succ_r in Hf by lia. apply Z.ltb_lt in C. apply (IH _ _ _ _ _ E); lia.
    + inj E. apply Z.ltb_ge in C. lia.
Qed.

(* ------------------------------------------------------------------ the denoted value *)
Definition val4 (s e m p : Z) : Q := (inject_Z s * (inject_Z m / inject_Z p) * two_pow e)%Q.

Lemma fval_val4 x : fval x = val4 (f_s x) (f_e x) (f_m x) (f_p x).
Proof. reflexivity. Qed.

Lemma val_ratio s e m p m' p' : p <> 0 -> p' <> 0 -> m * p' = m' * p -> (val4 s e m p == val4 s e m' p')%Q.
Proof. intros. unfold val4. rewrite (ratio_eq m p m' p') by assumption. reflexivity. Qed.

Lemma val_scale_p s e m p j : 0 < p -> 0 <= j -> (val4 s (e + j) m (p * 2 ^ j) == val4 s e m p)%Q.
Proof.
  intros Hp Hj. unfold val4. rewrite two_pow_add, (two_pow_Z j), inject_Z_mult by lia.
  field. repeat split; first [apply inject_pow2_nz; lia | apply inject_Z_nz; lia].
Qed.

Lemma val_scale_m s e m p j : 0 < p -> 0 <= j -> (val4 s (e - j) (m * 2 ^ j) p == val4 s e m p)%Q.
Proof.
  intros Hp Hj. unfold val4. rewrite two_pow_sub, (two_pow_Z j), inject_Z_mult by lia.
  field. repeat split; first [apply inject_pow2_nz; lia | apply inject_Z_nz; lia].
Qed.

Lemma val_zero s e p : (val4 s e 0 p == 0)%Q.
Proof. unfold val4. unfold Qdiv. change (inject_Z 0) with 0%Q. ring. Qed.

(* ------------------------------------------------------------------ adjust_semp *)
Definition fin_ok (x : fpnum) : Prop := 0 <= f_m x /\ 0 < f_p x.

Lemma adjust_semp_spec x : fin_ok x ->
  let y := adjust_semp x in
  f_s y = f_s x /\ f_inf y = f_inf x /\ f_nan y = f_nan x /\ fin_ok y /\ (fval y == fval x)%Q /\
  (pow2 (f_p x) -> pow2 (f_p y)) /\ (0 < f_m x -> f_p y <= f_m y < 2 * f_p y) /\ (f_m x = 0 -> f_m y = 0).
Proof.
  intros [Hm Hp]. unfold adjust_semp. replace (f_p x =? 0) with false by lia.
  destruct (strip (fuel_of (f_p x)) (f_m x) (f_p x)) as [m1 p1] eqn:ES.
  destruct (strip_inv _ _ _ _ _ ES Hp Hm) as (P1 & M1 & R1 & W1 & Pos1 & Z1).
  assert (V1 : (val4 (f_s x) (f_e x) m1 p1 == fval x)%Q).
  { rewrite fval_val4. apply val_ratio; lia. }
  rewrite shl_1. destruct (m1 >=? p1 * 2) eqn:C1.
  - destruct (grow_p (fuel_of m1) m1 p1 (f_e x)) as [p3 e3] eqn:EG. cbv zeta.
    destruct (grow_p_inv _ _ _ _ _ _ EG) as (j & Hj & -> & ->).
    rewrite Z.geb_leb in C1. apply Z.leb_le in C1.
    assert (Hd : p1 * 2 ^ j <= m1 < 2 * (p1 * 2 ^ j)).
    { apply (grow_p_done _ _ _ _ _ _ EG); try lia. pose proof (fuel_of_enough m1 ltac:(lia)). nia. }
    cbn [f_s f_e f_m f_p f_inf f_nan]. unfold fin_ok; cbn [f_m f_p].
    pose proof (pow2_pos j Hj).
    split; [|split; [|split; [|split; [|split; [|split; [|split]]]]]]; auto.
    all: first [ nia
               | rewrite fval_val4; cbn [f_s f_e f_m f_p]; rewrite val_scale_p by lia; exact V1
               | intros W; apply pow2_mul; [auto | apply pow2_pow; lia]
               | intros; specialize (Z1 ltac:(assumption)); lia ].
  - destruct (m1 <? p1) eqn:C2.
    + destruct (grow_m (fuel_of p1) m1 p1 (f_e x)) as [m3 e3] eqn:EG. cbv zeta.
      destruct (grow_m_inv _ _ _ _ _ _ EG) as (j & Hj & -> & ->).
      apply Z.ltb_lt in C2.
      cbn [f_s f_e f_m f_p f_inf f_nan]. unfold fin_ok; cbn [f_m f_p].
      pose proof (pow2_pos j Hj).
      split; [|split; [|split; [|split; [|split; [|split; [|split]]]]]]; auto.
      all: first [ nia
                 | rewrite fval_val4; cbn [f_s f_e f_m f_p]; rewrite val_scale_m by lia; exact V1
                 | intros Hpos; specialize (Pos1 Hpos);
                   apply (grow_m_done _ _ _ _ _ _ EG); try lia; pose proof (fuel_of_enough p1 ltac:(lia)); nia
                 | intros; specialize (Z1 ltac:(assumption)); subst m1; lia ].
    + rewrite Z.geb_leb in C1. apply Z.leb_gt in C1. apply Z.ltb_ge in C2.
      cbn [f_s f_e f_m f_p f_inf f_nan]. unfold fin_ok; cbn [f_m f_p].
      split; [|split; [|split; [|split; [|split; [|split; [|split]]]]]]; auto; lia.
Qed.

(* ------------------------------------------------------------------ the constructor FPNum(s, e, m, p) on a finite number *)
Lemma FPNum4_spec s e m p : 0 <= m -> 0 < p ->
  let y := FPNum4 s e m p in
  f_s y = s /\ f_inf y = false /\ f_nan y = false /\ fin_ok y /\ (fval y == val4 s e m p)%Q /\
  (pow2 p -> pow2 (f_p y)) /\ (0 < m -> f_p y <= f_m y < 2 * f_p y) /\ (m = 0 -> f_m y = 0).
Proof.
  intros Hm Hp. unfold FPNum4, set_semp. replace (p =? 0) with false by lia. cbn [andb].
  exact (adjust_semp_spec (mkfp s e m p false false) (conj Hm Hp)).
Qed.

Lemma FPNum4_special s e m : FPNum4 s e m 0 = mkfp s e m 0 (m =? 0) (negb (m =? 0)).
Proof. reflexivity. Qed.

(* ------------------------------------------------------------------ alignment *)
Lemma increase_exponent_spec x ne : fin_ok x ->
  let y := increase_exponent x ne in
  f_s y = f_s x /\ f_inf y = f_inf x /\ f_nan y = f_nan x /\ f_m y = f_m x /\ f_e y = Z.max (f_e x) ne /\
  fin_ok y /\ (fval y == fval x)%Q /\ (pow2 (f_p x) -> pow2 (f_p y)).
Proof.
  intros [Hm Hp]. unfold increase_exponent. destruct (Z.ltb_spec (f_e x) ne) as [L | G].
  - cbn [f_s f_e f_m f_p f_inf f_nan]. rewrite shl_n by lia. unfold fin_ok; cbn [f_m f_p].
    pose proof (pow2_pos (ne - f_e x) ltac:(lia)).
    split; [|split; [|split; [|split; [|split; [|split; [|split]]]]]]; auto; try lia; try nia.
    + rewrite !fval_val4; cbn [f_s f_e f_m f_p].
      replace ne with (f_e x + (ne - f_e x)) at 1 by lia. apply val_scale_p; lia.
    + intros W. apply pow2_mul; [auto | apply pow2_pow; lia].
  - unfold fin_ok. split; [|split; [|split; [|split; [|split; [|split; [|split]]]]]]; auto; try lia. reflexivity.
Qed.

Lemma pow_lt_iff a b : 0 <= a -> 0 <= b -> (2 ^ a <? 2 ^ b) = (a <? b).
Proof.
  intros. destruct (Z.ltb_spec a b) as [L | G].
  - apply Z.ltb_lt. apply Z.pow_lt_mono_r; lia.
  - apply Z.ltb_ge. apply Z.pow_le_mono_r; lia.
Qed.

Lemma inc_prec_pow2 fuel : forall a b m, 0 <= a -> 0 <= b -> b - a <= Z.of_nat fuel ->
  inc_prec fuel m (2 ^ a) (2 ^ b) = (m * 2 ^ Z.max 0 (b - a), 2 ^ Z.max a b).
Proof.
  induction fuel as [|f IH]; intros a b m Ha Hb Hf; cbn [inc_prec].
  - rewrite Z.max_l, Z.max_l by lia. rewrite Z.pow_0_r, Z.mul_1_r. reflexivity.
  - rewrite pow_lt_iff by lia. destruct (Z.ltb_spec a b) as [L | G].
    + rewrite !shl_1. replace (2 ^ a * 2) with (2 ^ (a + 1)) by (rewrite Z.pow_add_r by lia; reflexivity).
      rewrite IH by lia. rewrite !Z.max_r by lia. f_equal.
      replace (b - a) with (1 + (b - (a + 1))) by lia. rewrite Z.pow_add_r by lia. change (2 ^ 1) with 2. ring.
    + rewrite Z.max_l, Z.max_l by lia. rewrite Z.pow_0_r, Z.mul_1_r. reflexivity.
Qed.

Lemma increase_precision_spec x np : fin_ok x -> pow2 (f_p x) -> pow2 np ->
  let y := increase_precision x np in
  f_s y = f_s x /\ f_inf y = f_inf x /\ f_nan y = f_nan x /\ f_e y = f_e x /\ f_p y = Z.max (f_p x) np /\
  fin_ok y /\ (fval y == fval x)%Q /\ (0 < f_m x -> 0 < f_m y) /\ (f_m x = 0 -> f_m y = 0).
Proof.
  intros [Hm Hp] (a & Ha & Ea) (b & Hb & ->). unfold increase_precision. rewrite Ea.
  rewrite inc_prec_pow2; try lia.
  2:{ unfold fuel_of. rewrite Z.log2_pow2 by lia. lia. }
  cbn [f_s f_e f_m f_p f_inf f_nan]. unfold fin_ok; cbn [f_m f_p].
  pose proof (pow2_pos (Z.max 0 (b - a)) ltac:(lia)). pose proof (pow2_pos (Z.max a b) ltac:(lia)).
  split; [|split; [|split; [|split; [|split; [|split; [|split; [|split]]]]]]]; auto; try nia.
  all: first
    [ destruct (Z.le_ge_cases a b); [rewrite !Z.max_r | rewrite !Z.max_l]; try lia; apply Z.pow_le_mono_r; lia
    | rewrite !fval_val4; cbn [f_s f_e f_m f_p]; rewrite Ea; apply val_ratio; try lia;
      destruct (Z.le_ge_cases a b);
      [ rewrite !Z.max_r by lia; rewrite <- Z.mul_assoc, <- Z.pow_add_r by lia; f_equal; f_equal; lia
      | rewrite !Z.max_l by lia; rewrite Z.pow_0_r; ring ]
    | intros ->; reflexivity ].
Qed.

Record aligned (a b a' b' : fpnum) : Prop := {
  al_e : f_e a' = f_e b';
  al_p : f_p a' = f_p b';
  al_sa : f_s a' = f_s a;
  al_sb : f_s b' = f_s b;
  al_oka : fin_ok a';
  al_okb : fin_ok b';
  al_va : (fval a' == fval a)%Q;
  al_vb : (fval b' == fval b)%Q;
  al_pw : pow2 (f_p a');
  al_ma : 0 < f_m a -> 0 < f_m a';
  al_mb : 0 < f_m b -> 0 < f_m b';
  al_za : f_m a = 0 -> f_m a' = 0;
  al_zb : f_m b = 0 -> f_m b' = 0 }.

Lemma align_spec a b : fin_ok a -> fin_ok b -> pow2 (f_p a) -> pow2 (f_p b) ->
  forall a' b', align a b = (a', b') -> aligned a b a' b'.
Proof.
  intros Oa Ob Wa Wb a' b' E. unfold align in E.
  (* exponent step *)
  set (ab1 := if f_e a >? f_e b then (a, increase_exponent b (f_e a))
              else if f_e a <? f_e b then (increase_exponent a (f_e b), b) else (a, b)) in E.
  assert (H1 : f_e (fst ab1) = f_e (snd ab1) /\ f_s (fst ab1) = f_s a /\ f_s (snd ab1) = f_s b /\
               fin_ok (fst ab1) /\ fin_ok (snd ab1) /\ (fval (fst ab1) == fval a)%Q /\ (fval (snd ab1) == fval b)%Q /\
               pow2 (f_p (fst ab1)) /\ pow2 (f_p (snd ab1)) /\ f_m (fst ab1) = f_m a /\ f_m (snd ab1) = f_m b).
  { unfold ab1. destruct (Z.gtb_spec (f_e a) (f_e b)) as [G | L1].
    - destruct (increase_exponent_spec b (f_e a) Ob) as (S1 & _ & _ & M1 & E1 & O1 & V1 & W1). cbn [fst snd].
      rewrite E1, Z.max_r by lia. repeat split; auto; try reflexivity; try apply Oa; try apply O1.
    - destruct (Z.ltb_spec (f_e a) (f_e b)) as [L | G2].
      + destruct (increase_exponent_spec a (f_e b) Oa) as (S1 & _ & _ & M1 & E1 & O1 & V1 & W1). cbn [fst snd].
        rewrite E1, Z.max_r by lia. repeat split; auto; try reflexivity; try apply Ob; try apply O1.
      + cbn [fst snd]. repeat split; auto; try reflexivity; try lia; try apply Oa; try apply Ob. }
  clearbody ab1. destruct ab1 as [a1 b1]. cbn [fst snd] in H1. destruct H1 as (E1 & Sa & Sb & Oa1 & Ob1 & Va & Vb & Wa1 & Wb1 & Ma & Mb).
  destruct (Z.gtb_spec (f_p a1) (f_p b1)) as [G | L1].
  - injection E as Ea' Eb'; subst a' b'.
    destruct (increase_precision_spec b1 (f_p a1) Ob1 Wb1 Wa1) as (S2 & _ & _ & E2 & P2 & O2 & V2 & Mp & Mz).
    constructor; auto; try lia; try congruence.
    all: first [ rewrite V2; assumption | intros; apply Mp; lia | intros; apply Mz; lia ].
  - destruct (Z.ltb_spec (f_p a1) (f_p b1)) as [L | G2].
    + injection E as Ea' Eb'; subst a' b'.
      destruct (increase_precision_spec a1 (f_p b1) Oa1 Wa1 Wb1) as (S2 & _ & _ & E2 & P2 & O2 & V2 & Mp & Mz).
      constructor; auto; try lia; try congruence.
      all: first [ rewrite V2; assumption | intros; apply Mp; lia | intros; apply Mz; lia
                 | rewrite P2, Z.max_r by lia; assumption ].
    + injection E as Ea' Eb'; subst a' b'. constructor; auto; try lia.
Qed.

(* ------------------------------------------------------------------ well-formed numbers *)
Definition sign_ok (x : fpnum) : Prop := f_s x = 1 \/ f_s x = -1.
(* guard of every arithmetic theorem: sign in {1,-1}; for a finite number m >= 0 and p a power of two.
   Every FPNum built from a float, from a bit pattern, or by add/sub/mul of such numbers satisfies it (closure is proved). *)
Definition wf (x : fpnum) : Prop :=
  sign_ok x /\ (f_inf x = false -> f_nan x = false -> 0 <= f_m x /\ pow2 (f_p x)).

Lemma val4_add s e m1 m2 p : p <> 0 -> (val4 s e (m1 + m2) p == val4 s e m1 p + val4 s e m2 p)%Q.
Proof. intros Hp. unfold val4. rewrite inject_Z_plus. field. apply inject_Z_nz; lia. Qed.

Lemma val4_sub s e m1 m2 p : p <> 0 -> (val4 s e (m1 - m2) p == val4 s e m1 p + val4 (- s) e m2 p)%Q.
Proof. intros Hp. unfold val4. unfold Z.sub. rewrite inject_Z_plus, !inject_Z_opp. field. apply inject_Z_nz; lia. Qed.

Lemma xval_fin x : f_inf x = false -> f_nan x = false -> xval x = XFin (fval x).
Proof. unfold xval. intros -> ->. reflexivity. Qed.

Lemma wf_fin_ok x : wf x -> f_inf x = false -> f_nan x = false -> fin_ok x /\ pow2 (f_p x).
Proof. intros [_ H] Hi Hn. destruct (H Hi Hn) as [Hm Hp]. split; [split; [lia | apply pow2_gt0; auto] | auto]. Qed.

(* result of FPNum(s, e, m, p) with a wf finite argument is wf and finite *)
Lemma FPNum4_wf s e m p : (s = 1 \/ s = -1) -> 0 <= m -> pow2 p ->
  let y := FPNum4 s e m p in wf y /\ f_inf y = false /\ f_nan y = false /\ (fval y == val4 s e m p)%Q.
Proof.
  intros Hs Hm Hp. pose proof (pow2_gt0 p Hp) as Hp0.
  destruct (FPNum4_spec s e m p Hm Hp0) as (S1 & I1 & N1 & [O1 O2] & V1 & W1 & _).
  cbv zeta. split; [|auto]. split; [unfold sign_ok; rewrite S1; exact Hs|]. intros _ _. split; [lia | auto].
Qed.

Lemma nan_like_spec x : sign_ok x -> xval (nan_like x) = XNaN /\ wf (nan_like x).
Proof.
  intros Hs. unfold nan_like. rewrite FPNum4_special. split; [reflexivity|].
  split; [exact Hs|]. cbn. intros _ H; discriminate H.
Qed.

(* the finite core of add *)
Lemma add_finite a0 b0 : wf a0 -> wf b0 -> f_inf a0 = false -> f_nan a0 = false -> f_inf b0 = false -> f_nan b0 = false ->
  let r := FPNum_add a0 b0 in
  wf r /\ f_inf r = false /\ f_nan r = false /\ (fval r == fval a0 + fval b0)%Q.
Proof.
  intros Wa Wb Ia Na Ib Nb. cbv zeta. unfold FPNum_add. rewrite Ia, Na, Ib, Nb. cbn [orb andb].
  destruct (wf_fin_ok a0 Wa Ia Na) as [[Ma Pa] PWa]. destruct (wf_fin_ok b0 Wb Ib Nb) as [[Mb Pb] PWb].
  destruct Wa as [Sa _], Wb as [Sb _].
  destruct (FPNum4_spec (f_s a0) (f_e a0) (f_m a0) (f_p a0) Ma Pa) as (S1 & _ & _ & O1 & V1 & W1 & _).
  destruct (FPNum4_spec (f_s b0) (f_e b0) (f_m b0) (f_p b0) Mb Pb) as (S2 & _ & _ & O2 & V2 & W2 & _).
  set (a1 := FPNum4 (f_s a0) (f_e a0) (f_m a0) (f_p a0)) in *.
  set (b1 := FPNum4 (f_s b0) (f_e b0) (f_m b0) (f_p b0)) in *.
  destruct (align a1 b1) as [a b] eqn:EA.
  pose proof (align_spec a1 b1 O1 O2 (W1 PWa) (W2 PWb) a b EA) as AL. destruct AL.
  rewrite <- fval_val4 in V1, V2.
  assert (Hsum : (fval a0 + fval b0 == fval a + fval b)%Q) by (rewrite al_va0, al_vb0, V1, V2; reflexivity).
  destruct al_oka0 as [Mxa Pxa]. destruct al_okb0 as [Mxb Pxb].
  assert (Sa' : f_s a = f_s a0) by congruence. assert (Sb' : f_s b = f_s b0) by congruence.
  rewrite Hsum. rewrite (fval_val4 a), (fval_val4 b). rewrite <- al_e0, <- al_p0.
  unfold sign_ok in Sa, Sb. rewrite <- Sa' in Sa. rewrite <- Sb' in Sb.
  destruct Sa as [Sa | Sa], Sb as [Sb | Sb]; rewrite Sa, Sb; cbn [Z.eqb Pos.eqb andb orb].
  - destruct (FPNum4_wf 1 (f_e a) (f_m a + f_m b) (f_p a) ltac:(auto) ltac:(lia) al_pw0) as (Wr & Ir & Nr & Vr).
    (split; [exact Wr | split; [exact Ir | split; [exact Nr|]]]). rewrite Vr. apply val4_add; lia.
  - destruct (f_m a >? f_m b) eqn:C.
    + destruct (FPNum4_wf 1 (f_e a) (f_m a - f_m b) (f_p a) ltac:(auto) ltac:(lia) al_pw0) as (Wr & Ir & Nr & Vr).
      (split; [exact Wr | split; [exact Ir | split; [exact Nr|]]]). rewrite Vr. apply (val4_sub 1); lia.
    + destruct (FPNum4_wf (-1) (f_e a) (f_m b - f_m a) (f_p a) ltac:(auto) ltac:(lia) al_pw0) as (Wr & Ir & Nr & Vr).
      (split; [exact Wr | split; [exact Ir | split; [exact Nr|]]]). rewrite Vr. rewrite (val4_sub (-1)) by lia. apply Qplus_comm.
  - destruct (f_m a >? f_m b) eqn:C.
    + destruct (FPNum4_wf (-1) (f_e a) (f_m a - f_m b) (f_p a) ltac:(auto) ltac:(lia) al_pw0) as (Wr & Ir & Nr & Vr).
      (split; [exact Wr | split; [exact Ir | split; [exact Nr|]]]). rewrite Vr. apply (val4_sub (-1)); lia.
    + destruct (FPNum4_wf 1 (f_e a) (f_m b - f_m a) (f_p a) ltac:(auto) ltac:(lia) al_pw0) as (Wr & Ir & Nr & Vr).
      (split; [exact Wr | split; [exact Ir | split; [exact Nr|]]]). rewrite Vr. rewrite (val4_sub 1) by lia. apply Qplus_comm.
  - destruct (FPNum4_wf (-1) (f_e a) (f_m a + f_m b) (f_p a) ltac:(auto) ltac:(lia) al_pw0) as (Wr & Ir & Nr & Vr).
    (split; [exact Wr | split; [exact Ir | split; [exact Nr|]]]). rewrite Vr. apply val4_add; lia.
Qed.

Lemma xval_nan x : f_nan x = true -> xval x = XNaN.
Proof. unfold xval. intros ->. reflexivity. Qed.
Lemma xval_inf x : f_nan x = false -> f_inf x = true -> xval x = XInf (f_s x <? 0).
Proof. unfold xval. intros -> ->. reflexivity. Qed.
Lemma xadd_nan_r x : xadd x XNaN = XNaN.
Proof. destruct x; reflexivity. Qed.

Lemma add_exact a b : wf a -> wf b ->
  xeq (xval (FPNum_add a b)) (xadd (xval a) (xval b)) /\ wf (FPNum_add a b).
Proof.
  intros Wa Wb. pose proof Wa as [Sa _]. pose proof Wb as [Sb _].
  destruct (f_nan a) eqn:Na.
  { unfold FPNum_add. rewrite Na. cbn [orb]. destruct (nan_like_spec a Sa) as [-> W]. rewrite (xval_nan a Na). split; [exact I | exact W]. }
  destruct (f_nan b) eqn:Nb.
  { unfold FPNum_add. rewrite Na, Nb. cbn [orb]. destruct (nan_like_spec a Sa) as [-> W]. rewrite (xval_nan b Nb), xadd_nan_r. split; [exact I | exact W]. }
  destruct (f_inf a) eqn:Ia; destruct (f_inf b) eqn:Ib.
  - unfold FPNum_add. rewrite Na, Nb, Ia, Ib. cbn [orb andb]. rewrite (xval_inf a Na Ia), (xval_inf b Nb Ib).
    unfold sign_ok in Sa, Sb. destruct Sa as [Ea | Ea], Sb as [Eb | Eb]; rewrite Ea, Eb; cbn [Z.mul Z.eqb Pos.mul Pos.eqb Z.ltb Z.compare xadd Bool.eqb].
    + rewrite (xval_inf a Na Ia), Ea. split; [reflexivity | exact Wa].
    + destruct (nan_like_spec a (or_introl Ea)) as [E W]. rewrite E. split; [exact I | exact W].
    + destruct (nan_like_spec a (or_intror Ea)) as [E W]. rewrite E. split; [exact I | exact W].
    + rewrite (xval_inf a Na Ia), Ea. split; [reflexivity | exact Wa].
  - unfold FPNum_add. rewrite Na, Nb, Ia, Ib. cbn [orb andb]. rewrite (xval_inf a Na Ia), (xval_fin b Ib Nb). split; [reflexivity | exact Wa].
  - unfold FPNum_add. rewrite Na, Nb, Ia, Ib. cbn [orb andb]. rewrite (xval_inf b Nb Ib), (xval_fin a Ia Na). split; [reflexivity | exact Wb].
  - destruct (add_finite a b Wa Wb Ia Na Ib Nb) as (W & I1 & N1 & V).
    rewrite (xval_fin _ I1 N1), (xval_fin a Ia Na), (xval_fin b Ib Nb). split; [exact V | exact W].
Qed.

(* ------------------------------------------------------------------ sub *)
Lemma val4_opp s e m p : (val4 (- s) e m p == - val4 s e m p)%Q.
Proof. unfold val4. rewrite inject_Z_opp. unfold Qdiv. ring. Qed.

Lemma mul_m1 s : s * -1 = - s.
Proof. lia. Qed.

Lemma sub_exact a b : wf a -> wf b ->
  xeq (xval (FPNum_sub a b)) (xsub (xval a) (xval b)) /\ wf (FPNum_sub a b).
Proof.
  intros Wa Wb. pose proof Wa as [Sa _]. pose proof Wb as [Sb _]. unfold xsub.
  destruct (f_nan a) eqn:Na.
  { unfold FPNum_sub. rewrite Na. cbn [orb]. destruct (nan_like_spec a Sa) as [-> W]. rewrite (xval_nan a Na). split; [exact I | exact W]. }
  destruct (f_nan b) eqn:Nb.
  { unfold FPNum_sub. rewrite Na, Nb. cbn [orb]. destruct (nan_like_spec a Sa) as [-> W]. rewrite (xval_nan b Nb). cbn [xneg]. rewrite xadd_nan_r. split; [exact I | exact W]. }
  destruct (f_inf a) eqn:Ia; destruct (f_inf b) eqn:Ib.
  - unfold FPNum_sub. rewrite Na, Nb, Ia, Ib. cbn [orb andb]. rewrite (xval_inf a Na Ia), (xval_inf b Nb Ib).
    unfold sign_ok in Sa, Sb. destruct Sa as [Ea | Ea], Sb as [Eb | Eb]; rewrite Ea, Eb; cbn [Z.mul Z.eqb Pos.mul Pos.eqb Z.ltb Z.compare xadd xneg negb Bool.eqb].
    + destruct (nan_like_spec a (or_introl Ea)) as [E W]. rewrite E. split; [exact I | exact W].
    + rewrite (xval_inf a Na Ia), Ea. split; [reflexivity | exact Wa].
    + rewrite (xval_inf a Na Ia), Ea. split; [reflexivity | exact Wa].
    + destruct (nan_like_spec a (or_intror Ea)) as [E W]. rewrite E. split; [exact I | exact W].
  - unfold FPNum_sub. rewrite Na, Nb, Ia, Ib. cbn [orb andb]. rewrite (xval_inf a Na Ia), (xval_fin b Ib Nb). split; [reflexivity | exact Wa].
  - unfold FPNum_sub. rewrite Na, Nb, Ia, Ib. cbn [orb andb]. rewrite (xval_inf b Nb Ib), (xval_fin a Ia Na).
    rewrite FPNum4_special. cbn [Z.eqb negb xneg xadd]. unfold xval; cbn [f_nan f_inf f_s].
    unfold sign_ok in Sb. destruct Sb as [Eb | Eb]; rewrite Eb; cbn [Z.mul Pos.mul Z.ltb Z.compare negb].
    + split; [reflexivity|]. split; [right; reflexivity | cbn; intros H; discriminate H].
    + split; [reflexivity|]. split; [left; reflexivity | cbn; intros H; discriminate H].
  - unfold FPNum_sub. rewrite Na, Nb, Ia, Ib. cbn [orb andb]. rewrite mul_m1.
    destruct (wf_fin_ok b Wb Ib Nb) as [[Mb Pb] PWb].
    assert (Sb' : - f_s b = 1 \/ - f_s b = -1) by (unfold sign_ok in Sb; lia).
    destruct (FPNum4_wf (- f_s b) (f_e b) (f_m b) (f_p b) Sb' Mb PWb) as (W' & I' & N' & V').
    set (b' := FPNum4 (- f_s b) (f_e b) (f_m b) (f_p b)) in *.
    destruct (add_finite a b' Wa W' Ia Na I' N') as (W & I1 & N1 & V).
    rewrite (xval_fin _ I1 N1), (xval_fin a Ia Na), (xval_fin b Ib Nb). cbn [xneg xadd xeq].
    split; [|exact W]. rewrite V, V', val4_opp, <- fval_val4. reflexivity.
Qed.

(* ------------------------------------------------------------------ mul *)
Lemma val4_mul s1 e1 m1 p1 s2 e2 m2 p2 : p1 <> 0 -> p2 <> 0 ->
  (val4 (s1 * s2) (e1 + e2) (m1 * m2) (p1 * p2) == val4 s1 e1 m1 p1 * val4 s2 e2 m2 p2)%Q.
Proof.
  intros H1 H2. unfold val4. rewrite !inject_Z_mult, two_pow_add. field.
  split; apply inject_Z_nz; lia.
Qed.

Lemma mul_exact a b : wf a -> wf b -> f_inf a = false -> f_nan a = false -> f_inf b = false -> f_nan b = false ->
  let r := FPNum_mul a b in
  wf r /\ f_inf r = false /\ f_nan r = false /\ (fval r == fval a * fval b)%Q.
Proof.
  intros Wa Wb Ia Na Ib Nb. cbv zeta. unfold FPNum_mul. rewrite Ia, Na, Ib, Nb. cbn [orb].
  destruct (wf_fin_ok a Wa Ia Na) as [[Ma Pa] PWa]. destruct (wf_fin_ok b Wb Ib Nb) as [[Mb Pb] PWb].
  destruct Wa as [Sa _], Wb as [Sb _]. unfold sign_ok in Sa, Sb.
  assert (Ss : f_s a * f_s b = 1 \/ f_s a * f_s b = -1) by (destruct Sa as [-> | ->], Sb as [-> | ->]; lia).
  destruct (FPNum4_wf (f_s a * f_s b) (f_e a + f_e b) (f_m a * f_m b) (f_p a * f_p b) Ss ltac:(nia) (pow2_mul _ _ PWa PWb))
    as (W & I1 & N1 & V).
  split; [exact W | split; [exact I1 | split; [exact N1|]]]. rewrite V. rewrite !fval_val4. apply val4_mul; lia.
Qed.

(* what mul does with the specials (the last line differs from IEEE when the other factor is 0) *)
Lemma mul_special a b : sign_ok a ->
  (f_nan a || f_nan b = true -> xval (FPNum_mul a b) = XNaN) /\
  (f_nan a || f_nan b = false -> f_inf a || f_inf b = true -> xval (FPNum_mul a b) = XInf (f_s a * f_s b <? 0)).
Proof.
  intros Sa. unfold FPNum_mul. split.
  - intros ->. apply nan_like_spec; exact Sa.
  - intros -> ->. rewrite FPNum4_special. reflexivity.
Qed.

(* ------------------------------------------------------------------ compare *)
Lemma val4_factor s e m p : 0 < p ->
  (val4 s e m p == inject_Z (s * m) * (two_pow e / inject_Z p))%Q.
Proof. intros Hp. unfold val4. rewrite inject_Z_mult. field. apply inject_Z_nz; lia. Qed.

(* finite operands, for every version of the code: with the zero repair no guard is needed *)
Lemma compare_finite_with inf_fix zero_fix a0 b0 : wf a0 -> wf b0 ->
  f_inf a0 = false -> f_nan a0 = false -> f_inf b0 = false -> f_nan b0 = false ->
  (zero_fix = true \/ f_s a0 = f_s b0 \/ 0 < f_m a0 \/ 0 < f_m b0) ->
  FPNum_compare_with inf_fix zero_fix a0 b0 = cmpZ (Qcompare (fval a0) (fval b0)).
Proof.
  intros Wa Wb Ia Na Ib Nb G. unfold FPNum_compare_with. rewrite Ia, Na, Ib, Nb. cbn [orb andb].
  destruct (wf_fin_ok a0 Wa Ia Na) as [[Ma Pa] PWa]. destruct (wf_fin_ok b0 Wb Ib Nb) as [[Mb Pb] PWb].
  destruct Wa as [Sa _], Wb as [Sb _].
  destruct (FPNum4_spec (f_s a0) (f_e a0) (f_m a0) (f_p a0) Ma Pa) as (S1 & _ & _ & O1 & V1 & W1 & R1 & _).
  destruct (FPNum4_spec (f_s b0) (f_e b0) (f_m b0) (f_p b0) Mb Pb) as (S2 & _ & _ & O2 & V2 & W2 & R2 & _).
  set (a1 := FPNum4 (f_s a0) (f_e a0) (f_m a0) (f_p a0)) in *.
  set (b1 := FPNum4 (f_s b0) (f_e b0) (f_m b0) (f_p b0)) in *.
  destruct (align a1 b1) as [a b] eqn:EA.
  pose proof (align_spec a1 b1 O1 O2 (W1 PWa) (W2 PWb) a b EA) as AL. destruct AL.
  rewrite <- fval_val4 in V1, V2.
  destruct al_oka0 as [Mxa Pxa]. destruct al_okb0 as [Mxb Pxb]. destruct O1 as [_ P1]. destruct O2 as [_ P2].
  assert (Sa' : f_s a = f_s a0) by congruence. assert (Sb' : f_s b = f_s b0) by congruence.
  assert (Ea : (fval a0 == inject_Z (f_s a * f_m a) * (two_pow (f_e a) / inject_Z (f_p a)))%Q).
  { rewrite <- V1, <- al_va0, fval_val4. apply val4_factor; lia. }
  assert (Eb : (fval b0 == inject_Z (f_s b * f_m b) * (two_pow (f_e a) / inject_Z (f_p a)))%Q).
  { rewrite <- V2, <- al_vb0, fval_val4, al_e0, al_p0. apply val4_factor; lia. }
  rewrite Ea, Eb. rewrite Qcompare_scale.
  2:{ apply Qlt_shift_div_l; [apply inject_Z_pos; lia|]. rewrite Qmult_0_l. apply two_pow_pos. }
  rewrite Qcompare_inject.
  assert (Ga : 0 < f_m a0 -> 0 < f_m a) by (intros H; apply al_ma0; specialize (R1 H); lia).
  assert (Gb : 0 < f_m b0 -> 0 < f_m b) by (intros H; apply al_mb0; specialize (R2 H); lia).
  unfold sign_ok in Sa, Sb. rewrite <- Sa' in Sa. rewrite <- Sb' in Sb. rewrite <- Sa', <- Sb' in G.
  (* the repaired early exit *)
  destruct (zero_fix && (f_m a =? 0) && (f_m b =? 0)) eqn:ZF.
  { apply andb_prop in ZF as [ZF Zb]. apply andb_prop in ZF as [_ Za].
    apply Z.eqb_eq in Za, Zb. rewrite Za, Zb, !Z.mul_0_r. reflexivity. }
  assert (G' : f_s a = f_s b \/ 0 < f_m a \/ 0 < f_m b).
  { destruct G as [-> | G]; [|tauto]. cbn [andb] in ZF.
    destruct (Z.eqb_spec (f_m a) 0); destruct (Z.eqb_spec (f_m b) 0); cbn in ZF; try discriminate; lia. }
  clear G ZF.
  destruct Sa as [Sa | Sa], Sb as [Sb | Sb]; rewrite Sa, Sb in *; cbn [Z.eqb Pos.eqb andb orb].
  - destruct (Z.compare_spec (1 * f_m a) (1 * f_m b)); destruct (Z.eqb_spec (f_m a) (f_m b)); destruct (Z.gtb_spec (f_m a) (f_m b)); cbn [cmpZ]; lia.
  - destruct (Z.compare_spec (1 * f_m a) (-1 * f_m b)); cbn [cmpZ]; lia.
  - destruct (Z.compare_spec (-1 * f_m a) (1 * f_m b)); cbn [cmpZ]; lia.
  - destruct (Z.compare_spec (-1 * f_m a) (-1 * f_m b)); destruct (Z.eqb_spec (f_m a) (f_m b)); destruct (Z.gtb_spec (f_m a) (f_m b)); cbn [cmpZ]; lia.
Qed.

(* HISTORY (finding C12-CMP-ZERO, repaired by b24d7f8): without the early exit -0 was ordered below +0 although both denote 0 *)
Lemma compare_signed_zero_before :
  let a := mkfp (-1) (-1) 0 1 false false in let b := mkfp 1 (-1) 0 1 false false in
  FPNum_compare_with true false a b = -1 /\ FPNum_compare_with true false b a = 1 /\ Qcompare (fval a) (fval b) = Eq.
Proof. vm_compute. repeat split. Qed.

(* HISTORY (finding C12-CMP-INF, repaired by f0972ae): two infinities of different sign always compared as 1 *)
Lemma compare_inf_inf_before :
  let ninf := mkfp (-1) 0 0 0 true false in let pinf := mkfp 1 0 0 0 true false in
  FPNum_compare_with false false ninf pinf = 1 /\ FPNum_compare_with false false pinf ninf = 1.
Proof. vm_compute. split; reflexivity. Qed.

(* an infinity against a finite number is ordered correctly *)
Lemma compare_inf_fin a b : f_nan a = false -> f_nan b = false ->
  (f_inf a = true -> f_inf b = false -> FPNum_compare a b = f_s a) /\
  (f_inf a = false -> f_inf b = true -> FPNum_compare a b = - f_s b).
Proof. intros Na Nb. unfold FPNum_compare, FPNum_compare_with. rewrite Na, Nb. split; intros -> ->; reflexivity. Qed.

(* ------------------------------------------------------------------ compare is the order of the extended rationals *)
(* all well-formed operands that are not NaN, infinities and signed zeros included *)
Lemma compare_total a b : wf a -> wf b -> f_nan a = false -> f_nan b = false ->
  FPNum_compare a b = xcmpZ (xval a) (xval b).
Proof.
  intros Wa Wb Na Nb. pose proof Wa as [Sa _]. pose proof Wb as [Sb _]. unfold sign_ok in Sa, Sb. unfold FPNum_compare.
  destruct (f_inf a) eqn:Ia; destruct (f_inf b) eqn:Ib.
  - unfold FPNum_compare_with. rewrite Na, Nb, Ia, Ib. cbn [orb andb]. rewrite (xval_inf a Na Ia), (xval_inf b Nb Ib).
    destruct Sa as [-> | ->], Sb as [-> | ->]; reflexivity.
  - unfold FPNum_compare_with. rewrite Na, Nb, Ia, Ib. cbn [orb andb]. rewrite (xval_inf a Na Ia), (xval_fin b Ib Nb).
    destruct Sa as [-> | ->]; reflexivity.
  - unfold FPNum_compare_with. rewrite Na, Nb, Ia, Ib. cbn [orb andb]. rewrite (xval_inf b Nb Ib), (xval_fin a Ia Na).
    destruct Sb as [-> | ->]; reflexivity.
  - rewrite (xval_fin a Ia Na), (xval_fin b Ib Nb). cbn [xcmpZ]. apply compare_finite_with; auto.
Qed.

Lemma compare_finite a b : wf a -> wf b -> f_inf a = false -> f_nan a = false -> f_inf b = false -> f_nan b = false ->
  FPNum_compare a b = cmpZ (Qcompare (fval a) (fval b)).
Proof. intros. apply compare_finite_with; auto. Qed.

Lemma compare_nan a b : f_nan a || f_nan b = true -> FPNum_compare a b = 0.
Proof. intros H. unfold FPNum_compare, FPNum_compare_with. rewrite H. reflexivity. Qed.

(* ------------------------------------------------------------------ reduceExponentPrecision *)
Lemma reduce_exponent_spec x prec : 1 <= prec -> 0 < f_p x ->
  let y := FPNum_reduceExponentPrecision x prec in
  let e_bias := (2 ^ prec - 1) / 2 in
  f_s y = f_s x /\ f_m y = f_m x /\ f_nan y = f_nan x /\ (fval y == fval x)%Q /\ - (e_bias - 1) <= f_e y /\
  f_inf y = (f_inf x || (f_e x + e_bias >=? 2 ^ prec - 1)).
Proof.
  intros Hp Hpp. cbv zeta. unfold FPNum_reduceExponentPrecision. cbv zeta. rewrite shl1 by lia. rewrite shr_1.
  set (eb := (2 ^ prec - 1) / 2). pose proof (pow2_le 1 prec ltac:(lia)) as P2. change (2 ^ 1) with 2 in P2.
  assert (Heb : 0 <= eb) by (unfold eb; apply Z.div_pos; lia).
  assert (Hmask : eb + eb <= 2 ^ prec - 1) by (unfold eb; pose proof (Z.div_mod (2 ^ prec - 1) 2 ltac:(lia)); pose proof (Z.mod_pos_bound (2 ^ prec - 1) 2 ltac:(lia)); lia).
  destruct (Z.ltb_spec (f_e x) (- (eb - 1))) as [L | G].
  - cbn [f_s f_e f_m f_p f_inf f_nan]. rewrite shl_n by lia.
    replace (f_e x + eb >=? 2 ^ prec - 1) with false by lia. rewrite orb_false_r.
    repeat split; try lia. rewrite !fval_val4; cbn [f_s f_e f_m f_p].
    replace (- (eb - 1)) with (f_e x + (- (eb - 1) - f_e x)) at 1 by lia. apply val_scale_p; lia.
  - destruct (f_e x + eb >=? 2 ^ prec - 1) eqn:C; cbn [f_s f_e f_m f_p f_inf f_nan].
    + rewrite orb_true_r. repeat split; first [lia | reflexivity].
    + rewrite orb_false_r. repeat split; first [lia | reflexivity].
Qed.
