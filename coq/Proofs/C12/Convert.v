(* C12 — FPNum.convert(fmt) after FPNum(v, fmt): every non-NaN bit pattern of the format round-trips. *)
From V Require Import Base.Bits Spec.C12 Model.HelperInt Model.FPNum Proofs.C12.Int Proofs.C12.QFacts Proofs.C12.FPNum Proofs.C12.Decode.
Open Scope Z_scope.

(* ------------------------------------------------------------------ more about adjust_semp: integer relations *)
Lemma strip_le fuel : forall m p m' p', strip fuel m p = (m', p') -> 0 < p -> p' <= p.
Proof.
  induction fuel as [|f IH]; intros m p m' p' E Hp; cbn [strip] in E.
  - inj E. lia.
  - destruct ((Z.land m 1 =? 0) && (Z.land p 1 =? 0)) eqn:C.
    + apply andb_prop in C as [_ Cp]. apply even_test in Cp. rewrite !shr_1 in E.
      specialize (IH _ _ _ _ E ltac:(lia)). lia.
    + inj E. lia.
Qed.

(* p <= m < 2p: only the common factors of two are removed *)
Lemma adjust_semp_norm x : 0 < f_p x -> f_p x <= f_m x < 2 * f_p x ->
  let y := adjust_semp x in
  f_s y = f_s x /\ f_e y = f_e x /\ f_inf y = f_inf x /\ f_nan y = f_nan x /\
  f_m y * f_p x = f_m x * f_p y /\ 0 < f_p y <= f_p x /\ (pow2 (f_p x) -> pow2 (f_p y)).
Proof.
  intros Hp Hm. unfold adjust_semp. replace (f_p x =? 0) with false by lia.
  destruct (strip (fuel_of (f_p x)) (f_m x) (f_p x)) as [m1 p1] eqn:ES.
  destruct (strip_inv _ _ _ _ _ ES Hp ltac:(lia)) as (P1 & M1 & R1 & W1 & Pos1 & Z1).
  pose proof (strip_le _ _ _ _ _ ES Hp) as L1.
  rewrite shl_1. replace (m1 >=? p1 * 2) with false by nia. replace (m1 <? p1) with false by nia.
  cbn [f_s f_e f_m f_p f_inf f_nan]. repeat split; auto; lia.
Qed.

(* 0 < m < p: additionally m is shifted left j >= 1 places and the exponent lowered by j *)
Lemma adjust_semp_sub x : 0 < f_m x < f_p x ->
  let y := adjust_semp x in
  exists j, 1 <= j /\ f_s y = f_s x /\ f_e y = f_e x - j /\ f_inf y = f_inf x /\ f_nan y = f_nan x /\
  f_m y * f_p x = f_m x * f_p y * 2 ^ j /\ 0 < f_p y <= f_p x /\ f_p y <= f_m y < 2 * f_p y /\ (pow2 (f_p x) -> pow2 (f_p y)).
Proof.
  intros Hm. assert (Hp : 0 < f_p x) by lia. unfold adjust_semp. replace (f_p x =? 0) with false by lia.
  destruct (strip (fuel_of (f_p x)) (f_m x) (f_p x)) as [m1 p1] eqn:ES.
  destruct (strip_inv _ _ _ _ _ ES Hp ltac:(lia)) as (P1 & M1 & R1 & W1 & Pos1 & Z1).
  pose proof (strip_le _ _ _ _ _ ES Hp) as L1. specialize (Pos1 ltac:(lia)).
  rewrite shl_1. replace (m1 >=? p1 * 2) with false by nia. replace (m1 <? p1) with true by nia.
  destruct (grow_m (fuel_of p1) m1 p1 (f_e x)) as [m3 e3] eqn:EG. cbv zeta.
  destruct (grow_m_inv _ _ _ _ _ _ EG) as (j & Hj & -> & ->).
  assert (Hd : p1 <= m1 * 2 ^ j < 2 * p1).
  { pose proof (fuel_of_enough p1 ltac:(lia)). apply (grow_m_done _ _ _ _ _ _ EG); nia. }
  assert (Hj1 : 1 <= j).
  { destruct (Z.eq_dec j 0) as [-> | N]; [|lia]. rewrite Z.pow_0_r in Hd. nia. }
  exists j. cbn [f_s f_e f_m f_p f_inf f_nan]. repeat split; auto; try lia. nia.
Qed.

(* ------------------------------------------------------------------ the precision-standardising loops on powers of two *)
Lemma pow_gt_iff a b : 0 <= a -> 0 <= b -> (2 ^ a >? 2 ^ b) = (a >? b).
Proof. intros. rewrite !Z.gtb_ltb. apply pow_lt_iff; lia. Qed.

Lemma std_up_pow2 fuel : forall a b m, 0 <= a -> 0 <= b -> b - a <= Z.of_nat fuel ->
  std_up fuel m (2 ^ a) (2 ^ b) = (m * 2 ^ Z.max 0 (b - a), 2 ^ Z.max a b).
Proof.
  induction fuel as [|f IH]; intros a b m Ha Hb Hf; cbn [std_up].
  - rewrite Z.max_l, Z.max_l by lia. rewrite Z.pow_0_r, Z.mul_1_r. reflexivity.
  - rewrite pow_lt_iff by lia. destruct (Z.ltb_spec a b) as [L | G].
    + rewrite !shl_1. replace (2 ^ a * 2) with (2 ^ (a + 1)) by (rewrite Z.pow_add_r by lia; reflexivity).
      rewrite IH by lia. rewrite !Z.max_r by lia. f_equal.
      replace (b - a) with (1 + (b - (a + 1))) by lia. rewrite Z.pow_add_r by lia. change (2 ^ 1) with 2. ring.
    + rewrite Z.max_l, Z.max_l by lia. rewrite Z.pow_0_r, Z.mul_1_r. reflexivity.
Qed.

Lemma std_down_pow2 fuel : forall a b m, 0 <= a -> 0 <= b -> a - b <= Z.of_nat fuel ->
  std_down fuel m (2 ^ a) (2 ^ b) = (m / 2 ^ Z.max 0 (a - b), 2 ^ Z.min a b).
Proof.
  induction fuel as [|f IH]; intros a b m Ha Hb Hf; cbn [std_down].
  - rewrite Z.max_l, Z.min_l by lia. rewrite Z.pow_0_r, Z.div_1_r. reflexivity.
  - rewrite pow_gt_iff by lia. destruct (Z.gtb_spec a b) as [G | L].
    + rewrite !shr_1. replace (2 ^ a / 2) with (2 ^ (a - 1)).
      2:{ rewrite (pow2_split a) by lia. rewrite Z.mul_comm, Z.div_mul by lia. reflexivity. }
      rewrite IH by lia. rewrite !Z.max_r, !Z.min_r by lia. f_equal.
      rewrite Z.div_div by (try apply pow2_pos; lia). f_equal.
      replace (a - b) with (1 + (a - 1 - b)) by lia. rewrite Z.pow_add_r by lia. reflexivity.
    + rewrite Z.max_l, Z.min_l by lia. rewrite Z.pow_0_r, Z.div_1_r. reflexivity.
Qed.

Lemma lxor_top M a : 0 <= a -> 2 ^ a <= M < 2 ^ (a + 1) -> Z.lxor M (2 ^ a) = M - 2 ^ a.
Proof.
  intros Ha HM. rewrite Z.pow_add_r in HM by lia. change (2 ^ 1) with 2 in HM.
  assert (L : Z.land (M - 2 ^ a) (2 ^ a) = 0).
  { rewrite land_pow2 by lia. rewrite <- (Z.mod_small (M - 2 ^ a) (2 ^ a)) by lia.
    rewrite Z.mod_pow2_bits_high by lia. reflexivity. }
  pose proof (Z.add_nocarry_lxor _ _ L) as A. replace (M - 2 ^ a + 2 ^ a) with M in A by lia.
  rewrite A at 1. rewrite Z.lxor_assoc, Z.lxor_nilpotent, Z.lxor_0_r. reflexivity.
Qed.

(* ------------------------------------------------------------------ convert on explicit normalised numbers *)
Ltac kill_if :=
  match goal with
  | |- context [if ?c then _ else _] =>
      let H := fresh "C" in destruct c eqn:H; [ try (exfalso; lia) | try (exfalso; lia) ]
  end.

Definition sbit (s : Z) : Z := if s >? 0 then 0 else 1.

Section Conv.
Variables ew mw sube nanm : Z.
Hypothesis Hew : 2 <= ew.
Hypothesis Hmw : 0 <= mw.
Let F := fmt_std ew mw sube nanm.
Let bias := 2 ^ (ew - 1) - 1.

Lemma bias_pos : 1 <= bias /\ 2 ^ ew - 1 = 2 * bias + 1.
Proof.
  unfold bias. rewrite (pow2_split ew) by lia. pose proof (pow2_le 1 (ew - 1) ltac:(lia)). change (2 ^ 1) with 2 in *. lia.
Qed.

Lemma convert_normal s E M a : 0 <= a <= mw -> 2 ^ a <= M < 2 ^ (a + 1) -> 1 - bias <= E -> E + bias < 2 ^ ew - 1 ->
  FPNum_convert F (mkfp s E M (2 ^ a) false false) =
  FPNum_pack (std_layout ew mw) (sbit s) (E + bias) ((M - 2 ^ a) * 2 ^ (mw - a)).
Proof.
  intros Ha HM HE1 HE2. destruct bias_pos as [Hb1 Hb2].
  pose proof (pow2_pos a ltac:(lia)) as Pa.
  assert (P2 : 2 ^ (a + 1) = 2 ^ a * 2) by (rewrite Z.pow_add_r by lia; reflexivity).
  unfold FPNum_convert, F, fmt_std. cbn [F_lay F_emax F_bias F_sube F_mw F_nanm f_s f_e f_m f_p f_inf f_nan orb].
  cbv zeta. fold bias. fold (sbit s). rewrite shl1 by lia.
  replace (M =? 0) with false by lia.
  replace (E <? - (bias - 1)) with false by lia.
  replace ((E =? - (bias - 1)) && (2 ^ a >? M)) with false by lia.
  replace (E + bias <? 0) with false by lia. replace (E + bias >=? 2 ^ ew - 1) with false by lia.
  replace (E + bias =? 0) with false by lia.
  replace (2 ^ a >? M) with false by lia. rewrite shl_1. replace (M >=? 2 ^ a * 2) with false by lia.
  rewrite lxor_top by lia.
  rewrite std_down_pow2 by first [lia | unfold fuel_of; rewrite Z.log2_pow2 by lia; lia].
  rewrite Z.max_l, Z.min_l by lia. rewrite Z.pow_0_r, Z.div_1_r.
  rewrite std_up_pow2 by lia. rewrite Z.max_r by lia. reflexivity.
Qed.

(* a normalised number below the normal range: the mantissa is shifted to the subnormal scale, exactly when nothing is lost *)
Lemma convert_subnormal s E M a : 0 <= a -> 2 ^ a <= M < 2 ^ (a + 1) -> E < 1 - bias ->
  let t := a + (1 - bias - E) in
  FPNum_convert F (mkfp s E M (2 ^ a) false false) =
  FPNum_pack (std_layout ew mw) (sbit s) 0 (if t >? mw then M / 2 ^ (t - mw) else M * 2 ^ (mw - t)).
Proof.
  intros Ha HM HE. cbv zeta. destruct bias_pos as [Hb1 Hb2].
  pose proof (pow2_pos a ltac:(lia)) as Pa.
  unfold FPNum_convert, F, fmt_std. cbn [F_lay F_emax F_bias F_sube F_mw F_nanm f_s f_e f_m f_p f_inf f_nan orb].
  cbv zeta. fold bias. fold (sbit s). rewrite shl1 by lia.
  replace (M =? 0) with false by lia.
  replace (E <? - (bias - 1)) with true by lia.
  replace (0 <? 0) with false by reflexivity. replace (0 >=? 2 ^ ew - 1) with false by lia.
  replace (0 =? 0) with true by reflexivity.
  rewrite shl_n by lia. rewrite <- Z.pow_add_r by lia.
  replace (a + (- (bias - 1) - E)) with (a + (1 - bias - E)) by lia. set (t := a + (1 - bias - E)).
  assert (Ht : 0 <= t) by (unfold t; lia).
  rewrite std_down_pow2 by first [lia | unfold fuel_of; rewrite Z.log2_pow2 by lia; lia].
  rewrite std_up_pow2; try lia.
  destruct (Z.gtb_spec t mw) as [G | L].
  - rewrite Z.max_r by lia. rewrite (Z.max_l 0) by lia. rewrite Z.pow_0_r, Z.mul_1_r. reflexivity.
  - rewrite Z.max_l by lia. rewrite Z.pow_0_r, Z.div_1_r. rewrite (Z.max_r 0) by lia.
    rewrite Z.min_l by lia. reflexivity.
Qed.
End Conv.

(* ------------------------------------------------------------------ the round trip *)
Lemma fpnum_eta y : y = mkfp (f_s y) (f_e y) (f_m y) (f_p y) (f_inf y) (f_nan y).
Proof. destruct y; reflexivity. Qed.

Lemma pack_fields ew mw v : 0 <= ew -> 0 <= mw -> 0 <= v < 2 ^ (1 + ew + mw) ->
  FPNum_pack (std_layout ew mw) (fld_s ew mw v) (fld_e ew mw v) (fld_m ew mw v) = v.
Proof. intros He Hm Hv. pose proof (pack_unpack_id ew mw v He Hm Hv) as P. rewrite unpack_fields in P by lia. exact P. Qed.

Section RT.
Variables ew mw sube nanm : Z.
Hypothesis Hew : 2 <= ew.
Hypothesis Hmw : 0 <= mw.
Let bias := 2 ^ (ew - 1) - 1.
Let F := fmt_std ew mw sube nanm.

Lemma sbit_sign v : sbit (sign_of ew mw v) = fld_s ew mw v.
Proof.
  unfold sbit, sign_of. destruct (fld_ranges ew mw ltac:(lia) Hmw v) as (Hs & _).
  destruct (Z.eqb_spec (fld_s ew mw v) 0) as [-> | N]; [reflexivity|]. cbn. lia.
Qed.

Lemma round_trip v : 0 <= v < 2 ^ (1 + ew + mw) -> (fld_e ew mw v = 2 ^ ew - 1 -> fld_m ew mw v = 0) ->
  (sube = 1 - bias \/ fld_e ew mw v <> 0 \/ fld_m ew mw v = 0) ->
  FPNum_convert F (FPNum_from_ieee754 F v) = v.
Proof.
  intros Hv Hnan Hsub. unfold F. rewrite from_unfold by lia. cbv zeta.
  destruct (fld_ranges ew mw ltac:(lia) Hmw v) as (Hs & He & Hm).
  destruct (bias_pos ew Hew) as [Hb1 Hb2]. fold bias in Hb1, Hb2.
  pose proof (pow2_pos mw Hmw) as Pm.
  match goal with |- ?L = v => enough (G : L = FPNum_pack (std_layout ew mw) (fld_s ew mw v) (fld_e ew mw v) (fld_m ew mw v))
    by (rewrite G; apply pack_fields; lia) end.
  set (s := fld_s ew mw v) in *. set (e := fld_e ew mw v) in *. set (m := fld_m ew mw v) in *.
  destruct (Z.eqb_spec e (2 ^ ew - 1)) as [Ee | Ne].
  - (* infinity *)
    rewrite (Hnan Ee). unfold set_semp; cbn [Z.eqb andb negb].
    unfold FPNum_convert, fmt_std; cbn [F_lay F_emax F_bias F_sube F_mw F_nanm f_s f_e f_m f_p f_inf f_nan orb].
    fold (sbit (sign_of ew mw v)). rewrite sbit_sign. fold s. rewrite Ee. reflexivity.
  - destruct (Z.eqb_spec e 0) as [E0 | N0].
    + destruct (Z.eq_dec m 0) as [M0 | NM].
      * (* zero *)
        destruct (FPNum4_spec (sign_of ew mw v) sube m (2 ^ mw) ltac:(lia) Pm) as (S1 & I1 & N1 & _ & _ & _ & _ & Z1).
        set (y := FPNum4 (sign_of ew mw v) sube m (2 ^ mw)) in *.
        unfold FPNum_convert. rewrite I1, N1, (Z1 M0), S1. cbn [orb Z.eqb].
        fold (sbit (sign_of ew mw v)). rewrite sbit_sign. fold s. rewrite E0, M0. reflexivity.
      * (* subnormal *)
        assert (Es : sube = 1 - bias) by (destruct Hsub as [Hs1 | [Hs1 | Hs1]]; [exact Hs1 | contradiction | contradiction]).
        rewrite Es. unfold FPNum4, set_semp. replace (2 ^ mw =? 0) with false by lia. cbn [andb].
        destruct (adjust_semp_sub (mkfp (sign_of ew mw v) (1 - bias) m (2 ^ mw) false false) ltac:(cbn [f_m f_p]; lia))
          as (j & Hj & S1 & E1 & I1 & N1 & R1 & P1 & B1 & W1).
        set (y := adjust_semp (mkfp (sign_of ew mw v) (1 - bias) m (2 ^ mw) false false)) in *.
        cbn [f_s f_e f_m f_p f_inf f_nan] in *.
        destruct (W1 (pow2_pow mw Hmw)) as (a & Ha & Pa).
        assert (Ha2 : a <= mw).
        { destruct (Z.le_gt_cases a mw); [assumption|]. pose proof (pow2_lt mw a ltac:(lia)). lia. }
        rewrite (fpnum_eta y), S1, E1, I1, N1, Pa.
        assert (B2 : 2 ^ a <= f_m y < 2 ^ (a + 1)) by (rewrite Z.pow_add_r by lia; change (2 ^ 1) with 2; lia).
        rewrite (convert_subnormal ew mw (1 - bias) nanm Hew Hmw) by (fold bias; lia).
        fold bias. rewrite sbit_sign. fold s. rewrite E0. f_equal.
        replace (a + (1 - bias - (1 - bias - j))) with (a + j) by lia.
        rewrite Pa in R1. pose proof (pow2_pos a Ha) as PA. pose proof (pow2_pos j ltac:(lia)) as PJ.
        destruct (Z.gtb_spec (a + j) mw) as [G | L].
        -- assert (Q : f_m y = m * 2 ^ (a + j - mw)).
           { apply (Z.mul_reg_r _ _ (2 ^ mw)); [lia|]. rewrite R1, <- !Z.mul_assoc, <- !Z.pow_add_r by lia. f_equal. f_equal. lia. }
           rewrite Q. apply Z.div_mul. apply Z.pow_nonzero; lia.
        -- apply (Z.mul_reg_r _ _ (2 ^ (a + j))); [apply Z.pow_nonzero; lia|].
           rewrite <- Z.mul_assoc, <- Z.pow_add_r by lia. replace (mw - (a + j) + (a + j)) with mw by lia.
           rewrite R1, Z.pow_add_r by lia. ring.
    + (* normal *)
      fold bias. unfold FPNum4, set_semp. replace (2 ^ mw =? 0) with false by lia. cbn [andb].
      destruct (adjust_semp_norm (mkfp (sign_of ew mw v) (e - bias) (2 ^ mw + m) (2 ^ mw) false false)
                  ltac:(cbn [f_p]; lia) ltac:(cbn [f_m f_p]; lia)) as (S1 & E1 & I1 & N1 & R1 & P1 & W1).
      set (y := adjust_semp (mkfp (sign_of ew mw v) (e - bias) (2 ^ mw + m) (2 ^ mw) false false)) in *.
      cbn [f_s f_e f_m f_p f_inf f_nan] in *.
      destruct (W1 (pow2_pow mw Hmw)) as (a & Ha & Pa).
      assert (Ha2 : a <= mw).
      { destruct (Z.le_gt_cases a mw); [assumption|]. pose proof (pow2_lt mw a ltac:(lia)). lia. }
      rewrite Pa in R1. pose proof (pow2_pos a Ha) as PA.
      assert (Q : f_m y * 2 ^ (mw - a) = 2 ^ mw + m).
      { apply (Z.mul_reg_r _ _ (2 ^ a)); [lia|]. rewrite <- Z.mul_assoc, <- Z.pow_add_r by lia.
        replace (mw - a + a) with mw by lia. exact R1. }
      pose proof (pow2_pos (mw - a) ltac:(lia)) as PD.
      assert (Pmw : 2 ^ mw = 2 ^ a * 2 ^ (mw - a)) by (rewrite <- Z.pow_add_r by lia; f_equal; lia).
      assert (B2 : 2 ^ a <= f_m y < 2 ^ (a + 1)).
      { rewrite Z.pow_add_r by lia; change (2 ^ 1) with 2. nia. }
      rewrite (fpnum_eta y), S1, E1, I1, N1, Pa.
      rewrite (convert_normal ew mw sube nanm Hew Hmw) by (fold bias; lia).
      fold bias. rewrite sbit_sign. fold s. replace (e - bias + bias) with e by lia. f_equal.
      rewrite Z.mul_sub_distr_r, Q. lia.
Qed.

(* NaN patterns come back as the format's quiet NaN *)
Lemma round_trip_nan v : fld_e ew mw v = 2 ^ ew - 1 -> fld_m ew mw v <> 0 ->
  FPNum_convert F (FPNum_from_ieee754 F v) = FPNum_pack (std_layout ew mw) 0 (2 ^ ew - 1) nanm.
Proof.
  intros Ee Nm. unfold F. rewrite from_unfold by lia. cbv zeta. rewrite Ee, Z.eqb_refl.
  unfold set_semp. cbn [Z.eqb andb]. replace (fld_m ew mw v =? 0) with false by lia. cbn [negb].
  unfold FPNum_convert, fmt_std; cbn [F_lay F_emax F_bias F_sube F_mw F_nanm f_s f_e f_m f_p f_inf f_nan orb]. reflexivity.
Qed.
End RT.

Lemma round_trip_sp v : 0 <= v < 2 ^ 32 -> (fld_e 8 23 v = 255 -> fld_m 8 23 v = 0) -> FPNum_convert fmt_sp (FPNum_from_ieee754 fmt_sp v) = v.
Proof. intros Hv Hn. rewrite (proj1 (proj2 fmts_std)). apply (round_trip 8 23 (-126) 4194304); first [lia | exact Hn | left; reflexivity]. Qed.

Lemma round_trip_dp v : 0 <= v < 2 ^ 64 -> (fld_e 11 52 v = 2047 -> fld_m 11 52 v = 0) -> FPNum_convert fmt_dp (FPNum_from_ieee754 fmt_dp v) = v.
Proof. intros Hv Hn. rewrite (proj2 (proj2 fmts_std)). apply (round_trip 11 52 (-1022) 2251799813685248); first [lia | exact Hn | left; reflexivity]. Qed.

Lemma round_trip_hp v : 0 <= v < 2 ^ 16 -> (fld_e 5 10 v = 31 -> fld_m 5 10 v = 0) ->
  FPNum_convert fmt_hp (FPNum_from_ieee754 fmt_hp v) = v.
Proof. intros Hv Hn. unfold fmt_hp. rewrite (proj1 fmts_std (-14)). apply (round_trip 5 10 (-14) 512); first [lia | exact Hn | left; reflexivity]. Qed.

(* HISTORY (finding #21, repaired by 8541cf4): with exponent -16 the subnormals did not round-trip: 0x0001 came back as 0, 0x03FF as 0x00FF *)
Lemma round_trip_hp_witness_before :
  FPNum_convert fmt_hp_before_8541cf4 (FPNum_from_ieee754 fmt_hp_before_8541cf4 1) = 0 /\
  FPNum_convert fmt_hp_before_8541cf4 (FPNum_from_ieee754 fmt_hp_before_8541cf4 1023) = 255.
Proof. vm_compute. split; reflexivity. Qed.
