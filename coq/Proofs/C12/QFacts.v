(* C12 — rational-number facts: powers of two in Q, scaling, comparison. *)
From V Require Import Base.Bits Spec.C12.
From Coq Require Import QArith Qpower Qfield.
Open Scope Q_scope.

Lemma two_nz : ~ (2 # 1) == 0.
Proof. discriminate. Qed.

Lemma two_pow_nz k : ~ two_pow k == 0.
Proof. unfold two_pow. apply Qpower_not_0. exact two_nz. Qed.

Lemma two_pow_add a b : two_pow (a + b) == two_pow a * two_pow b.
Proof. unfold two_pow. apply Qpower_plus. exact two_nz. Qed.

Lemma two_pow_0 : two_pow 0 == 1.
Proof. reflexivity. Qed.

Lemma two_pow_Z k : (0 <= k)%Z -> two_pow k == inject_Z (2 ^ k).
Proof. intros. unfold two_pow. rewrite Zpower_Qpower by lia. reflexivity. Qed.

Lemma two_pow_pos k : 0 < two_pow k.
Proof. unfold two_pow. apply Qpower_0_lt. reflexivity. Qed.

Lemma two_pow_sub a b : two_pow (a - b) == two_pow a / two_pow b.
Proof.
  unfold Z.sub. rewrite two_pow_add. unfold two_pow at 2 3. rewrite Qpower_opp. reflexivity.
Qed.

Lemma two_pow_opp a : two_pow (- a) == / two_pow a.
Proof. unfold two_pow. apply Qpower_opp. Qed.

Lemma inject_pow2_nz k : (0 <= k)%Z -> ~ inject_Z (2 ^ k) == 0.
Proof. intros H. rewrite <- two_pow_Z by lia. apply two_pow_nz. Qed.

Lemma inject_Z_nz z : (z <> 0)%Z -> ~ inject_Z z == 0.
Proof. intros H E. apply H. unfold Qeq, inject_Z in E. simpl in E. lia. Qed.

Lemma inject_Z_pos z : (0 < z)%Z -> 0 < inject_Z z.
Proof. intros. unfold Qlt, inject_Z; simpl. lia. Qed.

(* cross-multiplication: m/p == m'/p' *)
Lemma ratio_eq m p m' p' : (p <> 0)%Z -> (p' <> 0)%Z -> (m * p' = m' * p)%Z ->
  inject_Z m / inject_Z p == inject_Z m' / inject_Z p'.
Proof.
  intros Hp Hp' H. apply inject_Z_nz in Hp as Hq. apply inject_Z_nz in Hp' as Hq'.
  field_simplify_eq; [|split; assumption]. rewrite <- !inject_Z_mult. replace (p * m')%Z with (m * p')%Z by lia. reflexivity.
Qed.

(* comparison of integers embedded and scaled by a positive factor *)
Lemma Qcompare_inject x y : Qcompare (inject_Z x) (inject_Z y) = Z.compare x y.
Proof. unfold Qcompare, inject_Z; simpl. rewrite !Z.mul_1_r. reflexivity. Qed.

Lemma Qcompare_scale x y c : 0 < c -> Qcompare (x * c) (y * c) = Qcompare x y.
Proof.
  intros Hc. destruct (Qcompare_spec x y) as [E | L | G].
  - apply Qeq_alt. rewrite E. reflexivity.
  - apply Qlt_alt. apply Qmult_lt_r; assumption.
  - apply Qgt_alt. apply Qmult_lt_r; assumption.
Qed.
