(* C12 — executable comparators used by the correspondence case files (coq/Cases/C12_*.v written by py/props/c12_coq.py).
   Definitions only.  Each `chk_*` takes the list of cases (inputs together with what the REAL implementation returned)
   and yields two lists of case indices: where the MODEL differs from the implementation (tie) and where the SPEC
   differs from the implementation (property).  Nothing here is used by a theorem. *)
From V Require Import Base.Bits Gen.Helpers Spec.C12 Model.HelperInt Model.FPNum Model.FPHelper.
Open Scope Z_scope.

Definition bad {A} (f : A -> bool) (l : list A) : list nat :=
  map fst (filter (fun p => negb (f (snd p))) (combine (seq 0 (length l)) l)).
Definition both {A} (tie prop : A -> bool) (l : list A) : list nat * list nat := (bad tie l, bad prop l).

Definition oz_eqb (o : option Z) (v : Z) : bool :=      (* an exception of the implementation is reported as -1 *)
  match o with Some x => x =? v | None => v =? -1 end.

Definition fp_eqb (x y : fpnum) : bool :=
  (f_s x =? f_s y) && (f_e x =? f_e y) && (f_m x =? f_m y) && (f_p x =? f_p y) &&
  Bool.eqb (f_inf x) (f_inf y) && Bool.eqb (f_nan x) (f_nan y).

Definition t3_eqb (a b : Z * Z * Z) : bool :=
  let '(a1, a2, a3) := a in let '(b1, b2, b3) := b in (a1 =? b1) && (a2 =? b2) && (a3 =? b3).

(* value comparison with the sign of zero / infinity taken into account *)
Definition xs_eqb (x : xq) (xneg : bool) (y : xq) (yneg : bool) : bool :=
  xeqb x y && match x with XNaN => true | _ => Bool.eqb xneg yneg end.
Definition pf_eqb (a b : pyfloat) : bool := xs_eqb (pf_value a) (pf_neg a) (pf_value b) (pf_neg b).

(* formats by index: 0 = half, 1 = single, 2 = double *)
Definition ewmw (k : Z) : Z * Z := if k =? 0 then (5, 10) else if k =? 1 then (8, 23) else (11, 52).
Definition lay (k : Z) : layout := if k =? 0 then layout_hp else if k =? 1 then layout_sp else layout_dp.
(* hp_sube: the exponent the implementation gives to half subnormals (read from the code by a probe) *)
Definition ffmt (hp_sube : Z) (k : Z) : fpfmt := if k =? 0 then fmt_hp_with hp_sube else if k =? 1 then fmt_sp else fmt_dp.
Definition hfmt (sp_zero_sign : bool) (k : Z) : fphfmt := if k =? 1 then fph_sp_with sp_zero_sign else fph_dp.

(* ---- two's complement: (v, w, signed_to_c2 v w, c2_to_signed v w) *)
Definition chk_c2 := both
  (fun c : Z * Z * Z * Z => let '(v, w, r1, r2) := c in (IntegerHelper_signed_to_c2 v w =? r1) && (IntegerHelper_c2_to_signed v w =? r2))
  (fun c => let '(v, w, r1, r2) := c in (c2_encode w v =? r1) && (c2_decode w v =? r2)).
(* ---- signExtend: (v, w, nw, r) *)
Definition chk_sext := both
  (fun c : Z * Z * Z * Z => let '(v, w, nw, r) := c in signExtend v w nw =? r)
  (fun c => let '(v, w, nw, r) := c in sign_extend_spec v w nw =? r).
(* ---- FixedPoint: (sw, iw, fw, a, b, add, sub, mult) *)
(* iw0: the implementation constructs formats without integer bits (true since 6fe767a); read off by the probe, false = regression *)
Definition fx_ctor (iw0 : bool) := if iw0 then FixedPoint_intToFixedPoint else FixedPoint_intToFixedPoint_before_6fe767a.
Definition chk_fx (iw0 : bool) := both
  (fun c : Z * Z * Z * Z * Z * Z * Z * Z => let '(sw, iw, fw, a, b, r1, r2, r3) := c in
     oz_eqb (FixedPoint_add_gen (fx_ctor iw0) sw iw fw a b) r1 && oz_eqb (FixedPoint_sub_gen (fx_ctor iw0) sw iw fw a b) r2 &&
     oz_eqb (FixedPoint_mult_gen (fx_ctor iw0) sw iw fw a b) r3)
  (fun c => let '(sw, iw, fw, a, b, r1, r2, r3) := c in let w := sw + iw + fw in
     (fx_add_spec w a b =? r1) && (fx_sub_spec w a b =? r2) && (fx_mult_spec w fw a b =? r3)).
(* ---- FixedPoint(int): (sw, iw, fw, v, r) *)
Definition chk_fx_int (iw0 : bool) := both
  (fun c : Z * Z * Z * Z * Z => let '(sw, iw, fw, v, r) := c in oz_eqb (fx_ctor iw0 sw iw fw v) r)
  (fun c => let '(sw, iw, fw, v, r) := c in (r =? -1) || (fx_of_int_spec (sw + iw + fw) fw v =? r)).
(* ---- FixedPoint(float) and toFloatingPoint: (sw, iw, fw, x, raw, back_numerator) *)
Definition chk_fx_float := both
  (fun c : Z * Z * Z * pyfloat * Z * Z => let '(sw, iw, fw, x, r, num) := c in
     oz_eqb (FixedPoint_floatToFixedPoint sw iw fw x) r && ((r =? -1) || (FixedPoint_toFloat_num sw iw fw r =? num)))
  (fun c => let '(sw, iw, fw, x, r, num) := c in (r =? -1) || negb (sw =? 1) || (c2_decode (sw + iw + fw) r =? num)).
(* ---- pack / unpack: (fmt, v, (s, e, m), pack s e m, FloatingPointHelper.unpack v or the same triple) *)
Definition chk_pack := both
  (fun c : Z * Z * (Z * Z * Z) * Z * (Z * Z * Z) => let '(k, v, sem, pk, hsem) := c in
     t3_eqb (FPNum_unpack (lay k) v) sem && (let '(s, e, m) := sem in FPNum_pack (lay k) s e m =? pk) && t3_eqb (FPH_unpack (lay k) v) hsem)
  (fun c => let '(k, v, sem, pk, hsem) := c in let '(ew, mw) := ewmw k in
     t3_eqb (fld_s ew mw v, fld_e ew mw v, fld_m ew mw v) sem && (pk =? v mod 2 ^ (1 + ew + mw))).
(* ---- pack of arbitrary integers: (fmt, s, e, m, r) *)
Definition chk_pack_any := both
  (fun c : Z * Z * Z * Z * Z => let '(k, s, e, m, r) := c in FPNum_pack (lay k) s e m =? r)
  (fun c => let '(k, s, e, m, r) := c in let '(ew, mw) := ewmw k in ieee_compose ew mw (s mod 2) (e mod 2 ^ ew) (m mod 2 ^ mw) =? r).
(* ---- FPNum(v, fmt): (fmt, v, components) *)
Definition chk_decode (hp_sube : Z) := both
  (fun c : Z * Z * fpnum => let '(k, v, r) := c in fp_eqb (FPNum_from_ieee754 (ffmt hp_sube k) v) r)
  (fun c => let '(k, v, r) := c in let '(ew, mw) := ewmw k in xs_eqb (xval r) (f_s r <? 0) (ieee_value ew mw v) (ieee_neg ew mw v)).
(* ---- x.convert(fmt): (fmt, x, bits) *)
Definition chk_convert (hp_sube : Z) := both
  (fun c : Z * fpnum * Z => let '(k, x, r) := c in FPNum_convert (ffmt hp_sube k) x =? r)
  (fun c => true).
(* ---- arithmetic: (a, b, a+b, a-b, a*b, compare) *)
Definition fin (x : fpnum) : bool := negb (f_inf x) && negb (f_nan x).
Definition chk_arith (inf_fix zero_fix : bool) := both
  (fun c : fpnum * fpnum * fpnum * fpnum * fpnum * Z => let '(a, b, r1, r2, r3, r4) := c in
     fp_eqb (FPNum_add a b) r1 && fp_eqb (FPNum_sub a b) r2 && fp_eqb (FPNum_mul a b) r3 && (FPNum_compare_with inf_fix zero_fix a b =? r4))
  (fun c => let '(a, b, r1, r2, r3, r4) := c in
     xeqb (xval r1) (xadd (xval a) (xval b)) && xeqb (xval r2) (xsub (xval a) (xval b)) &&
     (negb (fin a && fin b) || xeqb (xval r3) (xmul_fin (xval a) (xval b))) &&
     (r4 =? xcmpZ (xval a) (xval b))).
(* ---- FPNum(float): (x, components) *)
Definition of_pyfloat (x : pyfloat) : fpnum :=
  match x with PNaN => FPNum_of_nan | PInf neg => FPNum_of_inf neg | PFin neg n d => FPNum_of_finite neg n d end.
Definition chk_of_float := both
  (fun c : pyfloat * fpnum => let '(x, r) := c in fp_eqb (of_pyfloat x) r)
  (fun c => let '(x, r) := c in xs_eqb (xval r) (f_s r <? 0) (pf_value x) (pf_neg x)).
(* ---- sp/dp_to_ieee754(_parts): (fmt, x, bits, parts) *)
Definition chk_encode (sp_zero_sign : bool) := both
  (fun c : Z * pyfloat * Z * (Z * Z * Z) => let '(k, x, r, parts) := c in
     (FPH_to_ieee754 (hfmt sp_zero_sign k) x =? r) && t3_eqb (FPH_to_parts (hfmt sp_zero_sign k) x) parts)
  (fun c => true).
(* ---- fp_to_parts on a finite non-zero float: (x, s, e, numerator and log2 of the denominator of m) *)
Definition chk_parts := both
  (fun c : pyfloat * Z * Z * Z * Z => let '(x, s, e, mn, md) := c in
     match x with
     | PFin neg n d => (b2z neg =? s) && (fp_to_parts_e n d =? e) && Qeq_bool (fp_to_parts_m n d) (inject_Z mn * two_pow (- md))
     | _ => false
     end)
  (fun c => let '(x, s, e, mn, md) := c in       (* 1 <= m < 2 and (-1)^s * m * 2^e = x *)
     (2 ^ md <=? mn) && (mn <? 2 ^ (md + 1)) &&
     xeqb (pf_value x) (XFin (sgnq (s =? 1) * (inject_Z mn * two_pow (e - md))))).
(* ---- ieee754_to_sp/dp: (fmt, v, float) *)
Definition chk_fph_decode := both
  (fun c : Z * Z * pyfloat => let '(k, v, r) := c in pf_eqb (FPH_from_ieee754 (hfmt false k) v) r)
  (fun c => let '(k, v, r) := c in let '(ew, mw) := ewmw k in xs_eqb (pf_value r) (pf_neg r) (ieee_value ew mw v) (ieee_neg ew mw v)).
(* ---- reducePrecision / reducePrecisionWithRounding / neg / abs / div2: (x, prec, r1, r2, neg, abs, div2 prec) *)
Definition chk_misc := both
  (fun c : fpnum * Z * fpnum * fpnum * fpnum * fpnum * fpnum => let '(x, prec, r1, r2, r3, r4, r5) := c in
     fp_eqb (FPNum_reducePrecision x prec) r1 && fp_eqb (FPNum_reducePrecisionWithRounding x prec) r2 &&
     fp_eqb (FPNum_neg x) r3 && fp_eqb (FPNum_abs x) r4 && fp_eqb (FPNum_div2 x prec) r5)
  (fun c => true).

(* ---- reduceExponentPrecision (only when the implementation no longer raises): (x, prec, result) *)
Definition chk_redexp := both
  (fun c : fpnum * Z * fpnum => let '(x, prec, r) := c in fp_eqb (FPNum_reduceExponentPrecision x prec) r)
  (fun c => let '(x, prec, r) := c in
     Qeq_bool (fval r) (fval x) && Bool.eqb (f_inf r) (f_inf x || (f_e x + (2 ^ prec - 1) / 2 >=? 2 ^ prec - 1))).
