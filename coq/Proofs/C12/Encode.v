(* C12 — FloatingPointHelper.sp/dp_to_ieee754 after ieee754_to_sp/dp (models over dyadic rationals): every non-NaN
   pattern comes back (with the sign of zero only where the helper keeps it: finding #16 for single precision). *)
From V Require Import Base.Bits Spec.C12 Model.HelperInt Model.FPHelper Proofs.C12.Int Proofs.C12.QFacts Proofs.C12.FPH.
From Coq Require Import QArith Qpower Qfield Qround Morphisms.
Open Scope Z_scope.

(* ------------------------------------------------------------------ round-half-even on an integer value *)
Lemma rne_int q z : (q == inject_Z z)%Q -> rne q = z.
Proof.
  intros E. unfold rne. rewrite (Qfloor_comp _ _ E), Qfloor_Z.
  assert (D : (q - inject_Z z == 0)%Q) by (rewrite E; ring).
  rewrite (Qcompare_comp _ _ D (1 # 2) (1 # 2) (Qeq_refl _)). reflexivity.
Qed.

(* ------------------------------------------------------------------ the mantissa fp_to_parts extracts *)
Lemma log2_exact M a : 0 <= a -> 2 ^ a <= M < 2 ^ (a + 1) -> Z.log2 M = a.
Proof. intros Ha HM. apply Z.log2_unique; [lia|]. rewrite Z.pow_succ_r by lia. rewrite Z.pow_add_r in HM by lia. change (2 ^ 1) with 2 in HM. lia. Qed.

Lemma parts_m_scaled M k : 0 < M -> 0 <= k ->
  (fp_to_parts_m (M * 2 ^ k) 0 == inject_Z M * two_pow (- Z.log2 M))%Q /\ fp_to_parts_e (M * 2 ^ k) 0 = Z.log2 M + k.
Proof.
  intros HM Hk. unfold fp_to_parts_m, fp_to_parts_e. rewrite Z.log2_mul_pow2 by lia. split; [|lia].
  rewrite inject_Z_mult, <- (two_pow_Z k) by lia.
  replace (- (k + Z.log2 M)) with (- k + - Z.log2 M) by lia. rewrite two_pow_add, two_pow_opp.
  field. apply two_pow_nz.
Qed.

Section E.
Variables ew mw nanm : Z.
Variable zs : bool.
Hypothesis Hew : 2 <= ew.
Hypothesis Hmw : 1 <= mw.
Let H := fph_std ew mw nanm zs.
Let bias := 2 ^ (ew - 1) - 1.

Lemma bias_facts : 1 <= bias /\ 2 * bias + 1 = 2 ^ ew - 1.
Proof.
  unfold bias. rewrite (pow2_split ew) by lia. pose proof (pow2_le 1 (ew - 1) ltac:(lia)). change (2 ^ 1) with 2 in *. lia.
Qed.

(* encoding a finite non-zero double whose mantissa/exponent are those of a NORMAL pattern (e, m) *)
Lemma encode_normal neg n d e m : 0 < e < 2 ^ ew - 1 -> 0 <= m < 2 ^ mw -> 0 < n ->
  fp_to_parts_e n d = e - bias -> (fp_to_parts_m n d == inject_Z (2 ^ mw + m) * two_pow (- mw))%Q ->
  FPH_to_parts H (PFin neg n d) = (b2z neg, e, m).
Proof.
  intros He Hm Hn Ee Em. destruct bias_facts as [Hb1 Hb2]. pose proof (pow2_pos mw ltac:(lia)) as Pm.
  unfold FPH_to_parts, H, fph_std; cbn [H_lay H_bias H_mw H_nanm H_zero_sign]. fold bias.
  replace (n =? 0) with false by lia. cbv zeta. rewrite Ee.
  replace (e - bias >=? bias + 1) with false by lia. replace (e - bias <=? - bias) with false by lia.
  rewrite shl1 by lia.
  assert (R : rne ((fp_to_parts_m n d - 1) * inject_Z (2 ^ mw)) = m).
  { apply rne_int. rewrite Em. rewrite two_pow_opp, (two_pow_Z mw) by lia. rewrite inject_Z_plus.
    field. apply inject_pow2_nz; lia. }
  rewrite R. replace (m >=? 2 ^ mw) with false by lia. rewrite R. f_equal. f_equal. lia.
Qed.

(* ... and those of a SUBNORMAL pattern (0, m), m > 0: value m * 2^(1 - bias - mw) *)
Lemma encode_subnormal neg n d m : 0 < m < 2 ^ mw -> 0 < n ->
  fp_to_parts_e n d = Z.log2 m + (1 - bias - mw) -> (fp_to_parts_m n d == inject_Z m * two_pow (- Z.log2 m))%Q ->
  FPH_to_parts H (PFin neg n d) = (b2z neg, 0, m).
Proof.
  intros Hm Hn Ee Em. destruct bias_facts as [Hb1 Hb2]. pose proof (pow2_pos mw ltac:(lia)) as Pm.
  assert (Hl : 0 <= Z.log2 m < mw).
  { split; [apply Z.log2_nonneg|]. apply Z.log2_lt_pow2; lia. }
  unfold FPH_to_parts, H, fph_std; cbn [H_lay H_bias H_mw H_nanm H_zero_sign]. fold bias.
  replace (n =? 0) with false by lia. cbv zeta. rewrite Ee.
  replace (Z.log2 m + (1 - bias - mw) >=? bias + 1) with false by lia.
  replace (Z.log2 m + (1 - bias - mw) <=? - bias) with true by lia.
  rewrite shl1 by lia. f_equal. apply rne_int. rewrite Em.
  rewrite <- (two_pow_Z (mw - 1)) by lia. rewrite <- !Qmult_assoc. rewrite <- !two_pow_add.
  replace (- Z.log2 m + (- (- bias - (Z.log2 m + (1 - bias - mw))) + (mw - 1))) with 0 by lia.
  rewrite two_pow_0. ring.
Qed.

Lemma b2z_bit s : 0 <= s <= 1 -> b2z (s =? 1) = s.
Proof. intros. assert (s = 0 \/ s = 1) as [-> | ->] by lia; reflexivity. Qed.

Lemma encode_decode v : 0 <= v < 2 ^ (1 + ew + mw) ->
  (fld_e ew mw v = 2 ^ ew - 1 -> fld_m ew mw v = 0) ->          (* not a NaN *)
  (zs = true \/ v <> 2 ^ (ew + mw)) ->                            (* -0.0 only if the helper keeps the sign of zero *)
  FPH_to_ieee754 H (FPH_from_ieee754 H v) = v.
Proof.
  intros Hv Hnan Hz. destruct bias_facts as [Hb1 Hb2].
  destruct (fld_ranges' ew mw ltac:(lia) ltac:(lia) v) as (Hs & He & Hm).
  pose proof (pow2_pos ew ltac:(lia)) as Pe. pose proof (pow2_pos mw ltac:(lia)) as Pm.
  pose proof (pack_unpack_id ew mw v ltac:(lia) ltac:(lia) Hv) as PK. rewrite unpack_fields, pack_compose in PK by lia.
  rewrite !Z.mod_small in PK by lia.
  unfold FPH_to_ieee754, FPH_from_ieee754.
  destruct (Z.eqb_spec v 0) as [-> | Nz].
  { unfold FPH_to_parts. cbn [Z.eqb]. destruct (H_zero_sign H); cbn [b2z]; unfold FPH_assemble, py_shl; rewrite !Z.shiftl_0_l; reflexivity. }
  change (H_lay H) with (std_layout ew mw). change (H_bias H) with bias. rewrite (fph_unpack_eq ew mw v ltac:(lia) ltac:(lia) Hv).
  rewrite (unpack_fields ew mw v ltac:(lia) ltac:(lia)). rewrite Hb2.
  set (s := fld_s ew mw v) in *. set (e := fld_e ew mw v) in *. set (m := fld_m ew mw v) in *.
  assert (AS : forall e' m', 0 <= e' < 2 ^ ew -> 0 <= m' < 2 ^ mw -> FPH_assemble (std_layout ew mw) s e' m' = ieee_compose ew mw s e' m').
  { intros. apply fph_assemble_compose; lia. }
  destruct (Z.eqb_spec e (2 ^ ew - 1)) as [Ee | Ne].
  - (* infinity *)
    rewrite (Hnan Ee). cbn [Z.eqb]. unfold FPH_to_parts. change (H_bias H) with bias. rewrite Hb2, b2z_bit by lia.
    rewrite AS by lia. rewrite <- PK, Ee, (Hnan Ee). reflexivity.
  - unfold FPH_parts_to_float. change (H_bias H) with bias. change (H_mw H) with mw.
    destruct (Z.eqb_spec e 0) as [E0 | N0].
    + destruct (Z.eqb_spec m 0) as [M0 | NM]; cbn [andb].
      * (* minus zero *)
        assert (S1 : s = 1).
        { destruct (Z.eq_dec s 1); [assumption|]. exfalso. apply Nz. rewrite <- PK. replace s with 0 by lia. rewrite E0, M0. reflexivity. }
        assert (V1 : v = 2 ^ (ew + mw)).
        { rewrite <- PK, S1, E0, M0. unfold ieee_compose. rewrite Z.pow_add_r by lia. ring. }
        destruct Hz as [Hz | Hz]; [|contradiction]. rewrite S1. cbn [Z.eqb Pos.eqb].
        unfold FPH_to_parts. change (H_zero_sign H) with zs. cbn [Z.eqb]. rewrite Hz. cbn [b2z].
        rewrite fph_assemble_compose by lia. rewrite V1. unfold ieee_compose. rewrite Z.pow_add_r by lia. ring.
      * (* subnormal *)
        assert (K : (1 - bias - mw >=? 0) = false) by lia. rewrite K. rewrite odd_bit by lia.
        rewrite (encode_subnormal (s =? 1) m (- (1 - bias - mw)) m)
          by first [lia | unfold fp_to_parts_e; lia | unfold fp_to_parts_m; reflexivity].
        rewrite b2z_bit by lia. rewrite AS by lia. rewrite <- PK, E0. reflexivity.
    + (* normal *)
      cbn [andb]. rewrite shl1 by lia.
      assert (HL : Z.lor (2 ^ mw) m = 2 ^ mw + m).
      { pose proof (lor_add_disjoint 1 m mw ltac:(lia) ltac:(lia)) as L. rewrite Z.shiftl_1_l in L. lia. }
      rewrite HL. rewrite odd_bit by lia.
      assert (LG : Z.log2 (2 ^ mw + m) = mw) by (apply log2_exact; [lia | rewrite Z.pow_add_r by lia; change (2 ^ 1) with 2; lia]).
      destruct (Z.geb_spec (e - bias - mw) 0) as [K | K].
      * destruct (parts_m_scaled (2 ^ mw + m) (e - bias - mw) ltac:(lia) K) as [PM PE]. rewrite LG in PM, PE.
        rewrite (encode_normal (s =? 1) _ 0 e m)
          by first [lia | assumption | pose proof (pow2_pos (e - bias - mw) K); nia].
        rewrite b2z_bit by lia. rewrite AS by lia. exact PK.
      * rewrite (encode_normal (s =? 1) _ _ e m)
          by first [lia | unfold fp_to_parts_e; rewrite LG; lia | unfold fp_to_parts_m; rewrite LG; reflexivity].
        rewrite b2z_bit by lia. rewrite AS by lia. exact PK.
Qed.
End E.

Lemma encode_decode_dp v : 0 <= v < 2 ^ 64 -> (fld_e 11 52 v = 2047 -> fld_m 11 52 v = 0) ->
  FPH_to_ieee754 fph_dp (FPH_from_ieee754 fph_dp v) = v.
Proof. intros Hv Hn. rewrite (proj2 fphs_std). apply encode_decode; first [lia | exact Hn | left; reflexivity]. Qed.

Lemma encode_decode_sp v : 0 <= v < 2 ^ 32 -> (fld_e 8 23 v = 255 -> fld_m 8 23 v = 0) ->
  FPH_to_ieee754 fph_sp (FPH_from_ieee754 fph_sp v) = v.
Proof. intros Hv Hn. unfold fph_sp. rewrite (proj1 fphs_std true). apply encode_decode; first [lia | exact Hn | left; reflexivity]. Qed.

(* HISTORY (finding #16, repaired by 8d56487): sp_to_ieee754_parts returned (0,0,0) for every zero: -0.0 encoded as 0 *)
Lemma encode_sp_neg_zero_before :
  FPH_to_ieee754 fph_sp_before_8d56487 (PFin true 0 0) = 0 /\ FPH_to_ieee754 fph_sp (PFin true 0 0) = 2 ^ 31 /\
  FPH_from_ieee754 fph_sp (2 ^ 31) = PFin true 0 0.
Proof. vm_compute. repeat split. Qed.

(* ------------------------------------------------------------------ representation independence: any (n, d) with the same value *)
Lemma dyadic_parts n d M k : 0 < n -> 0 < M -> (inject_Z n * two_pow (- d) == inject_Z M * two_pow k)%Q ->
  fp_to_parts_e n d = Z.log2 M + k /\ (fp_to_parts_m n d == inject_Z M * two_pow (- Z.log2 M))%Q.
Proof.
  intros Hn HM Hq. set (A := Z.abs d + Z.abs k).
  assert (Hz : n * 2 ^ (A - d) = M * 2 ^ (A + k)).
  { apply inject_Z_injective. rewrite !inject_Z_mult, <- !two_pow_Z by (unfold A; lia).
    unfold Z.sub. rewrite !two_pow_add.
    transitivity ((inject_Z n * two_pow (- d)) * two_pow A)%Q; [ring|]. rewrite Hq. ring. }
  assert (Hl : Z.log2 n - d = Z.log2 M + k).
  { pose proof (Z.log2_mul_pow2 n (A - d) Hn ltac:(unfold A; lia)) as L1.
    pose proof (Z.log2_mul_pow2 M (A + k) HM ltac:(unfold A; lia)) as L2. rewrite Hz in L1. lia. }
  split; [exact Hl|]. unfold fp_to_parts_m.
  assert (Hn' : (inject_Z n == inject_Z M * two_pow (k + d))%Q).
  { rewrite two_pow_add, Qmult_assoc, <- Hq, <- Qmult_assoc, <- two_pow_add. replace (- d + d) with 0 by lia. rewrite two_pow_0. ring. }
  rewrite Hn', <- Qmult_assoc, <- two_pow_add. replace (k + d + - Z.log2 n) with (- Z.log2 M) by lia. reflexivity.
Qed.

Lemma b2z_bit' s : 0 <= s <= 1 -> b2z (s =? 1) = s.
Proof. intros. assert (s = 0 \/ s = 1) as [-> | ->] by lia; reflexivity. Qed.

Section E2.
Variables ew mw nanm : Z.
Variable zs : bool.
Hypothesis Hew : 2 <= ew.
Hypothesis Hmw : 1 <= mw.
Let H := fph_std ew mw nanm zs.
Let bias := 2 ^ (ew - 1) - 1.

Lemma sgnq_cancel neg p q : (sgnq neg * p == sgnq neg * q)%Q -> (p == q)%Q.
Proof. destruct neg; unfold sgnq; intros E; [apply Qopp_comp in E|]; ring_simplify in E; exact E. Qed.

(* the encoder is exact on every representable value, however the float is written as n / 2^d *)
Lemma encode_exact x v : 0 <= v < 2 ^ (1 + ew + mw) ->
  match x with PNaN => False | PInf _ => True | PFin _ n _ => 0 <= n end ->
  xeq (pf_value x) (ieee_value ew mw v) -> pf_neg x = ieee_neg ew mw v ->
  (zs = true \/ v <> 2 ^ (ew + mw)) ->
  FPH_to_ieee754 H x = v.
Proof.
  intros Hv Hx Hval Hneg Hz. destruct (bias_facts ew Hew) as [Hb1 Hb2]. fold bias in Hb1, Hb2.
  destruct (fld_ranges' ew mw ltac:(lia) ltac:(lia) v) as (Hs & He & Hm).
  pose proof (pow2_pos ew ltac:(lia)) as Pe. pose proof (pow2_pos mw ltac:(lia)) as Pm.
  pose proof (pack_unpack_id ew mw v ltac:(lia) ltac:(lia) Hv) as PK. rewrite unpack_fields, pack_compose in PK by lia.
  rewrite !Z.mod_small in PK by lia.
  unfold ieee_value, ieee_neg in *. cbv zeta in Hval.
  set (s := fld_s ew mw v) in *. set (e := fld_e ew mw v) in *. set (m := fld_m ew mw v) in *.
  assert (AS : forall s' e' m', 0 <= e' < 2 ^ ew -> 0 <= m' < 2 ^ mw -> FPH_assemble (std_layout ew mw) s' e' m' = ieee_compose ew mw s' e' m').
  { intros. apply fph_assemble_compose; lia. }
  unfold FPH_to_ieee754. change (H_lay H) with (std_layout ew mw).
  destruct x as [|neg|neg n d]; [contradiction| |].
  - (* infinity *)
    cbn [pf_value pf_neg] in *. destruct (Z.eqb_spec e (2 ^ ew - 1)) as [Ee | Ne]; [|contradiction].
    destruct (Z.eqb_spec m 0) as [M0 | NM]; [|contradiction]. cbn [xeq] in Hval.
    unfold FPH_to_parts. change (H_bias H) with bias. rewrite Hb2. rewrite Hneg, (b2z_bit' s Hs).
    rewrite AS by lia. rewrite <- PK, Ee, M0. reflexivity.
  - cbn [pf_value pf_neg] in *. destruct (Z.eqb_spec e (2 ^ ew - 1)) as [Ee | Ne].
    { destruct (m =? 0); contradiction. }
    cbn [xeq] in Hval. rewrite <- Hneg in Hval. apply sgnq_cancel in Hval.
    destruct (Z.eq_dec n 0) as [N0 | NN].
    + (* zero *)
      subst n. assert (Z0 : (ieee_mag ew mw e m == 0)%Q) by (rewrite <- Hval; change (inject_Z 0) with 0%Q; ring).
      assert (EM : e = 0 /\ m = 0).
      { unfold ieee_mag in Z0. destruct (Z.eqb_spec e 0) as [E0 | NE0].
        - split; [assumption|]. apply Qmult_integral in Z0 as [Z0 | Z0]; [|exfalso; exact (two_pow_nz _ Z0)].
          unfold Qeq, inject_Z in Z0; simpl in Z0. lia.
        - exfalso. apply Qmult_integral in Z0 as [Z0 | Z0]; [|exact (two_pow_nz _ Z0)].
          unfold Qeq, inject_Z in Z0; simpl in Z0. lia. }
      destruct EM as [E0 M0]. unfold FPH_to_parts. cbn [Z.eqb]. change (H_zero_sign H) with zs.
      assert (V1 : v = s * 2 ^ (ew + mw)) by (rewrite <- PK, E0, M0; unfold ieee_compose; rewrite Z.pow_add_r by lia; ring).
      destruct zs.
      * rewrite Hneg, (b2z_bit' s Hs). rewrite AS by lia. rewrite <- PK, E0, M0. reflexivity.
      * destruct Hz as [Hz | Hz]; [discriminate|]. assert (s = 0) by (destruct (Z.eq_dec s 0); [assumption | exfalso; apply Hz; rewrite V1; replace s with 1 by lia; ring]).
        rewrite AS by lia. rewrite V1. replace s with 0 by lia. unfold ieee_compose. ring.
    + (* finite, non-zero *)
      assert (Hn : 0 < n) by lia. unfold ieee_mag in Hval.
      destruct (Z.eqb_spec e 0) as [E0 | NE0].
      * assert (Mpos : 0 < m).
        { destruct (Z.eq_dec m 0) as [M0 | NM]; [|lia]. exfalso. rewrite M0 in Hval. change (inject_Z 0) with 0%Q in Hval. rewrite Qmult_0_l in Hval.
          apply Qmult_integral in Hval as [Z0 | Z0]; [|exact (two_pow_nz _ Z0)]. unfold Qeq, inject_Z in Z0; simpl in Z0. lia. }
        destruct (dyadic_parts n d m (1 - ieee_bias ew - mw) Hn Mpos Hval) as [PE PM].
        unfold H. rewrite (encode_subnormal ew mw nanm zs Hew Hmw neg n d m) by first [lia | unfold ieee_bias in PE; exact PE | exact PM].
        rewrite Hneg, (b2z_bit' s Hs). rewrite AS by lia. rewrite <- PK, E0. reflexivity.
      * assert (LG : Z.log2 (2 ^ mw + m) = mw) by (apply log2_exact; [lia | rewrite Z.pow_add_r by lia; change (2 ^ 1) with 2; lia]).
        destruct (dyadic_parts n d (2 ^ mw + m) (e - ieee_bias ew - mw) Hn ltac:(lia) Hval) as [PE PM]. rewrite LG in PE, PM.
        unfold H. rewrite (encode_normal ew mw nanm zs Hew Hmw neg n d e m) by first [lia | unfold ieee_bias in PE; lia | exact PM].
        rewrite Hneg, (b2z_bit' s Hs). rewrite AS by lia. exact PK.
Qed.
End E2.

Lemma encode_exact_dp x v : 0 <= v < 2 ^ 64 ->
  match x with PNaN => False | PInf _ => True | PFin _ n _ => 0 <= n end ->
  xeq (pf_value x) (ieee_value 11 52 v) -> pf_neg x = ieee_neg 11 52 v -> FPH_to_ieee754 fph_dp x = v.
Proof. intros. rewrite (proj2 fphs_std). apply encode_exact; first [lia | assumption | left; reflexivity]. Qed.

Lemma encode_exact_sp x v : 0 <= v < 2 ^ 32 ->
  match x with PNaN => False | PInf _ => True | PFin _ n _ => 0 <= n end ->
  xeq (pf_value x) (ieee_value 8 23 v) -> pf_neg x = ieee_neg 8 23 v -> FPH_to_ieee754 fph_sp x = v.
Proof. intros. unfold fph_sp. rewrite (proj1 fphs_std true). apply encode_exact; first [lia | assumption | left; reflexivity]. Qed.
