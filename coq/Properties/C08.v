(* C08 — logic, selection and comparison blocks implement their truth tables exactly.
   Statements only; proofs in Proofs/C08/*.v.
   Left-hand sides: Model/StructLogic.v — every block as the composition of the REGENERATED primitives (Gen/Prims.v)
   that its constructor instantiates.  Right-hand sides: Spec/C08.v.  `fits w v` = 0 <= v < 2^w (what C06 guarantees for a
   wire of width w); `is_bit v` = v is 0 or 1.  All widths, arities, constants and inputs are universally quantified. *)
From V Require Import Base.Bits Gen.WireOps Gen.Prims Spec.C08 Model.StructLogic Proofs.C08.All.
From V Require Import Model.SimKernel Spec.C04 Proofs.C08.PrioWide Proofs.C08.Netlist.
From V Require Proofs.C08.NetlistDump.

(* Width formulas.  Xor2's internal wires are `mid wa wb wr` bits wide and Equal's xor wire `eqw wa wb` bits; the models take the formulas
   as parameters and the check PROBES them on the real blocks.  The headline theorems below are stated for the formulas of the current /repo
   (mid_max, eqw_max: after the repairs c94f404 / 3260a32) and carry no width guard; the check requires the probe to find exactly these
   (anything else is a broken obligation, and the sweep over mixed widths then produces the failing input).  The `_any_policy` theorems
   are the formula-generic statements the headlines are instances of.  Statements about the pre-repair formulas live only in the history
   section at the end. *)
(* ------------------------------------------------------------------ 1- and 2-input gates (r of width w) *)
Theorem C08_buf : forall w a, 0 <= w -> Buf_m w a = buf_spec w a.
Proof. exact Buf_correct. Qed.
Theorem C08_not : forall w a, 0 <= w -> Not_m w a = not_spec w a.
Proof. exact Not_correct. Qed.
Theorem C08_constant : forall w c, 0 <= w -> Constant_m w c = constant_spec w c.
Proof. exact Constant_correct. Qed.
Theorem C08_and2 : forall w a b, 0 <= w -> And2_m w a b = and2_spec w a b.
Proof. exact And2_correct. Qed.
Theorem C08_or2 : forall w a b, 0 <= w -> Or2_m w a b = or2_spec w a b.
Proof. exact Or2_correct. Qed.
(* Nand2 / Nor2 / Xor2 have internal wires of a's width wa *)
Theorem C08_nand2 : forall wa wr a b, 0 <= wa -> 0 <= wr -> fits wa a -> Nand2_m wa wr a b = nand2_spec wr a b.
Proof. exact Nand2_correct. Qed.
Theorem C08_nor2 : forall wa wr a b, 0 <= wa -> 0 <= wr -> fits wa a -> fits wa b -> Nor2_m wa wr a b = nor2_spec wr a b.
Proof. exact Nor2_correct. Qed.
(* Xor2 = four NANDs, internal wires as wide as the widest of a, b, r: a ^ b for ANY three widths *)
Theorem C08_xor2 : forall wa wb wr a b, 0 <= wa -> 0 <= wb -> 0 <= wr -> fits wa a -> fits wb b ->
  Xor2_m mid_max wa wb wr a b = xor2_spec wr a b.
Proof. exact Xor2_correct_max. Qed.
(* formula-generic: exact whenever the result is no wider than the internal wires; and what is computed in general *)
Theorem C08_xor2_any_policy : forall mid wa wb wr a b, 0 <= wa -> 0 <= wb -> 0 <= wr <= mid wa wb wr -> fits wa a -> fits wb b ->
  Xor2_m mid wa wb wr a b = xor2_spec wr a b.
Proof. exact Xor2_correct. Qed.
Theorem C08_xor2_general : forall mid wa wb wr a b, 0 <= wa -> 0 <= wb -> 0 <= wr -> 0 <= mid wa wb wr -> fits wa a -> fits wb b ->
  Xor2_m mid wa wb wr a b = trunc wr (Z.lnot (trunc (mid wa wb wr) (Z.lnot (Z.lxor a b)))).
Proof. exact Xor2_general. Qed.

(* ------------------------------------------------------------------ n-input gates: EVERY arity (>= 1; >= 2 for Xor), every width *)
Theorem C08_and : forall w ins, 0 <= w -> ins <> [] -> And_m w ins = and_spec w ins.
Proof. exact And_correct. Qed.
Theorem C08_or : forall w ins, 0 <= w -> ins <> [] -> Or_m w ins = or_spec w ins.
Proof. exact Or_correct. Qed.
Theorem C08_xor : forall wi w ins, 0 <= w -> 0 <= wi -> (2 <= length ins)%nat -> Forall (fits wi) ins -> Xor_m mid_max wi w ins = xor_spec w ins.
Proof. exact Xor_correct_max. Qed.
Theorem C08_xor_any_policy : forall mid wi w ins, 0 <= w -> 0 <= wi -> w <= mid wi wi w -> w <= mid w wi w -> (2 <= length ins)%nat ->
  Forall (fits wi) ins -> Xor_m mid wi w ins = xor_spec w ins.
Proof. exact Xor_correct. Qed.
Theorem C08_nor : forall w0 wr ins, 0 <= w0 -> 0 <= wr -> ins <> [] -> Forall (fits w0) ins -> Nor_m w0 wr ins = nor_spec wr ins.
Proof. exact Nor_correct. Qed.
Theorem C08_andbits : forall wa wr a, 1 <= wa -> 1 <= wr -> fits wa a -> AndBits_m wa wr a = andbits_spec wa a.
Proof. exact AndBits_correct. Qed.
Theorem C08_orbits : forall wa wr a, 1 <= wa -> 1 <= wr -> fits wa a -> OrBits_m wa wr a = orbits_spec a.
Proof. exact OrBits_correct. Qed.
Example C08_gates_ex : And_m 3 [7; 6; 3; 7; 2] = 2 /\ Or_m 2 [1] = 1 /\ Xor_m mid_max 3 3 [5; 3; 6; 1] = 1 /\ Xor_m mid_max 1 3 [1; 1; 1] = 1 /\ Nor_m 2 2 [1; 0; 1] = 2 /\
  AndBits_m 4 1 15 = 1 /\ OrBits_m 4 1 8 = 1 /\ Xor2_m mid_max 4 4 4 12 10 = 6 /\ Xor2_m mid_max 1 1 2 0 0 = 0 /\ Xor2_m mid_max 1 2 2 1 2 = 3 /\ Nand2_m 2 2 3 1 = 2.
Proof. vm_compute. repeat split; reflexivity. Qed.

(* ------------------------------------------------------------------ bit manipulation *)
Theorem C08_bit : forall i a, 0 <= i -> Bit_m 1 i a = bit_spec a i.
Proof. exact Bit_correct. Qed.
Theorem C08_range : forall hi lo a, 0 <= lo <= hi -> Range_m (hi - lo + 1) hi lo a = range_spec hi lo a.
Proof. exact Range_correct. Qed.
Theorem C08_bits_lsbf : forall wa a, 0 <= wa -> BitsLSBF_m wa a = bits_lsbf_spec wa a.
Proof. exact BitsLSBF_correct. Qed.
Theorem C08_bits_msbf : forall wa a, 0 <= wa -> BitsMSBF_m wa a = bits_msbf_spec wa a.
Proof. exact BitsMSBF_correct. Qed.
Theorem C08_repeat : forall w i, 0 <= w -> Repeat_m w i = replicate_spec w i.
Proof. exact Repeat_correct. Qed.
Theorem C08_bufenable : forall w a en, 0 <= w -> BufEnable_m w a en = bufenable_spec w a en.
Proof. exact BufEnable_correct. Qed.
(* items are (width, value) with the value inside its width; the result is cut to the result wire, and is exact when it is wide enough *)
Theorem C08_concatenate_msbf : forall wr ins, 0 <= wr -> Forall item_ok ins -> ConcatenateMSBF_m wr ins = msbf_spec ins mod 2 ^ wr.
Proof. exact ConcatenateMSBF_correct. Qed.
Theorem C08_concatenate_lsbf : forall wr ins, 0 <= wr -> Forall item_ok ins -> ConcatenateLSBF_m wr ins = lsbf_spec ins mod 2 ^ wr.
Proof. exact ConcatenateLSBF_correct. Qed.
Theorem C08_concatenate_msbf_exact : forall wr ins, Forall item_ok ins -> total_width ins <= wr -> ConcatenateMSBF_m wr ins = msbf_spec ins.
Proof. exact ConcatenateMSBF_exact. Qed.
Theorem C08_concatenate_lsbf_exact : forall wr ins, Forall item_ok ins -> total_width ins <= wr -> ConcatenateLSBF_m wr ins = lsbf_spec ins.
Proof. exact ConcatenateLSBF_exact. Qed.
Example C08_bits_ex : BitsLSBF_m 4 10 = [0; 1; 0; 1] /\ BitsMSBF_m 4 10 = [1; 0; 1; 0] /\ Range_m 3 5 3 0xE8 = 5 /\
  ConcatenateMSBF_m 6 [(1, 1); (2, 2); (3, 5)] = 53 /\ ConcatenateLSBF_m 6 [(1, 1); (2, 2); (3, 5)] = 45 /\
  Forall item_ok [(1, 1); (2, 2); (3, 5)].
Proof. vm_compute. repeat split; try reflexivity. repeat constructor; cbn; try discriminate; reflexivity. Qed.

(* ------------------------------------------------------------------ selection *)
Theorem C08_mux2 : forall w sel s0 s1, 0 <= w -> Mux2_m w sel s0 s1 = mux2_spec w sel s0 s1.
Proof. exact Mux2_correct. Qed.
(* the tree over k = wsel select bits returns input number sel, for EVERY k *)
Theorem C08_mux : forall wsel wr sel ins, 1 <= wsel -> 0 <= wr -> fits wsel sel -> Z.of_nat (length ins) = 2 ^ wsel ->
  Mux_m wsel wr sel ins = mux_spec wr sel ins.
Proof. exact Mux_correct. Qed.
Theorem C08_decoder : forall wa n a, 1 <= wa -> fits wa a -> 0 <= n <= 2 ^ wa -> Decoder_m wa n a = decoder_spec n a.
Proof. exact Decoder_correct. Qed.
Theorem C08_demux : forall wa wsel a sel, 0 <= wa -> 1 <= wsel -> fits wa a -> fits wsel sel ->
  Demux_m wa wsel a sel = demux_spec wsel a sel.
Proof. exact Demux_correct. Qed.
(* Select and OneHotMux are the same construction: OR of the inputs whose select is non-zero (no one-hot assumption) *)
Theorem C08_onehot_mux : forall wi wr sels ins, 0 <= wi -> 0 <= wr -> sels <> [] -> length sels = length ins -> Forall (fits wi) ins ->
  OneHotMux_m wi wr sels ins = onehot_mux_spec wr sels ins.
Proof. exact OneHotMux_correct. Qed.
Theorem C08_select : forall wi wr sels ins, 0 <= wi -> 0 <= wr -> sels <> [] -> length sels = length ins -> Forall (fits wi) ins ->
  Select_m wi wr sels ins = onehot_mux_spec wr sels ins.
Proof. exact OneHotMux_correct. Qed.
Theorem C08_onehot_mux_selected : forall wi wr sels ins k, 0 <= wi -> 0 <= wr -> length sels = length ins -> (k < length sels)%nat ->
  Forall (fits wi) ins -> (forall j, (j < length sels)%nat -> nth j sels 0 = if Nat.eqb j k then 1 else 0) ->
  OneHotMux_m wi wr sels ins = nth k ins 0 mod 2 ^ wr.
Proof. exact OneHotMux_selected. Qed.
Theorem C08_onehot_demux : forall wa wo a sels, 0 <= wo -> 0 <= wa -> fits wa a ->
  OneHotDemux_m wa wo a sels = onehot_demux_spec wo a sels.
Proof. exact OneHotDemux_correct. Qed.
(* the first asserted select wins, else the default *)
Theorem C08_select_default : forall wr sels ins d, 0 <= wr -> sels <> [] -> length sels = length ins ->
  SelectDefault_m wr sels ins d = select_default_spec wr sels ins d.
Proof. exact SelectDefault_correct. Qed.
(* both directions; inc_priority = true gives priority to the HIGHEST index (test + in-code comment; the docstring says the opposite) *)
Theorem C08_priority_encoder : forall inc a, Forall is_bit a -> PriorityEncoder_m 1 inc a = prio_spec inc a.
Proof. exact PriorityEncoder_correct. Qed.
Theorem C08_priority_encoder_at : forall inc a i, Forall is_bit a -> (i < length a)%nat ->
  nth i (PriorityEncoder_m 1 inc a) 0 = b2z ((nth i a 0 =? 1) && all_zero (if inc then skipn (S i) a else firstn i a)).
Proof. exact PriorityEncoder_at. Qed.
(* requests of ANY width w (the constructor accepts every width: only len(a) == len(r) is asserted): the block is the BITWISE priority
   encoder  r_i = a_i & ~(OR of the requests of higher priority), cut to w bits - no guard on the inputs; read per bit position it is w
   independent 1-bit encoders; for 1-bit requests the bitwise function is prio_spec (so C08_priority_encoder is the instance w = 1) *)
Theorem C08_priority_encoder_wide : forall w inc a, 0 <= w ->
  PriorityEncoder_m w inc a =
  map (fun i => Z.land (nth i a 0) (Z.lnot (lor_all (if inc then skipn (S i) a else firstn i a))) mod 2 ^ w) (seq 0 (length a)).
Proof. exact PriorityEncoder_wide. Qed.
Theorem C08_priority_encoder_bit_slice : forall w inc a k, 0 <= k < w ->
  map (fun v => bit v k) (PriorityEncoder_m w inc a) = prio_spec inc (map (fun v => bit v k) a).
Proof. exact PriorityEncoder_bit_slice. Qed.
Theorem C08_priority_encoder_wide_at_1 : forall (inc : bool) a, Forall is_bit a ->
  map (fun i => Z.land (nth i a 0) (Z.lnot (lor_all (if inc then skipn (S i) a else firstn i a))) mod 2 ^ 1) (seq 0 (length a)) = prio_spec inc a.
Proof. exact prio_wide_spec_1. Qed.
(* requests and results of DIFFERENT widths (also accepted): the internal `last` chain has the width w0 of the highest-priority request
   (PriorityEncoderW_m, Proofs/C08/PrioWide.v, items = (width of r_i, value of a_i)); the uniform model is its instance; it is the bitwise
   encoder whenever every request fits w0 bits (stated for inc_priority = False) and NOT otherwise: a wider lower-priority request
   loses its upper bits (replayed on /repo: a = [0 on 1 bit, 2 on 2 bits] gives r = [0, 0]) *)
Theorem C08_priority_encoder_mixed_uniform : forall w inc a, PriorityEncoderW_m w inc (map (pair w) a) = PriorityEncoder_m w inc a.
Proof. exact PriorityEncoderW_uniform. Qed.
Theorem C08_priority_encoder_mixed_partial : forall w0 l, 0 <= w0 -> Forall (fun p => 0 <= fst p /\ fits w0 (snd p)) l ->
  PriorityEncoderW_m w0 false l = prio_mixed_spec false l.
Proof. exact PriorityEncoderW_exact_dec. Qed.
Theorem C08_priority_encoder_mixed_refuted : exists w0 l, Forall (fun p => 0 <= fst p) l /\
  PriorityEncoderW_m w0 false l <> prio_mixed_spec false l.
Proof. exact PriorityEncoderW_mixed_refuted. Qed.
Example C08_priority_encoder_wide_ex : PriorityEncoder_m 3 false [5; 6; 3] = [5; 2; 0] /\ PriorityEncoder_m 3 true [5; 6; 3] = [0; 4; 3] /\
  PriorityEncoderW_m 2 false [(1, 3); (3, 3)] = [1; 0] /\ Forall (fun p => 0 <= fst p /\ fits 2 (snd p)) [(1, 3); (3, 3)].
Proof. vm_compute. repeat split; try reflexivity. repeat constructor; cbn; try discriminate; reflexivity. Qed.
Theorem C08_minterm : forall wr v bits, 1 <= wr -> bits <> [] -> Forall is_bit bits -> Minterm_m wr v bits = minterm_spec v bits.
Proof. exact Minterm_correct. Qed.
Theorem C08_sum_of_minterms : forall wa wr a ms, 1 <= wa -> 1 <= wr -> ms <> [] -> fits wa a ->
  SumOfMinterms_m wa wr a ms = sum_of_minterms_spec wa a ms.
Proof. exact SumOfMinterms_correct. Qed.
Example C08_select_ex : Mux_m 3 4 6 [0; 1; 2; 3; 4; 5; 9; 7] = 9 /\ Demux_m 2 2 3 2 = [0; 0; 3; 0] /\ Decoder_m 2 4 1 = [0; 1; 0; 0] /\
  OneHotMux_m 3 3 [0; 1; 0] [7; 5; 6] = 5 /\ OneHotMux_m 3 3 [1; 1; 0] [1; 4; 2] = 5 /\ SelectDefault_m 3 [0; 1; 1] [1; 2; 3] 7 = 2 /\
  SelectDefault_m 3 [0; 0; 0] [1; 2; 3] 7 = 7 /\ PriorityEncoder_m 1 true [1; 1; 0; 1; 0] = [0; 0; 0; 1; 0] /\
  PriorityEncoder_m 1 false [0; 1; 0; 1; 0] = [0; 1; 0; 0; 0] /\ Minterm_m 1 5 [1; 0; 1] = 1 /\ SumOfMinterms_m 3 1 6 [1; 6] = 1.
Proof. vm_compute. repeat split; reflexivity. Qed.

(* ------------------------------------------------------------------ comparison (outputs are 1-bit wires) *)
(* guard: the constant fits the operand (otherwise only its low wa bits are looked at) *)
Theorem C08_equal_constant : forall wa v a, 1 <= wa -> fits wa a -> fits wa v -> EqualConstant_m wa 1 v a = equal_spec a v.
Proof. exact EqualConstant_correct. Qed.
(* any constant: compared modulo 2^wa *)
Theorem C08_equal_constant_general : forall wa v a, 1 <= wa -> fits wa a -> EqualConstant_m wa 1 v a = b2z (a =? v mod 2 ^ wa).
Proof. exact EqualConstant_general. Qed.
Theorem C08_not_equal_constant : forall wa v a, 1 <= wa -> fits wa a -> fits wa v -> NotEqualConstant_m wa 1 v a = not_equal_spec a v.
Proof. exact NotEqualConstant_correct. Qed.
(* Equal: xor wire as wide as the wider operand, on the Xor2 above: numerical equality for ANY two operand widths *)
Theorem C08_equal : forall wa wb a b, 1 <= wa -> 1 <= wb -> fits wa a -> fits wb b ->
  Equal_m mid_max eqw_max wa wb a b = equal_spec a b.
Proof. exact Equal_correct_max. Qed.
(* formula-generic: numerical equality whenever the xor wire holds both operands and the Xor2 fills it *)
Theorem C08_equal_any_policy : forall mid eqw wa wb a b, 1 <= eqw wa wb -> 0 <= wa <= eqw wa wb -> 0 <= wb <= eqw wa wb ->
  eqw wa wb <= mid wa wb (eqw wa wb) -> fits wa a -> fits wb b -> Equal_m mid eqw wa wb a b = equal_spec a b.
Proof. exact Equal_correct. Qed.
Theorem C08_any_equal : forall w wr ins, 1 <= w -> 1 <= wr -> (2 <= length ins)%nat -> Forall (fits w) ins ->
  AnyEqual_m mid_max eqw_max w wr ins = any_equal_spec ins.
Proof. exact AnyEqual_correct_max. Qed.
Theorem C08_any_equal_any_policy : forall mid eqw w wr ins, 1 <= w -> 1 <= wr -> eqw w w = w -> w <= mid w w w -> (2 <= length ins)%nat ->
  Forall (fits w) ins -> AnyEqual_m mid eqw w wr ins = any_equal_spec ins.
Proof. exact AnyEqual_correct. Qed.
Theorem C08_any_equal_meaning : forall ins, any_equal_spec ins = 1 <->
  exists i j, (i < length ins)%nat /\ (j < length ins)%nat /\ i <> j /\ nth i ins 0 = nth j ins 0.
Proof. exact any_equal_spec_iff. Qed.
(* (gt, eq, lt) = (b < a, a = b, a < b) on naturals, for every width *)
Theorem C08_comparator : forall w a b, 1 <= w -> fits w a -> fits w b -> Comparator_m w a b = cmp_spec a b.
Proof. exact Comparator_correct. Qed.
(* (gtu, eq, ltu, gt, lt): the signed outputs are the order of the two's complement readings, sign boundary included *)
Theorem C08_comparator_signed_unsigned : forall w a b, 1 <= w -> fits w a -> fits w b -> ComparatorSU_m mid_max w a b = cmp_su_spec w a b.
Proof. exact ComparatorSU_correct_max. Qed.
(* formula-generic: all that is needed is that the 1-bit Xor2s on the sign bits are exact *)
Theorem C08_comparator_signed_unsigned_any_policy : forall mid w a b, 1 <= mid 1 1 1 -> 1 <= w -> fits w a -> fits w b ->
  ComparatorSU_m mid w a b = cmp_su_spec w a b.
Proof. exact ComparatorSU_correct. Qed.
Theorem C08_max2 : forall w wr a b, 1 <= w -> 0 <= wr -> fits w a -> fits w b -> Max2_m w wr a b = max2_spec wr a b.
Proof. exact Max2_correct. Qed.
Theorem C08_min2 : forall w wr a b, 1 <= w -> 0 <= wr -> fits w a -> fits w b -> Min2_m w wr a b = min2_spec wr a b.
Proof. exact Min2_correct. Qed.
Theorem C08_signed_max2 : forall w wr a b, 1 <= w -> 0 <= wr -> fits w a -> fits w b -> SignedMax2_m mid_max w wr a b = smax2_spec w wr a b.
Proof. exact SignedMax2_correct_max. Qed.
Theorem C08_signed_min2 : forall w wr a b, 1 <= w -> 0 <= wr -> fits w a -> fits w b -> SignedMin2_m mid_max w wr a b = smin2_spec w wr a b.
Proof. exact SignedMin2_correct_max. Qed.
Theorem C08_signed_max_min_meaning : forall w a b, 1 <= w -> fits w a -> fits w b ->
  sgn w (SignedMax2_m mid_max w w a b) = Z.max (sgn w a) (sgn w b) /\ sgn w (SignedMin2_m mid_max w w a b) = Z.min (sgn w a) (sgn w b).
Proof. exact signed_max_is_max_max. Qed.
Theorem C08_signed_max_min_any_policy : forall mid w wr a b, 1 <= mid 1 1 1 -> 1 <= w -> 0 <= wr -> fits w a -> fits w b ->
  SignedMax2_m mid w wr a b = smax2_spec w wr a b /\ SignedMin2_m mid w wr a b = smin2_spec w wr a b.
Proof. exact (fun mid w wr a b Hm Hw Hwr Ha Hb => conj (SignedMax2_correct mid w wr a b Hm Hw Hwr Ha Hb) (SignedMin2_correct mid w wr a b Hm Hw Hwr Ha Hb)). Qed.
Theorem C08_swap : forall wa wb a b swap, 0 <= wa -> 0 <= wb -> Swap_m wa wb a b swap = swap_spec wa wb a b swap.
Proof. exact Swap_correct. Qed.
Example C08_compare_ex : Comparator_m 4 9 12 = (0, 0, 1) /\ ComparatorSU_m mid_max 4 9 3 = (1, 0, 0, 0, 1) /\ ComparatorSU_m mid_max 4 8 7 = (1, 0, 0, 0, 1) /\
  Max2_m 4 4 9 12 = 12 /\ SignedMax2_m mid_max 4 4 9 3 = 3 /\ SignedMin2_m mid_max 4 4 8 7 = 8 /\ Equal_m mid_max eqw_max 5 5 19 19 = 1 /\ Equal_m mid_max eqw_max 1 2 1 3 = 0 /\ Equal_m mid_max eqw_max 3 1 1 1 = 1 /\ AnyEqual_m mid_max eqw_max 3 1 [1; 5; 2; 5] = 1 /\
  EqualConstant_m 3 1 5 5 = 1 /\ NotEqualConstant_m 1 1 0 0 = 0 /\ Swap_m 3 3 1 6 1 = (6, 1) /\ fits 4 9 /\ fits 4 12.
Proof. vm_compute. repeat split; try reflexivity; discriminate. Qed.

(* ------------------------------------------------------------------ inputs of DIFFERENT widths on one block.
   And / Or / Mux / Mux2 / SelectDefault / Swap / Min / Max only use r's width for their internal wires: the theorems above hold for inputs of
   any widths (no `fits` guard on them, or only on the operands of the comparator).  The blocks below size internal wires from each input:
   they are modelled over (width, value) items; the uniform-width models are instances. *)
(* Nor / Nor2: any width wm of the Mid wire at least r's needs no guard on the inputs; C08_nor / C08_nor2 cover a Mid that holds every input *)
Theorem C08_nor_any_mid : forall wm wr ins, 0 <= wr <= wm -> ins <> [] -> Nor_m wm wr ins = nor_spec wr ins.
Proof. exact Nor_mid_ge_r. Qed.
Theorem C08_nor2_any_mid : forall wm wr a b, 0 <= wr <= wm -> Nor2_m wm wr a b = nor2_spec wr a b.
Proof. exact Nor2_mid_ge_r. Qed.
Theorem C08_xor_mixed : forall w ins, 0 <= w -> (2 <= length ins)%nat -> Forall item_ok ins -> XorW_m mid_max w ins = xor_spec w (map snd ins).
Proof. exact XorW_correct_max. Qed.
Theorem C08_xor_uniform_is_mixed : forall mid wi w ins, Xor_m mid wi w ins = XorW_m mid w (map (pair wi) ins).
Proof. exact Xor_as_W. Qed.
Theorem C08_onehot_mux_mixed : forall wr sels ins, 0 <= wr -> sels <> [] -> length sels = length ins -> Forall item_ok ins ->
  OneHotMuxW_m wr sels ins = onehot_mux_spec wr sels (map snd ins).
Proof. exact OneHotMuxW_correct. Qed.
Theorem C08_onehot_mux_uniform_is_mixed : forall wi wr sels ins, OneHotMux_m wi wr sels ins = OneHotMuxW_m wr sels (map (pair wi) ins).
Proof. exact OneHotMux_as_W. Qed.
Theorem C08_onehot_demux_mixed : forall wa wos a sels, 0 <= wa -> fits wa a -> Forall (fun w => 0 <= w) wos ->
  OneHotDemuxW_m wa wos a sels = map (fun p => if snd p =? 0 then 0 else a mod 2 ^ fst p) (combine wos sels).
Proof. exact OneHotDemuxW_correct. Qed.
Theorem C08_any_equal_mixed : forall wr ins, 1 <= wr -> (2 <= length ins)%nat -> Forall item_ok1 ins ->
  AnyEqualW_m mid_max eqw_max wr ins = any_equal_spec (map snd ins).
Proof. exact AnyEqualW_correct. Qed.
Theorem C08_any_equal_uniform_is_mixed : forall mid eqw w wr ins, AnyEqual_m mid eqw w wr ins = AnyEqualW_m mid eqw wr (map (pair w) ins).
Proof. exact AnyEqual_as_W. Qed.
Example C08_mixed_ex : XorW_m mid_max 4 [(1, 1); (3, 6); (2, 3)] = 4 /\ OneHotMuxW_m 4 [0; 1; 1] [(1, 1); (3, 5); (4, 8)] = 13 /\
  OneHotDemuxW_m 3 [1; 4] 5 [1; 1] = [1; 5] /\ AnyEqualW_m mid_max eqw_max 1 [(1, 1); (3, 5); (4, 1)] = 1 /\ Nor_m 3 3 [1; 6] = 0 /\
  Mux_m 2 8 1 [3; 0xE8; 7; 9] = 0xE8.
Proof. vm_compute. repeat split; reflexivity. Qed.

(* ------------------------------------------------------------------ kernel-level netlist refinement of the n-ary And / Or ladders.
   `and_ladder_design wis w` (Proofs/C08/Netlist.v) is the leaf netlist And.__init__ builds for inputs of widths wis and a result of
   width w inside a bare HWSystem (wires: 0 clk, 1..n inputs, n+1 r, then for n >= 3 the n-2 intermediates and one dangling wire; leaves in
   creation order), in the shape py/netlist.py dumps it.  For EVERY arity n >= 1, every widths and EVERY valuation vs of the wires,
   one Model/SimKernel.propagateAll pass leaves on r what the block model And_m computes from the values on the input wires, leaves the
   inputs untouched, and the result is settled (C04).  The state type of the design is irrelevant (no sequential leaf). *)
Theorem C08_and_ladder_netlist_refines : forall (St : Type) wis w vs, wis <> [] ->
  let D : design St := and_ladder_design wis w in
  let n := length wis in
  length vs = length (widths D) ->
  rd (propagateAll D vs) (ladder_r n) = And_m w (ladder_ins n vs) /\
  (forall j, (j <= n)%nat -> rd (propagateAll D vs) j = rd vs j) /\
  length (propagateAll D vs) = length vs /\ settled D (propagateAll D vs).
Proof. exact (@and_ladder_netlist_refines). Qed.
Theorem C08_or_ladder_netlist_refines : forall (St : Type) wis w vs, wis <> [] ->
  let D : design St := or_ladder_design wis w in
  let n := length wis in
  length vs = length (widths D) ->
  rd (propagateAll D vs) (ladder_r n) = Or_m w (ladder_ins n vs) /\
  (forall j, (j <= n)%nat -> rd (propagateAll D vs) j = rd vs j) /\
  length (propagateAll D vs) = length vs /\ settled D (propagateAll D vs).
Proof. exact (@or_ladder_netlist_refines). Qed.
(* ... hence the reference functions of Spec/C08.v on the wire values *)
Theorem C08_and_ladder_netlist_spec : forall (St : Type) wis w vs, wis <> [] -> 0 <= w ->
  length vs = length (widths (and_ladder_design (St := St) wis w)) ->
  rd (propagateAll (and_ladder_design (St := St) wis w) vs) (ladder_r (length wis)) = and_spec w (ladder_ins (length wis) vs).
Proof. exact (@and_ladder_netlist_spec). Qed.
Theorem C08_or_ladder_netlist_spec : forall (St : Type) wis w vs, wis <> [] -> 0 <= w ->
  length vs = length (widths (or_ladder_design (St := St) wis w)) ->
  rd (propagateAll (or_ladder_design (St := St) wis w) vs) (ladder_r (length wis)) = or_spec w (ladder_ins (length wis) vs).
Proof. exact (@or_ladder_netlist_spec). Qed.
(* C04's hypotheses hold for the ladder of any two-input leaf, any arity *)
Theorem C08_and_ladder_netlist_refines_wellformed : forall (St : Type) g2 wis w,
  let D : design St := ladder_design g2 wis w in ordered (combs D) /\ single_driver (combs D).
Proof. exact (@ladder_design_wellformed). Qed.
(* the hand-written terms ARE what py/netlist.py dumped for live blocks (pasted dumps in Proofs/C08/NetlistDump.v) *)
Theorem C08_ladder_design_is_dump :
  and_ladder_design [3] 3 = NetlistDump.and_dump_1_3 /\ and_ladder_design [3; 3] 3 = NetlistDump.and_dump_2_3 /\
  and_ladder_design [3; 3; 3] 3 = NetlistDump.and_dump_3_3 /\ and_ladder_design [5; 5; 5; 5] 5 = NetlistDump.and_dump_4_5 /\
  and_ladder_design [1; 2; 3; 4; 5] 2 = NetlistDump.and_dump_5_2 /\
  or_ladder_design [2] 2 = NetlistDump.or_dump_1_2 /\ or_ladder_design [4; 4] 4 = NetlistDump.or_dump_2_4 /\
  or_ladder_design [3; 3; 3] 3 = NetlistDump.or_dump_3_3 /\ or_ladder_design [5; 5; 5; 5] 5 = NetlistDump.or_dump_4_5.
Proof. exact (conj (proj1 NetlistDump.and_ladder_design_is_dump_1_3) (conj (proj1 NetlistDump.and_ladder_design_is_dump_2_3)
  (conj (proj1 NetlistDump.and_ladder_design_is_dump_3_3) (conj (proj1 NetlistDump.and_ladder_design_is_dump_4_5)
  (conj (proj1 NetlistDump.and_ladder_design_is_dump_5_2) (conj (proj1 NetlistDump.or_ladder_design_is_dump_1_2)
  (conj (proj1 NetlistDump.or_ladder_design_is_dump_2_4) (conj (proj1 NetlistDump.or_ladder_design_is_dump_3_3)
  (proj1 NetlistDump.or_ladder_design_is_dump_4_5))))))))). Qed.
(* a 5-input And of mixed input widths on a 4-bit result, wires poked to 15, 14, 7, 13, 15 (intermediates hold garbage 9): r = 4 *)
Example C08_ladder_netlist_ex :
  let D : design unit := and_ladder_design [4; 4; 3; 4; 5] 4 in
  let vs := [0; 15; 14; 7; 13; 15; 9; 9; 9; 9; 9] in
  length vs = length (widths D) /\ rd (propagateAll D vs) (ladder_r 5) = 4 /\ And_m 4 (ladder_ins 5 vs) = 4 /\
  propagateAll D vs = [0; 15; 14; 7; 13; 15; 4; 14; 6; 4; 9] /\
  rd (propagateAll (or_ladder_design (St := unit) [2; 2; 2] 2) [0; 1; 0; 2; 0; 0; 0]) (ladder_r 3) = 3.
Proof. vm_compute. repeat split; reflexivity. Qed.

(* one Print Assumptions over the tuple of ALL theorems above (separate ones cost ~1 s each): any axiom used by any of them
   would be listed here. *)
Definition C08_all_theorems :=
  (C08_buf, C08_not, C08_constant, C08_and2, C08_or2,
   C08_nand2, C08_nor2, C08_xor2, C08_xor2_any_policy, C08_xor2_general,
   C08_and, C08_or, C08_xor, C08_xor_any_policy, C08_nor,
   C08_andbits, C08_orbits, C08_bit, C08_range, C08_bits_lsbf,
   C08_bits_msbf, C08_repeat, C08_bufenable, C08_concatenate_msbf, C08_concatenate_lsbf,
   C08_concatenate_msbf_exact, C08_concatenate_lsbf_exact, C08_mux2, C08_mux, C08_decoder,
   C08_demux, C08_onehot_mux, C08_select, C08_onehot_mux_selected, C08_onehot_demux,
   C08_select_default, C08_priority_encoder, C08_priority_encoder_at, C08_minterm, C08_sum_of_minterms,
   C08_equal_constant, C08_equal_constant_general, C08_not_equal_constant, C08_equal, C08_equal_any_policy,
   C08_any_equal, C08_any_equal_any_policy, C08_any_equal_meaning, C08_comparator, C08_comparator_signed_unsigned,
   C08_comparator_signed_unsigned_any_policy, C08_max2, C08_min2, C08_signed_max2, C08_signed_min2,
   C08_signed_max_min_meaning, C08_signed_max_min_any_policy, C08_swap, C08_nor_any_mid, C08_nor2_any_mid,
   C08_xor_mixed, C08_xor_uniform_is_mixed, C08_onehot_mux_mixed, C08_onehot_mux_uniform_is_mixed, C08_onehot_demux_mixed,
   C08_any_equal_mixed, C08_any_equal_uniform_is_mixed,
   C08_priority_encoder_wide, C08_priority_encoder_bit_slice, C08_priority_encoder_wide_at_1, C08_priority_encoder_mixed_uniform,
   C08_priority_encoder_mixed_partial, C08_priority_encoder_mixed_refuted,
   C08_and_ladder_netlist_refines, C08_or_ladder_netlist_refines, C08_and_ladder_netlist_spec, C08_or_ladder_netlist_spec,
   C08_and_ladder_netlist_refines_wellformed, C08_ladder_design_is_dump).
Print Assumptions C08_all_theorems.

(* names used by other developments (Proofs/C01/ComposePrim.v) for the two headline theorems *)
Notation C08_xor2_mid_max := C08_xor2 (only parsing).
Notation C08_equal_eqw_max := C08_equal (only parsing).

(* ------------------------------------------------------------------ history: the width formulas BEFORE the repairs (mid_a, eqw_a).
   These are facts about the parametric model instantiated with the OLD formulas, kept as a record of the two repaired findings; no
   property theorem speaks about them.  The check fails if the probe finds these formulas in /repo again. *)
Example C08_xor2_before_repair_c94f404 : exists wa wb wr a b, fits wa a /\ fits wb b /\ Xor2_m mid_a wa wb wr a b <> xor2_spec wr a b.
Proof. exact Xor2_before_repair_witness. Qed.
Example C08_equal_before_repair_3260a32 : exists wa wb a b, fits wa a /\ fits wb b /\ Equal_m mid_a eqw_a wa wb a b <> equal_spec a b.
Proof. exact Equal_before_repair_witness. Qed.
