(* C16 — AXI4-Stream adapters never lose, duplicate or corrupt a beat.
   Statements only; proofs in Proofs/C16/*.v.  Models: Model/Axi.v — Axi2Reg / Reg2Axi of py4hw/emulation/vitiswrapping.py
   as step functions composed, gate by gate, of the REGENERATED primitives (Gen/Prims.v: And2, Or2, Not, Buf, Range,
   Constant) and the regenerated Reg_clock (Gen/Seq.v).  Meaning: Spec/C16.v (reference machines, history readings).
   Every theorem is for EVERY schedule (list of per-cycle inputs, any length) and every width.
   `pre` = the cycles already elapsed, `i` = the inputs of the current cycle, `pre ++ [i]` = one clock edge later;
   r2a_valid_now / r2a_active_now / a2r_tready = what is on the wires during the current cycle. *)
From V Require Import Base.Bits Spec.C16 Model.Axi.
From V Require Import Proofs.C16.Gates Proofs.C16.Axi2Reg Proofs.C16.Reg2Axi Proofs.C16.Fsm Proofs.C16.Statements Proofs.C16.ClosedLoop.
(* ================================================================== Axi2Reg (stream -> register) *)

(* refinement: after every schedule the gate network + registers show what the reference machine shows
   (clear = reset \/ done \/ (start /\ ~active); beat = active /\ tvalid; (q,loaded)' = clear ? (0,0) : beat ?
   (tdata mod 2^W, 1) : (q,loaded); active' = (reset \/ done) ? 0 : start ? 1 : active) *)
Theorem C16_a2r_refines_reference :
  forall W ins, 1 <= W ->
  a2r_obs (a2r_run W ins) = a2r_ref_obs (a2r_ref_run W ins).
Proof. exact S_a2r_refines_reference. Qed.
(* the property, read off the history: after every schedule  active = tready = "the most recent control event was a
   start";  (q, loaded) = (low W bits of the most recent beat transferred, 1) if no reset / done / restart came at or
   after that beat, else (0, 0)   [a2r_expected, Spec/C16.v] *)
Theorem C16_a2r_holds_most_recent_beat :
  forall W ins, 1 <= W ->
  a2r_obs (a2r_run W ins) = a2r_expected W ins.
Proof. exact S_a2r_holds_most_recent_beat. Qed.
(* READY is asserted exactly while active *)
Theorem C16_a2r_ready_iff_active :
  forall W ins, 1 <= W ->
  a2r_tready (a2r_run W ins) = a2r_active (a2r_run W ins).
Proof. exact S_a2r_ready_iff_active. Qed.
(* the same cycle by cycle, in terms of what is on the wires during the cycle *)
Theorem C16_a2r_cycle :
  forall W pre i, 1 <= W ->
  let s := a2r_run W pre in let s' := a2r_run W (pre ++ [i]) in
  let clear := a_reset i || a_done i || (a_start i && negb (a2r_active s =? 1)) in
  let beat := (a2r_tready s =? 1) && a_tvalid i in
  (clear = true -> a2r_q s' = 0 /\ a2r_loaded s' = 0) /\
  (clear = false -> beat = true -> a2r_q s' = a_tdata i mod 2 ^ W /\ a2r_loaded s' = 1) /\
  (clear = false -> beat = false -> a2r_q s' = a2r_q s /\ a2r_loaded s' = a2r_loaded s) /\
  a2r_active s' = b2z (next_active (a2r_active s =? 1) (a_start i) (a_reset i) (a_done i)).
Proof. exact S_a2r_cycle. Qed.
(* nothing is held while inactive; the payload always fits the register *)
Theorem C16_a2r_idle_is_clear :
  forall W ins, 1 <= W ->
  let s := a2r_run W ins in
  (a2r_active s = 0 -> a2r_loaded s = 0) /\ (a2r_loaded s = 0 -> a2r_q s = 0) /\ 0 <= a2r_q s < 2 ^ W.
Proof. exact S_a2r_idle_is_clear. Qed.
(* ================================================================== Reg2Axi (register -> stream) *)

(* refinement, including LAST and the KEEP constant; KW = width of stream.tkeep *)
Theorem C16_r2a_refines_reference :
  forall W DW KW ins, 1 <= W -> 1 <= DW -> (W + 7) / 8 <= KW ->
  r2a_obs W KW (r2a_run DW ins) = r2a_ref_obs W (r2a_ref_run DW ins).
Proof. exact S_r2a_refines_reference. Qed.
(* VALID never drops early: raised, not accepted in this cycle, no reset -> raised in the next cycle.
   (true under EVERY schedule: this clause needs no assumption on done / start / load_outs) *)
Theorem C16_r2a_valid_held_until_accepted_or_reset :
  forall DW pre i, 1 <= DW ->
  r2a_valid_now (r2a_run DW pre) = true ->
  r2a_accepted (r2a_valid_now (r2a_run DW pre)) i = false ->
  b_reset i = false ->
  r2a_tvalid (r2a_run DW (pre ++ [i])) = 1.
Proof. exact S_r2a_valid_held_until_accepted_or_reset. Qed.
(* ... and a reset does withdraw it: reset clears VALID, sent and active in any cycle; done clears sent and active *)
Theorem C16_r2a_reset_done_clear :
  forall DW pre i, 1 <= DW ->
  (b_reset i = true -> r2a_tvalid (r2a_run DW (pre ++ [i])) = 0 /\ r2a_sent (r2a_run DW (pre ++ [i])) = 0 /\ r2a_active (r2a_run DW (pre ++ [i])) = 0) /\
  (b_done i = true -> r2a_sent (r2a_run DW (pre ++ [i])) = 0 /\ r2a_active (r2a_run DW (pre ++ [i])) = 0).
Proof. exact S_r2a_reset_done_clear. Qed.

(* VALID is raised only by a load pulse taken while active *)
Theorem C16_r2a_valid_raised_only_by_load :
  forall DW pre i, 1 <= DW ->
  r2a_valid_now (r2a_run DW pre) = false -> r2a_tvalid (r2a_run DW (pre ++ [i])) = 1 ->
  r2a_loadp (r2a_active_now (r2a_run DW pre)) i = true.
Proof. exact S_r2a_valid_raised_only_by_load. Qed.
(* TDATA = the value presented at the most recent load pulse (load_outs while active), 0 before the first *)
Theorem C16_r2a_tdata_is_latest_load :
  forall DW ins, 1 <= DW ->
  r2a_tdata (r2a_run DW ins) = r2a_data_hist DW (rev ins) /\
  r2a_active (r2a_run DW ins) = b2z (active_hist (map r2a_ctl (rev ins))).
Proof. exact S_r2a_tdata_is_latest_load. Qed.
(* ... and a W-bit register value on a stream at least as wide is not changed by the mod 2^DW of that reading *)
Theorem C16_r2a_tdata_value_preserved :
  forall W DW x, 0 <= W <= DW -> 0 <= x < 2 ^ W -> x mod 2 ^ DW = x.
Proof. exact S_r2a_tdata_value_preserved. Qed.
(* TDATA moves only at a load pulse (so it is stable while a beat waits unless the kernel loads again) *)
Theorem C16_r2a_tdata_moves_only_on_load :
  forall DW pre i, 1 <= DW ->
  (r2a_loadp (r2a_active_now (r2a_run DW pre)) i = false -> r2a_tdata (r2a_run DW (pre ++ [i])) = r2a_tdata (r2a_run DW pre)) /\
  (r2a_loadp (r2a_active_now (r2a_run DW pre)) i = true -> r2a_tdata (r2a_run DW (pre ++ [i])) = b_regin i mod 2 ^ DW).
Proof. exact S_r2a_tdata_moves_only_on_load. Qed.
(* LAST = VALID;  KEEP = 2^ceil(W/8) - 1 on the DW/8-bit tkeep wire of an AXI4StreamInterface (DW a multiple of 8) *)
Theorem C16_r2a_tlast_is_tvalid :
  forall DW ins, 1 <= DW -> r2a_tlast (r2a_run DW ins) = r2a_tvalid (r2a_run DW ins).
Proof. exact S_r2a_tlast_is_tvalid. Qed.
Theorem C16_r2a_tkeep_constant :
  forall W DW, 1 <= W <= DW -> DW mod 8 = 0 -> r2a_tkeep W (DW / 8) = 2 ^ ((W + 7) / 8) - 1.
Proof. exact S_r2a_tkeep_constant. Qed.
(* sent rises only in the cycle after an accepted beat, and then stays until reset / done / restart *)
Theorem C16_r2a_sent_only_after_accepted_beat :
  forall DW pre i, 1 <= DW ->
  r2a_sent (r2a_run DW pre) = 0 -> r2a_sent (r2a_run DW (pre ++ [i])) = 1 ->
  r2a_accepted (r2a_valid_now (r2a_run DW pre)) i = true /\ r2a_active_now (r2a_run DW pre) = true.
Proof. exact S_r2a_sent_only_after_accepted_beat. Qed.
Theorem C16_r2a_sent_held :
  forall DW pre i, 1 <= DW ->
  r2a_sent (r2a_run DW pre) = 1 ->
  clear_of (r2a_active_now (r2a_run DW pre)) (b_start i) (b_reset i) (b_done i) = false ->
  r2a_sent (r2a_run DW (pre ++ [i])) = 1.
Proof. exact S_r2a_sent_held. Qed.
(* under the property's assumption (done only after a completed transfer: r2a_env_ok, Model/Axi.v), from power-up:
   an accepted beat is withdrawn in the next cycle (each beat is offered until accepted, then not again);
   accepted beats never outnumber load pulses;  and if moreover there is no reset and no load pulse while a beat is
   pending (r2a_env_strict), every load pulse is delivered exactly once or is the one still pending. *)
Theorem C16_r2a_accepted_beat_withdrawn :
  forall DW pre i, 1 <= DW -> r2a_env_ok DW r2a_st0 pre ->
  r2a_accepted (r2a_valid_now (r2a_run DW pre)) i = true -> r2a_tvalid (r2a_run DW (pre ++ [i])) = 0.
Proof. exact S_r2a_accepted_beat_withdrawn. Qed.
Theorem C16_r2a_no_duplicate :
  forall DW ins, 1 <= DW -> r2a_env_ok DW r2a_st0 ins ->
  fst (r2a_counts DW r2a_st0 ins) <= snd (r2a_counts DW r2a_st0 ins).
Proof. exact S_r2a_no_duplicate. Qed.
Theorem C16_r2a_exactly_once :
  forall DW ins, 1 <= DW -> r2a_env_ok DW r2a_st0 ins -> r2a_env_strict DW r2a_st0 ins ->
  fst (r2a_counts DW r2a_st0 ins) + b2z (r2a_valid_now (r2a_run DW ins)) = snd (r2a_counts DW r2a_st0 ins).
Proof. exact S_r2a_exactly_once. Qed.
(* OUTSIDE the assumption (done in the middle of a transfer) the withdrawal clause is false of the faithful model:
   the beat accepted in cycle 3 is still offered in cycle 4 and accepted again: 2 beats for 1 load pulse
   (dup_sched = start; load 5; done; tready; tready).  Not a violation of C16 (its hypothesis excludes the schedule);
   reproduced on the real block, see docs/C16.md. *)
Theorem C16_r2a_done_mid_transfer_duplicates_refuted :
  exists pre i, r2a_accepted (r2a_valid_now (r2a_run 8 pre)) i = true /\ r2a_tvalid (r2a_run 8 (pre ++ [i])) = 1
                /\ r2a_counts 8 r2a_st0 dup_sched = (2, 1).
Proof. exact S_r2a_done_mid_transfer_duplicates_refuted. Qed.
(* ================================================================== control FSMs (extension; generated clock()) *)

(* VitisKernelFSM: legal states are closed, the next state is IDLE -start-> STARTED -load_outs-> LOADED -all_sent-> DONE -> IDLE,
   and ap_done is prepared high only by all_sent seen in LOADED *)
Theorem C16_kernel_fsm_sequence :
  forall st start load sent, vk_legal (vk_state st) ->
  let '(st', o) := vk_step st start load sent in
  vk_legal (vk_state st') /\
  (vk_done o = Some 1 <-> vk_state st = 2 /\ sent = true) /\
  vk_state st' = vk_next (vk_state st) start load sent.
Proof. exact S_kernel_fsm_sequence. Qed.
(* for every schedule of (ap_start, load_outs, all_sent): the ap_done WIRE is high after a cycle iff before it the FSM was
   in LOADED and saw all_sent — i.e. done follows the completed transfers — and it is high exactly while in DONE (one cycle) *)
Theorem C16_kernel_fsm_done_pulse :
  forall pre start load sent,
  let s := vk_sys_run pre in let s' := vk_sys_run (pre ++ [(start, load, sent)]) in
  (vs_done s' = 1 <-> vk_state (vs_st s) = 2 /\ sent = true) /\
  (vs_done s' = 1 <-> vk_state (vs_st s') = 3) /\ (vs_done s' = 0 \/ vs_done s' = 1).
Proof. exact S_kernel_fsm_done_pulse. Qed.
(* Axi2ClkFSM: a handshake taken in IDLE with target n >= 1 gives exactly n clk_out pulses, then load_outs for exactly one
   cycle, then idle, whatever is presented during those 2n+2 cycles and WHATEVER THE COUNTER HELD (a2c_idle c: every run starts
   from zero); cw = width of the clk_count wire *)
Theorem C16_axi2clk_fsm_pulse_train :
  forall cw (n : nat) c ins, 0 <= cw -> (1 <= n)%nat -> Z.of_nat n < 2 ^ cw -> length ins = (2 * n + 2)%nat ->
  a2c_trace cw (a2c_idle c) ((true, Z.of_nat n) :: ins) = a2c_expected n.
Proof. exact S_axi2clk_fsm_pulse_train. Qed.
(* back-to-back requests: a second handshake in the very first idle cycle after a run (the counter still holds the previous
   target) is served exactly: n1 pulses, load_outs, then at once n2 pulses, load_outs, idle.   (Finding C16-F2, repaired in
   /repo by 03e7104; before the repair the second run started from the stale count: see the Example below.) *)
Theorem C16_axi2clk_fsm_back_to_back :
  forall cw (n1 n2 : nat) c ins1 ins2,
  0 <= cw -> (1 <= n1)%nat -> (1 <= n2)%nat -> Z.of_nat n1 < 2 ^ cw -> Z.of_nat n2 < 2 ^ cw ->
  length ins1 = (2 * n1 + 1)%nat -> length ins2 = (2 * n2 + 2)%nat ->
  a2c_trace cw (a2c_idle c) ((true, Z.of_nat n1) :: ins1 ++ (true, Z.of_nat n2) :: ins2) =
  (0, 0) :: concat (repeat [(1, 0); (0, 0)] n1) ++ [(0, 1)] ++ a2c_expected n2.
Proof. exact S_axi2clk_fsm_back_to_back. Qed.

(* history: the same schedule on a hand copy of the transition function as it was BEFORE the repair (Model/Axi.v, not tied to /repo):
   after a 2-pulse run, a back-to-back request for 1 pulse gave 5 pulses in the next 10 cycles and no load_outs; today: 1 pulse, load_outs *)
Example C16_axi2clk_fsm_back_to_back_before_repair_03e7104 :
  let first := (true, 2) :: repeat (false, 0) 5 in
  let second := (true, 1) :: repeat (false, 0) 10 in
  skipn 7 (map fst (a2c_trace_before_03e7104 8 (a2c_idle 0) (first ++ second))) = [1; 0; 1; 0; 1; 0; 1; 0; 1; 0] /\
  Forall (fun p => snd p = 0) (skipn 6 (a2c_trace_before_03e7104 8 (a2c_idle 0) (first ++ second))) /\
  skipn 6 (a2c_trace 8 (a2c_idle 0) (first ++ second)) = [(0, 0); (1, 0); (0, 0); (0, 1); (0, 0); (0, 0); (0, 0); (0, 0); (0, 0); (0, 0); (0, 0)].
Proof. vm_compute. repeat split. repeat constructor. Qed.

(* ================================================================== closing the loop: Reg2Axi <-> VitisKernelFSM (Proofs/C16/ClosedLoop.v)
   The product machine cl_step: the gate-level Reg2Axi (r2a_step) and the FSM wrapper (vk_sys_step = regenerated VitisKernelFSM_clock
   + the wires it prepares) on one clock; Reg2Axi.ap_done := the FSM's ap_done WIRE, FSM.all_sent := Reg2Axi's sent WIRE, ap_start and
   load_outs shared, ap_reset to Reg2Axi only (VitisKernelFSM.clock never reads it).  Outside inputs per cycle: cl_in = (start, reset,
   load_outs, tready, reg_in).  cl_ins DW cl_st0 xs = the schedule Reg2Axi sees inside the loop (done column produced by the FSM);
   cl_load_ok = the kernel's side of the FSM protocol: load_outs is pulsed only while the FSM is in IDLE or STARTED (never between the
   pulse that took it to LOADED and the end of the DONE cycle).  No assumption on start, reset, tready, reg_in.
   /repo's createHILVitis does not instantiate VitisKernelFSM: these are theorems about the INTENDED composition. *)

(* the property's hypothesis ("done is only signalled after a completed transfer") holds along EVERY run of the product *)
Theorem C16_closed_loop_env_ok :
  forall DW xs, 1 <= DW -> cl_load_ok DW cl_st0 xs -> r2a_env_ok DW r2a_st0 (cl_ins DW cl_st0 xs).
Proof. exact cl_env_ok. Qed.
(* Reg2Axi inside the loop IS Reg2Axi under that schedule (so every theorem above about r2a_run applies to it) *)
Theorem C16_closed_loop_is_r2a_run :
  forall DW xs, fst (cl_run DW xs) = r2a_run DW (cl_ins DW cl_st0 xs).
Proof. exact cl_reg2axi_is_run. Qed.
(* in a cycle in which the ap_done wire is high the FSM is in DONE and no beat is pending *)
Theorem C16_closed_loop_done_means_delivered :
  forall DW xs, 1 <= DW -> cl_load_ok DW cl_st0 xs ->
  let c := cl_run DW xs in
  vs_done (snd c) = 1 -> vk_state (vs_st (snd c)) = 3 /\ r2a_tvalid (fst c) = 0.
Proof. exact cl_done_means_delivered. Qed.
(* the clauses that needed r2a_env_ok, with it discharged: resets allowed in the first two *)
Theorem C16_r2a_accepted_beat_withdrawn_closed_loop :
  forall DW xs x, 1 <= DW -> cl_load_ok DW cl_st0 (xs ++ [x]) ->
  r2a_accepted (r2a_valid_now (fst (cl_run DW xs))) (cl_r2a_in (cl_run DW xs) x) = true ->
  r2a_tvalid (fst (cl_run DW (xs ++ [x]))) = 0.
Proof. exact cl_accepted_beat_withdrawn. Qed.
Theorem C16_r2a_no_duplicate_closed_loop :
  forall DW xs, 1 <= DW -> cl_load_ok DW cl_st0 xs ->
  fst (r2a_counts DW r2a_st0 (cl_ins DW cl_st0 xs)) <= snd (r2a_counts DW r2a_st0 (cl_ins DW cl_st0 xs)).
Proof. exact cl_no_duplicate. Qed.
(* exactly once: BOTH hypotheses of C16_r2a_exactly_once are discharged (r2a_env_strict's "no load pulse while a beat is pending"
   follows from cl_load_ok: a beat is pending only while the FSM is in LOADED); what remains is "no reset" *)
Theorem C16_r2a_exactly_once_closed_loop :
  forall DW xs, 1 <= DW -> cl_load_ok DW cl_st0 xs -> cl_no_reset xs ->
  let ins := cl_ins DW cl_st0 xs in
  fst (r2a_counts DW r2a_st0 ins) + b2z (r2a_valid_now (fst (cl_run DW xs))) = snd (r2a_counts DW r2a_st0 ins).
Proof. exact cl_exactly_once. Qed.
(* cl_load_ok is needed: a second load pulse in the very cycle in which the FSM (LOADED) sees all_sent puts a beat on the bus in the
   DONE cycle; ap_done then deactivates Reg2Axi with VALID high (finding C16-F1 reached INSIDE the loop): 3 accepted beats for 2 pulses *)
Theorem C16_closed_loop_reload_in_loaded_refuted :
  exists xs, cl_no_reset xs /\ ~ cl_load_ok 8 cl_st0 xs /\ ~ r2a_env_ok 8 r2a_st0 (cl_ins 8 cl_st0 xs) /\
             r2a_counts 8 r2a_st0 (cl_ins 8 cl_st0 xs) = (3, 2).
Proof. exact cl_reload_witness. Qed.

(* ------------------------------------------------------------------ non-vacuity of the hypotheses *)
Definition ok_sched : list r2a_in :=
  map mkB [(1,0,0,0,0,0); (0,0,0,1,0,9); (0,0,0,0,0,0); (0,0,0,0,1,0); (0,0,1,0,0,0); (1,0,0,0,0,0); (0,0,0,1,1,200); (0,0,0,0,1,3)].
Example C16_env_nonvacuous :
  r2a_env_ok 8 r2a_st0 ok_sched /\ r2a_env_strict 8 r2a_st0 ok_sched /\ r2a_counts 8 r2a_st0 ok_sched = (2, 2) /\
  r2a_obs 5 1 (r2a_run 8 (firstn 3 ok_sched)) = [1; 9; 1; 1; 0; 1].
Proof. vm_compute. repeat split; intros; discriminate || reflexivity. Qed.
Example C16_a2r_nonvacuous :
  a2r_obs (a2r_run 4 (map mkA [(1,0,0,0,0); (0,0,0,1,27); (0,0,0,0,5)])) = [11; 1; 1; 1] /\
  a2r_obs (a2r_run 4 (map mkA [(1,0,0,0,0); (0,0,0,1,27); (0,0,1,1,5)])) = [0; 0; 0; 0].
Proof. vm_compute. auto. Qed.
Example C16_fsm_nonvacuous :
  vs_done (vk_sys_run [(true, false, false); (false, true, false); (false, false, true)]) = 1 /\
  a2c_trace 64 (a2c_idle 0) ((true, 1) :: repeat (false, 0) 4) = a2c_expected 1.
Proof. vm_compute. auto. Qed.

(* two complete rounds through the loop satisfy cl_load_ok / cl_no_reset: the FSM really raises done (cycles 5 and 11), both beats are
   delivered once, the FSM walks 0 1 2 2 2 3 0 0 1 2 2 3 0 *)
Example C16_closed_loop_nonvacuous :
  cl_load_ok 8 cl_st0 cl_sched /\ cl_no_reset cl_sched /\
  map b_done (cl_ins 8 cl_st0 cl_sched) = [false; false; false; false; false; true; false; false; false; false; false; true] /\
  r2a_counts 8 r2a_st0 (cl_ins 8 cl_st0 cl_sched) = (2, 2) /\
  map (fun k => vk_state (vs_st (snd (cl_run 8 (firstn k cl_sched))))) (seq 0 13) = [0; 1; 2; 2; 2; 3; 0; 0; 1; 2; 2; 3; 0].
Proof. exact cl_example. Qed.

(* ================================================================== port direction mapping of the stream interface (session 5)
   Logic.addInterfaceSource / addInterfaceSink (py4hw/base.py 102-171) applied to an interface such as AXI4StreamInterface
   (py4hw/logic/bus/axi.py 144-175: tvalid, tdata, tlast, tkeep, ... source->sink; tready sink->source), in the construction model
   of C11 (Model/Build.v) with the two calls as derived lists of addOut / addIn (Model/BuildIface.v; lemmas in Proofs/C11/Interface.v).
   irun xs = the netlist after ANY calls xs; prow s q = (class, block, name, wire) of port q; port_name prefix signal = '<prefix>_<signal>'
   (the bare signal name for the empty prefix, which is what Axi2Reg / Reg2Axi pass).  Hypotheses: the two calls returned. *)
From V Require Import Model.Build Model.BuildIface Proofs.C11.Interface.

(* the two calls create exactly these ports, in this order: source side  OUT per sourceToSink signal then IN per sinkToSource signal,
   sink side  IN per sourceToSink signal then OUT per sinkToSource signal  (source_rows / sink_rows); nothing else is created *)
Theorem C16_interface_ports_exact : forall xs A B preA preB i s1 s2,
  istep (irun xs) (AddIfaceSource A preA i) = (s1, Ok) ->
  istep s1 (AddIfaceSink B preB i) = (s2, Ok) ->
  (nport s2 = nport (irun xs) + 2 * (length (sourceToSink i) + length (sinkToSource i)) /\
   map (prow s2) (seq (nport (irun xs)) (nport s2 - nport (irun xs))) = source_rows A preA i ++ sink_rows B preB i /\
   (forall q, q < nport (irun xs) -> prow s2 q = prow (irun xs) q) /\
   nobj s2 = nobj (irun xs) /\ nwire s2 = nwire (irun xs))%nat.
Proof. exact interface_ports_exact. Qed.
(* duality: every sourceToSink signal (tvalid, tdata, ...) is an OUT port of the source block A and an IN port of the sink block B
   ON THE SAME WIRE; every sinkToSource signal (tready) is an IN port of A and an OUT port of B on the same wire; every port the two
   calls created is one of these; the earlier ports keep class, block, name and wire and are in exactly the port lists they were in;
   no InOut port appears *)
Theorem C16_interface_directions_dual : forall xs A B preA preB i s1 s2,
  istep (irun xs) (AddIfaceSource A preA i) = (s1, Ok) ->
  istep s1 (AddIfaceSink B preB i) = (s2, Ok) ->
  let s := irun xs in
  ((forall sg w, In (sg, w) (sourceToSink i) ->
     (exists qa, nport s <= qa < nport s2 /\ In qa (oout s2 A) /\ prow s2 qa = (POut, A, port_name preA sg, w)) /\
     (exists qb, nport s <= qb < nport s2 /\ In qb (oin s2 B) /\ prow s2 qb = (PIn, B, port_name preB sg, w))) /\
  (forall sg w, In (sg, w) (sinkToSource i) ->
     (exists qa, nport s <= qa < nport s2 /\ In qa (oin s2 A) /\ prow s2 qa = (PIn, A, port_name preA sg, w)) /\
     (exists qb, nport s <= qb < nport s2 /\ In qb (oout s2 B) /\ prow s2 qb = (POut, B, port_name preB sg, w))) /\
  (forall q, nport s <= q < nport s2 -> In (prow s2 q) (source_rows A preA i ++ sink_rows B preB i)) /\
  (forall q, q < nport s -> prow s2 q = prow s q) /\
  (forall o q, o < nobj s -> q < nport s ->
     (In q (oin s2 o) <-> In q (oin s o)) /\ (In q (oout s2 o) <-> In q (oout s o)) /\ (In q (oinout s2 o) <-> In q (oinout s o))) /\
  (forall o q, In q (oinout s2 o) -> o < nobj s -> q < nport s))%nat.
Proof. exact interface_directions_dual. Qed.
(* when A and B are primitive blocks the direction is also what the WIRES record: A's out-port is the registered source of every
   sourceToSink wire, B's out-port of every sinkToSource wire (C11_interface_source_call_registers / _sink_call_registers), and a second
   source or sink is rejected (C11_interface_second_source_rejected, Properties/C11.v) *)

(* the port-name scheme separates signals, and (for name codes of the harness: 0 <= signal < BUNDLE) prefixes *)
Theorem C16_interface_port_names_distinct :
  (forall pre sg sg', port_name pre sg = port_name pre sg' -> sg = sg') /\
  (forall a a' sg sg', 0 <= sg < BUNDLE -> 0 <= sg' < BUNDLE -> port_name (Some a) sg = port_name (Some a') sg' -> a = a' /\ sg = sg').
Proof. exact port_names_distinct. Qed.

(* an AXI4-Stream-like interface (tvalid = signal 0 on wire 0, tready = signal 1 on wire 1, tdata = signal 2 on wire 2): producer block 1
   with prefix 'n5', consumer block 2 with the empty prefix.  Both calls return; the six ports; who drives and who reads each wire *)
Example C16_interface_axis_example :
  (let s := irun axis_pre in
  let s2 := irun (axis_pre ++ axis_calls) in
  istep s (AddIfaceSource 1 (Some 5%Z) axis) = (iexec s (AddIfaceSource 1 (Some 5%Z) axis), Ok) /\
  istep (iexec s (AddIfaceSource 1 (Some 5%Z) axis)) (AddIfaceSink 2 None axis) = (s2, Ok) /\
  nport s = 0 /\
  map (prow s2) (seq 0 (nport s2)) =
    [(POut, 1, 6000%Z, 0); (POut, 1, 6002%Z, 2); (PIn, 1, 6001%Z, 1);
     (PIn, 2, 0%Z, 0); (PIn, 2, 2%Z, 2); (POut, 2, 1%Z, 1)] /\
  oout s2 1 = [0; 1] /\ oin s2 1 = [2] /\ oin s2 2 = [3; 4] /\ oout s2 2 = [5] /\
  map (wsource s2) [0; 1; 2] = [Some 0; Some 5; Some 1] /\ map (wsinks s2) [0; 1; 2] = [[3]; [2]; [4]])%nat.
Proof. vm_compute. repeat split; reflexivity. Qed.

Print Assumptions C16_a2r_refines_reference.
Print Assumptions C16_a2r_holds_most_recent_beat.
Print Assumptions C16_a2r_ready_iff_active.
Print Assumptions C16_a2r_cycle.
Print Assumptions C16_a2r_idle_is_clear.
Print Assumptions C16_r2a_refines_reference.
Print Assumptions C16_r2a_valid_held_until_accepted_or_reset.
Print Assumptions C16_r2a_reset_done_clear.
Print Assumptions C16_r2a_valid_raised_only_by_load.
Print Assumptions C16_r2a_tdata_is_latest_load.
Print Assumptions C16_r2a_tdata_value_preserved.
Print Assumptions C16_r2a_tdata_moves_only_on_load.
Print Assumptions C16_r2a_tlast_is_tvalid.
Print Assumptions C16_r2a_tkeep_constant.
Print Assumptions C16_r2a_sent_only_after_accepted_beat.
Print Assumptions C16_r2a_sent_held.
Print Assumptions C16_r2a_accepted_beat_withdrawn.
Print Assumptions C16_r2a_no_duplicate.
Print Assumptions C16_r2a_exactly_once.
Print Assumptions C16_r2a_done_mid_transfer_duplicates_refuted.
Print Assumptions C16_kernel_fsm_sequence.
Print Assumptions C16_kernel_fsm_done_pulse.
Print Assumptions C16_axi2clk_fsm_pulse_train.
Print Assumptions C16_axi2clk_fsm_back_to_back.
Print Assumptions C16_closed_loop_env_ok.
Print Assumptions C16_closed_loop_is_r2a_run.
Print Assumptions C16_closed_loop_done_means_delivered.
Print Assumptions C16_r2a_accepted_beat_withdrawn_closed_loop.
Print Assumptions C16_r2a_no_duplicate_closed_loop.
Print Assumptions C16_r2a_exactly_once_closed_loop.
Print Assumptions C16_closed_loop_reload_in_loaded_refuted.
Print Assumptions C16_interface_ports_exact.
Print Assumptions C16_interface_directions_dual.
Print Assumptions C16_interface_port_names_distinct.
