(* C17 — The UART link delivers every byte once, unchanged and in order.
   Statements only; proofs in Proofs/C17/*.v.  UARTSerializer_clock, UARTDeserializer_clock, ClockSyncFSM_clock, Reg_clock and the
   gate functions are REGENERATED from /repo on every run (Gen/Seq.v, Gen/Prims.v); Model/Uart.v wraps them in the cycle semantics. *)
From V Require Import Base.Bits Gen.Seq Model.Uart Spec.C17
  Proofs.C17.Ser Proofs.C17.SwRx Proofs.C17.Des Proofs.C17.Refute Proofs.C17.Cgr Proofs.C17.LinkBounded Proofs.C17.Link Proofs.C17.Line.

(* ---- the line is 8N1.  For every byte value, every state of the READY serializer, EVERY eleven baud intervals
   (gaps g0..g10 between pulses: any phase g0, any spacing, gap 0 included — stronger than "period P >= 2"), whatever the
   producer does with valid / v during the frame:  the tx wire after each edge is 1 at the acceptance edge, 1 until the first
   pulse has been seen, then the frame  0, b0, ..., b7, 1,  each level held for exactly one baud interval (g_k + 1 clocks),
   then 1; ready is low from the acceptance edge through the stop interval and the serializer is READY again one edge later. *)
Theorem ser_frame :
  forall (b cnt txv : Z) (gaps : list nat) (i0 : ser_in) (ins : list ser_in) (il : ser_in),
    length gaps = 11%nat -> si_valid i0 <> 0 -> si_v i0 = b -> map si_pulse ins = pulses gaps ->
    let tr := runs ser_step (ser_ready_state cnt txv) (i0 :: ins ++ [il]) in
    map s_tx tr = 1 :: hold (map S gaps) (1 :: frame8n1 b) ++ [1]
    /\ map s_ready tr = 0 :: repeat 0 (length ins) ++ [1]
    /\ exists c t, final ser_step (ser_ready_state cnt txv) (i0 :: ins ++ [il]) = ser_ready_state c t.
Proof. exact ser_frame_lemma. Qed.

(* ---- the deserializer decodes every correctly sampled frame and hands it over once.  For every byte, every idle deserializer,
   every input history whose sample instants present start, b0..b7 (rx arbitrary between sample instants, consumer's ready
   arbitrary), then the sample instant of the stop bit, then any continuation with at most 9 further sample instants
   (= before a following frame can end):
   - exactly one ready/valid transfer, of value b, iff the consumer is ready at two edges from the stop sample on
     (first: valid rises, second: the transfer); no transfer otherwise, none before;
   - clock_desync is low after every edge except the stop-sample edge (a one-clock pulse);
   - the v wire shows b from the stop-sample edge on;  valid is low throughout the frame. *)
Theorem des_frame :
  forall (b : Z) (s : des) (pre : list des_in) (ic : des_in) (rest : list des_in),
    0 <= b < 256 -> des_idle s ->
    presents di_rx di_sample (frame_head b) pre -> di_sample ic = 1 -> (nhigh di_sample rest <= 9)%nat ->
    let ins := pre ++ ic :: rest in
    des_transfers s ins = (if (2 <=? nhigh di_ready (ic :: rest))%nat then [b] else [])
    /\ map d_desync (runs des_step s ins) = repeat 0 (length pre) ++ 1 :: repeat 0 (length rest)
    /\ map d_v (runs des_step s ins) = repeat (d_v s) (length pre) ++ repeat b (S (length rest))
    /\ map d_valid (runs des_step s pre) = repeat 0 (length pre).
Proof. exact des_frame_lemma. Qed.

(* ---- an independent software receiver (wait for the falling edge, sample mid-bit every P clocks, check start low / stop high)
   recovers the byte from the serializer's tx wire, for every bit period P >= 1 and every phase g0 of the divider *)
Theorem sw_receiver_8n1 :
  forall (b : Z) (P g0 : nat) (cnt txv : Z) (i0 : ser_in) (ins : list ser_in) (il : ser_in),
    0 <= b < 256 -> (1 <= P)%nat -> si_valid i0 <> 0 -> si_v i0 = b ->
    map si_pulse ins = pulses (g0 :: repeat (P - 1)%nat 10) ->
    sw_rx P (map s_tx (runs ser_step (ser_ready_state cnt txv) (i0 :: ins ++ [il]))) = Some b.
Proof. exact sw_receiver_lemma. Qed.

(* ---- extensions: clock generation and recovery, universal in the half period n >= 1 (bit period P = 2n; the ClockDivider constructor
   computes n = int(sysFreq / (2*uartFreq)), i.e. an odd ratio is truncated and the nominal bit period is 2n system clocks) *)

(* the baud pulse: from power-up, whatever rx and desync do, the pulse seen at edge t is high iff t mod P = n — period exactly P *)
Theorem tx_pulse_train :
  forall (n : Z) (ins : list (Z * Z)), 1 <= n ->
    cgr_pulse (final (cgr_stepi n) cgr_init ins) = if Z.of_nat (length ins) mod (2 * n) =? n then 1 else 0.
Proof. exact tx_pulse_train_lemma. Qed.

(* clock recovery: receive side idle (FSM state 0, active low), rx seen low after high at edge e.  As long as desync stays low and
   whatever rx does afterwards, the sample wire at edge e + 1 + j is high iff j mod P = n: the k-th sample instant is at offset
   n + 1 + k*P from the falling edge, and for n >= 2 (ratio >= 4) that is strictly inside line bit k (offsets k*P .. k*P + P - 1) *)
Theorem recovery_phase :
  forall (n : Z) (c : cgr) (d0 : Z) (rxs : list Z),
    1 <= n -> cgr_bits n c -> g_fsm c = mkfsm 0 -> g_active c = 0 -> g_zrx c = 1 -> Forall isbit rxs ->
    let c1 := cgr_step n c 0 d0 in
    cgr_sample (final (fun c rx => cgr_step n c rx 0) c1 rxs) = (if Z.of_nat (length rxs) mod (2 * n) =? n then 1 else 0)
    /\ (2 <= n -> forall k, 0 <= k -> k * (2 * n) < n + 1 + k * (2 * n) < (k + 1) * (2 * n)).
Proof. exact recovery_phase_lemma. Qed.

(* glue: on a line carrying the ten frame levels for P = 2n clocks each, the recovered sample instants read exactly the frame levels *)
Theorem sample_reads_level :
  forall (n k : nat) (b : Z) (rest : list Z), (2 <= n)%nat -> (k < 10)%nat ->
    nth_error (hold (repeat (2 * n)%nat 10) (frame8n1 b) ++ rest) (n + 1 + k * (2 * n)) = nth_error (frame8n1 b) k.
Proof. exact sample_reads_level_lemma. Qed.

(* ---- THE LINK, universally: serializer -> ClockGenerationAndRecovery -> deserializer (Model/Uart.v link_step), from power-up,
   for EVERY half period n >= 2 (every ratio >= 4; bit period P = 2n), EVERY producer behaviour (any byte values, any gaps including
   back-to-back with valid held high, valid/v arbitrary while the serializer is busy) and every consumer that keeps up.
   "keeps_up 2 evs" (Spec/C17.v) is the monitor form of: between two consecutive frame completions (clock_desync pulses, both edges
   included) the consumer's ready is high at two clock edges at least - exactly the guard of des_frame;  "hc_run 2 evs = 2" says the
   same for the stretch after the last completion.  evs are read off wires (clock_desync, ready). *)

(* safety, at every moment: accepted = delivered ++ (at most two bytes still in the pipeline): nothing lost, duplicated, altered, reordered *)
Theorem link_never_loses :
  forall (n : Z) (ins : list link_in),
    2 <= n -> Forall (fun i => 0 <= li_v i < 256) ins -> keeps_up 2 (link_events n link_init ins) ->
    exists pend, link_accepted n link_init ins = link_delivered n link_init ins ++ pend /\ (length pend <= 2)%nat.
Proof. exact link_delivers_safety. Qed.

(* delivery: once the producer has been quiet for 12 bit periods + 8 clocks, every accepted byte HAS been delivered, once, unchanged, in order *)
Theorem link_delivers :
  forall (n : Z) (ins quiet : list link_in),
    2 <= n -> Forall (fun i => 0 <= li_v i < 256) ins -> Forall quiet_in quiet -> 24 * n + 8 <= Z.of_nat (length quiet) ->
    let evs := link_events n link_init (ins ++ quiet) in
    keeps_up 2 evs -> hc_run 2 evs = 2 ->
    link_delivered n link_init (ins ++ quiet) = link_accepted n link_init (ins ++ quiet)
    /\ link_accepted n link_init (ins ++ quiet) = link_accepted n link_init ins.
Proof. exact link_delivers_lemma. Qed.

(* headline corollary: an always-ready consumer *)
Theorem link_delivers_always_ready :
  forall (n : Z) (ins quiet : list link_in),
    2 <= n -> Forall (fun i => 0 <= li_v i < 256) ins -> Forall quiet_in quiet -> 24 * n + 8 <= Z.of_nat (length quiet) ->
    Forall (fun i => li_ready i <> 0) (ins ++ quiet) ->
    link_delivered n link_init (ins ++ quiet) = link_accepted n link_init (ins ++ quiet)
    /\ link_accepted n link_init (ins ++ quiet) = link_accepted n link_init ins.
Proof. exact link_delivers_ready_lemma. Qed.

(* ---- THE LINE OF THE LINK is standard 8N1, universally and for MORE THAN ONE frame.  The tx wire of the composed link (the s_tx wire after
   each clock edge of link_step from power-up; the baud pulses are the ones the link's own divider produces - no assumed schedule),
   for EVERY half period n >= 2 (bit period 2n), EVERY producer behaviour (any bytes, any gaps, back to back, garbage while busy)
   and EVERY consumer (no keeps_up hypothesis: the line does not depend on the receive side).
   sw_rx_all (Spec/C17.v) is the independent software receiver repeated over the record: wait for a falling edge, sample mid-bit at
   the nominal period 2n, start must be 0, eight data bits LSB first, stop must be 1, back to waiting; None = a framing error. *)

(* the record ends with the serializer's ready wire high (= the last frame, stop bit included, is complete):
   the receiver returns exactly the bytes the serializer accepted, in order, and sees no framing error *)
Theorem link_line_8n1_ready :
  forall (n : Z) (ins : list link_in),
    2 <= n -> Forall (fun i => 0 <= li_v i < 256) ins -> s_ready (l_ser (final (link_step n) link_init ins)) = 1 ->
    sw_rx_all (Z.to_nat (2 * n)) (map (fun l => s_tx (l_ser l)) (runs (link_step n) link_init ins)) = Some (link_accepted n link_init ins).
Proof. exact link_line_8n1_ready_lemma. Qed.

(* the same under the hypothesis of the link theorems: the producer is finally quiet (11 bit periods + 5 clocks suffice here, so every
   history allowed by link_delivers, which asks for 24n + 8, is covered) *)
Theorem link_line_8n1 :
  forall (n : Z) (ins quiet : list link_in),
    2 <= n -> Forall (fun i => 0 <= li_v i < 256) ins -> Forall quiet_in quiet -> 22 * n + 5 <= Z.of_nat (length quiet) ->
    sw_rx_all (Z.to_nat (2 * n)) (map (fun l => s_tx (l_ser l)) (runs (link_step n) link_init (ins ++ quiet)))
      = Some (link_accepted n link_init (ins ++ quiet))
    /\ link_accepted n link_init (ins ++ quiet) = link_accepted n link_init ins.
Proof. exact link_line_8n1_lemma. Qed.

(* the line itself, without any receiver: the whole tx record is  high (>= 1 clock), then for each accepted byte b, in order, the ten
   levels of frame8n1 b (low start bit, b0..b7, high stop bit) held EXACTLY 2n clocks each, followed by some clocks high *)
Theorem link_line_frames :
  forall (n : Z) (ins quiet : list link_in),
    2 <= n -> Forall (fun i => 0 <= li_v i < 256) ins -> Forall quiet_in quiet -> 22 * n + 5 <= Z.of_nat (length quiet) ->
    exists (m : nat) (fs : list (Z * nat)),
      map (fun l => s_tx (l_ser l)) (runs (link_step n) link_init (ins ++ quiet)) = repeat 1 (S m) ++ frames_line (Z.to_nat (2 * n)) fs
      /\ map fst fs = link_accepted n link_init ins.
Proof. exact link_line_frames_quiet_lemma. Qed.

(* composition of the whole link model (serializer -> clock generation and recovery -> deserializer), PARTIAL: by exhaustive
   evaluation for all 256 byte values and the half periods 2 <= n <= 10 (one byte) / 2 <= n <= 5 (two bytes back to back), from
   power-up with an always-ready consumer.  Kept as an independent cross-check of the universal theorems above (it evaluates the
   model; it does not use the invariant). *)
Theorem link_delivers_partial :
  (forall n b, 2 <= n <= 10 -> 0 <= b < 256 ->
     link_accepted n link_init (one_byte n b) = [b] /\ link_delivered n link_init (one_byte n b) = [b]) /\
  (forall n b, 2 <= n <= 5 -> 0 <= b < 256 ->
     let ins := two_bytes n b (255 - b) in
     link_accepted n link_init ins = [b; 255 - b] /\ link_delivered n link_init ins = [b; 255 - b]).
Proof. exact (conj link_one_bounded link_two_bounded). Qed.

(* ---- "for all receiver ready/valid timings" is FALSE (known finding C17-consumer-stall): two frames are shown, the consumer is
   not ready until after the second; only the second byte is ever transferred *)
Theorem des_all_pacings_refuted :
  exists (b1 b2 : Z) (f1 f2 rest : list des_in),
    presents di_rx di_sample (frame8n1 b1) f1 /\ presents di_rx di_sample (frame8n1 b2) f2 /\ (2 <= nhigh di_ready rest)%nat /\
    des_transfers des_init (f1 ++ f2 ++ rest) = [b2] /\ b1 <> b2.
Proof.
  exact (ex_intro _ 85 (ex_intro _ 163 (ex_intro _ (show_frame 85) (ex_intro _ (show_frame 163) (ex_intro _ (consumer_ready 5)
    (conj (shown_show_frame 85) (conj (shown_show_frame 163) (conj nready_5 (conj des_stall_witness Z_neq_85_163))))))))).
Qed.

(* the same on the model of the whole link at ratio 4: both bytes are accepted by the serializer, one is delivered *)
Theorem link_all_pacings_refuted :
  exists (n : Z) (ins : list link_in), 2 <= n /\
    link_accepted n link_init ins = [85; 163] /\ link_delivered n link_init ins = [163].
Proof. exact (ex_intro _ 2 (ex_intro _ stall_stimulus (conj (Z.le_refl 2) link_stall_witness))). Qed.

(* ---- non-vacuity: concrete instances satisfying the hypotheses *)
Example ser_frame_instance :
  let gaps := [1; 3; 0; 2; 3; 3; 1; 3; 3; 3; 2]%nat in
  let ins := map (fun p => {| si_valid := 1; si_v := 7; si_pulse := p |}) (pulses gaps) in
  let i0 := {| si_valid := 1; si_v := 165; si_pulse := 0 |} in
  length gaps = 11%nat /\ si_valid i0 <> 0 /\ map si_pulse ins = pulses gaps /\
  map s_tx (runs ser_step (ser_ready_state 3 9) (i0 :: ins ++ [i0])) =
    [1; 1;1; 0;0;0;0; 1; 0;0;0; 1;1;1;1; 0;0;0;0; 0;0; 1;1;1;1; 0;0;0;0; 1;1;1;1; 1;1;1; 1].
Proof. vm_compute. repeat split; discriminate. Qed.

Example des_frame_instance :
  let pre := concat (map show_level (frame_head 163)) in
  let ic := {| di_rx := 1; di_ready := 0; di_sample := 1 |} in
  des_idle des_init /\ presents di_rx di_sample (frame_head 163) pre /\ di_sample ic = 1 /\ (nhigh di_sample (consumer_ready 3) <= 9)%nat /\
  des_transfers des_init (pre ++ ic :: consumer_ready 3) = [163].
Proof. repeat split; try apply shown_levels; vm_compute; try reflexivity. lia. Qed.

Example sw_receiver_instance :
  let ins := map (fun p => {| si_valid := 0; si_v := 0; si_pulse := p |}) (pulses (2 :: repeat 3 10)%nat) in
  let i0 := {| si_valid := 1; si_v := 90; si_pulse := 0 |} in
  sw_rx 4 (map s_tx (runs ser_step (ser_ready_state 0 0) (i0 :: ins ++ [i0]))) = Some 90.
Proof. vm_compute. reflexivity. Qed.

Example recovery_phase_instance :
  let c := cgr_step 3 cgr_init 1 0 in                               (* one clock with the line high *)
  cgr_bits 3 c /\ g_fsm c = mkfsm 0 /\ g_active c = 0 /\ g_zrx c = 1 /\
  map cgr_sample (runs (fun c rx => cgr_step 3 c rx 0) (cgr_step 3 c 0 0) [0; 0; 1; 1; 0; 1; 0; 0; 1; 1]) = [0; 0; 1; 0; 0; 0; 0; 0; 1; 0].
Proof. vm_compute. unfold isbit. repeat split; auto; discriminate. Qed.

Example link_delivers_instance :                                   (* ratio 4; three bytes back to back; consumer ready every third clock *)
  let rd (k : nat) := if (Nat.modulo k 3 =? 0)%nat then 1 else 0 in
  let ins := map (fun k => {| li_valid := 1; li_v := 37 + Z.of_nat (k / 50); li_ready := rd k |}) (seq 0 120) in
  let quiet := map (fun k => {| li_valid := 0; li_v := 0; li_ready := rd k |}) (seq 0 60) in
  let evs := link_events 2 link_init (ins ++ quiet) in
  Forall (fun i => 0 <= li_v i < 256) ins /\ Forall quiet_in quiet /\ 24 * 2 + 8 <= Z.of_nat (length quiet) /\
  keeps_up 2 evs /\ hc_run 2 evs = 2 /\ link_accepted 2 link_init (ins ++ quiet) = [37; 37; 38].
Proof.
  cbv zeta. split; [|split; [|split; [|split; [|split]]]].
  - apply Forall_forall. intros i Hi. apply in_map_iff in Hi as (k & <- & Hk). apply in_seq in Hk. cbn [li_v].
    assert (k / 50 < 3)%nat by (apply Nat.div_lt_upper_bound; lia). lia.
  - apply Forall_forall. intros i Hi. apply in_map_iff in Hi as (k & <- & _). unfold quiet_in. cbn. lia.
  - vm_compute. discriminate.
  - vm_compute. repeat split; intros; try discriminate; auto.
  - vm_compute. reflexivity.
  - vm_compute. reflexivity.
Qed.

Example link_line_8n1_instance :     (* ratio 4; 165 and 115 back to back, 65 after a gap; the consumer is NEVER ready (nothing is delivered) *)
  let ins := map (fun k => {| li_valid := if (k <? 70)%nat || (110 <? k)%nat then 1 else 0; li_v := 165 - 50 * Z.of_nat (k / 40); li_ready := 0 |})
                 (seq 0 125) in
  let quiet := repeat {| li_valid := 0; li_v := 0; li_ready := 0 |} 49 in
  let line := map (fun l => s_tx (l_ser l)) (runs (link_step 2) link_init (ins ++ quiet)) in
  Forall (fun i => 0 <= li_v i < 256) ins /\ Forall quiet_in quiet /\ 22 * 2 + 5 <= Z.of_nat (length quiet) /\
  s_ready (l_ser (final (link_step 2) link_init (ins ++ quiet))) = 1 /\
  link_accepted 2 link_init (ins ++ quiet) = [165; 115; 65] /\ link_delivered 2 link_init (ins ++ quiet) = [] /\
  sw_rx_all 4 line = Some [165; 115; 65] /\
  line = repeat 1 3 ++ frames_line 4 [(165, 4%nat); (115, 28%nat); (65, 19%nat)].
Proof.
  cbv zeta. split; [|split; [|split; [|split; [|split; [|split; [|split]]]]]].
  - apply Forall_forall. intros i Hi. apply in_map_iff in Hi as (k & <- & Hk). apply in_seq in Hk. cbn [li_v].
    assert (Hq : (k / 40 < 4)%nat) by (apply Nat.div_lt_upper_bound; lia). revert Hq. generalize (k / 40)%nat. intros q Hq. lia.
  - apply Forall_forall. intros i Hi. apply repeat_spec in Hi. subst i. unfold quiet_in. cbn. lia.
  - vm_compute. discriminate.
  - vm_compute. reflexivity.
  - vm_compute. reflexivity.
  - vm_compute. reflexivity.
  - vm_compute. reflexivity.
  - vm_compute. reflexivity.
Qed.

Example sw_rx_all_discriminates :    (* the receiver is not trivially satisfied: low stop bit = framing error; a wrong bit period reads other bytes *)
  sw_rx_all 4 (repeat 1 3 ++ frames_line 4 [(165, 4%nat)] ++ hold (repeat 4%nat 10) (frame_head 90 ++ [0]) ++ repeat 1 9) = None /\
  sw_rx_all 4 (repeat 1 3 ++ frames_line 4 [(165, 4%nat); (90, 7%nat)]) = Some [165; 90] /\
  sw_rx_all 5 (repeat 1 3 ++ frames_line 4 [(165, 4%nat); (90, 7%nat)]) <> Some [165; 90] /\
  sw_rx_all 4 (repeat 1 3 ++ frames_line 4 [(165, 4%nat)] ++ hold (repeat 4%nat 6) (frame_head 90)) = Some [165].
Proof. vm_compute. repeat split; discriminate. Qed.

Print Assumptions ser_frame.
Print Assumptions des_frame.
Print Assumptions sw_receiver_8n1.
Print Assumptions tx_pulse_train.
Print Assumptions recovery_phase.
Print Assumptions sample_reads_level.
Print Assumptions link_delivers_partial.
Print Assumptions link_never_loses.
Print Assumptions link_delivers.
Print Assumptions link_delivers_always_ready.
Print Assumptions link_line_8n1_ready.
Print Assumptions link_line_8n1.
Print Assumptions link_line_frames.
Print Assumptions des_all_pacings_refuted.
Print Assumptions link_all_pacings_refuted.
