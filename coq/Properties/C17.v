(* C17 — The UART link delivers every byte once, unchanged and in order.
   Statements only; proofs in Proofs/C17/*.v.  UARTSerializer_clock, UARTDeserializer_clock, ClockSyncFSM_clock, Reg_clock and the
   gate functions are REGENERATED from /repo on every run (Gen/Seq.v, Gen/Prims.v); Model/Uart.v wraps them in the cycle semantics. *)
From V Require Import Base.Bits Gen.Seq Model.Uart Spec.C17
  Proofs.C17.Ser Proofs.C17.SwRx Proofs.C17.Des Proofs.C17.Refute.

(* ---- the line is 8N1.  For every byte value, every state of the READY serializer, EVERY eleven baud intervals
   (gaps g0..g10 between pulses: any phase g0, any spacing, gap 0 included — stronger than "period P >= 2"), whatever the
   producer does with valid / v during the frame:  the tx wire after each edge is 1 at the acceptance edge, 1 until the first
   pulse has been seen, then the frame  0, b0, ..., b7, 1,  each level held for exactly one baud interval (g_k + 1 clocks),
   then 1; ready is low from the acceptance edge through the stop interval and the serializer is READY again one edge later. *)
Theorem ser_frame :
  forall (b cnt txv : Z) (gaps : list nat) (i0 : ser_in) (ins : list ser_in) (il : ser_in),
    length gaps = 11%nat -> si_valid i0 <> 0 -> si_v i0 = b -> map si_pulse ins = pulses gaps ->
    let tr := runs ser_step (ser_ready_state cnt txv) (i0 :: ins ++ [il]) in
    map s_tx tr = 1 :: hold (map S gaps) (1 :: frame8n1 b) ++ [1]
    /\ map s_ready tr = 0 :: repeat 0 (length ins) ++ [1]
    /\ exists c t, final ser_step (ser_ready_state cnt txv) (i0 :: ins ++ [il]) = ser_ready_state c t.
Proof. exact ser_frame_lemma. Qed.

(* ---- the deserializer decodes every correctly sampled frame and hands it over once.  For every byte, every idle deserializer,
   every input history whose sample instants present start, b0..b7 (rx arbitrary between sample instants, consumer's ready
   arbitrary), then the sample instant of the stop bit, then any continuation with at most 9 further sample instants
   (= before a following frame can end):
   - exactly one ready/valid transfer, of value b, iff the consumer is ready at two edges from the stop sample on
     (first: valid rises, second: the transfer); no transfer otherwise, none before;
   - clock_desync is low after every edge except the stop-sample edge (a one-clock pulse);
   - the v wire shows b from the stop-sample edge on;  valid is low throughout the frame. *)
Theorem des_frame :
  forall (b : Z) (s : des) (pre : list des_in) (ic : des_in) (rest : list des_in),
    0 <= b < 256 -> des_idle s ->
    presents di_rx di_sample (frame_head b) pre -> di_sample ic = 1 -> (nhigh di_sample rest <= 9)%nat ->
    let ins := pre ++ ic :: rest in
    des_transfers s ins = (if (2 <=? nhigh di_ready (ic :: rest))%nat then [b] else [])
    /\ map d_desync (runs des_step s ins) = repeat 0 (length pre) ++ 1 :: repeat 0 (length rest)
    /\ map d_v (runs des_step s ins) = repeat (d_v s) (length pre) ++ repeat b (S (length rest))
    /\ map d_valid (runs des_step s pre) = repeat 0 (length pre).
Proof. exact des_frame_lemma. Qed.

(* ---- an independent software receiver (wait for the falling edge, sample mid-bit every P clocks, check start low / stop high)
   recovers the byte from the serializer's tx wire, for every bit period P >= 1 and every phase g0 of the divider *)
Theorem sw_receiver_8n1 :
  forall (b : Z) (P g0 : nat) (cnt txv : Z) (i0 : ser_in) (ins : list ser_in) (il : ser_in),
    0 <= b < 256 -> (1 <= P)%nat -> si_valid i0 <> 0 -> si_v i0 = b ->
    map si_pulse ins = pulses (g0 :: repeat (P - 1)%nat 10) ->
    sw_rx P (map s_tx (runs ser_step (ser_ready_state cnt txv) (i0 :: ins ++ [il]))) = Some b.
Proof. exact sw_receiver_lemma. Qed.

(* ---- "for all receiver ready/valid timings" is FALSE (known finding C17-consumer-stall): two frames are shown, the consumer is
   not ready until after the second; only the second byte is ever transferred *)
Theorem des_all_pacings_refuted :
  exists (b1 b2 : Z) (f1 f2 rest : list des_in),
    presents di_rx di_sample (frame8n1 b1) f1 /\ presents di_rx di_sample (frame8n1 b2) f2 /\ (2 <= nhigh di_ready rest)%nat /\
    des_transfers des_init (f1 ++ f2 ++ rest) = [b2] /\ b1 <> b2.
Proof.
  exact (ex_intro _ 85 (ex_intro _ 163 (ex_intro _ (show_frame 85) (ex_intro _ (show_frame 163) (ex_intro _ (consumer_ready 5)
    (conj (shown_show_frame 85) (conj (shown_show_frame 163) (conj nready_5 (conj des_stall_witness Z_neq_85_163))))))))).
Qed.

(* the same on the model of the whole link at ratio 4: both bytes are accepted by the serializer, one is delivered *)
Theorem link_all_pacings_refuted :
  exists (n : Z) (ins : list link_in), 2 <= n /\
    link_accepted n link_init ins = [85; 163] /\ link_delivered n link_init ins = [163].
Proof. exact (ex_intro _ 2 (ex_intro _ stall_stimulus (conj (Z.le_refl 2) link_stall_witness))). Qed.

Print Assumptions ser_frame.
Print Assumptions des_frame.
Print Assumptions sw_receiver_8n1.
Print Assumptions des_all_pacings_refuted.
Print Assumptions link_all_pacings_refuted.
