(* C20 — the hardware-in-the-loop UART command codec decodes and encodes exactly.
   Statements only; proofs in Proofs/C20/{Ref,Req,Resp,Cmds}.v.
   CMDRequest_clock / CMDResponse_clock are REGENERATED from py4hw/emulation/HILWrapperUART.py on every run
   (Gen/Seq.v); Model/Cmd.v wraps them into cycle semantics (rq_step / rs_step: output wires take the prepared
   value or keep the old one) and adds the environment: a producer that holds valid+char until ready was high at an
   edge, with arbitrary idle gaps (sched = list of (gap, char)); a consumer with an arbitrary ready stream.
   Spec/C20.v: hexval, events of a wire trace (one event per cycle an enable is high), pulse1 (no enable high in two
   consecutive cycles), expected events per command, the reference parser, the response string.
   Every theorem quantifies over ALL widths (rq_w_ok: enables/handshake >= 1 bit, data >= 0 bits), ALL digit strings
   (any length), ALL producer schedules / consumer pacings, and holds for every run length n beyond some N. *)
From V Require Import Base.Bits Gen.Seq Spec.C20 Model.Cmd Proofs.C20.Req Proofs.C20.Resp Proofs.C20.Cmds Proofs.C20.Codec.

(* ---- decoder ---- *)
(* after the digits ds (fed with any timing) the accumulator holds hexval ds; no output pulse *)
Theorem req_hex : forall W, rq_w_ok W -> forall c0 ds p,
  rq_canon c0 -> Forall (fun d => hexdigit d = true) ds -> map snd p = ds ->
  exists N, forall n, (N <= n)%nat ->
    rq_temp (fst (sys_iter W n (c0, p))) = hexval ds /\ rq_state (fst (sys_iter W n (c0, p))) = 1 /\
    snd (sys_iter W n (c0, p)) = [] /\ events (sys_trace W n (c0, p)) = [].
Proof. exact req_hex_thm. Qed.

(* 'I' ds '=' : exactly one event in the whole trace, a set_index_in cycle with index_in = hexval ds mod 2^w;
   no other enable is ever high; all characters were taken; the decoder is back between commands *)
Theorem req_I : forall W, rq_w_ok W -> forall c0 ds p,
  rq_canon c0 -> Forall (fun d => hexdigit d = true) ds -> map snd p = 73 :: ds ++ [61] ->
  exists N, forall n, (N <= n)%nat ->
    events (sys_trace W n (c0, p)) = [EvI (hexval ds mod 2 ^ ww_index_in W)] /\
    pulse1 (rq_o c0) (sys_trace W n (c0, p)) /\
    snd (sys_iter W n (c0, p)) = [] /\
    rq_state (fst (sys_iter W n (c0, p))) = 1 /\ rq_canon (fst (sys_iter W n (c0, p))).
Proof. exact req_I_thm. Qed.

Theorem req_V : forall W, rq_w_ok W -> forall c0 ds p,
  rq_canon c0 -> Forall (fun d => hexdigit d = true) ds -> map snd p = ds ++ [33] ->
  exists N, forall n, (N <= n)%nat ->
    events (sys_trace W n (c0, p)) = [EvV (hexval ds mod 2 ^ ww_v_in W)] /\
    pulse1 (rq_o c0) (sys_trace W n (c0, p)) /\
    snd (sys_iter W n (c0, p)) = [] /\
    rq_state (fst (sys_iter W n (c0, p))) = 1 /\ rq_canon (fst (sys_iter W n (c0, p))).
Proof. exact req_V_thm. Qed.

(* 'O' ds '?' : the set_index_out cycle, then (later) exactly one start_resp cycle *)
Theorem req_O : forall W, rq_w_ok W -> forall c0 ds p,
  rq_canon c0 -> Forall (fun d => hexdigit d = true) ds -> map snd p = 79 :: ds ++ [63] ->
  exists N, forall n, (N <= n)%nat ->
    events (sys_trace W n (c0, p)) = [EvO (hexval ds mod 2 ^ ww_index_out W); EvS] /\
    pulse1 (rq_o c0) (sys_trace W n (c0, p)) /\
    snd (sys_iter W n (c0, p)) = [] /\
    rq_state (fst (sys_iter W n (c0, p))) = 1 /\ rq_canon (fst (sys_iter W n (c0, p))).
Proof. exact req_O_thm. Qed.

(* 'K' ds ';' : exactly hexval ds clk_pulse cycles (the count is not truncated), pairwise separated *)
Theorem req_K : forall W, rq_w_ok W -> forall c0 ds p,
  rq_canon c0 -> Forall (fun d => hexdigit d = true) ds -> map snd p = 75 :: ds ++ [59] ->
  exists N, forall n, (N <= n)%nat ->
    events (sys_trace W n (c0, p)) = repeat EvK (Z.to_nat (hexval ds)) /\
    pulse1 (rq_o c0) (sys_trace W n (c0, p)) /\
    snd (sys_iter W n (c0, p)) = [] /\
    rq_state (fst (sys_iter W n (c0, p))) = 1 /\ rq_canon (fst (sys_iter W n (c0, p))).
Proof. exact req_K_thm. Qed.

(* every stream of well-formed commands (with separators such as '\n'), from power-on or between commands *)
Theorem req_stream : forall W, rq_w_ok W -> forall c0 cmds p,
  rq_canon c0 -> Forall wf_cmd cmds -> map snd p = flat_map encode cmds ->
  exists N, forall n, (N <= n)%nat ->
    events (sys_trace W n (c0, p)) = flat_map (expected (ww_index_in W) (ww_v_in W) (ww_index_out W)) cmds /\
    pulse1 (rq_o c0) (sys_trace W n (c0, p)) /\
    snd (sys_iter W n (c0, p)) = [] /\
    rq_state (fst (sys_iter W n (c0, p))) = 1 /\ rq_canon (fst (sys_iter W n (c0, p))).
Proof. exact req_stream_thm. Qed.

(* ANY input stream on valid/c (no assumption on the producer at all): under ready/valid semantics (a character is
   transferred iff valid and ready are high before an edge) the events seen are a prefix of the reference parser's
   output on the transferred characters, and all of it whenever the decoder is waiting for a character *)
Theorem req_transducer : forall W, rq_w_ok W -> forall c0 ins, rq_canon c0 ->
  exists rest,
    events (map rq_o (rq_run W c0 ins)) ++ rest =
      parse (ww_index_in W) (ww_v_in W) (ww_index_out W) 0 (rq_accepted W c0 ins) /\
    (rq_state (rq_last W c0 ins) = 1 -> rest = []) /\
    pulse1 (rq_o c0) (map rq_o (rq_run W c0 ins)).
Proof. exact req_transducer_thm. Qed.

(* ---- encoder ---- *)
(* a request (start_resp high in an idle cycle, value on vin, ANY k >= 0 on size), then ANY environment stream (ready
   pacing arbitrary; vin/size/start_resp arbitrary, they are ignored while busy) with at least 2k+4 ready cycles:
   the stream splits at the return to idle, and up to there exactly '=' , the k hex digits MSB first, '!' were
   transferred, one per valid&ready edge.  k = 0 gives "=!" (repaired in /repo c870d83, former finding C20-F1). *)
Theorem resp_stream : forall wvalid wv, 1 <= wvalid -> 7 <= wv -> forall c0 value k st r0 env,
  rs_idle c0 -> 0 <= k -> on st = true -> (Z.to_nat (2 * k + 4) <= ready_count env)%nat ->
  let first := {| i_vin := value; i_size := k; i_start := st; i_ready := r0 |} in
  exists pre post, env = pre ++ post /\
    rs_xfers wvalid wv c0 (first :: pre) = response value (Z.to_nat k) /\
    rs_idle (rs_iter wvalid wv c0 (first :: pre)).
Proof. exact resp_stream_thm. Qed.

(* at every moment (no liveness assumption), as long as no new request arrives, what was transferred is a prefix *)
Theorem resp_prefix : forall wvalid wv, 1 <= wvalid -> 7 <= wv -> forall c0 value k st r0 env,
  rs_idle c0 -> 0 <= k -> on st = true -> Forall (fun i => i_start i = 0) env ->
  let first := {| i_vin := value; i_size := k; i_start := st; i_ready := r0 |} in
  exists rest, rs_xfers wvalid wv c0 (first :: env) ++ rest = response value (Z.to_nat k).
Proof. exact resp_prefix_thm. Qed.

(* size = 0: exactly "=!" (a concrete run computed on the regenerated definition; before c870d83 the block raised
   ValueError "negative shift count" here) *)
Theorem resp_size0 : rs_xfers 1 8 rs_reset ({| i_vin := 5; i_size := 0; i_start := 1; i_ready := 1 |} :: map (fun _ => in0 1) (seq 0 8)) = response 5 0 /\
  response 5 0 = [61; 33].
Proof. exact resp_size0_ok. Qed.
Print Assumptions resp_size0.

(* idle stays idle and transfers nothing until start_resp *)
Theorem resp_idle : forall wvalid wv c i, rs_idle c -> i_start i = 0 ->
  rs_step wvalid wv c i = c /\ xfer (rs_o c) (i_ready i) = [].
Proof. exact resp_idle_thm. Qed.

(* ---- decoder and encoder COMPOSED (session 5) ----
   The product machine of Proofs/C20/Codec.v: producer + CMDRequest + CMDResponse clocked by the same edge (codec_step); the
   decoder's start_resp output wire is the encoder's start input, the encoder's vin / size inputs are the (value, size) entry
   of the per-cycle table e_tab selected by the decoder's index_out wire (the resp_v / resp_size muxes), the consumer drives
   ready (e_ready).  Feeding 'O' ds '?' with ANY producer pacing (sched p, as in req_O) makes the encoder transfer EXACTLY
   '=' ++ the k hex digits of the selected value, MSB first, ++ '!' over the WHOLE run (nothing before, nothing after), under
   ANY consumer pacing that has 2k+4 ready cycles after cycle N (N depends only on the decoder side, as in req_O); at the
   end the encoder is idle again, all characters were taken and the decoder is between commands.
   Explicit hypothesis: entry n = hexval ds mod 2^w(index_out) of the table exists and is (v, k) in the cycles of the run
   (the encoder samples it once, in the cycle start_resp is high; the table may change elsewhere). *)
Theorem codec_O : forall W wvalid wv, rq_w_ok W -> 1 <= wvalid -> 7 <= wv -> forall c0 e0 ds p v k,
  rq_canon c0 -> rs_idle e0 -> Forall (fun d => hexdigit d = true) ds -> map snd p = 79 :: ds ++ [63] -> 0 <= k ->
  exists N, forall envs,
    Forall (fun e => nth_error (e_tab e) (Z.to_nat (hexval ds mod 2 ^ ww_index_out W)) = Some (v, k)) envs ->
    (Z.to_nat (2 * k + 4) <= cready_count (skipn N envs))%nat ->
    codec_xfers W wvalid wv (c0, p, e0) envs = response v (Z.to_nat k) /\
    rs_idle (snd (codec_iter W wvalid wv (c0, p, e0) envs)) /\
    snd (fst (codec_iter W wvalid wv (c0, p, e0) envs)) = [] /\
    rq_canon (fst (fst (codec_iter W wvalid wv (c0, p, e0) envs))).
Proof. exact codec_O_thm. Qed.

(* ---- the guards are TIGHT: these two describe limits of the CURRENT behaviour that the theorems' hypotheses exclude
   (a producer that ignores ready; lower-case digits), witnesses by computation on the regenerated definitions; they are
   not findings against C20 (the property assumes the ready/valid port protocol and upper-case hex) ---- *)
Theorem req_without_handshake_refuted :
  exists cs gap,
    events (map rq_o (rq_run W0 rq_reset (pulse_inputs gap cs ++ repeat (0, 0) 20))) <> parse 3 32 2 0 cs /\
    rq_accepted W0 rq_reset (pulse_inputs gap cs ++ repeat (0, 0) 20) <> cs.
Proof. exact Cmds.req_without_handshake_refuted. Qed.

Theorem req_lowercase_refuted :
  exists n, events (sys_trace W0 n (rq_reset, [([], 73); ([], 97); ([], 61)])) = [EvI 0].
Proof. exact Cmds.req_lowercase_refuted. Qed.

(* ---- non-vacuity: the hypotheses hold for the real configuration, and a concrete run ---- *)
Example req_hyps : rq_w_ok W0 /\ rq_canon rq_reset /\
  map snd p0 = flat_map encode [CmdI [49; 65]; CmdX 10; CmdV [50; 70]; CmdO [55]; CmdK [51]] /\
  Forall wf_cmd [CmdI [49; 65]; CmdX 10; CmdV [50; 70]; CmdO [55]; CmdK [51]].
Proof. exact (conj W0_ok (conj reset_canon p0_cmds)). Qed.
Example req_run : events (sys_trace W0 80 (rq_reset, p0)) = [EvI 2; EvV 47; EvO 3; EvS; EvK; EvK; EvK] /\
  snd (sys_iter W0 80 (rq_reset, p0)) = [].
Proof. exact run_instance. Qed.
Example resp_hyps : rs_idle rs_reset.
Proof. exact reset_idle. Qed.
Example resp_run :
  rs_xfers 1 8 rs_reset ({| i_vin := 421; i_size := 4; i_start := 1; i_ready := 0 |} :: env0) = response 421 4 /\
  response 421 4 = [61; 48; 49; 65; 53; 33] /\ (Z.to_nat (2 * 4 + 4) <= ready_count env0)%nat.
Proof. exact resp_instance. Qed.

(* the composed run: "O3?" with producer gaps, output 3 = 0x1A5 on 4 nibbles, consumer ready every third cycle *)
Example codec_run :
  rq_w_ok W0 /\ rq_canon rq_reset /\ rs_idle rs_reset /\ map snd pO = 79 :: [51] ++ [63] /\
  Forall (fun e => nth_error (e_tab e) (Z.to_nat (hexval [51] mod 2 ^ ww_index_out W0)) = Some (421, 4)) envs0 /\
  codec_xfers W0 1 8 (rq_reset, pO, rs_reset) envs0 = response 421 4 /\ response 421 4 = [61; 48; 49; 65; 53; 33] /\
  rs_idle (snd (codec_iter W0 1 8 (rq_reset, pO, rs_reset) envs0)).
Proof. exact codec_instance. Qed.

Print Assumptions req_hex.
Print Assumptions req_I.
Print Assumptions req_V.
Print Assumptions req_O.
Print Assumptions req_K.
Print Assumptions req_stream.
Print Assumptions req_transducer.
Print Assumptions resp_stream.
Print Assumptions resp_prefix.
Print Assumptions resp_idle.
Print Assumptions req_without_handshake_refuted.
Print Assumptions req_lowercase_refuted.
Print Assumptions codec_O.
