(* C07 — integer arithmetic blocks compute their mathematical function for all inputs and all widths.
   Statements only (proofs: Proofs/C07).  Left-hand sides: the REGENERATED primitives (Gen/Prims.v, Gen/Helpers.v)
   and the structural models of Model/StructArith.v that wire them as the constructors do (tied to the real
   constructors by the correspondence sweep).  Right-hand sides: Spec/C07.v.
   Port values satisfy 0 <= v < 2^width (C06); widths are >= 1 in py4hw (stated as the hypotheses used). *)
From V Require Import Base.Bits Gen.WireOps Gen.Helpers Gen.Prims Spec.C07 Model.StructArith.
From V Require Import Proofs.C07.Prims Proofs.C07.Struct Proofs.C07.Rotate Proofs.C07.Shift Proofs.C07.Bcd Proofs.C07.Clz.

(* ---- addition -------------------------------------------------------------------------------- *)
Theorem C07_add_carry_in : forall wr a b ci, 0 <= wr ->
  AddCarryIn_propagate wr a b ci = spec_add wr a b ci.
Proof. exact AddCarryIn_eq. Qed.

(* Add without carry out; ci = None is the constructor's default (internal constant 0) *)
Theorem C07_add : forall wr ci a b, 0 <= wr ->
  m_Add wr ci a b = spec_add wr a b (ci_val ci).
Proof. exact Add_correct. Qed.

(* Add with carry out: r = sum mod 2^wr, co = bit wr of the exact sum *)
Theorem C07_add_carry_out : forall wr wco ci a b, 0 <= wr -> 1 <= wco ->
  m_Add_co wr wco ci a b = (spec_add wr a b (ci_val ci), spec_add_co wr a b (ci_val ci)).
Proof. exact Add_co_correct. Qed.

Theorem C07_signed_add : forall wa wb wr ci a b,
  1 <= wa <= wr -> 1 <= wb <= wr -> 0 <= a < 2 ^ wa -> 0 <= b < 2 ^ wb ->
  m_SignedAdd wa wb wr ci a b = spec_sadd wa wb wr a b (ci_val ci).
Proof. exact SignedAdd_correct. Qed.

Theorem C07_signed_add_carry_out : forall wa wb wr wco ci a b,
  1 <= wa <= wr -> 1 <= wb <= wr -> 1 <= wco -> 0 <= a < 2 ^ wa -> 0 <= b < 2 ^ wb ->
  m_SignedAdd_co wa wb wr wco ci a b = (spec_sadd wa wb wr a b (ci_val ci), spec_sadd_co wa wb wr a b (ci_val ci)).
Proof. exact SignedAdd_co_correct. Qed.

(* ---- subtraction, negation, absolute value, sign, extensions ---------------------------------- *)
Theorem C07_sub : forall wr a b, 0 <= wr -> Sub_propagate wr a b = spec_sub wr a b.
Proof. exact Sub_eq. Qed.

(* SubBorrowIn (repaired in /repo, docs/REPO_FIXES.md 47f090b) *)
Theorem C07_sub_borrow_in : forall wr a b bi, 0 <= wr -> SubBorrowIn_propagate wr a b bi = spec_sub_borrow wr a b bi.
Proof. exact SubBorrowIn_eq. Qed.

Theorem C07_signed_sub : forall wa wb wr a b,
  1 <= wa <= wr -> 1 <= wb <= wr -> 0 <= a < 2 ^ wa -> 0 <= b < 2 ^ wb ->
  m_SignedSub wa wb wr a b = spec_ssub wa wb wr a b.
Proof. exact SignedSub_correct. Qed.

Theorem C07_neg : forall wr a, 0 <= wr -> m_Neg wr a = spec_neg wr a.
Proof. exact Neg_correct. Qed.

(* includes the most negative value: |-2^(wa-1)| = 2^(wa-1), reduced modulo 2^wr *)
Theorem C07_abs : forall wa wr a, 1 <= wa -> 0 <= wr -> 0 <= a < 2 ^ wa ->
  m_Abs wa wr a = spec_abs wa wr a.
Proof. exact Abs_correct. Qed.

Theorem C07_sign : forall wa a, 1 <= wa -> 0 <= a < 2 ^ wa -> m_Sign wa a = spec_sign wa a.
Proof. exact Sign_correct. Qed.

(* every result width, also narrower than the operand *)
Theorem C07_sign_extend : forall wa wr a, 1 <= wa -> 0 <= wr -> 0 <= a < 2 ^ wa ->
  SignExtend_propagate wa wr a = spec_sext wa wr a.
Proof. exact SignExtend_eq. Qed.

Theorem C07_zero_extend : forall wr a, 0 <= wr -> ZeroExtend_propagate wr a = spec_zext wr a.
Proof. exact ZeroExtend_eq. Qed.

(* ---- multiplication, division ---------------------------------------------------------------- *)
Theorem C07_mul : forall wr a b, 0 <= wr -> Mul_propagate wr a b = spec_mul wr a b.
Proof. exact Mul_eq. Qed.

Theorem C07_signed_mul : forall wa wb wr a b,
  1 <= wa -> 1 <= wb -> 0 <= wr -> 0 <= a < 2 ^ wa -> 0 <= b < 2 ^ wb ->
  SignedMul_propagate wa wb wr a b = spec_smul wa wb wr a b.
Proof. exact SignedMul_eq. Qed.

(* rnd = what random.randint returns inside Div/Mod for a zero divisor: irrelevant when b <> 0 *)
Theorem C07_div : forall wr rnd a b, 0 <= wr -> b <> 0 -> Div_propagate wr rnd a b = spec_div wr a b.
Proof. exact Div_eq. Qed.

Theorem C07_mod : forall wr rnd a b, 0 <= wr -> b <> 0 -> Mod_propagate wr rnd a b = spec_mod wr a b.
Proof. exact Mod_eq. Qed.

(* truncating signed division, every width combination, including -2^(wa-1) / -1 *)
Theorem C07_signed_div : forall wa wb wr rnd a b,
  1 <= wa -> 1 <= wb -> 0 <= wr -> 0 <= a < 2 ^ wa -> 0 <= b < 2 ^ wb -> b <> 0 ->
  m_SignedDiv wa wb wr rnd a b = spec_sdiv wa wb wr a b.
Proof. exact SignedDiv_correct. Qed.

(* ---- constant shifts and rotations ------------------------------------------------------------ *)
Theorem C07_shift_left_constant : forall wr n a, 0 <= wr -> 0 <= n ->
  ShiftLeftConstant_propagate wr n a = spec_shl wr a n.
Proof. exact ShiftLeftConstant_eq. Qed.

Theorem C07_shift_right_constant : forall wr n a, 0 <= wr -> 0 <= n ->
  ShiftRightConstant_propagate wr n a = spec_shr wr a n.
Proof. exact ShiftRightConstant_eq. Qed.

(* amounts 0 .. wa (larger amounts raise ValueError in Python: negative shift count).
   Guard wr <= wa: with a wider result the un-masked left part leaks above bit wa (refuted below). *)
Theorem C07_rotate_left_constant : forall wa wr n a, 1 <= wa -> 0 <= wr <= wa -> 0 <= n <= wa -> 0 <= a < 2 ^ wa ->
  RotateLeftConstant_propagate wa wr n a = spec_rotl wa wr a n.
Proof. exact RotateLeftConstant_correct. Qed.

Theorem C07_rotate_right_constant : forall wa wr n a, 1 <= wa -> 0 <= wr <= wa -> 0 <= n <= wa -> 0 <= a < 2 ^ wa ->
  RotateRightConstant_propagate wa wr n a = spec_rotr wa wr a n.
Proof. exact RotateRightConstant_correct. Qed.

(* C07-ROTC-WIDE: repaired in /repo, switched by fixes/C07_switch.py *)
(* every result width, also wider than the operand (C07-ROTC-WIDE repaired) *)
Theorem C07_rotate_left_constant_full : forall wa wr n a, 1 <= wa -> 0 <= wr -> 0 <= n <= wa -> 0 <= a < 2 ^ wa ->
  RotateLeftConstant_propagate wa wr n a = spec_rotl wa wr a n.
Proof. exact RotateLeftConstant_full. Qed.

Theorem C07_rotate_right_constant_full : forall wa wr n a, 1 <= wa -> 0 <= wr -> 0 <= n <= wa -> 0 <= a < 2 ^ wa ->
  RotateRightConstant_propagate wa wr n a = spec_rotr wa wr a n.
Proof. exact RotateRightConstant_full. Qed.

(* ---- variable shifts: every amount 0 <= b < 2^wb, including amounts >= the data width ----------- *)
Theorem C07_shift_left : forall wa wb wr a b,
  0 <= wa -> 1 <= wb -> 0 <= wr -> 0 <= a < 2 ^ wa -> 0 <= b < 2 ^ wb ->
  m_ShiftLeft wa wb wr a b = spec_shl wr a b.
Proof. exact ShiftLeft_correct. Qed.

Theorem C07_shift_right_logical : forall wa wb wr a b,
  0 <= wa -> 1 <= wb -> 0 <= wr -> 0 <= a < 2 ^ wa -> 0 <= b < 2 ^ wb ->
  m_ShiftRight ALogical wa wb wr a b = spec_shr wr a b.
Proof. exact ShiftRight_logical_correct. Qed.

(* arithmetic=True.  Guard: the sign fill of the (wa + 2^wb)-bit pre-extension must reach the top of the
   result, wr + b <= wa + 2^wb (always true when wr <= wa + 1), or the operand is non-negative. *)
Theorem C07_shift_right_arithmetic : forall wa wb wr a b,
  1 <= wa -> 1 <= wb -> 0 <= wr -> 0 <= a < 2 ^ wa -> 0 <= b < 2 ^ wb ->
  wr + b <= wa + 2 ^ wb \/ a < 2 ^ (wa - 1) ->
  m_ShiftRight AArith wa wb wr a b = spec_sar wa wr a b.
Proof. exact ShiftRight_arith_correct. Qed.

Theorem C07_shift_right_arithmetic_std : forall wa wb wr a b,
  1 <= wa -> 1 <= wb -> 0 <= wr <= wa + 1 -> 0 <= a < 2 ^ wa -> 0 <= b < 2 ^ wb ->
  m_ShiftRight AArith wa wb wr a b = spec_sar wa wr a b.
Proof. exact ShiftRight_arith_std. Qed.

(* arithmetic=<wire v>: Mux2 looks at bit 0 of v *)
Theorem C07_shift_right_arithmetic_wire : forall wa wb wr v a b,
  1 <= wa -> 1 <= wb -> 0 <= wr -> 0 <= a < 2 ^ wa -> 0 <= b < 2 ^ wb ->
  wr + b <= wa + 2 ^ wb \/ a < 2 ^ (wa - 1) \/ v mod 2 = 0 ->
  m_ShiftRight (AWire v) wa wb wr a b = if v mod 2 =? 1 then spec_sar wa wr a b else spec_shr wr a b.
Proof. exact ShiftRight_wire_correct. Qed.

(* C07-SAR-WIDE: repaired in /repo, switched by fixes/C07_switch.py *)
(* every result width (C07-SAR-WIDE repaired): no guard *)
Theorem C07_shift_right_arithmetic_full : forall wa wb wr a b,
  1 <= wa -> 1 <= wb -> 0 <= wr -> 0 <= a < 2 ^ wa -> 0 <= b < 2 ^ wb ->
  m_ShiftRight AArith wa wb wr a b = spec_sar wa wr a b.
Proof. exact ShiftRight_arith_full. Qed.

Theorem C07_shift_right_arithmetic_wire_full : forall wa wb wr v a b,
  1 <= wa -> 1 <= wb -> 0 <= wr -> 0 <= a < 2 ^ wa -> 0 <= b < 2 ^ wb ->
  m_ShiftRight (AWire v) wa wb wr a b = if v mod 2 =? 1 then spec_sar wa wr a b else spec_shr wr a b.
Proof. exact ShiftRight_wire_full. Qed.

(* ---- variable rotations: every amount (reduced modulo wa by the specification); each stage must be a legal
   constant rotation, 2^(wb-1) <= wa (otherwise the real block raises ValueError); guard wa <= wr: the
   `shifted` wires have the width of r, so a narrower result loses bits between the stages (refuted below). *)
Theorem C07_rotate_right : forall wa wb wr a b,
  1 <= wa <= wr -> 1 <= wb -> 2 ^ (wb - 1) <= wa -> 0 <= a < 2 ^ wa -> 0 <= b < 2 ^ wb ->
  m_RotateRight wa wb wr a b = spec_rotr wa wr a b.
Proof. exact RotateRight_correct. Qed.

Theorem C07_rotate_left : forall wa wb wr a b,
  1 <= wa <= wr -> 1 <= wb -> 2 ^ (wb - 1) <= wa -> 0 <= a < 2 ^ wa -> 0 <= b < 2 ^ wb ->
  m_RotateLeft wa wb wr a b = spec_rotl wa wr a b.
Proof. exact RotateLeft_correct. Qed.

(* C07-ROT-NARROW: repaired in /repo, switched by fixes/C07_switch.py *)
(* every result width, also narrower than the operand (C07-ROT-NARROW repaired) *)
Theorem C07_rotate_right_full : forall wa wb wr a b,
  1 <= wa -> 0 <= wr -> 1 <= wb -> 2 ^ (wb - 1) <= wa -> 0 <= a < 2 ^ wa -> 0 <= b < 2 ^ wb ->
  m_RotateRight wa wb wr a b = spec_rotr wa wr a b.
Proof. exact RotateRight_full. Qed.

Theorem C07_rotate_left_full : forall wa wb wr a b,
  1 <= wa -> 0 <= wr -> 1 <= wb -> 2 ^ (wb - 1) <= wa -> 0 <= a < 2 ^ wa -> 0 <= b < 2 ^ wb ->
  m_RotateLeft wa wb wr a b = spec_rotl wa wr a b.
Proof. exact RotateLeft_full. Qed.

(* ---- two's-complement helpers (any integer v, also negative / oversized) ----------------------- *)
Theorem C07_signed_to_c2 : forall v w, 0 <= w -> IntegerHelper_signed_to_c2 v w = spec_signed_to_c2 v w.
Proof. exact signed_to_c2_eq. Qed.

Theorem C07_c2_to_signed : forall v w, 1 <= w -> IntegerHelper_c2_to_signed v w = spec_c2_to_signed v w.
Proof. exact c2_to_signed_eq. Qed.

Theorem C07_c2_roundtrip : forall v w, 1 <= w -> - 2 ^ (w - 1) <= v < 2 ^ (w - 1) ->
  IntegerHelper_c2_to_signed (IntegerHelper_signed_to_c2 v w) w = v.
Proof. exact c2_roundtrip. Qed.

(* ---- extensions ------------------------------------------------------------------------------- *)
(* BinaryToBCD: every operand width and every number of digits (also when the value needs more digits) *)
Theorem C07_binary_to_bcd : forall wa wr rnd a, 0 <= wa -> 0 <= wr -> wr mod 4 = 0 -> 0 <= a < 2 ^ wa ->
  m_BinaryToBCD wa wr rnd a = spec_bcd wr a.
Proof. exact BinaryToBCD_correct. Qed.

(* CountLeadingZeros: every input width aw >= 1 and every result width that holds ceil(log2 aw) bits *)
Theorem C07_count_leading_zeros : forall aw rw a, 1 <= aw -> Z.log2_up aw <= rw -> 0 <= a < 2 ^ aw ->
  m_CountLeadingZeros aw rw a = (spec_clz aw rw a, spec_clz_z a).
Proof. exact CountLeadingZeros_correct. Qed.

(* ---- non-vacuity: concrete instances that satisfy the hypotheses ------------------------------- *)
Example C07_ex_signed_div : m_SignedDiv 4 4 4 0 8 15 = 8 /\ spec_sdiv 4 4 4 8 15 = 8.     (* -8 / -1 wraps to 8 *)
Proof. vm_compute. auto. Qed.
Example C07_ex_sar : m_ShiftRight AArith 8 4 8 128 9 = 255 /\ spec_sar 8 8 128 9 = 255.   (* amount >= width: sign fill *)
Proof. vm_compute. auto. Qed.
Example C07_ex_add_co : m_Add_co 4 1 (Some 1) 15 15 = (15, 1).
Proof. vm_compute. auto. Qed.
Example C07_ex_rotl : m_RotateLeft 5 3 5 19 7 = spec_rotl 5 5 19 7 /\ spec_rotl 5 5 19 7 = 14.
Proof. vm_compute. auto. Qed.
Example C07_ex_abs_min : m_Abs 8 8 128 = 128.
Proof. vm_compute. auto. Qed.
Example C07_ex_clz : m_CountLeadingZeros 6 3 5 = (3, 0) /\ m_CountLeadingZeros 6 3 0 = (6, 1).
Proof. vm_compute. auto. Qed.
Example C07_ex_bcd : m_BinaryToBCD 8 12 0 255 = 597.    (* 0x255 *)
Proof. vm_compute. auto. Qed.

Example C07_ex_signed_add : m_SignedAdd 3 2 4 (Some 1) 4 3 = 12 /\ spec_sadd 3 2 4 4 3 1 = 12.          (* -4 + -1 + 1 = -4 *)
Proof. vm_compute. auto. Qed.
Example C07_ex_signed_add_co : m_SignedAdd_co 4 4 4 1 None 15 15 = (14, 1).                                (* -1 + -1 = -2, carry 1 *)
Proof. vm_compute. auto. Qed.
Example C07_ex_signed_sub : m_SignedSub 4 4 5 8 7 = 17 /\ spec_ssub 4 4 5 8 7 = 17.                        (* -8 - 7 = -15 on 5 bits *)
Proof. vm_compute. auto. Qed.
Example C07_ex_sign_extend : SignExtend_propagate 3 8 5 = 253 /\ SignExtend_propagate 3 2 5 = 1.
Proof. vm_compute. auto. Qed.
Example C07_ex_signed_mul : SignedMul_propagate 4 4 8 8 8 = 64 /\ SignedMul_propagate 4 4 8 8 1 = 248.
Proof. vm_compute. auto. Qed.
Example C07_ex_div_mod : Div_propagate 4 7 13 5 = 2 /\ Mod_propagate 4 7 13 5 = 3.
Proof. vm_compute. auto. Qed.
Example C07_ex_rot_const : RotateLeftConstant_propagate 4 4 4 9 = 9 /\ RotateRightConstant_propagate 4 3 1 9 = 4.
Proof. vm_compute. auto. Qed.
Example C07_ex_shift_left : m_ShiftLeft 4 3 6 15 5 = 32 /\ m_ShiftLeft 4 3 6 15 7 = 0.                     (* amount >= result width *)
Proof. vm_compute. auto. Qed.
Example C07_ex_shift_right : m_ShiftRight ALogical 4 3 4 15 4 = 0 /\ m_ShiftRight ALogical 4 3 6 15 1 = 7.
Proof. vm_compute. auto. Qed.
Example C07_ex_sar_wire : m_ShiftRight (AWire 1) 4 2 5 8 3 = 31 /\ m_ShiftRight (AWire 0) 4 2 5 8 3 = 1.
Proof. vm_compute. auto. Qed.
Example C07_ex_rotr : m_RotateRight 5 3 6 19 7 = spec_rotr 5 6 19 7 /\ spec_rotr 5 6 19 7 = 28.
Proof. vm_compute. auto. Qed.
Example C07_ex_c2 : IntegerHelper_c2_to_signed 200 8 = -56 /\ IntegerHelper_signed_to_c2 (-56) 8 = 200 /\ IntegerHelper_c2_to_signed (-1) 4 = -1.
Proof. vm_compute. auto. Qed.

Print Assumptions C07_add_carry_in.
Print Assumptions C07_add.
Print Assumptions C07_add_carry_out.
Print Assumptions C07_signed_add.
Print Assumptions C07_signed_add_carry_out.
Print Assumptions C07_sub.
Print Assumptions C07_sub_borrow_in.
Print Assumptions C07_signed_sub.
Print Assumptions C07_neg.
Print Assumptions C07_abs.
Print Assumptions C07_sign.
Print Assumptions C07_sign_extend.
Print Assumptions C07_zero_extend.
Print Assumptions C07_mul.
Print Assumptions C07_signed_mul.
Print Assumptions C07_div.
Print Assumptions C07_mod.
Print Assumptions C07_signed_div.
Print Assumptions C07_shift_left_constant.
Print Assumptions C07_shift_right_constant.
Print Assumptions C07_rotate_left_constant.
Print Assumptions C07_rotate_right_constant.
(* C07-ROTC-WIDE-pa: repaired in /repo, switched by fixes/C07_switch.py *)
Print Assumptions C07_rotate_left_constant_full.
Print Assumptions C07_rotate_right_constant_full.
Print Assumptions C07_shift_left.
Print Assumptions C07_shift_right_logical.
Print Assumptions C07_shift_right_arithmetic.
Print Assumptions C07_shift_right_arithmetic_std.
Print Assumptions C07_shift_right_arithmetic_wire.
(* C07-SAR-WIDE-pa: repaired in /repo, switched by fixes/C07_switch.py *)
Print Assumptions C07_shift_right_arithmetic_full.
Print Assumptions C07_shift_right_arithmetic_wire_full.
Print Assumptions C07_rotate_right.
Print Assumptions C07_rotate_left.
(* C07-ROT-NARROW-pa: repaired in /repo, switched by fixes/C07_switch.py *)
Print Assumptions C07_rotate_right_full.
Print Assumptions C07_rotate_left_full.
Print Assumptions C07_signed_to_c2.
Print Assumptions C07_c2_to_signed.
Print Assumptions C07_c2_roundtrip.
Print Assumptions C07_binary_to_bcd.
Print Assumptions C07_count_leading_zeros.
