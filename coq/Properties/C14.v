(* C14 — fixed-point blocks agree with exact scaled-integer arithmetic.
   Statements only; proofs are in Proofs/C14/{Prims,Blocks,Helper}.v.
   Models: Model/Fxp.v composes the REGENERATED leaf primitives (Gen/Prims.v: AddCarryIn, Constant, Sub, Bit,
   SignExtend, Mul, Range, BitsLSBF, Not, And2, Buf) exactly as the constructors of FixedPointAdd/Sub/Sign/Mult and
   FixedPointComparator (through Add, EqualConstant, Minterm, And) wire them; Model/FxpHelper.v is helper.FixedPoint
   over the regenerated signExtend.  Spec/C14.v: an encoding v of format (1,i,f), w = 1+i+f, denotes sgn w v / 2^f.
   `wf F`  = one sign bit, non-negative integer and fraction sizes;  `enc F v` = 0 <= v < 2^w (what a wire can hold, C06).
   `None` = the exception the real constructor / propagate raises. *)
From V Require Import Base.Bits Gen.Prims Model.Fxp Model.FxpHelper Spec.C14 Spec.C14Q
  Proofs.C14.Prims Proofs.C14.Blocks Proofs.C14.Helper.

(* adder / subtractor: encoding of the exact sum / difference, modulo 2^w; every format, every pair of operands *)
Theorem C14_add : forall F a b, wf F -> fxadd F F F a b = Some (spec_add (fwidth F) a b).
Proof. exact fxadd_spec. Qed.
Theorem C14_sub : forall F a b, wf F -> fxsub F F F a b = Some (spec_sub (fwidth F) a b).
Proof. exact fxsub_spec. Qed.
(* ... and whenever the exact result is representable, the output DECODES to it (no wrap) *)
Theorem C14_add_exact : forall w a b, 0 < w ->
  - 2 ^ (w - 1) <= fxint w a + fxint w b < 2 ^ (w - 1) -> fxint w (spec_add w a b) = fxint w a + fxint w b.
Proof. exact spec_add_exact. Qed.
Theorem C14_sub_exact : forall w a b, 0 < w ->
  - 2 ^ (w - 1) <= fxint w a - fxint w b < 2 ^ (w - 1) -> fxint w (spec_sub w a b) = fxint w a - fxint w b.
Proof. exact spec_sub_exact. Qed.
(* mixed formats are rejected by the constructors (AssertionError), for add and sub alike *)
Theorem C14_add_mixed_rejected : forall af bf rf a b, ~ (af = bf /\ af = rf) -> fxadd af bf rf a b = None.
Proof. exact fxadd_mixed. Qed.
Theorem C14_sub_mixed_rejected : forall af bf rf a b, ~ (af = bf /\ af = rf) -> fxsub af bf rf a b = None.
Proof. exact fxsub_mixed. Qed.

(* multiplier, three independent formats: floor of the exact product of the signed values rescaled to the result
   format, modulo 2^wr, with low = fa+fb-fr the bottom of the extraction window (below bit 0 the real block raises).
   The product width pw is a parameter of the model (Model/Fxp.v: fxmul_w); the check reads it off the real `m` wire.
   For ANY pw that holds each operand and the whole window [low, low+wr)  (pw >= wa+wb is NOT needed): *)
Theorem C14_mul_any_product_width : forall pw af bf rf a b, wf af -> wf bf -> wf rf -> enc af a -> enc bf b ->
  fwidth af <= pw -> fwidth bf <= pw ->
  0 <= mul_low af bf rf -> mul_low af bf rf + fwidth rf <= pw ->
  fxmul_w pw af bf rf a b = Some (spec_mul (fwidth af) (ffrac af) (fwidth bf) (ffrac bf) (fwidth rf) (ffrac rf) a b).
Proof. exact fxmul_w_spec. Qed.
(* the integer form of the spec is the floor of the RATIONAL product (v/2^fa)*(v'/2^fb)*2^fr *)
Theorem C14_mul_spec_is_rational_floor : forall wa fa wb fb wr fr a b,
  0 <= fa -> 0 <= fb -> 0 <= fr -> 0 <= fa + fb - fr ->
  spec_mul_Q wa fa wb fb wr fr a b = spec_mul wa fa wb fb wr fr a b.
Proof. exact spec_mul_rational. Qed.

(* FixedPointMult as wired in /repo, pw = max(wa+wb, low+wr): every format triple, no guard on the top of the window;
   identical to the wa+wb wiring wherever that one was right *)
Theorem C14_mul : forall af bf rf a b, wf af -> wf bf -> wf rf -> enc af a -> enc bf b ->
  0 <= mul_low af bf rf ->
  fxmul_fixed af bf rf a b = Some (spec_mul (fwidth af) (ffrac af) (fwidth bf) (ffrac bf) (fwidth rf) (ffrac rf) a b).
Proof. exact fxmul_fixed_spec. Qed.
Theorem C14_mul_low_negative : forall af bf rf a b, mul_low af bf rf < 0 -> fxmul_fixed af bf rf a b = None.
Proof. exact fxmul_fixed_window_below. Qed.
Theorem C14_mul_fixed_conservative : forall af bf rf a b, mul_low af bf rf + fwidth rf <= fwidth af + fwidth bf ->
  fxmul_fixed af bf rf a b = fxmul af bf rf a b.
Proof. exact fxmul_fixed_same. Qed.

(* C14-F1: repaired in /repo (226a225); the pre-repair theorems were retired by fixes/C14_switch.py *)

(* sign block: bit i+f, which is 1 exactly for the negative values *)
Theorem C14_sign : forall F a, wf F -> enc F a ->
  fxsign F a = Some (bitZ a (fint F + ffrac F)) /\ fxsign F a = Some (spec_sign (fwidth F) a).
Proof. exact fxsign_both. Qed.

(* comparator: eq is exact for all operands; gt/eq/lt order the denoted values when the difference is representable;
   the guard is tight (most negative vs a positive value reports gt) *)
Theorem C14_cmp_eq : forall F a b, wf F -> enc F a -> enc F b ->
  exists gt lt, fxcmp F F a b = Some (gt, b2z (fxint (fwidth F) a =? fxint (fwidth F) b), lt).
Proof. exact fxcmp_eq. Qed.
Theorem C14_cmp_partial : forall F a b, wf F -> enc F a -> enc F b -> diff_representable (fwidth F) a b ->
  fxcmp F F a b = Some (spec_cmp (fwidth F) a b).
Proof. exact fxcmp_spec. Qed.
Theorem C14_cmp_refuted : exists F a b, wf F /\ enc F a /\ enc F b /\ ~ diff_representable (fwidth F) a b /\
  fxcmp F F a b = Some (1, 0, 0) /\ spec_cmp (fwidth F) a b = (0, 0, 1).
Proof. exact fxcmp_refuted. Qed.

(* the software reference helper.FixedPoint computes the same encodings, for EVERY signed format including those with no
   integer bits (its constructor evaluates (1 << iw) >> 1 since /repo 6fe767a, finding C12-23; it raises only for iw < 0) *)
Theorem C14_helper_add : forall F a b, wf F -> fxh_add F a b = fxadd F F F a b.
Proof. exact fxh_add_agrees. Qed.
Theorem C14_helper_sub : forall F a b, wf F -> fxh_sub F a b = fxsub F F F a b.
Proof. exact fxh_sub_agrees. Qed.
Theorem C14_helper_mult : forall F a b, wf F -> enc F a -> enc F b -> fxh_mult F a b = fxmul_fixed F F F a b.
Proof. exact fxh_mult_agrees_fixed. Qed.
(* C14-F1: repaired in /repo (226a225); the pre-repair theorems were retired by fixes/C14_switch.py *)

(* non-vacuity of the hypotheses, on non-trivial instances *)
Example C14_mul_instance :     (* (1,2,2) x (1,1,3) -> (1,3,2):  -1.75 * 0.625 = -1.09375 -> floor to quarters = -1.25 = 0b111011 *)
  let af := (1, 2, 2) in let bf := (1, 1, 3) in let rf := (1, 3, 2) in
  wf af /\ wf bf /\ wf rf /\ enc af 25 /\ enc bf 5 /\ 0 <= mul_low af bf rf /\
  mul_low af bf rf + fwidth rf <= fwidth af + fwidth bf /\ fxmul_fixed af bf rf 25 5 = Some 59 /\ fxmul_w 12 af bf rf 25 5 = Some 59.
Proof. unfold wf, enc, mul_low. cbn [fsign fint ffrac fwidth]. repeat split; try lia; vm_compute; congruence. Qed.
Example C14_mostneg_instances :
  fxmul_fixed (1, 2, 2) (1, 2, 2) (1, 2, 2) 16 16 = Some 0 /\
  fxmul_fixed (1, 2, 2) (1, 2, 2) (1, 5, 2) 16 16 = Some 64 /\
  fxmul_fixed (1, 2, 2) (1, 2, 2) (1, 5, 4) 16 16 = Some 256.
Proof. vm_compute. auto. Qed.
Example C14_mul_fixed_instances :      (* the witness of C14-F1 and a full-precision accumulator format, repaired wiring *)
  fxmul_fixed (1, 0, 1) (1, 0, 1) (1, 4, 0) 3 1 = Some 31 /\
  fxmul_fixed (1, 1, 2) (1, 1, 2) (1, 4, 4) 15 1 = Some 511 /\
  fxmul_fixed (1, 2, 2) (1, 2, 2) (1, 5, 4) 16 16 = Some 256.
Proof. exact fixed_examples. Qed.
Example C14_cmp_instance :     (* -0.5 < 1.0 in (1,1,1): difference -1.5 representable *)
  let F := (1, 1, 1) in wf F /\ enc F 7 /\ enc F 2 /\ diff_representable (fwidth F) 7 2 /\ fxcmp F F 7 2 = Some (0, 0, 1).
Proof. unfold wf, enc, diff_representable. cbn [fsign fint ffrac fwidth]. repeat split; try lia; vm_compute; congruence. Qed.
Example C14_add_exact_instance : - 2 ^ (4 - 1) <= fxint 4 13 + fxint 4 2 < 2 ^ (4 - 1) /\ spec_add 4 13 2 = 15.
Proof. vm_compute. repeat split; congruence. Qed.
Example C14_helper_instance :  (* (1,2,2): -1.25 * 1.5 -> floor(-1.875 in quarters) = -2.0;  pure fraction (1,0,3): -0.5 * 0.75 = -0.375 = 0b1101 *)
  (let F := (1, 2, 2) in wf F /\ enc F 27 /\ enc F 6 /\ fxh_mult F 27 6 = Some 24) /\
  (let F := (1, 0, 3) in wf F /\ enc F 12 /\ enc F 6 /\ fxh_mult F 12 6 = Some 13).
Proof. unfold wf, enc. cbn [fsign fint ffrac fwidth]. repeat split; try lia; vm_compute; congruence. Qed.

Print Assumptions C14_add.
Print Assumptions C14_sub.
Print Assumptions C14_add_exact.
Print Assumptions C14_sub_exact.
Print Assumptions C14_add_mixed_rejected.
Print Assumptions C14_sub_mixed_rejected.
Print Assumptions C14_mul_any_product_width.
Print Assumptions C14_mul_spec_is_rational_floor.
Print Assumptions C14_mul.
Print Assumptions C14_mul_low_negative.
Print Assumptions C14_mul_fixed_conservative.
Print Assumptions C14_sign.
Print Assumptions C14_cmp_eq.
Print Assumptions C14_cmp_partial.
Print Assumptions C14_cmp_refuted.
Print Assumptions C14_helper_add.
Print Assumptions C14_helper_sub.
Print Assumptions C14_helper_mult.
